(* Proofs/SelectWitness.v — random_valuation, random_clause (for every RNG script) and sat_witness. *)
From Coq Require Import List PeanoNat NArith Lia Bool.
Import ListNotations.
From BddVerif Require Import Model.Bdd Model.Apply Model.Ops Model.Select Proofs.Sem Proofs.Canon Proofs.Reflect
  Proofs.PvalSem Proofs.SelectBase Proofs.SelectWalk.
Open Scope N_scope.

(* ======================================================================================== *)
(* the scripted child choice never picks a zero link                                         *)
Lemma random_child_safe b p script : nz b -> 2 <= p -> p < size b ->
  child b p (fst (random_child b p script)) <> 0.
Proof.
  intros R Hp Hlt. unfold random_child, low_zero, high_zero, child.
  pose proof (kids_not_both_zero b p R Hp Hlt) as K.
  destruct (N.eqb_spec (nlow (get b p)) 0) as [El|El]; cbn [fst].
  - intros Eh. apply K. split; assumption.
  - destruct (N.eqb_spec (nhigh (get b p)) 0) as [Eh|Eh]; cbn [fst]; [exact El|].
    destruct (fst (next_bit script)); assumption.
Qed.

(* ======================================================================================== *)
(* random_clause                                                                             *)
Definition pvset_fold (ds : list dec) (acc : pval) : pval :=
  fold_left (fun pv xc => pv_set pv (N.to_nat (fst xc)) (Some (snd xc))) ds acc.

Lemma random_clause_walk_spec b : wf b -> nz b -> forall fuel p script acc, valid b p -> p <> 0 -> enough b p fuel ->
  exists ds, path b p ds 1 /\ random_clause_walk fuel b p script acc = Ok (pvset_fold ds acc).
Proof.
  intros W R. induction fuel as [|f IH]; intros p script acc V Hp E; [unfold enough in E; lia|].
  cbn [random_clause_walk]. destruct (N.eqb_spec p 1) as [->|Hp1].
  - exists []. split; reflexivity.
  - pose proof V as (Vp & _). assert (Hge : 2 <= p) by lia.
    destruct (N.leb_spec (size b) p); [lia|].
    pose proof (random_child_safe b p script R Hge Vp) as Hs.
    destruct (random_child b p script) as [c s'] eqn:Erc. cbn [fst] in Hs.
    destruct (child_valid b p c W Hge Vp) as (Vq & Hv).
    destruct (IH (child b p c) s' (pv_set acc (N.to_nat (var_of b p)) (Some c)) Vq Hs (enough_child b p c f W Hge Vp E))
      as (ds & P & Hw).
    exists ((var_of b p, c) :: ds). split.
    + cbn [path fst snd]. repeat split; assumption.
    + rewrite Hw. reflexivity.
Qed.

Theorem random_clause_none b script : is_false b = true -> random_clause b script = Ok None.
Proof. intros H. unfold random_clause. now rewrite H. Qed.

Theorem random_clause_spec_benign b script : Benign b -> is_false b = false ->
  exists pv, random_clause b script = Ok (Some pv) /\ is_path b pv.
Proof.
  intros (W & R & _) Hf. unfold random_clause. rewrite Hf.
  pose proof (valid_root b W) as Vr.
  destruct (random_clause_walk_spec b W R (wfuel b) (root b) script [] Vr (root_nonzero b W Hf) (enough_root b W))
    as (ds & P & Hw).
  rewrite Hw. cbn [some_of bind]. eexists. split; [reflexivity|]. exists ds. split; [exact P|].
  destruct (path_vars b W ds (root b) 1 Vr P) as (_ & _ & _ & N).
  destruct (record_path_clause ds N) as (pv & Hpv & Hl). rewrite fold_rec_cset in Hpv. inversion Hpv. subst pv. exact Hl.
Qed.
Print Assumptions random_clause_spec_benign.

Theorem random_clause_spec b script : Canonical b -> is_false b = false ->
  exists pv, random_clause b script = Ok (Some pv) /\ is_path b pv.
Proof. intros C. apply random_clause_spec_benign. apply canonical_benign. exact C. Qed.
Print Assumptions random_clause_spec.

(* ======================================================================================== *)
(* random_valuation                                                                          *)
Lemma rv_loop_spec b : wf b -> nz b -> forall k i p script, valid b p -> p <> 0 -> i <= var_of b p ->
  i + N.of_nat k = nvars b ->
  exists r, random_valuation_loop k b i p script = Ok r /\ length r = k /\
    forall v : val, (forall j, (j < k)%nat -> v (i + N.of_nat j) = nth j r false) -> sem b p v = true.
Proof.
  intros W R. induction k as [|k IH]; intros i p script V Hp Hi Hk.
  - exists []. split; [reflexivity|]. split; [reflexivity|]. intros v _.
    pose proof (var_of_le b p W V) as Hle.
    destruct (N.ltb_spec p 2) as [Hlt|Hge].
    + assert (p = 1) by lia. subst p. reflexivity.
    + destruct V as (Vp & _). destruct (wf_children b p W Hge Vp) as (_ & _ & _ & _ & Hn). lia.
  - cbn [random_valuation_loop]. pose proof V as (Vp & _). destruct (N.leb_spec (size b) p); [lia|].
    destruct (N.eqb_spec (var_of b p) i) as [Ev|Ev]; cbn [negb].
    + (* the current node decides variable i *)
      assert (Hge : 2 <= p).
      { destruct (N.ltb_spec p 2) as [Hlt|Hge]; [|exact Hge]. rewrite (var_of_term b p W V Hlt) in Ev. lia. }
      pose proof (random_child_safe b p script R Hge Vp) as Hs.
      destruct (random_child b p script) as [c s'] eqn:Erc. cbn [fst] in Hs.
      destruct (child_valid b p c W Hge Vp) as (Vq & Hv).
      destruct (IH (i + 1) (child b p c) s' Vq Hs ltac:(lia) ltac:(lia)) as (r & Hr & Hlen & Hsem).
      rewrite Hr. cbn [bind]. exists (c :: r). split; [reflexivity|]. split; [cbn [length]; lia|].
      intros v Hvr. rewrite sem_unfold by assumption. rewrite Ev.
      pose proof (Hvr 0%nat ltac:(lia)) as H0. cbn [nth] in H0. replace (i + N.of_nat 0) with i in H0 by lia.
      rewrite H0. fold (child b p c). apply Hsem. intros j Hj.
      specialize (Hvr (S j) ltac:(lia)). cbn [nth] in Hvr. rewrite <- Hvr. f_equal. lia.
    + (* variable i is skipped: any value *)
      destruct (next_bit script) as [c s'] eqn:Enb.
      destruct (IH (i + 1) p s' V Hp ltac:(lia) ltac:(lia)) as (r & Hr & Hlen & Hsem).
      rewrite Hr. cbn [bind]. exists (c :: r). split; [reflexivity|]. split; [cbn [length]; lia|].
      intros v Hvr. apply Hsem. intros j Hj.
      specialize (Hvr (S j) ltac:(lia)). cbn [nth] in Hvr. rewrite <- Hvr. f_equal. lia.
Qed.

Theorem random_valuation_none b script : is_false b = true -> random_valuation b script = Ok None.
Proof. intros H. unfold random_valuation. now rewrite H. Qed.

Theorem random_valuation_spec_benign b script : Benign b -> is_false b = false ->
  exists l, random_valuation b script = Ok (Some l) /\ sat_list b l.
Proof.
  intros (W & R & _) Hf. unfold random_valuation. rewrite Hf.
  destruct (rv_loop_spec b W R (N.to_nat (nvars b)) 0 (root b) script (valid_root b W) (root_nonzero b W Hf))
    as (r & Hr & Hlen & Hsem); [lia|lia|].
  rewrite Hr. cbn [some_of bind]. exists r. split; [reflexivity|]. split; [exact Hlen|].
  unfold eval. fold (root b). apply Hsem. intros j Hj. unfold val_of_list. f_equal. lia.
Qed.
Print Assumptions random_valuation_spec_benign.

Theorem random_valuation_spec b script : Canonical b -> is_false b = false ->
  exists l, random_valuation b script = Ok (Some l) /\ sat_list b l.
Proof. intros C. apply random_valuation_spec_benign. apply canonical_benign. exact C. Qed.
Print Assumptions random_valuation_spec.

(* ======================================================================================== *)
(* sat_witness: every node other than the root has a parent stored after it (has_parent, SelectBase) *)
Lemma skipn_cons_nth {T} (l : list T) d : forall n x r, skipn n l = x :: r ->
  nth n l d = x /\ skipn (S n) l = r /\ (n < length l)%nat.
Proof.
  induction l as [|a l IH]; intros n x r H.
  - destruct n; discriminate.
  - destruct n as [|n].
    + cbn in H. inversion H; subst. cbn. repeat split. lia.
    + cbn [skipn] in H. destruct (IH n x r H) as (A & B & C). cbn [nth length]. repeat split; try assumption. lia.
Qed.

Lemma skipn_nil_len {T} (l : list T) n : skipn n l = [] -> (length l <= n)%nat.
Proof.
  revert n. induction l as [|a l IH]; intros n H; [cbn; lia|].
  destruct n as [|n]; [discriminate|]. cbn [skipn] in H. specialize (IH n H). cbn [length]. lia.
Qed.

Definition no_later_parent (b : bdd) (find i : N) : Prop := forall j, find < j -> j < i -> 2 <= j -> ~ is_parent b j find.

Lemma sat_witness_scan_spec b : Benign b -> forall nodes i find acc,
  skipn (N.to_nat i) b = nodes -> 2 <= i -> i <= size b -> 1 <= find -> find < i ->
  length acc = N.to_nat (nvars b) -> no_later_parent b find i ->
  (exists ds, path b find ds 1 /\ follows (val_of_list acc) ds) ->
  exists l, sat_witness_scan nodes i find acc = Ok l /\ length l = N.to_nat (nvars b) /\
    exists ds, path b (root b) ds 1 /\ follows (val_of_list l) ds.
Proof.
  intros C. pose proof C as (W & R & T & _).
  induction nodes as [|n nodes IH]; intros i find acc Hsk Hi Hsz Hf1 Hfi Hlen Hnp (ds & P & F).
  - (* end of the array: find must be the root *)
    cbn [sat_witness_scan]. exists acc. split; [reflexivity|]. split; [exact Hlen|].
    apply skipn_nil_len in Hsk. assert (i = size b) by (unfold size in *; lia). subst i.
    assert (find = root b).
    { destruct (N.eq_dec find (root b)) as [E|E]; [exact E|]. exfalso.
      destruct (has_parent b find C Hf1) as (j & J1 & J2 & J3 & J4); [unfold root in *; lia|].
      apply (Hnp j J2 J3 J1 J4). }
    subst find. exists ds. split; assumption.
  - destruct (skipn_cons_nth b dnode _ _ _ Hsk) as (Hn & Hsk' & Hlt).
    assert (Hget : get b i = n) by exact Hn.
    assert (Hi' : i < size b) by (unfold size; lia).
    destruct (kids_lt b T i Hi Hi') as (Kl & Kh). rewrite Hget in Kl, Kh.
    destruct (wf_children b i W Hi Hi') as (Vl & Vh & Hvl & Hvh & Hvn). rewrite Hget in Vl, Vh, Hvl, Hvh.
    assert (Hxn : nvar n < N.of_nat (length acc)) by (unfold var_of in Hvn; rewrite Hget in Hvn; lia).
    assert (Hsk2 : skipn (N.to_nat (i + 1)) b = nodes) by (replace (N.to_nat (i + 1)) with (S (N.to_nat i)) by lia; exact Hsk').
    (* moving to the parent i with branch c *)
    assert (Hmove : forall c, child b i c = find ->
      forall acc', length acc' = length acc ->
        (forall y, nth (N.to_nat y) acc' false = if y =? nvar n then c else nth (N.to_nat y) acc false) ->
      exists l, sat_witness_scan nodes (i + 1) i acc' = Ok l /\ length l = N.to_nat (nvars b) /\
        exists ds, path b (root b) ds 1 /\ follows (val_of_list l) ds).
    { intros c Hc acc' Hlen' Hnth.
      apply IH; try assumption; try lia.
      - intros j J1 J2. lia.
      - exists ((var_of b i, c) :: ds). split.
        + cbn [path fst snd]. repeat split; try assumption. rewrite Hc. exact P.
        + apply follows_cons. unfold val_of_list. split.
          * rewrite Hnth. unfold var_of. rewrite Hget. now rewrite N.eqb_refl.
          * intros y e Hy. rewrite Hnth.
            assert (Vf : valid b find) by (rewrite <- Hc; unfold child; rewrite Hget; destruct c; assumption).
            destruct (path_vars b W ds find 1 Vf P) as (_ & _ & Hin & _). destruct (Hin y e Hy) as (Hy1 & _).
            assert (Hvi : var_of b i = nvar n) by (unfold var_of; now rewrite Hget).
            assert (nvar n < var_of b find) by (rewrite <- Hvi, <- Hc; unfold child; rewrite Hget; destruct c; assumption).
            destruct (N.eqb_spec y (nvar n)); [lia|]. apply (F y e Hy). }
    cbn [sat_witness_scan]. destruct (N.eqb_spec (nlow n) find) as [El|El].
    + destruct (vset_ok acc (nvar n) false Hxn) as (acc' & Hv & Hlen' & Hnth). rewrite Hv. cbn [bind fst snd].
      destruct (N.eqb_spec (nhigh n) i) as [Eh|Eh]; [lia|]. cbn [bind fst snd].
      apply (Hmove false); [unfold child; rewrite Hget; exact El|exact Hlen'|exact Hnth].
    + cbn [bind fst snd]. destruct (N.eqb_spec (nhigh n) find) as [Eh|Eh].
      * destruct (vset_ok acc (nvar n) true Hxn) as (acc' & Hv & Hlen' & Hnth). rewrite Hv. cbn [bind fst snd].
        apply (Hmove true); [unfold child; rewrite Hget; exact Eh|exact Hlen'|exact Hnth].
      * cbn [bind fst snd]. apply IH; try assumption; try lia.
        -- intros j J1 J2 J3. destruct (N.eq_dec j i) as [->|Hne]; [|apply Hnp; lia].
           unfold is_parent. rewrite Hget. intros [H|H]; congruence.
        -- exists ds. split; assumption.
Qed.

Theorem sat_witness_none b : is_false b = true -> sat_witness b = Ok None.
Proof. intros H. unfold sat_witness. now rewrite H. Qed.

Theorem sat_witness_spec_benign b : Benign b -> is_false b = false ->
  exists l, sat_witness b = Ok (Some l) /\ sat_list b l.
Proof.
  intros C Hf. pose proof C as (W & R & _). unfold sat_witness. rewrite Hf.
  pose proof (is_false_false_size b W Hf) as Hs.
  destruct (sat_witness_scan_spec b C (skipn 2 b) 2 1 (all_same (nvars b) false)) as (l & Hl & Hlen & ds & P & F);
    try reflexivity; try lia.
  - apply all_same_length.
  - intros j J1 J2. lia.
  - exists []. split; [reflexivity|]. intros x c [].
  - rewrite Hl. cbn [some_of bind]. exists l. split; [reflexivity|]. split; [exact Hlen|].
    unfold eval. fold (root b). rewrite (path_sem b W ds (root b) 1 _ P F). reflexivity.
Qed.
Print Assumptions sat_witness_spec_benign.

Theorem sat_witness_spec b : Canonical b -> is_false b = false ->
  exists l, sat_witness b = Ok (Some l) /\ sat_list b l.
Proof. intros C. apply sat_witness_spec_benign. apply canonical_benign. exact C. Qed.
Print Assumptions sat_witness_spec.
