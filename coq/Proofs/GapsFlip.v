(* Proofs/GapsFlip.v — property C04, ternary counterpart of Proofs/FusedUnfused.v: performing the four variable
   flips and the ternary operator as separate steps (flip a, flip b, flip c with the stand-alone single-operand flip
   `flip_opt`, then `ternary_op`, then flip the output) yields the very same node array as the single fused call
   `fused_ternary_flip_op A B C fa fb fc fo op`.

   Strength.  Operands only need to be VALID (wf).  For the compositional model `fused_ternary_flip_op` NO hypothesis on
   the table is needed (the model reads the table on total inputs only, through `conn3`); for the order-faithful engine
   `fused_ternary_flip_op_faithful` (Model/Apply3.v, the one the driver reports) the table must be total and consistent
   (`ternary_faithful_eq`). *)
From Coq Require Import List NArith Lia Bool.
Import ListNotations.
From BddVerif Require Import Model.Bdd Model.Apply Model.Ops Model.Apply3 Proofs.Sem Proofs.Canon Proofs.ApplySem Proofs.ApplyTop
  Proofs.TernSem Proofs.FusedUnfused Proofs.Apply3Sem.
Open Scope N_scope.

(* ---- the five separate steps never fail ---- *)
Theorem unfused_ternary_total A B C fa fb fc fo op :
  wf A -> wf B -> wf C -> nvars A = nvars B -> nvars B = nvars C ->
  (flip_ok (nvars A) fa && flip_ok (nvars A) fb && flip_ok (nvars A) fc && flip_ok (nvars A) fo = true) ->
  exists A' B' C' R U, flip_opt fa A = Ok A' /\ flip_opt fb B = Ok B' /\ flip_opt fc C = Ok C' /\
    ternary_op A' B' C' op = Ok R /\ flip_opt fo R = Ok U /\
    wf A' /\ wf B' /\ wf C' /\ Canonical U /\ nvars U = nvars A /\
    forall v, eval U v = conn3 op (eval A (oflip fa (oflip fo v))) (eval B (oflip fb (oflip fo v)))
                                  (eval C (oflip fc (oflip fo v))).
Proof.
  intros WA WB WC NAB NBC FL.
  apply andb_true_iff in FL. destruct FL as (FL & Fo).
  apply andb_true_iff in FL. destruct FL as (FL & Fc).
  apply andb_true_iff in FL. destruct FL as (Fa & Fb).
  destruct (flip_opt_correct fa A WA Fa) as (A' & EA & WA' & _ & _ & NA' & SA).
  rewrite NAB in Fb.
  destruct (flip_opt_correct fb B WB Fb) as (B' & EB & WB' & _ & _ & NB' & SB).
  rewrite NAB, NBC in Fc.
  destruct (flip_opt_correct fc C WC Fc) as (C' & EC & WC' & _ & _ & NC' & SC).
  assert (NAB' : nvars A' = nvars B') by congruence.
  assert (NBC' : nvars B' = nvars C') by congruence.
  destruct (ternary_op_correct A' B' C' op WA' WB' WC' NAB' NBC') as (R & ER & CR & NR & SR).
  assert (Fo' : flip_ok (nvars R) fo = true) by (rewrite NR, NA'; exact Fo).
  destruct (flip_opt_correct fo R (proj1 CR) Fo') as (U & EU & _ & CU & _ & NU & SU).
  exists A', B', C', R, U.
  split; [exact EA|]. split; [exact EB|]. split; [exact EC|]. split; [exact ER|]. split; [exact EU|].
  split; [exact WA'|]. split; [exact WB'|]. split; [exact WC'|].
  split; [exact (CU CR)|]. split; [congruence|].
  intros v. rewrite SU, SR, SA, SB, SC. reflexivity.
Qed.
Print Assumptions unfused_ternary_total.

(* ---- main theorem: flips and ternary operator as separate steps = the fused call, as arrays ---- *)
Theorem fused_ternary_eq_unfused : forall A B C fa fb fc fo op,
  wf A -> wf B -> wf C -> nvars A = nvars B -> nvars B = nvars C ->
  (flip_ok (nvars A) fa && flip_ok (nvars A) fb && flip_ok (nvars A) fc && flip_ok (nvars A) fo = true) ->
  forall A' B' C' R U,
    flip_opt fa A = Ok A' -> flip_opt fb B = Ok B' -> flip_opt fc C = Ok C' ->
    ternary_op A' B' C' op = Ok R -> flip_opt fo R = Ok U ->
    fused_ternary_flip_op A B C fa fb fc fo op = Ok U.
Proof.
  intros A B C fa fb fc fo op WA WB WC NAB NBC FL A' B' C' R U EA EB EC ER EU.
  destruct (unfused_ternary_total A B C fa fb fc fo op WA WB WC NAB NBC FL)
    as (A2 & B2 & C2 & R2 & U2 & EA2 & EB2 & EC2 & ER2 & EU2 & _ & _ & _ & CU & NU & SU).
  rewrite EA in EA2. inversion EA2; subst A2.
  rewrite EB in EB2. inversion EB2; subst B2.
  rewrite EC in EC2. inversion EC2; subst C2.
  rewrite ER in ER2. inversion ER2; subst R2.
  rewrite EU in EU2. inversion EU2; subst U2.
  destruct (fused_ternary_flip_op_correct A B C fa fb fc fo op WA WB WC NAB NBC FL) as (r & E & Cr & Nr & Sr).
  rewrite E. f_equal. apply canonical_unique; try assumption; [congruence|].
  intros v. rewrite Sr, SU. reflexivity.
Qed.
Print Assumptions fused_ternary_eq_unfused.

(* ---- the same for the order-faithful engine (total consistent table) ---- *)
Theorem unfused_ternary_faithful_total A B C fa fb fc fo op :
  wf A -> wf B -> wf C -> nvars A = nvars B -> nvars B = nvars C ->
  (flip_ok (nvars A) fa && flip_ok (nvars A) fb && flip_ok (nvars A) fc && flip_ok (nvars A) fo = true) ->
  total3 op -> consistent3 op ->
  exists A' B' C' R U, flip_opt fa A = Ok A' /\ flip_opt fb B = Ok B' /\ flip_opt fc C = Ok C' /\
    ternary_op_faithful A' B' C' op = Ok R /\ flip_opt fo R = Ok U /\ Canonical U /\ nvars U = nvars A /\
    forall v, eval U v = conn3 op (eval A (oflip fa (oflip fo v))) (eval B (oflip fb (oflip fo v)))
                                  (eval C (oflip fc (oflip fo v))).
Proof.
  intros WA WB WC NAB NBC FL T K.
  destruct (unfused_ternary_total A B C fa fb fc fo op WA WB WC NAB NBC FL)
    as (A' & B' & C' & R & U & EA & EB & EC & ER & EU & WA' & WB' & WC' & CU & NU & SU).
  exists A', B', C', R, U. split; [exact EA|]. split; [exact EB|]. split; [exact EC|].
  split; [|split; [exact EU|split; [exact CU|split; [exact NU|exact SU]]]].
  unfold ternary_op_faithful. rewrite ternary_faithful_eq by assumption. exact ER.
Qed.
Print Assumptions unfused_ternary_faithful_total.

Theorem fused_ternary_faithful_eq_unfused : forall A B C fa fb fc fo op,
  wf A -> wf B -> wf C -> nvars A = nvars B -> nvars B = nvars C ->
  (flip_ok (nvars A) fa && flip_ok (nvars A) fb && flip_ok (nvars A) fc && flip_ok (nvars A) fo = true) ->
  total3 op -> consistent3 op ->
  forall A' B' C' R U,
    flip_opt fa A = Ok A' -> flip_opt fb B = Ok B' -> flip_opt fc C = Ok C' ->
    ternary_op_faithful A' B' C' op = Ok R -> flip_opt fo R = Ok U ->
    fused_ternary_flip_op_faithful A B C fa fb fc fo op = Ok U.
Proof.
  intros A B C fa fb fc fo op WA WB WC NAB NBC FL T K A' B' C' R U EA EB EC ER EU.
  destruct (unfused_ternary_total A B C fa fb fc fo op WA WB WC NAB NBC FL)
    as (A2 & B2 & C2 & _ & _ & EA2 & EB2 & EC2 & _ & _ & WA' & WB' & WC' & _).
  rewrite EA in EA2. inversion EA2; subst A2.
  rewrite EB in EB2. inversion EB2; subst B2.
  rewrite EC in EC2. inversion EC2; subst C2.
  rewrite ternary_faithful_eq by assumption.
  unfold ternary_op_faithful in ER. rewrite ternary_faithful_eq in ER by assumption.
  exact (fused_ternary_eq_unfused A B C fa fb fc fo op WA WB WC NAB NBC FL A' B' C' R U EA EB EC ER EU).
Qed.
Print Assumptions fused_ternary_faithful_eq_unfused.

(* concrete instance: A = x0 /\ x1, B = x1 \/ x2, C = x2 over 3 variables, flips (0, 2, 2, 1), operator if-then-else *)
Example fused_ternary_unfused_example :
  let A := [mkNode 3 0 0; mkNode 3 1 1; mkNode 1 0 1; mkNode 0 0 2] in
  let B := [mkNode 3 0 0; mkNode 3 1 1; mkNode 2 0 1; mkNode 1 2 1] in
  let C := [mkNode 3 0 0; mkNode 3 1 1; mkNode 2 0 1] in
  canonicalb A = true /\ canonicalb B = true /\ canonicalb C = true /\
  exists A' B' C' R U,
    flip_var A 0 = Ok A' /\ flip_var B 2 = Ok B' /\ flip_var C 2 = Ok C' /\
    ternary_op A' B' C' ite_function = Ok R /\ ternary_op_faithful A' B' C' ite_function = Ok R /\ flip_var R 1 = Ok U /\
    A' <> A /\ B' <> B /\ C' <> C /\ U <> R /\
    fused_ternary_flip_op A B C (Some 0) (Some 2) (Some 2) (Some 1) ite_function = Ok U /\
    fused_ternary_flip_op_faithful A B C (Some 0) (Some 2) (Some 2) (Some 1) ite_function = Ok U.
Proof.
  cbv zeta. split; [vm_compute; reflexivity|]. split; [vm_compute; reflexivity|]. split; [vm_compute; reflexivity|].
  eexists. eexists. eexists. eexists. eexists.
  split; [vm_compute; reflexivity|]. split; [vm_compute; reflexivity|]. split; [vm_compute; reflexivity|].
  split; [vm_compute; reflexivity|]. split; [vm_compute; reflexivity|]. split; [vm_compute; reflexivity|].
  split; [discriminate|]. split; [discriminate|]. split; [discriminate|]. split; [discriminate|].
  split; vm_compute; reflexivity.
Qed.
Print Assumptions fused_ternary_unfused_example.
