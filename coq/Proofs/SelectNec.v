(* Proofs/SelectNec.v — necessary_clause. *)
From Coq Require Import List PeanoNat NArith Lia Bool.
Import ListNotations.
From BddVerif Require Import Model.Bdd Model.Apply Model.Ops Model.Select Proofs.Sem Proofs.Canon Proofs.Reflect
  Proofs.PvalSem Proofs.SelectBase Proofs.SelectWalk Proofs.SelectWitness Proofs.SelectPred.
Open Scope N_scope.

Theorem necessary_clause_none b : is_false b = true -> necessary_clause b = Ok None.
Proof. intros H. unfold necessary_clause. now rewrite H. Qed.

Lemma some_of_ok {T} (o : outcome T) r : some_of o = Ok r -> exists x, r = Some x.
Proof. destruct o as [x| |]; cbn; intros H; inversion H. now exists x. Qed.

(* whenever the call returns, it returns None exactly on the constant-false diagram *)
Theorem necessary_clause_none_iff b r : necessary_clause b = Ok r -> (r = None <-> is_false b = true).
Proof.
  unfold necessary_clause. destruct (is_false b) eqn:Hf.
  - intros H. inversion H. tauto.
  - destruct (is_true b).
    + intros H. inversion H. split; discriminate.
    + cbv zeta. intros H.
      assert (exists x, r = Some x) as (x & ->).
      { repeat match type of H with
               | bind ?o _ = Ok _ => destruct o; cbn [bind] in H; try discriminate
               end.
        apply (some_of_ok _ _ H). }
      split; discriminate.
Qed.

(* ======================================================================================== *)
(* Stage A: which variables are free, which are forced                                       *)
(* every decision node is reachable from the root (part of the benign shape; for the library layout: canonical_benign) *)
Lemma reach_all b : Benign b -> forall p, 2 <= p -> p < size b -> exists ds, path b (root b) ds p.
Proof. intros (_ & _ & _ & RA). exact RA. Qed.

(* a root-to-1 path through the branch c of node p; it tests no variable strictly between p and its child *)
Lemma through b p c : Benign b -> 2 <= p -> p < size b -> child b p c <> 0 ->
  exists ds, path b (root b) ds 1 /\ In (var_of b p, c) ds /\
    forall x, var_of b p < x -> x < var_of b (child b p c) -> ~ In x (map fst ds).
Proof.
  intros C Hp Hlt Hnz. pose proof C as (W & R & _).
  destruct (reach_all b C p Hp Hlt) as (ds1 & P1).
  destruct (child_valid b p c W Hp Hlt) as (Vq & Hv).
  destruct (nonzero_path b _ W R Vq Hnz) as (ds2 & P2).
  exists (ds1 ++ (var_of b p, c) :: ds2). split; [|split].
  - apply (path_app b ds1 _ p); [exact P1|]. cbn [path fst snd]. repeat split; assumption.
  - apply in_or_app. right. now left.
  - intros x H1 H2 Hin. apply in_map_iff in Hin. destruct Hin as ([y d] & E & Hy). cbn in E. subst y.
    apply in_app_or in Hy. destruct Hy as [Hy|[Hy|Hy]].
    + destruct (path_vars b W ds1 (root b) p (valid_root b W) P1) as (_ & _ & Hin & _). destruct (Hin x d Hy). lia.
    + inversion Hy. lia.
    + destruct (path_vars b W ds2 _ 1 Vq P2) as (_ & _ & Hin & _). destruct (Hin x d Hy). lia.
Qed.

Definition free (b : bdd) (x : N) : Prop := exists v w, eval b v = true /\ eval b w = true /\ v x <> w x.
Definition possible (b : bdd) (x : N) (c : bool) : Prop := exists v, eval b v = true /\ v x = c.

Lemma path_eval b ds v : wf b -> path b (root b) ds 1 -> follows v ds -> eval b v = true.
Proof. intros W P F. unfold eval. fold (root b). rewrite (path_sem b W ds (root b) 1 v P F). reflexivity. Qed.

Lemma follows_upd v ds x c : follows v ds -> ~ In x (map fst ds) -> follows (upd v x c) ds.
Proof.
  intros F H y d Hy. rewrite upd_other; [apply F; exact Hy|].
  intros ->. apply H. apply in_map_iff. exists (x, d). split; [reflexivity|exact Hy].
Qed.

Lemma free_possible b x : possible b x true -> possible b x false -> free b x.
Proof. intros (v & Hv & Ev) (w & Hw & Ew). exists v, w. repeat split; try assumption. congruence. Qed.

Lemma free_untested b ds x : wf b -> path b (root b) ds 1 -> ~ In x (map fst ds) -> free b x.
Proof.
  intros W P H. destruct (path_vars b W ds (root b) 1 (valid_root b W) P) as (_ & _ & _ & N).
  pose proof (tval_follows ds false N) as F.
  apply free_possible; [exists (upd (tval ds false) x true)|exists (upd (tval ds false) x false)];
    (split; [apply (path_eval b ds _ W P); apply follows_upd; assumption|apply upd_same]).
Qed.

Lemma possible_branch b p c : Benign b -> 2 <= p -> p < size b -> child b p c <> 0 -> possible b (var_of b p) c.
Proof.
  intros C Hp Hlt Hnz. pose proof C as (W & _). destruct (through b p c C Hp Hlt Hnz) as (ds & P & Hin & _).
  destruct (path_vars b W ds (root b) 1 (valid_root b W) P) as (_ & _ & _ & N).
  exists (tval ds false). split; [apply (path_eval b ds _ W P); apply tval_follows; exact N|].
  apply (tval_follows ds false N). exact Hin.
Qed.

Lemma free_edge b p c x : Benign b -> 2 <= p -> p < size b -> child b p c <> 0 ->
  var_of b p < x -> x < var_of b (child b p c) -> free b x.
Proof.
  intros C Hp Hlt Hnz H1 H2. pose proof C as (W & _). destruct (through b p c C Hp Hlt Hnz) as (ds & P & _ & Hno).
  apply (free_untested b ds x W P). apply Hno; assumption.
Qed.

Lemma free_above_root b x : Benign b -> is_false b = false -> x < var_of b (root b) -> free b x.
Proof.
  intros C Hf Hx. pose proof C as (W & R & _).
  destruct (nonzero_path b (root b) W R (valid_root b W) (root_nonzero b W Hf)) as (ds & P).
  apply (free_untested b ds x W P). intros Hin. apply in_map_iff in Hin. destruct Hin as ([y d] & E & Hy). cbn in E. subst y.
  destruct (path_vars b W ds (root b) 1 (valid_root b W) P) as (_ & _ & Hin & _). destruct (Hin x d Hy). lia.
Qed.

(* no edge to a non-zero node jumps over x *)
Definition no_skip (b : bdd) (x : N) : Prop :=
  forall p c, 2 <= p -> p < size b -> child b p c <> 0 -> ~ (var_of b p < x /\ x < var_of b (child b p c)).

Lemma forced_value b x c : wf b -> x < nvars b -> no_skip b x ->
  (forall p, 2 <= p -> p < size b -> var_of b p = x -> child b p (negb c) = 0) ->
  forall fuel p v, valid b p -> enough b p fuel -> var_of b p <= x -> sem b p v = true -> v x = c.
Proof.
  intros W Hx NS HF. induction fuel as [|f IH]; intros p v V E Hv Hs; [unfold enough in E; lia|].
  destruct (N.ltb_spec p 2) as [Hlt|Hge].
  - rewrite (var_of_term b p W V Hlt) in Hv. lia.
  - pose proof V as (Vp & _). destruct (N.eq_dec (var_of b p) x) as [Ex|Ex].
    + destruct (sem_forced b p c v W Hge Vp (HF p Hge Vp Ex) Hs) as (A & _). now rewrite <- Ex.
    + pose proof (sem_true_child b p v W Hge Vp Hs) as Hc. set (cc := v (var_of b p)) in *.
      assert (Hnz : child b p cc <> 0) by (intros Ez; rewrite Ez in Hc; cbn in Hc; discriminate).
      destruct (child_valid b p cc W Hge Vp) as (Vq & Hvq).
      apply (IH (child b p cc) v Vq (enough_child b p cc f W Hge Vp E)); [|exact Hc].
      destruct (N.le_gt_cases (var_of b (child b p cc)) x) as [Hle|Hgt]; [exact Hle|].
      exfalso. apply (NS p cc Hge Vp Hnz). split; lia.
Qed.

Lemma node_with_var b x : wf b -> nz b -> x < nvars b -> no_skip b x ->
  forall fuel p, valid b p -> p <> 0 -> enough b p fuel -> var_of b p <= x ->
  exists q, 2 <= q /\ q < size b /\ var_of b q = x.
Proof.
  intros W R Hx NS. induction fuel as [|f IH]; intros p V Hp E Hv; [unfold enough in E; lia|].
  destruct (N.ltb_spec p 2) as [Hlt|Hge].
  - rewrite (var_of_term b p W V Hlt) in Hv. lia.
  - pose proof V as (Vp & _). destruct (N.eq_dec (var_of b p) x) as [Ex|Ex]; [exists p; repeat split; assumption|].
    set (cc := low_zero b p). pose proof (safe_low_zero b R p Hge Vp) as Hnz. fold cc in Hnz.
    destruct (child_valid b p cc W Hge Vp) as (Vq & Hvq).
    apply (IH (child b p cc) Vq Hnz (enough_child b p cc f W Hge Vp E)).
    destruct (N.le_gt_cases (var_of b (child b p cc)) x) as [Hle|Hgt]; [exact Hle|].
    exfalso. apply (NS p cc Hge Vp Hnz). split; lia.
Qed.

(* ======================================================================================== *)
(* Stage B: the bit vectors                                                                  *)
Definition mk (l : list bool) (x : N) : bool := nth (N.to_nat x) l false.

Lemma vset_mk l x c : x < N.of_nat (length l) ->
  exists l', vset l x c = Ok l' /\ length l' = length l /\ forall y, mk l' y = if y =? x then c else mk l y.
Proof. exact (vset_ok l x c). Qed.

Lemma vget_mk l x : x < N.of_nat (length l) -> vget l x = Ok (mk l x).
Proof. intros H. unfold vget, mk. rewrite (nth_error_nth' l false) by lia. reflexivity. Qed.

Lemma nth_skipn' {T} : forall n (l : list T) i d, nth i (skipn n l) d = nth (n + i) l d.
Proof.
  induction n as [|n IH]; intros l i d; [reflexivity|].
  destruct l as [|a l]; [destruct i; reflexivity|]. cbn [skipn Nat.add nth]. apply IH.
Qed.

Lemma in_skipn {T} (l : list T) k n d : In n (skipn k l) <-> exists i, (k <= i)%nat /\ (i < length l)%nat /\ nth i l d = n.
Proof.
  split.
  - intros H. destruct (In_nth _ _ d H) as (j & Hj & Ej). rewrite skipn_length in Hj. rewrite nth_skipn' in Ej.
    exists (k + j)%nat. repeat split; try lia. exact Ej.
  - intros (i & H1 & H2 & E). replace i with (k + (i - k))%nat in E by lia. rewrite <- nth_skipn' in E. rewrite <- E.
    apply nth_In. rewrite skipn_length. lia.
Qed.

Definition is_node (b : bdd) (n : node) : Prop := exists p, 2 <= p /\ p < size b /\ get b p = n.

Lemma in_nodes b n : In n (skipn 2 b) <-> is_node b n.
Proof.
  rewrite (in_skipn b 2 n dnode). unfold is_node, get, size. split.
  - intros (i & H1 & H2 & E). exists (N.of_nat i). rewrite Nnat.Nat2N.id. repeat split; try lia. exact E.
  - intros (p & H1 & H2 & E). exists (N.to_nat p). repeat split; try lia. exact E.
Qed.

Lemma node_facts b n : wf b -> is_node b n ->
  nvar n < nvars b /\ nvar n < var_of b (nlow n) /\ nvar n < var_of b (nhigh n) /\
  var_of b (nlow n) <= nvars b /\ var_of b (nhigh n) <= nvars b.
Proof.
  intros W (p & Hp & Hlt & <-). destruct (wf_children b p W Hp Hlt) as (Vl & Vh & Hl & Hh & Hn).
  pose proof (var_of_le b _ W Vl). pose proof (var_of_le b _ W Vh). unfold var_of in *. repeat split; assumption.
Qed.

(* the variables a node designates as free in pass 2 *)
Definition rng (b : bdd) (n : node) : N * N :=
  if nhigh n =? 0 then (nvar n + 1, var_of b (nlow n))
  else if nlow n =? 0 then (nvar n + 1, var_of b (nhigh n))
  else (nvar n, N.max (var_of b (nhigh n)) (var_of b (nlow n))).
Definition in_rng (b : bdd) (n : node) (x : N) : Prop := fst (rng b n) <= x /\ x < snd (rng b n).

Lemma in_rng_free b n x : Benign b -> is_node b n -> in_rng b n x -> free b x.
Proof.
  intros C (p & Hp & Hlt & <-) (H1 & H2). pose proof C as (W & R & _).
  pose proof (kids_not_both_zero b p R Hp Hlt) as K. unfold rng in H1, H2. fold (var_of b p) in H1, H2.
  destruct (N.eqb_spec (nhigh (get b p)) 0) as [Eh|Eh]; cbn [fst snd] in H1, H2.
  - apply (free_edge b p false x C Hp Hlt); unfold child; [intros El; apply K; split; assumption|lia|exact H2].
  - destruct (N.eqb_spec (nlow (get b p)) 0) as [El|El]; cbn [fst snd] in H1, H2.
    + apply (free_edge b p true x C Hp Hlt); unfold child; [exact Eh|lia|exact H2].
    + destruct (N.eq_dec x (var_of b p)) as [->|Hne].
      * apply free_possible; [apply (possible_branch b p true C Hp Hlt)|apply (possible_branch b p false C Hp Hlt)]; assumption.
      * destruct (N.lt_ge_cases x (var_of b (nlow (get b p)))) as [Hl|Hl].
        -- apply (free_edge b p false x C Hp Hlt); unfold child; [exact El|lia|exact Hl].
        -- apply (free_edge b p true x C Hp Hlt); unfold child; [exact Eh|lia|lia].
Qed.

(* a non-zero edge that jumps over x puts x into the range of its source node *)
Lemma skip_in_rng b p c x : 2 <= p -> p < size b -> child b p c <> 0 ->
  var_of b p < x -> x < var_of b (child b p c) -> in_rng b (get b p) x.
Proof.
  intros Hp Hlt Hnz H1 H2. unfold in_rng, rng, child in *. fold (var_of b p).
  destruct (N.eqb_spec (nhigh (get b p)) 0) as [Eh|Eh]; cbn [fst snd].
  - destruct c; [congruence|]. split; lia.
  - destruct (N.eqb_spec (nlow (get b p)) 0) as [El|El]; cbn [fst snd].
    + destruct c; [|congruence]. split; lia.
    + destruct c; split; lia.
Qed.

(* ======================================================================================== *)
(* Stage C: the passes                                                                       *)
Lemma fill_prefix_spec l top : top <= N.of_nat (length l) -> (forall x, mk l x = false) ->
  exists l', fill_prefix l top = Ok l' /\ length l' = length l /\ forall x, mk l' x = (x <? top).
Proof.
  intros H Hl. unfold fill_prefix. destruct (N.leb_spec top (N.of_nat (length l))); [|lia].
  eexists. split; [reflexivity|]. split.
  - rewrite app_length, repeat_length, skipn_length. lia.
  - intros x. unfold mk. destruct (N.ltb_spec x top) as [Hx|Hx].
    + rewrite app_nth1 by (rewrite repeat_length; lia). apply nth_error_nth. apply nth_error_repeat. lia.
    + rewrite app_nth2 by (rewrite repeat_length; lia). rewrite repeat_length, nth_skipn'.
      replace (N.to_nat top + (N.to_nat x - N.to_nat top))%nat with (N.to_nat x) by lia. apply Hl.
Qed.

Lemma nc_pass1_spec b : wf b -> forall nodes any, (forall n, In n nodes -> is_node b n) ->
  length any = N.to_nat (nvars b) ->
  exists any', nc_pass1 nodes any = Ok any' /\ length any' = length any /\
    forall x, mk any' x = true <-> (mk any x = true \/ exists n, In n nodes /\ nlow n <> 0 /\ nhigh n <> 0 /\ nvar n = x).
Proof.
  intros W. induction nodes as [|n nodes IH]; intros any HN Hlen.
  - exists any. split; [reflexivity|]. split; [reflexivity|]. intros x. split; [now left|]. intros [H|(n & [] & _)]. exact H.
  - cbn [nc_pass1]. destruct (node_facts b n W (HN n (or_introl eq_refl))) as (Hv & _).
    assert (HN' : forall m, In m nodes -> is_node b m) by (intros m Hm; apply HN; now right).
    destruct (N.eqb_spec (nlow n) 0) as [El|El]; cbn [orb negb].
    + destruct (IH any HN' Hlen) as (any' & Hr & Hl' & Hm). exists any'. split; [exact Hr|]. split; [exact Hl'|].
      intros x. rewrite Hm. split; intros [H|(m & Hin & A & B & D)]; try (now left).
      * right. exists m. repeat split; try assumption. now right.
      * destruct Hin as [<-|Hin]; [congruence|]. right. exists m. repeat split; assumption.
    + destruct (N.eqb_spec (nhigh n) 0) as [Eh|Eh]; cbn [negb].
      * destruct (IH any HN' Hlen) as (any' & Hr & Hl' & Hm). exists any'. split; [exact Hr|]. split; [exact Hl'|].
        intros x. rewrite Hm. split; intros [H|(m & Hin & A & B & D)]; try (now left).
        -- right. exists m. repeat split; try assumption. now right.
        -- destruct Hin as [<-|Hin]; [congruence|]. right. exists m. repeat split; assumption.
      * destruct (vset_mk any (nvar n) true ltac:(lia)) as (any1 & Hs & Hl1 & Hm1). rewrite Hs. cbn [bind].
        destruct (IH any1 HN' ltac:(lia)) as (any' & Hr & Hl' & Hm). exists any'. split; [exact Hr|]. split; [lia|].
        intros x. rewrite Hm, Hm1. destruct (N.eqb_spec x (nvar n)) as [->|Hne].
        -- split; [intros _|intros _; now left]. right. exists n. repeat split; try assumption. now left.
        -- split; intros [H|(m & Hin & A & B & D)]; try (now left).
           ++ right. exists m. repeat split; try assumption. now right.
           ++ destruct Hin as [<-|Hin]; [congruence|]. right. exists m. repeat split; assumption.
Qed.

Lemma set_range_spec : forall k any lo, lo + N.of_nat k <= N.of_nat (length any) ->
  exists any', set_range any lo k = Ok any' /\ length any' = length any /\
    forall x, mk any' x = true <-> (mk any x = true \/ (lo <= x /\ x < lo + N.of_nat k)).
Proof.
  induction k as [|k IH]; intros any lo H.
  - exists any. split; [reflexivity|]. split; [reflexivity|]. intros x. split; [now left|]. intros [A|A]; [exact A|lia].
  - cbn [set_range]. destruct (vset_mk any lo true ltac:(lia)) as (any1 & Hs & Hl1 & Hm1). rewrite Hs. cbn [bind].
    destruct (IH any1 (lo + 1) ltac:(lia)) as (any' & Hr & Hl' & Hm). exists any'. split; [exact Hr|]. split; [lia|].
    intros x. rewrite Hm, Hm1. destruct (N.eqb_spec x lo) as [->|Hne].
    + split; [intros _; right; lia|intros _; now left].
    + split; intros [A|A]; try (now left); right; lia.
Qed.

Lemma nc_inner_spec b var : wf b -> forall nodes any, (forall n, In n nodes -> is_node b n) ->
  length any = N.to_nat (nvars b) ->
  exists any', nc_inner b nodes var any = Ok any' /\ length any' = length any /\
    (forall x, mk any x = true -> mk any' x = true) /\
    (forall x, mk any' x = true -> mk any x = true \/ exists n, In n nodes /\ in_rng b n x) /\
    ((exists n, In n nodes /\ in_rng b n var) -> mk any' var = true).
Proof.
  intros W. induction nodes as [|n nodes IH]; intros any HN Hlen.
  - exists any. split; [reflexivity|]. split; [reflexivity|]. split; [auto|]. split; [auto|]. intros (n & [] & _).
  - cbn [nc_inner]. destruct (node_facts b n W (HN n (or_introl eq_refl))) as (Hv & Hvl & Hvh & Hln & Hhn).
    assert (HN' : forall m, In m nodes -> is_node b m) by (intros m Hm; apply HN; now right).
    (* the state and range computed for this node *)
    assert (Hstep : exists any1,
      (if nhigh n =? 0 then Ok (any, (nvar n + 1, var_of b (nlow n)))
       else if nlow n =? 0 then Ok (any, (nvar n + 1, var_of b (nhigh n)))
       else bind (vset any (nvar n) true) (fun a => Ok (a, (nvar n, N.max (var_of b (nhigh n)) (var_of b (nlow n))))))
      = Ok (any1, rng b n) /\ length any1 = length any /\
      (forall x, mk any x = true -> mk any1 x = true) /\
      (forall x, mk any1 x = true -> mk any x = true \/ in_rng b n x)).
    { unfold in_rng, rng. destruct (N.eqb_spec (nhigh n) 0) as [Eh|Eh].
      - exists any. repeat split; auto.
      - destruct (N.eqb_spec (nlow n) 0) as [El|El].
        + exists any. repeat split; auto.
        + destruct (vset_mk any (nvar n) true ltac:(lia)) as (any1 & Hs & Hl1 & Hm1). rewrite Hs. cbn [bind].
          exists any1. split; [reflexivity|]. split; [exact Hl1|]. split.
          * intros x Hx. rewrite Hm1. destruct (x =? nvar n); [reflexivity|exact Hx].
          * intros x Hx. rewrite Hm1 in Hx. destruct (N.eqb_spec x (nvar n)) as [Ex|Hne]; [|now left].
            right. cbn [fst snd]. lia. }
    destruct Hstep as (any1 & -> & Hl1 & Hmono1 & Hmark1). cbn [bind fst snd].
    assert (Hhi : snd (rng b n) <= nvars b).
    { unfold rng. destruct (nhigh n =? 0); [exact Hln|]. destruct (nlow n =? 0); [exact Hhn|]. cbn [snd]. lia. }
    destruct ((fst (rng b n) <=? var) && (var <? snd (rng b n))) eqn:Et.
    + apply andb_true_iff in Et. destruct Et as (E1 & E2). apply N.leb_le in E1. apply N.ltb_lt in E2.
      destruct (set_range_spec (N.to_nat (snd (rng b n) - fst (rng b n))) any1 (fst (rng b n)) ltac:(lia)) as (any' & Hr & Hl' & Hm).
      exists any'. split; [exact Hr|]. split; [lia|]. split; [|split].
      * intros x Hx. apply Hm. left. apply Hmono1. exact Hx.
      * intros x Hx. apply Hm in Hx. destruct Hx as [Hx|Hx].
        -- destruct (Hmark1 x Hx) as [A|A]; [now left|]. right. exists n. split; [now left|exact A].
        -- right. exists n. split; [now left|]. unfold in_rng. lia.
      * intros _. apply Hm. right. lia.
    + destruct (IH any1 HN' ltac:(lia)) as (any' & Hr & Hl' & Hmono & Hmark & Hcomp).
      exists any'. split; [exact Hr|]. split; [lia|]. split; [|split].
      * intros x Hx. apply Hmono. apply Hmono1. exact Hx.
      * intros x Hx. destruct (Hmark x Hx) as [A|(m & Hin & A)].
        -- destruct (Hmark1 x A) as [B|B]; [now left|]. right. exists n. split; [now left|exact B].
        -- right. exists m. split; [now right|exact A].
      * intros (m & [<-|Hin] & A); [|apply Hcomp; exists m; split; assumption].
        exfalso. destruct A as (A1 & A2). apply andb_false_iff in Et. destruct Et as [Et|Et]; [apply N.leb_gt in Et|apply N.ltb_ge in Et]; lia.
Qed.

Lemma nc_pass2_spec b : wf b -> forall k var any, var + N.of_nat k = nvars b -> length any = N.to_nat (nvars b) ->
  exists any', nc_pass2 b k var any = Ok any' /\ length any' = length any /\
    (forall x, mk any x = true -> mk any' x = true) /\
    (forall x, mk any' x = true -> mk any x = true \/ exists n, In n (skipn 2 b) /\ in_rng b n x) /\
    (forall x, var <= x -> x < nvars b -> (exists n, In n (skipn 2 b) /\ in_rng b n x) -> mk any' x = true).
Proof.
  intros W. induction k as [|k IH]; intros var any Hk Hlen.
  - exists any. split; [reflexivity|]. split; [reflexivity|]. split; [auto|]. split; [auto|]. intros x H1 H2. lia.
  - cbn [nc_pass2]. rewrite (vget_mk any var) by lia. cbn [bind]. destruct (mk any var) eqn:Em.
    + destruct (IH (var + 1) any ltac:(lia) Hlen) as (any' & Hr & Hl' & Hmono & Hmark & Hcomp).
      exists any'. split; [exact Hr|]. split; [exact Hl'|]. split; [exact Hmono|]. split; [exact Hmark|].
      intros x H1 H2 Hx. destruct (N.eq_dec x var) as [->|Hne]; [apply Hmono; exact Em|apply Hcomp; try assumption; lia].
    + destruct (nc_inner_spec b var W (skipn 2 b) any (fun n Hn => proj1 (in_nodes b n) Hn) Hlen)
        as (any1 & Hr1 & Hl1 & Hmono1 & Hmark1 & Hcomp1).
      rewrite Hr1. cbn [bind].
      destruct (IH (var + 1) any1 ltac:(lia) ltac:(lia)) as (any' & Hr & Hl' & Hmono & Hmark & Hcomp).
      exists any'. split; [exact Hr|]. split; [lia|]. split; [|split].
      * intros x Hx. apply Hmono. apply Hmono1. exact Hx.
      * intros x Hx. destruct (Hmark x Hx) as [A|A]; [|now right]. apply Hmark1. exact A.
      * intros x H1 H2 Hx. destruct (N.eq_dec x var) as [->|Hne]; [apply Hmono; apply Hcomp1; exact Hx|apply Hcomp; try assumption; lia].
Qed.

Lemma nc_pass3_spec b any : wf b -> length any = N.to_nat (nvars b) -> forall nodes zero one,
  (forall n, In n nodes -> is_node b n) -> length zero = N.to_nat (nvars b) -> length one = N.to_nat (nvars b) ->
  exists z' o', nc_pass3 nodes any zero one = Ok (z', o') /\ length z' = length zero /\ length o' = length one /\
    (forall x, mk z' x = true <-> (mk zero x = true \/ exists n, In n nodes /\ nvar n = x /\ mk any x = false /\ nhigh n = 0)) /\
    (forall x, mk o' x = true <-> (mk one x = true \/ exists n, In n nodes /\ nvar n = x /\ mk any x = false /\ nhigh n <> 0 /\ nlow n = 0)).
Proof.
  intros W Hlen. induction nodes as [|n nodes IH]; intros zero one HN Hz Ho.
  - exists zero, one. split; [reflexivity|]. split; [reflexivity|]. split; [reflexivity|].
    split; intros x; (split; [now left|]); intros [H|(n & [] & _)]; exact H.
  - cbn [nc_pass3]. destruct (node_facts b n W (HN n (or_introl eq_refl))) as (Hv & _).
    assert (HN' : forall m, In m nodes -> is_node b m) by (intros m Hm; apply HN; now right).
    rewrite (vget_mk any (nvar n)) by lia. cbn [bind].
    (* a node that contributes nothing *)
    assert (Hskip : (mk any (nvar n) = true \/ (nhigh n <> 0 /\ nlow n <> 0)) ->
      exists z' o', nc_pass3 nodes any zero one = Ok (z', o') /\ length z' = length zero /\ length o' = length one /\
        (forall x, mk z' x = true <-> (mk zero x = true \/ exists m, In m (n :: nodes) /\ nvar m = x /\ mk any x = false /\ nhigh m = 0)) /\
        (forall x, mk o' x = true <-> (mk one x = true \/ exists m, In m (n :: nodes) /\ nvar m = x /\ mk any x = false /\ nhigh m <> 0 /\ nlow m = 0))).
    { intros Hno. destruct (IH zero one HN' Hz Ho) as (z' & o' & Hr & Hlz & Hlo & Hmz & Hmo).
      exists z', o'. split; [exact Hr|]. split; [exact Hlz|]. split; [exact Hlo|]. split; intros x; [rewrite Hmz|rewrite Hmo].
      - split; intros [H|(m & Hin & A & B & D)]; try (now left).
        + right. exists m. repeat split; try assumption. now right.
        + destruct Hin as [<-|Hin]; [|right; exists m; repeat split; assumption].
          exfalso. subst x. destruct Hno as [Hno|(Hno & _)]; congruence.
      - split; intros [H|(m & Hin & A & B & D & E)]; try (now left).
        + right. exists m. repeat split; try assumption. now right.
        + destruct Hin as [<-|Hin]; [|right; exists m; repeat split; assumption].
          exfalso. subst x. destruct Hno as [Hno|(_ & Hno)]; congruence. }
    destruct (mk any (nvar n)) eqn:Ea; [apply Hskip; now left|].
    destruct (N.eqb_spec (nhigh n) 0) as [Eh|Eh].
    + destruct (vset_mk zero (nvar n) true ltac:(lia)) as (z1 & Hs & Hl1 & Hm1). rewrite Hs. cbn [bind].
      destruct (IH z1 one HN' ltac:(lia) Ho) as (z' & o' & Hr & Hlz & Hlo & Hmz & Hmo).
      exists z', o'. split; [exact Hr|]. split; [lia|]. split; [exact Hlo|]. split; intros x; [rewrite Hmz, Hm1|rewrite Hmo].
      * destruct (N.eqb_spec x (nvar n)) as [->|Hne].
        -- split; [intros _|intros _; now left]. right. exists n. repeat split; try assumption. now left.
        -- split; intros [H|(m & Hin & A & B & D)]; try (now left).
           ++ right. exists m. repeat split; try assumption. now right.
           ++ destruct Hin as [<-|Hin]; [congruence|]. right. exists m. repeat split; assumption.
      * split; intros [H|(m & Hin & A & B & D & E)]; try (now left).
        -- right. exists m. repeat split; try assumption. now right.
        -- destruct Hin as [<-|Hin]; [congruence|]. right. exists m. repeat split; assumption.
    + destruct (N.eqb_spec (nlow n) 0) as [El|El]; [|apply Hskip; right; split; assumption].
      destruct (vset_mk one (nvar n) true ltac:(lia)) as (o1 & Hs & Hl1 & Hm1). rewrite Hs. cbn [bind].
      destruct (IH zero o1 HN' Hz ltac:(lia)) as (z' & o' & Hr & Hlz & Hlo & Hmz & Hmo).
      exists z', o'. split; [exact Hr|]. split; [exact Hlz|]. split; [lia|]. split; intros x; [rewrite Hmz|rewrite Hmo, Hm1].
      * split; intros [H|(m & Hin & A & B & D)]; try (now left).
        -- right. exists m. repeat split; try assumption. now right.
        -- destruct Hin as [<-|Hin]; [congruence|]. right. exists m. repeat split; assumption.
      * destruct (N.eqb_spec x (nvar n)) as [->|Hne].
        -- split; [intros _|intros _; now left]. right. exists n. repeat split; try assumption. now left.
        -- split; intros [H|(m & Hin & A & B & D & E)]; try (now left).
           ++ right. exists m. repeat split; try assumption. now right.
           ++ destruct Hin as [<-|Hin]; [congruence|]. right. exists m. repeat split; assumption.
Qed.

Definition cell (zero one any : list bool) (x : N) : option bool :=
  if mk any x || (mk zero x && mk one x) then None
  else if mk zero x then Some false else if mk one x then Some true else None.

Lemma nc_result_spec zero one any nv : length zero = N.to_nat nv -> length one = N.to_nat nv -> length any = N.to_nat nv ->
  forall k i acc, i + N.of_nat k = nv -> (forall x, i <= x -> pv_get acc x = None) ->
  (forall x, i <= x -> x < nv -> mk any x = true \/ mk zero x = true \/ mk one x = true) ->
  exists pv, nc_result k i zero one any acc = Ok pv /\
    forall x, pv_get pv x = if (i <=? x) && (x <? nv) then cell zero one any x else pv_get acc x.
Proof.
  intros Hz Ho Ha. induction k as [|k IH]; intros i acc Hk Hacc Hcov.
  - exists acc. split; [reflexivity|]. intros x. destruct (N.leb_spec i x), (N.ltb_spec x nv); cbn [andb]; try reflexivity. lia.
  - cbn [nc_result]. rewrite (vget_mk zero i), (vget_mk one i), (vget_mk any i) by lia. cbn [bind].
    assert (Hfin : forall acc', (forall x, x <> i -> pv_get acc' x = pv_get acc x) -> pv_get acc' i = cell zero one any i ->
              exists pv, nc_result k (i + 1) zero one any acc' = Ok pv /\
                forall x, pv_get pv x = if (i <=? x) && (x <? nv) then cell zero one any x else pv_get acc x).
    { intros acc' Hsame Hi. destruct (IH (i + 1) acc' ltac:(lia)) as (pv & Hr & Hpv).
      - intros x Hx. rewrite Hsame by lia. apply Hacc. lia.
      - intros x H1 H2. apply Hcov; lia.
      - exists pv. split; [exact Hr|]. intros x. rewrite Hpv.
        destruct (N.eq_dec x i) as [->|Hne].
        + destruct (N.leb_spec (i + 1) i); [lia|]. destruct (N.leb_spec i i); [|lia]. destruct (N.ltb_spec i nv); [|lia]. cbn [andb]. exact Hi.
        + rewrite Hsame by exact Hne.
          destruct (N.leb_spec (i + 1) x), (N.leb_spec i x); try lia; reflexivity. }
    unfold cell in Hfin. destruct (mk any i) eqn:Ea; cbn [orb] in *.
    + apply Hfin; [reflexivity|apply Hacc; lia].
    + destruct (mk zero i) eqn:Ez, (mk one i) eqn:Eo; cbn [andb] in *.
      * apply Hfin; [reflexivity|apply Hacc; lia].
      * apply Hfin; [intros x Hx; rewrite pv_get_set; destruct (N.eqb_spec i x); [congruence|reflexivity]|].
        rewrite pv_get_set. now rewrite N.eqb_refl.
      * apply Hfin; [intros x Hx; rewrite pv_get_set; destruct (N.eqb_spec i x); [congruence|reflexivity]|].
        rewrite pv_get_set. now rewrite N.eqb_refl.
      * exfalso. destruct (Hcov i ltac:(lia) ltac:(lia)) as [H|[H|H]]; congruence.
Qed.

(* ======================================================================================== *)
(* assembly                                                                                  *)
Lemma all_same_mk_false nv x : mk (all_same nv false) x = false.
Proof. unfold mk, all_same. destruct (Nat.lt_ge_cases (N.to_nat x) (N.to_nat nv)).
  - apply nth_error_nth. now apply nth_error_repeat.
  - apply nth_overflow. rewrite repeat_length. lia.
Qed.

Theorem necessary_clause_spec_benign b : Benign b -> is_false b = false ->
  exists pv, necessary_clause b = Ok (Some pv) /\
    forall x c, pv_get pv x = Some c <-> (x < nvars b /\ forall v, eval b v = true -> v x = c).
Proof.
  intros C Hf. pose proof C as (W & R & _). unfold necessary_clause. rewrite Hf.
  pose proof (is_false_false_size b W Hf) as Hs2.
  destruct (is_true b) eqn:Ht.
  - (* constant true: the empty clause *)
    exists []. split; [reflexivity|]. intros x c. rewrite pv_get_nil. split; [discriminate|].
    intros (_ & H). apply is_true_size in Ht. specialize (H (fun _ => negb c) (eval_size2 b _ Ht)). cbn in H. destruct c; discriminate.
  - assert (Hs3 : 3 <= size b) by (unfold is_true in Ht; apply N.eqb_neq in Ht; lia).
    cbv zeta. set (nv := nvars b). set (f := all_same nv false).
    assert (Hflen : length f = N.to_nat nv) by apply all_same_length.
    pose proof (valid_root b W) as Vr. assert (Hr2 : 2 <= root b) by (unfold root; lia).
    destruct Vr as (Vr0 & _). destruct (wf_children b (root b) W Hr2 Vr0) as (_ & _ & _ & _ & Hrv). fold nv in Hrv.
    assert (HNodes : forall n, In n (skipn 2 b) -> is_node b n) by (intros n Hn; now apply in_nodes).
    destruct (fill_prefix_spec f (var_of b (root b)) ltac:(lia) (all_same_mk_false nv)) as (any0 & H0 & L0 & M0). rewrite H0. cbn [bind].
    destruct (nc_pass1_spec b W (skipn 2 b) any0 HNodes ltac:(lia)) as (any1 & H1 & L1 & M1). rewrite H1. cbn [bind].
    destruct (nc_pass2_spec b W (N.to_nat nv) 0 any1 ltac:(lia) ltac:(lia)) as (any2 & H2 & L2 & Mono2 & Mark2 & Comp2). rewrite H2. cbn [bind].
    destruct (nc_pass3_spec b any2 W ltac:(lia) (skipn 2 b) f f HNodes Hflen Hflen) as (zero & one & H3 & Lz & Lo & Mz & Mo). rewrite H3. cbn [bind fst snd].
    (* soundness of the "free" marks *)
    assert (Sound : forall x, mk any2 x = true -> free b x).
    { intros x Hx. destruct (Mark2 x Hx) as [A|(n & Hn & A)]; [|apply (in_rng_free b n x C (HNodes n Hn) A)].
      apply M1 in A. destruct A as [A|(n & Hn & Al & Ah & Ev)].
      - rewrite M0 in A. apply N.ltb_lt in A. apply free_above_root; assumption.
      - destruct (HNodes n Hn) as (p & Hp & Hlt & <-). subst x. fold (var_of b p).
        apply free_possible; [apply (possible_branch b p true C Hp Hlt)|apply (possible_branch b p false C Hp Hlt)]; assumption. }
    (* what an unmarked variable looks like *)
    assert (Unmarked : forall x, x < nv -> mk any2 x = false ->
              var_of b (root b) <= x /\ no_skip b x /\
              (forall p, 2 <= p -> p < size b -> var_of b p = x -> nlow (get b p) = 0 \/ nhigh (get b p) = 0)).
    { intros x Hx Ex. split; [|split].
      - destruct (N.le_gt_cases (var_of b (root b)) x) as [A|A]; [exact A|]. exfalso.
        assert (mk any2 x = true); [|congruence]. apply Mono2. apply M1. left. rewrite M0. now apply N.ltb_lt.
      - intros p cc Hp Hlt Hnz (A1 & A2).
        assert (mk any2 x = true); [|congruence]. apply Comp2; [lia|exact Hx|].
        exists (get b p). split; [apply in_nodes; exists p; repeat split; assumption|].
        apply (skip_in_rng b p cc x); assumption.
      - intros p Hp Hlt Ev.
        destruct (N.eq_dec (nlow (get b p)) 0) as [A|A]; [now left|]. destruct (N.eq_dec (nhigh (get b p)) 0) as [B|B]; [now right|].
        exfalso. assert (mk any2 x = true); [|congruence]. apply Mono2. apply M1. right.
        exists (get b p). split; [apply in_nodes; exists p; repeat split; assumption|]. repeat split; assumption. }
    (* every unmarked variable is decided by some node: the unreachable!() arm is unreachable *)
    assert (Cover : forall x, 0 <= x -> x < nv -> mk any2 x = true \/ mk zero x = true \/ mk one x = true).
    { intros x _ Hx. destruct (mk any2 x) eqn:Ex; [now left|]. right.
      destruct (Unmarked x Hx Ex) as (U1 & U2 & U3).
      destruct (node_with_var b x W R Hx U2 (wfuel b) (root b) (valid_root b W) (root_nonzero b W Hf) (enough_root b W) U1)
        as (q & Hq & Hqlt & Hqv).
      assert (Hin : In (get b q) (skipn 2 b)) by (apply in_nodes; exists q; repeat split; assumption).
      destruct (N.eq_dec (nhigh (get b q)) 0) as [B|B].
      - left. apply Mz. right. exists (get b q). repeat split; assumption.
      - right. apply Mo. right. exists (get b q). repeat split; try assumption.
        destruct (U3 q Hq Hqlt Hqv) as [A|A]; [exact A|congruence]. }
    destruct (nc_result_spec zero one any2 nv ltac:(lia) ltac:(lia) ltac:(lia) (N.to_nat nv) 0 [] ltac:(lia)
                (fun x _ => pv_get_nil x) Cover) as (pv & H4 & Mpv).
    rewrite H4. cbn [some_of bind]. exists pv. split; [reflexivity|].
    (* the clause fixes exactly the forced variables *)
    assert (Fwd : forall x c, x < nv -> cell zero one any2 x = Some c -> forall v, eval b v = true -> v x = c).
    { intros x c Hx Hc v Hv. unfold cell in Hc.
      destruct (mk any2 x) eqn:Ex; cbn [orb] in Hc; [discriminate|].
      destruct (Unmarked x Hx Ex) as (U1 & U2 & U3).
      apply (forced_value b x c W Hx U2) with (fuel := wfuel b) (p := root b);
        [|apply valid_root; exact W|apply enough_root; exact W|exact U1|exact Hv].
      intros p Hp Hlt Ev. assert (Hin : In (get b p) (skipn 2 b)) by (apply in_nodes; exists p; repeat split; assumption).
      destruct (mk zero x) eqn:Ez, (mk one x) eqn:Eo; cbn [andb] in Hc; try discriminate; inversion Hc; subst c; cbn [negb]; unfold child.
      - (* fixed to false: every node of x has a zero high link *)
        destruct (N.eq_dec (nhigh (get b p)) 0) as [B|B]; [exact B|]. exfalso.
        assert (mk one x = true); [|congruence]. apply Mo. right. exists (get b p). repeat split; try assumption.
        destruct (U3 p Hp Hlt Ev) as [A|A]; [exact A|congruence].
      - (* fixed to true: every node of x has a zero low link *)
        destruct (N.eq_dec (nlow (get b p)) 0) as [A|A]; [exact A|]. exfalso.
        assert (mk zero x = true); [|congruence]. apply Mz. right. exists (get b p). repeat split; try assumption.
        destruct (U3 p Hp Hlt Ev) as [A'|B']; [congruence|exact B']. }
    intros x c. rewrite Mpv, pv_get_nil. destruct (N.leb_spec 0 x); [|lia]. cbn [andb].
    destruct (N.ltb_spec x nv) as [Hx|Hx]; [|split; [discriminate|intros (A & _); lia]].
    split.
    + intros Hc. split; [exact Hx|]. apply Fwd; assumption.
    + intros (_ & Hfix).
      destruct (nonzero_sat_benign b (root b) W R (valid_root b W) (root_nonzero b W Hf)) as (v0 & Hv0).
      assert (Ex : mk any2 x = false).
      { destruct (mk any2 x) eqn:Ex; [|reflexivity]. exfalso. destruct (Sound x Ex) as (v & w & Hv & Hw & Hne).
        rewrite (Hfix v Hv), (Hfix w Hw) in Hne. congruence. }
      assert (Hcell : exists c', cell zero one any2 x = Some c').
      { unfold cell. rewrite Ex. cbn [orb].
        destruct (mk zero x) eqn:Ez, (mk one x) eqn:Eo; cbn [andb]; try (eexists; reflexivity).
        - exfalso. apply Mz in Ez. apply Mo in Eo. unfold f in Ez, Eo. rewrite all_same_mk_false in Ez, Eo.
          destruct Ez as [Ez|(n1 & Hn1 & V1 & _ & B1)]; [discriminate|]. destruct Eo as [Eo|(n2 & Hn2 & V2 & _ & B2 & A2)]; [discriminate|].
          destruct (HNodes n1 Hn1) as (p1 & Hp1 & Hlt1 & <-). destruct (HNodes n2 Hn2) as (p2 & Hp2 & Hlt2 & <-).
          assert (A1 : nlow (get b p1) <> 0) by (intros A1; apply (kids_not_both_zero b p1 R Hp1 Hlt1); split; assumption).
          pose proof (possible_branch b p1 false C Hp1 Hlt1 A1) as (v & Hv & Ev).
          pose proof (possible_branch b p2 true C Hp2 Hlt2 B2) as (w & Hw & Ew).
          unfold var_of in Ev, Ew. rewrite V1 in Ev. rewrite V2 in Ew. rewrite (Hfix v Hv) in Ev. rewrite (Hfix w Hw) in Ew. congruence.
        - exfalso. destruct (Cover x ltac:(lia) Hx) as [A|[A|A]]; congruence. }
      destruct Hcell as (c' & Hc'). rewrite Hc'. f_equal.
      rewrite <- (Fwd x c' Hx Hc' v0 Hv0). apply Hfix. exact Hv0.
Qed.
Print Assumptions necessary_clause_spec_benign.

Theorem necessary_clause_spec b : Canonical b -> is_false b = false ->
  exists pv, necessary_clause b = Ok (Some pv) /\
    forall x c, pv_get pv x = Some c <-> (x < nvars b /\ forall v, eval b v = true -> v x = c).
Proof. intros C. apply necessary_clause_spec_benign. apply canonical_benign. exact C. Qed.
Print Assumptions necessary_clause_spec.

(* in particular the unreachable!() arm is never taken and nothing panics *)
Corollary necessary_clause_no_panic_benign b : Benign b -> exists r, necessary_clause b = Ok r.
Proof.
  intros C. destruct (is_false b) eqn:Hf.
  - exists None. now apply necessary_clause_none.
  - destruct (necessary_clause_spec_benign b C Hf) as (pv & H & _). now exists (Some pv).
Qed.
Print Assumptions necessary_clause_no_panic_benign.

Corollary necessary_clause_no_panic b : Canonical b -> exists r, necessary_clause b = Ok r.
Proof. intros C. apply necessary_clause_no_panic_benign. apply canonical_benign. exact C. Qed.
Print Assumptions necessary_clause_no_panic.
