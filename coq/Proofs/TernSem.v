(* Proofs/TernSem.v — the ternary operators (fused_ternary_flip_op, ternary_op, if_then_else):
   pointwise semantics with fused flips, canonicity, panic conditions, table independence. *)
From Coq Require Import List NArith Lia Bool.
Import ListNotations.
From BddVerif Require Import Model.Bdd Model.Apply Model.Ops Proofs.Sem Proofs.Canon Proofs.ApplySem Proofs.ApplyTop.
Open Scope N_scope.

(* ---- 0. the lazy table of a connective is a total consistent table of that connective ---- *)
Theorem lazy_op_ok : forall f,
  total2 (lazy_op f) /\ consistent2 (lazy_op f) /\ forall a b, bop_of (lazy_op f) a b = f a b.
Proof.
  intros f. unfold total2, consistent2, bop_of, lazy_op, refines. split; [|split].
  - intros a b. discriminate.
  - intros [x|] [y|] r H a b Ra Rb; try discriminate. subst. assumption.
  - intros a b. reflexivity.
Qed.
Print Assumptions lazy_op_ok.

Lemma lazy_total f : total2 (lazy_op f). Proof. apply lazy_op_ok. Qed.
Lemma lazy_cons f : consistent2 (lazy_op f). Proof. apply lazy_op_ok. Qed.
Lemma lazy_bop f a b : bop_of (lazy_op f) a b = f a b. Proof. apply lazy_op_ok. Qed.

(* ---- 1. ternary tables ---- *)
Definition total3 (op : op3) : Prop := forall a b c, op (Some a) (Some b) (Some c) <> None.
Definition consistent3 (op : op3) : Prop :=
  forall x y z r, op x y z = Some r ->
  forall a b c, refines a x -> refines b y -> refines c z -> op (Some a) (Some b) (Some c) = Some r.

Lemma total3_conn3 op : total3 op -> forall a b c, op (Some a) (Some b) (Some c) = Some (conn3 op a b c).
Proof. intros T a b c. unfold conn3. specialize (T a b c). destruct (op (Some a) (Some b) (Some c)); congruence. Qed.

Lemma consistent3_conn3 op : consistent3 op ->
  forall x y z r, op x y z = Some r -> forall a b c, refines a x -> refines b y -> refines c z -> conn3 op a b c = r.
Proof. intros K x y z r H a b c Ra Rb Rc. unfold conn3. rewrite (K x y z r H a b c Ra Rb Rc). reflexivity. Qed.

(* the four flags of the ternary guard *)
Definition flips_ok3 (nv : N) (fa fb fc fo : option N) : bool :=
  flip_ok nv fa && flip_ok nv fb && flip_ok nv fc && flip_ok nv fo.

(* Shannon composition on booleans *)
Lemma shannon3 op a b c :
  (a && conn3 op true b c) || (negb a && conn3 op false b c) = conn3 op a b c.
Proof. destruct a; cbn [andb negb orb]; [apply orb_false_r|reflexivity]. Qed.

(* ---- 2. main theorem ---- *)
Theorem fused_ternary_flip_op_correct : forall A B C fa fb fc fo op,
  wf A -> wf B -> wf C -> nvars A = nvars B -> nvars B = nvars C ->
  (flip_ok (nvars A) fa && flip_ok (nvars A) fb && flip_ok (nvars A) fc && flip_ok (nvars A) fo = true) ->
  exists r, fused_ternary_flip_op A B C fa fb fc fo op = Ok r /\ Canonical r /\ nvars r = nvars A /\
    forall v, eval r v = conn3 op (eval A (oflip fa (oflip fo v))) (eval B (oflip fb (oflip fo v)))
                                  (eval C (oflip fc (oflip fo v))).
Proof.
  intros A B C fa fb fc fo op WA WB WC NAB NBC FL.
  pose proof FL as FL'.
  apply andb_true_iff in FL'. destruct FL' as (FL' & FO).
  apply andb_true_iff in FL'. destruct FL' as (FL' & FC).
  apply andb_true_iff in FL'. destruct FL' as (FA & FB).
  assert (FBC : flips_ok (nvars B) fb fc None = true).
  { unfold flips_ok. rewrite <- NAB, FB, FC. reflexivity. }
  destruct (fused_binary_flip_op_correct B C fb fc None (lazy_op (conn3 op true)) WB WC NBC FBC
              (lazy_total _) (lazy_cons _)) as (g1 & E1 & K1 & N1 & S1).
  destruct (fused_binary_flip_op_correct B C fb fc None (lazy_op (conn3 op false)) WB WC NBC FBC
              (lazy_total _) (lazy_cons _)) as (g0 & E0 & K0 & N0 & S0).
  assert (FAN : flips_ok (nvars A) fa None None = true).
  { unfold flips_ok. rewrite FA. reflexivity. }
  assert (NA1 : nvars A = nvars g1) by congruence.
  assert (NA0 : nvars A = nvars g0) by congruence.
  destruct (fused_binary_flip_op_correct A g1 fa None None (lazy_op andb) WA (proj1 K1) NA1 FAN
              (lazy_total _) (lazy_cons _)) as (t1 & Et1 & Kt1 & Nt1 & St1).
  destruct (fused_binary_flip_op_correct A g0 fa None None (lazy_op (fun x y => negb x && y)) WA (proj1 K0) NA0 FAN
              (lazy_total _) (lazy_cons _)) as (t0 & Et0 & Kt0 & Nt0 & St0).
  assert (N10 : nvars t1 = nvars t0) by congruence.
  assert (FNO : flips_ok (nvars t1) None None fo = true).
  { unfold flips_ok. rewrite Nt1, FO. reflexivity. }
  destruct (fused_binary_flip_op_correct t1 t0 None None fo (lazy_op orb) (proj1 Kt1) (proj1 Kt0) N10 FNO
              (lazy_total _) (lazy_cons _)) as (r & Er & Kr & Nr & Sr).
  exists r. unfold fused_ternary_flip_op, guard3.
  rewrite <- NAB at 1. rewrite <- NBC, <- NAB, N.eqb_refl. cbn [andb negb].
  rewrite FL. cbn [negb].
  rewrite E1. cbn [bind]. rewrite E0. cbn [bind]. rewrite Et1. cbn [bind]. rewrite Et0. cbn [bind].
  split; [exact Er|]. split; [exact Kr|]. split; [congruence|].
  intros v. rewrite Sr, lazy_bop. cbn [oflip].
  rewrite St1, St0, !lazy_bop. cbn [oflip].
  rewrite S1, S0, !lazy_bop. cbn [oflip].
  apply shannon3.
Qed.
Print Assumptions fused_ternary_flip_op_correct.

(* ---- 3. the only panics are the argument checks ---- *)
Theorem ternary_panic_iff : forall A B C fa fb fc fo op,
  wf A -> wf B -> wf C ->
  (fused_ternary_flip_op A B C fa fb fc fo op = Panic <->
   (~ (nvars A = nvars B /\ nvars B = nvars C) \/
    flip_ok (nvars A) fa && flip_ok (nvars A) fb && flip_ok (nvars A) fc && flip_ok (nvars A) fo = false)).
Proof.
  intros A B C fa fb fc fo op WA WB WC.
  destruct (N.eq_dec (nvars A) (nvars B)) as [NAB|NAB].
  - destruct (N.eq_dec (nvars B) (nvars C)) as [NBC|NBC].
    + destruct (flip_ok (nvars A) fa && flip_ok (nvars A) fb && flip_ok (nvars A) fc && flip_ok (nvars A) fo) eqn:FL.
      * destruct (fused_ternary_flip_op_correct A B C fa fb fc fo op WA WB WC NAB NBC FL) as (r & E & _).
        rewrite E. split; [discriminate|]. intros [H|H]; [|discriminate]. exfalso. apply H. split; assumption.
      * split; [intros _; right; reflexivity|]. intros _.
        unfold fused_ternary_flip_op, guard3. rewrite FL.
        destruct (negb ((nvars A =? nvars B) && (nvars B =? nvars C))); reflexivity.
    + split; [intros _; left; intros [_ H]; contradiction|]. intros _.
      unfold fused_ternary_flip_op, guard3. apply N.eqb_neq in NBC. rewrite NBC, andb_false_r. reflexivity.
  - split; [intros _; left; intros [H _]; contradiction|]. intros _.
    unfold fused_ternary_flip_op, guard3. apply N.eqb_neq in NAB. rewrite NAB. reflexivity.
Qed.
Print Assumptions ternary_panic_iff.

(* the panic direction that needs no well-formedness: a failed guard always panics *)
Lemma ternary_guard_panic A B C fa fb fc fo op :
  (~ (nvars A = nvars B /\ nvars B = nvars C) \/
   flip_ok (nvars A) fa && flip_ok (nvars A) fb && flip_ok (nvars A) fc && flip_ok (nvars A) fo = false) ->
  fused_ternary_flip_op A B C fa fb fc fo op = Panic.
Proof.
  intros H. unfold fused_ternary_flip_op, guard3.
  destruct (N.eqb_spec (nvars A) (nvars B)) as [NAB|NAB]; [|reflexivity].
  destruct (N.eqb_spec (nvars B) (nvars C)) as [NBC|NBC]; [|reflexivity].
  cbn [andb negb]. destruct H as [H|H]; [exfalso; apply H; split; assumption|]. rewrite H. reflexivity.
Qed.

(* ---- 4. ternary_op, if_then_else ---- *)
Theorem ternary_op_correct : forall A B C op,
  wf A -> wf B -> wf C -> nvars A = nvars B -> nvars B = nvars C ->
  exists r, ternary_op A B C op = Ok r /\ Canonical r /\ nvars r = nvars A /\
    forall v, eval r v = conn3 op (eval A v) (eval B v) (eval C v).
Proof.
  intros A B C op WA WB WC NAB NBC.
  destruct (fused_ternary_flip_op_correct A B C None None None None op WA WB WC NAB NBC eq_refl)
    as (r & E & K & Nr & S).
  exists r. unfold ternary_op. split; [exact E|]. split; [exact K|]. split; [exact Nr|].
  intros v. rewrite S. reflexivity.
Qed.
Print Assumptions ternary_op_correct.

Theorem ternary_op_panic_iff : forall A B C op,
  wf A -> wf B -> wf C ->
  (ternary_op A B C op = Panic <-> ~ (nvars A = nvars B /\ nvars B = nvars C)).
Proof.
  intros A B C op WA WB WC. unfold ternary_op.
  rewrite (ternary_panic_iff A B C None None None None op WA WB WC). cbn [flip_ok andb].
  split; [intros [H|H]; [exact H|discriminate]|intros H; left; exact H].
Qed.
Print Assumptions ternary_op_panic_iff.

Lemma ite_conn3 : forall a b c, conn3 ite_function a b c = if a then b else c.
Proof. intros [|] [|] [|]; reflexivity. Qed.

Lemma ite_total3 : total3 ite_function.
Proof. intros [|] [|] [|]; cbn; discriminate. Qed.

Lemma ite_consistent3 : consistent3 ite_function.
Proof.
  unfold consistent3, refines.
  intros [[|]|] [[|]|] [[|]|] r H [|] [|] [|] Ra Rb Rc; cbn in *; try congruence; try discriminate.
Qed.

Theorem if_then_else_correct : forall A B C,
  wf A -> wf B -> wf C -> nvars A = nvars B -> nvars B = nvars C ->
  exists r, if_then_else A B C = Ok r /\ Canonical r /\ nvars r = nvars A /\
    forall v, eval r v = if eval A v then eval B v else eval C v.
Proof.
  intros A B C WA WB WC NAB NBC.
  destruct (ternary_op_correct A B C ite_function WA WB WC NAB NBC) as (r & E & K & Nr & S).
  exists r. unfold if_then_else. split; [exact E|]. split; [exact K|]. split; [exact Nr|].
  intros v. rewrite S. apply ite_conn3.
Qed.
Print Assumptions if_then_else_correct.

Theorem if_then_else_panic_iff : forall A B C,
  wf A -> wf B -> wf C ->
  (if_then_else A B C = Panic <-> ~ (nvars A = nvars B /\ nvars B = nvars C)).
Proof. intros A B C. unfold if_then_else. apply ternary_op_panic_iff. Qed.
Print Assumptions if_then_else_panic_iff.

(* ---- 5. the model only depends on the total entries of the table ---- *)
Lemma lazy_bop_ext f g : (forall a b, f a b = g a b) -> forall a b, bop_of (lazy_op f) a b = bop_of (lazy_op g) a b.
Proof. intros H a b. rewrite !lazy_bop. apply H. Qed.

Theorem ternary_eager_lazy_same : forall A B C fa fb fc fo op1 op2,
  wf A -> wf B -> wf C ->
  (forall a b c, conn3 op1 a b c = conn3 op2 a b c) ->
  fused_ternary_flip_op A B C fa fb fc fo op1 = fused_ternary_flip_op A B C fa fb fc fo op2.
Proof.
  intros A B C fa fb fc fo op1 op2 WA WB WC Eq.
  destruct (N.eq_dec (nvars A) (nvars B)) as [NAB|NAB];
    [|rewrite !ternary_guard_panic; [reflexivity|left; intros [H _]; contradiction ..]].
  destruct (N.eq_dec (nvars B) (nvars C)) as [NBC|NBC];
    [|rewrite !ternary_guard_panic; [reflexivity|left; intros [_ H]; contradiction ..]].
  destruct (flip_ok (nvars A) fa && flip_ok (nvars A) fb && flip_ok (nvars A) fc && flip_ok (nvars A) fo) eqn:FL;
    [|rewrite !ternary_guard_panic; [reflexivity|right; exact FL ..]].
  destruct (fused_ternary_flip_op_correct A B C fa fb fc fo op1 WA WB WC NAB NBC FL) as (r1 & E1 & K1 & N1 & S1).
  destruct (fused_ternary_flip_op_correct A B C fa fb fc fo op2 WA WB WC NAB NBC FL) as (r2 & E2 & K2 & N2 & S2).
  rewrite E1, E2. f_equal. apply canonical_unique; try assumption; [congruence|].
  intros v. rewrite S1, S2. apply Eq.
Qed.
Print Assumptions ternary_eager_lazy_same.

(* the same statement without any well-formedness hypothesis: the engine itself only reads the
   table pointwise (no functional extensionality needed) *)
Lemma ensure_with_ext op op' proc proc' t s :
  (forall x y, op x y = op' x y) -> (forall t s, proc t s = proc' t s) ->
  ensure_with op proc t s = ensure_with op' proc' t s.
Proof. intros H P. unfold ensure_with. rewrite H, P. reflexivity. Qed.

Lemma process_ext A B fa fb fo op op' :
  (forall x y, op x y = op' x y) ->
  forall fuel t s, process A B fa fb fo op fuel t s = process A B fa fb fo op' fuel t s.
Proof.
  intros H fuel. induction fuel as [|f IH]; intros t s; cbn [process]; [reflexivity|].
  destruct (if oeq fo (level A B t) then (t_lo A B fa fb t, t_hi A B fa fb t) else (t_hi A B fa fb t, t_lo A B fa fb t))
    as [t1 t2].
  rewrite (ensure_with_ext op op' _ _ t1 s H IH).
  destruct (ensure_with op' (process A B fa fb fo op' f) t1 s) as [[p1 s1]|]; [|reflexivity].
  rewrite (ensure_with_ext op op' _ _ t2 s1 H IH). reflexivity.
Qed.

Lemma apply2_ext A B fa fb fo op op' :
  (forall x y, op x y = op' x y) -> apply2 A B fa fb fo op = apply2 A B fa fb fo op'.
Proof. intros H. unfold apply2. rewrite (process_ext A B fa fb fo op op' H). reflexivity. Qed.

Lemma fused_binary_flip_op_ext A B fa fb fo op op' :
  (forall x y, op x y = op' x y) -> fused_binary_flip_op A B fa fb fo op = fused_binary_flip_op A B fa fb fo op'.
Proof. intros H. unfold fused_binary_flip_op. rewrite (apply2_ext A B fa fb fo op op' H). reflexivity. Qed.

Lemma lazy_op_ext f g : (forall a b, f a b = g a b) -> forall x y, lazy_op f x y = lazy_op g x y.
Proof. intros H [a|] [b|]; cbn; try reflexivity. rewrite H. reflexivity. Qed.

Theorem ternary_eager_lazy_same_any : forall A B C fa fb fc fo op1 op2,
  (forall a b c, conn3 op1 a b c = conn3 op2 a b c) ->
  fused_ternary_flip_op A B C fa fb fc fo op1 = fused_ternary_flip_op A B C fa fb fc fo op2.
Proof.
  intros A B C fa fb fc fo op1 op2 Eq. unfold fused_ternary_flip_op.
  rewrite (fused_binary_flip_op_ext B C fb fc None (lazy_op (conn3 op1 true)) (lazy_op (conn3 op2 true)))
    by (apply lazy_op_ext; intros; apply Eq).
  rewrite (fused_binary_flip_op_ext B C fb fc None (lazy_op (conn3 op1 false)) (lazy_op (conn3 op2 false)))
    by (apply lazy_op_ext; intros; apply Eq).
  reflexivity.
Qed.
Print Assumptions ternary_eager_lazy_same_any.

(* ---- a concrete non-trivial instance ---- *)
Example ite_example :
  if_then_else (mk_var 3 0) (mk_var 3 1) (mk_var 3 2) =
  Ok [mkNode 3 0 0; mkNode 3 1 1; mkNode 1 0 1; mkNode 2 0 1; mkNode 0 3 2].
Proof. vm_compute. reflexivity. Qed.
