(* Proofs/CountFloat.v — facts about the integer-valued binary64 model of Bdd::cardinality (Model/Count.v):
   no NaN is ever produced (the final is_nan branch is dead), and the result is exact below 2^53.
   These are theorems about the MODEL of binary64 stated in Model/Count.v (modelled, not verified). *)
From Coq Require Import List NArith Lia Bool.
Import ListNotations.
From BddVerif Require Import Model.Bdd Model.Count Proofs.Sem Proofs.RelSem Proofs.CountSem.
Open Scope N_scope.

Lemma pos_bits_size p : pos_bits p = Npos (Pos.size p).
Proof. induction p as [q IH|q IH|]; cbn [pos_bits Pos.size]; try rewrite IH; reflexivity. Qed.

Lemma bitlen_size n : bitlen n = N.size n.
Proof. destruct n as [|p]; [reflexivity|]. apply pos_bits_size. Qed.

Lemma bitlen_le n k : n < 2 ^ k -> bitlen n <= k.
Proof.
  intros H. rewrite bitlen_size. destruct (N.eq_dec n 0) as [->|NZ]; [cbn; lia|].
  rewrite N.size_log2 by assumption. assert (N.log2 n < k); [|lia].
  apply N.log2_lt_pow2; [lia|assumption].
Qed.

Lemma round53_small n : n < 2 ^ 53 -> round53 n = FFin n.
Proof.
  intros H. unfold round53. pose proof (bitlen_le n 53 H).
  destruct (N.leb_spec (bitlen n) 53); [reflexivity|lia].
Qed.

Lemma round53_not_nan n : round53 n <> FNaN.
Proof.
  unfold round53. destruct (bitlen n <=? 53); [discriminate|].
  match goal with |- (if ?c then _ else _) <> _ => destruct c; discriminate end.
Qed.

Lemma fadd_not_nan x y : x <> FNaN -> y <> FNaN -> fadd x y <> FNaN.
Proof. destruct x, y; cbn; try congruence; intros; apply round53_not_nan. Qed.

Lemma pow2_cases k : (k <= 1023 /\ pow2 k = FFin (2 ^ k)) \/ (1023 < k /\ pow2 k = FInf).
Proof. unfold pow2. destruct (N.leb_spec k 1023); [left|right]; split; auto. Qed.

Lemma pow_nz k : 2 ^ k <> 0.
Proof. apply N.pow_nonzero. discriminate. Qed.

Lemma fscale_not_nan x g : x <> FNaN -> fscale x g <> FNaN.
Proof.
  intros Hx. unfold fscale. destruct (fis_zero x) eqn:Z; [discriminate|].
  destruct x as [| |a]; [congruence| |].
  - destruct (pow2_cases g) as [(_ & ->)|(_ & ->)]; cbn [fmul]; [|discriminate].
    destruct (N.eqb_spec (2 ^ g) 0) as [E|]; [exfalso; revert E; apply pow_nz|discriminate].
  - assert (a <> 0) by (intros ->; discriminate).
    destruct (pow2_cases g) as [(_ & ->)|(_ & ->)]; cbn [fmul]; [apply round53_not_nan|].
    destruct (N.eqb_spec a 0); [contradiction|discriminate].
Qed.

(* with adequate fuel no intermediate value is NaN *)
Lemma cardf_fuel_not_nan b : wf b -> forall fuel p, valid b p ->
  (N.to_nat (nvars b - var_of b p) < fuel)%nat -> cardf_fuel fuel b p <> FNaN.
Proof.
  intros Hwf. induction fuel as [|f IH]; intros p Vp Hf; [lia|]. cbn [cardf_fuel].
  destruct (N.ltb_spec p 2) as [|Hge]; [discriminate|].
  destruct Vp as (Vp & _). destruct (wf_children b p Hwf Hge Vp) as (Vl & Vh & Hl & Hh & Hnv). unfold var_of in *.
  apply fadd_not_nan; apply fscale_not_nan; apply IH; try assumption; lia.
Qed.

Lemma cardfp_not_nan b p : wf b -> valid b p -> cardfp b p <> FNaN.
Proof. intros Hwf Vp. apply cardf_fuel_not_nan; try assumption. unfold count_fuel. lia. Qed.

(* the value before the final `is_nan` test is never NaN: that branch of the Rust is dead code *)
Lemma cardinality_pre_nan_free b : wf b -> fis_zero (cardfp b (size b - 1)) = false ->
  fmul (cardfp b (size b - 1)) (pow2 (var_of b (size b - 1))) <> FNaN.
Proof.
  intros Hwf Z. pose proof (cardfp_not_nan b _ Hwf (root_valid b Hwf)) as NN.
  pose proof (fscale_not_nan _ (var_of b (size b - 1)) NN) as H. unfold fscale in H. rewrite Z in H. exact H.
Qed.

Theorem cardinality_no_nan b : wf b -> cardinality_f64 b <> FNaN.
Proof.
  intros Hwf. unfold cardinality_f64. destruct (is_false b); [discriminate|].
  destruct (fis_zero (cardfp b (size b - 1))) eqn:Z; [discriminate|].
  pose proof (cardinality_pre_nan_free b Hwf Z) as H.
  destruct (fmul _ _); [discriminate|discriminate|discriminate].
Qed.

(* ---- exactness below 2^53 ---- *)
Lemma fscale_exact a g : a * 2 ^ g < 2 ^ 53 -> fscale (FFin a) g = FFin (a * 2 ^ g).
Proof.
  intros H. unfold fscale. destruct a as [|pa]; [reflexivity|]. cbn [fis_zero].
  assert (Hg : g <= 1023).
  { destruct (N.le_gt_cases g 52) as [|Hgt]; [lia|]. exfalso.
    assert (2 ^ 53 <= 2 ^ g) by (apply N.pow_le_mono_r; lia).
    assert (2 ^ g <= N.pos pa * 2 ^ g) by (rewrite <- (N.mul_1_l (2 ^ g)) at 1; apply N.mul_le_mono_r; lia). lia. }
  unfold pow2. destruct (N.leb_spec g 1023); [|lia]. cbn [fmul]. apply round53_small. assumption.
Qed.

Lemma card_fuel_float b : wf b -> forall fuel p, valid b p ->
  (N.to_nat (nvars b - var_of b p) < fuel)%nat -> card_fuel fuel b p < 2 ^ 53 ->
  cardf_fuel fuel b p = FFin (card_fuel fuel b p).
Proof.
  intros Hwf. induction fuel as [|f IH]; intros p Vp Hf Hsmall; [lia|]. cbn [cardf_fuel card_fuel] in *.
  destruct (N.ltb_spec p 2) as [|Hge]; [reflexivity|].
  destruct Vp as (Vp & _). destruct (wf_children b p Hwf Hge Vp) as (Vl & Vh & Hl & Hh & Hnv). unfold var_of in *.
  set (gl := nvar (get b (nlow (get b p))) - nvar (get b p) - 1) in *.
  set (gh := nvar (get b (nhigh (get b p))) - nvar (get b p) - 1) in *.
  set (cl := card_fuel f b (nlow (get b p))) in *. set (ch := card_fuel f b (nhigh (get b p))) in *.
  assert (P1 : 1 <= 2 ^ gl) by (pose proof (pow_nz gl); lia).
  assert (P2 : 1 <= 2 ^ gh) by (pose proof (pow_nz gh); lia).
  assert (cl <= cl * 2 ^ gl) by (rewrite <- (N.mul_1_r cl) at 1; apply N.mul_le_mono_l; assumption).
  assert (ch <= ch * 2 ^ gh) by (rewrite <- (N.mul_1_r ch) at 1; apply N.mul_le_mono_l; assumption).
  rewrite (IH (nlow (get b p))), (IH (nhigh (get b p))); try assumption; try lia; fold cl ch; try lia.
  rewrite !fscale_exact by lia. cbn [fadd]. apply round53_small. assumption.
Qed.

Theorem cardinality_exact_small b : wf b -> exact_cardinality b < 2 ^ 53 ->
  cardinality_f64 b = FFin (exact_cardinality b).
Proof.
  intros Hwf. unfold cardinality_f64, exact_cardinality. destruct (is_false b); [reflexivity|].
  intros Hsmall. unfold cardfp, cardp in *.
  set (c := card_fuel (count_fuel b) b (size b - 1)) in *. set (g := var_of b (size b - 1)) in *.
  assert (P : 1 <= 2 ^ g) by (pose proof (pow_nz g); lia).
  assert (c <= c * 2 ^ g) by (rewrite <- (N.mul_1_r c) at 1; apply N.mul_le_mono_l; assumption).
  rewrite (card_fuel_float b Hwf (count_fuel b) (size b - 1)); fold c; try lia.
  - pose proof (fscale_exact c g Hsmall) as E. unfold fscale in E.
    destruct (fis_zero (FFin c)) eqn:Z.
    + destruct c; [reflexivity|discriminate].
    + rewrite E. reflexivity.
  - apply root_valid. assumption.
  - unfold count_fuel. lia.
Qed.
