(* Proofs/CountSem.v — the specification-side model count `count`, exact_cardinality_spec, the additive and
   complement identities, clause count = number of root-to-1 paths, paths characterise the satisfying valuations. *)
From Coq Require Import List NArith Lia Bool.
Import ListNotations.
From BddVerif Require Import Model.Bdd Model.Apply Model.Ops Model.Count Proofs.Sem Proofs.Canon Proofs.NotSem Proofs.RelSem.
Open Scope N_scope.

(* ---- specification: number of assignments to the k variables x, x+1, ..., x+k-1 (all other variables as in v)
        that satisfy f.  Structural recursion on k; never executed on large k. ---- *)
Fixpoint cnt (k : nat) (x : N) (f : val -> bool) (v : val) : N :=
  match k with
  | O => if f v then 1 else 0
  | S k' => cnt k' (x + 1) f (upd v x false) + cnt k' (x + 1) f (upd v x true)
  end.
(* number of valuations of the variables 0..n-1 satisfying f (variables >= n read as false) *)
Definition count (n : N) (f : val -> bool) : N := cnt (N.to_nat n) 0 f (fun _ => false).

Lemma cnt_ext k : forall x f g v, (forall w, (forall y, y < x -> w y = v y) -> f w = g w) -> cnt k x f v = cnt k x g v.
Proof.
  induction k as [|k IH]; intros x f g v H; cbn [cnt].
  - rewrite (H v) by reflexivity. reflexivity.
  - f_equal; apply IH; intros w Hw; apply H; intros y Hy; rewrite Hw by lia; apply upd_other; lia.
Qed.

Lemma count_ext n f g : (forall v, f v = g v) -> count n f = count n g.
Proof. intros H. apply cnt_ext. intros w _. apply H. Qed.

Lemma cnt_or_and k : forall x f g v,
  cnt k x (fun w => f w || g w) v + cnt k x (fun w => f w && g w) v = cnt k x f v + cnt k x g v.
Proof.
  induction k as [|k IH]; intros x f g v; cbn [cnt].
  - destruct (f v), (g v); reflexivity.
  - pose proof (IH (x + 1) f g (upd v x false)). pose proof (IH (x + 1) f g (upd v x true)). lia.
Qed.

Lemma cnt_neg k : forall x f v, cnt k x (fun w => negb (f w)) v + cnt k x f v = 2 ^ N.of_nat k.
Proof.
  induction k as [|k IH]; intros x f v; cbn [cnt].
  - destruct (f v); reflexivity.
  - pose proof (IH (x + 1) f (upd v x false)). pose proof (IH (x + 1) f (upd v x true)).
    rewrite Nnat.Nat2N.inj_succ, N.pow_succ_r'. lia.
Qed.

Lemma count_or_and n f g : count n (fun w => f w || g w) + count n (fun w => f w && g w) = count n f + count n g.
Proof. apply cnt_or_and. Qed.

Lemma count_neg n f : count n (fun w => negb (f w)) + count n f = 2 ^ n.
Proof. unfold count. rewrite cnt_neg, Nnat.N2Nat.id. reflexivity. Qed.

Lemma count_le n f : count n f <= 2 ^ n.
Proof. pose proof (count_neg n f). lia. Qed.

(* ---- fuel irrelevance for the memoised walk ---- *)
Lemma card_fuel_enough b : wf b -> forall f1 f2 p, valid b p ->
  (N.to_nat (nvars b - var_of b p) < f1)%nat -> (N.to_nat (nvars b - var_of b p) < f2)%nat ->
  card_fuel f1 b p = card_fuel f2 b p.
Proof.
  intros Hwf. induction f1 as [|f1 IH]; intros f2 p Vp H1 H2; [lia|].
  destruct f2 as [|f2]; [lia|]. cbn [card_fuel].
  destruct (N.ltb_spec p 2) as [|Hge]; [reflexivity|].
  destruct Vp as (Vp & _).
  destruct (wf_children b p Hwf Hge Vp) as (Vl & Vh & Hl & Hh & Hnv). unfold var_of in *.
  rewrite (IH f2 (nlow (get b p))), (IH f2 (nhigh (get b p))); try assumption; try reflexivity; lia.
Qed.

Lemma cardp_term b p : p < 2 -> cardp b p = p.
Proof. intros H. unfold cardp, count_fuel. cbn [card_fuel]. destruct (N.ltb_spec p 2); [reflexivity|lia]. Qed.

Lemma cardp_unfold b p : wf b -> 2 <= p -> p < size b ->
  cardp b p = cardp b (nlow (get b p)) * 2 ^ (var_of b (nlow (get b p)) - var_of b p - 1)
            + cardp b (nhigh (get b p)) * 2 ^ (var_of b (nhigh (get b p)) - var_of b p - 1).
Proof.
  intros Hwf Hp Hlt. unfold cardp at 1. unfold count_fuel. cbn [card_fuel].
  destruct (N.ltb_spec p 2); [lia|]. fold (var_of b p).
  destruct (wf_children b p Hwf Hp Hlt) as (Vl & Vh & Hl & Hh & Hnv).
  unfold cardp, count_fuel.
  rewrite (card_fuel_enough b Hwf (N.to_nat (nvars b)) (S (N.to_nat (nvars b))) (nlow (get b p))) by (try assumption; lia).
  rewrite (card_fuel_enough b Hwf (N.to_nat (nvars b)) (S (N.to_nat (nvars b))) (nhigh (get b p))) by (try assumption; lia).
  reflexivity.
Qed.

Lemma term_var b p : wf b -> valid b p -> p < 2 -> var_of b p = nvars b.
Proof.
  intros (Hs & H0 & H1 & _) (Vp & Vp1) Hp. unfold var_of.
  assert (p = 0 \/ p = 1) as [->| ->] by lia.
  - rewrite H0. reflexivity.
  - rewrite H1 by auto. reflexivity.
Qed.

(* ---- the key lemma: the weighted count of a node is the count of its function over the remaining variables ---- *)
Lemma cnt_sem b : wf b -> forall k x p v, x + N.of_nat k = nvars b -> valid b p -> x <= var_of b p ->
  cnt k x (sem b p) v = cardp b p * 2 ^ (var_of b p - x).
Proof.
  intros Hwf. induction k as [|k IH]; intros x p v Hk Vp Hx.
  - (* no variable left: p is a terminal *)
    pose proof (var_of_le b p Hwf Vp) as Hle.
    assert (Hp : p < 2).
    { destruct (N.ltb_spec p 2) as [|Hge]; [assumption|]. destruct Vp as (Vp & _).
      destruct (wf_children b p Hwf Hge Vp) as (_ & _ & _ & _ & Hnv). lia. }
    rewrite (term_var b p Hwf Vp Hp). replace (nvars b - x) with 0 by lia.
    rewrite (cardp_term b p Hp). cbn [cnt].
    assert (p = 0 \/ p = 1) as [->| ->] by lia; reflexivity.
  - rewrite Nnat.Nat2N.inj_succ in Hk. cbn [cnt].
    destruct (N.eq_dec x (var_of b p)) as [E|NE].
    + (* x is the decision variable of p *)
      assert (Hp : 2 <= p).
      { destruct (N.ltb_spec p 2) as [Hlt|]; [|assumption]. pose proof (term_var b p Hwf Vp Hlt). lia. }
      destruct Vp as (Vp & _).
      destruct (wf_children b p Hwf Hp Vp) as (Vl & Vh & Hl & Hh & Hnv).
      rewrite (cnt_ext k (x + 1) (sem b p) (sem b (nlow (get b p))) (upd v x false)).
      2:{ intros w Hw. rewrite (sem_unfold b p w) by assumption. rewrite <- E, Hw by lia. now rewrite upd_same. }
      rewrite (cnt_ext k (x + 1) (sem b p) (sem b (nhigh (get b p))) (upd v x true)).
      2:{ intros w Hw. rewrite (sem_unfold b p w) by assumption. rewrite <- E, Hw by lia. now rewrite upd_same. }
      rewrite !IH by (try assumption; lia).
      rewrite (cardp_unfold b p Hwf Hp Vp). rewrite <- E.
      replace (x - x) with 0 by lia.
      replace (var_of b (nlow (get b p)) - (x + 1)) with (var_of b (nlow (get b p)) - x - 1) by lia.
      replace (var_of b (nhigh (get b p)) - (x + 1)) with (var_of b (nhigh (get b p)) - x - 1) by lia.
      change (2 ^ 0) with 1. lia.
    + (* x is below the decision variable: both halves have the same count *)
      rewrite !IH by (try assumption; lia).
      replace (var_of b p - x) with (N.succ (var_of b p - (x + 1))) by lia.
      rewrite N.pow_succ_r'. lia.
Qed.

Theorem exact_cardinality_spec b : wf b -> exact_cardinality b = count (nvars b) (eval b).
Proof.
  intros Hwf. unfold exact_cardinality, count, eval.
  pose proof (size_pos b Hwf) as Hs.
  rewrite (cnt_sem b Hwf (N.to_nat (nvars b)) 0 (size b - 1)).
  - rewrite N.sub_0_r. unfold is_false. destruct (N.eqb_spec (size b) 1) as [E|NE]; [|reflexivity].
    rewrite E. change (1 - 1) with 0. rewrite cardp_term by lia. reflexivity.
  - rewrite Nnat.N2Nat.id. reflexivity.
  - apply root_valid. assumption.
  - lia.
Qed.

Corollary exact_cardinality_le b : wf b -> exact_cardinality b <= 2 ^ nvars b.
Proof. intros Hwf. rewrite exact_cardinality_spec by assumption. apply count_le. Qed.

Theorem card_not b : wf b -> exact_cardinality (bdd_not b) = 2 ^ nvars b - exact_cardinality b.
Proof.
  intros Hwf. rewrite (exact_cardinality_spec (bdd_not b)) by (apply not_wf; assumption).
  rewrite not_nvars by assumption. rewrite exact_cardinality_spec by assumption.
  rewrite (count_ext _ (eval (bdd_not b)) (fun w => negb (eval b w))) by (intros v; apply not_sem; assumption).
  pose proof (count_neg (nvars b) (eval b)). lia.
Qed.

Theorem card_or_and a b : wf a -> wf b -> nvars a = nvars b ->
  exists ro ra, bdd_or a b = Ok ro /\ bdd_and a b = Ok ra /\
    exact_cardinality ro + exact_cardinality ra = exact_cardinality a + exact_cardinality b.
Proof.
  intros Wa Wb NV.
  destruct (bdd_or_correct a b Wa Wb NV) as (ro & Eo & Ko & No & So).
  destruct (bdd_and_correct a b Wa Wb NV) as (ra & Ea & Ka & Na & Sa).
  exists ro, ra. split; [assumption|]. split; [assumption|].
  rewrite (exact_cardinality_spec ro) by (apply canonical_wf; assumption).
  rewrite (exact_cardinality_spec ra) by (apply canonical_wf; assumption).
  rewrite (exact_cardinality_spec a), (exact_cardinality_spec b) by assumption.
  rewrite No, Na, <- NV.
  rewrite (count_ext _ (eval ro) (fun w => eval a w || eval b w)) by exact So.
  rewrite (count_ext _ (eval ra) (fun w => eval a w && eval b w)) by exact Sa.
  apply count_or_and.
Qed.

(* ---- clauses ---- *)
Lemma clause_paths_fuel b : forall fuel p, clause_fuel fuel b p = N.of_nat (length (paths_fuel fuel b p)).
Proof.
  induction fuel as [|f IH]; intros p; [reflexivity|]. cbn [clause_fuel paths_fuel].
  destruct (N.ltb_spec p 2) as [Hlt|Hge].
  - assert (p = 0 \/ p = 1) as [->| ->] by lia; reflexivity.
  - destruct (N.eqb_spec p 0); [lia|]. destruct (N.eqb_spec p 1); [lia|].
    rewrite app_length, !map_length, Nnat.Nat2N.inj_add, !IH. reflexivity.
Qed.

Theorem clause_cardinality_spec b : exact_clause_cardinality b = N.of_nat (length (paths b)).
Proof.
  unfold exact_clause_cardinality, paths, is_false. destruct (N.eqb_spec (size b) 1) as [E|NE].
  - rewrite E. reflexivity.
  - apply clause_paths_fuel.
Qed.

(* a valuation extends a path when it gives every variable on the path the recorded value *)
Definition extends (v : val) (pi : list (N * bool)) : Prop := forall x c, In (x, c) pi -> v x = c.

Lemma paths_fuel_sem b : forall fuel p v,
  sem_fuel fuel b p v = true <-> exists pi, In pi (paths_fuel fuel b p) /\ extends v pi.
Proof.
  induction fuel as [|f IH]; intros p v; cbn [sem_fuel paths_fuel].
  - split; [discriminate|]. intros (pi & [] & _).
  - destruct (N.ltb_spec p 2) as [Hlt|Hge].
    + assert (p = 0 \/ p = 1) as [->| ->] by lia; cbn.
      * split; [discriminate|]. intros (pi & [] & _).
      * split; [|reflexivity]. intros _. exists []. split; [now left|]. intros x c [].
    + destruct (N.eqb_spec p 0); [lia|]. destruct (N.eqb_spec p 1); [lia|].
      set (nd := get b p). split.
      * intros H. apply IH in H. destruct H as (pi & Hin & Hext).
        exists ((nvar nd, v (nvar nd)) :: pi). split.
        -- apply in_or_app. destruct (v (nvar nd)); [right|left]; apply in_map; exact Hin.
        -- intros x c [E|Hc]; [inversion E; reflexivity|apply Hext; exact Hc].
      * intros (pi & Hin & Hext). apply in_app_or in Hin.
        destruct Hin as [Hin|Hin]; apply in_map_iff in Hin; destruct Hin as (pi' & <- & Hin');
          rewrite (Hext (nvar nd) _ (or_introl eq_refl)); apply IH; exists pi'; (split; [exact Hin'|]);
          intros x c Hc; apply Hext; right; exact Hc.
Qed.

(* the paths are exactly the clauses of the function: a valuation satisfies the diagram iff it extends one of them *)
Theorem paths_sound_complete b v : eval b v = true <-> exists pi, In pi (paths b) /\ extends v pi.
Proof. apply paths_fuel_sem. Qed.
