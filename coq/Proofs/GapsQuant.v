(* Proofs/GapsQuant.v — C03 for the public entry points Bdd::exists / for_all / binary_op_with_exists /
   binary_op_with_for_all: the result depends only on the SET of listed variables (order, repetitions and
   out-of-range entries are irrelevant), for merely well-formed operands, and it does not depend on any
   quantified variable.  Corollaries of the `*_correct` theorems of Proofs/QuantSem.v and `canonical_unique`. *)
From Coq Require Import List NArith Lia Bool.
Import ListNotations.
From BddVerif Require Import Model.Bdd Model.Apply Model.Ops Proofs.Sem Proofs.Canon Proofs.ApplySem Proofs.ApplyTop
  Proofs.QuantSem.
Open Scope N_scope.

Lemma bool_iff_eq (a b : bool) : (a = true <-> b = true) -> a = b.
Proof. destruct a, b; intros [H1 H2]; try reflexivity; [symmetry; now apply H1|now apply H2]. Qed.

Lemma agree_out_set vs vs' w v : (forall y, In y vs <-> In y vs') -> agree_out vs w v -> agree_out vs' w v.
Proof. intros H A y Hy. apply A. now rewrite H. Qed.

Lemma agree_out_upd vs w v x c : In x vs -> agree_out vs w (upd v x c) <-> agree_out vs w v.
Proof.
  intros Hx. split; intros A y Hy; specialize (A y Hy).
  - rewrite upd_other in A; [exact A|]. intros ->. contradiction.
  - rewrite upd_other; [exact A|]. intros ->. contradiction.
Qed.

(* the two shapes of specification *)
Definition ex_spec (vs : list N) (P : val -> Prop) (v : val) : Prop := exists w, agree_out vs w v /\ P w.
Definition all_spec (vs : list N) (P : val -> Prop) (v : val) : Prop := forall w, agree_out vs w v -> P w.

Lemma ex_spec_set vs vs' P v : (forall y, In y vs <-> In y vs') -> ex_spec vs P v <-> ex_spec vs' P v.
Proof.
  intros H. split; intros (w & A & Pw); exists w; (split; [|exact Pw]).
  - now apply (agree_out_set vs vs').
  - apply (agree_out_set vs' vs); [intros y; symmetry; apply H|exact A].
Qed.
Lemma all_spec_set vs vs' P v : (forall y, In y vs <-> In y vs') -> all_spec vs P v <-> all_spec vs' P v.
Proof.
  intros H. split; intros Q w A; apply Q.
  - apply (agree_out_set vs' vs); [intros y; symmetry; apply H|exact A].
  - now apply (agree_out_set vs vs').
Qed.
Lemma ex_spec_upd vs P v x c : In x vs -> ex_spec vs P (upd v x c) <-> ex_spec vs P v.
Proof. intros Hx. split; intros (w & A & Pw); exists w; (split; [|exact Pw]); now apply (agree_out_upd vs w v x c). Qed.
Lemma all_spec_upd vs P v x c : In x vs -> all_spec vs P (upd v x c) <-> all_spec vs P v.
Proof. intros Hx. split; intros Q w A; apply Q; now apply (agree_out_upd vs w v x c). Qed.

(* two canonical results over the same variables whose truth sets are given by equivalent specifications *)
Lemma same_result (o o' : outcome bdd) (n : N) (S S' : val -> Prop) :
  (exists r, o = Ok r /\ Canonical r /\ wf r /\ nvars r = n /\ forall v, eval r v = true <-> S v) ->
  (exists r, o' = Ok r /\ Canonical r /\ wf r /\ nvars r = n /\ forall v, eval r v = true <-> S' v) ->
  (forall v, S v <-> S' v) -> o = o'.
Proof.
  intros (r & E & K & _ & Nr & Sr) (r' & E' & K' & _ & Nr' & Sr') H. rewrite E, E'. f_equal.
  apply canonical_unique; try assumption; [congruence|].
  intros v. apply bool_iff_eq. rewrite Sr, Sr'. apply H.
Qed.

Lemma indep_result (o : outcome bdd) r (S : val -> Prop) x :
  (exists r0 n, o = Ok r0 /\ Canonical r0 /\ wf r0 /\ nvars r0 = n /\ forall v, eval r0 v = true <-> S v) ->
  o = Ok r -> (forall v c, S (upd v x c) <-> S v) -> forall v c, eval r (upd v x c) = eval r v.
Proof.
  intros (r0 & n & E & _ & _ & _ & Sr) E' H v c. rewrite E in E'. inversion E'; subst r0.
  apply bool_iff_eq. rewrite !Sr. apply H.
Qed.

(* ---- exists / for_all ---- *)
Theorem exists_set_only b vs vs' : wf b -> (forall y, In y vs <-> In y vs') -> bdd_exists b vs = bdd_exists b vs'.
Proof.
  intros W H.
  apply (same_result _ _ (nvars b) (ex_spec vs (fun w => eval b w = true)) (ex_spec vs' (fun w => eval b w = true))).
  - exact (bdd_exists_correct b vs W).
  - exact (bdd_exists_correct b vs' W).
  - intros v. now apply ex_spec_set.
Qed.

Theorem for_all_set_only b vs vs' : wf b -> (forall y, In y vs <-> In y vs') -> bdd_for_all b vs = bdd_for_all b vs'.
Proof.
  intros W H.
  apply (same_result _ _ (nvars b) (all_spec vs (fun w => eval b w = true)) (all_spec vs' (fun w => eval b w = true))).
  - exact (bdd_for_all_correct b vs W).
  - exact (bdd_for_all_correct b vs' W).
  - intros v. now apply all_spec_set.
Qed.

Theorem bin_exists_set_only A B op vs vs' :
  wf A -> wf B -> nvars A = nvars B -> total2 op -> consistent2 op -> (forall y, In y vs <-> In y vs') ->
  binary_op_with_exists A B op vs = binary_op_with_exists A B op vs'.
Proof.
  intros WA WB NV T C H.
  apply (same_result _ _ (nvars A) (ex_spec vs (fun w => bop_of op (eval A w) (eval B w) = true))
                                   (ex_spec vs' (fun w => bop_of op (eval A w) (eval B w) = true))).
  - exact (binary_op_with_exists_correct A B op vs WA WB NV T C).
  - exact (binary_op_with_exists_correct A B op vs' WA WB NV T C).
  - intros v. now apply ex_spec_set.
Qed.

Theorem bin_for_all_set_only A B op vs vs' :
  wf A -> wf B -> nvars A = nvars B -> total2 op -> consistent2 op -> (forall y, In y vs <-> In y vs') ->
  binary_op_with_for_all A B op vs = binary_op_with_for_all A B op vs'.
Proof.
  intros WA WB NV T C H.
  apply (same_result _ _ (nvars A) (all_spec vs (fun w => bop_of op (eval A w) (eval B w) = true))
                                   (all_spec vs' (fun w => bop_of op (eval A w) (eval B w) = true))).
  - exact (binary_op_with_for_all_correct A B op vs WA WB NV T C).
  - exact (binary_op_with_for_all_correct A B op vs' WA WB NV T C).
  - intros v. now apply all_spec_set.
Qed.

(* ---- independence from every quantified variable (in range or not) ---- *)
Theorem exists_independent b vs r : wf b -> bdd_exists b vs = Ok r ->
  forall x, In x vs -> forall v c, eval r (upd v x c) = eval r v.
Proof.
  intros W E x Hx.
  apply (indep_result (bdd_exists b vs) r (ex_spec vs (fun w => eval b w = true)) x); [|exact E|].
  - destruct (bdd_exists_correct b vs W) as (r0 & H). exists r0, (nvars b). exact H.
  - intros v c. now apply ex_spec_upd.
Qed.

Theorem for_all_independent b vs r : wf b -> bdd_for_all b vs = Ok r ->
  forall x, In x vs -> forall v c, eval r (upd v x c) = eval r v.
Proof.
  intros W E x Hx.
  apply (indep_result (bdd_for_all b vs) r (all_spec vs (fun w => eval b w = true)) x); [|exact E|].
  - destruct (bdd_for_all_correct b vs W) as (r0 & H). exists r0, (nvars b). exact H.
  - intros v c. now apply all_spec_upd.
Qed.

Theorem bin_exists_independent A B op vs r :
  wf A -> wf B -> nvars A = nvars B -> total2 op -> consistent2 op -> binary_op_with_exists A B op vs = Ok r ->
  forall x, In x vs -> forall v c, eval r (upd v x c) = eval r v.
Proof.
  intros WA WB NV T C E x Hx.
  apply (indep_result (binary_op_with_exists A B op vs) r (ex_spec vs (fun w => bop_of op (eval A w) (eval B w) = true)) x); [|exact E|].
  - destruct (binary_op_with_exists_correct A B op vs WA WB NV T C) as (r0 & H). exists r0, (nvars A). exact H.
  - intros v c. now apply ex_spec_upd.
Qed.

Theorem bin_for_all_independent A B op vs r :
  wf A -> wf B -> nvars A = nvars B -> total2 op -> consistent2 op -> binary_op_with_for_all A B op vs = Ok r ->
  forall x, In x vs -> forall v c, eval r (upd v x c) = eval r v.
Proof.
  intros WA WB NV T C E x Hx.
  apply (indep_result (binary_op_with_for_all A B op vs) r (all_spec vs (fun w => bop_of op (eval A w) (eval B w) = true)) x); [|exact E|].
  - destruct (binary_op_with_for_all_correct A B op vs WA WB NV T C) as (r0 & H). exists r0, (nvars A). exact H.
  - intros v c. now apply all_spec_upd.
Qed.

(* ---- project itself, for a merely well-formed operand (QuantSem.project_set_ext asks for a canonical one):
   when no listed variable is in range both calls return the operand unchanged, otherwise both results are canonical ---- *)
Lemma in_range_nil_set b vs vs' : (forall y, In y vs <-> In y vs') -> in_range b vs = [] -> in_range b vs' = [].
Proof.
  intros H E. unfold in_range in *. destruct (filter (fun x => x <? nvars b) vs') as [|y l] eqn:F; [reflexivity|exfalso].
  assert (Hy : In y (filter (fun x => x <? nvars b) vs')) by (rewrite F; now left).
  apply filter_In in Hy. destruct Hy as (Hy & Hlt).
  assert (Hy' : In y (filter (fun x => x <? nvars b) vs)) by (apply filter_In; split; [now apply H|exact Hlt]).
  rewrite E in Hy'. exact Hy'.
Qed.

Theorem project_set_only_wf u b vs vs' : wf b -> (forall y, In y vs <-> In y vs') -> project u b vs = project u b vs'.
Proof.
  intros W H.
  destruct (project_spec u b vs W) as (r1 & E1 & Z1 & C1 & _ & N1 & S1).
  destruct (project_spec u b vs' W) as (r2 & E2 & Z2 & C2 & _ & N2 & S2).
  rewrite E1, E2. f_equal.
  destruct (in_range b vs) as [|y l] eqn:F.
  - rewrite (Z1 eq_refl). symmetry. apply Z2. now apply (in_range_nil_set b vs vs').
  - apply canonical_unique; [apply C1; discriminate| |congruence|].
    + apply C2. intros F'. apply (in_range_nil_set b vs' vs) in F'; [congruence|]. intros z. symmetry. apply H.
    + intros v. apply bool_iff_eq. rewrite S1, S2. now apply qspec_set_ext.
Qed.
Print Assumptions project_set_only_wf.

Print Assumptions exists_set_only.
Print Assumptions for_all_set_only.
Print Assumptions bin_exists_set_only.
Print Assumptions bin_for_all_set_only.
Print Assumptions exists_independent.
Print Assumptions for_all_independent.
Print Assumptions bin_exists_independent.
Print Assumptions bin_for_all_independent.

(* a non-canonical (duplicated node) well-formed operand, lists with the same set in another order, with
   repetitions and an out-of-range entry *)
Example quant_set_only_example :
  let n := [mkNode 3 0 0; mkNode 3 1 1; mkNode 1 0 1; mkNode 1 0 1; mkNode 0 2 3] in
  let a := [mkNode 3 0 0; mkNode 3 1 1; mkNode 2 0 1; mkNode 0 0 2] in
  wfb n = true /\ canonicalb n = false /\
  bdd_exists n [0; 2] = bdd_exists n [2; 0; 2; 0] /\
  bdd_exists n [0; 2] = Ok [mkNode 3 0 0; mkNode 3 1 1; mkNode 1 0 1] /\
  bdd_for_all n [0; 7] = bdd_for_all n [7; 7; 0] /\
  bdd_for_all n [0; 7] = Ok [mkNode 3 0 0; mkNode 3 1 1; mkNode 1 0 1] /\
  binary_op_with_exists n a op_and [2; 1] = binary_op_with_exists n a op_and [1; 2; 1] /\
  binary_op_with_exists n a op_and [2; 1] = Ok [mkNode 3 0 0; mkNode 3 1 1; mkNode 0 0 1] /\
  binary_op_with_for_all n a op_or [2] = binary_op_with_for_all n a op_or [2; 2] /\
  binary_op_with_for_all n a op_or [2] = Ok [mkNode 3 0 0; mkNode 3 1 1; mkNode 1 0 1].
Proof. vm_compute. repeat split; reflexivity. Qed.
