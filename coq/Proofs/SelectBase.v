(* Proofs/SelectBase.v — infrastructure for the selectors of Model/Select.v:
   children precede parents in the library layout, root-to-terminal paths as decision lists, the decision
   trace of a root walk, the walk as a fold over its trace, vector/clause recording, lexicographic order.
   The selectors never use reducedness as such, only: no decision node with two zero links (`nz`), children stored
   before parents (`topo`), every decision node reachable from the last one (`all_reachable`).  These make up
   `Benign b` (valid non-reduced diagrams of the library's storage habits; `canonical_benign : Canonical b -> Benign b`);
   all lemmas of Proofs/Select*.v are proved for Benign and the Canonical statements are corollaries. *)
From Coq Require Import List PeanoNat NArith Lia Bool.
Import ListNotations.
From BddVerif Require Import Model.Bdd Model.Apply Model.Ops Model.Select Proofs.Sem Proofs.Canon Proofs.Reflect
  Proofs.PvalSem.
Open Scope N_scope.

(* ======================================================================================== *)
(* children precede parents (library layout)                                                 *)
Definition kids_before (G : bdd) (l : N) : Prop :=
  forall i, 2 <= i -> i < l -> nlow (get G i) < i /\ nhigh (get G i) < i.

Lemma chk_kids fuel G : forall lim p l, chk fuel G lim p = Some l -> kids_before G lim -> kids_before G l.
Proof.
  induction fuel as [|f IH]; intros lim p l H K; [discriminate|]. cbn in H.
  destruct (N.ltb_spec p lim).
  - inversion H; subst; exact K.
  - destruct (chk f G lim (nhigh (get G p))) as [l1|] eqn:E1; [|discriminate].
    destruct (chk f G l1 (nlow (get G p))) as [l2|] eqn:E2; [|discriminate].
    destruct (N.eqb_spec p l2); [|discriminate]. inversion H; subst.
    pose proof (chk_lt _ _ _ _ _ E1) as (A1 & A2). pose proof (chk_lt _ _ _ _ _ E2) as (B1 & B2).
    pose proof (IH _ _ _ E1 K) as K1. pose proof (IH _ _ _ E2 K1) as K2.
    intros i Hi Hlt. destruct (N.eq_dec i l2) as [->|Hne]; [lia|]. apply K2; lia.
Qed.

(* the storage order used by the bottom-up folds and by sat_witness' scan: children before parents
   (the same notion as `topo` of Proofs/ExprEval.v, which comes later in the build order) *)
Definition topo (b : bdd) : Prop := kids_before b (size b).

(* no decision node has two zero links: the only structural consequence of `reduced` the selectors rely on *)
Definition nz (b : bdd) : Prop := forall p, 2 <= p -> p < size b -> ~ (nlow (get b p) = 0 /\ nhigh (get b p) = 0).

Lemma canonical_topo b : Canonical b -> topo b.
Proof.
  intros (Wb & Rb & [L|L]) p Hp Hlt; [lia|].
  refine (chk_kids _ _ _ _ _ L _ p Hp Hlt). intros i Hi Hi2. lia.
Qed.

Lemma reduced_nz b : reduced b -> nz b.
Proof. intros (R & _) p Hp Hlt (A & B). apply (R p Hp Hlt). congruence. Qed.

Lemma kids_lt b : topo b -> forall p, 2 <= p -> p < size b -> nlow (get b p) < p /\ nhigh (get b p) < p.
Proof. intros T p Hp Hlt. exact (T p Hp Hlt). Qed.

(* ======================================================================================== *)
(* basic facts                                                                               *)
Lemma valid_root b : wf b -> valid b (root b).
Proof. intros W. pose proof (size_pos b W). unfold root. split; [lia|intros; lia]. Qed.

Lemma valid_0 b : wf b -> valid b 0.
Proof. intros W. pose proof (size_pos b W). split; [lia|intros; lia]. Qed.

Lemma var_of_term b p : wf b -> valid b p -> p < 2 -> var_of b p = nvars b.
Proof.
  intros (Hs & H0 & H1 & _) (Vp & Vp1) Hp. unfold var_of.
  assert (p = 0 \/ p = 1) as [->| ->] by lia; [rewrite H0|rewrite H1 by auto]; reflexivity.
Qed.

Lemma is_false_false_size b : wf b -> is_false b = false -> 2 <= size b.
Proof. intros W H. pose proof (size_pos b W). unfold is_false in H. apply N.eqb_neq in H. lia. Qed.

Lemma root_nonzero b : wf b -> is_false b = false -> root b <> 0.
Proof. intros W H. pose proof (is_false_false_size b W H). unfold root. lia. Qed.

(* a decision node of an `nz` (in particular: reduced) diagram has at most one zero child *)
Lemma kids_not_both_zero b p : nz b -> 2 <= p -> p < size b -> ~ (nlow (get b p) = 0 /\ nhigh (get b p) = 0).
Proof. intros R Hp Hlt. exact (R p Hp Hlt). Qed.

Lemma child_valid b p c : wf b -> 2 <= p -> p < size b -> valid b (child b p c) /\ var_of b p < var_of b (child b p c).
Proof.
  intros W Hp Hlt. destruct (wf_children b p W Hp Hlt) as (Vl & Vh & Hl & Hh & _).
  unfold child. destruct c; split; assumption.
Qed.

Definition enough (b : bdd) (p : N) (fuel : nat) : Prop := (N.to_nat (nvars b - var_of b p) < fuel)%nat.

Lemma enough_root b : wf b -> enough b (root b) (wfuel b).
Proof. intros W. unfold enough, wfuel. lia. Qed.

Lemma enough_child b p c f : wf b -> 2 <= p -> p < size b -> enough b p (S f) -> enough b (child b p c) f.
Proof.
  intros W Hp Hlt E. destruct (child_valid b p c W Hp Hlt) as (V & Hv).
  pose proof (var_of_le b _ W V). unfold enough in *. lia.
Qed.

(* ======================================================================================== *)
(* paths as decision lists                                                                   *)
Definition dec := (N * bool)%type.

Fixpoint path (b : bdd) (p : N) (ds : list dec) (t : N) : Prop :=
  match ds with
  | [] => p = t
  | xc :: r => 2 <= p /\ p < size b /\ fst xc = var_of b p /\ path b (child b p (snd xc)) r t
  end.

Definition follows (v : val) (ds : list dec) : Prop := forall x c, In (x, c) ds -> v x = c.

Lemma follows_cons v x c ds : follows v ((x, c) :: ds) <-> v x = c /\ follows v ds.
Proof.
  unfold follows. split.
  - intros H. split; [apply H; now left|intros y d Hy; apply H; now right].
  - intros (H1 & H2) y d [E|Hy]; [injection E as <- <-; exact H1|apply H2; exact Hy].
Qed.

Lemma path_sem b : wf b -> forall ds p t v, path b p ds t -> follows v ds -> sem b p v = sem b t v.
Proof.
  intros W. induction ds as [|[x c] ds IH]; intros p t v P F; cbn [path] in P.
  - subst; reflexivity.
  - destruct P as (Hp & Hlt & Hx & P). cbn [fst snd] in *. apply follows_cons in F. destruct F as (F1 & F2).
    rewrite sem_unfold by assumption. rewrite <- Hx, F1. apply IH; assumption.
Qed.

(* variables along a path: all at least var_of p, strictly increasing *)
Lemma path_vars b : wf b -> forall ds p t, valid b p -> path b p ds t ->
  valid b t /\ var_of b p <= var_of b t /\
  (forall x c, In (x, c) ds -> var_of b p <= x /\ x < var_of b t) /\ NoDup (map fst ds).
Proof.
  intros W. induction ds as [|[x c] ds IH]; intros p t V P; cbn [path] in P.
  - subst. split; [exact V|]. split; [lia|]. split; [intros x c []|constructor].
  - destruct P as (Hp & Hlt & Hx & P). cbn [fst snd] in *.
    destruct (child_valid b p c W Hp Hlt) as (Vc & Hv).
    destruct (IH _ _ Vc P) as (Vt & Hle & Hin & Hnd).
    split; [exact Vt|]. split; [lia|]. split.
    + intros y d [E|Hy]; [inversion E; subst; lia|]. destruct (Hin y d Hy). lia.
    + cbn [map fst]. constructor; [|exact Hnd]. intros Hi. apply in_map_iff in Hi.
      destruct Hi as ([y d] & E & Hy). cbn in E. subst y. destruct (Hin _ _ Hy). lia.
Qed.

Lemma nodup_functional (ds : list dec) x c d : NoDup (map fst ds) -> In (x, c) ds -> In (x, d) ds -> c = d.
Proof.
  induction ds as [|[y e] ds IH]; intros N H1 H2; [destruct H1|].
  cbn [map fst] in N. inversion N as [|? ? Hn N']; subst.
  destruct H1 as [E1|H1], H2 as [E2|H2].
  - congruence.
  - inversion E1; subst. exfalso. apply Hn. apply in_map_iff. exists (x, d). split; [reflexivity|exact H2].
  - inversion E2; subst. exfalso. apply Hn. apply in_map_iff. exists (x, c). split; [reflexivity|exact H1].
  - apply IH; assumption.
Qed.

(* no path leaves the zero terminal towards 1 *)
Lemma path_from_0 b ds t : path b 0 ds t -> t = 0 /\ ds = [].
Proof. destruct ds as [|xc ds]; cbn [path]; [intros <-; split; reflexivity|intros (H & _); lia]. Qed.

Lemma path_from_1 b ds t : path b 1 ds t -> t = 1 /\ ds = [].
Proof. destruct ds as [|xc ds]; cbn [path]; [intros <-; split; reflexivity|intros (H & _); lia]. Qed.

(* ======================================================================================== *)
(* the decision trace of a root walk with a pure choice function                             *)
Fixpoint trace (fuel : nat) (b : bdd) (ch : N -> bool) (p : N) : list dec :=
  match fuel with
  | O => []
  | S f => if p <? 2 then [] else (var_of b p, ch p) :: trace f b ch (child b p (ch p))
  end.

Definition safe_choice (b : bdd) (ch : N -> bool) : Prop :=
  forall q, 2 <= q -> q < size b -> child b q (ch q) <> 0.

Lemma trace_path b ch : wf b -> safe_choice b ch -> forall fuel p, valid b p -> p <> 0 -> enough b p fuel ->
  path b p (trace fuel b ch p) 1.
Proof.
  intros W S. induction fuel as [|f IH]; intros p V Hp E; [unfold enough in E; lia|].
  cbn [trace]. destruct (N.ltb_spec p 2) as [Hlt|Hge].
  - cbn [path]. lia.
  - destruct V as (V & V1). cbn [path fst snd]. repeat split; try assumption.
    destruct (child_valid b p (ch p) W Hge V) as (Vc & Hv).
    apply IH; [exact Vc|apply S; assumption|apply enough_child; assumption].
Qed.

Lemma trace_ext b ch ch' : (forall q, 2 <= q -> q < size b -> ch q = ch' q) -> wf b ->
  forall fuel p, valid b p -> trace fuel b ch p = trace fuel b ch' p.
Proof.
  intros H W. induction fuel as [|f IH]; intros p V; [reflexivity|]. cbn [trace].
  destruct (N.ltb_spec p 2) as [Hlt|Hge]; [reflexivity|]. destruct V as (V & _).
  rewrite (H p Hge V). f_equal. apply IH. apply child_valid; assumption.
Qed.

(* the low-zero choice (first_valuation, first_clause) and the not-high-zero choice (last valuation and clause) are safe *)
Lemma safe_low_zero b : nz b -> safe_choice b (low_zero b).
Proof.
  intros R q Hq Hlt. unfold child, low_zero. destruct (N.eqb_spec (nlow (get b q)) 0) as [E|E]; [|exact E].
  intros E'. apply (kids_not_both_zero b q R Hq Hlt). split; assumption.
Qed.

Lemma safe_not_high_zero b : nz b -> safe_choice b (fun p => negb (high_zero b p)).
Proof.
  intros R q Hq Hlt. unfold child, high_zero. destruct (N.eqb_spec (nhigh (get b q)) 0) as [E|E]; cbn [negb]; [|exact E].
  intros E'. apply (kids_not_both_zero b q R Hq Hlt). split; assumption.
Qed.

(* key fact: in a valid diagram without doubly-zero nodes (in particular: a reduced one) every pointer other than 0
   reaches 1, hence is satisfiable *)
Theorem nonzero_path b p : wf b -> nz b -> valid b p -> p <> 0 -> exists ds, path b p ds 1.
Proof.
  intros W R V Hp. exists (trace (wfuel b) b (low_zero b) p).
  apply trace_path; try assumption; [apply safe_low_zero; exact R|].
  unfold enough, wfuel. lia.
Qed.

(* a valuation following a given decision list, `d` elsewhere *)
Fixpoint lookup (ds : list dec) (x : N) : option bool :=
  match ds with [] => None | (y, c) :: r => if y =? x then Some c else lookup r x end.
Definition tval (ds : list dec) (d : bool) : val := fun x => match lookup ds x with Some c => c | None => d end.

Lemma lookup_in ds x c : NoDup (map fst ds) -> In (x, c) ds -> lookup ds x = Some c.
Proof.
  induction ds as [|[y e] ds IH]; intros N H; [destruct H|]. cbn [lookup].
  cbn [map fst] in N. inversion N as [|? ? Hn N']; subst.
  destruct H as [E|H].
  - inversion E; subst. now rewrite N.eqb_refl.
  - destruct (N.eqb_spec y x) as [->|Hne]; [|apply IH; assumption].
    exfalso. apply Hn. apply in_map_iff. exists (x, c). split; [reflexivity|exact H].
Qed.

Lemma lookup_none ds x : ~ In x (map fst ds) -> lookup ds x = None.
Proof.
  induction ds as [|[y e] ds IH]; intros H; [reflexivity|]. cbn [lookup]. cbn [map fst] in H.
  destruct (N.eqb_spec y x) as [->|Hne]; [exfalso; apply H; now left|]. apply IH. intros Hi. apply H. now right.
Qed.

Lemma lookup_some_in ds x c : lookup ds x = Some c -> In (x, c) ds.
Proof.
  induction ds as [|[y e] ds IH]; cbn [lookup]; [discriminate|].
  destruct (N.eqb_spec y x) as [->|Hne]; [intros E; inversion E; now left|intros H; right; apply IH; exact H].
Qed.

Lemma tval_follows ds d : NoDup (map fst ds) -> follows (tval ds d) ds.
Proof. intros N x c H. unfold tval. now rewrite (lookup_in ds x c N H). Qed.

Theorem nonzero_sat_benign b p : wf b -> nz b -> valid b p -> p <> 0 -> exists v, sem b p v = true.
Proof.
  intros W R V Hp. destruct (nonzero_path b p W R V Hp) as (ds & P).
  destruct (path_vars b W ds p 1 V P) as (_ & _ & _ & N).
  exists (tval ds false). rewrite (path_sem b W ds p 1 _ P (tval_follows ds false N)). reflexivity.
Qed.

Theorem nonzero_sat b p : wf b -> reduced b -> valid b p -> p <> 0 -> exists v, sem b p v = true.
Proof. intros W R. apply nonzero_sat_benign; [exact W|apply reduced_nz; exact R]. Qed.

(* ======================================================================================== *)
(* the benign shape: valid, no doubly-zero node, children stored before parents, root last and every node
   reachable from it.  Redundant tests (nlow = nhigh <> 0) and duplicated nodes are allowed.                *)
Definition is_parent (G : bdd) (j i : N) : Prop := nlow (get G j) = i \/ nhigh (get G j) = i.

Definition all_reachable (b : bdd) : Prop := forall p, 2 <= p -> p < size b -> exists ds, path b (root b) ds p.

Definition Benign (b : bdd) : Prop := wf b /\ nz b /\ topo b /\ all_reachable b.

Lemma path_app b : forall ds1 a m ds2 t, path b a ds1 m -> path b m ds2 t -> path b a (ds1 ++ ds2) t.
Proof.
  induction ds1 as [|xc ds1 IH]; intros a m ds2 t P1 P2; cbn [path app] in *.
  - subst. exact P2.
  - destruct P1 as (A & B & D & P1). repeat split; try assumption. apply (IH _ m); assumption.
Qed.

Lemma parent_child b j p : is_parent b j p -> exists c, child b j c = p.
Proof. intros [H|H]; [exists false|exists true]; exact H. Qed.

(* the last edge of a non-empty path *)
Lemma path_last_parent b t : forall ds p, path b p ds t -> p <> t ->
  exists j, 2 <= j /\ j < size b /\ is_parent b j t.
Proof.
  induction ds as [|[x c] ds IH]; intros p P Hp; cbn [path fst snd] in P; [congruence|].
  destruct P as (H2 & Hlt & _ & P).
  destruct (N.eq_dec (child b p c) t) as [E|E].
  - exists p. split; [exact H2|]. split; [exact Hlt|]. unfold is_parent, child in *. destruct c; [right|left]; exact E.
  - apply (IH _ P E).
Qed.

(* the library's DFS post-order layout stores, after every node other than the root, one of its parents *)
Lemma chk_parents fuel G : forall lim p l, chk fuel G lim p = Some l ->
  forall i, lim <= i -> i < l -> i = p \/ exists j, i < j /\ j < l /\ is_parent G j i.
Proof.
  induction fuel as [|f IH]; intros lim p l H i Hi Hl; [discriminate|]. cbn in H.
  destruct (N.ltb_spec p lim).
  - inversion H; subst. lia.
  - destruct (chk f G lim (nhigh (get G p))) as [l1|] eqn:E1; [|discriminate].
    destruct (chk f G l1 (nlow (get G p))) as [l2|] eqn:E2; [|discriminate].
    destruct (N.eqb_spec p l2); [|discriminate]. inversion H; subst.
    pose proof (chk_lt _ _ _ _ _ E1) as (A1 & A2). pose proof (chk_lt _ _ _ _ _ E2) as (B1 & B2).
    destruct (N.eq_dec i l2) as [->|Hne]; [now left|]. right.
    destruct (N.lt_ge_cases i l1) as [Hi1|Hi1].
    + destruct (IH _ _ _ E1 i Hi Hi1) as [->|(j & J1 & J2 & J3)].
      * exists l2. split; [lia|]. split; [lia|]. right. reflexivity.
      * exists j. split; [lia|]. split; [lia|exact J3].
    + destruct (IH _ _ _ E2 i Hi1 ltac:(lia)) as [->|(j & J1 & J2 & J3)].
      * exists l2. split; [lia|]. split; [lia|]. left. reflexivity.
      * exists j. split; [lia|]. split; [lia|exact J3].
Qed.

(* a node that has a later parent whenever it is not the root is reachable from the root *)
Lemma parents_reachable b : (forall q, 2 <= q -> q < root b -> exists j, q < j /\ j < size b /\ is_parent b j q) ->
  all_reachable b.
Proof.
  intros HP. assert (H : forall k p, 2 <= p -> p < size b -> (N.to_nat (size b - p) <= k)%nat -> exists ds, path b (root b) ds p).
  { induction k as [|k IH]; intros p Hp Hlt Hk; [lia|].
    destruct (N.eq_dec p (root b)) as [->|Hne]; [exists []; reflexivity|].
    destruct (HP p Hp ltac:(unfold root in *; lia)) as (j & J2 & J3 & J4).
    destruct (IH j ltac:(lia) J3 ltac:(lia)) as (ds & P). destruct (parent_child b j p J4) as (c & Hc).
    exists (ds ++ [(var_of b j, c)]). apply (path_app b ds _ j); [exact P|].
    cbn [path fst snd]. repeat split; try assumption; lia. }
  intros p Hp Hlt. apply (H _ p Hp Hlt (Nat.le_refl _)).
Qed.

Theorem canonical_benign b : Canonical b -> Benign b.
Proof.
  intros C. pose proof C as (W & R & L). split; [exact W|]. split; [apply reduced_nz; exact R|].
  split; [apply canonical_topo; exact C|]. apply parents_reachable. intros q Hq Hr. unfold root in Hr.
  destruct L as [L|L]; [lia|].
  destruct (chk_parents _ _ _ _ _ L q ltac:(lia) ltac:(lia)) as [->|(j & J1 & J2 & J3)]; [lia|].
  exists j. repeat split; assumption.
Qed.

(* in a benign diagram every node other than the root (the 1 terminal included) has a parent stored after it *)
Lemma has_parent b q : Benign b -> 1 <= q -> q < root b ->
  exists j, 2 <= j /\ q < j /\ j < size b /\ is_parent b j q.
Proof.
  intros (W & R & T & RA) Hq Hr. unfold root in Hr.
  assert (HP : exists ds, path b (root b) ds q).
  { destruct (N.eq_dec q 1) as [->|Hq1].
    - assert (Hf : is_false b = false) by (unfold is_false; apply N.eqb_neq; lia).
      exact (nonzero_path b (root b) W R (valid_root b W) (root_nonzero b W Hf)).
    - apply RA; lia. }
  destruct HP as (ds & P).
  destruct (path_last_parent b q ds (root b) P) as (j & J1 & J2 & J3); [unfold root; lia|].
  exists j. split; [exact J1|]. split; [|split; assumption].
  destruct (T j J1 J2) as (Kl & Kh). destruct J3 as [E|E]; rewrite <- E; assumption.
Qed.

(* the benign shape is wf plus: either a constant, or at least one decision node *)
Lemma benign_shape b : Benign b -> b = mk_false (nvars b) \/ b = mk_true (nvars b) \/ 3 <= size b.
Proof.
  intros ((Hs & H0 & H1 & _) & _).
  destruct b as [|n0 [|n1 [|n2 r]]]; unfold size in *; cbn [length] in *; [lia| | |right; right; lia].
  - left. unfold mk_false. f_equal. exact H0.
  - right. left. unfold mk_true. specialize (H1 ltac:(lia)). f_equal; [exact H0|f_equal; exact H1].
Qed.

(* ======================================================================================== *)
(* the walk is a fold of `record` over its trace                                             *)
Fixpoint fold_rec {A : Type} (record : A -> N -> bool -> outcome A) (ds : list dec) (acc : A) : outcome A :=
  match ds with
  | [] => Ok acc
  | xc :: r => bind (record acc (fst xc) (snd xc)) (fold_rec record r)
  end.

Lemma walk_trace {A : Type} b (choose : N -> outcome bool) ch (record : A -> N -> bool -> outcome A) :
  wf b -> (forall q, 2 <= q -> q < size b -> choose q = Ok (ch q)) ->
  forall fuel p acc, valid b p -> enough b p fuel ->
  walk fuel b choose record p acc = fold_rec record (trace fuel b ch p) acc.
Proof.
  intros W C. induction fuel as [|f IH]; intros p acc V E; [unfold enough in E; lia|].
  cbn [walk trace]. destruct (N.ltb_spec p 2) as [Hlt|Hge]; [reflexivity|].
  destruct V as (V & V1). destruct (N.leb_spec (size b) p); [lia|].
  rewrite (C p Hge V). cbn [bind fold_rec fst snd].
  destruct (record acc (var_of b p) (ch p)) as [acc'| |]; cbn [bind]; try reflexivity.
  apply IH; [apply child_valid; assumption|apply enough_child; assumption].
Qed.

(* ======================================================================================== *)
(* recording into a Vec<bool>                                                                *)
Lemma list_set_length {T} (l : list T) : forall k c, length (list_set l k c) = length l.
Proof. induction l as [|a l IH]; intros [|k] c; cbn [list_set length]; try reflexivity. now rewrite IH. Qed.

Lemma list_set_nth {T} (l : list T) d : forall k c n, (k < length l)%nat ->
  nth n (list_set l k c) d = if Nat.eqb n k then c else nth n l d.
Proof.
  induction l as [|a l IH]; intros k c n Hk; [cbn in Hk; lia|].
  destruct k as [|k], n as [|n]; cbn [list_set nth Nat.eqb]; try reflexivity.
  apply IH. cbn in Hk. lia.
Qed.

Lemma vset_ok l x c : x < N.of_nat (length l) ->
  exists l', vset l x c = Ok l' /\ length l' = length l /\
    forall y, nth (N.to_nat y) l' false = if y =? x then c else nth (N.to_nat y) l false.
Proof.
  intros H. unfold vset. destruct (N.ltb_spec x (N.of_nat (length l))); [|lia].
  eexists. split; [reflexivity|]. split; [apply list_set_length|]. intros y.
  rewrite list_set_nth by lia. destruct (N.eqb_spec y x) as [->|Hne].
  - now rewrite Nat.eqb_refl.
  - destruct (Nat.eqb_spec (N.to_nat y) (N.to_nat x)); [lia|reflexivity].
Qed.

(* a record function that writes the choice unless it equals the vector's initial value *)
Definition rec_default (d : bool) (record : list bool -> N -> bool -> outcome (list bool)) : Prop :=
  forall acc x c, record acc x c = if Bool.eqb c d then Ok acc else vset acc x c.

Lemma fold_rec_val d record : rec_default d record -> forall ds acc,
  (forall x c, In (x, c) ds -> x < N.of_nat (length acc)) -> NoDup (map fst ds) ->
  (forall x c, In (x, c) ds -> nth (N.to_nat x) acc false = d) ->
  exists l, fold_rec record ds acc = Ok l /\ length l = length acc /\
    (forall x c, In (x, c) ds -> nth (N.to_nat x) l false = c) /\
    (forall x, ~ In x (map fst ds) -> nth (N.to_nat x) l false = nth (N.to_nat x) acc false).
Proof.
  intros RD. induction ds as [|[x c] ds IH]; intros acc Hr N Hd.
  - exists acc. cbn. repeat split; try reflexivity; intros ? ? [].
  - cbn [map fst] in N. inversion N as [|? ? Hn N']; subst.
    cbn [fold_rec fst snd]. rewrite RD.
    assert (Hx : x < N.of_nat (length acc)) by (apply (Hr x c); now left).
    destruct (Bool.eqb c d) eqn:Ecd.
    + apply eqb_prop in Ecd. subst d. cbn [bind].
      destruct (IH acc) as (l & Hl & Hlen & Hin & Hout); try assumption.
      * intros y e Hy. apply (Hr y e). now right.
      * intros y e Hy. apply (Hd y e). now right.
      * exists l. split; [exact Hl|]. split; [exact Hlen|]. split.
        -- intros y e [E|Hy]; [|apply Hin; exact Hy]. inversion E; subst.
           rewrite Hout by exact Hn. apply (Hd y e). now left.
        -- intros y Hy. apply Hout. intros Hi. apply Hy. cbn [map fst]. now right.
    + destruct (vset_ok acc x c Hx) as (acc' & Hv & Hlen' & Hnth). rewrite Hv. cbn [bind].
      destruct (IH acc') as (l & Hl & Hlen & Hin & Hout); try assumption.
      * intros y e Hy. rewrite Hlen'. apply (Hr y e). now right.
      * intros y e Hy. rewrite Hnth. destruct (N.eqb_spec y x) as [->|Hne].
        -- exfalso. apply Hn. apply in_map_iff. exists (x, e). split; [reflexivity|exact Hy].
        -- apply (Hd y e). now right.
      * exists l. split; [exact Hl|]. split; [lia|]. split.
        -- intros y e [E|Hy]; [|apply Hin; exact Hy]. inversion E; subst.
           rewrite Hout by exact Hn. rewrite Hnth. now rewrite N.eqb_refl.
        -- intros y Hy. rewrite Hout by (intros Hi; apply Hy; cbn [map fst]; now right).
           rewrite Hnth. destruct (N.eqb_spec y x) as [->|Hne]; [|reflexivity].
           exfalso. apply Hy. cbn [map fst]. now left.
Qed.

Lemma all_same_length nv c : length (all_same nv c) = N.to_nat nv.
Proof. unfold all_same. apply repeat_length. Qed.

Lemma all_same_nth nv c x : x < nv -> nth (N.to_nat x) (all_same nv c) false = c.
Proof.
  intros H. unfold all_same. apply nth_error_nth. apply nth_error_repeat. lia.
Qed.

Lemma nth_overflow_false (l : list bool) x : N.of_nat (length l) <= x -> nth (N.to_nat x) l false = false.
Proof. intros H. apply nth_overflow. lia. Qed.

(* the vector produced by recording a path into all_same nv d *)
Lemma record_path_val b d record ds p t : wf b -> rec_default d record -> valid b p -> path b p ds t ->
  exists l, fold_rec record ds (all_same (nvars b) d) = Ok l /\ length l = N.to_nat (nvars b) /\
    forall x, x < nvars b -> val_of_list l x = tval ds d x.
Proof.
  intros W RD V P. destruct (path_vars b W ds p t V P) as (Vt & Hle & Hin & N).
  pose proof (var_of_le b t W Vt) as Ht.
  destruct (fold_rec_val d record RD ds (all_same (nvars b) d)) as (l & Hl & Hlen & Hi & Ho).
  - intros x c Hx. rewrite all_same_length. destruct (Hin x c Hx). lia.
  - exact N.
  - intros x c Hx. apply all_same_nth. destruct (Hin x c Hx). lia.
  - exists l. split; [exact Hl|]. rewrite all_same_length in Hlen. split; [exact Hlen|].
    intros x Hx. unfold val_of_list, tval. destruct (lookup ds x) as [c|] eqn:E.
    + apply Hi. apply lookup_some_in. exact E.
    + rewrite Ho.
      * apply all_same_nth. exact Hx.
      * intros Hi'. apply in_map_iff in Hi'. destruct Hi' as ([y c] & Ey & Hy). cbn in Ey. subst y.
        rewrite (lookup_in ds x c N Hy) in E. discriminate.
Qed.

(* eval only reads variables below nvars *)
Lemma sem_agree_lt b : wf b -> forall k p v w, valid b p -> (N.to_nat (nvars b - var_of b p) < k)%nat ->
  (forall x, x < nvars b -> v x = w x) -> sem b p v = sem b p w.
Proof.
  intros W. induction k as [|k IH]; intros p v w V Hk H; [lia|].
  destruct (N.ltb_spec p 2) as [Hlt|Hge].
  - assert (p = 0 \/ p = 1) as [->| ->] by lia; reflexivity.
  - destruct V as (V & _). rewrite (sem_unfold b p v), (sem_unfold b p w) by assumption.
    destruct (wf_children b p W Hge V) as (Vl & Vh & Hl & Hh & Hnv).
    rewrite <- (H (var_of b p)) by exact Hnv.
    destruct (v (var_of b p)); apply IH; try assumption; lia.
Qed.

Lemma sem_agree_nv b p v w : wf b -> valid b p -> (forall x, x < nvars b -> v x = w x) -> sem b p v = sem b p w.
Proof. intros W V H. apply (sem_agree_lt b W (S (N.to_nat (nvars b - var_of b p)))); auto. Qed.

Lemma eval_agree_nv b v w : wf b -> (forall x, x < nvars b -> v x = w x) -> eval b v = eval b w.
Proof. intros W H. unfold eval. apply sem_agree_nv; [exact W|apply (valid_root b W)|exact H]. Qed.

(* ======================================================================================== *)
(* recording into a BddPartialValuation                                                      *)
Lemma fold_rec_cset ds : forall acc,
  fold_rec cset ds acc = Ok (fold_left (fun pv xc => pv_set pv (N.to_nat (fst xc)) (Some (snd xc))) ds acc).
Proof. induction ds as [|[x c] ds IH]; intros acc; [reflexivity|]. cbn [fold_rec fold_left fst snd cset bind]. apply IH. Qed.

Lemma last_value_nodup ds x : NoDup (map fst ds) -> last_value ds x = lookup ds x.
Proof.
  induction ds as [|[y c] ds IH]; intros N; [reflexivity|]. cbn [map fst] in N. inversion N as [|? ? Hn N']; subst.
  cbn [last_value lookup]. rewrite IH by exact N'.
  destruct (N.eqb_spec y x) as [->|Hne].
  - rewrite lookup_none by exact Hn. reflexivity.
  - destruct (lookup ds x); reflexivity.
Qed.

(* the set of literals of a clause *)
Definition lits_of (pv : pval) (ds : list dec) : Prop := forall x c, pv_get pv x = Some c <-> In (x, c) ds.

Lemma pv_get_nil x : pv_get [] x = None.
Proof. unfold pv_get. destruct (N.to_nat x); reflexivity. Qed.

Lemma record_path_clause ds : NoDup (map fst ds) ->
  exists pv, fold_rec cset ds [] = Ok pv /\ lits_of pv ds.
Proof.
  intros N. eexists. split; [apply fold_rec_cset|]. intros x c. rewrite pv_fold_get, pv_get_nil.
  rewrite last_value_nodup by exact N. split.
  - destruct (lookup ds x) as [e|] eqn:E; [|discriminate]. intros H. inversion H; subst. apply lookup_some_in. exact E.
  - intros H. now rewrite (lookup_in ds x c N H).
Qed.

(* a clause is a path of the diagram when its literals are the decisions of a root-to-1 path *)
Definition is_path (b : bdd) (pv : pval) : Prop := exists ds, path b (root b) ds 1 /\ lits_of pv ds.

(* ======================================================================================== *)
(* the derived lexicographic order on Vec<bool> (index 0 most significant, false < true)     *)
Fixpoint lex_le (a c : list bool) : Prop :=
  match a, c with
  | [], _ => True
  | _ :: _, [] => False
  | x :: a', y :: c' => (x = false /\ y = true) \/ (x = y /\ lex_le a' c')
  end.

(* v <= w on the window [a, n): equal there, or first difference has v false, w true *)
Definition lexle_from (a n : N) (v w : val) : Prop :=
  (forall i, a <= i -> i < n -> v i = w i) \/
  (exists k, a <= k /\ k < n /\ (forall i, a <= i -> i < k -> v i = w i) /\ v k = false /\ w k = true).

Lemma first_diff (v w : val) a : forall (n : nat),
  (forall i, a <= i -> i < a + N.of_nat n -> v i = w i) \/
  (exists k, a <= k /\ k < a + N.of_nat n /\ (forall i, a <= i -> i < k -> v i = w i) /\ v k <> w k).
Proof.
  induction n as [|n IH].
  - left. intros i H1 H2. lia.
  - destruct IH as [IH|(k & H1 & H2 & H3 & H4)].
    + destruct (Bool.bool_dec (v (a + N.of_nat n)) (w (a + N.of_nat n))) as [E|E].
      * left. intros i Hi1 Hi2. destruct (N.eq_dec i (a + N.of_nat n)) as [->|Hne]; [exact E|apply IH; lia].
      * right. exists (a + N.of_nat n). repeat split; try lia; [|exact E]. intros i Hi1 Hi2. apply IH; lia.
    + right. exists k. repeat split; try assumption; lia.
Qed.

Lemma first_diff' (v w : val) a c : a <= c ->
  (forall i, a <= i -> i < c -> v i = w i) \/
  (exists k, a <= k /\ k < c /\ (forall i, a <= i -> i < k -> v i = w i) /\ v k <> w k).
Proof.
  intros H. replace c with (a + N.of_nat (N.to_nat (c - a))) by lia. apply first_diff.
Qed.

(* extend the window downwards over a gap where v is constantly false *)
Lemma lexle_gap_false a c n v w : a <= c -> c <= n -> (forall i, a <= i -> i < c -> v i = false) ->
  lexle_from c n v w -> lexle_from a n v w.
Proof.
  intros Hac Hcn Hg H. destruct (first_diff' v w a c Hac) as [E|(k & K1 & K2 & K3 & K4)].
  - destruct H as [H|(k & K1 & K2 & K3 & K4 & K5)].
    + left. intros i H1 H2. destruct (N.lt_ge_cases i c); [apply E|apply H]; lia.
    + right. exists k. repeat split; try assumption; try lia.
      intros i H1 H2. destruct (N.lt_ge_cases i c); [apply E|apply K3]; lia.
  - right. exists k. repeat split; try assumption; try lia.
    + apply Hg; lia.
    + rewrite (Hg k) in K4 by lia. destruct (w k); congruence.
Qed.

(* ... and where w is constantly true *)
Lemma lexle_gap_true a c n v w : a <= c -> c <= n -> (forall i, a <= i -> i < c -> w i = true) ->
  lexle_from c n v w -> lexle_from a n v w.
Proof.
  intros Hac Hcn Hg H. destruct (first_diff' v w a c Hac) as [E|(k & K1 & K2 & K3 & K4)].
  - destruct H as [H|(k & K1 & K2 & K3 & K4 & K5)].
    + left. intros i H1 H2. destruct (N.lt_ge_cases i c); [apply E|apply H]; lia.
    + right. exists k. repeat split; try assumption; try lia.
      intros i H1 H2. destruct (N.lt_ge_cases i c); [apply E|apply K3]; lia.
  - right. exists k. repeat split; try assumption; try lia.
    + rewrite (Hg k) in K4 by lia. destruct (v k); congruence.
    + apply Hg; lia.
Qed.

Lemma lexle_step_eq a n v w : a < n -> v a = w a -> lexle_from (a + 1) n v w -> lexle_from a n v w.
Proof.
  intros Han E [H|(k & K1 & K2 & K3 & K4 & K5)].
  - left. intros i H1 H2. destruct (N.eq_dec i a) as [->|Hne]; [exact E|apply H; lia].
  - right. exists k. repeat split; try assumption; try lia.
    intros i H1 H2. destruct (N.eq_dec i a) as [->|Hne]; [exact E|apply K3; lia].
Qed.

Lemma lexle_step_lt a n v w : a < n -> v a = false -> w a = true -> lexle_from a n v w.
Proof. intros Han E1 E2. right. exists a. repeat split; try assumption; try lia. Qed.

Lemma val_of_list_cons x l i : val_of_list (x :: l) (i + 1) = val_of_list l i.
Proof. unfold val_of_list. replace (N.to_nat (i + 1)) with (S (N.to_nat i)) by lia. reflexivity. Qed.

Lemma lexle_lists : forall a c, length a = length c ->
  lexle_from 0 (N.of_nat (length a)) (val_of_list a) (val_of_list c) -> lex_le a c.
Proof.
  induction a as [|x a IH]; intros c Hlen H; [exact I|].
  destruct c as [|y c]; [discriminate|]. cbn [length] in Hlen. cbn [lex_le].
  assert (Hshift : forall i, val_of_list (x :: a) (i + 1) = val_of_list a i /\ val_of_list (y :: c) (i + 1) = val_of_list c i)
    by (intros i; split; apply val_of_list_cons).
  destruct H as [H|(k & K1 & K2 & K3 & K4 & K5)].
  - right. split.
    + apply (H 0); cbn [length]; lia.
    + apply IH; [lia|]. left. intros i H1 H2. destruct (Hshift i) as (<- & <-). apply H; cbn [length]; lia.
  - destruct (N.eq_dec k 0) as [->|Hk].
    + left. split; [exact K4|exact K5].
    + right. split.
      * apply (K3 0); lia.
      * apply IH; [lia|]. right. exists (k - 1). cbn [length] in K2.
        destruct (Hshift (k - 1)) as (E1 & E2). replace (k - 1 + 1) with k in * by lia.
        repeat split; try lia; [|congruence|congruence].
        intros i H1 H2. destruct (Hshift i) as (<- & <-). apply K3; lia.
Qed.
