(* Proofs/SelectAll.v — every selector returns None exactly on the constant-false diagram. *)
From Coq Require Import List PeanoNat NArith Lia Bool.
Import ListNotations.
From BddVerif Require Import Model.Bdd Model.Apply Model.Ops Model.Select Proofs.Sem Proofs.Canon Proofs.Reflect
  Proofs.PvalSem Proofs.SelectBase Proofs.SelectWalk Proofs.SelectWitness Proofs.SelectPred Proofs.SelectDP Proofs.SelectDPVal Proofs.SelectNec.
Open Scope N_scope.

(* the call terminates without panic, and its result is None iff the diagram is the constant false
   (iff the function is a contradiction) *)
Definition none_iff_false {T : Type} (b : bdd) (o : outcome (option T)) : Prop :=
  exists r, o = Ok r /\ (r = None <-> is_false b = true) /\ (r = None <-> forall v, eval b v = false).

(* is_false (node count = 1) is still exact on a benign non-reduced diagram: one with a decision node is satisfiable *)
Theorem is_false_correct_benign b : Benign b -> (is_false b = true <-> forall v, eval b v = false).
Proof.
  intros (W & R & _). split.
  - intros H v. apply eval_size1. apply is_false_size. exact H.
  - intros Hall. destruct (is_false b) eqn:Hf; [reflexivity|]. exfalso.
    destruct (nonzero_sat_benign b (root b) W R (valid_root b W) (root_nonzero b W Hf)) as (v & Hv).
    specialize (Hall v). unfold eval in Hall. fold (root b) in Hall. congruence.
Qed.
Print Assumptions is_false_correct_benign.

Lemma none_iff_false_intro {T : Type} b (o : outcome (option T)) : Benign b ->
  (is_false b = true -> o = Ok None) -> (is_false b = false -> exists x, o = Ok (Some x)) -> none_iff_false b o.
Proof.
  intros C H1 H2. pose proof (is_false_correct_benign b C) as HF. destruct (is_false b) eqn:E.
  - exists None. split; [apply H1; reflexivity|]. rewrite E. split; [tauto|]. rewrite <- HF. tauto.
  - destruct (H2 eq_refl) as (x & Hx). exists (Some x). split; [exact Hx|]. split.
    + rewrite E. split; intros Hd; discriminate Hd.
    + rewrite <- HF. split; intros Hd; discriminate Hd.
Qed.

Theorem all_none_iff_false_benign b : Benign b ->
  none_iff_false b (sat_witness b) /\ none_iff_false b (first_valuation b) /\ none_iff_false b (last_valuation b) /\
  none_iff_false b (most_positive_valuation b) /\ none_iff_false b (most_negative_valuation b) /\
  none_iff_false b (first_clause b) /\ none_iff_false b (last_clause b) /\
  none_iff_false b (most_fixed_clause b) /\ none_iff_false b (most_free_clause b) /\
  none_iff_false b (necessary_clause b) /\
  (forall script, none_iff_false b (random_valuation b script)) /\
  (forall script, none_iff_false b (random_clause b script)).
Proof.
  intros C. repeat split; try intros script; apply (none_iff_false_intro b _ C).
  - apply sat_witness_none.
  - intros H. destruct (sat_witness_spec_benign b C H) as (l & Hl & _). now exists l.
  - apply first_valuation_none.
  - intros H. destruct (first_valuation_spec_benign b C H) as (l & Hl & _). now exists l.
  - apply last_valuation_none.
  - intros H. destruct (last_valuation_spec_benign b C H) as (l & Hl & _). now exists l.
  - apply most_positive_valuation_none.
  - intros H. destruct (most_positive_spec_benign b C H) as (l & Hl & _). now exists l.
  - apply most_negative_valuation_none.
  - intros H. destruct (most_negative_spec_benign b C H) as (l & Hl & _). now exists l.
  - apply first_clause_none.
  - intros H. destruct (first_clause_spec_benign b C H) as (pv & ds & Hl & _). now exists pv.
  - apply last_clause_none.
  - intros H. destruct (last_clause_spec_benign b C H) as (pv & ds & Hl & _). now exists pv.
  - apply most_fixed_clause_none.
  - intros H. destruct (most_fixed_clause_spec_benign b C H) as (pv & ds & Hl & _). now exists pv.
  - apply most_free_clause_none.
  - intros H. destruct (most_free_clause_spec_benign b C H) as (pv & ds & Hl & _). now exists pv.
  - apply necessary_clause_none.
  - intros H. destruct (necessary_clause_spec_benign b C H) as (pv & Hl & _). now exists pv.
  - apply random_valuation_none.
  - intros H. destruct (random_valuation_spec_benign b script C H) as (l & Hl & _). now exists l.
  - apply random_clause_none.
  - intros H. destruct (random_clause_spec_benign b script C H) as (pv & Hl & _). now exists pv.
Qed.
Print Assumptions all_none_iff_false_benign.

Theorem all_none_iff_false b : Canonical b ->
  none_iff_false b (sat_witness b) /\ none_iff_false b (first_valuation b) /\ none_iff_false b (last_valuation b) /\
  none_iff_false b (most_positive_valuation b) /\ none_iff_false b (most_negative_valuation b) /\
  none_iff_false b (first_clause b) /\ none_iff_false b (last_clause b) /\
  none_iff_false b (most_fixed_clause b) /\ none_iff_false b (most_free_clause b) /\
  none_iff_false b (necessary_clause b) /\
  (forall script, none_iff_false b (random_valuation b script)) /\
  (forall script, none_iff_false b (random_clause b script)).
Proof. intros C. apply all_none_iff_false_benign. apply canonical_benign. exact C. Qed.
Print Assumptions all_none_iff_false.
