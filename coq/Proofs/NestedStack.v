(* Proofs/NestedStack.v — the three explicit-stack machines of Model/NestedStack.v (one istep / ostep / cstep = one
   iteration of the Rust `while` loops of inner_apply / nested_apply / fix_bdd_alignment) compute exactly what the
   recursive engines of Model/Nested.v compute:
     inner_apply_stack_eq      inner machine  = inner_apply   (on a hash-consed store, total inner table)
     fix_alignment_stack_eq    copy machine   = fix_alignment (on a hash-consed store)
     nested_apply_stack_eq     outer machine (with the nested inner runs and the final copy) = nested_apply_faithful
   Hence every theorem about the faithful nested apply transfers to the machines.  The proofs follow
   Proofs/Apply3Stack.v: one successful recursive call on a task that is not memoised yet is matched by k machine
   iterations with the same final store and `output`, the rest of the stack untouched, and k + 2 <= 2^(fuel + 2).
   New with respect to the other loops: the inner machine re-reads the children of a task from the GROWING store every
   time the task is on top (the recursion reads them once); this is harmless because the store is append-only and the
   pointers of a task are in range — a purely STRUCTURAL invariant (store_ok), so no semantic hypothesis on the tables
   is needed, only totality. *)
From Coq Require Import List NArith Lia Bool Arith PeanoNat.
Import ListNotations.
From BddVerif Require Import Model.Bdd Model.Apply Model.ApplyStack Model.Ops Model.Nested Model.NestedStack
  Proofs.Sem Proofs.Canon Proofs.ApplySem Proofs.ApplyTop Proofs.QuantSem Proofs.NestedSem.
Open Scope N_scope.

(* ====================================================================================================== *)
(* k iterations of a loop body; `run d` = 2^d iterations (early exit is invisible: the body is the identity on
   configurations with an empty stack)                                                                      *)
Section Iter.
  Variable C : Type.
  Variables (step : C -> C) (emp : C -> bool).

  Fixpoint niter (k : nat) (c : C) : C := match k with O => c | S k' => niter k' (step c) end.

  Lemma niter_add a b c : niter (a + b) c = niter b (niter a c).
  Proof. revert c; induction a as [|a IH]; intros c; cbn; auto. Qed.

  Hypothesis emp_fix : forall c, emp c = true -> step c = c.

  Lemma niter_emp k c : emp c = true -> niter k c = c.
  Proof. intros H. induction k as [|k IH]; cbn; [reflexivity|]. now rewrite (emp_fix c H). Qed.

  Variable run : nat -> C -> C.
  Hypothesis run0 : forall c, run 0 c = step c.
  Hypothesis runS : forall d c, run (S d) c = if emp (run d c) then run d c else run d (run d c).

  Lemma run_niter d : forall c, run d c = niter (2 ^ d) c.
  Proof.
    induction d as [|d IH]; intros c; [rewrite run0; reflexivity|].
    rewrite runS, Nat.pow_succ_r', Nat.mul_succ_l, Nat.mul_1_l, niter_add, <- !IH.
    destruct (emp (run d c)) eqn:E; [|reflexivity].
    rewrite (IH (run d c)). symmetry. apply niter_emp. exact E.
  Qed.

  Lemma run_reach d k c c' : niter k c = c' -> emp c' = true -> (k <= 2 ^ d)%nat -> run d c = c'.
  Proof.
    intros E He Hk. rewrite run_niter. replace (2 ^ d)%nat with (k + (2 ^ d - k))%nat by lia.
    rewrite niter_add, E. apply niter_emp. exact He.
  Qed.
End Iter.
Arguments niter {C} step k c.

Lemma pow_ge4 f : (4 <= 2 ^ (f + 2))%nat.
Proof. rewrite Nat.pow_add_r. pose proof (Nat.pow_nonzero 2 f ltac:(lia)). cbn. lia. Qed.
Lemma pow_step f : (2 ^ (S f + 2) = 2 * 2 ^ (f + 2))%nat.
Proof. cbn [plus]. apply Nat.pow_succ_r'. Qed.

Lemma task_eqb_rfl (t : task) : task_eqb t t = true.
Proof. destruct (task_eqb_spec t t); congruence. Qed.

(* ====================================================================================================== *)
(* (1) the inner machine                                                                                    *)

(* a task of the inner engine is a pair of pointers into the store *)
Definition tin (G : list node) (t : task) : Prop := fst t < size G /\ snd t < size G.
(* what an entry of the inner cache promises, structurally: pointers in range, result not above the task's level *)
Definition igd (G : list node) (t : task) (p : N) : Prop :=
  tin G t /\ p < size G /\ level G G t <= var_of G p.
(* hash-consed store (sok: terminals at 0/1, children at smaller indices, ordered, no redundant test), node cache
   sound, inner cache structurally sound.  No semantic content. *)
Definition store_ok (nv : N) (s : nst) : Prop :=
  sok nv (nn s) /\
  (forall n p, nfind n (nex s) = Some p -> p < size (nn s) /\ get (nn s) p = n) /\
  (forall t p, tfind t (ninner s) = Some p -> igd (nn s) t p).

Lemma kids_app (G l : list node) fl p dv : p < size G -> kids (G ++ l) fl p dv = kids G fl p dv.
Proof. intros H. unfold kids. now rewrite gapp1. Qed.

Lemma t_lo_app G l t : tin G t -> t_lo (G ++ l) (G ++ l) None None t = t_lo G G None None t.
Proof. intros (H1 & H2). unfold t_lo. rewrite level_app, !kids_app by assumption. reflexivity. Qed.
Lemma t_hi_app G l t : tin G t -> t_hi (G ++ l) (G ++ l) None None t = t_hi G G None None t.
Proof. intros (H1 & H2). unfold t_hi. rewrite level_app, !kids_app by assumption. reflexivity. Qed.

Lemma igd_app G l t p : igd G t p -> igd (G ++ l) t p.
Proof.
  intros ((a & b) & c & d). unfold igd, tin. rewrite sapp. split; [split; lia|]. split; [lia|].
  rewrite level_app, vapp1 by assumption. exact d.
Qed.
Lemma igd_next s s' t p : next s s' -> igd (nn s) t p -> igd (nn s') t p.
Proof. intros (l & E) H. rewrite E. now apply igd_app. Qed.
Lemma next_t_lo s s' t : next s s' -> tin (nn s) t -> t_lo (nn s') (nn s') None None t = t_lo (nn s) (nn s) None None t.
Proof. intros (l & E) H. rewrite E. now apply t_lo_app. Qed.
Lemma next_t_hi s s' t : next s s' -> tin (nn s) t -> t_hi (nn s') (nn s') None None t = t_hi (nn s) (nn s) None None t.
Proof. intros (l & E) H. rewrite E. now apply t_hi_app. Qed.

Section InnerSim.
  Variable nv : N.
  Variable inner : op2.
  Local Notation iiter := (niter (istep inner)).
  Local Notation ilookup := (NestedStack.ilookup inner).
  Local Notation SOK := (store_ok nv).

  (* ---------------------------------------------------------------------------------------------------- *)
  (* the iteration bound *)
  Lemma iempty_fix c : iempty c = true -> istep inner c = c.
  Proof. destruct c as [[[|x stk] out] s]; cbn; [reflexivity|discriminate]. Qed.

  Lemma irun_reach d k c c' : iiter k c = c' -> iempty c' = true -> (k <= 2 ^ d)%nat -> irun inner d c = c'.
  Proof.
    apply (run_reach _ (istep inner) iempty iempty_fix (irun inner)); [reflexivity|].
    intros d' c0. reflexivity.
  Qed.

  (* ---------------------------------------------------------------------------------------------------- *)
  (* the loop body in the vocabulary of Model/Apply.v *)
  Lemma istep_eq t rest out s : istep inner (t :: rest, out, s) =
    match tfind t (ninner s) with
    | Some saved => (rest, saved, s)
    | None =>
      let G := nn s in
      match ilookup (t_lo G G None None t) s, ilookup (t_hi G G None None t) s with
      | Some nl, Some nh => let '(o, s') := iresolve t (level G G t) nl nh s in (rest, o, s')
      | nlo, nhi =>
        (push_unknown nhi (t_hi G G None None t) (push_unknown nlo (t_lo G G None None t) (t :: rest)), out, s)
      end
    end.
  Proof.
    unfold istep, t_lo, t_hi, level.
    destruct (tfind t (ninner s)); [reflexivity|]. cbv zeta.
    destruct (kids (nn s) None (fst t) _) as [ll lh], (kids (nn s) None (snd t) _) as [rl rh]. cbn [fst snd].
    destruct (ilookup (ll, rl) s), (ilookup (lh, rh) s); reflexivity.
  Qed.

  (* lines 137-156 = hash-consing (nmk) followed by the cache insertion *)
  Lemma iresolve_nmk t dv lo hi s :
    iresolve t dv lo hi s = (fst (nmk s dv lo hi), imemo (snd (nmk s dv lo hi)) t (fst (nmk s dv lo hi))).
  Proof. unfold iresolve, nmk. destruct (lo =? hi); [reflexivity|]. destruct (nfind _ _); reflexivity. Qed.

  (* ---------------------------------------------------------------------------------------------------- *)
  (* lookup versus iensure *)
  Lemma iensure_cases proc t s p s1 : iensure inner proc t s = Some (p, s1) ->
    (ilookup t s = Some p /\ s1 = s) \/ (ilookup t s = None /\ proc t s = Some (p, s1)).
  Proof.
    unfold iensure, NestedStack.ilookup. destruct (inner _ _) as [c|].
    - intros E; inversion E; subst; auto.
    - destruct (tfind t (ninner s)) as [q|]; [intros E; inversion E; subst; auto|auto].
  Qed.
  Lemma iensure_lookup proc t s p : ilookup t s = Some p -> iensure inner proc t s = Some (p, s).
  Proof.
    unfold iensure, NestedStack.ilookup. destruct (inner _ _) as [c|].
    - intros E; inversion E; subst; auto.
    - intros ->. reflexivity.
  Qed.
  Lemma iensure_none proc t s : ilookup t s = None -> iensure inner proc t s = proc t s.
  Proof. unfold iensure, NestedStack.ilookup. destruct (inner _ _); [discriminate|]. intros ->. reflexivity. Qed.
  Lemma ilookup_none t s : ilookup t s = None ->
    inner (as_bool (fst t)) (as_bool (snd t)) = None /\ tfind t (ninner s) = None.
  Proof. unfold NestedStack.ilookup. destruct (inner _ _); [discriminate|auto]. Qed.
  Lemma ilookup_tfind t s p : inner (as_bool (fst t)) (as_bool (snd t)) = None ->
    tfind t (ninner s) = Some p -> ilookup t s = Some p.
  Proof. unfold NestedStack.ilookup. intros -> H. exact H. Qed.

  (* the store only grows; cache entries are never removed or changed; entries of tasks (of the old store) below
     level L are not touched at all *)
  Definition istable (L : N) (s s' : nst) : Prop :=
    next s s' /\
    (forall t q, tfind t (ninner s) = Some q -> tfind t (ninner s') = Some q) /\
    (forall t, tin (nn s) t -> level (nn s) (nn s) t < L -> tfind t (ninner s') = tfind t (ninner s)).

  Lemma istable_refl L s : istable L s s.
  Proof. split; [apply next_refl|]. split; auto. Qed.
  Lemma istable_trans L a b c : istable L a b -> istable L b c -> istable L a c.
  Proof.
    intros (X1 & H1 & H2) (X2 & H3 & H4). split; [eapply next_trans; eassumption|]. split; [auto|].
    intros t (T1 & T2) Hl. pose proof (next_size _ _ X1) as Hs.
    rewrite H4, H2; auto; [split; assumption|split; lia|].
    rewrite (next_level a b t X1 T1 T2). exact Hl.
  Qed.
  Lemma istable_weaken L L' a b : L' <= L -> istable L a b -> istable L' a b.
  Proof. intros Hl (X & H1 & H2). split; [exact X|]. split; [auto|]. intros t Tt Ht. apply H2; [exact Tt|lia]. Qed.
  Lemma ilookup_stable L s s' t q : istable L s s' -> ilookup t s = Some q -> ilookup t s' = Some q.
  Proof. intros (_ & H & _). unfold NestedStack.ilookup. destruct (inner _ _); [auto|apply H]. Qed.

  (* ---------------------------------------------------------------------------------------------------- *)
  (* the structural invariant *)
  Lemma store_imemo s t p : SOK s -> igd (nn s) t p -> SOK (imemo s t p).
  Proof.
    intros (H1 & H2 & H3) Hg. unfold store_ok, imemo; cbn [nn nex ninner nouter].
    split; [assumption|]. split; [assumption|].
    intros t' p'. cbn [tfind]. destruct (task_eqb_spec t' t) as [->|NE].
    - intros E; inversion E; subst; exact Hg.
    - apply H3.
  Qed.

  (* hash-consing a node, structurally (cf. NestedSem.nmk_ok) *)
  Lemma nmk_store s d x y :
    SOK s -> d < nv -> x < size (nn s) -> y < size (nn s) ->
    d < var_of (nn s) x -> d < var_of (nn s) y ->
    let r := nmk s d x y in
    SOK (snd r) /\ next s (snd r) /\ fst r < size (nn (snd r)) /\ d <= var_of (nn (snd r)) (fst r) /\
    ninner (snd r) = ninner s /\ nouter (snd r) = nouter s.
  Proof.
    intros HI Hd Hx Hy Hvx Hvy. unfold nmk.
    destruct (N.eqb_spec x y) as [->|NE]; cbn [fst snd].
    - split; [assumption|]. split; [apply next_refl|]. split; [assumption|]. split; [lia|]. auto.
    - pose proof HI as (HS & Ha & Hf).
      destruct (nfind (mkNode d x y) (nex s)) as [p|] eqn:En; cbn [fst snd].
      + destruct (Ha _ _ En) as (Hp & Hg).
        split; [assumption|]. split; [apply next_refl|]. split; [assumption|]. split; [|auto].
        unfold var_of. rewrite Hg. cbn. lia.
      + set (G := nn s) in *. set (n := mkNode d x y) in *.
        assert (HS' : sok nv (G ++ [n])) by (apply sok_snoc; assumption).
        cbn [nn ninner nouter]. split; [|split; [|split; [|split]]].
        * unfold store_ok. cbn [nn nex ninner nouter]. split; [exact HS'|]. split.
          -- intros n' q. cbn [nfind]. destruct (node_eqb_spec n' n) as [->|Hne].
             ++ intros E; inversion E; subst. rewrite sapp, gapp_last. change (size [n]) with 1. split; [lia|reflexivity].
             ++ intros E. destruct (Ha _ _ E) as (Hq & Hgq). rewrite sapp, gapp1 by assumption. split; [lia|assumption].
          -- intros t p Ht. apply igd_app; auto.
        * exists [n]. reflexivity.
        * rewrite sapp. change (size [n]) with 1. lia.
        * unfold var_of. rewrite gapp_last. cbn. lia.
        * auto.
  Qed.

  (* ---------------------------------------------------------------------------------------------------- *)
  Hypothesis I_total : forall a b, inner (Some a) (Some b) <> None.

  Lemma iterm_lookup t s : sok nv (nn s) -> fst t < 2 -> snd t < 2 -> exists c, ilookup t s = Some (of_bool c) /\
    inner (as_bool (fst t)) (as_bool (snd t)) = Some c.
  Proof.
    intros HG A1 A2. destruct (asb_term _ A1) as (a & Ea), (asb_term _ A2) as (b & Eb).
    unfold NestedStack.ilookup. rewrite Ea, Eb. destruct (inner (Some a) (Some b)) as [c|] eqn:Ec; [eauto|].
    exfalso. exact (I_total a b Ec).
  Qed.

  (* Simulation: one successful call of `iproc` on a task that is not yet memoised is matched by a run of the
     inner machine that starts with the task on top and ends when it has been popped; the stack below is
     untouched, `output` is the returned pointer and the states coincide. *)
  Lemma iproc_sim : forall f t s p s', iproc inner f t s = Some (p, s') -> SOK s -> tin (nn s) t ->
    tfind t (ninner s) = None ->
    SOK s' /\ igd (nn s') t p /\ istable (level (nn s) (nn s) t) s s' /\ tfind t (ninner s') = Some p /\
    nouter s' = nouter s /\
    forall rest out, exists k, (k + 2 <= 2 ^ (f + 2))%nat /\ iiter k (t :: rest, out, s) = (rest, p, s').
  Proof.
    induction f as [|f IH]; intros t s p s' E HS Tt Ht; [discriminate|].
    cbn [iproc] in E.
    pose proof HS as (HG & Hex & Hin). pose proof Tt as (T1 & T2).
    pose proof (ilevel_le nv (nn s) t HG T1) as Hle.
    destruct (N.eq_dec (level (nn s) (nn s) t) nv) as [En|NEn].
    - (* the root task of an inner invocation may be a pair of terminals: its sub-tasks are the task itself *)
      destruct (ilevel_term nv (nn s) t HG T1 T2 En) as (A1 & A2).
      destruct (term_kids nv (nn s) t HG A1 A2) as (Klo & Khi & _).
      destruct (iterm_lookup t s HG A1 A2) as (c & Lc & Oc).
      rewrite Klo, Khi in E. unfold iensure in E. rewrite Oc in E. unfold nmk in E. rewrite N.eqb_refl in E.
      inversion E; subst p s'. clear E.
      assert (Hb : of_bool c < 2) by (destruct c; cbn; lia).
      assert (Hg : igd (nn s) t (of_bool c)).
      { split; [exact Tt|]. destruct HG as (S2 & _). split; [lia|].
        rewrite (sok_term_var nv (nn s) _ (proj1 HS) Hb). exact Hle. }
      split; [apply store_imemo; assumption|]. split; [exact Hg|]. split.
      { split; [exists []; cbn [nn imemo]; now rewrite app_nil_r|]. split.
        - intros t' q Hq. cbn [imemo ninner tfind]. destruct (task_eqb_spec t' t) as [->|NE]; [congruence|exact Hq].
        - intros t' _ Hl. cbn [imemo ninner tfind]. destruct (task_eqb_spec t' t) as [->|NE]; [lia|reflexivity]. }
      split; [cbn [imemo ninner tfind]; now rewrite task_eqb_rfl|]. split; [reflexivity|].
      intros rest out. exists 1%nat. split; [rewrite pow_step; pose proof (pow_ge4 f); lia|].
      cbn [niter]. rewrite istep_eq, Ht. cbv zeta. rewrite Klo, Khi, Lc. unfold iresolve. rewrite N.eqb_refl. reflexivity.
    - set (G := nn s) in *. set (dv := level G G t) in *.
      assert (Hlt : dv < nv) by lia.
      destruct (iexpand nv (fun _ _ => false) G t HG T1 T2 Hlt) as (L1 & L2 & U1 & U2 & Llo & Lhi & _).
      fold dv in Llo, Lhi.
      set (tlo := t_lo G G None None t) in *. set (thi := t_hi G G None None t) in *.
      (* one sub-task: `sa` is the state in which the machine decided whether to push it,
         `s1` the state in which `iproc` ensures it *)
      assert (Hchild : forall sa tb s1 pb s2,
                SOK s1 -> next s s1 -> tin G tb -> dv < level G G tb ->
                (forall q, ilookup tb sa = Some q -> ilookup tb s1 = Some q) ->
                iensure inner (iproc inner f) tb s1 = Some (pb, s2) ->
                SOK s2 /\ istable (dv + 1) s1 s2 /\ ilookup tb s2 = Some pb /\
                pb < size (nn s2) /\ dv < var_of (nn s2) pb /\ nouter s2 = nouter s1 /\
                forall rest out, exists k out', (k + 2 <= 2 ^ (f + 2))%nat /\
                  iiter k (push_unknown (ilookup tb sa) tb rest, out, s1) = (rest, out', s2)).
      { intros sa tb s1 pb s2 HS1 X1 (B1 & B2) Lb Hst Ee. pose proof (pow_ge4 f) as P4.
        pose proof (next_size _ _ X1) as Hsz. fold G in Hsz.
        assert (Tb1 : tin (nn s1) tb) by (split; lia).
        assert (Lb1 : level (nn s1) (nn s1) tb = level G G tb) by (apply (next_level s s1 tb X1 B1 B2)).
        destruct (iensure_cases _ _ _ _ _ Ee) as [(Hl & ->)|(Hl & Hp)].
        - assert (Hpb : pb < size (nn s1) /\ dv < var_of (nn s1) pb).
          { pose proof HS1 as (HG1 & _ & Hin1). unfold NestedStack.ilookup in Hl.
            destruct (inner (as_bool (fst tb)) (as_bool (snd tb))) as [c|].
            - inversion Hl; subst pb. assert (Hb : of_bool c < 2) by (destruct c; cbn; lia).
              rewrite (sok_term_var nv _ _ HG1 Hb). destruct HG1 as (S2 & _). split; lia.
            - destruct (Hin1 _ _ Hl) as (_ & Pp & Vp). rewrite Lb1 in Vp. split; [exact Pp|lia]. }
          destruct Hpb as (Pp & Vp).
          split; [exact HS1|]. split; [apply istable_refl|]. split; [exact Hl|].
          split; [exact Pp|]. split; [exact Vp|]. split; [reflexivity|]. intros rest out.
          destruct (ilookup tb sa) as [q|] eqn:Ea; cbn [push_unknown].
          + exists 0%nat, out. split; [lia|reflexivity].
          + exists 1%nat, pb. split; [lia|]. cbn [niter]. rewrite istep_eq.
            destruct (ilookup_none _ _ Ea) as (Eo & _).
            unfold NestedStack.ilookup in Hl. rewrite Eo in Hl. rewrite Hl. reflexivity.
        - destruct (ilookup_none _ _ Hl) as (Eo & Ef).
          destruct (IH tb s1 pb s2 Hp HS1 Tb1 Ef) as (HS2 & Gd & St & Fd & No & Run).
          rewrite Lb1 in St.
          split; [exact HS2|]. split; [apply (istable_weaken (level G G tb)); [lia|exact St]|].
          split; [apply ilookup_tfind; assumption|].
          destruct Gd as (_ & Pp & Vp).
          rewrite (next_level s1 s2 tb (proj1 St) (proj1 Tb1) (proj2 Tb1)), Lb1 in Vp.
          split; [exact Pp|]. split; [lia|]. split; [exact No|]. intros rest out.
          destruct (ilookup tb sa) as [q|] eqn:Ea; [rewrite (Hst q eq_refl) in Hl; discriminate|].
          cbn [push_unknown]. destruct (Run rest out) as (k & Hk & R). exists k, pb. auto. }
      destruct (iensure inner (iproc inner f) thi s) as [[phi s1]|] eqn:E1; [|discriminate].
      destruct (iensure inner (iproc inner f) tlo s1) as [[plo s2]|] eqn:E2; [|discriminate].
      destruct (nmk s2 dv plo phi) as [p0 s3] eqn:E3. inversion E; subst p s'. clear E.
      destruct (Hchild s thi s phi s1 HS (next_refl s) (conj U1 U2) Lhi (fun q H => H) E1)
        as (HS1 & St1 & Lk1 & P1 & V1 & No1 & Run1).
      destruct (Hchild s tlo s1 plo s2 HS1 (proj1 St1) (conj L1 L2) Llo
                  (fun q H => ilookup_stable _ _ _ _ _ St1 H) E2) as (HS2 & St2 & Lk2 & P2 & V2 & No2 & Run2).
      pose proof (istable_trans _ _ _ _ St1 St2) as St.
      pose proof (ilookup_stable _ _ _ _ _ St2 Lk1) as Lk1'.
      assert (P1' : phi < size (nn s2)) by (pose proof (next_size _ _ (proj1 St2)); lia).
      assert (V1' : dv < var_of (nn s2) phi) by (rewrite (next_var s1 s2 phi (proj1 St2) P1); exact V1).
      pose proof (nmk_store s2 dv plo phi HS2 Hlt P2 P1' V2 V1') as Hmk. rewrite E3 in Hmk. cbn [fst snd] in Hmk.
      destruct Hmk as (HS3 & X3 & Pp & Vp & Ni3 & No3).
      assert (X03 : next s s3) by (eapply next_trans; [exact (proj1 St)|exact X3]).
      assert (Hg : igd (nn s3) t p0).
      { pose proof (next_size _ _ X03) as Hsz. fold G in Hsz. split; [split; lia|]. split; [exact Pp|].
        rewrite (next_level s s3 t X03 T1 T2). exact Vp. }
      assert (Hnone2 : tfind t (ninner s2) = None).
      { destruct St as (_ & _ & St). rewrite (St t Tt) by (fold G dv; lia). exact Ht. }
      split; [apply store_imemo; assumption|]. split; [exact Hg|]. split.
      { split; [exact X03|]. split.
        - intros t' q Hq. cbn [imemo ninner tfind]. rewrite Ni3.
          destruct (task_eqb_spec t' t) as [->|NE]; [congruence|]. destruct St as (_ & St & _). auto.
        - intros t' Tt' Hl. cbn [imemo ninner tfind]. rewrite Ni3.
          destruct (task_eqb_spec t' t) as [->|NE]; [fold G dv in Hl; lia|].
          destruct St as (_ & _ & St). apply St; [exact Tt'|]. fold G in Hl |- *. lia. }
      split; [cbn [imemo ninner tfind]; now rewrite task_eqb_rfl|].
      split; [cbn [imemo nouter]; congruence|].
      (* the last iteration: the task is on top again, both sub-results are known *)
      assert (Hlast : forall rest o, istep inner (t :: rest, o, s2) = (rest, p0, imemo s3 t p0)).
      { intros rest o. rewrite istep_eq, Hnone2. cbv zeta.
        rewrite (next_t_lo s s2 t (proj1 St) Tt), (next_t_hi s s2 t (proj1 St) Tt), (next_level s s2 t (proj1 St) T1 T2).
        fold G tlo thi dv. rewrite Lk2, Lk1', iresolve_nmk, E3. reflexivity. }
      intros rest out.
      assert (Hgen : ilookup tlo s = None \/ ilookup thi s = None ->
                exists k, (k + 2 <= 2 ^ (S f + 2))%nat /\ iiter k (t :: rest, out, s) = (rest, p0, imemo s3 t p0)).
      { intros Hnone.
        destruct (Run1 (push_unknown (ilookup tlo s) tlo (t :: rest)) out) as (k1 & o1 & B1 & R1).
        destruct (Run2 (t :: rest) o1) as (k2 & o2 & B2 & R2).
        exists (1 + (k1 + (k2 + 1)))%nat. split; [rewrite pow_step; lia|].
        assert (Hfirst : istep inner (t :: rest, out, s) =
                  (push_unknown (ilookup thi s) thi (push_unknown (ilookup tlo s) tlo (t :: rest)), out, s)).
        { rewrite istep_eq, Ht. cbv zeta. fold G tlo thi.
          destruct (ilookup tlo s), (ilookup thi s); try reflexivity. destruct Hnone; discriminate. }
        cbn [plus niter]. rewrite Hfirst, niter_add, R1, niter_add, R2. cbn [niter]. apply Hlast. }
      destruct (ilookup tlo s) as [qlo|] eqn:La; [destruct (ilookup thi s) as [qhi|] eqn:Lb|]; [|apply Hgen; auto..].
      (* both known at the first examination: resolve at once *)
      rewrite (iensure_lookup _ _ _ _ Lb) in E1. inversion E1; subst qhi s1. clear E1.
      rewrite (iensure_lookup _ _ _ _ La) in E2. inversion E2; subst qlo s2. clear E2.
      exists 1%nat. split; [rewrite pow_step; pose proof (pow_ge4 f); lia|]. cbn [niter]. apply Hlast.
  Qed.
  (* the recursive inner engine does not run out of fuel on a hash-consed store *)
  Lemma iproc_total : forall f t s, SOK s -> tin (nn s) t -> tfind t (ninner s) = None ->
    (N.to_nat (nv - level (nn s) (nn s) t) < f)%nat -> exists p s', iproc inner f t s = Some (p, s').
  Proof.
    induction f as [|f IH]; intros t s HS Tt Ht Hf; [lia|].
    pose proof HS as (HG & _). pose proof Tt as (T1 & T2).
    pose proof (ilevel_le nv (nn s) t HG T1) as Hle.
    cbn [iproc].
    destruct (N.eq_dec (level (nn s) (nn s) t) nv) as [En|NEn].
    - destruct (ilevel_term nv (nn s) t HG T1 T2 En) as (A1 & A2).
      destruct (term_kids nv (nn s) t HG A1 A2) as (Klo & Khi & _).
      destruct (iterm_lookup t s HG A1 A2) as (c & _ & Oc).
      rewrite Klo, Khi. unfold iensure. rewrite Oc. destruct (nmk _ _ _ _); eauto.
    - set (G := nn s) in *. set (dv := level G G t) in *.
      assert (Hlt : dv < nv) by lia.
      destruct (iexpand nv (fun _ _ => false) G t HG T1 T2 Hlt) as (L1 & L2 & U1 & U2 & Llo & Lhi & _).
      fold dv in Llo, Lhi.
      assert (Hens : forall tb s1, SOK s1 -> next s s1 -> tin G tb -> dv < level G G tb ->
                exists pb s2, iensure inner (iproc inner f) tb s1 = Some (pb, s2) /\ SOK s2 /\ next s1 s2).
      { intros tb s1 HS1 X1 (B1 & B2) Lb.
        destruct (ilookup tb s1) as [q|] eqn:El.
        - exists q, s1. split; [now apply iensure_lookup|]. split; [exact HS1|apply next_refl].
        - rewrite (iensure_none _ _ _ El). destruct (ilookup_none _ _ El) as (_ & Ef).
          pose proof (next_size _ _ X1) as Hsz. fold G in Hsz.
          assert (Tb1 : tin (nn s1) tb) by (split; lia).
          destruct (IH tb s1 HS1 Tb1 Ef) as (pb & s2 & Ep).
          { rewrite (next_level s s1 tb X1 B1 B2). fold G. lia. }
          destruct (iproc_sim _ _ _ _ _ Ep HS1 Tb1 Ef) as (HS2 & _ & (X2 & _) & _).
          exists pb, s2. auto. }
      destruct (Hens _ s HS (next_refl s) (conj U1 U2) Lhi) as (phi & s1 & -> & HS1 & X1).
      destruct (Hens _ s1 HS1 X1 (conj L1 L2) Llo) as (plo & s2 & -> & _).
      destruct (nmk _ _ _ _); eauto.
  Qed.

  (* what a successful inner invocation delivers, structurally *)
  Lemma inner_apply_post s l r p s' : inner_apply inner l r s = Some (p, s') -> SOK s ->
    l < size (nn s) -> r < size (nn s) ->
    SOK s' /\ next s s' /\ p < size (nn s') /\ level (nn s) (nn s) (l, r) <= var_of (nn s') p /\ nouter s' = nouter s.
  Proof.
    intros E HS Hl Hr. unfold inner_apply in E.
    destruct (tfind (l, r) (ninner s)) as [q|] eqn:Ef.
    - inversion E; subst q s'. pose proof HS as (HG & Hex & Hin). destruct (Hin _ _ Ef) as (_ & Pp & Vp).
      split; [exact HS|]. split; [apply next_refl|]. auto.
    - destruct (iproc_sim _ _ _ _ _ E HS (conj Hl Hr) Ef) as (HS' & (_ & Pp & Vp) & (X & _) & _ & No & _).
      rewrite (next_level s s' (l, r) X Hl Hr) in Vp. auto.
  Qed.

  (* the inner machine computes what the recursive inner engine computes; the iteration bound is not reached *)
  Lemma inner_apply_stack_eq_section s l r : SOK s -> l < size (nn s) -> r < size (nn s) ->
    inner_apply_stack inner l r s = inner_apply inner l r s.
  Proof.
    intros HS Hl Hr. pose proof HS as (HG & _).
    unfold inner_apply_stack, inner_apply. rewrite (sok_nvars nv _ HG).
    destruct (tfind (l, r) (ninner s)) as [q|] eqn:Ef.
    - rewrite (irun_reach _ 1 _ ([], q, s)); [reflexivity| |reflexivity|].
      + cbn [niter]. rewrite istep_eq, Ef. reflexivity.
      + pose proof (pow_ge4 (S (S (N.to_nat nv)))). replace (S (S (N.to_nat nv)) + 2)%nat with (S (S (S (S (N.to_nat nv))))) in H by lia. lia.
    - destruct (iproc_total (S (S (N.to_nat nv))) (l, r) s HS (conj Hl Hr) Ef ltac:(lia)) as (p & s' & E).
      rewrite E.
      destruct (iproc_sim _ _ _ _ _ E HS (conj Hl Hr) Ef) as (_ & _ & _ & _ & _ & Run).
      destruct (Run [] 0) as (k & Hk & R).
      rewrite (irun_reach _ k _ ([], p, s') R); [reflexivity|reflexivity|].
      replace (S (S (N.to_nat nv)) + 2)%nat with (S (S (S (S (N.to_nat nv))))) in Hk by lia. lia.
  Qed.
End InnerSim.

(* ====================================================================================================== *)
(* (2) the copy machine of fix_bdd_alignment                                                                *)
Section CopySim.
  Variables (nv : N) (G : bdd).
  Hypothesis HG : sok nv G.
  Local Notation citer := (niter (cstep G)).

  Lemma cempty_fix c : cempty c = true -> cstep G c = c.
  Proof. destruct c as [[|x stk] [acc pm]]; cbn; [reflexivity|discriminate]. Qed.

  Lemma crun_reach d k c c' : citer k c = c' -> cempty c' = true -> (k <= 2 ^ d)%nat -> crun G d c = c'.
  Proof.
    apply (run_reach _ (cstep G) cempty cempty_fix (crun G)); [reflexivity|].
    intros d' c0. reflexivity.
  Qed.

  (* translations are never removed or changed; pointers above P are not touched at all *)
  Definition cstable (P : N) (pm pm' : list (N * N)) : Prop :=
    (forall x q, plook x pm = Some q -> plook x pm' = Some q) /\ (forall x, P < x -> pfind x pm' = pfind x pm).
  Lemma cstable_refl P pm : cstable P pm pm.
  Proof. split; auto. Qed.

  Lemma plook_none p pm : plook p pm = None -> 2 <= p /\ pfind p pm = None.
  Proof. unfold plook. destruct (N.ltb_spec p 2); [discriminate|auto]. Qed.

  (* a call of `copy` either finds the pointer translated (and changes nothing) or the pointer is untranslated *)
  Lemma copy_cases f c acc pm q st : copy f G c acc pm = Some (q, st) ->
    (plook c pm = Some q /\ st = (acc, pm)) \/ plook c pm = None.
  Proof.
    destruct f as [|f]; [discriminate|]. cbn [copy]. unfold plook.
    destruct (c <? 2); [intros E; inversion E; auto|].
    destruct (pfind c pm); [intros E; inversion E; auto|auto].
  Qed.

  Lemma copy_sim : forall f p acc pm q acc' pm', copy f G p acc pm = Some (q, (acc', pm')) -> p < size G ->
    plook p pm = None ->
    plook p pm' = Some q /\ cstable p pm pm' /\
    forall rest, exists k, (k + 2 <= 2 ^ (f + 2))%nat /\ citer k (p :: rest, (acc, pm)) = (rest, (acc', pm')).
  Proof.
    induction f as [|f IH]; intros p acc pm q acc' pm' E Hp Hn; [discriminate|].
    destruct (plook_none _ _ Hn) as (Hp2 & Hpf).
    cbn [copy] in E. destruct (N.ltb_spec p 2) as [|_]; [lia|]. rewrite Hpf in E.
    set (n := get G p) in *.
    destruct HG as (_ & _ & _ & Hnok). destruct (Hnok p Hp2 Hp) as (_ & Clo & Chi & _). fold n in Clo, Chi.
    (* one child: `pma` is the map in which the machine decided whether to push it *)
    assert (Hchild : forall pma c acc1 pm1 qc acc2 pm2, c < p ->
              (forall x, plook c pma = Some x -> plook c pm1 = Some x) ->
              copy f G c acc1 pm1 = Some (qc, (acc2, pm2)) ->
              plook c pm2 = Some qc /\ cstable c pm1 pm2 /\
              forall rest, exists k, (k + 2 <= 2 ^ (f + 2))%nat /\
                citer k (push_unknown_p (plook c pma) c rest, (acc1, pm1)) = (rest, (acc2, pm2))).
    { intros pma c acc1 pm1 qc acc2 pm2 Hc Hst Ec. pose proof (pow_ge4 f) as P4.
      destruct (copy_cases _ _ _ _ _ _ Ec) as [(Hl & Est)|Hl].
      - inversion Est; subst acc2 pm2. split; [exact Hl|]. split; [apply cstable_refl|]. intros rest.
        destruct (plook c pma) as [x|] eqn:Ea; cbn [push_unknown_p].
        + exists 0%nat. split; [lia|reflexivity].
        + exists 1%nat. split; [lia|]. cbn [niter cstep]. rewrite Hl. reflexivity.
      - destruct (IH c acc1 pm1 qc acc2 pm2 Ec ltac:(lia) Hl) as (Fd & St & Run).
        split; [exact Fd|]. split; [exact St|]. intros rest.
        destruct (plook c pma) as [x|] eqn:Ea; [rewrite (Hst x eq_refl) in Hl; discriminate|].
        cbn [push_unknown_p]. apply Run. }
    destruct (copy f G (nhigh n) acc pm) as [[qh [acc1 pm1]]|] eqn:E1; [|discriminate].
    destruct (copy f G (nlow n) acc1 pm1) as [[ql [acc2 pm2]]|] eqn:E2; [|discriminate].
    inversion E; subst q acc' pm'. clear E.
    destruct (Hchild pm _ _ _ _ _ _ Chi (fun x H => H) E1) as (Lk1 & St1 & Run1).
    destruct (Hchild pm _ _ _ _ _ _ Clo (fun x H => proj1 St1 _ _ H) E2) as (Lk2 & St2 & Run2).
    pose proof (proj1 St2 _ _ Lk1) as Lk1'.
    assert (Hpf2 : pfind p pm2 = None).
    { rewrite (proj2 St2 p Clo), (proj2 St1 p Chi). exact Hpf. }
    assert (Hlast : forall rest, cstep G (p :: rest, (acc2, pm2)) =
              (rest, (acc2 ++ [mkNode (nvar n) ql qh], (p, size acc2) :: pm2))).
    { intros rest. cbn [cstep]. unfold plook at 1. destruct (N.ltb_spec p 2) as [|_]; [lia|]. rewrite Hpf2.
      fold n. rewrite Lk2, Lk1'. reflexivity. }
    split.
    { unfold plook. destruct (N.ltb_spec p 2) as [|_]; [lia|]. apply pfind_eq. }
    split.
    { split.
      - intros x qx Hx. pose proof (proj1 St2 x qx (proj1 St1 x qx Hx)) as H2.
        unfold plook in Hx, H2 |- *. destruct (x <? 2); [exact H2|].
        rewrite pfind_neq; [exact H2|]. intros ->. congruence.
      - intros x Hx. rewrite pfind_neq by lia. rewrite (proj2 St2 x) by lia. apply (proj2 St1 x). lia. }
    intros rest.
    assert (Hgen : plook (nlow n) pm = None \/ plook (nhigh n) pm = None ->
              exists k, (k + 2 <= 2 ^ (S f + 2))%nat /\
                citer k (p :: rest, (acc, pm)) = (rest, (acc2 ++ [mkNode (nvar n) ql qh], (p, size acc2) :: pm2))).
    { intros Hnone.
      destruct (Run1 (push_unknown_p (plook (nlow n) pm) (nlow n) (p :: rest))) as (k1 & B1 & R1).
      destruct (Run2 (p :: rest)) as (k2 & B2 & R2).
      exists (1 + (k1 + (k2 + 1)))%nat. split; [rewrite pow_step; lia|].
      assert (Hfirst : cstep G (p :: rest, (acc, pm)) =
                (push_unknown_p (plook (nhigh n) pm) (nhigh n) (push_unknown_p (plook (nlow n) pm) (nlow n) (p :: rest)), (acc, pm))).
      { cbn [cstep]. rewrite Hn. fold n.
        destruct (plook (nlow n) pm), (plook (nhigh n) pm); try reflexivity. destruct Hnone; discriminate. }
      cbn [plus niter]. rewrite Hfirst, niter_add, R1, niter_add, R2. cbn [niter]. apply Hlast. }
    destruct (plook (nlow n) pm) as [xlo|] eqn:La; [destruct (plook (nhigh n) pm) as [xhi|] eqn:Lb|]; [|apply Hgen; auto..].
    destruct (copy_cases _ _ _ _ _ _ E1) as [(Hl & Est)|Hl]; [|congruence]. inversion Est; subst acc1 pm1. clear Est.
    destruct (copy_cases _ _ _ _ _ _ E2) as [(Hl2 & Est)|Hl2]; [|congruence]. inversion Est; subst acc2 pm2. clear Est.
    exists 1%nat. split; [rewrite pow_step; pose proof (pow_ge4 f); lia|]. cbn [niter]. apply Hlast.
  Qed.

  (* the recursive copy does not run out of fuel on a hash-consed store *)
  Lemma copy_some : forall f p acc pm, p < size G -> (N.to_nat (nv - var_of G p) < f)%nat ->
    exists q st, copy f G p acc pm = Some (q, st).
  Proof.
    induction f as [|f IH]; intros p acc pm Hp Hf; [lia|].
    cbn [copy]. destruct (N.ltb_spec p 2) as [|Hp2]; [eauto|].
    destruct (pfind p pm); [eauto|].
    pose proof HG as (_ & _ & _ & Hnok). destruct (Hnok p Hp2 Hp) as (Vn & Clo & Chi & Vlo & Vhi & _).
    pose proof (sok_var_le nv G _ HG (N.lt_trans _ _ _ Clo Hp)) as Wlo.
    pose proof (sok_var_le nv G _ HG (N.lt_trans _ _ _ Chi Hp)) as Whi.
    unfold var_of in Hf.
    destruct (IH (nhigh (get G p)) acc pm ltac:(lia) ltac:(lia)) as (qh & [acc1 pm1] & ->).
    destruct (IH (nlow (get G p)) acc1 pm1 ltac:(lia) ltac:(lia)) as (ql & [acc2 pm2] & ->).
    eauto.
  Qed.

  Lemma fix_alignment_stack_eq_section p : p < size G -> fix_alignment_stack G p = fix_alignment G p.
  Proof.
    intros Hp. unfold fix_alignment_stack, fix_alignment. rewrite (sok_nvars nv G HG).
    destruct (N.eqb_spec p 0) as [|N0]; [reflexivity|]. destruct (N.eqb_spec p 1) as [|N1]; [reflexivity|].
    assert (Hn : plook p [] = None) by (unfold plook; destruct (N.ltb_spec p 2); [lia|reflexivity]).
    destruct (copy_some (S (S (N.to_nat nv))) p (mk_true nv) [] Hp ltac:(lia)) as (q & [acc' pm'] & E).
    rewrite E. destruct (copy_sim _ _ _ _ _ _ _ E Hp Hn) as (_ & _ & Run).
    destruct (Run []) as (k & Hk & R).
    rewrite (crun_reach _ k _ ([], (acc', pm')) R); [reflexivity|reflexivity|].
    replace (S (S (N.to_nat nv)) + 2)%nat with (S (S (S (S (N.to_nat nv))))) in Hk by lia. lia.
  Qed.
End CopySim.

(* ====================================================================================================== *)
(* (3) the outer machine                                                                                    *)

(* the outer loop: configurations are options (None = a nested inner run hit its iteration bound, absorbing) *)
Definition ostep_o (A B : bdd) (trigger : N -> bool) (outer inner : op2) (o : option (list task * N * nst))
  : option (list task * N * nst) := match o with None => None | Some c => ostep A B trigger outer inner c end.
Definition oempty_o (o : option (list task * N * nst)) : bool := match o with None => true | Some c => iempty c end.

Section OuterSim.
  Variables (A B : bdd) (trigger : N -> bool) (outer inner : op2).
  Hypothesis WA : wf A.
  Hypothesis WB : wf B.
  Hypothesis NV : nvars A = nvars B.
  Let nv := nvars A.
  Hypothesis O_total : forall a b, outer (Some a) (Some b) <> None.
  Hypothesis I_total : forall a b, inner (Some a) (Some b) <> None.

  Local Notation lev := (level A B).
  Local Notation tlo := (t_lo A B None None).
  Local Notation thi := (t_hi A B None None).
  Local Notation oiter := (niter (ostep_o A B trigger outer inner)).
  Local Notation olookup := (NestedStack.olookup outer).
  Local Notation oproc := (Nested.oproc A B trigger outer inner).
  Local Notation oresolve := (NestedStack.oresolve trigger inner).
  Local Notation resolve := (Nested.resolve trigger inner).

  (* what an entry of the outer cache promises, structurally *)
  Definition ogd (G : list node) (t : task) (p : N) : Prop := p < size G /\ lev t <= var_of G p.
  Definition ostore_ok (s : nst) : Prop :=
    store_ok nv s /\ forall t p, tfind t (nouter s) = Some p -> ogd (nn s) t p.

  Lemma ogd_next s s' t p : next s s' -> ogd (nn s) t p -> ogd (nn s') t p.
  Proof.
    intros X (a & b). pose proof (next_size _ _ X). split; [lia|]. rewrite (next_var s s' p X a). exact b.
  Qed.
  Lemma ostore_next s s' : ostore_ok s -> store_ok nv s' -> next s s' -> nouter s' = nouter s -> ostore_ok s'.
  Proof.
    intros (_ & Ho) HS' X No. split; [exact HS'|]. intros t p. rewrite No. intros H. apply (ogd_next s s' t p X). auto.
  Qed.
  Lemma ostore_omemo s t p : ostore_ok s -> ogd (nn s) t p -> ostore_ok (omemo s t p).
  Proof.
    intros ((H1 & H2 & H3) & H4) Hg. unfold ostore_ok, store_ok, omemo; cbn [nn nex ninner nouter].
    split; [auto|]. intros t' p'. cbn [tfind]. destruct (task_eqb_spec t' t) as [->|NE].
    - intros E; inversion E; subst; exact Hg.
    - apply H4.
  Qed.

  (* ---------------------------------------------------------------------------------------------------- *)
  (* the iteration bound *)
  Lemma oempty_fix o : oempty_o o = true -> ostep_o A B trigger outer inner o = o.
  Proof. destruct o as [[[[|x stk] out] s]|]; cbn; [reflexivity|discriminate|reflexivity]. Qed.

  Lemma orun_reach d k c c' : oiter k (Some c) = Some c' -> iempty c' = true -> (k <= 2 ^ d)%nat ->
    orun A B trigger outer inner d c = Some c'.
  Proof.
    intros E He Hk.
    set (run := fun d o => match o with None => None | Some c => orun A B trigger outer inner d c end).
    change (run d (Some c) = Some c').
    apply (run_reach _ (ostep_o A B trigger outer inner) oempty_o oempty_fix run) with (k := k); try assumption.
    - intros [c0|]; reflexivity.
    - intros d' [c0|]; [|reflexivity]. cbn [run orun].
      destruct (orun A B trigger outer inner d' c0) as [c1|]; reflexivity.
  Qed.

  (* ---------------------------------------------------------------------------------------------------- *)
  (* the loop body in the vocabulary of Model/Apply.v *)
  Lemma ostep_eq t rest out s : ostep A B trigger outer inner (t :: rest, out, s) =
    match tfind t (nouter s) with
    | Some saved => Some (rest, saved, s)
    | None =>
      match olookup (tlo t) s, olookup (thi t) s with
      | Some nl, Some nh =>
        match oresolve t (lev t) nl nh s with None => None | Some (o, s') => Some (rest, o, s') end
      | nlo, nhi => Some (push_unknown nhi (thi t) (push_unknown nlo (tlo t) (t :: rest)), out, s)
      end
    end.
  Proof.
    unfold ostep, t_lo, t_hi, level.
    destruct (tfind t (nouter s)); [reflexivity|].
    destruct (kids A None (fst t) _) as [ll lh], (kids B None (snd t) _) as [rl rh]. cbn [fst snd].
    destruct (olookup (ll, rl) s), (olookup (lh, rh) s); reflexivity.
  Qed.

  (* lines 331-365 = the resolve step of the recursion followed by the cache insertion; the nested inner run is
     the recursive inner engine *)
  Lemma oresolve_resolve t dv nl nh s : store_ok nv s -> nl < size (nn s) -> nh < size (nn s) ->
    oresolve t dv nl nh s =
    match resolve dv nl nh s with None => None | Some (p, s3) => Some (p, omemo s3 t p) end.
  Proof.
    intros HS Hl Hh. unfold NestedStack.oresolve, Nested.resolve.
    destruct (N.eqb_spec nl nh) as [E|NE]; [reflexivity|].
    destruct (trigger dv).
    - rewrite (inner_apply_stack_eq_section nv inner I_total s nl nh HS Hl Hh).
      destruct (inner_apply inner nl nh s) as [[r s']|]; reflexivity.
    - unfold nmk. destruct (N.eqb_spec nl nh) as [E|_]; [contradiction|]. destruct (nfind _ _); reflexivity.
  Qed.

  (* what the resolve step delivers, structurally *)
  Lemma resolve_store dv plo phi s p s3 : resolve dv plo phi s = Some (p, s3) -> ostore_ok s -> dv < nv ->
    plo < size (nn s) -> phi < size (nn s) -> dv < var_of (nn s) plo -> dv < var_of (nn s) phi ->
    ostore_ok s3 /\ next s s3 /\ p < size (nn s3) /\ dv <= var_of (nn s3) p /\ nouter s3 = nouter s.
  Proof.
    intros E HO Hd Pl Ph Vl Vh. pose proof HO as (HS & _). unfold Nested.resolve in E.
    destruct (N.eqb_spec plo phi) as [Epp|NEpp].
    - inversion E; subst p s3. split; [exact HO|]. split; [apply next_refl|]. split; [exact Pl|]. split; [lia|reflexivity].
    - destruct (trigger dv).
      + destruct (inner_apply_post nv inner I_total s plo phi p s3 E HS Pl Ph) as (HS3 & X & Pp & Vp & No).
        split; [exact (ostore_next s s3 HO HS3 X No)|]. split; [exact X|]. split; [exact Pp|]. split; [|exact No].
        unfold level in Vp. cbn [fst snd] in Vp. lia.
      + pose proof (nmk_store nv s dv plo phi HS Hd Pl Ph Vl Vh) as Hmk. inversion E as [E']. rewrite E' in Hmk.
        cbn [fst snd] in Hmk. destruct Hmk as (HS3 & X & Pp & Vp & _ & No).
        split; [exact (ostore_next s s3 HO HS3 X No)|]. auto.
  Qed.

  (* ---------------------------------------------------------------------------------------------------- *)
  (* lookup versus oensure *)
  Lemma oensure_cases proc t s p s1 : oensure outer proc t s = Some (p, s1) ->
    (olookup t s = Some p /\ s1 = s) \/ (olookup t s = None /\ proc t s = Some (p, s1)).
  Proof.
    unfold oensure, NestedStack.olookup. destruct (outer _ _) as [c|].
    - intros E; inversion E; subst; auto.
    - destruct (tfind t (nouter s)) as [q|]; [intros E; inversion E; subst; auto|auto].
  Qed.
  Lemma oensure_lookup proc t s p : olookup t s = Some p -> oensure outer proc t s = Some (p, s).
  Proof.
    unfold oensure, NestedStack.olookup. destruct (outer _ _) as [c|].
    - intros E; inversion E; subst; auto.
    - intros ->. reflexivity.
  Qed.
  Lemma oensure_none proc t s : olookup t s = None -> oensure outer proc t s = proc t s.
  Proof. unfold oensure, NestedStack.olookup. destruct (outer _ _); [discriminate|]. intros ->. reflexivity. Qed.
  Lemma olookup_none t s : olookup t s = None ->
    outer (as_bool (fst t)) (as_bool (snd t)) = None /\ tfind t (nouter s) = None.
  Proof. unfold NestedStack.olookup. destruct (outer _ _); [discriminate|auto]. Qed.
  Lemma olookup_tfind t s p : outer (as_bool (fst t)) (as_bool (snd t)) = None ->
    tfind t (nouter s) = Some p -> olookup t s = Some p.
  Proof. unfold NestedStack.olookup. intros -> H. exact H. Qed.

  (* the store only grows; outer cache entries are never removed or changed; entries below level L are not touched *)
  Definition ostable (L : N) (s s' : nst) : Prop :=
    next s s' /\
    (forall t q, tfind t (nouter s) = Some q -> tfind t (nouter s') = Some q) /\
    (forall t, lev t < L -> tfind t (nouter s') = tfind t (nouter s)).
  Lemma ostable_refl L s : ostable L s s.
  Proof. split; [apply next_refl|]. split; auto. Qed.
  Lemma ostable_trans L a b c : ostable L a b -> ostable L b c -> ostable L a c.
  Proof.
    intros (X1 & H1 & H2) (X2 & H3 & H4). split; [eapply next_trans; eassumption|]. split; [auto|].
    intros t Ht. rewrite H4, H2; auto.
  Qed.
  Lemma ostable_weaken L L' a b : L' <= L -> ostable L a b -> ostable L' a b.
  Proof. intros Hl (X & H1 & H2). split; [exact X|]. split; [auto|]. intros t Ht. apply H2. lia. Qed.
  Lemma olookup_stable L s s' t q : ostable L s s' -> olookup t s = Some q -> olookup t s' = Some q.
  Proof. intros (_ & H & _). unfold NestedStack.olookup. destruct (outer _ _); [auto|apply H]. Qed.

  Lemma oterm_lookup t s : fst t < 2 -> snd t < 2 -> exists c, olookup t s = Some (of_bool c) /\
    outer (as_bool (fst t)) (as_bool (snd t)) = Some c.
  Proof.
    intros A1 A2. destruct (asb_term _ A1) as (a & Ea), (asb_term _ A2) as (b & Eb).
    unfold NestedStack.olookup. rewrite Ea, Eb. destruct (outer (Some a) (Some b)) as [c|] eqn:Ec; [eauto|].
    exfalso. exact (O_total a b Ec).
  Qed.

  Lemma ochildren t : tvalid A B t -> lev t < nv ->
    tvalid A B (tlo t) /\ tvalid A B (thi t) /\ lev t < lev (tlo t) /\ lev t < lev (thi t).
  Proof.
    intros Vt Hl.
    destruct (spec_expand A B None None (fun _ _ => false) WA WB NV t (fun _ => false) Vt Hl) as (a & b & c & d & _).
    auto.
  Qed.

  (* Simulation: one successful call of `oproc` on a task that is not yet memoised is matched by a run of the
     outer machine (each trigger step containing a complete run of the inner machine) that starts with the task on
     top and ends when it has been popped. *)
  Lemma oproc_sim : forall f t s p s', oproc f t s = Some (p, s') -> ostore_ok s -> tvalid A B t ->
    tfind t (nouter s) = None ->
    ostore_ok s' /\ ogd (nn s') t p /\ ostable (lev t) s s' /\ tfind t (nouter s') = Some p /\
    forall rest out, exists k, (k + 2 <= 2 ^ (f + 2))%nat /\
      oiter k (Some (t :: rest, out, s)) = Some (rest, p, s').
  Proof.
    induction f as [|f IH]; intros t s p s' E HO Vt Ht; [discriminate|].
    cbn [Nested.oproc] in E.
    pose proof HO as (HS & Hou). pose proof HS as (HG & _).
    pose proof (level_le A B WA NV t Vt) as Hle. fold nv in Hle.
    destruct (N.eq_dec (lev t) nv) as [En|NEn].
    - (* both roots are terminals: the sub-tasks are the task itself *)
      destruct (level_nv_terminal A B WA WB NV t Vt En) as (A1 & A2).
      destruct (oterm_kids A B WA WB NV t Vt A1 A2) as (Klo & Khi).
      destruct (oterm_lookup t s A1 A2) as (c & Lc & Oc).
      rewrite Klo, Khi in E. unfold oensure in E. rewrite Oc in E. unfold Nested.resolve in E. rewrite N.eqb_refl in E.
      inversion E; subst p s'. clear E.
      assert (Hb : of_bool c < 2) by (destruct c; cbn; lia).
      assert (Hg : ogd (nn s) t (of_bool c)).
      { destruct HG as (S2 & _). split; [lia|]. rewrite (sok_term_var nv (nn s) _ (proj1 HS) Hb). exact Hle. }
      split; [apply ostore_omemo; assumption|]. split; [exact Hg|]. split.
      { split; [exists []; cbn [nn omemo]; now rewrite app_nil_r|]. split.
        - intros t' q Hq. cbn [omemo nouter tfind]. destruct (task_eqb_spec t' t) as [->|NE]; [congruence|exact Hq].
        - intros t' Hl. cbn [omemo nouter tfind]. destruct (task_eqb_spec t' t) as [->|NE]; [lia|reflexivity]. }
      split; [cbn [omemo nouter tfind]; now rewrite task_eqb_rfl|].
      intros rest out. exists 1%nat. split; [rewrite pow_step; pose proof (pow_ge4 f); lia|].
      cbn [niter ostep_o]. rewrite ostep_eq, Ht, Klo, Khi, Lc. unfold NestedStack.oresolve. rewrite N.eqb_refl. reflexivity.
    - set (dv := lev t) in *.
      assert (Hlt : dv < nv) by lia.
      destruct (ochildren t Vt Hlt) as (Vlo & Vhi & Llo & Lhi). fold dv in Llo, Lhi.
      assert (Hchild : forall sa tb s1 pb s2,
                ostore_ok s1 -> tvalid A B tb -> dv < lev tb ->
                (forall q, olookup tb sa = Some q -> olookup tb s1 = Some q) ->
                oensure outer (oproc f) tb s1 = Some (pb, s2) ->
                ostore_ok s2 /\ ostable (dv + 1) s1 s2 /\ olookup tb s2 = Some pb /\
                pb < size (nn s2) /\ dv < var_of (nn s2) pb /\
                forall rest out, exists k out', (k + 2 <= 2 ^ (f + 2))%nat /\
                  oiter k (Some (push_unknown (olookup tb sa) tb rest, out, s1)) = Some (rest, out', s2)).
      { intros sa tb s1 pb s2 HO1 Vb Lb Hst Ee. pose proof (pow_ge4 f) as P4.
        destruct (oensure_cases _ _ _ _ _ Ee) as [(Hl & ->)|(Hl & Hp)].
        - assert (Hpb : pb < size (nn s1) /\ dv < var_of (nn s1) pb).
          { pose proof HO1 as ((HG1 & _) & Hou1). unfold NestedStack.olookup in Hl.
            destruct (outer (as_bool (fst tb)) (as_bool (snd tb))) as [c|].
            - inversion Hl; subst pb. assert (Hb : of_bool c < 2) by (destruct c; cbn; lia).
              rewrite (sok_term_var nv _ _ HG1 Hb). destruct HG1 as (S2 & _). split; lia.
            - destruct (Hou1 _ _ Hl) as (Pp & Vp). split; [exact Pp|lia]. }
          destruct Hpb as (Pp & Vp).
          split; [exact HO1|]. split; [apply ostable_refl|]. split; [exact Hl|].
          split; [exact Pp|]. split; [exact Vp|]. intros rest out.
          destruct (olookup tb sa) as [q|] eqn:Ea; cbn [push_unknown].
          + exists 0%nat, out. split; [lia|reflexivity].
          + exists 1%nat, pb. split; [lia|]. cbn [niter ostep_o]. rewrite ostep_eq.
            destruct (olookup_none _ _ Ea) as (Eo & _).
            unfold NestedStack.olookup in Hl. rewrite Eo in Hl. rewrite Hl. reflexivity.
        - destruct (olookup_none _ _ Hl) as (Eo & Ef).
          destruct (IH tb s1 pb s2 Hp HO1 Vb Ef) as (HO2 & Gd & St & Fd & Run).
          split; [exact HO2|]. split; [apply (ostable_weaken (lev tb)); [lia|exact St]|].
          split; [apply olookup_tfind; assumption|].
          destruct Gd as (Pp & Vp). split; [exact Pp|]. split; [lia|]. intros rest out.
          destruct (olookup tb sa) as [q|] eqn:Ea; [rewrite (Hst q eq_refl) in Hl; discriminate|].
          cbn [push_unknown]. destruct (Run rest out) as (k & Hk & R). exists k, pb. auto. }
      destruct (oensure outer (oproc f) (thi t) s) as [[phi s1]|] eqn:E1; [|discriminate].
      destruct (oensure outer (oproc f) (tlo t) s1) as [[plo s2]|] eqn:E2; [|discriminate].
      destruct (resolve dv plo phi s2) as [[p0 s3]|] eqn:E3; [|discriminate]. inversion E; subst p s'. clear E.
      destruct (Hchild s (thi t) s phi s1 HO Vhi Lhi (fun q H => H) E1) as (HO1 & St1 & Lk1 & P1 & V1 & Run1).
      destruct (Hchild s (tlo t) s1 plo s2 HO1 Vlo Llo (fun q H => olookup_stable _ _ _ _ _ St1 H) E2)
        as (HO2 & St2 & Lk2 & P2 & V2 & Run2).
      pose proof (ostable_trans _ _ _ _ St1 St2) as St.
      pose proof (olookup_stable _ _ _ _ _ St2 Lk1) as Lk1'.
      assert (P1' : phi < size (nn s2)) by (pose proof (next_size _ _ (proj1 St2)); lia).
      assert (V1' : dv < var_of (nn s2) phi) by (rewrite (next_var s1 s2 phi (proj1 St2) P1); exact V1).
      destruct (resolve_store dv plo phi s2 p0 s3 E3 HO2 Hlt P2 P1' V2 V1') as (HO3 & X3 & Pp & Vp & No3).
      assert (X03 : next s s3) by (eapply next_trans; [exact (proj1 St)|exact X3]).
      assert (Hg : ogd (nn s3) t p0) by (split; [exact Pp|exact Vp]).
      assert (Hnone2 : tfind t (nouter s2) = None).
      { destruct St as (_ & _ & St). rewrite (St t) by (fold dv; lia). exact Ht. }
      split; [apply ostore_omemo; assumption|]. split; [exact Hg|]. split.
      { split; [exact X03|]. split.
        - intros t' q Hq. cbn [omemo nouter tfind]. rewrite No3.
          destruct (task_eqb_spec t' t) as [->|NE]; [congruence|]. destruct St as (_ & St & _). auto.
        - intros t' Hl. cbn [omemo nouter tfind]. rewrite No3.
          destruct (task_eqb_spec t' t) as [->|NE]; [lia|].
          destruct St as (_ & _ & St). apply St. lia. }
      split; [cbn [omemo nouter tfind]; now rewrite task_eqb_rfl|].
      assert (Hlast : forall rest o, ostep A B trigger outer inner (t :: rest, o, s2) = Some (rest, p0, omemo s3 t p0)).
      { intros rest o. rewrite ostep_eq, Hnone2, Lk2, Lk1'. fold dv.
        rewrite (oresolve_resolve t dv plo phi s2 (proj1 HO2) P2 P1'), E3. reflexivity. }
      intros rest out.
      assert (Hgen : olookup (tlo t) s = None \/ olookup (thi t) s = None ->
                exists k, (k + 2 <= 2 ^ (S f + 2))%nat /\
                  oiter k (Some (t :: rest, out, s)) = Some (rest, p0, omemo s3 t p0)).
      { intros Hnone.
        destruct (Run1 (push_unknown (olookup (tlo t) s) (tlo t) (t :: rest)) out) as (k1 & o1 & B1 & R1).
        destruct (Run2 (t :: rest) o1) as (k2 & o2 & B2 & R2).
        exists (1 + (k1 + (k2 + 1)))%nat. split; [rewrite pow_step; lia|].
        assert (Hfirst : ostep A B trigger outer inner (t :: rest, out, s) =
                  Some (push_unknown (olookup (thi t) s) (thi t) (push_unknown (olookup (tlo t) s) (tlo t) (t :: rest)), out, s)).
        { rewrite ostep_eq, Ht.
          destruct (olookup (tlo t) s), (olookup (thi t) s); try reflexivity. destruct Hnone; discriminate. }
        cbn [plus niter ostep_o]. rewrite Hfirst, niter_add, R1, niter_add, R2. cbn [niter ostep_o]. apply Hlast. }
      destruct (olookup (tlo t) s) as [qlo|] eqn:La; [destruct (olookup (thi t) s) as [qhi|] eqn:Lb|]; [|apply Hgen; auto..].
      rewrite (oensure_lookup _ _ _ _ Lb) in E1. inversion E1; subst qhi s1. clear E1.
      rewrite (oensure_lookup _ _ _ _ La) in E2. inversion E2; subst qlo s2. clear E2.
      exists 1%nat. split; [rewrite pow_step; pose proof (pow_ge4 f); lia|]. cbn [niter ostep_o]. apply Hlast.
  Qed.

  (* the recursive outer engine does not run out of fuel *)
  Lemma oproc_total : forall f t s, ostore_ok s -> tvalid A B t -> tfind t (nouter s) = None ->
    (N.to_nat (nv - lev t) < f)%nat -> exists p s', oproc f t s = Some (p, s').
  Proof.
    induction f as [|f IH]; intros t s HO Vt Ht Hf; [lia|].
    pose proof (level_le A B WA NV t Vt) as Hle. fold nv in Hle.
    cbn [Nested.oproc].
    destruct (N.eq_dec (lev t) nv) as [En|NEn].
    - destruct (level_nv_terminal A B WA WB NV t Vt En) as (A1 & A2).
      destruct (oterm_kids A B WA WB NV t Vt A1 A2) as (Klo & Khi).
      destruct (oterm_lookup t s A1 A2) as (c & _ & Oc).
      rewrite Klo, Khi. unfold oensure. rewrite Oc. unfold Nested.resolve. rewrite N.eqb_refl. eauto.
    - set (dv := lev t) in *.
      assert (Hlt : dv < nv) by lia.
      destruct (ochildren t Vt Hlt) as (Vlo & Vhi & Llo & Lhi). fold dv in Llo, Lhi.
      assert (Hens : forall tb s1, ostore_ok s1 -> tvalid A B tb -> dv < lev tb ->
                exists pb s2, oensure outer (oproc f) tb s1 = Some (pb, s2) /\ ostore_ok s2 /\ next s1 s2 /\
                  pb < size (nn s2) /\ dv < var_of (nn s2) pb).
      { intros tb s1 HO1 Vb Lb.
        destruct (olookup tb s1) as [q|] eqn:El.
        - exists q, s1. split; [now apply oensure_lookup|]. split; [exact HO1|]. split; [apply next_refl|].
          pose proof HO1 as ((HG1 & _) & Hou1). unfold NestedStack.olookup in El.
          destruct (outer (as_bool (fst tb)) (as_bool (snd tb))) as [c|].
          + inversion El; subst q. assert (Hb : of_bool c < 2) by (destruct c; cbn; lia).
            rewrite (sok_term_var nv _ _ HG1 Hb). destruct HG1 as (S2 & _). split; lia.
          + destruct (Hou1 _ _ El) as (Pp & Vp). split; [exact Pp|lia].
        - rewrite (oensure_none _ _ _ El). destruct (olookup_none _ _ El) as (_ & Ef).
          destruct (IH tb s1 HO1 Vb Ef ltac:(lia)) as (pb & s2 & Ep).
          destruct (oproc_sim _ _ _ _ _ Ep HO1 Vb Ef) as (HO2 & (Pp & Vp) & (X2 & _) & _).
          exists pb, s2. split; [exact Ep|]. split; [exact HO2|]. split; [exact X2|]. split; [exact Pp|lia]. }
      destruct (Hens _ s HO Vhi Lhi) as (phi & s1 & -> & HO1 & X1 & P1 & V1).
      destruct (Hens _ s1 HO1 Vlo Llo) as (plo & s2 & -> & HO2 & X2 & P2 & V2).
      assert (P1' : phi < size (nn s2)) by (pose proof (next_size _ _ X2); lia).
      unfold Nested.resolve. destruct (plo =? phi); [eauto|]. destruct (trigger dv); [|destruct (nmk s2 dv plo phi); eauto].
      pose proof HO2 as (HS2 & _). pose proof HS2 as (HG2 & _).
      unfold inner_apply. destruct (tfind (plo, phi) (ninner s2)) as [q|] eqn:Ef; [eauto|].
      rewrite (sok_nvars nv _ HG2).
      destruct (iproc_total nv inner I_total (S (S (N.to_nat nv))) (plo, phi) s2 HS2 (conj P2 P1') Ef ltac:(lia))
        as (p & s3 & ->). eauto.
  Qed.

  Lemma ostore_n0 : ostore_ok (n0 A).
  Proof.
    unfold ostore_ok, store_ok, n0; cbn [nn nex ninner nouter]. split; [split; [|split]|].
    - exact (sok_mk_true nv).
    - intros n p. cbn [nfind]. destruct (node_eqb_spec n (zero A)) as [->|_].
      + intros E; inversion E; subst. split; [cbn; lia|reflexivity].
      + destruct (node_eqb_spec n (one A)) as [->|_]; [|discriminate].
        intros E; inversion E; subst. split; [cbn; lia|reflexivity].
    - intros t p. cbn. discriminate.
    - intros t p. cbn. discriminate.
  Qed.

  (* the outer machine computes what the recursive outer engine computes; no iteration bound is reached *)
  Lemma nested_run_stack_eq_section : nested_run_stack A B trigger outer inner = nested_run A B trigger outer inner /\
    exists p s, nested_run A B trigger outer inner = Some (p, s) /\ ostore_ok s /\ p < size (nn s).
  Proof.
    pose proof (root_valid A B WA WB NV) as Vr.
    unfold nested_run_stack, nested_run. fold nv.
    destruct (oproc_total (S (S (N.to_nat nv))) (root A B) (n0 A) ostore_n0 Vr eq_refl ltac:(lia)) as (p & s' & E).
    rewrite E.
    destruct (oproc_sim _ _ _ _ _ E ostore_n0 Vr eq_refl) as (HO & (Pp & _) & _ & _ & Run).
    destruct (Run [] 0) as (k & Hk & R).
    rewrite (orun_reach (S (S (S (S (N.to_nat nv))))) k _ ([], p, s') R); [split; [reflexivity|eauto]|reflexivity|].
    replace (S (S (N.to_nat nv)) + 2)%nat with (S (S (S (S (N.to_nat nv))))) in Hk by lia. lia.
  Qed.

  Lemma nested_apply_machine_eq_section :
    nested_apply_machine A B trigger outer inner = nested_apply A B trigger outer inner.
  Proof.
    destruct nested_run_stack_eq_section as (E & p & s & Er & ((HG & _) & _) & Pp).
    unfold nested_apply_machine, nested_apply. rewrite E, Er.
    exact (fix_alignment_stack_eq_section nv (nn s) HG p Pp).
  Qed.
End OuterSim.

(* ====================================================================================================== *)
(* Top-level statements                                                                                     *)

(* k iterations of the three loop bodies, closed forms of the generic iterator *)
Definition inner_stack_iter (inner : op2) := niter (istep inner).
Definition copy_stack_iter (G : bdd) := niter (cstep G).
Definition outer_stack_iter (A B : bdd) (trigger : N -> bool) (outer inner : op2) := niter (ostep_o A B trigger outer inner).

(* ---- (1) the inner loop ---- *)

(* The simulation lemma for ONE call of the recursive inner engine (any fuel, any hash-consed store, any stack
   below, any value of `output`): if `iproc` succeeds on a task of two pointers of the store that is not memoised
   yet, the inner machine started with the task on top pops it after k < 2^(fuel+2) iterations, leaves the rest of
   the stack untouched, sets `output` to the returned pointer and ends in exactly the state `iproc` returns (store,
   node cache and both task caches equal); the store was only extended, the task is memoised with the returned
   pointer, no older entry of the inner cache was changed and the outer cache was not touched. *)
Theorem iproc_simulated : forall nv inner, total2 inner ->
  forall fuel t s p s', iproc inner fuel t s = Some (p, s') -> store_ok nv s -> tin (nn s) t ->
  tfind t (ninner s) = None ->
  store_ok nv s' /\ (exists ext, nn s' = nn s ++ ext) /\ tfind t (ninner s') = Some p /\
  (forall t' q, tfind t' (ninner s) = Some q -> tfind t' (ninner s') = Some q) /\ nouter s' = nouter s /\
  forall rest out, exists k, (k + 2 <= 2 ^ (fuel + 2))%nat /\
    inner_stack_iter inner k (t :: rest, out, s) = (rest, p, s').
Proof.
  intros nv inner T fuel t s p s' E HS Tt Ht.
  destruct (iproc_sim nv inner T fuel t s p s' E HS Tt Ht) as (HS' & _ & (X & St & _) & Fd & No & Run).
  auto 10.
Qed.

(* The refinement theorem for the inner loop: on a state whose store is hash-consed (store_ok: the invariant of
   every state the outer loop can reach, see nested_run_reaches_store_ok) the inner machine returns the same pointer
   and the same state as the recursive inner engine, for every pair of pointers of the store; the table only has to
   answer on total inputs (this is what makes the loop terminate, see inner_stack_total_table_needed). *)
Theorem inner_apply_stack_eq : forall nv inner s l r, total2 inner -> store_ok nv s ->
  l < size (nn s) -> r < size (nn s) ->
  inner_apply_stack inner l r s = inner_apply inner l r s.
Proof. intros nv inner s l r T HS Hl Hr. exact (inner_apply_stack_eq_section nv inner T s l r HS Hl Hr). Qed.

(* ---- (2) the copy loop of fix_bdd_alignment ---- *)
Theorem copy_simulated : forall nv G, sok nv G ->
  forall fuel p acc pm q acc' pm', copy fuel G p acc pm = Some (q, (acc', pm')) -> p < size G -> plook p pm = None ->
  plook p pm' = Some q /\ (forall x y, plook x pm = Some y -> plook x pm' = Some y) /\
  forall rest, exists k, (k + 2 <= 2 ^ (fuel + 2))%nat /\
    copy_stack_iter G k (p :: rest, (acc, pm)) = (rest, (acc', pm')).
Proof.
  intros nv G HG fuel p acc pm q acc' pm' E Hp Hn.
  destruct (copy_sim nv G HG fuel p acc pm q acc' pm' E Hp Hn) as (Fd & (St & _) & Run). auto.
Qed.

Theorem fix_alignment_stack_eq : forall nv G p, sok nv G -> p < size G ->
  fix_alignment_stack G p = fix_alignment G p.
Proof. intros nv G p HG Hp. exact (fix_alignment_stack_eq_section nv G HG p Hp). Qed.

(* ---- (3) the outer loop ---- *)
Theorem oproc_simulated : forall A B trigger outer inner,
  wf A -> wf B -> nvars A = nvars B -> total2 outer -> total2 inner ->
  forall fuel t s p s', oproc A B trigger outer inner fuel t s = Some (p, s') -> ostore_ok A B s -> tvalid A B t ->
  tfind t (nouter s) = None ->
  ostore_ok A B s' /\ (exists ext, nn s' = nn s ++ ext) /\ tfind t (nouter s') = Some p /\
  (forall t' q, tfind t' (nouter s) = Some q -> tfind t' (nouter s') = Some q) /\
  forall rest out, exists k, (k + 2 <= 2 ^ (fuel + 2))%nat /\
    outer_stack_iter A B trigger outer inner k (Some (t :: rest, out, s)) = Some (rest, p, s').
Proof.
  intros A B trigger outer inner WA WB NV TO TI fuel t s p s' E HO Vt Ht.
  destruct (oproc_sim A B trigger outer inner WA WB NV TO TI fuel t s p s' E HO Vt Ht) as (HO' & _ & (X & St & _) & Fd & Run).
  auto 10.
Qed.

(* the whole outer loop: same final `output`, same final state (store, node cache, both task caches) *)
Theorem nested_run_stack_eq : forall A B trigger outer inner,
  wf A -> wf B -> nvars A = nvars B -> total2 outer -> total2 inner ->
  nested_run_stack A B trigger outer inner = nested_run A B trigger outer inner.
Proof. intros A B trigger outer inner WA WB NV TO TI. exact (proj1 (nested_run_stack_eq_section A B trigger outer inner WA WB NV TO TI)). Qed.

(* every state in which the outer loop ends (hence, by oproc_simulated, every state in which it calls the inner loop)
   satisfies the structural invariant under which the inner and the copy machine are proved equal to the recursions *)
Theorem nested_run_reaches_store_ok : forall A B trigger outer inner,
  wf A -> wf B -> nvars A = nvars B -> total2 outer -> total2 inner ->
  exists p s, nested_run A B trigger outer inner = Some (p, s) /\ store_ok (nvars A) s /\ p < size (nn s).
Proof.
  intros A B trigger outer inner WA WB NV TO TI.
  destruct (nested_run_stack_eq_section A B trigger outer inner WA WB NV TO TI) as (_ & p & s & E & (HS & _) & Pp). eauto.
Qed.

(* outer loop + nested inner runs + final copy *)
Theorem nested_apply_machine_eq : forall A B trigger outer inner,
  wf A -> wf B -> nvars A = nvars B -> total2 outer -> total2 inner ->
  nested_apply_machine A B trigger outer inner = nested_apply A B trigger outer inner.
Proof. intros A B trigger outer inner WA WB NV TO TI. exact (nested_apply_machine_eq_section A B trigger outer inner WA WB NV TO TI). Qed.

(* at API level the variable-count check is part of the function *)
Theorem nested_apply_fn_stack_eq : forall A B trigger outer inner, wf A -> wf B -> total2 outer -> total2 inner ->
  nested_apply_fn_stack A B trigger outer inner = nested_apply_fn A B trigger outer inner.
Proof.
  intros A B trigger outer inner WA WB TO TI. unfold nested_apply_fn_stack, nested_apply_fn.
  destruct (N.eqb_spec (nvars A) (nvars B)) as [NV|NE]; cbn [negb]; [|reflexivity].
  now rewrite nested_apply_machine_eq.
Qed.

(* The refinement theorem.  Hypotheses: valid operands and two tables that answer on total inputs — exactly what
   guarantees that the three loops terminate; neither table has to be consistent, the inner table need not be a
   table of `or` / `and`, the trigger is arbitrary. *)
Theorem nested_apply_stack_eq : forall A B trig outer inner, wf A -> wf B -> total2 outer -> total2 inner ->
  nested_apply_stack A B trig outer inner = nested_apply_faithful A B trig outer inner.
Proof. intros. now apply nested_apply_fn_stack_eq. Qed.

Corollary binary_op_nested_stack_eq : forall A B trig outer inner, wf A -> wf B -> total2 outer -> total2 inner ->
  binary_op_nested_stack A B trig outer inner = nested_apply_faithful A B trig outer inner.
Proof. intros. now apply nested_apply_fn_stack_eq. Qed.

Lemma or_total2 : total2 op_or. Proof. exact (proj1 or_table_ok). Qed.
Lemma and_total2 : total2 op_and. Proof. exact (proj1 and_table_ok). Qed.

Corollary binary_op_with_exists_stack_eq : forall a b op vars, wf a -> wf b -> total2 op ->
  binary_op_with_exists_stack a b op vars = binary_op_with_exists_faithful a b op vars.
Proof. intros. apply nested_apply_fn_stack_eq; auto using or_total2. Qed.

Corollary binary_op_with_for_all_stack_eq : forall a b op vars, wf a -> wf b -> total2 op ->
  binary_op_with_for_all_stack a b op vars = binary_op_with_for_all_faithful a b op vars.
Proof. intros. apply nested_apply_fn_stack_eq; auto using and_total2. Qed.

Corollary bdd_exists_stack_eq : forall b vars, wf b -> bdd_exists_stack b vars = bdd_exists_faithful b vars.
Proof. intros. apply binary_op_with_exists_stack_eq; auto using and_total2. Qed.

Corollary bdd_for_all_stack_eq : forall b vars, wf b -> bdd_for_all_stack b vars = bdd_for_all_faithful b vars.
Proof. intros. apply binary_op_with_for_all_stack_eq; auto using and_total2. Qed.

(* ---- transferred statements ---- *)

(* the correctness theorem of the faithful engine (NestedSem.nested_faithful_correct), for the machine *)
Theorem nested_stack_correct : forall A B trig outer inner (u : bool),
  wf A -> wf B -> nvars A = nvars B -> total2 outer -> consistent2 outer ->
  builtin_ok inner (if u then andb else orb) ->
  exists r, nested_apply_stack A B trig outer inner = Ok r /\ Canonical r /\ wf r /\ nvars r = nvars A /\
    forall v, eval r v = true <->
      qspec u (triggered_from 0 trig) (fun w => bop_of outer (eval A w) (eval B w)) v.
Proof.
  intros A B trig outer inner u WA WB NV T C BI.
  rewrite nested_apply_stack_eq by (try assumption; exact (proj1 BI)).
  now apply nested_faithful_correct.
Qed.

(* the machine against the compositional model of Model/Ops.v (operate, then project one variable at a time) *)
Theorem nested_stack_eq_model : forall A B trig outer inner (u : bool),
  wf A -> wf B -> nvars A = nvars B -> total2 outer -> consistent2 outer ->
  builtin_ok inner (if u then andb else orb) ->
  nested_apply_stack A B trig outer inner = binary_op_nested A B trig outer u.
Proof.
  intros A B trig outer inner u WA WB NV T C BI.
  rewrite nested_apply_stack_eq by (try assumption; exact (proj1 BI)).
  now apply nested_faithful_eq_model.
Qed.

Theorem binary_op_with_exists_stack_eq_model : forall A B op vars,
  wf A -> wf B -> nvars A = nvars B -> total2 op -> consistent2 op ->
  binary_op_with_exists_stack A B op vars = binary_op_with_exists A B op vars.
Proof. intros. rewrite binary_op_with_exists_stack_eq by assumption. now apply binary_op_with_exists_faithful_eq. Qed.

Theorem binary_op_with_for_all_stack_eq_model : forall A B op vars,
  wf A -> wf B -> nvars A = nvars B -> total2 op -> consistent2 op ->
  binary_op_with_for_all_stack A B op vars = binary_op_with_for_all A B op vars.
Proof. intros. rewrite binary_op_with_for_all_stack_eq by assumption. now apply binary_op_with_for_all_faithful_eq. Qed.

Theorem bdd_exists_stack_eq_model : forall b vars, wf b -> bdd_exists_stack b vars = bdd_exists b vars.
Proof. intros. rewrite bdd_exists_stack_eq by assumption. now apply bdd_exists_faithful_eq. Qed.

Theorem bdd_for_all_stack_eq_model : forall b vars, wf b -> bdd_for_all_stack b vars = bdd_for_all b vars.
Proof. intros. rewrite bdd_for_all_stack_eq by assumption. now apply bdd_for_all_faithful_eq. Qed.

(* no hypotheses: the only panic is the variable-count check *)
Theorem nested_fn_stack_panic_iff A B trigger outer inner :
  nested_apply_fn_stack A B trigger outer inner = Panic <-> nvars A <> nvars B.
Proof.
  unfold nested_apply_fn_stack. destruct (N.eqb_spec (nvars A) (nvars B)) as [E|NE]; cbn [negb].
  - split; [|congruence]. destruct (nested_apply_machine A B trigger outer inner); cbn; discriminate.
  - split; auto.
Qed.

(* ---- concrete instances (tests, not proofs) ---- *)
Definition nsx_A : bdd := [mkNode 4 0 0; mkNode 4 1 1; mkNode 3 1 0; mkNode 3 0 1; mkNode 2 3 2; mkNode 1 2 4; mkNode 1 4 2; mkNode 0 6 5].
Definition nsx_B : bdd := [mkNode 4 0 0; mkNode 4 1 1; mkNode 3 1 0; mkNode 3 0 1; mkNode 2 3 2; mkNode 2 1 0; mkNode 1 5 4; mkNode 0 6 1].

(* all entry points on two 8-node operands, computed by both engines *)
Example nested_stack_example :
  wfb nsx_A = true /\ wfb nsx_B = true /\
  nested_apply_stack nsx_A nsx_B [false; true; true; false] op_iff op_or = nested_apply_faithful nsx_A nsx_B [false; true; true; false] op_iff op_or /\
  nested_apply_stack nsx_A nsx_B [true; false; false; true] op_xor op_and = nested_apply_faithful nsx_A nsx_B [true; false; false; true] op_xor op_and /\
  bdd_exists_stack nsx_A [1; 2] = bdd_exists_faithful nsx_A [1; 2] /\
  bdd_for_all_stack nsx_B [0; 3] = bdd_for_all_faithful nsx_B [0; 3] /\
  binary_op_with_exists_stack nsx_A nsx_B op_and_not [2] = binary_op_with_exists_faithful nsx_A nsx_B op_and_not [2] /\
  exists r, bdd_for_all_stack nsx_B [0; 3] = Ok r /\ size r = 4.
Proof. vm_compute. repeat split; try reflexivity. eexists; split; reflexivity. Qed.

(* the outer machine really runs differently from the recursion: on the first instance above the root task is popped
   after exactly 18 iterations of the outer loop body; the task (2,1) is pushed twice (iterations 2 and 3) and its
   second copy is found in `outer_cache` when it reaches the top after 6 iterations (the branch that only sets
   `output`); iteration 6 contains a complete run of the inner machine (the inner cache gets its first entry);
   the final states (store, node cache, both caches) of machine and recursion are equal *)
Example nested_stack_example_steps :
  let tr := fun x => nth (N.to_nat x) [false; true; true; false] false in
  let run k := outer_stack_iter nsx_A nsx_B tr op_iff op_or k (Some ([root nsx_A nsx_B], 0, n0 nsx_A)) in
  let stack_of o := match o with Some (stk, _, _) => stk | None => [] end in
  let out_of o := match o with Some (_, out, _) => out | None => 0 end in
  let inner_of o := match o with Some (_, _, s) => ninner s | None => [] end in
  oempty_o (run 17%nat) = false /\ oempty_o (run 18%nat) = true /\
  stack_of (run 3%nat) = [(2, 1); (3, 1); (4, 1); (2, 1); (5, 1); (6, 6); (7, 7)] /\
  stack_of (run 6%nat) = [(2, 1); (5, 1); (6, 6); (7, 7)] /\
  stack_of (run 7%nat) = [(5, 1); (6, 6); (7, 7)] /\ out_of (run 6%nat) = 1 /\ out_of (run 7%nat) = 2 /\
  inner_of (run 5%nat) = [] /\ inner_of (run 6%nat) = [((3, 2), 1)] /\
  match run 18%nat with Some (_, out, s) => nested_run nsx_A nsx_B tr op_iff op_or = Some (out, s) | None => False end.
Proof. vm_compute. repeat split; reflexivity. Qed.

(* the inner machine on a hash-consed store: x1&x2 (pointer 4) `or` x1 xor x2 (pointer 5); 4 iterations, the new node
   (1, 2, 1) is appended at index 6 *)
Example inner_stack_example :
  let G := [mkNode 3 0 0; mkNode 3 1 1; mkNode 2 0 1; mkNode 2 1 0; mkNode 1 0 2; mkNode 1 2 3] in
  let s := mkN G (rev (List.combine G [0; 1; 2; 3; 4; 5])) [] [] in
  let run k := inner_stack_iter op_or k ([(4, 5)], 0, s) in
  fst (run 1%nat) = ([(2, 3); (0, 2); (4, 5)], 0) /\ fst (run 2%nat) = ([(0, 2); (4, 5)], 1) /\
  fst (run 3%nat) = ([(4, 5)], 2) /\ fst (run 4%nat) = ([], 6) /\
  nn (snd (run 4%nat)) = G ++ [mkNode 1 2 1] /\ ninner (snd (run 4%nat)) = [((4, 5), 6); ((0, 2), 2); ((2, 3), 1)] /\
  inner_apply_stack op_or 4 5 s = Some (6, snd (run 4%nat)) /\ inner_apply op_or 4 5 s = Some (6, snd (run 4%nat)).
Proof. vm_compute. repeat split; reflexivity. Qed.

(* the copy machine: pointer 4 is pushed twice (by its parents 2 and 3); the second copy is popped by the
   "already has a known translation" branch (iteration 5) *)
Example copy_stack_example :
  let G := [mkNode 3 0 0; mkNode 3 1 1; mkNode 0 4 3; mkNode 1 4 1; mkNode 2 0 1] in
  let run k := copy_stack_iter G k ([2], (mk_true 3, [])) in
  fst (run 1%nat) = [3; 4; 2] /\ fst (run 2%nat) = [4; 3; 4; 2] /\ fst (run 3%nat) = [3; 4; 2] /\
  fst (run 4%nat) = [4; 2] /\ run 5%nat = ([2], snd (run 4%nat)) /\ fst (run 6%nat) = [] /\
  fix_alignment_stack G 2 = Some [mkNode 3 0 0; mkNode 3 1 1; mkNode 2 0 1; mkNode 1 2 1; mkNode 0 2 3] /\
  fix_alignment_stack G 2 = fix_alignment G 2.
Proof. vm_compute. repeat split; reflexivity. Qed.

(* the totality hypothesis on the INNER table is what makes the inner LOOP terminate (a finding about the Rust code,
   not an artefact of the model; `binary_op_nested` accepts any closure as `inner_op`): the root task of an inner
   invocation gets no terminal lookup, so when the two sub-results are the two terminals the task (0,1) is examined
   like a decision task; terminal nodes link to themselves, so both of its sub-tasks are (0,1) again; with a table that
   does not answer (Some false, Some true) neither is found in the cache and two more copies are pushed in every
   iteration — the stack grows without bound and no node is ever created.  The bounded runner gives up (None), and so
   does the recursive engine (fuel). *)
Example inner_stack_total_table_needed :
  let op : op2 := fun _ _ => None in
  let run k := inner_stack_iter op k ([(0, 1)], 0, n0 nsx_A) in
  map (fun k => (hd (9, 9) (fst (fst (run k))), length (fst (fst (run k))))) [1; 2; 3; 20]%nat =
    [((0, 1), 3%nat); ((0, 1), 5%nat); ((0, 1), 7%nat); ((0, 1), 41%nat)] /\
  nn (snd (run 20%nat)) = nn (n0 nsx_A) /\
  inner_apply_stack op 0 1 (n0 nsx_A) = None /\ inner_apply op 0 1 (n0 nsx_A) = None /\
  nested_apply_stack nsx_A nsx_B [false; true; true; false] op_iff op = OutOfFuel /\
  nested_apply_faithful nsx_A nsx_B [false; true; true; false] op_iff op = OutOfFuel.
Proof. vm_compute. repeat split; reflexivity. Qed.

Print Assumptions iproc_simulated.
Print Assumptions inner_apply_stack_eq.
Print Assumptions copy_simulated.
Print Assumptions fix_alignment_stack_eq.
Print Assumptions oproc_simulated.
Print Assumptions nested_run_stack_eq.
Print Assumptions nested_run_reaches_store_ok.
Print Assumptions nested_apply_stack_eq.
Print Assumptions binary_op_nested_stack_eq.
Print Assumptions binary_op_with_exists_stack_eq.
Print Assumptions binary_op_with_for_all_stack_eq.
Print Assumptions bdd_exists_stack_eq.
Print Assumptions bdd_for_all_stack_eq.
Print Assumptions nested_stack_correct.
Print Assumptions nested_stack_eq_model.
Print Assumptions bdd_exists_stack_eq_model.
Print Assumptions bdd_for_all_stack_eq_model.
Print Assumptions nested_fn_stack_panic_iff.
