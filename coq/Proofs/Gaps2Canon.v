(* Proofs/Gaps2Canon.v — C02 gaps: the observations of the property text (==, Hash, text, bytes) on canonical diagrams
   of the same function; the structural clauses of `Canonical` spelt out in primitive terms. *)
From Coq Require Import List NArith Lia Bool.
Import ListNotations.
From BddVerif Require Import Model.Bdd Model.Apply Model.Ops Model.Valuation Model.Hash Model.Serial Model.OptDnf Model.Select
  Proofs.Sem Proofs.Canon Proofs.SelectBase Proofs.ValuationSem Proofs.SerialBytes Proofs.SerialText Proofs.OptDnfSem.
Open Scope N_scope.

(* ---------------------------------------------------------------- == *)
Theorem bdd_eqb_iff a b : bdd_eqb a b = true <-> a = b.
Proof. split; [apply bdd_eqb_eq|intros ->; apply bdd_eqb_refl]. Qed.

(* ---------------------------------------------------------------- the observations are functions of the array *)
Theorem equal_function_same_observations a b :
  Canonical a -> Canonical b -> nvars a = nvars b -> (forall v, eval a v = eval b v) ->
  a = b /\ bdd_eqb a b = true /\ bdd_hash_stream a = bdd_hash_stream b /\
  write_text a = write_text b /\ write_bytes a = write_bytes b.
Proof.
  intros Ca Cb NV E. pose proof (canonical_unique a b Ca Cb NV E) as ->.
  split; [reflexivity|]. split; [apply bdd_eqb_refl|]. repeat split.
Qed.
Print Assumptions equal_function_same_observations.

(* ---------------------------------------------------------------- and each of them determines the array *)
Theorem write_bytes_injective a b : in_range a -> in_range b -> write_bytes a = write_bytes b -> a = b.
Proof. intros Ra Rb E. rewrite <- (records_write_bytes a Ra), <- (records_write_bytes b Rb), E. reflexivity. Qed.
Print Assumptions write_bytes_injective.

Theorem write_text_injective a b : in_range a -> in_range b -> write_text a = write_text b -> a = b.
Proof.
  intros Ra Rb E. pose proof (normal_text_roundtrip a Ra) as Ha. pose proof (normal_text_roundtrip b Rb) as Hb.
  rewrite E in Ha. rewrite Ha in Hb. now inversion Hb.
Qed.
Print Assumptions write_text_injective.

Lemma le_bytes_inj k x y : x < 256 ^ N.of_nat k -> y < 256 ^ N.of_nat k -> le_bytes k x = le_bytes k y -> x = y.
Proof. intros Hx Hy E. apply le_bytes_mod in E. rewrite !N.mod_small in E by assumption. exact E. Qed.

Lemma hash_call_length k x : length (hash_call k x) = S k.
Proof. unfold hash_call. cbn [length]. now rewrite le_bytes_length. Qed.

Lemma node_hash_calls_length n : length (node_hash_calls n) = 13%nat.
Proof. unfold node_hash_calls. rewrite !app_length, !hash_call_length. reflexivity. Qed.

Lemma node_hash_calls_inj n m :
  nvar n < u16_bound -> nlow n < u32_bound -> nhigh n < u32_bound ->
  nvar m < u16_bound -> nlow m < u32_bound -> nhigh m < u32_bound ->
  node_hash_calls n = node_hash_calls m -> n = m.
Proof.
  unfold u16_bound, u32_bound. intros V1 L1 H1 V2 L2 H2 E. unfold node_hash_calls in E.
  apply app_inv_len in E; [|now rewrite !hash_call_length]. destruct E as (E1 & E).
  apply app_inv_len in E; [|now rewrite !hash_call_length]. destruct E as (E2 & E3).
  unfold hash_call in *. apply (f_equal (@tl N)) in E1, E2, E3. cbn [tl] in E1, E2, E3.
  apply le_bytes_inj in E1; [|exact V1|exact V2]. apply le_bytes_inj in E2; [|exact L1|exact L2].
  apply le_bytes_inj in E3; [|exact H1|exact H2]. destruct n, m; cbn in *; congruence.
Qed.

Lemma flat_hash_inj a : forall b, in_range a -> in_range b ->
  flat_map node_hash_calls a = flat_map node_hash_calls b -> a = b.
Proof.
  induction a as [|n a IH]; intros [|m b] Ra Rb E; cbn [flat_map] in E.
  - reflexivity.
  - apply (f_equal (@length N)) in E. rewrite app_length, node_hash_calls_length in E. discriminate.
  - apply (f_equal (@length N)) in E. rewrite app_length, node_hash_calls_length in E. discriminate.
  - inversion Ra as [|? ? (V1 & L1 & H1) Ra']; subst. inversion Rb as [|? ? (V2 & L2 & H2) Rb']; subst.
    apply app_inv_len in E; [|now rewrite !node_hash_calls_length]. destruct E as (E1 & E2).
    f_equal; [now apply node_hash_calls_inj|now apply IH].
Qed.

(* the stream of Hasher calls determines the array (no bound on the length is needed: the records have a fixed width) *)
Theorem bdd_hash_stream_injective a b : in_range a -> in_range b -> bdd_hash_stream a = bdd_hash_stream b -> a = b.
Proof.
  intros Ra Rb E. unfold bdd_hash_stream in E.
  apply app_inv_len in E; [|now rewrite !hash_call_length]. destruct E as (_ & E). now apply flat_hash_inj.
Qed.
Print Assumptions bdd_hash_stream_injective.

(* so on in-range diagrams (every Bdd the Rust can store) all four observations are equivalent to equality *)
Theorem observations_iff a b : in_range a -> in_range b ->
  (bdd_eqb a b = true <-> a = b) /\ (bdd_hash_stream a = bdd_hash_stream b <-> a = b) /\
  (write_text a = write_text b <-> a = b) /\ (write_bytes a = write_bytes b <-> a = b).
Proof.
  intros Ra Rb. split; [apply bdd_eqb_iff|]. split; [|split]; (split; [|now intros ->]).
  - now apply bdd_hash_stream_injective.
  - now apply write_text_injective.
  - now apply write_bytes_injective.
Qed.
Print Assumptions observations_iff.

(* ---------------------------------------------------------------- the structure of a canonical diagram *)
(* a chain of edges from p to t: the list holds the successive targets *)
Fixpoint edge_chain (b : bdd) (p : N) (ps : list N) (t : N) : Prop :=
  match ps with
  | [] => p = t
  | q :: r => 2 <= p /\ p < size b /\ (q = nlow (get b p) \/ q = nhigh (get b p)) /\ edge_chain b q r t
  end.

Lemma path_edge_chain b : forall ds p t, path b p ds t -> exists ps, edge_chain b p ps t.
Proof.
  induction ds as [|[x c] ds IH]; intros p t P; cbn [path fst snd] in P.
  - exists []. exact P.
  - destruct P as (A & B & _ & P). destruct (IH _ _ P) as (ps & Hps). exists (child b p c :: ps).
    cbn [edge_chain]. repeat split; try assumption. unfold child. destruct c; [right|left]; reflexivity.
Qed.

Theorem canonical_structure b : Canonical b ->
  (* the terminals sit at 0 and 1 and carry the variable count *)
  (1 <= size b /\ get b 0 = mkNode (nvars b) 0 0 /\ (2 <= size b -> get b 1 = mkNode (nvars b) 1 1)) /\
  (* children are stored before their parents *)
  (forall p, 2 <= p -> p < size b -> nlow (get b p) < p /\ nhigh (get b p) < p) /\
  (* the root is last and nothing is unreachable: every node but the last (the terminal 1 included) has a parent stored
     after it, and every decision node is the end of a chain of edges that starts at the last node *)
  (forall q, 1 <= q -> q < size b - 1 -> exists j, 2 <= j /\ q < j /\ j < size b /\ (nlow (get b j) = q \/ nhigh (get b j) = q)) /\
  (forall p, 2 <= p -> p < size b -> exists ps, edge_chain b (size b - 1) ps p) /\
  (* no two equal decision nodes *)
  (forall p q, 2 <= p -> p < size b -> 2 <= q -> q < size b ->
     nvar (get b p) = nvar (get b q) -> nlow (get b p) = nlow (get b q) -> nhigh (get b p) = nhigh (get b q) -> p = q) /\
  (* no decision node with equal children *)
  (forall p, 2 <= p -> p < size b -> nlow (get b p) <> nhigh (get b p)) /\
  (* variables are in range and strictly increase along edges (a terminal counts as variable nvars) *)
  (forall p, 2 <= p -> p < size b ->
     nvar (get b p) < nvars b /\ nlow (get b p) < size b /\ nhigh (get b p) < size b /\
     nvar (get b p) < nvar (get b (nlow (get b p))) /\ nvar (get b p) < nvar (get b (nhigh (get b p)))).
Proof.
  intros C. pose proof (canonical_benign b C) as Bn. pose proof C as (W & (R1 & R2) & _).
  pose proof Bn as (_ & _ & T & RA). pose proof W as (W1 & W2 & W3 & W4).
  split; [repeat split; assumption|].
  split; [exact (kids_lt b T)|].
  split; [intros q Hq Hr; exact (has_parent b q Bn Hq Hr)|].
  split; [intros p Hp Hlt; destruct (RA p Hp Hlt) as (ds & P); exact (path_edge_chain b ds _ _ P)|].
  split; [intros p q Hp Hpl Hq Hql Ev El Eh; apply R2; try assumption; now apply node_ext|].
  split; [exact R1|].
  intros p Hp Hlt. exact (W4 p Hp Hlt).
Qed.
Print Assumptions canonical_structure.

(* ---------------------------------------------------------------- through a history *)
From BddVerif Require Import Proofs.History.
Theorem history_same_observations h rs i j a b : run h = Ok rs ->
  nth_error rs i = Some a -> nth_error rs j = Some b -> nvars a = nvars b -> (forall v, eval a v = eval b v) ->
  a = b /\ bdd_eqb a b = true /\ bdd_hash_stream a = bdd_hash_stream b /\
  write_text a = write_text b /\ write_bytes a = write_bytes b.
Proof.
  intros H Ha Hb NV E. pose proof (history_canonical h rs H) as F. rewrite Forall_forall in F.
  apply equal_function_same_observations; [| |exact NV|exact E]; apply F; eapply nth_error_In; eassumption.
Qed.
Print Assumptions history_same_observations.
