(* Proofs/Gaps3Lex.v — a DECLARATIVE lexical specification of the expression tokenizer (C14) and the proof that the
   operational model `tokenize_group` (Model/Expr.v, step-faithful to boolean_expression/_impl_parser.rs) meets it
   exactly.  `Lex s ts`: the string s (code points) has the token list ts.

   The rules (nothing else is a token list of anything):
     - the empty string has no tokens;
     - a whitespace character (Unicode White_Space) is skipped;
     - a single-character token of the table model_single (! & : ? ^ |, the table read off the source) ;
     - a multi-character token of the table model_multi ( `=>` , `<=>` );
     - an identifier: a NON-EMPTY run x of non-delimiter characters (neither whitespace nor one of
       ! & | ^ = < > ( ) ? :) that is MAXIMAL — what follows is the end of the string or starts with a delimiter;
     - a group: `(` inner `)` rest, where `inner` lexes ON ITS OWN to the token list of the group (so parentheses
       are balanced and groups nest), followed by the tokens of the rest.
   There is no rule for a lone `=`, `<`, `>`, for `=` / `<=` not followed by `>`, for an unmatched `(` or `)`:
   such strings are in relation with no token list, and the tokenizer answers Err on exactly these
   (tokenize_err_iff).  Lex is specification, not model: it mentions neither fuel nor a cursor nor a `top_level` flag. *)
From Coq Require Import List Arith NArith Lia Bool. Import ListNotations.
From BddVerif Require Import Model.Bdd Model.Apply Model.Ops Model.Expr Proofs.ExprParse Proofs.ExprShow Proofs.ExprTable.

Inductive Lex : list N -> list token -> Prop :=
| Lex_nil : Lex [] []
| Lex_ws c s ts : is_ws c = true -> Lex s ts -> Lex (c :: s) ts
| Lex_single c t s ts : In (c, t) model_single -> Lex s ts -> Lex (c :: s) (t :: ts)
| Lex_multi w t s ts : In (w, t) model_multi -> Lex s ts -> Lex (w ++ s) (t :: ts)
| Lex_id x s ts : x <> [] -> nodelim x = true -> boundary s -> Lex s ts -> Lex (x ++ s) (TId x :: ts)
| Lex_group inner_s inner s ts : Lex inner_s inner -> Lex s ts ->
    Lex (40%N :: inner_s ++ 41%N :: s) (TGroup inner :: ts).

(* ------------------------------------------------------------------ take_name = the maximal run *)
Lemma take_name_spec : forall s n r, take_name s = (n, r) -> s = n ++ r /\ nodelim n = true /\ boundary r.
Proof.
  induction s as [|c s IH]; intros n r H; cbn [take_name] in H.
  - injection H as <- <-. repeat split.
  - destruct (delim c) eqn:D.
    + injection H as <- <-. split; [reflexivity|]. split; [reflexivity|]. cbn. exact D.
    + destruct (take_name s) as (n', r') eqn:E. injection H as <- <-.
      destruct (IH _ _ eq_refl) as (-> & Hn & Hb). split; [reflexivity|]. split; [|exact Hb].
      unfold nodelim in *. cbn [forallb]. rewrite D. exact Hn.
Qed.

(* ------------------------------------------------------------------ soundness *)
(* what a successful call has consumed: at the top level the whole string; inside a group everything up to and
   including the closing parenthesis of THIS group *)
Definition LexOut (top : bool) (s : list N) (ts : list token) (rest : list N) : Prop :=
  if top then rest = [] /\ Lex s ts else exists i, s = i ++ 41%N :: rest /\ Lex i ts.

Lemma LexOut_prefix top pre t r ts rest :
  (forall s0 ts0, Lex s0 ts0 -> Lex (pre ++ s0) (t :: ts0)) ->
  LexOut top r ts rest -> LexOut top (pre ++ r) (t :: ts) rest.
Proof.
  intros P. destruct top; cbn [LexOut].
  - intros (-> & L). split; [reflexivity|]. now apply P.
  - intros (i & -> & L). exists (pre ++ i). split; [now rewrite app_assoc|]. now apply P.
Qed.

Lemma LexOut_skip top c r ts rest : is_ws c = true -> LexOut top r ts rest -> LexOut top (c :: r) ts rest.
Proof.
  intros W. destruct top; cbn [LexOut].
  - intros (-> & L). split; [reflexivity|]. now apply Lex_ws.
  - intros (i & -> & L). exists (c :: i). split; [reflexivity|]. now apply Lex_ws.
Qed.

Lemma boundary_prefix i rest : boundary (i ++ 41%N :: rest) -> boundary i.
Proof. destruct i; [intros _; exact I|exact (fun H => H)]. Qed.

Lemma LexOut_id top x r ts rest : x <> [] -> nodelim x = true -> boundary r ->
  LexOut top r ts rest -> LexOut top (x ++ r) (TId x :: ts) rest.
Proof.
  intros Hx Hn Hb. destruct top; cbn [LexOut].
  - intros (-> & L). split; [reflexivity|]. now apply Lex_id.
  - intros (i & -> & L). exists (x ++ i). split; [now rewrite app_assoc|].
    apply Lex_id; try assumption. now apply boundary_prefix in Hb.
Qed.

Lemma tokenize_group_sound : forall f s top ts rest,
  tokenize_group f s top = TOk ts rest -> LexOut top s ts rest.
Proof.
  induction f as [|f IH]; intros s top ts rest H; [discriminate|].
  cbn [tokenize_group] in H. destruct s as [|c r].
  { destruct top; [|discriminate]. injection H as <- <-. split; [reflexivity|constructor]. }
  destruct (is_ws c) eqn:W; [apply LexOut_skip; [exact W|now apply IH]|].
  assert (SINGLE : forall k t, In (k, t) model_single -> c = k ->
            tcons t (tokenize_group f r top) = TOk ts rest -> LexOut top (c :: r) ts rest).
  { intros k t Hin -> H'. apply tcons_ok in H' as (ts' & H' & ->).
    apply (LexOut_prefix top [k] t r ts' rest); [|now apply IH].
    intros s0 ts0 L. now apply Lex_single. }
  destruct (c =? 33)%N eqn:E33; [apply N.eqb_eq in E33; apply (SINGLE 33%N TNot); [cbn; tauto|assumption|assumption]|].
  destruct (c =? 38)%N eqn:E38; [apply N.eqb_eq in E38; apply (SINGLE 38%N TAnd); [cbn; tauto|assumption|assumption]|].
  destruct (c =? 124)%N eqn:E124; [apply N.eqb_eq in E124; apply (SINGLE 124%N TOr); [cbn; tauto|assumption|assumption]|].
  destruct (c =? 94)%N eqn:E94; [apply N.eqb_eq in E94; apply (SINGLE 94%N TXor); [cbn; tauto|assumption|assumption]|].
  destruct (c =? 58)%N eqn:E58; [apply N.eqb_eq in E58; apply (SINGLE 58%N TColon); [cbn; tauto|assumption|assumption]|].
  destruct (c =? 63)%N eqn:E63; [apply N.eqb_eq in E63; apply (SINGLE 63%N TQuestion); [cbn; tauto|assumption|assumption]|].
  destruct (c =? 61)%N eqn:E61.
  { (* `=>` *)
    apply N.eqb_eq in E61. subst c. destruct r as [|c2 r2]; [discriminate|].
    destruct (c2 =? 62)%N eqn:E2; [|discriminate]. apply N.eqb_eq in E2. subst c2.
    apply tcons_ok in H as (ts' & H & ->).
    apply (LexOut_prefix top [61%N; 62%N] TImp r2 ts' rest); [|now apply IH].
    intros s0 ts0 L. apply (Lex_multi [61%N; 62%N] TImp); [cbn; tauto|exact L]. }
  destruct (c =? 60)%N eqn:E60.
  { (* `<=>` *)
    apply N.eqb_eq in E60. subst c. destruct r as [|c2 r2]; [discriminate|].
    destruct (c2 =? 61)%N eqn:E2; [|discriminate]. apply N.eqb_eq in E2. subst c2.
    destruct r2 as [|c3 r3]; [discriminate|].
    destruct (c3 =? 62)%N eqn:E3; [|discriminate]. apply N.eqb_eq in E3. subst c3.
    apply tcons_ok in H as (ts' & H & ->).
    apply (LexOut_prefix top [60%N; 61%N; 62%N] TIff r3 ts' rest); [|now apply IH].
    intros s0 ts0 L. apply (Lex_multi [60%N; 61%N; 62%N] TIff); [cbn; tauto|exact L]. }
  destruct (c =? 62)%N eqn:E62; [discriminate|].
  destruct (c =? 41)%N eqn:E41.
  { (* `)` *)
    apply N.eqb_eq in E41. subst c. destruct top; [discriminate|]. injection H as <- <-.
    exists []. split; [reflexivity|constructor]. }
  destruct (c =? 40)%N eqn:E40.
  { (* `(` *)
    apply N.eqb_eq in E40. subst c.
    destruct (tokenize_group f r false) as [inner rest1| |] eqn:E; try discriminate.
    apply tcons_ok in H as (ts' & H & ->).
    apply IH in E. cbn [LexOut] in E. destruct E as (i & -> & Li).
    replace (40%N :: i ++ 41%N :: rest1) with ((40%N :: i ++ [41%N]) ++ rest1)
      by (cbn [app]; rewrite <- app_assoc; reflexivity).
    apply LexOut_prefix; [|now apply IH].
    intros s0 ts0 L. cbn [app]. rewrite <- app_assoc. cbn [app]. now apply Lex_group. }
  (* identifier *)
  destruct (take_name r) as (n, r') eqn:E. apply tcons_ok in H as (ts' & H & ->).
  destruct (take_name_spec _ _ _ E) as (-> & Hn & Hb).
  change (c :: n ++ r') with ((c :: n) ++ r').
  apply LexOut_id; [discriminate| |exact Hb|now apply IH].
  unfold nodelim in *. cbn [forallb]. rewrite Hn, andb_true_r. apply negb_true_iff.
  unfold delim, reserved. now rewrite W, E33, E38, E124, E94, E61, E60, E62, E40, E41, E63, E58.
Qed.

(* ------------------------------------------------------------------ completeness *)
Lemma Tok_single c t s top ts r : In (c, t) model_single -> Tok s top ts r -> Tok (c :: s) top (t :: ts) r.
Proof. intros Hin [f H]. exists (S f). rewrite (single_token_spec c t Hin). now rewrite H. Qed.

Lemma Tok_multi w t s top ts r : In (w, t) model_multi -> Tok s top ts r -> Tok (w ++ s) top (t :: ts) r.
Proof. intros Hin [f H]. exists (S f). rewrite (multi_token_spec w t Hin). now rewrite H. Qed.

Lemma boundary_app s tail : boundary tail -> boundary s -> boundary (s ++ tail).
Proof. destruct s; [intros H _; exact H|intros _ H; exact H]. Qed.

(* a lexed string followed by any continuation the tokenizer accepts (at either level) that starts at a token boundary *)
Lemma lex_tok : forall s ts, Lex s ts -> forall top tail ts2 rest, boundary tail -> Tok tail top ts2 rest ->
  Tok (s ++ tail) top (ts ++ ts2) rest.
Proof.
  induction 1 as [|c s ts W L IH|c t s ts Hin L IH|w t s ts Hin L IH|x s ts Hx Hn Hb L IH|is inner s ts Li IHi L IH];
    intros top tail ts2 rest Bt T; cbn [app].
  - exact T.
  - apply Tok_ws; [exact W|]. now apply IH.
  - apply Tok_single; [exact Hin|]. now apply IH.
  - rewrite <- app_assoc. apply Tok_multi; [exact Hin|]. now apply IH.
  - rewrite <- app_assoc. apply Tok_name; try assumption; [now apply boundary_app|]. now apply IH.
  - rewrite <- app_assoc. cbn [app]. apply (Tok_open _ (s ++ tail)); [|now apply IH].
    specialize (IHi false (41%N :: s ++ tail) [] (s ++ tail) eq_refl (Tok_close _)).
    now rewrite app_nil_r in IHi.
Qed.

Lemma Tok_tokenize s ts r : Tok s true ts r -> tokenize s = TOk ts r.
Proof.
  intros [f H]. unfold tokenize. destruct (Nat.le_ge_cases f (S (length s))) as [Hf|Hf].
  - exact (tokenize_group_mono _ _ _ _ _ _ H Hf).
  - destruct (tokenize_group_tle _ _ s true Hf) as [E|E]; [|congruence].
    exfalso. exact (tokenize_nofuel _ E).
Qed.

(* ------------------------------------------------------------------ the theorems *)
Theorem tokenize_lex_sound s ts rest : tokenize s = TOk ts rest -> rest = [] /\ Lex s ts.
Proof. intros H. exact (tokenize_group_sound _ s true ts rest H). Qed.
Print Assumptions tokenize_lex_sound.

Theorem tokenize_lex_complete s ts : Lex s ts -> tokenize s = TOk ts [].
Proof.
  intros L. apply Tok_tokenize. pose proof (lex_tok s ts L true [] [] [] I Tok_nil) as T.
  now rewrite !app_nil_r in T.
Qed.
Print Assumptions tokenize_lex_complete.

Theorem tokenize_lex s ts : tokenize s = TOk ts [] <-> Lex s ts.
Proof. split; [intros H; exact (proj2 (tokenize_lex_sound s ts [] H))|apply tokenize_lex_complete]. Qed.
Print Assumptions tokenize_lex.

(* the relation is functional, and the tokenizer answers Err exactly on the strings outside its domain *)
Corollary lex_functional s ts ts' : Lex s ts -> Lex s ts' -> ts = ts'.
Proof. intros L1 L2. apply tokenize_lex_complete in L1, L2. congruence. Qed.

Theorem tokenize_err_iff s : tokenize s = TErr <-> forall ts, ~ Lex s ts.
Proof.
  split.
  - intros E ts L. apply tokenize_lex_complete in L. congruence.
  - intros H. destruct (tokenize s) as [ts rest| |] eqn:E; [|reflexivity|exfalso; exact (tokenize_nofuel s E)].
    exfalso. apply (H ts). exact (proj2 (tokenize_lex_sound s ts rest E)).
Qed.
Print Assumptions tokenize_err_iff.

(* inside a group (the recursive call): the tokens of the text up to the matching `)` *)
Theorem tokenize_group_lex f s ts rest : tokenize_group f s false = TOk ts rest ->
  exists inner, s = inner ++ 41%N :: rest /\ Lex inner ts.
Proof. intros H. exact (tokenize_group_sound f s false ts rest H). Qed.

(* the shape of identifiers, for the reader: every character a non-delimiter, at least one, and maximal *)
Lemma nodelim_iff x : nodelim x = true <-> forall c, In c x -> is_ws c = false /\ reserved c = false.
Proof.
  unfold nodelim. rewrite forallb_forall. split; intros H c Hc; specialize (H c Hc).
  - apply negb_true_iff in H. unfold delim in H. now apply orb_false_iff in H.
  - apply negb_true_iff. unfold delim. destruct H as (-> & ->). reflexivity.
Qed.

(* the rules once more, as one equivalence (the inductive definition read as a fixed-point equation) *)
Theorem Lex_unfold s ts : Lex s ts <->
  (s = [] /\ ts = []) \/
  (exists c s', s = c :: s' /\ is_ws c = true /\ Lex s' ts) \/
  (exists c t s' ts', s = c :: s' /\ ts = t :: ts' /\ In (c, t) model_single /\ Lex s' ts') \/
  (exists w t s' ts', s = w ++ s' /\ ts = t :: ts' /\ In (w, t) model_multi /\ Lex s' ts') \/
  (exists x s' ts', s = x ++ s' /\ ts = TId x :: ts' /\ x <> [] /\ nodelim x = true /\ boundary s' /\ Lex s' ts') \/
  (exists i inner s' ts', s = 40%N :: i ++ 41%N :: s' /\ ts = TGroup inner :: ts' /\ Lex i inner /\ Lex s' ts').
Proof.
  split.
  - intros L. destruct L as [|c s ts W L|c t s ts Hin L|w t s ts Hin L|x s ts Hx Hn Hb L|i inner s ts Li L].
    + left. split; reflexivity.
    + right; left. exists c, s. auto.
    + right; right; left. exists c, t, s, ts. auto.
    + right; right; right; left. exists w, t, s, ts. auto.
    + right; right; right; right; left. exists x, s, ts. auto 7.
    + right; right; right; right; right. exists i, inner, s, ts. auto.
  - intros [(-> & ->)|[(c & s' & -> & W & L)|[(c & t & s' & ts' & -> & -> & Hin & L)|[(w & t & s' & ts' & -> & -> & Hin & L)|
            [(x & s' & ts' & -> & -> & Hx & Hn & Hb & L)|(i & inner & s' & ts' & -> & -> & Li & L)]]]]].
    + constructor.
    + now apply Lex_ws.
    + now apply Lex_single.
    + now apply Lex_multi.
    + now apply Lex_id.
    + now apply Lex_group.
Qed.
Print Assumptions Lex_unfold.

(* the whole front end declaratively: a string parses to e iff it lexes to a token tree derivable in the grammar *)
From BddVerif Require Import Proofs.ExprGrammar.
Theorem parse_string_lex_grammar s e : parse_string s = POk e <-> exists ts, Lex s ts /\ G LIff ts e.
Proof.
  rewrite parse_string_grammar. split.
  - intros (ts & rest & T & D). exists ts. split; [exact (proj2 (tokenize_lex_sound s ts rest T))|exact D].
  - intros (ts & L & D). exists ts, []. split; [now apply tokenize_lex_complete|exact D].
Qed.
Print Assumptions parse_string_lex_grammar.

(* ---- instances: "a1 &(!b<=> c )=>d" ; stray `=`, `<`, `>` ; unbalanced parentheses ; `ab` is ONE identifier ---- *)
Example lex_examples :
  Lex [97; 49; 32; 38; 40; 33; 98; 60; 61; 62; 32; 99; 32; 41; 61; 62; 100]%N
      [TId [97; 49]%N; TAnd; TGroup [TNot; TId [98%N]; TIff; TId [99%N]]; TImp; TId [100%N]] /\
  (forall ts, ~ Lex [97; 32; 61; 32; 98]%N ts) /\          (* a = b *)
  (forall ts, ~ Lex [97; 32; 60; 32; 98]%N ts) /\          (* a < b *)
  (forall ts, ~ Lex [97; 32; 60; 61; 32; 98]%N ts) /\      (* a <= b *)
  (forall ts, ~ Lex [62]%N ts) /\                          (* > *)
  (forall ts, ~ Lex [40; 97]%N ts) /\                      (* (a *)
  (forall ts, ~ Lex [97; 41]%N ts) /\                      (* a) *)
  (forall ts, ~ Lex [40; 40; 97; 41]%N ts) /\              (* ((a) *)
  Lex [97; 98]%N [TId [97; 98]%N] /\ ~ Lex [97; 98]%N [TId [97%N]; TId [98%N]] /\
  Lex [40; 41]%N [TGroup []] /\ Lex [32; 9]%N [].
Proof.
  split; [apply tokenize_lex; reflexivity|].
  repeat (split; [apply tokenize_err_iff; reflexivity|]).
  split; [apply tokenize_lex; reflexivity|].
  split; [intros L; apply tokenize_lex in L; discriminate L|].
  split; apply tokenize_lex; reflexivity.
Qed.
