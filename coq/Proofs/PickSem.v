(* Proofs/PickSem.v — Bdd::pick: the result is a sub-relation of b that keeps, for every valuation of
   the variables NOT listed, exactly one valuation of the listed variables (when b has any). *)
From Coq Require Import List NArith Lia Bool Permutation.
Import ListNotations.
From BddVerif Require Import Model.Bdd Model.Apply Model.Ops Proofs.Sem Proofs.Canon Proofs.ApplySem Proofs.ApplyTop
  Proofs.RelSem.
Open Scope N_scope.

Definition agree_outside (vars : list N) (w v : val) : Prop := forall y, ~ In y vars -> w y = v y.

(* ---- sort_vars is a permutation ---- *)
Lemma insert_sorted_perm x l : Permutation (x :: l) (insert_sorted x l).
Proof.
  induction l as [|y l IH]; cbn [insert_sorted]; [apply Permutation_refl|].
  destruct (x <=? y); [apply Permutation_refl|].
  eapply perm_trans; [apply perm_swap|]. apply perm_skip. exact IH.
Qed.

Lemma sort_vars_perm l : Permutation l (sort_vars l).
Proof.
  induction l as [|x l IH]; cbn [sort_vars fold_right]; [apply perm_nil|].
  eapply perm_trans; [apply perm_skip; exact IH|]. apply insert_sorted_perm.
Qed.

Lemma rev_sort_perm l : Permutation l (rev (sort_vars l)).
Proof. eapply perm_trans; [apply sort_vars_perm|apply Permutation_rev]. Qed.

(* ---- independence of a variable ---- *)
Definition indep (f : val -> bool) (z : N) : Prop := forall v c, f (upd v z c) = f v.

Lemma upd_upd_same v x c d y : upd (upd v x c) x d y = upd v x d y.
Proof. unfold upd. destruct (y =? x); reflexivity. Qed.

Lemma upd_comm v x c z d y : x <> z -> upd (upd v x c) z d y = upd (upd v z d) x c y.
Proof.
  intros H. unfold upd. destruct (N.eqb_spec y z) as [Ez|], (N.eqb_spec y x) as [Ex|]; try reflexivity.
  congruence.
Qed.

Lemma flipv_upd_comm v x z d y : x <> z -> flipv (upd v z d) x y = upd (flipv v x) z d y.
Proof.
  intros H. unfold flipv. replace (upd v z d x) with (v x) by (symmetry; apply upd_other; congruence).
  apply upd_comm. congruence.
Qed.

Lemma eval_or_flip_cof b v x :
  eval b v || eval b (flipv v x) = eval b (upd v x false) || eval b (upd v x true).
Proof.
  destruct (v x) eqn:Vx.
  - rewrite orb_comm. f_equal; apply eval_ext; intros y.
    + apply flipv_upd_ne. rewrite Vx; discriminate.
    + symmetry. now apply upd_id.
  - f_equal; apply eval_ext; intros y.
    + symmetry. now apply upd_id.
    + apply flipv_upd_ne. rewrite Vx; discriminate.
Qed.

(* ---- the invariant of r_pick ---- *)
Record pick_ok (rvars : list N) (set r : bdd) : Prop := {
  pk_wf : wf r;
  pk_canon : rvars <> [] \/ Canonical set -> Canonical r;
  pk_nv : nvars r = nvars set;
  pk_sub : forall v, eval r v = true -> eval set v = true;
  pk_ex : forall v, eval set v = true -> exists w, agree_outside rvars w v /\ eval r w = true;
  pk_uniq : forall w1 w2, (forall y, ~ In y rvars -> w1 y = w2 y) ->
            eval r w1 = true -> eval r w2 = true -> forall y, w1 y = w2 y;
  pk_indep : forall z, ~ In z rvars -> indep (eval set) z -> indep (eval r) z
}.

Lemma r_pick_ok rvars : forall set, wf set -> NoDup rvars -> Forall (fun x => x < nvars set) rvars ->
  exists r, r_pick rvars set = Ok r /\ pick_ok rvars set r.
Proof.
  induction rvars as [|x rest IH]; intros set W ND HF.
  - exists set. split; [reflexivity|]. constructor.
    + exact W.
    + intros [H|H]; [congruence|exact H].
    + reflexivity.
    + auto.
    + intros v Hv. exists v. split; [intros y _; reflexivity|exact Hv].
    + intros w1 w2 H _ _ y. apply H. intros [].
    + intros z _ H. exact H.
  - inversion ND as [|? ? Hnotin ND']; subst. inversion HF as [|? ? Hx HF']; subst.
    cbn [r_pick].
    destruct (var_exists_correct set x W Hx) as (ex & Eex & Kex & Nex & Sex). rewrite Eex. cbn [bind].
    destruct (IH ex (canonical_wf _ Kex) ND') as (picked & Ep & [PW PC PN PS PE PU PI]).
    { rewrite Nex. exact HF'. }
    rewrite Ep. cbn [bind].
    destruct (var_pick_correct set x W Hx) as (vp & Evp & Kvp & Nvp & Svp). rewrite Evp. cbn [bind].
    assert (Kp : Canonical picked) by (apply PC; now right).
    destruct (bdd_and_correct picked vp PW (canonical_wf _ Kvp) ltac:(congruence)) as (r & Er & Kr & Nr & Sr).
    exists r. split; [exact Er|].
    (* ex does not depend on x, hence neither does picked *)
    assert (Iex : indep (eval ex) x).
    { intros v c. rewrite !Sex.
      destruct (Bool.bool_dec (v x) c) as [Hc|Hc].
      - f_equal; apply eval_ext; intros y; [now apply upd_id|].
        unfold flipv. rewrite upd_same, upd_upd_same, Hc. reflexivity.
      - rewrite orb_comm. f_equal; apply eval_ext; intros y.
        + unfold flipv. rewrite upd_same, upd_upd_same.
          replace (negb c) with (v x) by (destruct (v x), c; cbn; congruence). now apply upd_id.
        + symmetry. now apply flipv_upd_ne. }
    assert (Ipk : indep (eval picked) x) by (apply PI; assumption).
    constructor.
    + apply Kr.
    + intros _. exact Kr.
    + congruence.
    + intros v Hv. rewrite Sr, Svp in Hv. apply andb_true_iff in Hv. destruct Hv as (_ & Hv).
      apply andb_true_iff in Hv. apply Hv.
    + (* existence *)
      intros v Hv.
      assert (Hex : eval ex v = true) by (rewrite Sex, Hv; reflexivity).
      destruct (PE v Hex) as (w & Hag & Hpw).
      pose proof (PS w Hpw) as Hexw. rewrite Sex in Hexw.
      assert (Hcof : eval set (upd w x false) = true \/
                     (eval set (upd w x false) = false /\ eval set (upd w x true) = true)).
      { rewrite eval_or_flip_cof in Hexw.
        destruct (eval set (upd w x false)); [now left|right; split; [reflexivity|exact Hexw]]. }
      destruct Hcof as [H0|(H0 & H1)].
      * exists (upd w x false). split.
        -- intros y Hy. rewrite upd_other by (intros ->; apply Hy; now left).
           apply Hag. intros Hin. apply Hy. now right.
        -- rewrite Sr, Svp, Ipk, Hpw, H0, upd_same. reflexivity.
      * exists (upd w x true). split.
        -- intros y Hy. rewrite upd_other by (intros ->; apply Hy; now left).
           apply Hag. intros Hin. apply Hy. now right.
        -- rewrite Sr, Svp, Ipk, Hpw, H1, upd_same.
           replace (eval set (upd (upd w x true) x false)) with (eval set (upd w x false))
             by (apply eval_ext; intros y; symmetry; apply upd_upd_same).
           rewrite H0. reflexivity.
    + (* uniqueness *)
      intros w1 w2 Hag H1 H2.
      rewrite Sr, Svp in H1, H2.
      apply andb_true_iff in H1. destruct H1 as (P1 & H1). apply andb_true_iff in H1. destruct H1 as (S1 & N1).
      apply andb_true_iff in H2. destruct H2 as (P2 & H2). apply andb_true_iff in H2. destruct H2 as (S2 & N2).
      assert (Hrest : forall y, y <> x -> w1 y = w2 y).
      { intros y Hy.
        assert (P1' : eval picked (upd w1 x (w2 x)) = true) by (rewrite Ipk; exact P1).
        rewrite <- (PU (upd w1 x (w2 x)) w2) with (y := y); try assumption.
        - now rewrite upd_other.
        - intros y' Hy'. destruct (N.eq_dec y' x) as [->|Hne]; [apply upd_same|].
          rewrite upd_other by assumption. apply Hag. intros [Hin|Hin]; [congruence|contradiction]. }
      intros y. destruct (N.eq_dec y x) as [->|Hne]; [|now apply Hrest].
      destruct (w1 x) eqn:A, (w2 x) eqn:B; try reflexivity; exfalso.
      * (* w1 x = true, w2 x = false: w1[x:=0] = w2 is in set *)
        cbn [andb] in N1. apply negb_true_iff in N1.
        assert (Q : eval set (upd w1 x false) = eval set w2); [|congruence].
        apply eval_ext. intros y. unfold upd.
        destruct (N.eqb_spec y x) as [->|Hy]; [congruence|now apply Hrest].
      * cbn [andb] in N2. apply negb_true_iff in N2.
        assert (Q : eval set (upd w2 x false) = eval set w1); [|congruence].
        apply eval_ext. intros y. unfold upd.
        destruct (N.eqb_spec y x) as [->|Hy]; [congruence|symmetry; now apply Hrest].
    + (* independence is preserved *)
      intros z Hz Iz v c.
      assert (Hzx : x <> z) by (intros ->; apply Hz; now left).
      assert (Hzr : ~ In z rest) by (intros H; apply Hz; now right).
      assert (Iexz : indep (eval ex) z).
      { intros v' c'. rewrite !Sex, Iz. f_equal.
        rewrite <- (Iz (flipv v' x) c'). apply eval_ext. intros y. now apply flipv_upd_comm. }
      rewrite !Sr, !Svp, (PI z Hzr Iexz), Iz. rewrite upd_other by congruence.
      f_equal. f_equal. f_equal. f_equal.
      rewrite <- (Iz (upd v x false) c). apply eval_ext. intros y. apply upd_comm. congruence.
Qed.

(* G. pick *)
Theorem pick_correct b vars : wf b -> NoDup vars -> Forall (fun x => x < nvars b) vars ->
  exists r, pick b vars = Ok r /\ wf r /\ (vars <> [] \/ Canonical b -> Canonical r) /\ nvars r = nvars b /\
    (forall v, eval r v = true -> eval b v = true) /\
    (forall v, eval b v = true -> exists w, agree_outside vars w v /\ eval r w = true) /\
    (forall v w1 w2, agree_outside vars w1 v -> agree_outside vars w2 v ->
       eval r w1 = true -> eval r w2 = true -> forall y, In y vars -> w1 y = w2 y).
Proof.
  intros W ND HF. unfold pick.
  pose proof (rev_sort_perm vars) as P.
  assert (Hin : forall y, In y (rev (sort_vars vars)) <-> In y vars).
  { intros y. split; [apply Permutation_in; now apply Permutation_sym|now apply Permutation_in]. }
  destruct (r_pick_ok (rev (sort_vars vars)) b W) as (r & E & [PW PC PN PS PE PU PI]).
  { eapply Permutation_NoDup; eassumption. }
  { apply Forall_forall. intros y Hy. rewrite Forall_forall in HF. apply HF. now apply Hin. }
  exists r. split; [exact E|]. split; [exact PW|]. split; [|split; [exact PN|split; [exact PS|split]]].
  - intros [H|H]; apply PC; [left|now right].
    intros Hnil. apply H. apply Permutation_nil. rewrite <- Hnil. apply Permutation_sym. exact P.
  - intros v Hv. destruct (PE v Hv) as (w & Hag & Hw). exists w. split; [|exact Hw].
    intros y Hy. apply Hag. rewrite Hin. exact Hy.
  - intros v w1 w2 A1 A2 H1 H2 y _. apply PU; try assumption.
    intros y' Hy'. rewrite Hin in Hy'. rewrite (A1 y' Hy'), (A2 y' Hy'). reflexivity.
Qed.
Print Assumptions pick_correct.

(* the picked relation is functional: two picked valuations that agree outside vars are equal everywhere *)
Corollary pick_functional b vars : wf b -> NoDup vars -> Forall (fun x => x < nvars b) vars ->
  exists r, pick b vars = Ok r /\
    forall w1 w2, (forall y, ~ In y vars -> w1 y = w2 y) -> eval r w1 = true -> eval r w2 = true ->
      forall y, w1 y = w2 y.
Proof.
  intros W ND HF. destruct (pick_correct b vars W ND HF) as (r & E & _ & _ & _ & _ & _ & U).
  exists r. split; [exact E|]. intros w1 w2 A H1 H2 y.
  destruct (in_dec N.eq_dec y vars) as [Hy|Hy]; [|now apply A].
  apply (U w2 w1 w2); try assumption. intros y' _. reflexivity.
Qed.
Print Assumptions pick_functional.

(* concrete instance: b = x0 \/ x1 over 3 variables; picking {x1,x0} keeps the single witness x0=0,x1=1
   for every value of x2 *)
Example pick_example :
  let b := [mkNode 3 0 0; mkNode 3 1 1; mkNode 1 0 1; mkNode 0 2 1] in
  wfb b = true /\
  pick b [1; 0] = Ok [mkNode 3 0 0; mkNode 3 1 1; mkNode 1 0 1; mkNode 0 2 0].
Proof. vm_compute. split; reflexivity. Qed.
