(* Proofs/SubstituteSem.v — the step-faithful model of Bdd::substitute (Model/Substitute.v): it never panics on
   well-formed operands over the same variable count below the u16 maximum, returns a well-formed diagram of
   `v |-> f (v[x := g v])`, and returns the same array as the compositional model `Ops.substitute` (C07). *)
From Coq Require Import List PeanoNat NArith Lia Bool.
Import ListNotations.
From BddVerif Require Import Model.Bdd Model.Apply Model.Ops Model.Count Model.Rename Model.Nested Model.Substitute
  Proofs.Sem Proofs.Canon Proofs.ApplyTop Proofs.QuantSem Proofs.RelSem Proofs.CountSupport
  Proofs.RenameSem Proofs.RenameOps Proofs.NestedSem.
Open Scope N_scope.

(* ======================================================================================== *)
(* A. the finite maps of the unsafe path                                                      *)

Definition shift_pairs (l : list N) : list (N * N) := map (fun v => (v, v + 1)) l.

Lemma shift_permutation_ok vars x : (forall v, In v vars -> v + 1 <= u16_max) ->
  shift_permutation vars x = Ok (shift_pairs (filter (fun v => x <=? v) vars)).
Proof.
  induction vars as [|a l IH]; intros H; [reflexivity|]. cbn [shift_permutation filter].
  assert (Hl : forall v, In v l -> v + 1 <= u16_max) by (intros v Hv; apply H; now right).
  destruct (x <=? a).
  - destruct (N.ltb_spec u16_max (a + 1)) as [Hc|_]; [specialize (H a ltac:(now left)); lia|].
    rewrite IH by exact Hl. reflexivity.
  - now apply IH.
Qed.

Lemma shift_permutation_no_fuel vars x : shift_permutation vars x <> OutOfFuel.
Proof.
  induction vars as [|a l IH]; cbn [shift_permutation]; [discriminate|].
  destruct (x <=? a); [|exact IH]. destruct (u16_max <? a + 1); [discriminate|].
  destruct (shift_permutation l x); cbn [bind]; [discriminate|discriminate|congruence].
Qed.

Lemma map_get_shift l y : map_get (shift_pairs l) y = if mem y l then Some (y + 1) else None.
Proof.
  unfold shift_pairs, mem. induction l as [|a l IH]; [reflexivity|]. cbn [map map_get existsb].
  rewrite (N.eqb_sym y a). destruct (N.eqb_spec a y) as [E|NE]; [rewrite E; reflexivity|]. cbn [orb]. exact IH.
Qed.

Lemma map_get_remove m k y : map_get (map_remove m k) y = if y =? k then None else map_get m y.
Proof.
  unfold map_remove. induction m as [|[a b] m IH]; [now destruct (y =? k)|].
  cbn [filter fst]. destruct (N.eqb_spec a k) as [E|NE]; cbn [negb].
  - rewrite IH. cbn [map_get]. destruct (N.eqb_spec y k) as [E2|NE]; [reflexivity|].
    destruct (N.eqb_spec a y); [congruence|reflexivity].
  - cbn [map_get]. rewrite IH. destruct (N.eqb_spec a y) as [E2|NE2]; [|reflexivity].
    destruct (N.eqb_spec y k); [congruence|reflexivity].
Qed.

Lemma remove_shift_pairs l k : map_remove (shift_pairs l) k = shift_pairs (filter (fun v => negb (v =? k)) l).
Proof.
  unfold map_remove, shift_pairs. induction l as [|a l IH]; [reflexivity|]. cbn [map filter fst].
  destruct (negb (a =? k)); cbn [map]; now rewrite IH.
Qed.

Lemma reverse_shift_pairs l : map_reverse (shift_pairs l) = map (fun v => (v + 1, v)) l.
Proof. unfold map_reverse, shift_pairs. rewrite map_map. reflexivity. Qed.

Lemma map_get_unshift l z : map_get (map (fun v => (v + 1, v)) l) z = if (0 <? z) && mem (z - 1) l then Some (z - 1) else None.
Proof.
  unfold mem. induction l as [|a l IH]; [now rewrite andb_false_r|]. cbn [map map_get existsb].
  destruct (N.eqb_spec (a + 1) z) as [E|NE].
  - subst z. replace (a + 1 - 1) with a by lia. rewrite N.eqb_refl. cbn [orb].
    destruct (N.ltb_spec 0 (a + 1)); [reflexivity|lia].
  - rewrite IH. destruct (N.ltb_spec 0 z) as [Hz|Hz]; cbn [andb]; [|reflexivity].
    destruct (N.eqb_spec (z - 1) a); [lia|reflexivity].
Qed.

Lemma fold_insert_uniq_in l y : In y (fold_right insert_uniq [] l) <-> In y l.
Proof.
  induction l as [|a l IH]; cbn [fold_right]; [tauto|]. rewrite insert_uniq_in, IH. cbn. intuition.
Qed.

Lemma union_sorted_in f g y : In y (union_sorted f g) <-> in_support f y \/ in_support g y.
Proof. unfold union_sorted, in_support. rewrite fold_insert_uniq_in. apply in_app_iff. Qed.

(* ======================================================================================== *)
(* B. supports and semantics of the renaming steps                                            *)

Lemma support_relabel h n' b : support (relabel h n' b) = map h (support b).
Proof.
  unfold support, relabel. destruct b as [|z [|o rest]]; [reflexivity|reflexivity|].
  cbn [firstn skipn map app]. rewrite !map_map. reflexivity.
Qed.

Lemma in_support_relabel h n' b z : in_support (relabel h n' b) z <-> exists y, in_support b y /\ z = h y.
Proof.
  unfold in_support. rewrite support_relabel, in_map_iff. split; intros (y & A & B).
  - exists y. split; [exact B|now symmetry].
  - exists y. split; [now symmetry|exact A].
Qed.

Lemma eval_agree_support b v w : wf b -> (forall y, in_support b y -> v y = w y) -> eval b v = eval b w.
Proof.
  intros W H. apply eval_agree_nodes; [exact W|]. intros q Hq Hlt. apply H. now apply support_in.
Qed.

Lemma in_support_mem b y : in_support b y <-> mem y (support b) = true.
Proof. unfold in_support. symmetry. apply mem_spec. Qed.

(* rename_variables succeeds when the map acts on the support like a strictly increasing function within range *)
Lemma rename_ok b m (h : N -> N) : wf b ->
  (forall y, in_support b y -> apply_map m y = h y) ->
  (forall y z, in_support b y -> in_support b z -> y < z -> h y < h z) ->
  (forall y, in_support b y -> h y < nvars b) ->
  exists r, rename_variables b m = Ok r /\ r = relabel (apply_map m) (nvars b) b /\ wf r /\ nvars r = nvars b /\
    (forall v, eval r v = eval b (fun y => v (h y))) /\ (Canonical b -> Canonical r).
Proof.
  intros W A M R. destruct (rename_variables_ok_or_panic b m W) as [P|(r & E & Wr & Nr & S & _ & C)].
  - exfalso. apply (rename_variables_panic_iff b m W) in P.
    destruct P as [(y & Hy & Hge)|(y & z & Hy & Hz & Hlt & Hge)].
    + rewrite (A y Hy) in Hge. specialize (R y Hy). lia.
    + rewrite (A y Hy), (A z Hz) in Hge. specialize (M y z Hy Hz Hlt). lia.
  - exists r. split; [exact E|]. destruct (rename_variables_relabel b m r W E) as (Er & _ & _).
    split; [exact Er|]. split; [exact Wr|]. split; [exact Nr|]. split; [|exact C].
    intros v. rewrite S. apply eval_agree_support; [exact W|]. intros y Hy. now rewrite (A y Hy).
Qed.

Lemma set_num_vars_ok b n : wf b -> (forall y, in_support b y -> y < n) ->
  exists r, set_num_vars b n = Ok r /\ r = relabel (fun y => y) n b /\ wf r /\ nvars r = n /\
    (forall v, eval r v = eval b v) /\ (Canonical b -> Canonical r).
Proof.
  intros W R. destruct (set_num_vars_ok_or_panic b n W) as [P|(r & E & Wr & Nr & S & _ & C)].
  - exfalso. apply (set_num_vars_panic_iff b n W) in P. destruct P as (y & Hy & Hge). specialize (R y Hy). lia.
  - exists r. split; [exact E|]. destruct (set_num_vars_relabel b n r W E) as (Er & _).
    split; [exact Er|]. split; [exact Wr|]. split; [exact Nr|]. split; [exact S|exact C].
Qed.

Lemma in_support_relabel_id n' b z : in_support (relabel (fun y => y) n' b) z <-> in_support b z.
Proof.
  rewrite in_support_relabel. split; [intros (y & Hy & ->); exact Hy|intros H; exists z; split; [exact H|reflexivity]].
Qed.

(* ======================================================================================== *)
(* C. `exists p. (F /\ (p <=> G))` evaluated pointwise when G does not depend on p             *)

Lemma exists_iff_point (F G : val -> bool) p v :
  ext_fun F -> ext_fun G -> (forall w c, G (upd w p c) = G w) ->
  ((exists w, (forall y, ~ In y [p] -> w y = v y) /\
      bop_of op_and (F w) (bop_of op_iff (Bool.eqb (w p) true) (G w)) = true)
   <-> F (upd v p (G v)) = true).
Proof.
  intros EF EG IG. destruct and_table_ok as (_ & _ & Band). destruct iff_table_ok as (_ & _ & Biff). split.
  - intros (w & A & H). rewrite Band, Biff in H. apply andb_true_iff in H. destruct H as (HF & HG).
    assert (Ew : forall y, w y = upd v p (w p) y).
    { intros y. unfold upd. destruct (N.eqb_spec y p) as [->|NE]; [reflexivity|]. apply A. intros [E|[]]. congruence. }
    assert (Gw : G w = G v) by (rewrite (EG w _ Ew); apply IG).
    assert (Wp : w p = G v) by (rewrite <- Gw; destruct (w p), (G w); cbn in HG; congruence).
    rewrite <- HF. apply EF. intros y. rewrite Ew, Wp. reflexivity.
  - intros H. exists (upd v p (G v)). split.
    + intros y Hy. apply upd_other. intros E. apply Hy. now left.
    + rewrite Band, Biff, H, upd_same, IG. destruct (G v); reflexivity.
Qed.

(* ======================================================================================== *)
(* D. the safe path                                                                           *)

Lemma safe_path f x g : wf f -> wf g -> nvars f = nvars g -> x < nvars f -> mem x (support g) = false ->
  exists r, bind (binary_op (mk_literal (nvars f) x true) g op_iff)
              (fun iff => binary_op_with_exists_faithful f iff op_and [x]) = Ok r /\
    Canonical r /\ nvars r = nvars f /\ forall v, eval r v = eval f (upd v x (eval g v)).
Proof.
  intros Wf Wg NV Hx Mg.
  destruct iff_table_ok as (Ti & Ci & _). destruct and_table_ok as (Ta & Ca & _).
  pose proof (mk_literal_wf (nvars f) x true Hx) as Wl.
  destruct (binary_op_correct _ g op_iff Wl Wg ltac:(rewrite mk_literal_nvars; exact NV) Ti Ci) as (i & Ei & Ki & Ni & Si).
  rewrite Ei. cbn [bind]. rewrite mk_literal_nvars in Ni.
  rewrite (binary_op_with_exists_faithful_eq f i op_and [x] Wf (canonical_wf _ Ki) ltac:(congruence) Ta Ca).
  destruct (binary_op_with_exists_correct f i op_and [x] Wf (canonical_wf _ Ki) ltac:(congruence) Ta Ca)
    as (r & Er & Kr & _ & Nr & Sr).
  exists r. split; [exact Er|]. split; [exact Kr|]. split; [exact Nr|].
  intros v. apply bool_eq_of_iff. rewrite Sr.
  rewrite <- (exists_iff_point (eval f) (eval g) x v (eval_ext_fun f Wf) (eval_ext_fun g Wg)
                (fun w c => eval_not_support g x w c Wg Mg)).
  split; intros (w & A & H); exists w; (split; [exact A|]).
  - rewrite Si, mk_literal_eval in H by exact Hx. exact H.
  - rewrite Si, mk_literal_eval by exact Hx. exact H.
Qed.

(* ======================================================================================== *)
(* E. the unsafe path                                                                         *)

Section Unsafe.
  Variables (f g : bdd) (x : N).
  Hypothesis Wf : wf f.
  Hypothesis Wg : wf g.
  Hypothesis NV : nvars f = nvars g.
  Hypothesis Hn : nvars f < u16_max.
  Hypothesis Mf : in_support f x.

  Let n := nvars f.
  Let U := union_sorted f g.
  (* the shift applied to `self` (x moves to the proxy x+1) and the one applied to `function` (x stays) *)
  Definition sh (y : N) : N := if x <=? y then y + 1 else y.
  Definition sh' (y : N) : N := if x <? y then y + 1 else y.
  Let perm := shift_pairs (filter (fun v => x <=? v) U).
  Let perm' := map_remove perm x.
  Let rperm := map_reverse perm'.
  (* the function the result must denote *)
  Let S (w : val) : bool := eval f (upd w x (eval g w)).

  Lemma U_f y : in_support f y -> In y U.
  Proof. intros H. apply union_sorted_in. now left. Qed.
  Lemma U_g y : in_support g y -> In y U.
  Proof. intros H. apply union_sorted_in. now right. Qed.
  Lemma U_lt y : In y U -> y < n.
  Proof.
    intros H. apply union_sorted_in in H. destruct H as [H|H]; [now apply support_lt|].
    unfold n. rewrite NV. now apply support_lt.
  Qed.
  Lemma U_x : In x U. Proof. now apply U_f. Qed.

  Lemma perm_ok : shift_permutation U x = Ok perm.
  Proof. apply shift_permutation_ok. intros v Hv. apply U_lt in Hv. unfold n in Hv. lia. Qed.

  Lemma mem_filter_ge y : mem y (filter (fun v => x <=? v) U) = true <-> In y U /\ x <= y.
  Proof. rewrite mem_spec, filter_In, N.leb_le. reflexivity. Qed.

  Lemma perm_at y : In y U -> apply_map perm y = sh y.
  Proof.
    intros Hy. unfold apply_map, perm, sh. rewrite map_get_shift.
    destruct (mem y (filter (fun v => x <=? v) U)) eqn:E.
    - apply mem_filter_ge in E. destruct E as (_ & E). apply N.leb_le in E. now rewrite E.
    - destruct (N.leb_spec x y) as [Hle|]; [|reflexivity].
      assert (mem y (filter (fun v => x <=? v) U) = true) by (apply mem_filter_ge; split; assumption). congruence.
  Qed.

  Lemma perm_x : map_get perm x = Some (x + 1).
  Proof.
    unfold perm. rewrite map_get_shift.
    assert (E : mem x (filter (fun v => x <=? v) U) = true) by (apply mem_filter_ge; split; [exact U_x|lia]).
    now rewrite E.
  Qed.

  Lemma perm'_at y : In y U -> apply_map perm' y = sh' y.
  Proof.
    intros Hy. unfold apply_map, perm'. rewrite map_get_remove. unfold sh'.
    destruct (N.eqb_spec y x) as [E|NE].
    - subst y. destruct (N.ltb_spec x x); [lia|reflexivity].
    - pose proof (perm_at y Hy) as P. unfold apply_map in P. rewrite P. unfold sh.
      destruct (N.leb_spec x y), (N.ltb_spec x y); try reflexivity; lia.
  Qed.

  Lemma rperm_eq : rperm = map (fun v => (v + 1, v)) (filter (fun v => negb (v =? x)) (filter (fun v => x <=? v) U)).
  Proof. unfold rperm, perm', perm. rewrite remove_shift_pairs, reverse_shift_pairs. reflexivity. Qed.

  Lemma mem_filter_gt y : mem y (filter (fun v => negb (v =? x)) (filter (fun v => x <=? v) U)) = true <-> In y U /\ x < y.
  Proof.
    rewrite mem_spec, !filter_In, N.leb_le, negb_true_iff, N.eqb_neq. split; [intros ((A & B) & C)|intros (A & B)].
    - split; [exact A|lia].
    - split; [split; [exact A|lia]|lia].
  Qed.

  (* the reversed permutation undoes the shift of `function` on the union of the supports *)
  Lemma rperm_at u : In u U -> apply_map rperm (sh' u) = u.
  Proof.
    intros Hu. unfold apply_map. rewrite rperm_eq, map_get_unshift. unfold sh'.
    destruct (N.ltb_spec x u) as [Hlt|Hge].
    - replace (u + 1 - 1) with u by lia.
      assert (E : mem u (filter (fun v => negb (v =? x)) (filter (fun v => x <=? v) U)) = true)
        by (apply mem_filter_gt; split; assumption).
      rewrite E. destruct (N.ltb_spec 0 (u + 1)); [reflexivity|lia].
    - destruct (N.ltb_spec 0 u) as [Hp|Hz]; cbn [andb]; [|reflexivity].
      destruct (mem (u - 1) (filter (fun v => negb (v =? x)) (filter (fun v => x <=? v) U))) eqn:E; [|reflexivity].
      apply mem_filter_gt in E. lia.
  Qed.

  Lemma sh'_mono y z : y < z -> sh' y < sh' z.
  Proof. unfold sh'. intros H. destruct (N.ltb_spec x y), (N.ltb_spec x z); lia. Qed.
  Lemma sh'_mono_inv y z : sh' y < sh' z -> y < z.
  Proof. unfold sh'. destruct (N.ltb_spec x y), (N.ltb_spec x z); lia. Qed.
  Lemma sh_mono y z : y < z -> sh y < sh z.
  Proof. unfold sh. intros H. destruct (N.leb_spec x y), (N.leb_spec x z); lia. Qed.
  Lemma sh'_proxy y : sh' y <> x + 1.
  Proof. unfold sh'. destruct (N.ltb_spec x y); lia. Qed.

  Lemma S_agree w w' : (forall u, In u U -> w u = w' u) -> S w = S w'.
  Proof.
    intros H. unfold S.
    assert (E : eval g w = eval g w') by (apply eval_agree_support; [exact Wg|]; intros y Hy; apply H; now apply U_g).
    rewrite E. apply eval_agree_support; [exact Wf|]. intros y Hy. unfold upd.
    destruct (y =? x); [reflexivity|]. apply H. now apply U_f.
  Qed.

  Theorem unsafe_path : mem x (support g) = true ->
    exists r, substitute_faithful f x g = Ok r /\ Canonical r /\ nvars r = nvars f /\
      forall v, eval r v = eval f (upd v x (eval g v)).
  Proof.
    intros Mg. unfold substitute_faithful.
    rewrite (proj1 (in_support_mem f x) Mf), Mg. cbn [negb].
    fold U. rewrite perm_ok. cbn [bind].
    (* checked_add on self *)
    assert (Cs : checked_succ (nvars f) = Ok (n + 1)).
    { unfold checked_succ. fold n. destruct (N.ltb_spec u16_max (n + 1)); [unfold n in *; lia|reflexivity]. }
    rewrite Cs. cbn [bind].
    (* self_copy.set_num_vars; rename_variables *)
    destruct (set_num_vars_ok f (n + 1) Wf) as (f1 & E1 & R1 & W1 & N1 & S1 & _).
    { intros y Hy. pose proof (support_lt f y Wf Hy). unfold n. lia. }
    rewrite E1. cbn [bind].
    assert (Sup1 : forall y, in_support f1 y <-> in_support f y) by (intros y; rewrite R1; apply in_support_relabel_id).
    destruct (rename_ok f1 perm sh W1) as (f2 & E2 & _ & W2 & N2 & S2 & _).
    { intros y Hy. apply perm_at, U_f, Sup1, Hy. }
    { intros y z _ _. apply sh_mono. }
    { intros y Hy. apply Sup1 in Hy. pose proof (support_lt f y Wf Hy). rewrite N1. unfold sh, n.
      destruct (x <=? y); lia. }
    rewrite E2. cbn [bind]. rewrite perm_x. fold perm'.
    (* the same for `function` *)
    assert (Cg : checked_succ (nvars g) = Ok (n + 1)) by (rewrite <- NV; exact Cs).
    rewrite Cg. cbn [bind].
    destruct (set_num_vars_ok g (n + 1) Wg) as (g1 & Eg1 & Rg1 & Wg1 & Ng1 & Sg1 & _).
    { intros y Hy. pose proof (support_lt g y Wg Hy). unfold n. lia. }
    rewrite Eg1. cbn [bind].
    assert (Supg1 : forall y, in_support g1 y <-> in_support g y) by (intros y; rewrite Rg1; apply in_support_relabel_id).
    destruct (rename_ok g1 perm' sh' Wg1) as (g2 & Eg2 & _ & Wg2 & Ng2 & Sg2 & _).
    { intros y Hy. apply perm'_at, U_g, Supg1, Hy. }
    { intros y z _ _. apply sh'_mono. }
    { intros y Hy. apply Supg1 in Hy. pose proof (support_lt g y Wg Hy). rewrite Ng1. unfold sh', n.
      destruct (x <? y); lia. }
    rewrite Eg2. cbn [bind].
    (* iff with the proxy literal, nested apply *)
    assert (Nf2 : nvars f2 = n + 1) by congruence.
    assert (Ngg2 : nvars g2 = n + 1) by congruence.
    assert (Hp : x + 1 < n + 1).
    { pose proof (support_lt f x Wf Mf). unfold n. lia. }
    rewrite Nf2.
    destruct iff_table_ok as (Ti & Ci & _). destruct and_table_ok as (Ta & Ca & _).
    pose proof (mk_literal_wf (n + 1) (x + 1) true Hp) as Wl.
    destruct (binary_op_correct _ g2 op_iff Wl Wg2 ltac:(rewrite mk_literal_nvars; congruence) Ti Ci) as (i & Ei & Ki & Ni & Si).
    rewrite Ei. cbn [bind]. rewrite mk_literal_nvars in Ni.
    rewrite (binary_op_with_exists_faithful_eq f2 i op_and [x + 1] W2 (canonical_wf _ Ki) ltac:(congruence) Ta Ca).
    destruct (binary_op_with_exists_correct f2 i op_and [x + 1] W2 (canonical_wf _ Ki) ltac:(congruence) Ta Ca)
      as (e & Ee & Ke & We & Ne & Se).
    rewrite Ee. cbn [bind].
    (* semantics of the quantified diagram *)
    assert (Ig2 : forall w c, eval g2 (upd w (x + 1) c) = eval g2 w).
    { intros w c. rewrite !Sg2, !Sg1. apply RelSem.eval_ext. intros y. apply upd_other. apply sh'_proxy. }
    assert (Sem_e : forall v, eval e v = S (fun y => v (sh' y))).
    { intros v. transitivity (eval f2 (upd v (x + 1) (eval g2 v))).
      - apply bool_eq_of_iff. rewrite Se.
        rewrite <- (exists_iff_point (eval f2) (eval g2) (x + 1) v (eval_ext_fun f2 W2) (eval_ext_fun g2 Wg2) Ig2).
        split; intros (w & A & H); exists w; (split; [exact A|]).
        + rewrite Si, mk_literal_eval in H by exact Hp. exact H.
        + rewrite Si, mk_literal_eval by exact Hp. exact H.
      - rewrite S2, S1, Sg2, Sg1. unfold S. apply RelSem.eval_ext. intros y. unfold upd, sh, sh'.
        destruct (N.eqb_spec y x) as [E|NE].
        + subst y. destruct (N.leb_spec x x); [|lia]. now rewrite N.eqb_refl.
        + destruct (N.leb_spec x y), (N.ltb_spec x y); try lia.
          * destruct (N.eqb_spec (y + 1) (x + 1)); [lia|reflexivity].
          * destruct (N.eqb_spec y (x + 1)); [lia|reflexivity]. }
    (* the support of the quantified diagram lies in the image of the union under sh' *)
    assert (Sup_e : forall z, in_support e z -> exists u, In u U /\ z = sh' u).
    { intros z Hz. destruct (in_dec N.eq_dec z (map sh' U)) as [I|NI].
      - apply in_map_iff in I. destruct I as (u & Eu & Hu). exists u. split; [exact Hu|now symmetry].
      - exfalso. assert (Hs : In z (support_set e)) by (apply support_set_in; exact Hz).
        apply (support_exact e z Ke) in Hs. destruct Hs as (v & Hv). apply Hv.
        rewrite !Sem_e. apply S_agree. intros u Hu. unfold flipv. symmetry. apply upd_other.
        intros E. apply NI. rewrite <- E. now apply in_map. }
    (* rename back *)
    fold rperm.
    destruct (rename_ok e rperm (apply_map rperm) We) as (e2 & Ee2 & Re2 & We2 & Ne2 & Se2 & Ce2).
    { reflexivity. }
    { intros y z Hy Hz Hlt. destruct (Sup_e y Hy) as (u1 & Hu1 & ->). destruct (Sup_e z Hz) as (u2 & Hu2 & ->).
      rewrite !rperm_at by assumption. now apply sh'_mono_inv. }
    { intros y Hy. destruct (Sup_e y Hy) as (u & Hu & ->). rewrite rperm_at by exact Hu.
      apply U_lt in Hu. rewrite Ne. rewrite Nf2. lia. }
    rewrite Ee2. cbn [bind].
    assert (Nn : nvars e2 - 1 = n) by (rewrite Ne2, Ne, Nf2; lia).
    rewrite Nn.
    destruct (set_num_vars_ok e2 n We2) as (e3 & Ee3 & _ & We3 & Ne3 & Se3 & Ce3).
    { intros z Hz. rewrite Re2 in Hz. apply in_support_relabel in Hz. destruct Hz as (y & Hy & ->).
      destruct (Sup_e y Hy) as (u & Hu & ->). rewrite rperm_at by exact Hu. now apply U_lt. }
    exists e3. split; [exact Ee3|]. split; [exact (Ce3 (Ce2 Ke))|]. split; [exact Ne3|].
    intros v. rewrite Se3, Se2, Sem_e. change (eval f (upd v x (eval g v))) with (S v).
    apply S_agree. intros u Hu. now rewrite rperm_at.
  Qed.
End Unsafe.

(* ======================================================================================== *)
(* F. the three theorems                                                                      *)

(* all three paths at once; when x is in the support of f the result is moreover canonical *)
Lemma substitute_faithful_full f x g : wf f -> wf g -> nvars f = nvars g -> x < nvars f -> nvars f < 65535 ->
  exists r, substitute_faithful f x g = Ok r /\ wf r /\ nvars r = nvars f /\
    (forall v, eval r v = eval f (upd v x (eval g v))) /\ (mem x (support f) = true -> Canonical r).
Proof.
  intros Wf Wg NV Hx Hn. destruct (mem x (support f)) eqn:Mf.
  - destruct (mem x (support g)) eqn:Mg.
    + destruct (unsafe_path f g x Wf Wg NV Hn (proj2 (in_support_mem f x) Mf) Mg) as (r & E & K & Nr & S).
      exists r. split; [exact E|]. split; [apply K|]. split; [exact Nr|]. split; [exact S|intros _; exact K].
    + destruct (safe_path f x g Wf Wg NV Hx Mg) as (r & E & K & Nr & S).
      exists r. unfold substitute_faithful. rewrite Mf, Mg. cbn [negb].
      split; [exact E|]. split; [apply K|]. split; [exact Nr|]. split; [exact S|intros _; exact K].
  - exists f. unfold substitute_faithful. rewrite Mf. cbn [negb].
    split; [reflexivity|]. split; [exact Wf|]. split; [reflexivity|]. split; [|discriminate].
    intros v. symmetry. now apply eval_not_support.
Qed.

(* C07, second sentence, about the library's own algorithm: never a panic, and the result denotes
   v |-> f (v[x := g v]) — also when g depends on x *)
Theorem substitute_faithful_correct f x g : wf f -> wf g -> nvars f = nvars g -> x < nvars f -> nvars f < 65535 ->
  exists r, substitute_faithful f x g = Ok r /\ wf r /\ nvars r = nvars f /\
    forall v, eval r v = eval f (upd v x (eval g v)).
Proof.
  intros Wf Wg NV Hx Hn. destruct (substitute_faithful_full f x g Wf Wg NV Hx Hn) as (r & E & W & Nr & S & _).
  exists r. split; [exact E|]. split; [exact W|]. split; [exact Nr|exact S].
Qed.
Print Assumptions substitute_faithful_correct.

(* the library's algorithm and the compositional Shannon model return the same array *)
Theorem substitute_faithful_eq_model f x g : wf f -> wf g -> nvars f = nvars g -> x < nvars f -> nvars f < 65535 ->
  substitute_faithful f x g = substitute f x g.
Proof.
  intros Wf Wg NV Hx Hn. destruct (mem x (support f)) eqn:Mf.
  - destruct (substitute_faithful_full f x g Wf Wg NV Hx Hn) as (r & E & W & Nr & S & K).
    destruct (substitute_correct f x g Wf Wg NV Hx) as (r' & E' & W' & Nr' & S').
    pose proof (substitute_canonical f x g r' Wf Wg NV Hx E' (or_intror Mf)) as K'.
    rewrite E, E'. f_equal. apply canonical_unique; [exact (K Mf)|exact K'|congruence|].
    intros v. now rewrite S, S'.
  - unfold substitute_faithful, substitute. rewrite Mf. reflexivity.
Qed.
Print Assumptions substitute_faithful_eq_model.

(* the documented limit: with the maximal variable count the proxy variable cannot be created *)
Theorem substitute_faithful_panic_bound f x g : 65535 <= nvars f ->
  mem x (support f) = true -> mem x (support g) = true -> substitute_faithful f x g = Panic.
Proof.
  intros Hn Mf Mg. unfold substitute_faithful. rewrite Mf, Mg. cbn [negb].
  destruct (shift_permutation (union_sorted f g) x) as [perm| |] eqn:E; cbn [bind]; [|reflexivity|].
  - unfold checked_succ. destruct (N.ltb_spec u16_max (nvars f + 1)) as [_|H]; [reflexivity|].
    unfold u16_max in H. lia.
  - exfalso. exact (shift_permutation_no_fuel _ _ E).
Qed.
Print Assumptions substitute_faithful_panic_bound.

(* concrete instances: f = x0 \/ x1 over 3 variables, g = x0 /\ x2 (depends on the substituted variable x0) *)
Example substitute_faithful_example :
  let f := [mkNode 3 0 0; mkNode 3 1 1; mkNode 1 0 1; mkNode 0 2 1] in
  let g := [mkNode 3 0 0; mkNode 3 1 1; mkNode 2 0 1; mkNode 0 0 2] in
  wfb f = true /\ wfb g = true /\
  mem 0 (support f) = true /\ mem 0 (support g) = true /\
  substitute_faithful f 0 g = substitute f 0 g /\
  substitute_faithful f 0 g =
    Ok [mkNode 3 0 0; mkNode 3 1 1; mkNode 2 0 1; mkNode 1 2 1; mkNode 1 0 1; mkNode 0 4 3] /\
  substitute_faithful f 1 g = Ok [mkNode 3 0 0; mkNode 3 1 1; mkNode 0 0 1] /\
  substitute_faithful f 2 g = Ok f.
Proof. vm_compute. repeat split; reflexivity. Qed.

(* the limit is reached: 65535 variables, x0 substituted by x0 *)
Example substitute_faithful_limit :
  let f := [mkNode 65535 0 0; mkNode 65535 1 1; mkNode 0 0 1] in
  wfb f = true /\ substitute_faithful f 0 f = Panic /\ substitute f 0 f = Ok f.
Proof. vm_compute. repeat split; reflexivity. Qed.
