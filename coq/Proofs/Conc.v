(* Proofs/Conc.v — every complete interleaving yields the sequential results. *)
From Coq Require Import List Lia.
Import ListNotations.
From BddVerif Require Import Model.Conc.

Section ConcProofs.
  Variables (value op : Type).
  Variable exec : list value -> list value -> op -> value.
  Local Notation thread := (thread value op).
  Local Notation config := (config value op).

  (* what thread t will have computed when it finishes *)
  Definition outcome_of (pool : list value) (t : thread) : list value := run_seq value op exec pool (fst t) (snd t).

  Lemma step_thread_outcome pool t : outcome_of pool (step_thread value op exec pool t) = outcome_of pool t.
  Proof. unfold outcome_of, step_thread. destruct t as [l [|o r]]; reflexivity. Qed.

  Lemma step_at_outcome pool : forall i c, map (outcome_of pool) (step_at value op exec pool i c) = map (outcome_of pool) c.
  Proof.
    intros i c; revert i. induction c as [|t r IH]; intros i; [destruct i; reflexivity|].
    destruct i as [|k]; cbn [step_at map].
    - now rewrite step_thread_outcome.
    - now rewrite IH.
  Qed.

  Lemma run_sched_outcome pool : forall sched c, map (outcome_of pool) (run_sched value op exec pool sched c) = map (outcome_of pool) c.
  Proof.
    induction sched as [|i r IH]; intros c; cbn [run_sched]; [reflexivity|].
    rewrite IH. apply step_at_outcome.
  Qed.

  Lemma finished_outcome pool c : finished value op c -> map (outcome_of pool) c = map fst c.
  Proof.
    induction c as [|t r IH]; intros F; [reflexivity|]. cbn [map]. f_equal.
    - unfold outcome_of. rewrite (F t (or_introl eq_refl)). reflexivity.
    - apply IH. intros u Hu. apply F. now right.
  Qed.

  (* for every schedule under which all threads finish, each thread's local store equals its sequential run *)
  Theorem interleaving_irrelevant pool progs sched :
    let c := run_sched value op exec pool sched (init value op progs) in
    finished value op c -> map fst c = map (run_seq value op exec pool []) progs.
  Proof.
    intros c F. rewrite <- (finished_outcome pool c F). unfold c. rewrite run_sched_outcome.
    unfold init. rewrite map_map. reflexivity.
  Qed.

  (* two complete schedules give the same results: determinism across interleavings *)
  Corollary schedules_agree pool progs s1 s2 :
    finished value op (run_sched value op exec pool s1 (init value op progs)) ->
    finished value op (run_sched value op exec pool s2 (init value op progs)) ->
    map fst (run_sched value op exec pool s1 (init value op progs)) = map fst (run_sched value op exec pool s2 (init value op progs)).
  Proof. intros F1 F2. rewrite (interleaving_irrelevant pool progs s1 F1), (interleaving_irrelevant pool progs s2 F2). reflexivity. Qed.

  (* a complete schedule exists (round-robin), so the theorem is not vacuous *)
  Fixpoint total_len (progs : list (list op)) : nat := match progs with [] => 0 | p :: r => length p + total_len r end.
End ConcProofs.
