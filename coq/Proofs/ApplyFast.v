(* Proofs/ApplyFast.v — the efficient engine of Model/ApplyFast.v computes exactly what the reference
   engine of Model/Apply.v computes: apply2_fast_eq, fused_binary_flip_op_fast_eq (no hypotheses: pure
   data refinement, simulation by induction on the fuel), and the transferred top-level theorems. *)
From Coq Require Import List NArith Lia Bool Arith PeanoNat FMapPositive.
Import ListNotations.
From BddVerif Require Import Model.Bdd Model.Apply Model.ApplyFast Proofs.Sem Proofs.Canon Proofs.ApplySem Proofs.ApplyTop.
Open Scope N_scope.

Module PM := PositiveMap.

(* ------------------------------------------------------------------ *)
(* keys                                                                 *)
Lemma pkey_inj a b : pkey a = pkey b -> a = b.
Proof.
  unfold pkey. intros H. apply N.succ_inj.
  rewrite <- (N.succ_pos_spec a), <- (N.succ_pos_spec b), H. reflexivity.
Qed.

Lemma find_add_key {V} a b (v : V) m :
  PM.find (pkey a) (PM.add (pkey b) v m) = if a =? b then Some v else PM.find (pkey a) m.
Proof.
  destruct (N.eqb_spec a b) as [->|NE].
  - apply PM.gss.
  - apply PM.gso. intros H. apply NE. now apply pkey_inj.
Qed.

(* ------------------------------------------------------------------ *)
(* operands: the loaded map reads like the list                        *)
Lemma aget_empty p : aget (PM.empty node) p = dnode.
Proof. unfold aget. rewrite PM.gempty. reflexivity. Qed.

Lemma aget_add p q n m : aget (PM.add (pkey q) n m) p = if p =? q then n else aget m p.
Proof. unfold aget. rewrite find_add_key. destruct (p =? q); reflexivity. Qed.

Lemma load_spec b : forall i m,
  fst (load b i m) = i + size b /\
  forall p, aget (snd (load b i m)) p =
            if (i <=? p) && (p <? i + size b) then nth (N.to_nat (p - i)) b dnode else aget m p.
Proof.
  induction b as [|n r IH]; intros i m.
  - cbn [load fst snd]. change (size []) with 0. split; [lia|].
    intros p. destruct (N.leb_spec i p), (N.ltb_spec p (i + 0)); cbn [andb]; try reflexivity; lia.
  - cbn [load]. destruct (IH (N.succ i) (PM.add (pkey i) n m)) as (H1 & H2).
    assert (Hs : size (n :: r) = N.succ (size r)) by (unfold size; cbn [length]; lia).
    split; [rewrite H1, Hs; lia|].
    intros p. rewrite H2, Hs, aget_add.
    destruct (N.eqb_spec p i) as [->|NE].
    + destruct (N.leb_spec (N.succ i) i); [lia|]. cbn [andb].
      destruct (N.leb_spec i i); [|lia]. destruct (N.ltb_spec i (i + N.succ (size r))); [|lia]. cbn [andb].
      rewrite N.sub_diag. reflexivity.
    + destruct (N.leb_spec (N.succ i) p) as [L1|L1], (N.leb_spec i p) as [L2|L2]; try lia; cbn [andb].
      * destruct (N.ltb_spec p (N.succ i + size r)), (N.ltb_spec p (i + N.succ (size r))); try lia; [|reflexivity].
        replace (N.to_nat (p - i)) with (S (N.to_nat (p - N.succ i))) by lia. reflexivity.
      * reflexivity.
Qed.

Lemma load_get b : fst (load b 0 (PM.empty node)) = size b /\
                   forall p, aget (snd (load b 0 (PM.empty node))) p = get b p.
Proof.
  destruct (load_spec b 0 (PM.empty node)) as (H1 & H2). split; [rewrite H1; lia|].
  intros p. rewrite H2, aget_empty. unfold get. rewrite N.sub_0_r, N.add_0_l.
  destruct (N.leb_spec 0 p); [|lia]. cbn [andb].
  destruct (N.ltb_spec p (size b)) as [L|L]; [reflexivity|].
  symmetry. apply nth_overflow. unfold size in L. lia.
Qed.

(* ------------------------------------------------------------------ *)
(* memo tables: the maps behave like the association lists             *)
Lemma find2_add2 {V} a b a' b' (v : V) m :
  find2 a b (add2 a' b' v m) = if (a =? a') && (b =? b') then Some v else find2 a b m.
Proof.
  unfold find2, add2. rewrite find_add_key.
  destruct (N.eqb_spec a a') as [->|NE]; cbn [andb]; [|reflexivity].
  rewrite find_add_key. destruct (N.eqb_spec b b') as [->|NE]; [reflexivity|].
  destruct (PM.find (pkey a') m); [reflexivity|]. now rewrite PM.gempty.
Qed.

Lemma find2_empty {V} a b : find2 a b (PM.empty (PM.t V)) = None.
Proof. unfold find2. now rewrite PM.gempty. Qed.

Lemma tfindF_add t t' v m : tfindF t (taddF t' v m) = if task_eqb t t' then Some v else tfindF t m.
Proof. unfold tfindF, taddF, task_eqb. apply find2_add2. Qed.

Lemma nfindF_add n n' v m : nfindF n (naddF n' v m) = if node_eqb n n' then Some v else nfindF n m.
Proof.
  unfold nfindF, naddF, node_eqb. rewrite find2_add2.
  destruct ((nvar n =? nvar n') && (nlow n =? nlow n')) eqn:E; cbn [andb]; [|reflexivity].
  apply andb_true_iff in E. destruct E as (E1 & E2). apply N.eqb_eq in E1, E2. rewrite E1, E2.
  rewrite find_add_key. destruct (nhigh n =? nhigh n'); [reflexivity|].
  destruct (find2 (nvar n') (nlow n') m); [reflexivity|]. now rewrite PM.gempty.
Qed.

Lemma nfindF_empty n : nfindF n (PM.empty _) = None.
Proof. unfold nfindF. now rewrite find2_empty. Qed.

(* ------------------------------------------------------------------ *)
(* state relation                                                       *)
Definition R (s : st) (f : fstate) : Prop :=
  nodes s = rev (rnodes f) /\ rsize f = size (nodes s) /\
  (forall n, nfindF n (fexisting f) = nfind n (existing s)) /\
  (forall t, tfindF t (ffinished f) = tfind t (finished s)) /\
  fnonempty f = nonempty s.

Definition sim (r : option (N * st)) (r' : option (N * fstate)) : Prop :=
  match r, r' with
  | None, None => True
  | Some (p, s), Some (p', s') => p = p' /\ R s s'
  | _, _ => False
  end.

Lemma R_set_ne s f b : R s f -> R (set_ne s b) (set_neF f b).
Proof.
  intros (H1 & H2 & H3 & H4 & H5). unfold R, set_ne, set_neF; cbn.
  repeat split; try assumption. now rewrite H5.
Qed.

Lemma R_memo s f t p : R s f -> R (memo s t p) (memoF f t p).
Proof.
  intros (H1 & H2 & H3 & H4 & H5). unfold R, memo, memoF; cbn [nodes existing finished nonempty rnodes rsize fexisting ffinished fnonempty].
  repeat split; try assumption.
  intros t'. rewrite tfindF_add. cbn [tfind]. destruct (task_eqb t' t); [reflexivity|apply H4].
Qed.

Lemma mk_sim s f d lo hi : R s f ->
  fst (mk s d lo hi) = fst (mkF_node f d lo hi) /\ R (snd (mk s d lo hi)) (snd (mkF_node f d lo hi)).
Proof.
  intros HR. unfold mk, mkF_node. destruct (lo =? hi); [split; [reflexivity|exact HR]|].
  pose proof HR as (H1 & H2 & H3 & H4 & H5). rewrite H3.
  destruct (nfind (mkNode d lo hi) (existing s)) as [p|]; [split; [reflexivity|exact HR]|].
  unfold push, pushF; cbn [fst snd]. split; [now rewrite H2|].
  unfold R; cbn [nodes existing finished nonempty rnodes rsize fexisting ffinished fnonempty].
  repeat split; try assumption.
  - cbn [rev]. now rewrite H1.
  - rewrite H2. unfold size. rewrite app_length. cbn [length]. lia.
  - intros n. rewrite nfindF_add. cbn [nfind]. rewrite H2.
    destruct (node_eqb n (mkNode d lo hi)); [reflexivity|apply H3].
Qed.

Section Sim.
  Variables (A B : bdd) (MA MB : arr) (fa fb fo : option N) (op : op2).
  Hypothesis HA : forall p, aget MA p = get A p.
  Hypothesis HB : forall p, aget MB p = get B p.

  Lemma kidsF_eq_A fl p dv : kidsF MA fl p dv = kids A fl p dv.
  Proof. unfold kidsF, kids. now rewrite HA. Qed.
  Lemma kidsF_eq_B fl p dv : kidsF MB fl p dv = kids B fl p dv.
  Proof. unfold kidsF, kids. now rewrite HB. Qed.
  Lemma levelF_eq t : levelF MA MB t = level A B t.
  Proof. unfold levelF, level, var_of. now rewrite HA, HB. Qed.
  Lemma t_loF_eq t : t_loF MA MB fa fb t = t_lo A B fa fb t.
  Proof. unfold t_loF, t_lo. now rewrite levelF_eq, kidsF_eq_A, kidsF_eq_B. Qed.
  Lemma t_hiF_eq t : t_hiF MA MB fa fb t = t_hi A B fa fb t.
  Proof. unfold t_hiF, t_hi. now rewrite levelF_eq, kidsF_eq_A, kidsF_eq_B. Qed.

  Lemma ensure_sim proc procF t s f :
    (forall t s f, R s f -> sim (proc t s) (procF t f)) ->
    R s f -> sim (ensure_with op proc t s) (ensure_withF op procF t f).
  Proof.
    intros Hp HR. unfold ensure_with, ensure_withF.
    destruct (op (as_bool (fst t)) (as_bool (snd t))) as [c|]; [cbn; auto|].
    pose proof HR as (_ & _ & _ & H4 & _). rewrite H4.
    destruct (tfind t (finished s)) as [p|]; [cbn; auto|]. now apply Hp.
  Qed.

  Lemma process_sim : forall fuel t s f, R s f ->
    sim (process A B fa fb fo op fuel t s) (processF MA MB fa fb fo op fuel t f).
  Proof.
    induction fuel as [|k IH]; intros t s f HR; [exact I|].
    cbn [process processF]. rewrite levelF_eq, t_loF_eq, t_hiF_eq.
    set (dv := level A B t). set (tl := t_lo A B fa fb t). set (th := t_hi A B fa fb t).
    assert (Hstep : forall ta tb (g : N -> N -> N * N),
      sim (match ensure_with op (process A B fa fb fo op k) ta s with None => None | Some (p1, s1) =>
           match ensure_with op (process A B fa fb fo op k) tb s1 with None => None | Some (p2, s2) =>
             let '(plo, phi) := g p1 p2 in
             let s3 := set_ne s2 ((plo =? 1) || (phi =? 1)) in
             let '(p, s4) := mk s3 dv (fst (g phi plo)) (snd (g phi plo)) in Some (p, memo s4 t p) end end)
          (match ensure_withF op (processF MA MB fa fb fo op k) ta f with None => None | Some (p1, s1) =>
           match ensure_withF op (processF MA MB fa fb fo op k) tb s1 with None => None | Some (p2, s2) =>
             let '(plo, phi) := g p1 p2 in
             let s3 := set_neF s2 ((plo =? 1) || (phi =? 1)) in
             let '(p, s4) := mkF_node s3 dv (fst (g phi plo)) (snd (g phi plo)) in Some (p, memoF s4 t p) end end)).
    { intros ta tb g.
      pose proof (ensure_sim _ _ ta s f IH HR) as S1.
      destruct (ensure_with op (process A B fa fb fo op k) ta s) as [[p1 s1]|],
               (ensure_withF op (processF MA MB fa fb fo op k) ta f) as [[p1' f1]|]; cbn in S1; try contradiction; [|exact I].
      destruct S1 as (<- & R1).
      pose proof (ensure_sim _ _ tb s1 f1 IH R1) as S2.
      destruct (ensure_with op (process A B fa fb fo op k) tb s1) as [[p2 s2]|],
               (ensure_withF op (processF MA MB fa fb fo op k) tb f1) as [[p2' f2]|]; cbn in S2; try contradiction; [|exact I].
      destruct S2 as (<- & R2).
      destruct (g p1 p2) as [plo phi]. cbv zeta.
      pose proof (mk_sim _ _ dv (fst (g phi plo)) (snd (g phi plo)) (R_set_ne s2 f2 ((plo =? 1) || (phi =? 1)) R2)) as (E & R4).
      destruct (mk (set_ne s2 ((plo =? 1) || (phi =? 1))) dv (fst (g phi plo)) (snd (g phi plo))) as [p s4].
      destruct (mkF_node (set_neF f2 ((plo =? 1) || (phi =? 1))) dv (fst (g phi plo)) (snd (g phi plo))) as [p' f4].
      cbn [fst snd] in E, R4. subst p'. cbn. split; [reflexivity|]. now apply R_memo. }
    destruct (oeq fo dv).
    - (* swap: (p1,p2) = (plo,phi); node (dv, phi, plo) *)
      exact (Hstep tl th (fun a b => (a, b))).
    - (* no swap: (plo,phi) = (p2,p1); node (dv, plo, phi) *)
      exact (Hstep th tl (fun a b => (b, a))).
  Qed.
End Sim.

Lemma R_s0 zero one : R (mkSt [zero; one] [(zero, 0); (one, 1)] [] false) (s0F zero one).
Proof.
  unfold R, s0F; cbn [nodes existing finished nonempty rnodes rsize fexisting ffinished fnonempty].
  repeat split.
  - intros n. rewrite !nfindF_add, nfindF_empty. reflexivity.
  - intros t. unfold tfindF. now rewrite find2_empty.
Qed.

Theorem apply2_fast_eq : forall A B fa fb fo op, apply2_fast A B fa fb fo op = apply2 A B fa fb fo op.
Proof.
  intros A B fa fb fo op. unfold apply2_fast, apply2.
  destruct (load_get A) as (SA & GA). destruct (load_get B) as (SB & GB).
  destruct (load A 0 (PM.empty node)) as [sa MA]. destruct (load B 0 (PM.empty node)) as [sb MB].
  cbn [fst snd] in SA, GA, SB, GB. subst sa sb.
  rewrite GA. change (nvar (get A 0)) with (nvars A).
  pose proof (process_sim A B MA MB fa fb fo op GA GB (S (S (N.to_nat (nvars A)))) (root A B) (s0 A)
                (s0F (zero A) (one A)) (R_s0 (zero A) (one A))) as HS.
  unfold root in *. fold (zero A). fold (one A).
  destruct (process A B fa fb fo op (S (S (N.to_nat (nvars A)))) (size A - 1, size B - 1) (s0 A)) as [[p s]|],
           (processF MA MB fa fb fo op (S (S (N.to_nat (nvars A)))) (size A - 1, size B - 1) (s0F (zero A) (one A))) as [[p' f]|];
    cbn in HS; try contradiction; [|reflexivity].
  destruct HS as (_ & (H1 & _ & _ & _ & H5)). rewrite H5, H1, rev_append_rev, app_nil_r. reflexivity.
Qed.

Corollary fused_binary_flip_op_fast_eq : forall A B fa fb fo op,
  fused_binary_flip_op_fast A B fa fb fo op = fused_binary_flip_op A B fa fb fo op.
Proof. intros. unfold fused_binary_flip_op_fast, fused_binary_flip_op. now rewrite apply2_fast_eq. Qed.

Corollary binary_op_fast_eq : forall A B op, binary_op_fast A B op = binary_op A B op.
Proof. intros. apply fused_binary_flip_op_fast_eq. Qed.

(* ---- transferred statements ---- *)
Theorem fused_binary_flip_op_fast_correct A B fa fb fo op :
  wf A -> wf B -> nvars A = nvars B -> flips_ok (nvars A) fa fb fo = true ->
  total2 op -> consistent2 op ->
  exists r, fused_binary_flip_op_fast A B fa fb fo op = Ok r /\ Canonical r /\ nvars r = nvars A /\
    forall v, eval r v = bop_of op (eval A (oflip fa (oflip fo v))) (eval B (oflip fb (oflip fo v))).
Proof. rewrite fused_binary_flip_op_fast_eq. apply fused_binary_flip_op_correct. Qed.

Theorem fused_binary_flip_op_fast_panic_iff A B fa fb fo op :
  fused_binary_flip_op_fast A B fa fb fo op = Panic <->
  (nvars A <> nvars B \/ flips_ok (nvars A) fa fb fo = false).
Proof. rewrite fused_binary_flip_op_fast_eq. apply fused_binary_flip_op_panic_iff. Qed.

(* a non-trivial instance, computed by both engines *)
Example apply_fast_example :
  let A := [mkNode 3 0 0; mkNode 3 1 1; mkNode 2 0 1; mkNode 0 0 2] in
  let B := [mkNode 3 0 0; mkNode 3 1 1; mkNode 2 0 1; mkNode 1 1 2; mkNode 0 2 3] in
  fused_binary_flip_op_fast A B (Some 0) None (Some 2) op_xor = fused_binary_flip_op A B (Some 0) None (Some 2) op_xor /\
  exists r, fused_binary_flip_op_fast A B (Some 0) None (Some 2) op_xor = Ok r /\ 3 <= size r.
Proof. vm_compute. split; [reflexivity|]. eexists; split; [reflexivity|]. discriminate. Qed.

Print Assumptions apply2_fast_eq.
Print Assumptions fused_binary_flip_op_fast_eq.
Print Assumptions fused_binary_flip_op_fast_correct.
Print Assumptions fused_binary_flip_op_fast_panic_iff.
