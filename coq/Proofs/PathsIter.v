(* Proofs/PathsIter.v — refinement: the step-faithful stack machine of BddPathIterator (new / next / continue_path /
   make_clause, Model/Paths.v) yields exactly `sat_clauses b` (= the DFS list `paths b`) on every valid diagram
   without redundant tests, never panics there and never runs out of fuel; likewise the valuation iterator. *)
From Coq Require Import List NArith Lia Bool PeanoNat.
Import ListNotations.
From BddVerif Require Import Model.Bdd Model.Apply Model.Ops Model.Paths Proofs.Sem Proofs.Canon Proofs.PvalSem
  Proofs.NormalForms Proofs.Paths Proofs.PathsVals.
Open Scope N_scope.

Definition no_redundant (b : bdd) : Prop := forall p, 2 <= p -> p < size b -> nlow (get b p) <> nhigh (get b p).

Lemma canonical_no_redundant b : Canonical b -> no_redundant b.
Proof. intros (_ & (H & _) & _). exact H. Qed.

(* ------------------------------------------------------------------------------------------ *)
(* make_clause                                                                                 *)
Lemma mcf_split b p : forall l1 l2 acc,
  make_clause_from b (l1 ++ p :: l2) acc =
  bind (make_clause_from b (l1 ++ [p]) acc) (fun acc' => make_clause_from b (p :: l2) acc').
Proof.
  induction l1 as [|a l1 IH]; intros l2 acc.
  - cbn [app]. cbn [make_clause_from bind]. reflexivity.
  - cbn [app]. destruct l1 as [|a' l1'].
    + cbn [app make_clause_from].
      destruct (nlow (get b a) =? p); [reflexivity|]. destruct (nhigh (get b a) =? p); reflexivity.
    + specialize (IH l2). cbn [app] in *. cbn [make_clause_from].
      destruct (nlow (get b a) =? a'); [apply IH|]. destruct (nhigh (get b a) =? a'); [apply IH|reflexivity].
Qed.

Definition pv_push (pv : pval) (xc : N * bool) : pval := pv_set pv (N.to_nat (fst xc)) (Some (snd xc)).

Lemma pv_from_values_snoc l xc : pv_from_values (l ++ [xc]) = pv_push (pv_from_values l) xc.
Proof. unfold pv_from_values. rewrite fold_left_app. reflexivity. Qed.

(* extending the stack by a child c of p extends the clause by the edge literal *)
Lemma mc_extend b st p c pre (side : bool) :
  make_clause_from b (rev st ++ [p]) [] = Ok (pv_from_values pre) ->
  (if side then nhigh (get b p) = c /\ nlow (get b p) <> c else nlow (get b p) = c) ->
  make_clause_from b (rev (p :: st) ++ [c]) [] = Ok (pv_from_values (pre ++ [(nvar (get b p), side)])).
Proof.
  intros H Hc. cbn [rev]. rewrite <- app_assoc. cbn [app]. rewrite mcf_split, H. cbn [bind make_clause_from].
  rewrite pv_from_values_snoc. unfold pv_push. cbn [fst snd]. destruct side.
  - destruct Hc as (Hh & Hl). destruct (N.eqb_spec (nlow (get b p)) c); [contradiction|]. rewrite Hh, N.eqb_refl. reflexivity.
  - rewrite Hc, N.eqb_refl. reflexivity.
Qed.

(* ------------------------------------------------------------------------------------------ *)
Definition mu (b : bdd) (p : N) : nat := N.to_nat (nvars b - var_of b p).

Lemma run_unfold m b s : path_iter_run (S m) b s =
  match path_iter_next b s with
  | Ok None => Ok []
  | Ok (Some (item, stack')) => bind (path_iter_run m b stack') (fun l => Ok (item :: l))
  | Panic => Panic
  | OutOfFuel => OutOfFuel
  end.
Proof. reflexivity. Qed.

Section Machine.
Variable b : bdd.
Hypothesis Hwf : wf b.
Hypothesis Hnr : no_redundant b.

Lemma run_node : forall k p st pre,
  valid b p -> p <> 0 -> (mu b p < k)%nat ->
  make_clause_from b (rev st ++ [p]) [] = Ok (pv_from_values pre) ->
  exists d,
    (forall F, (mu b p < F)%nat -> continue_path F b (p :: st) = Ok (d ++ p :: st)) /\
    forall st' l m, backtrack b p st = Ok st' -> path_iter_run m b st' = Ok l ->
      path_iter_run (length (paths_to 1 k b p) + m) b (d ++ p :: st) =
      Ok (map (fun q => clause_of_path (pre ++ q)) (paths_to 1 k b p) ++ l).
Proof.
  induction k as [|k IH]; intros p st pre Vp Hp0 Hk Hmc; [lia|].
  destruct (N.ltb_spec p 2) as [Hlt|Hge].
  - (* the terminal 1 *)
    assert (p = 1) by lia. subst p. exists []. split.
    + intros F HF. destruct F as [|F]; [lia|]. reflexivity.
    + intros st' l m Hb Hr. cbn [paths_to N.ltb N.compare Pos.compare N.eqb Pos.eqb map length app Nat.add].
      change (1 <? 2) with true. cbn iota. change (1 =? 1) with true. cbn iota. cbn [map length app Nat.add].
      rewrite run_unfold. unfold path_iter_next. unfold make_clause. cbn [rev]. rewrite Hmc. cbn [bind].
      rewrite Hb. cbn [bind]. rewrite Hr. cbn [bind]. rewrite app_nil_r. reflexivity.
  - (* a decision node *)
    destruct Vp as (Vp & _). destruct (wf_children b p Hwf Hge Vp) as (Vl & Vh & Hl & Hh & Hnv).
    pose proof (Hnr p Hge Vp) as Hne.
    set (lo := nlow (get b p)) in *. set (hi := nhigh (get b p)) in *. set (x := nvar (get b p)).
    assert (Mlo : (mu b lo < mu b p)%nat) by (unfold mu; pose proof (var_of_le b lo Hwf Vl); lia).
    assert (Mhi : (mu b hi < mu b p)%nat) by (unfold mu; pose proof (var_of_le b hi Hwf Vh); lia).
    assert (P1 : (p =? 1) = false) by (apply N.eqb_neq; lia).
    assert (Hpaths : paths_to 1 (S k) b p = map (cons (x, false)) (paths_to 1 k b lo) ++ map (cons (x, true)) (paths_to 1 k b hi)).
    { cbn [paths_to]. destruct (N.ltb_spec p 2); [lia|]. reflexivity. }
    assert (Hzero : paths_to 1 k b 0 = []) by (destruct k; reflexivity).
    assert (MapLo : forall P, map (fun q => clause_of_path ((pre ++ [(x, false)]) ++ q)) P =
                              map (fun q => clause_of_path (pre ++ q)) (map (cons (x, false)) P)).
    { intros P. rewrite map_map. apply map_ext. intros q. now rewrite <- app_assoc. }
    assert (MapHi : forall P, map (fun q => clause_of_path ((pre ++ [(x, true)]) ++ q)) P =
                              map (fun q => clause_of_path (pre ++ q)) (map (cons (x, true)) P)).
    { intros P. rewrite map_map. apply map_ext. intros q. now rewrite <- app_assoc. }
    destruct (N.eq_dec lo 0) as [Elo|Nlo]; destruct (N.eq_dec hi 0) as [Ehi|Nhi].
    + exfalso. apply Hne. congruence.
    + (* only the high child is alive *)
      assert (Hmc' : make_clause_from b (rev (p :: st) ++ [hi]) [] = Ok (pv_from_values (pre ++ [(x, true)]))).
      { apply mc_extend; [exact Hmc|]. split; [reflexivity|exact Hne]. }
      destruct (IH hi (p :: st) _ Vh Nhi ltac:(lia) Hmc') as (dh & Ch & Rh).
      exists (dh ++ [hi]). rewrite <- app_assoc. cbn [app]. split.
      * intros F HF. destruct F as [|F]; [lia|]. cbn [continue_path]. rewrite P1. fold lo hi.
        rewrite Elo. change (0 =? 0) with true. cbn [negb].
        destruct (N.eqb_spec hi 0); [contradiction|]. cbn [negb]. apply Ch. lia.
      * intros st' l m Hb Hr. rewrite Hpaths. fold lo. rewrite Elo, Hzero. cbn [map app].
        rewrite map_length, <- MapHi. apply (Rh st'); [|exact Hr].
        cbn [backtrack]. fold lo hi. destruct (N.eqb_spec lo hi); [contradiction|]. rewrite N.eqb_refl. exact Hb.
    + (* only the low child is alive *)
      assert (Hmc' : make_clause_from b (rev (p :: st) ++ [lo]) [] = Ok (pv_from_values (pre ++ [(x, false)]))).
      { apply mc_extend; [exact Hmc|reflexivity]. }
      destruct (IH lo (p :: st) _ Vl Nlo ltac:(lia) Hmc') as (dl & Cl & Rl).
      exists (dl ++ [lo]). rewrite <- app_assoc. cbn [app]. split.
      * intros F HF. destruct F as [|F]; [lia|]. cbn [continue_path]. rewrite P1. fold lo hi.
        destruct (N.eqb_spec lo 0); [contradiction|]. cbn [negb]. apply Cl. lia.
      * intros st' l m Hb Hr. rewrite Hpaths. fold hi. rewrite Ehi, Hzero. cbn [map]. rewrite app_nil_r.
        rewrite map_length, <- MapLo. apply (Rl st'); [|exact Hr].
        cbn [backtrack]. fold lo hi. rewrite N.eqb_refl. rewrite Ehi. change (0 =? 0) with true. cbn iota. exact Hb.
    + (* both children alive: low subtree first, then backtrack into the high subtree *)
      assert (HmcL : make_clause_from b (rev (p :: st) ++ [lo]) [] = Ok (pv_from_values (pre ++ [(x, false)]))).
      { apply mc_extend; [exact Hmc|reflexivity]. }
      assert (HmcH : make_clause_from b (rev (p :: st) ++ [hi]) [] = Ok (pv_from_values (pre ++ [(x, true)]))).
      { apply mc_extend; [exact Hmc|]. split; [reflexivity|exact Hne]. }
      destruct (IH lo (p :: st) _ Vl Nlo ltac:(lia) HmcL) as (dl & Cl & Rl).
      destruct (IH hi (p :: st) _ Vh Nhi ltac:(lia) HmcH) as (dh & Ch & Rh).
      exists (dl ++ [lo]). rewrite <- app_assoc. cbn [app]. split.
      * intros F HF. destruct F as [|F]; [lia|]. cbn [continue_path]. rewrite P1. fold lo hi.
        destruct (N.eqb_spec lo 0); [contradiction|]. cbn [negb]. apply Cl. lia.
      * intros st' l m Hb Hr. rewrite Hpaths. rewrite app_length, !map_length, map_app, <- MapLo, <- MapHi.
        rewrite <- Nat.add_assoc, <- app_assoc. apply (Rl (dh ++ hi :: p :: st)).
        -- cbn [backtrack]. fold lo hi. rewrite N.eqb_refl.
           destruct (N.eqb_spec hi 0); [contradiction|]. destruct (N.eqb_spec lo hi); [contradiction|].
           apply Ch. unfold path_fuel. unfold mu in *. lia.
        -- apply (Rh st'); [|exact Hr].
           cbn [backtrack]. fold lo hi. destruct (N.eqb_spec lo hi); [contradiction|]. rewrite N.eqb_refl. exact Hb.
Qed.

(* BddPathIterator yields exactly the DFS clause list, in order *)
Theorem path_iter_refines_section : path_iter b = Ok (sat_clauses b).
Proof.
  unfold path_iter, path_iter_new, sat_clauses, paths. pose proof (size_pos b Hwf) as Hs.
  unfold is_false. destruct (N.eqb_spec (size b) 1) as [E|NE].
  - cbn [bind]. unfold root. rewrite E. change (1 - 1) with 0.
    replace (paths_to 1 (path_fuel b) b 0) with (@nil path) by reflexivity. reflexivity.
  - assert (Vr : valid b (root b)) by (apply root_valid, Hwf).
    assert (R0 : root b <> 0) by (unfold root; lia).
    assert (Mr : (mu b (root b) < path_fuel b)%nat) by (unfold mu, path_fuel; lia).
    destruct (run_node (path_fuel b) (root b) [] [] Vr R0 Mr eq_refl) as (d & Cd & Rd).
    rewrite (Cd (S (path_fuel b)) ltac:(lia)). cbn [bind].
    specialize (Rd [] [] 2%nat eq_refl eq_refl). rewrite app_nil_r in Rd. cbn [app] in Rd.
    replace (S (S (length (paths_to 1 (path_fuel b) b (root b))))) with (length (paths_to 1 (path_fuel b) b (root b)) + 2)%nat by lia.
    rewrite Rd. f_equal.
Qed.
End Machine.

Theorem path_iter_refines b : wf b -> no_redundant b -> path_iter b = Ok (sat_clauses b).
Proof. exact (path_iter_refines_section b). Qed.

Corollary path_iter_canonical b : Canonical b -> path_iter b = Ok (sat_clauses b).
Proof. intros C. apply path_iter_refines; [exact (proj1 C)|apply canonical_no_redundant, C]. Qed.

(* BddSatisfyingValuations (path iterator chained with the clause iterator) yields sat_valuations *)
Theorem sat_valuations_iter_refines b : wf b -> no_redundant b -> sat_valuations_iter b = Ok (sat_valuations b).
Proof.
  intros Hwf Hnr. unfold sat_valuations_iter. rewrite (path_iter_refines b Hwf Hnr). cbn [bind].
  apply concat_clause_iters_ok. apply sat_clauses_positive_inside, Hwf.
Qed.
