(* Proofs/SelectWalk.v — the selectors that are plain root walks: first/last_valuation, first/last_clause,
   random_valuation, random_clause. *)
From Coq Require Import List PeanoNat NArith Lia Bool.
Import ListNotations.
From BddVerif Require Import Model.Bdd Model.Apply Model.Ops Model.Select Proofs.Sem Proofs.Canon Proofs.Reflect
  Proofs.PvalSem Proofs.SelectBase.
Open Scope N_scope.

(* a satisfying valuation in the library's representation: a vector with one cell per variable *)
Definition sat_list (b : bdd) (l : list bool) : Prop := length l = N.to_nat (nvars b) /\ eval b (val_of_list l) = true.

Lemma tval_head x c ds d : tval ((x, c) :: ds) d x = c.
Proof. unfold tval. cbn [lookup]. now rewrite N.eqb_refl. Qed.

Lemma tval_tail x c ds d i : i <> x -> tval ((x, c) :: ds) d i = tval ds d i.
Proof. intros H. unfold tval. cbn [lookup]. destruct (N.eqb_spec x i); [congruence|reflexivity]. Qed.

Lemma tval_below ds d a i : (forall y c, In (y, c) ds -> a <= y) -> i < a -> tval ds d i = d.
Proof.
  intros H Hi. unfold tval. rewrite lookup_none; [reflexivity|].
  intros Hin. apply in_map_iff in Hin. destruct Hin as ([y c] & E & Hy). cbn in E. subst y.
  specialize (H _ _ Hy). lia.
Qed.

Lemma lexle_ext a n v v' w w' : (forall i, a <= i -> i < n -> v i = v' i) -> (forall i, a <= i -> i < n -> w i = w' i) ->
  lexle_from a n v w -> lexle_from a n v' w'.
Proof.
  intros Hv Hw [H|(k & K1 & K2 & K3 & K4 & K5)].
  - left. intros i H1 H2. rewrite <- Hv, <- Hw by assumption. apply H; assumption.
  - right. exists k. split; [exact K1|]. split; [exact K2|]. split.
    + intros i H1 H2. rewrite <- Hv, <- Hw by lia. apply K3; assumption.
    + rewrite <- Hv, <- Hw by assumption. split; assumption.
Qed.

Lemma sem_true_child b p w : wf b -> 2 <= p -> p < size b -> sem b p w = true ->
  sem b (child b p (w (var_of b p))) w = true.
Proof. intros W Hp Hlt H. rewrite sem_unfold in H by assumption. exact H. Qed.

(* ======================================================================================== *)
(* first_valuation: least satisfying valuation                                               *)
Lemma first_least b : wf b -> nz b -> forall fuel p w, valid b p -> p <> 0 -> enough b p fuel ->
  sem b p w = true -> lexle_from (var_of b p) (nvars b) (tval (trace fuel b (low_zero b) p) false) w.
Proof.
  intros W R. induction fuel as [|f IH]; intros p w V Hp E Hs; [unfold enough in E; lia|].
  cbn [trace]. destruct (N.ltb_spec p 2) as [Hlt|Hge].
  - left. intros i H1 H2. rewrite (var_of_term b p W V Hlt) in H1. lia.
  - pose proof V as (Vp & _).
    set (c := low_zero b p). set (q := child b p c). set (x := var_of b p).
    destruct (child_valid b p c W Hge Vp) as (Vq & Hv). fold q x in Vq, Hv.
    assert (Hq0 : q <> 0) by (apply (safe_low_zero b R p Hge Vp)).
    assert (Eq : enough b q f) by (apply enough_child; assumption).
    pose proof (trace_path b (low_zero b) W (safe_low_zero b R) f q Vq Hq0 Eq) as P.
    destruct (path_vars b W _ q 1 Vq P) as (_ & _ & Hin & _).
    destruct (wf_children b p W Hge Vp) as (_ & _ & _ & _ & Hxn). fold x in Hxn.
    pose proof (var_of_le b q W Vq) as Hqn.
    pose proof (sem_true_child b p w W Hge Vp Hs) as Hc. fold x in Hc.
    assert (Hrec : w x = c -> lexle_from x (nvars b) (tval ((x, c) :: trace f b (low_zero b) q) false) w).
    { intros Ewx. rewrite Ewx in Hc. fold q in Hc.
      apply lexle_step_eq; [exact Hxn|rewrite tval_head; congruence|].
      apply (lexle_gap_false (x + 1) (var_of b q)); [lia|exact Hqn| |].
      - intros i H1 H2. rewrite tval_tail by lia. apply (tval_below _ _ (var_of b q)); [|exact H2].
        intros y e Hy. apply (Hin y e Hy).
      - apply (lexle_ext _ _ (tval (trace f b (low_zero b) q) false) _ w w).
        + intros i H1 H2. rewrite tval_tail by lia. reflexivity.
        + reflexivity.
        + apply IH; assumption. }
    destruct c eqn:Ec.
    + (* low link is zero: the walk goes high, and so must w *)
      destruct (w x) eqn:Ewx; [apply Hrec; reflexivity|].
      exfalso. unfold child in Hc. unfold c, low_zero in Ec. apply N.eqb_eq in Ec. rewrite Ec in Hc. cbn in Hc. discriminate.
    + destruct (w x) eqn:Ewx; [|apply Hrec; reflexivity].
      apply lexle_step_lt; [exact Hxn|apply tval_head|exact Ewx].
Qed.

Lemma rec_default_set : rec_default false (fun acc x c => if c then vset acc x true else Ok acc).
Proof. intros acc x [|]; reflexivity. Qed.
Lemma rec_default_clear : rec_default true (fun acc x c => if c then Ok acc else vset acc x false).
Proof. intros acc x [|]; reflexivity. Qed.

(* shared skeleton: a walk with a safe pure choice, recording into a vector with default d *)
Lemma walk_vector b choose ch d record : wf b -> (forall q, 2 <= q -> q < size b -> choose q = Ok (ch q)) ->
  safe_choice b ch -> rec_default d record -> is_false b = false ->
  let ds := trace (wfuel b) b ch (root b) in
  exists l, walk (wfuel b) b choose record (root b) (all_same (nvars b) d) = Ok l /\
    path b (root b) ds 1 /\ sat_list b l /\ forall x, x < nvars b -> val_of_list l x = tval ds d x.
Proof.
  intros W HC S RD Hf ds.
  pose proof (valid_root b W) as Vr. pose proof (root_nonzero b W Hf) as Hr.
  pose proof (trace_path b ch W S (wfuel b) (root b) Vr Hr (enough_root b W)) as P. fold ds in P.
  destruct (record_path_val b d record ds (root b) 1 W RD Vr P) as (l & Hl & Hlen & Hval).
  exists l. split.
  - rewrite (walk_trace b choose ch record W HC) by (try assumption; apply enough_root; exact W).
    exact Hl.
  - split; [exact P|]. split; [|exact Hval]. split; [exact Hlen|].
    rewrite (eval_agree_nv b _ (tval ds d) W Hval). unfold eval. fold (root b).
    destruct (path_vars b W ds (root b) 1 Vr P) as (_ & _ & _ & N).
    rewrite (path_sem b W ds (root b) 1 _ P (tval_follows ds d N)). reflexivity.
Qed.

Lemma sat_list_lexle b l l' (v : val) : wf b -> length l = N.to_nat (nvars b) -> length l' = N.to_nat (nvars b) ->
  (forall x, x < nvars b -> val_of_list l x = v x) ->
  lexle_from 0 (nvars b) v (val_of_list l') -> lex_le l l'.
Proof.
  intros W Hl Hl' Hv H. apply lexle_lists; [lia|]. replace (N.of_nat (length l)) with (nvars b) by lia.
  apply (lexle_ext 0 (nvars b) v _ (val_of_list l') _); [intros; symmetry; apply Hv; assumption|reflexivity|exact H].
Qed.

Lemma sat_list_ge b l l' (v : val) : wf b -> length l = N.to_nat (nvars b) -> length l' = N.to_nat (nvars b) ->
  (forall x, x < nvars b -> val_of_list l x = v x) ->
  lexle_from 0 (nvars b) (val_of_list l') v -> lex_le l' l.
Proof.
  intros W Hl Hl' Hv H. apply lexle_lists; [lia|]. replace (N.of_nat (length l')) with (nvars b) by lia.
  apply (lexle_ext 0 (nvars b) (val_of_list l') _ v _); [reflexivity|intros; symmetry; apply Hv; assumption|exact H].
Qed.

Theorem first_valuation_none b : is_false b = true -> first_valuation b = Ok None.
Proof. intros H. unfold first_valuation. now rewrite H. Qed.

Theorem first_valuation_spec_benign b : Benign b -> is_false b = false ->
  exists l, first_valuation b = Ok (Some l) /\ sat_list b l /\ forall l', sat_list b l' -> lex_le l l'.
Proof.
  intros (W & R & _) Hf. unfold first_valuation. rewrite Hf.
  destruct (walk_vector b (fun p => Ok (low_zero b p)) (low_zero b) false _ W (fun _ _ _ => eq_refl) (safe_low_zero b R) rec_default_set Hf)
    as (l & Hw & P & Hs & Hv).
  exists l. rewrite Hw. split; [reflexivity|]. split; [exact Hs|].
  intros l' (Hl' & He'). destruct Hs as (Hl & _).
  apply (sat_list_lexle b l l' _ W Hl Hl' Hv).
  pose proof (valid_root b W) as Vr. pose proof (root_nonzero b W Hf) as Hr.
  apply (lexle_gap_false 0 (var_of b (root b))); [lia|apply var_of_le; assumption| |].
  - intros i _ Hi. apply (tval_below _ _ (var_of b (root b))); [|exact Hi].
    destruct (path_vars b W _ (root b) 1 Vr P) as (_ & _ & Hin & _). intros y c Hy. apply (Hin y c Hy).
  - apply first_least; [exact W|exact R|exact Vr|exact Hr|apply enough_root; exact W|exact He'].
Qed.
Print Assumptions first_valuation_spec_benign.

Theorem first_valuation_spec b : Canonical b -> is_false b = false ->
  exists l, first_valuation b = Ok (Some l) /\ sat_list b l /\ forall l', sat_list b l' -> lex_le l l'.
Proof. intros C. apply first_valuation_spec_benign. apply canonical_benign. exact C. Qed.
Print Assumptions first_valuation_spec.

(* ======================================================================================== *)
(* last_valuation: greatest satisfying valuation                                             *)
Lemma last_greatest b : wf b -> nz b -> forall fuel p w, valid b p -> p <> 0 -> enough b p fuel ->
  sem b p w = true ->
  lexle_from (var_of b p) (nvars b) w (tval (trace fuel b (fun p => negb (high_zero b p)) p) true).
Proof.
  intros W R. set (ch := fun p => negb (high_zero b p)).
  induction fuel as [|f IH]; intros p w V Hp E Hs; [unfold enough in E; lia|].
  cbn [trace]. destruct (N.ltb_spec p 2) as [Hlt|Hge].
  - left. intros i H1 H2. rewrite (var_of_term b p W V Hlt) in H1. lia.
  - pose proof V as (Vp & _).
    set (c := ch p). set (q := child b p c). set (x := var_of b p).
    destruct (child_valid b p c W Hge Vp) as (Vq & Hv). fold q x in Vq, Hv.
    assert (Hq0 : q <> 0) by (apply (safe_not_high_zero b R p Hge Vp)).
    assert (Eq : enough b q f) by (apply enough_child; assumption).
    pose proof (trace_path b ch W (safe_not_high_zero b R) f q Vq Hq0 Eq) as P.
    destruct (path_vars b W _ q 1 Vq P) as (_ & _ & Hin & _).
    destruct (wf_children b p W Hge Vp) as (_ & _ & _ & _ & Hxn). fold x in Hxn.
    pose proof (var_of_le b q W Vq) as Hqn.
    pose proof (sem_true_child b p w W Hge Vp Hs) as Hc. fold x in Hc.
    assert (Hrec : w x = c -> lexle_from x (nvars b) w (tval ((x, c) :: trace f b ch q) true)).
    { intros Ewx. rewrite Ewx in Hc. fold q in Hc.
      apply lexle_step_eq; [exact Hxn|rewrite tval_head; congruence|].
      apply (lexle_gap_true (x + 1) (var_of b q)); [lia|exact Hqn| |].
      - intros i H1 H2. rewrite tval_tail by lia. apply (tval_below _ _ (var_of b q)); [|exact H2].
        intros y e Hy. apply (Hin y e Hy).
      - apply (lexle_ext _ _ w _ (tval (trace f b ch q) true) _).
        + reflexivity.
        + intros i H1 H2. rewrite tval_tail by lia. reflexivity.
        + apply IH; assumption. }
    destruct c eqn:Ec.
    + destruct (w x) eqn:Ewx; [apply Hrec; reflexivity|].
      apply lexle_step_lt; [exact Hxn|exact Ewx|apply tval_head].
    + (* high link is zero: the walk goes low, and so must w *)
      destruct (w x) eqn:Ewx; [|apply Hrec; reflexivity].
      exfalso. unfold child in Hc. unfold c, ch, high_zero in Ec. apply negb_false_iff in Ec. apply N.eqb_eq in Ec.
      rewrite Ec in Hc. cbn in Hc. discriminate.
Qed.

Theorem last_valuation_none b : is_false b = true -> last_valuation b = Ok None.
Proof. intros H. unfold last_valuation. now rewrite H. Qed.

Theorem last_valuation_spec_benign b : Benign b -> is_false b = false ->
  exists l, last_valuation b = Ok (Some l) /\ sat_list b l /\ forall l', sat_list b l' -> lex_le l' l.
Proof.
  intros (W & R & _) Hf. unfold last_valuation. rewrite Hf.
  destruct (walk_vector b (fun p => Ok (negb (high_zero b p))) (fun p => negb (high_zero b p)) true _ W (fun _ _ _ => eq_refl)
              (safe_not_high_zero b R) rec_default_clear Hf)
    as (l & Hw & P & Hs & Hv).
  exists l. rewrite Hw. split; [reflexivity|]. split; [exact Hs|].
  intros l' (Hl' & He'). destruct Hs as (Hl & _).
  apply (sat_list_ge b l l' _ W Hl Hl' Hv).
  pose proof (valid_root b W) as Vr. pose proof (root_nonzero b W Hf) as Hr.
  apply (lexle_gap_true 0 (var_of b (root b))); [lia|apply var_of_le; assumption| |].
  - intros i _ Hi. apply (tval_below _ _ (var_of b (root b))); [|exact Hi].
    destruct (path_vars b W _ (root b) 1 Vr P) as (_ & _ & Hin & _). intros y c Hy. apply (Hin y c Hy).
  - apply last_greatest; [exact W|exact R|exact Vr|exact Hr|apply enough_root; exact W|exact He'].
Qed.
Print Assumptions last_valuation_spec_benign.

Theorem last_valuation_spec b : Canonical b -> is_false b = false ->
  exists l, last_valuation b = Ok (Some l) /\ sat_list b l /\ forall l', sat_list b l' -> lex_le l' l.
Proof. intros C. apply last_valuation_spec_benign. apply canonical_benign. exact C. Qed.
Print Assumptions last_valuation_spec.

(* ======================================================================================== *)
(* first_clause / last_clause                                                                *)
(* shared skeleton: a walk with a safe pure choice, recording into a clause *)
Lemma walk_clause b choose ch : wf b -> (forall q, 2 <= q -> q < size b -> choose q = Ok (ch q)) ->
  safe_choice b ch -> is_false b = false ->
  let ds := trace (wfuel b) b ch (root b) in
  exists pv, walk (wfuel b) b choose cset (root b) [] = Ok pv /\ path b (root b) ds 1 /\ lits_of pv ds.
Proof.
  intros W HC S Hf ds.
  pose proof (valid_root b W) as Vr. pose proof (root_nonzero b W Hf) as Hr.
  pose proof (trace_path b ch W S (wfuel b) (root b) Vr Hr (enough_root b W)) as P. fold ds in P.
  destruct (path_vars b W ds (root b) 1 Vr P) as (_ & _ & _ & N).
  destruct (record_path_clause ds N) as (pv & Hpv & Hl).
  exists pv. split; [|split; assumption].
  rewrite (walk_trace b choose ch cset W HC) by (try assumption; apply enough_root; exact W).
  exact Hpv.
Qed.

(* ds takes branch c wherever it diverges from ds' *)
Definition diverges_with (c : bool) (ds ds' : list dec) : Prop :=
  exists pre x r r', ds = pre ++ (x, c) :: r /\ ds' = pre ++ (x, negb c) :: r'.

Lemma diverges_cons c xc ds ds' : diverges_with c ds ds' -> diverges_with c (xc :: ds) (xc :: ds').
Proof. intros (pre & x & r & r' & -> & ->). exists (xc :: pre), x, r, r'. split; reflexivity. Qed.

Lemma first_div b : wf b -> nz b -> forall fuel p ds', valid b p -> p <> 0 -> enough b p fuel -> path b p ds' 1 ->
  ds' = trace fuel b (low_zero b) p \/ diverges_with false (trace fuel b (low_zero b) p) ds'.
Proof.
  intros W R. induction fuel as [|f IH]; intros p ds' V Hp E P; [unfold enough in E; lia|].
  cbn [trace]. destruct (N.ltb_spec p 2) as [Hlt|Hge].
  - assert (p = 1) by lia. subst p. destruct (path_from_1 b ds' 1 P) as (_ & ->). now left.
  - pose proof V as (Vp & _). destruct ds' as [|[x' c'] r']; cbn [path fst snd] in P; [lia|].
    destruct P as (_ & _ & Hx' & P). subst x'.
    destruct (Bool.bool_dec c' (low_zero b p)) as [Ec|Ec].
    + subst c'. destruct (child_valid b p (low_zero b p) W Hge Vp) as (Vq & Hv).
      destruct (IH _ r' Vq (safe_low_zero b R p Hge Vp) (enough_child b p _ f W Hge Vp E) P) as [->|D].
      * now left.
      * right. apply diverges_cons. exact D.
    + destruct (low_zero b p) eqn:Elz.
      * exfalso. assert (c' = false) by (destruct c'; congruence). subst c'.
        unfold child in P. unfold low_zero in Elz. apply N.eqb_eq in Elz. rewrite Elz in P.
        destruct (path_from_0 b r' 1 P). lia.
      * right. assert (c' = true) by (destruct c'; congruence). subst c'.
        exists [], (var_of b p), (trace f b (low_zero b) (child b p false)), r'. split; reflexivity.
Qed.

Lemma last_div b : wf b -> nz b -> forall fuel p ds', valid b p -> p <> 0 -> enough b p fuel -> path b p ds' 1 ->
  ds' = trace fuel b (fun p => negb (high_zero b p)) p \/
  diverges_with true (trace fuel b (fun p => negb (high_zero b p)) p) ds'.
Proof.
  intros W R. set (ch := fun p => negb (high_zero b p)).
  induction fuel as [|f IH]; intros p ds' V Hp E P; [unfold enough in E; lia|].
  cbn [trace]. destruct (N.ltb_spec p 2) as [Hlt|Hge].
  - assert (p = 1) by lia. subst p. destruct (path_from_1 b ds' 1 P) as (_ & ->). now left.
  - pose proof V as (Vp & _). destruct ds' as [|[x' c'] r']; cbn [path fst snd] in P; [lia|].
    destruct P as (_ & _ & Hx' & P). subst x'.
    destruct (Bool.bool_dec c' (ch p)) as [Ec|Ec].
    + subst c'. destruct (child_valid b p (ch p) W Hge Vp) as (Vq & Hv).
      destruct (IH _ r' Vq (safe_not_high_zero b R p Hge Vp) (enough_child b p _ f W Hge Vp E) P) as [->|D].
      * now left.
      * right. apply diverges_cons. exact D.
    + destruct (ch p) eqn:Ehz.
      * right. assert (c' = false) by (destruct c'; congruence). subst c'.
        exists [], (var_of b p), (trace f b ch (child b p true)), r'. split; reflexivity.
      * exfalso. assert (c' = true) by (destruct c'; congruence). subst c'.
        unfold child in P. unfold ch, high_zero in Ehz. apply negb_false_iff in Ehz. apply N.eqb_eq in Ehz. rewrite Ehz in P.
        destruct (path_from_0 b r' 1 P). lia.
Qed.

Theorem first_clause_none b : is_false b = true -> first_clause b = Ok None.
Proof. intros H. unfold first_clause. now rewrite H. Qed.
Theorem last_clause_none b : is_false b = true -> last_clause b = Ok None.
Proof. intros H. unfold last_clause. now rewrite H. Qed.

(* the returned clause is a root-to-1 path and takes the false branch wherever it diverges from another path *)
Theorem first_clause_spec_benign b : Benign b -> is_false b = false ->
  exists pv ds, first_clause b = Ok (Some pv) /\ path b (root b) ds 1 /\ lits_of pv ds /\
    forall ds', path b (root b) ds' 1 -> ds' = ds \/ diverges_with false ds ds'.
Proof.
  intros (W & R & _) Hf. unfold first_clause. rewrite Hf.
  destruct (walk_clause b (fun p => Ok (low_zero b p)) (low_zero b) W (fun _ _ _ => eq_refl) (safe_low_zero b R) Hf) as (pv & Hw & P & Hl).
  exists pv, (trace (wfuel b) b (low_zero b) (root b)). rewrite Hw. split; [reflexivity|]. split; [exact P|]. split; [exact Hl|].
  intros ds' P'. apply first_div; try assumption; [apply valid_root|apply root_nonzero|apply enough_root]; assumption.
Qed.
Print Assumptions first_clause_spec_benign.

Theorem first_clause_spec b : Canonical b -> is_false b = false ->
  exists pv ds, first_clause b = Ok (Some pv) /\ path b (root b) ds 1 /\ lits_of pv ds /\
    forall ds', path b (root b) ds' 1 -> ds' = ds \/ diverges_with false ds ds'.
Proof. intros C. apply first_clause_spec_benign. apply canonical_benign. exact C. Qed.
Print Assumptions first_clause_spec.

Theorem last_clause_spec_benign b : Benign b -> is_false b = false ->
  exists pv ds, last_clause b = Ok (Some pv) /\ path b (root b) ds 1 /\ lits_of pv ds /\
    forall ds', path b (root b) ds' 1 -> ds' = ds \/ diverges_with true ds ds'.
Proof.
  intros (W & R & _) Hf. unfold last_clause. rewrite Hf.
  destruct (walk_clause b (fun p => Ok (negb (high_zero b p))) (fun p => negb (high_zero b p)) W (fun _ _ _ => eq_refl)
              (safe_not_high_zero b R) Hf) as (pv & Hw & P & Hl).
  exists pv, (trace (wfuel b) b (fun p => negb (high_zero b p)) (root b)). rewrite Hw.
  split; [reflexivity|]. split; [exact P|]. split; [exact Hl|].
  intros ds' P'. apply last_div; try assumption; [apply valid_root|apply root_nonzero|apply enough_root]; assumption.
Qed.
Print Assumptions last_clause_spec_benign.

Theorem last_clause_spec b : Canonical b -> is_false b = false ->
  exists pv ds, last_clause b = Ok (Some pv) /\ path b (root b) ds 1 /\ lits_of pv ds /\
    forall ds', path b (root b) ds' 1 -> ds' = ds \/ diverges_with true ds ds'.
Proof. intros C. apply last_clause_spec_benign. apply canonical_benign. exact C. Qed.
Print Assumptions last_clause_spec.
