(* Proofs/DnfSem.v — the library's own normal-form algorithms (Model/Dnf.v) refine the I/O-equivalent models:
   mk_dnf_faithful / mk_cnf_faithful (recursive three-way split on the variable index) build the canonical diagram
   of the disjunction / conjunction of the clauses and coincide with the folds mk_dnf / mk_cnf of Model/Ops.v;
   to_dnf_faithful (explicit stack + mutable path) and to_cnf_faithful (recursion with the threaded path) yield the
   DFS lists to_dnf / to_cnf of Model/Paths.v. *)
From Coq Require Import List NArith Lia Bool PeanoNat.
Import ListNotations.
From BddVerif Require Import Model.Bdd Model.Apply Model.Ops Model.Paths Model.Valuation Model.Dnf
  Proofs.Sem Proofs.Canon Proofs.PvalSem Proofs.NormalForms Proofs.Paths Proofs.ValuationSem.
Open Scope N_scope.

(* ======================================================================================== *)
(* the three-way split                                                                       *)
Lemma split3_props x cs : forall dc ht hf, split3 x cs = (dc, ht, hf) ->
  (forall c, In c dc -> In c cs /\ pv_get c x = None) /\
  (forall c, In c ht -> In c cs /\ pv_get c x = Some true) /\
  (forall c, In c hf -> In c cs /\ pv_get c x = Some false) /\
  (forall f, existsb f cs = existsb f dc || existsb f ht || existsb f hf) /\
  (forall f, forallb f cs = forallb f dc && forallb f ht && forallb f hf).
Proof.
  induction cs as [|c cs IH]; intros dc ht hf E.
  - cbn [split3] in E. inversion E; subst. repeat split; intros; try contradiction; reflexivity.
  - cbn [split3] in E. destruct (split3 x cs) as ((dc0 & ht0) & hf0).
    destruct (IH dc0 ht0 hf0 eq_refl) as (I1 & I2 & I3 & I4 & I5).
    destruct (pv_get c x) as [[|]|] eqn:G; inversion E; subst; clear E.
    + split; [|split; [|split; [|split]]].
      * intros c' H. destruct (I1 c' H). split; [right|]; assumption.
      * intros c' [<-|H]; [split; [left; reflexivity|exact G]|]. destruct (I2 c' H). split; [right|]; assumption.
      * intros c' H. destruct (I3 c' H). split; [right|]; assumption.
      * intros f. cbn [existsb]. rewrite I4. destruct (f c), (existsb f dc), (existsb f ht0), (existsb f hf); reflexivity.
      * intros f. cbn [forallb]. rewrite I5. destruct (f c), (forallb f dc), (forallb f ht0), (forallb f hf); reflexivity.
    + split; [|split; [|split; [|split]]].
      * intros c' H. destruct (I1 c' H). split; [right|]; assumption.
      * intros c' H. destruct (I2 c' H). split; [right|]; assumption.
      * intros c' [<-|H]; [split; [left; reflexivity|exact G]|]. destruct (I3 c' H). split; [right|]; assumption.
      * intros f. cbn [existsb]. rewrite I4. destruct (f c), (existsb f dc), (existsb f ht), (existsb f hf0); reflexivity.
      * intros f. cbn [forallb]. rewrite I5. destruct (f c), (forallb f dc), (forallb f ht), (forallb f hf0); reflexivity.
    + split; [|split; [|split; [|split]]].
      * intros c' [<-|H]; [split; [left; reflexivity|exact G]|]. destruct (I1 c' H). split; [right|]; assumption.
      * intros c' H. destruct (I2 c' H). split; [right|]; assumption.
      * intros c' H. destruct (I3 c' H). split; [right|]; assumption.
      * intros f. cbn [existsb]. rewrite I4. destruct (f c), (existsb f dc0), (existsb f ht), (existsb f hf); reflexivity.
      * intros f. cbn [forallb]. rewrite I5. destruct (f c), (forallb f dc0), (forallb f ht), (forallb f hf); reflexivity.
Qed.

(* ======================================================================================== *)
(* invariant of the recursion: the clauses of the current list agree on every variable below `var` *)
Definition agree (var : N) (cs : list pval) : Prop :=
  forall c c', In c cs -> In c' cs -> forall x, x < var -> pv_get c x = pv_get c' x.

Lemma agree_nil var : agree var []. Proof. intros c c' []. Qed.

Lemma agree_skip var cs : agree var cs -> existsb (fun c' => pv_has_value c' var) cs = false -> agree (var + 1) cs.
Proof.
  intros A E c c' Hc Hc' x Hx. destruct (N.eq_dec x var) as [->|Hne]; [|apply A; try assumption; lia].
  assert (forall d, In d cs -> pv_get d var = None) as Hn.
  { intros d Hd. destruct (pv_get d var) eqn:G; [|reflexivity]. exfalso.
    assert (existsb (fun c' => pv_has_value c' var) cs = true); [|congruence].
    apply existsb_exists. exists d. split; [exact Hd|]. unfold pv_has_value. rewrite G. reflexivity. }
  rewrite (Hn c Hc), (Hn c' Hc'). reflexivity.
Qed.

Lemma agree_class var cs sub k : agree var cs -> (forall c, In c sub -> In c cs /\ pv_get c var = k) -> agree (var + 1) sub.
Proof.
  intros A S c c' Hc Hc' x Hx. destruct (S c Hc) as (I1 & G1). destruct (S c' Hc') as (I2 & G2).
  destruct (N.eq_dec x var) as [->|Hne]; [congruence|]. apply A; try assumption; lia.
Qed.

Lemma in_range_get_none nv c x : cells_in_range nv c = true -> nv <= x -> pv_get c x = None.
Proof.
  intros R Hx. destruct (pv_get c x) as [d|] eqn:G; [|reflexivity]. exfalso.
  apply pv_cells_in in G. unfold cells_in_range in R. rewrite forallb_forall in R.
  specialize (R _ G). cbn [fst] in R. apply N.ltb_lt in R. lia.
Qed.

(* at var = num_vars all remaining in-range clauses are equal: the duplicate assertion holds *)
Lemma agree_all_eq nv c rest : agree nv (c :: rest) -> (forall d, In d (c :: rest) -> cells_in_range nv d = true) ->
  forallb (fun cx => pv_eq cx c) rest = true.
Proof.
  intros A R. apply forallb_forall. intros cx Hcx. apply pv_eq_iff. intros x.
  destruct (N.lt_ge_cases x nv) as [Hlt|Hge].
  - apply A; [right; exact Hcx|left; reflexivity|exact Hlt].
  - rewrite (in_range_get_none nv cx x), (in_range_get_none nv c x); try assumption; try reflexivity.
    + apply R. left. reflexivity.
    + apply R. right. exact Hcx.
Qed.

Lemma pv_eq_pv_cells a b : pv_eq a b = true -> pv_cells a = pv_cells b.
Proof. intros H. unfold pv_cells. now apply pv_eq_cells. Qed.

Lemma dup_existsb v c rest : forallb (fun cx => pv_eq cx c) rest = true ->
  existsb (clause_sat v) (c :: rest) = clause_sat v c.
Proof.
  intros H. cbn [existsb]. induction rest as [|d rest IH]; cbn [existsb]; [apply orb_false_r|].
  cbn [forallb] in H. apply andb_true_iff in H. destruct H as (H1 & H2).
  unfold clause_sat at 2. rewrite (pv_eq_pv_cells _ _ H1). fold (clause_sat v c).
  specialize (IH H2). destruct (clause_sat v c); [reflexivity|exact IH].
Qed.

Lemma dup_forallb v c rest : forallb (fun cx => pv_eq cx c) rest = true ->
  forallb (dclause_sat v) (c :: rest) = dclause_sat v c.
Proof.
  intros H. cbn [forallb]. induction rest as [|d rest IH]; cbn [forallb]; [apply andb_true_r|].
  cbn [forallb] in H. apply andb_true_iff in H. destruct H as (H1 & H2).
  unfold dclause_sat at 2. rewrite (pv_eq_pv_cells _ _ H1). fold (dclause_sat v c).
  specialize (IH H2). destruct (dclause_sat v c); [exact IH|reflexivity].
Qed.

Lemma dup_range nv c rest : forallb (fun cx => pv_eq cx c) rest = true ->
  forallb (cells_in_range nv) (c :: rest) = cells_in_range nv c.
Proof.
  intros H. cbn [forallb]. induction rest as [|d rest IH]; cbn [forallb]; [apply andb_true_r|].
  cbn [forallb] in H. apply andb_true_iff in H. destruct H as (H1 & H2).
  unfold cells_in_range at 2. rewrite (pv_eq_pv_cells _ _ H1). fold (cells_in_range nv c).
  specialize (IH H2). destruct (cells_in_range nv c); [exact IH|reflexivity].
Qed.

(* ======================================================================================== *)
(* mk_dnf_faithful                                                                           *)
Lemma dnf_rec_correct nv : forall fuel var cs,
  var <= nv -> (N.to_nat (nv - var) < fuel)%nat -> agree var cs ->
  (forall c, In c cs -> cells_in_range nv c = true) ->
  exists r, dnf_rec fuel var nv cs = Ok r /\ Canonical r /\ nvars r = nv /\
            forall v, eval r v = existsb (clause_sat v) cs.
Proof.
  induction fuel as [|fuel IH]; intros var cs Hle Hf A R; [lia|].
  cbn [dnf_rec]. destruct cs as [|c rest].
  - exists (mk_false nv). split; [reflexivity|]. split; [apply canonical_mk_false|]. split; [reflexivity|].
    intros v. apply eval_mk_false.
  - destruct ((var =? nv) || is_nil rest) eqn:B.
    + assert (forallb (fun cx => pv_eq cx c) rest = true) as D.
      { apply orb_true_iff in B. destruct B as [B|B].
        - apply N.eqb_eq in B. subst var. apply (agree_all_eq nv c rest A R).
        - destruct rest; [reflexivity|discriminate]. }
      rewrite D. exists (mk_partial_valuation nv c). split; [reflexivity|].
      destruct (mk_partial_valuation_correct nv c (R c (or_introl eq_refl))) as (K & Nv & S).
      split; [exact K|]. split; [exact Nv|]. intros v. rewrite S. rewrite (dup_existsb v c rest D). reflexivity.
    + apply orb_false_iff in B. destruct B as (B1 & B2). apply N.eqb_neq in B1.
      assert (var < nv) as Hlt by lia. destruct (N.ltb_spec var nv) as [_|]; [|lia]. cbn [negb].
      destruct (existsb (fun c' => pv_has_value c' var) (c :: rest)) eqn:SB; cbn [negb].
      * destruct (split3 var (c :: rest)) as ((dc & ht) & hf) eqn:SP.
        destruct (split3_props var (c :: rest) dc ht hf SP) as (I1 & I2 & I3 & I4 & _).
        destruct (IH (var + 1) dc ltac:(lia) ltac:(lia) (agree_class var _ dc None A I1)
                    (fun d Hd => R d (proj1 (I1 d Hd)))) as (r1 & E1 & K1 & N1 & S1).
        destruct (IH (var + 1) ht ltac:(lia) ltac:(lia) (agree_class var _ ht (Some true) A I2)
                    (fun d Hd => R d (proj1 (I2 d Hd)))) as (r2 & E2 & K2 & N2 & S2).
        destruct (IH (var + 1) hf ltac:(lia) ltac:(lia) (agree_class var _ hf (Some false) A I3)
                    (fun d Hd => R d (proj1 (I3 d Hd)))) as (r3 & E3 & K3 & N3 & S3).
        rewrite E1, E2, E3. cbn [bind].
        destruct (bdd_or_correct r1 r2 (proj1 K1) (proj1 K2) ltac:(congruence)) as (r12 & E12 & K12 & N12 & S12).
        destruct (bdd_or_correct r12 r3 (proj1 K12) (proj1 K3) ltac:(congruence)) as (r & E & K & N' & S).
        rewrite E12. cbn [bind]. exists r. split; [exact E|]. split; [exact K|]. split; [congruence|].
        intros v. rewrite S, S12, S1, S2, S3. symmetry. apply I4.
      * apply IH; [lia|lia|apply agree_skip; assumption|exact R].
Qed.

Theorem mk_dnf_faithful_correct nv cs : (forall c, In c cs -> cells_in_range nv c = true) ->
  exists r, mk_dnf_faithful nv cs = Ok r /\ Canonical r /\ nvars r = nv /\
            forall v, eval r v = existsb (clause_sat v) cs.
Proof.
  intros R. apply dnf_rec_correct; [lia|lia| |exact R]. intros c c' _ _ x Hx. lia.
Qed.
Print Assumptions mk_dnf_faithful_correct.

Theorem mk_dnf_faithful_eq_model nv cs : (forall c, In c cs -> cells_in_range nv c = true) ->
  mk_dnf_faithful nv cs = mk_dnf nv cs.
Proof.
  intros R. destruct (mk_dnf_faithful_correct nv cs R) as (r & E & K & Nv & S).
  destruct (mk_dnf_correct nv cs R) as (r' & E' & _ & Nv' & S' & K').
  rewrite E, E'. f_equal. apply canonical_unique; [exact K|exact K'|congruence|].
  intros v. rewrite S, S'. reflexivity.
Qed.
Print Assumptions mk_dnf_faithful_eq_model.

(* inside the variable set the recursion neither panics (the duplicate assertion and `assert!(var < num_vars)`
   hold, `or` gets operands over the same variable count) nor runs out of fuel *)
Corollary mk_dnf_faithful_panic_only_out_of_range nv cs :
  mk_dnf_faithful nv cs = Panic -> exists c, In c cs /\ cells_in_range nv c = false.
Proof.
  intros H. destruct (forallb (cells_in_range nv) cs) eqn:F; [|apply forallb_false_ex; exact F].
  rewrite forallb_forall in F. destruct (mk_dnf_faithful_correct nv cs F) as (r & E & _). congruence.
Qed.

(* the code as it is: a single clause is handed to Bdd::mk_partial_valuation unchecked — a clause mentioning a
   variable >= num_vars is NOT rejected (the fold model mk_dnf, like BddVariableSet::mk_conjunctive_clause, panics) *)
Theorem mk_dnf_faithful_single nv c : mk_dnf_faithful nv [c] = Ok (mk_partial_valuation nv c).
Proof. unfold mk_dnf_faithful. cbn [dnf_rec is_nil forallb]. rewrite orb_true_r. reflexivity. Qed.
Print Assumptions mk_dnf_faithful_single.

(* ======================================================================================== *)
(* mk_cnf_faithful: total characterisation (the CNF leaves go through the asserting clause constructor) *)
Lemma cnf_rec_spec nv : forall fuel var cs,
  var <= nv -> (N.to_nat (nv - var) < fuel)%nat -> agree var cs ->
  (forallb (cells_in_range nv) cs = true ->
     exists r, cnf_rec fuel var nv cs = Ok r /\ Canonical r /\ nvars r = nv /\
               forall v, eval r v = forallb (dclause_sat v) cs) /\
  (forallb (cells_in_range nv) cs = false -> cnf_rec fuel var nv cs = Panic).
Proof.
  induction fuel as [|fuel IH]; intros var cs Hle Hf A; [lia|].
  cbn [cnf_rec]. destruct cs as [|c rest].
  - split; [|discriminate]. intros _.
    exists (mk_true nv). split; [reflexivity|]. split; [apply canonical_mk_true|]. split; [reflexivity|].
    intros v. apply eval_mk_true.
  - destruct ((var =? nv) || is_nil rest) eqn:B.
    + destruct (forallb (fun cx => pv_eq cx c) rest) eqn:D.
      * rewrite (dup_range nv c rest D). split; intros R.
        -- destruct (mk_disjunctive_clause_correct nv c R) as (r & E & _ & Nv & S & K).
           exists r. split; [exact E|]. split; [exact K|]. split; [exact Nv|].
           intros v. rewrite S. rewrite (dup_forallb v c rest D). reflexivity.
        -- apply mk_disjunctive_clause_panic. exact R.
      * split; [|reflexivity]. intros R. exfalso.
        apply orb_true_iff in B. destruct B as [B|B].
        -- apply N.eqb_eq in B. subst var. rewrite forallb_forall in R.
           rewrite (agree_all_eq nv c rest A R) in D. discriminate.
        -- destruct rest; [discriminate D|discriminate B].
    + apply orb_false_iff in B. destruct B as (B1 & B2). apply N.eqb_neq in B1.
      assert (var < nv) as Hlt by lia. destruct (N.ltb_spec var nv) as [_|]; [|lia]. cbn [negb].
      destruct (existsb (fun c' => pv_has_value c' var) (c :: rest)) eqn:SB; cbn [negb].
      * destruct (split3 var (c :: rest)) as ((dc & ht) & hf) eqn:SP.
        destruct (split3_props var (c :: rest) dc ht hf SP) as (I1 & I2 & I3 & _ & I5).
        destruct (IH (var + 1) dc ltac:(lia) ltac:(lia) (agree_class var _ dc None A I1)) as (P1 & Q1).
        destruct (IH (var + 1) ht ltac:(lia) ltac:(lia) (agree_class var _ ht (Some true) A I2)) as (P2 & Q2).
        destruct (IH (var + 1) hf ltac:(lia) ltac:(lia) (agree_class var _ hf (Some false) A I3)) as (P3 & Q3).
        rewrite (I5 (cells_in_range nv)).
        destruct (forallb (cells_in_range nv) dc) eqn:F1; [|split; [discriminate|]; intros _; rewrite (Q1 eq_refl); reflexivity].
        destruct (P1 eq_refl) as (r1 & E1 & K1 & N1 & S1). rewrite E1. cbn [bind].
        destruct (forallb (cells_in_range nv) ht) eqn:F2; [|split; [discriminate|]; intros _; rewrite (Q2 eq_refl); reflexivity].
        destruct (P2 eq_refl) as (r2 & E2 & K2 & N2 & S2). rewrite E2. cbn [bind].
        destruct (forallb (cells_in_range nv) hf) eqn:F3; [|split; [discriminate|]; intros _; rewrite (Q3 eq_refl); reflexivity].
        destruct (P3 eq_refl) as (r3 & E3 & K3 & N3 & S3). rewrite E3. cbn [bind].
        split; [|discriminate]. intros _.
        destruct (bdd_and_correct r1 r2 (proj1 K1) (proj1 K2) ltac:(congruence)) as (r12 & E12 & K12 & N12 & S12).
        destruct (bdd_and_correct r12 r3 (proj1 K12) (proj1 K3) ltac:(congruence)) as (r & E & K & N' & S).
        rewrite E12. cbn [bind]. exists r. split; [exact E|]. split; [exact K|]. split; [congruence|].
        intros v. rewrite S, S12, S1, S2, S3. symmetry. apply (I5 (dclause_sat v)).
      * apply IH; [lia|lia|apply agree_skip; assumption].
Qed.

Lemma agree_0 cs : agree 0 cs. Proof. intros c c' _ _ x Hx. lia. Qed.

Theorem mk_cnf_faithful_correct nv cs : (forall c, In c cs -> cells_in_range nv c = true) ->
  exists r, mk_cnf_faithful nv cs = Ok r /\ Canonical r /\ nvars r = nv /\
            forall v, eval r v = forallb (dclause_sat v) cs.
Proof.
  intros R. apply (cnf_rec_spec nv (S (N.to_nat nv)) 0 cs ltac:(lia) ltac:(lia) (agree_0 cs)).
  apply forallb_forall. exact R.
Qed.
Print Assumptions mk_cnf_faithful_correct.

Theorem mk_cnf_faithful_panic_iff nv cs :
  mk_cnf_faithful nv cs = Panic <-> exists c, In c cs /\ cells_in_range nv c = false.
Proof.
  destruct (cnf_rec_spec nv (S (N.to_nat nv)) 0 cs ltac:(lia) ltac:(lia) (agree_0 cs)) as (P & Q).
  fold (mk_cnf_faithful nv cs) in *. split.
  - intros H. destruct (forallb (cells_in_range nv) cs) eqn:F; [|apply forallb_false_ex; exact F].
    destruct (P eq_refl) as (r & E & _). congruence.
  - intros (c & Hin & Hc). apply Q. destruct (forallb (cells_in_range nv) cs) eqn:F; [|reflexivity].
    rewrite forallb_forall in F. rewrite (F c Hin) in Hc. discriminate.
Qed.
Print Assumptions mk_cnf_faithful_panic_iff.

(* the CNF recursion and the fold agree on EVERY input (both panic exactly on an out-of-range clause) *)
Theorem mk_cnf_faithful_eq_model nv cs : mk_cnf_faithful nv cs = mk_cnf nv cs.
Proof.
  destruct (forallb (cells_in_range nv) cs) eqn:F.
  - rewrite forallb_forall in F. destruct (mk_cnf_faithful_correct nv cs F) as (r & E & K & Nv & S).
    destruct (mk_cnf_correct nv cs F) as (r' & E' & _ & Nv' & S' & K').
    rewrite E, E'. f_equal. apply canonical_unique; [exact K|exact K'|congruence|].
    intros v. rewrite S, S'. reflexivity.
  - apply forallb_false_ex in F. rewrite (proj2 (mk_cnf_faithful_panic_iff nv cs) F).
    symmetry. apply mk_cnf_panic. exact F.
Qed.
Print Assumptions mk_cnf_faithful_eq_model.

(* ======================================================================================== *)
(* to_dnf_faithful / to_cnf_faithful                                                         *)

(* partial valuations as finite maps: equal up to trailing unset cells ( = BddPartialValuation::eq, pv_eq_iff) *)
Definition pv_equiv (a b : pval) : Prop := forall x, pv_get a x = pv_get b x.
(* the path vector after the edges q have been written into it *)
Definition overlay (pi : pval) (q : path) : pval :=
  fold_left (fun pv xc => pv_set pv (N.to_nat (fst xc)) (Some (snd xc))) q pi.

Lemma overlay_clause q : overlay [] q = clause_of_path q. Proof. reflexivity. Qed.

Lemma overlay_cons pi x c q : overlay pi ((x, c) :: q) = overlay (pv_set pi (N.to_nat x) (Some c)) q.
Proof. reflexivity. Qed.

Lemma pv_equiv_refl a : pv_equiv a a. Proof. intros x. reflexivity. Qed.
Lemma pv_equiv_sym a b : pv_equiv a b -> pv_equiv b a. Proof. intros H x. symmetry. apply H. Qed.
Lemma pv_equiv_trans a b c : pv_equiv a b -> pv_equiv b c -> pv_equiv a c.
Proof. intros H1 H2 x. rewrite H1. apply H2. Qed.

Lemma pv_set_equiv a b x c : pv_equiv a b -> pv_equiv (pv_set a (N.to_nat x) c) (pv_set b (N.to_nat x) c).
Proof. intros E y. rewrite !pv_get_set. destruct (x =? y); [reflexivity|apply E]. Qed.

Lemma overlay_equiv q : forall a b, pv_equiv a b -> pv_equiv (overlay a q) (overlay b q).
Proof.
  induction q as [|[y d] q IH]; intros a b E; [exact E|].
  rewrite !overlay_cons. apply IH. apply pv_set_equiv. exact E.
Qed.

Lemma Forall2_map_r {A B C} (R : A -> C -> Prop) (f : B -> C) L Q :
  Forall2 (fun r q => R r (f q)) L Q -> Forall2 R L (map f Q).
Proof. induction 1; cbn [map]; constructor; assumption. Qed.

Lemma Forall2_weaken {A B} (R1 R2 : A -> B -> Prop) L Q :
  (forall a b, R1 a b -> R2 a b) -> Forall2 R1 L Q -> Forall2 R2 L Q.
Proof. intros H. induction 1; constructor; auto. Qed.

Section Extraction.
  Variable b : bdd.
  Hypothesis Hwf : wf b.

  (* one iteration of the while loop *)
  Lemma loop_zero f g rest pi acc : to_dnf_loop (S f) b ((0, g) :: rest) pi acc = to_dnf_loop f b rest pi acc.
  Proof. reflexivity. Qed.
  Lemma loop_one f g rest pi acc : to_dnf_loop (S f) b ((1, g) :: rest) pi acc = to_dnf_loop f b rest pi (pi :: acc).
  Proof. reflexivity. Qed.
  Lemma loop_low p f rest pi acc : 2 <= p -> p < size b ->
    to_dnf_loop (S f) b ((p, Some true) :: rest) pi acc =
    to_dnf_loop f b ((nlow (get b p), Some true) :: (p, Some false) :: rest)
                (pv_set pi (N.to_nat (nvar (get b p))) (Some false)) acc.
  Proof.
    intros H2 Hs. cbn [to_dnf_loop].
    destruct (N.eqb_spec p 0); [lia|]. destruct (N.eqb_spec p 1); [lia|]. destruct (N.ltb_spec p (size b)); [|lia].
    reflexivity.
  Qed.
  Lemma loop_high p f rest pi acc : 2 <= p -> p < size b ->
    to_dnf_loop (S f) b ((p, Some false) :: rest) pi acc =
    to_dnf_loop f b ((nhigh (get b p), Some true) :: (p, None) :: rest)
                (pv_set pi (N.to_nat (nvar (get b p))) (Some true)) acc.
  Proof.
    intros H2 Hs. cbn [to_dnf_loop].
    destruct (N.eqb_spec p 0); [lia|]. destruct (N.eqb_spec p 1); [lia|]. destruct (N.ltb_spec p (size b)); [|lia].
    reflexivity.
  Qed.
  Lemma loop_done p f rest pi acc : 2 <= p -> p < size b ->
    to_dnf_loop (S f) b ((p, None) :: rest) pi acc =
    to_dnf_loop f b rest (pv_set pi (N.to_nat (nvar (get b p))) None) acc.
  Proof.
    intros H2 Hs. cbn [to_dnf_loop].
    destruct (N.eqb_spec p 0); [lia|]. destruct (N.eqb_spec p 1); [lia|]. destruct (N.ltb_spec p (size b)); [|lia].
    reflexivity.
  Qed.

  (* the run over the sub-diagram below p: dnf_steps iterations later the frame is gone, the path vector is the
     same map as before, and the clauses of the DFS enumeration (written over the current path) have been pushed *)
  Lemma dnf_node : forall k p, valid b p -> (N.to_nat (nvars b - var_of b p) < k)%nat ->
    forall pi, (forall y, var_of b p <= y -> pv_get pi y = None) ->
    exists pi' L, pv_equiv pi' pi /\
      Forall2 (fun r q => pv_equiv r (overlay pi q)) L (paths_to 1 k b p) /\
      forall f rest acc, to_dnf_loop (dnf_steps k b p + f) b ((p, Some true) :: rest) pi acc =
                         to_dnf_loop f b rest pi' (rev L ++ acc).
  Proof.
    induction k as [|k IH]; intros p Vp Hk pi Hpi; [lia|].
    cbn [paths_to dnf_steps]. destruct (N.ltb_spec p 2) as [Hlt|Hge].
    - assert (p = 0 \/ p = 1) as [->| ->] by lia.
      + exists pi, []. split; [apply pv_equiv_refl|]. split; [constructor|]. intros f rest acc. reflexivity.
      + exists pi, [pi]. split; [apply pv_equiv_refl|]. split; [constructor; [apply pv_equiv_refl|constructor]|].
        intros f rest acc. reflexivity.
    - destruct Vp as (Vp & _). destruct (wf_children b p Hwf Hge Vp) as (Vl & Vh & Hl & Hh & Hnv).
      set (n := get b p) in *. set (x := nvar n) in *.
      assert (Hx : var_of b p = x) by reflexivity.
      (* low child *)
      destruct (IH (nlow n) Vl ltac:(lia) (pv_set pi (N.to_nat x) (Some false))) as (pi1 & L1 & Q1 & F1 & R1).
      { intros y Hy. rewrite pv_get_set. destruct (N.eqb_spec x y); [lia|]. apply Hpi. lia. }
      (* high child *)
      destruct (IH (nhigh n) Vh ltac:(lia) (pv_set pi1 (N.to_nat x) (Some true))) as (pi2 & L2 & Q2 & F2 & R2).
      { intros y Hy. rewrite pv_get_set. destruct (N.eqb_spec x y); [lia|]. rewrite Q1, pv_get_set.
        destruct (N.eqb_spec x y); [lia|]. apply Hpi. lia. }
      exists (pv_set pi2 (N.to_nat x) None), (L1 ++ L2). split; [|split].
      + intros y. rewrite pv_get_set. destruct (N.eqb_spec x y) as [->|Hne].
        * symmetry. apply Hpi. lia.
        * rewrite Q2, pv_get_set. destruct (N.eqb_spec x y); [lia|]. rewrite Q1, pv_get_set.
          destruct (N.eqb_spec x y); [lia|]. reflexivity.
      + apply Forall2_app; apply Forall2_map_r.
        * exact F1.
        * assert (E2 : pv_equiv (pv_set pi1 (N.to_nat x) (Some true)) (pv_set pi (N.to_nat x) (Some true))).
          { intros y. rewrite !pv_get_set. destruct (N.eqb_spec x y); [reflexivity|].
            rewrite Q1, pv_get_set. destruct (N.eqb_spec x y); [lia|reflexivity]. }
          apply (Forall2_weaken _ _ _ _ (fun r q H => pv_equiv_trans _ _ _ H (overlay_equiv q _ _ E2)) F2).
      + intros f rest acc.
        replace (3 + dnf_steps k b (nlow n) + dnf_steps k b (nhigh n) + f)%nat
          with (S (dnf_steps k b (nlow n) + S (dnf_steps k b (nhigh n) + S f)))%nat by lia.
        rewrite (loop_low p _ _ _ _ Hge Vp). fold n x. rewrite R1.
        rewrite (loop_high p _ _ _ _ Hge Vp). fold n x. rewrite R2.
        rewrite (loop_done p _ _ _ _ Hge Vp). fold n x.
        rewrite rev_app_distr, <- app_assoc. reflexivity.
  Qed.
End Extraction.

Section ExtractionCnf.
  Variable b : bdd.
  Hypothesis Hwf : wf b.

  Lemma cnf_node : forall k p, valid b p -> (N.to_nat (nvars b - var_of b p) < k)%nat ->
    forall pi acc, (forall y, var_of b p <= y -> pv_get pi y = None) ->
    exists pi' L, to_cnf_rec k b p pi acc = Ok (pi', rev L ++ acc) /\ pv_equiv pi' pi /\
      Forall2 (fun r q => pv_equiv r (overlay pi (negate_path q))) L (paths_to 0 k b p).
  Proof.
    induction k as [|k IH]; intros p Vp Hk pi acc Hpi; [lia|].
    cbn [paths_to to_cnf_rec]. destruct (N.ltb_spec p 2) as [Hlt|Hge].
    - assert (p = 0 \/ p = 1) as [->| ->] by lia.
      + exists pi, [pi]. split; [reflexivity|]. split; [apply pv_equiv_refl|].
        constructor; [apply pv_equiv_refl|constructor].
      + exists pi, []. split; [reflexivity|]. split; [apply pv_equiv_refl|constructor].
    - destruct Vp as (Vp & _). destruct (wf_children b p Hwf Hge Vp) as (Vl & Vh & Hl & Hh & Hnv).
      destruct (N.ltb_spec p (size b)) as [_|]; [|lia]. cbn [negb].
      set (n := get b p) in *. set (x := nvar n) in *.
      assert (Hx : var_of b p = x) by reflexivity.
      (* low child: skipped when it is the 1-terminal (which has no path to 0) *)
      assert (exists pa L1,
                (if nlow n =? 1 then Ok (pi, acc)
                 else unset_after (N.to_nat x) (to_cnf_rec k b (nlow n) (pv_set pi (N.to_nat x) (Some true)) acc))
                = Ok (pa, rev L1 ++ acc) /\ pv_equiv pa pi /\
                Forall2 (fun r q => pv_equiv r (overlay pi (negate_path q)))
                        L1 (map (cons (x, false)) (paths_to 0 k b (nlow n)))) as (pa & L1 & E1 & Q1 & F1).
      { destruct (N.eqb_spec (nlow n) 1) as [E|NE].
        - exists pi, []. split; [reflexivity|]. split; [apply pv_equiv_refl|].
          rewrite E. destruct k; cbn [paths_to map]; constructor.
        - destruct (IH (nlow n) Vl ltac:(lia) (pv_set pi (N.to_nat x) (Some true)) acc) as (p1 & L1 & E1 & Q1 & F1).
          { intros y Hy. rewrite pv_get_set. destruct (N.eqb_spec x y); [lia|]. apply Hpi. lia. }
          exists (pv_set p1 (N.to_nat x) None), L1. split; [rewrite E1; reflexivity|]. split.
          + intros y. rewrite pv_get_set. destruct (N.eqb_spec x y) as [->|Hne].
            * symmetry. apply Hpi. lia.
            * rewrite Q1, pv_get_set. destruct (N.eqb_spec x y); [lia|reflexivity].
          + apply Forall2_map_r. exact F1. }
      rewrite E1. cbn [bind fst snd].
      destruct (N.eqb_spec (nhigh n) 1) as [E|NE].
      + exists pa, L1. split; [reflexivity|]. split; [exact Q1|].
        rewrite E. replace (paths_to 0 k b 1) with (@nil path) by (destruct k; reflexivity).
        cbn [map]. rewrite app_nil_r. exact F1.
      + destruct (IH (nhigh n) Vh ltac:(lia) (pv_set pa (N.to_nat x) (Some false)) (rev L1 ++ acc)) as (p2 & L2 & E2 & Q2 & F2).
        { intros y Hy. rewrite pv_get_set. destruct (N.eqb_spec x y); [lia|]. rewrite Q1. apply Hpi. lia. }
        exists (pv_set p2 (N.to_nat x) None), (L1 ++ L2). split; [|split].
        * rewrite E2. cbn [unset_after bind fst snd]. rewrite rev_app_distr, <- app_assoc. reflexivity.
        * intros y. rewrite pv_get_set. destruct (N.eqb_spec x y) as [->|Hne].
          -- symmetry. apply Hpi. lia.
          -- rewrite Q2, pv_get_set. destruct (N.eqb_spec x y); [lia|]. apply Q1.
        * apply Forall2_app; [exact F1|]. apply Forall2_map_r.
          assert (EE : pv_equiv (pv_set pa (N.to_nat x) (Some false)) (pv_set pi (N.to_nat x) (Some false))).
          { apply pv_set_equiv. exact Q1. }
          apply (Forall2_weaken _ _ _ _ (fun r q H => pv_equiv_trans _ _ _ H (overlay_equiv (negate_path q) _ _ EE)) F2).
  Qed.
End ExtractionCnf.

(* ---- pv_trim: the normal form of a partial valuation under == ---- *)
Lemma trim_all_none a : (forall n, nth n a None = None) -> pv_trim a = [].
Proof.
  induction a as [|c r IH]; intros H; [reflexivity|]. cbn [pv_trim].
  rewrite IH by (intros n; apply (H (S n))). specialize (H O). cbn [nth] in H. subst c. reflexivity.
Qed.

Lemma trim_nat_equiv a : forall a', (forall n, nth n a None = nth n a' None) -> pv_trim a = pv_trim a'.
Proof.
  induction a as [|c r IH]; intros a' H.
  - symmetry. apply trim_all_none. intros n. rewrite <- H. destruct n; reflexivity.
  - destruct a' as [|d s].
    + apply trim_all_none. intros n. rewrite H. destruct n; reflexivity.
    + pose proof (H O) as H0. cbn [nth] in H0. subst d. cbn [pv_trim].
      rewrite (IH s) by (intros n; apply (H (S n))). reflexivity.
Qed.

Lemma pv_trim_equiv a a' : pv_equiv a a' -> pv_trim a = pv_trim a'.
Proof.
  intros H. apply trim_nat_equiv. intros n. specialize (H (N.of_nat n)). unfold pv_get in H.
  rewrite Nnat.Nat2N.id in H. exact H.
Qed.

Lemma pv_set_nonnil a k c : pv_set a k c <> [].
Proof. destruct k, a; discriminate. Qed.

Lemma trim_cons_inv x r : pv_trim (x :: r) = x :: r -> pv_trim r = r.
Proof. cbn [pv_trim]. destruct x, (pv_trim r); intros H; congruence. Qed.

Lemma trim_cons_nonnil x t : pv_trim t = t -> t <> [] -> pv_trim (x :: t) = x :: t.
Proof. intros H Hn. cbn [pv_trim]. rewrite H. destruct x, t; congruence. Qed.

Lemma pv_set_some_trimmed : forall k a c, pv_trim a = a -> pv_trim (pv_set a k (Some c)) = pv_set a k (Some c).
Proof.
  induction k as [|k IH]; intros a c H.
  - destruct a as [|x r]; [reflexivity|]. apply trim_cons_inv in H. cbn [pv_set pv_trim]. rewrite H. reflexivity.
  - destruct a as [|x r]; cbn [pv_set].
    + apply trim_cons_nonnil; [apply IH; reflexivity|apply pv_set_nonnil].
    + apply trim_cons_inv in H. apply trim_cons_nonnil; [apply IH; exact H|apply pv_set_nonnil].
Qed.

Lemma overlay_trimmed q : forall a, pv_trim a = a -> pv_trim (overlay a q) = overlay a q.
Proof.
  induction q as [|[y d] q IH]; intros a H; [exact H|]. rewrite overlay_cons. apply IH.
  apply pv_set_some_trimmed. exact H.
Qed.

Lemma clause_of_path_trimmed q : pv_trim (clause_of_path q) = clause_of_path q.
Proof. rewrite <- overlay_clause. apply overlay_trimmed. reflexivity. Qed.

Lemma Forall2_trim L : forall Q (f : path -> pval), Forall2 (fun r q => pv_equiv r (f q)) L Q ->
  (forall q, pv_trim (f q) = f q) -> map pv_trim L = map f Q.
Proof.
  intros Q f H T. induction H as [|r q L Q H1 H2 IH]; [reflexivity|]. cbn [map]. rewrite IH.
  f_equal. rewrite (pv_trim_equiv _ _ H1). apply T.
Qed.

Lemma Forall2_pv_eq L : forall Q (f : path -> pval), Forall2 (fun r q => pv_equiv r (f q)) L Q ->
  Forall2 (fun r c => pv_eq r c = true) L (map f Q).
Proof.
  intros Q f H. apply Forall2_map_r. apply (Forall2_weaken _ _ _ _ (fun r q E => proj2 (pv_eq_iff r (f q)) E) H).
Qed.

(* ---- the theorems ---- *)
Lemma to_dnf_faithful_run b : wf b ->
  exists l, to_dnf_faithful b = Ok l /\ Forall2 (fun r q => pv_equiv r (clause_of_path q)) l (paths b).
Proof.
  intros Hwf. unfold to_dnf_faithful. pose proof (size_pos b Hwf) as Hs.
  destruct (N.eqb_spec (size b) 0) as [|_]; [lia|].
  destruct (dnf_node b Hwf (path_fuel b) (root b) (root_valid b Hwf) (root_fuel b Hwf) [])
    as (pi' & L & _ & F & R).
  { intros y _. unfold pv_get. destruct (N.to_nat y); reflexivity. }
  exists L. split; [|exact F].
  replace (S (dnf_steps (path_fuel b) b (root b))) with (dnf_steps (path_fuel b) b (root b) + 1)%nat by lia.
  rewrite R. cbn [to_dnf_loop]. rewrite app_nil_r, rev_involutive. reflexivity.
Qed.

(* the stack / path machine yields the DFS list of Model/Paths.v: the same clauses in the same order, each vector
   carrying in addition the trailing unset cells the mutable path has accumulated (dropped by pv_trim; invisible to
   BddPartialValuation::eq = pv_eq); no panic, fuel suffices *)
Theorem to_dnf_faithful_eq b : wf b -> exists l, to_dnf_faithful b = Ok l /\ map pv_trim l = to_dnf b.
Proof.
  intros Hwf. destruct (to_dnf_faithful_run b Hwf) as (l & E & F). exists l. split; [exact E|].
  unfold to_dnf. apply Forall2_trim; [exact F|apply clause_of_path_trimmed].
Qed.
Print Assumptions to_dnf_faithful_eq.

Theorem to_dnf_faithful_pv_eq b : wf b ->
  exists l, to_dnf_faithful b = Ok l /\ Forall2 (fun r c => pv_eq r c = true) l (to_dnf b).
Proof.
  intros Hwf. destruct (to_dnf_faithful_run b Hwf) as (l & E & F). exists l. split; [exact E|].
  unfold to_dnf. apply Forall2_pv_eq. exact F.
Qed.
Print Assumptions to_dnf_faithful_pv_eq.

Lemma to_cnf_faithful_run b : wf b ->
  exists l, to_cnf_faithful b = Ok l /\
            Forall2 (fun r q => pv_equiv r (clause_of_path (negate_path q))) l (zero_paths b).
Proof.
  intros Hwf. unfold to_cnf_faithful. pose proof (size_pos b Hwf) as Hs.
  destruct (N.eqb_spec (size b) 0) as [|_]; [lia|].
  destruct (cnf_node b Hwf (path_fuel b) (root b) (root_valid b Hwf) (root_fuel b Hwf) [] [])
    as (pi' & L & E & _ & F).
  { intros y _. unfold pv_get. destruct (N.to_nat y); reflexivity. }
  exists L. split; [|exact F]. rewrite E. cbn [bind snd]. rewrite app_nil_r, rev_involutive. reflexivity.
Qed.

Theorem to_cnf_faithful_eq b : wf b -> exists l, to_cnf_faithful b = Ok l /\ map pv_trim l = to_cnf b.
Proof.
  intros Hwf. destruct (to_cnf_faithful_run b Hwf) as (l & E & F). exists l. split; [exact E|].
  unfold to_cnf. apply (Forall2_trim l (zero_paths b) (fun q => clause_of_path (negate_path q))); [exact F|].
  intros q. apply clause_of_path_trimmed.
Qed.
Print Assumptions to_cnf_faithful_eq.

Theorem to_cnf_faithful_pv_eq b : wf b ->
  exists l, to_cnf_faithful b = Ok l /\ Forall2 (fun r c => pv_eq r c = true) l (to_cnf b).
Proof.
  intros Hwf. destruct (to_cnf_faithful_run b Hwf) as (l & E & F). exists l. split; [exact E|].
  unfold to_cnf. apply (Forall2_pv_eq l (zero_paths b) (fun q => clause_of_path (negate_path q))). exact F.
Qed.
Print Assumptions to_cnf_faithful_pv_eq.

(* ---- concrete instances ---- *)
(* the padding is real: for !x0 & x1 | x0 the second clause comes out as [Some true; None], not [Some true] *)
Definition ex_pad : bdd := [mkNode 2 0 0; mkNode 2 1 1; mkNode 1 0 1; mkNode 0 2 1].
Example to_dnf_faithful_padding :
  canonicalb ex_pad = true /\
  to_dnf_faithful ex_pad = Ok [[Some false; Some true]; [Some true; None]] /\
  to_dnf ex_pad = [[Some false; Some true]; [Some true]].
Proof. vm_compute. repeat split. Qed.

(* outside the variable set the DNF recursion and the fold differ: the Rust (and mk_dnf_faithful) returns a malformed
   diagram for a single clause over x1 with num_vars = 1, and panics in the duplicate assertion for two such clauses
   that differ; the CNF recursion panics in both cases *)
Example mk_dnf_faithful_out_of_range :
  mk_dnf_faithful 1 [[None; Some true]] = Ok [mkNode 1 0 0; mkNode 1 1 1; mkNode 1 0 1] /\
  mk_dnf 1 [[None; Some true]] = Panic /\
  mk_dnf_faithful 1 [[None; Some true]; [None; Some false]] = Panic /\
  mk_cnf_faithful 1 [[None; Some true]] = Panic.
Proof. vm_compute. repeat split. Qed.

Example mk_dnf_faithful_example :
  mk_dnf_faithful 4 [[None; Some true; Some true]; [Some true; Some false; Some true]; [Some false; Some true; Some false];
                     [Some true; Some false; Some true]]
  = Ok [mkNode 4 0 0; mkNode 4 1 1; mkNode 2 0 1; mkNode 1 0 1; mkNode 0 3 2].
Proof. vm_compute. reflexivity. Qed.

(* ---- end to end on the library's own algorithms: extraction followed by construction returns the operand ---- *)
Lemma pv_eq_list_props nv l l' : Forall2 (fun r c => pv_eq r c = true) l l' ->
  (forall c, In c l' -> cells_in_range nv c = true) ->
  (forall c, In c l -> cells_in_range nv c = true) /\
  (forall v, existsb (clause_sat v) l = existsb (clause_sat v) l') /\
  (forall v, forallb (dclause_sat v) l = forallb (dclause_sat v) l').
Proof.
  induction 1 as [|r c l l' E F IH]; intros R.
  - split; [intros c []|]. split; reflexivity.
  - destruct (IH (fun d Hd => R d (or_intror Hd))) as (I1 & I2 & I3).
    pose proof (pv_eq_pv_cells _ _ E) as EC. split; [|split].
    + intros d [<-|Hd]; [|apply I1; exact Hd]. unfold cells_in_range. rewrite EC. apply (R c). left. reflexivity.
    + intros v. cbn [existsb]. rewrite I2. unfold clause_sat at 1 3. rewrite EC. reflexivity.
    + intros v. cbn [forallb]. rewrite I3. unfold dclause_sat at 1 3. rewrite EC. reflexivity.
Qed.

Theorem dnf_faithful_roundtrip b : Canonical b ->
  exists l, to_dnf_faithful b = Ok l /\ mk_dnf_faithful (nvars b) l = Ok b.
Proof.
  intros Cb. pose proof (proj1 Cb) as Hwf.
  destruct (to_dnf_faithful_pv_eq b Hwf) as (l & E & F). exists l. split; [exact E|].
  destruct (pv_eq_list_props (nvars b) l (to_dnf b) F (to_dnf_in_range b Hwf)) as (R & S & _).
  destruct (mk_dnf_faithful_correct (nvars b) l R) as (r & Er & Kr & Nr & Sr).
  rewrite Er. f_equal. apply canonical_unique; [exact Kr|exact Cb|exact Nr|].
  intros v. rewrite Sr, S. symmetry. apply to_dnf_sem, Hwf.
Qed.
Print Assumptions dnf_faithful_roundtrip.

Theorem cnf_faithful_roundtrip b : Canonical b ->
  exists l, to_cnf_faithful b = Ok l /\ mk_cnf_faithful (nvars b) l = Ok b.
Proof.
  intros Cb. pose proof (proj1 Cb) as Hwf.
  destruct (to_cnf_faithful_pv_eq b Hwf) as (l & E & F). exists l. split; [exact E|].
  destruct (pv_eq_list_props (nvars b) l (to_cnf b) F (to_cnf_in_range b Hwf)) as (R & _ & S).
  destruct (mk_cnf_faithful_correct (nvars b) l R) as (r & Er & Kr & Nr & Sr).
  rewrite Er. f_equal. apply canonical_unique; [exact Kr|exact Cb|exact Nr|].
  intros v. rewrite Sr, S. symmetry. apply to_cnf_sem, Hwf.
Qed.
Print Assumptions cnf_faithful_roundtrip.
