(* Proofs/PvalSem.v — partial valuations: pv_from_values ("last literal wins"), pv_cells,
   mk_partial_valuation (canonical conjunction chain), select, and the pointwise reading of restrict. *)
From Coq Require Import List PeanoNat NArith Lia Bool.
Import ListNotations.
From BddVerif Require Import Model.Bdd Model.Apply Model.Ops Proofs.Sem Proofs.Canon Proofs.ApplySem Proofs.ApplyTop
  Proofs.RelSem.
Open Scope N_scope.

(* ======================================================================================== *)
(* pv_from_values: the last pair for a variable wins                                         *)

Fixpoint last_value (l : list (N * bool)) (x : N) : option bool :=
  match l with
  | [] => None
  | (y, c) :: r => match last_value r x with
                   | Some d => Some d
                   | None => if y =? x then Some c else None
                   end
  end.

Lemma last_value_in l x c : last_value l x = Some c -> In (x, c) l.
Proof.
  induction l as [|[y d] l IH]; cbn [last_value]; [discriminate|].
  destruct (last_value l x) as [e|].
  - intros H. right. apply IH. exact H.
  - destruct (N.eqb_spec y x) as [->|]; [|discriminate]. intros H. inversion H. now left.
Qed.

Lemma nth_pv_set pv : forall k c n, nth n (pv_set pv k c) None = if Nat.eqb n k then c else nth n pv None.
Proof.
  induction pv as [|a pv IH].
  - induction k as [|k IHk]; intros c n.
    + destruct n as [|[|n]]; reflexivity.
    + cbn [pv_set]. destruct n as [|n]; [reflexivity|]. cbn [nth Nat.eqb]. rewrite IHk.
      destruct (Nat.eqb n k); [reflexivity|]. destruct n; reflexivity.
  - intros [|k] c [|n]; cbn [pv_set nth Nat.eqb]; try reflexivity. apply IH.
Qed.

Lemma pv_get_set pv y c x : pv_get (pv_set pv (N.to_nat y) c) x = if y =? x then c else pv_get pv x.
Proof.
  unfold pv_get. rewrite nth_pv_set.
  destruct (N.eqb_spec y x) as [->|Hne].
  - now rewrite Nat.eqb_refl.
  - destruct (Nat.eqb_spec (N.to_nat x) (N.to_nat y)); [lia|reflexivity].
Qed.

Lemma pv_fold_get l x : forall acc,
  pv_get (fold_left (fun pv xc => pv_set pv (N.to_nat (fst xc)) (Some (snd xc))) l acc) x =
  match last_value l x with Some d => Some d | None => pv_get acc x end.
Proof.
  induction l as [|[y c] l IH]; intros acc; [reflexivity|].
  cbn [fold_left fst snd last_value]. rewrite IH.
  destruct (last_value l x); [reflexivity|]. rewrite pv_get_set.
  destruct (y =? x); reflexivity.
Qed.

Theorem pv_from_values_get l x : pv_get (pv_from_values l) x = last_value l x.
Proof.
  unfold pv_from_values. rewrite pv_fold_get.
  destruct (last_value l x); [reflexivity|]. unfold pv_get. destruct (N.to_nat x); reflexivity.
Qed.
Print Assumptions pv_from_values_get.

(* ======================================================================================== *)
(* pv_cells: exactly the fixed cells, in ascending order                                     *)

Lemma pv_cells_from_in pv : forall i x c,
  In (x, c) (pv_cells_from i pv) <-> i <= x /\ nth (N.to_nat (x - i)) pv None = Some c.
Proof.
  induction pv as [|a pv IH]; intros i x c.
  - cbn. split; [tauto|]. intros (_ & H). destruct (N.to_nat (x - i)); discriminate.
  - assert (Hstep : i + 1 <= x -> N.to_nat (x - i) = S (N.to_nat (x - (i + 1)))) by lia.
    destruct a as [d|]; cbn [pv_cells_from].
    + cbn [In]. rewrite IH. split.
      * intros [H|(Hle & H)].
        -- inversion H; subst. split; [lia|]. rewrite N.sub_diag. reflexivity.
        -- split; [lia|]. rewrite Hstep by assumption. exact H.
      * intros (Hle & H). destruct (N.eq_dec x i) as [->|Hne].
        -- rewrite N.sub_diag in H. cbn in H. inversion H. now left.
        -- right. split; [lia|]. rewrite Hstep in H by lia. exact H.
    + rewrite IH. split.
      * intros (Hle & H). split; [lia|]. rewrite Hstep by assumption. exact H.
      * intros (Hle & H). destruct (N.eq_dec x i) as [->|Hne].
        -- rewrite N.sub_diag in H. discriminate.
        -- split; [lia|]. rewrite Hstep in H by lia. exact H.
Qed.

Theorem pv_cells_in pv x c : In (x, c) (pv_cells pv) <-> pv_get pv x = Some c.
Proof.
  unfold pv_cells, pv_get. rewrite pv_cells_from_in, N.sub_0_r. split; [tauto|]. intros H; split; [lia|exact H].
Qed.

Fixpoint asc_from (i : N) (l : list (N * bool)) : Prop :=
  match l with [] => True | xc :: r => i <= fst xc /\ asc_from (fst xc + 1) r end.

Lemma asc_from_le i j l : i <= j -> asc_from j l -> asc_from i l.
Proof. destruct l as [|[x c] l]; cbn; [tauto|]. intros H (H1 & H2). split; [lia|assumption]. Qed.

Lemma pv_cells_from_asc pv : forall i, asc_from i (pv_cells_from i pv).
Proof.
  induction pv as [|[d|] pv IH]; intros i; cbn [pv_cells_from].
  - exact I.
  - cbn [asc_from fst]. split; [lia|apply IH].
  - apply (asc_from_le i (i + 1)); [lia|apply IH].
Qed.

Lemma asc_len nv l : forall i, i <= nv -> asc_from i l -> Forall (fun xc => fst xc < nv) l ->
  N.of_nat (length l) + i <= nv.
Proof.
  induction l as [|[x c] l IH]; intros i Hi Ha HF; cbn [length]; [lia|].
  cbn [asc_from fst] in Ha. destruct Ha as (Hx & Ha). inversion HF as [|? ? Hlt HF']; subst. cbn [fst] in Hlt.
  specialize (IH (x + 1) ltac:(lia) Ha HF'). lia.
Qed.

(* ======================================================================================== *)
(* appending one node to a well-formed store                                                 *)

Lemma get_app_lt (G l : list node) p : p < size G -> get (G ++ l) p = get G p.
Proof. intros H. unfold get, size in *. apply app_nth1. lia. Qed.
Lemma get_app_at (G : list node) n : get (G ++ [n]) (size G) = n.
Proof. unfold get, size. rewrite Nnat.Nat2N.id. rewrite app_nth2 by lia. now rewrite Nat.sub_diag. Qed.
Lemma size_snoc (G : list node) n : size (G ++ [n]) = size G + 1.
Proof. unfold size. rewrite app_length. cbn [length]. lia. Qed.

Lemma wf_snoc B n : wf B -> 2 <= size B -> nvar n < nvars B -> nlow n < size B -> nhigh n < size B ->
  nvar n < var_of B (nlow n) -> nvar n < var_of B (nhigh n) ->
  wf (B ++ [n]) /\ nvars (B ++ [n]) = nvars B.
Proof.
  intros W Hs Hv Hl Hh Hvl Hvh.
  assert (NV : nvars (B ++ [n]) = nvars B).
  { unfold nvars. rewrite get_app_lt by lia. reflexivity. }
  split; [|exact NV]. pose proof W as (W1 & W0 & W1' & Wn).
  unfold wf. rewrite NV, size_snoc. split; [lia|].
  split; [rewrite get_app_lt by lia; exact W0|].
  split; [intros _; rewrite get_app_lt by lia; now apply W1'|].
  intros p Hp Hlt. unfold wf_node, var_of. rewrite size_snoc.
  destruct (N.eq_dec p (size B)) as [->|Hne].
  - rewrite get_app_at. rewrite !get_app_lt by assumption. unfold var_of in *. repeat split; lia.
  - assert (Hp' : p < size B) by lia.
    destruct (Wn p Hp Hp') as (A1 & A2 & A3 & A4 & A5). unfold var_of in *.
    rewrite (get_app_lt B [n] p) by assumption. rewrite !get_app_lt by assumption.
    repeat split; try assumption; lia.
Qed.

Lemma wf_closed B : wf B -> 2 <= size B -> forall i, i < size B -> nlow (get B i) < size B /\ nhigh (get B i) < size B.
Proof.
  intros (W1 & W0 & W1' & Wn) Hs i Hi.
  destruct (N.ltb_spec i 2) as [Hlt|Hge].
  - assert (i = 0 \/ i = 1) as [->| ->] by lia; [rewrite W0|rewrite W1' by assumption]; cbn; lia.
  - destruct (Wn i Hge Hi) as (_ & A2 & A3 & _). split; assumption.
Qed.

Lemma sem_snoc B n p v : wf B -> wf (B ++ [n]) -> nvars (B ++ [n]) = nvars B -> 2 <= size B -> p < size B ->
  sem (B ++ [n]) p v = sem B p v.
Proof.
  intros W W' NV Hs Hp. symmetry.
  apply (prefix_sem B (B ++ [n]) (size B) W W' (eq_sym NV) Hs ltac:(lia) ltac:(rewrite size_snoc; lia))
    with (k := S (N.to_nat (nvars B - var_of B p))); try assumption; try lia.
  - intros i Hi. symmetry. now apply get_app_lt.
  - intros i _ Hi. now apply wf_closed.
Qed.

Lemma chk_prefix G G' n : (forall i, i < n -> get G' i = get G i) ->
  (forall i, i < n -> nlow (get G i) < n /\ nhigh (get G i) < n) ->
  forall fuel lim p, p < n -> chk fuel G' lim p = chk fuel G lim p.
Proof.
  intros Hpre Hcl. induction fuel as [|f IH]; intros lim p Hp; [reflexivity|]. cbn [chk].
  destruct (p <? lim); [reflexivity|]. rewrite (Hpre p Hp).
  destruct (Hcl p Hp) as (Hl & Hh). rewrite (IH lim _ Hh).
  destruct (chk f G lim (nhigh (get G p))) as [l1|]; [|reflexivity].
  rewrite (IH l1 _ Hl). reflexivity.
Qed.

(* ======================================================================================== *)
(* mk_partial_valuation                                                                      *)

Definition sat_cells (cells : list (N * bool)) (v : val) : bool :=
  forallb (fun xc => Bool.eqb (v (fst xc)) (snd xc)) cells.

Lemma conj_chain_app l1 : forall l2 acc, conj_chain (l1 ++ l2) acc = conj_chain l2 (conj_chain l1 acc).
Proof.
  induction l1 as [|[x c] l1 IH]; intros l2 acc; [reflexivity|]. cbn [app conj_chain]. apply IH.
Qed.

Record chain_ok (nv i : N) (l : list (N * bool)) (B : bdd) : Prop := {
  ck_wf : wf B;
  ck_nv : nvars B = nv;
  ck_size : size B = 2 + N.of_nat (length l);
  ck_root : i <= var_of B (size B - 1);
  ck_vars : forall q, 2 <= q -> q < size B -> i <= var_of B q;
  ck_red : reduced B;
  ck_chk : forall fuel, (length l < fuel)%nat -> chk fuel B 2 (size B - 1) = Some (size B);
  ck_eval : forall v, eval B v = sat_cells l v
}.

Lemma mk_true_wf nv : wf (mk_true nv).
Proof.
  split; [cbn; lia|]. split; [reflexivity|]. split; [reflexivity|].
  intros p Hp Hlt. cbn in Hlt. lia.
Qed.

Lemma chain_ok_all nv l : forall i, i <= nv -> asc_from i l -> Forall (fun xc => fst xc < nv) l ->
  chain_ok nv i l (conj_chain (rev l) (mk_true nv)).
Proof.
  induction l as [|[x c] l IH]; intros i Hi Ha HF.
  - cbn [rev conj_chain]. constructor.
    + apply mk_true_wf.
    + reflexivity.
    + reflexivity.
    + exact Hi.
    + intros q Hq Hlt. cbn in Hlt. lia.
    + split; intros; cbn in *; lia.
    + intros [|f] Hf; [cbn in Hf; lia|reflexivity].
    + reflexivity.
  - cbn [asc_from fst] in Ha. destruct Ha as (Hix & Ha).
    inversion HF as [|? ? Hx HF']; subst. cbn [fst] in Hx.
    specialize (IH (x + 1) ltac:(lia) Ha HF').
    cbn [rev]. rewrite conj_chain_app. set (B := conj_chain (rev l) (mk_true nv)) in *.
    cbn [conj_chain].
    destruct IH as [W NV SZ RT VS RD CK EV].
    set (root := size B - 1) in *.
    set (n := if c then mkNode x 0 root else mkNode x root 0).
    assert (Hs : 2 <= size B) by lia.
    assert (Hroot : root < size B /\ 1 <= root) by (subst root; lia).
    assert (Hv0 : var_of B 0 = nv).
    { unfold var_of. destruct W as (_ & W0 & _). rewrite W0, NV. reflexivity. }
    assert (Hn : nvar n = x /\ ((nlow n = 0 /\ nhigh n = root) \/ (nlow n = root /\ nhigh n = 0))).
    { subst n. destruct c; cbn; auto. }
    destruct Hn as (Hnv & Hkids).
    destruct (wf_snoc B n W Hs) as (W' & NV').
    { rewrite Hnv, NV. exact Hx. }
    { destruct Hkids as [(-> & _)|(-> & _)]; lia. }
    { destruct Hkids as [(_ & ->)|(_ & ->)]; lia. }
    { rewrite Hnv. destruct Hkids as [(-> & _)|(-> & _)]; lia. }
    { rewrite Hnv. destruct Hkids as [(_ & ->)|(_ & ->)]; lia. }
    assert (SZ' : size (B ++ [n]) = size B + 1) by apply size_snoc.
    assert (Hlast : size (B ++ [n]) - 1 = size B) by lia.
    constructor.
    + exact W'.
    + congruence.
    + rewrite SZ', SZ. cbn [length]. lia.
    + rewrite Hlast. unfold var_of. rewrite get_app_at. lia.
    + intros q Hq Hlt. unfold var_of. destruct (N.eq_dec q (size B)) as [->|Hne].
      * rewrite get_app_at. lia.
      * rewrite get_app_lt by lia. specialize (VS q Hq ltac:(lia)). unfold var_of in VS. lia.
    + destruct RD as (R1 & R2). split.
      * intros p Hp Hlt. destruct (N.eq_dec p (size B)) as [->|Hne].
        -- rewrite get_app_at. destruct Hkids as [(-> & ->)|(-> & ->)]; lia.
        -- rewrite get_app_lt by lia. apply R1; lia.
      * intros p q Hp Hlp Hq Hlq E.
        destruct (N.eq_dec p (size B)) as [->|Hnp], (N.eq_dec q (size B)) as [->|Hnq]; [reflexivity| | |].
        -- exfalso. rewrite get_app_at, get_app_lt in E by lia.
           specialize (VS q Hq ltac:(lia)). unfold var_of in VS. rewrite <- E in VS. lia.
        -- exfalso. rewrite get_app_at, get_app_lt in E by lia.
           specialize (VS p Hp ltac:(lia)). unfold var_of in VS. rewrite E in VS. lia.
        -- rewrite !get_app_lt in E by lia. apply R2; try assumption; lia.
    + intros fuel Hf. rewrite Hlast. cbn [length] in Hf.
      destruct fuel as [|f]; [lia|]. cbn [chk].
      destruct (N.ltb_spec (size B) 2) as [|_]; [lia|]. rewrite get_app_at.
      assert (Hpre : forall i0, i0 < size B -> get (B ++ [n]) i0 = get B i0) by (intros; now apply get_app_lt).
      assert (Hroot_chk : forall lim, lim = 2 -> chk f (B ++ [n]) lim root = Some (size B)).
      { intros lim ->. rewrite (chk_prefix B (B ++ [n]) (size B) Hpre (wf_closed B W Hs)) by lia.
        apply CK. lia. }
      assert (Hzero : forall lim, 2 <= lim -> chk f (B ++ [n]) lim 0 = Some lim).
      { intros lim Hlim. destruct f as [|f']; [lia|]. cbn [chk].
        destruct (N.ltb_spec 0 lim); [reflexivity|lia]. }
      destruct Hkids as [(-> & ->)|(-> & ->)].
      * rewrite (Hroot_chk 2 eq_refl), (Hzero (size B) Hs), N.eqb_refl, SZ'. reflexivity.
      * rewrite (Hzero 2 ltac:(lia)), (Hroot_chk 2 eq_refl), N.eqb_refl, SZ'. reflexivity.
    + intros v. unfold eval. rewrite Hlast.
      rewrite sem_unfold; [|assumption|lia|lia].
      unfold var_of. rewrite get_app_at, Hnv.
      unfold sat_cells. cbn [forallb fst snd]. fold (sat_cells l v). rewrite <- EV.
      assert (Hr : sem (B ++ [n]) root v = eval B v).
      { unfold eval. fold root. apply sem_snoc; try assumption; lia. }
      subst n. destruct c, (v x); cbn [nlow nhigh Bool.eqb andb]; try reflexivity; exact Hr.
Qed.

Lemma cells_in_range_forall nv pv : cells_in_range nv pv = true -> Forall (fun xc => fst xc < nv) (pv_cells pv).
Proof.
  unfold cells_in_range. rewrite forallb_forall. intros H. apply Forall_forall. intros xc Hin.
  apply N.ltb_lt. now apply H.
Qed.

Theorem mk_partial_valuation_correct nv pv : cells_in_range nv pv = true ->
  Canonical (mk_partial_valuation nv pv) /\ nvars (mk_partial_valuation nv pv) = nv /\
  forall v, eval (mk_partial_valuation nv pv) v =
            forallb (fun xc => Bool.eqb (v (fst xc)) (snd xc)) (pv_cells pv).
Proof.
  intros HR. apply cells_in_range_forall in HR.
  pose proof (pv_cells_from_asc pv 0) as Ha. fold (pv_cells pv) in Ha.
  pose proof (chain_ok_all nv (pv_cells pv) 0 ltac:(lia) Ha HR) as [W NV SZ RT VS RD CK EV].
  fold (mk_partial_valuation nv pv) in *.
  split; [|split; [exact NV|exact EV]].
  split; [exact W|]. split; [exact RD|]. right. rewrite NV. apply CK.
  pose proof (asc_len nv (pv_cells pv) 0 ltac:(lia) Ha HR). lia.
Qed.
Print Assumptions mk_partial_valuation_correct.

Corollary mk_partial_valuation_wf nv pv : cells_in_range nv pv = true -> wf (mk_partial_valuation nv pv).
Proof. intros H. apply (mk_partial_valuation_correct nv pv H). Qed.

(* pointwise reading: the diagram is true exactly on the valuations extending pv *)
Corollary mk_partial_valuation_true nv pv v : cells_in_range nv pv = true ->
  (eval (mk_partial_valuation nv pv) v = true <-> forall x c, pv_get pv x = Some c -> v x = c).
Proof.
  intros H. destruct (mk_partial_valuation_correct nv pv H) as (_ & _ & E). rewrite E, forallb_forall. split.
  - intros A x c G. apply pv_cells_in in G. specialize (A _ G). cbn [fst snd] in A. now apply eqb_prop.
  - intros A [x c] G. apply pv_cells_in in G. cbn [fst snd]. rewrite (A x c G). apply eqb_reflx.
Qed.
Print Assumptions mk_partial_valuation_true.

Theorem mk_conjunctive_clause_correct nv pv :
  (cells_in_range nv pv = true ->
     exists r, mk_conjunctive_clause nv pv = Ok r /\ Canonical r /\ nvars r = nv /\
       forall v, eval r v = forallb (fun xc => Bool.eqb (v (fst xc)) (snd xc)) (pv_cells pv)) /\
  (cells_in_range nv pv = false -> mk_conjunctive_clause nv pv = Panic).
Proof.
  unfold mk_conjunctive_clause. split; intros H; rewrite H; [|reflexivity].
  exists (mk_partial_valuation nv pv). split; [reflexivity|]. now apply mk_partial_valuation_correct.
Qed.
Print Assumptions mk_conjunctive_clause_correct.

(* ======================================================================================== *)
(* select                                                                                    *)

Lemma from_values_in_range nv lits : Forall (fun xc => fst xc < nv) lits ->
  cells_in_range nv (pv_from_values lits) = true.
Proof.
  intros HF. unfold cells_in_range. apply forallb_forall. intros [x c] Hin. cbn [fst].
  apply pv_cells_in in Hin. rewrite pv_from_values_get in Hin. apply last_value_in in Hin.
  rewrite Forall_forall in HF. apply N.ltb_lt. apply (HF _ Hin).
Qed.

Theorem select_correct b lits : wf b -> Forall (fun xc => fst xc < nvars b) lits ->
  exists r, select b lits = Ok r /\ Canonical r /\ nvars r = nvars b /\
    forall v, eval r v = eval b v &&
      forallb (fun xc => Bool.eqb (v (fst xc)) (snd xc)) (pv_cells (pv_from_values lits)).
Proof.
  intros W HF. unfold select.
  destruct (mk_partial_valuation_correct (nvars b) (pv_from_values lits) (from_values_in_range _ _ HF))
    as (K & NV & EV).
  destruct (bdd_and_correct b _ W (canonical_wf _ K) (eq_sym NV)) as (r & E & Kr & Nr & Sr).
  exists r. split; [assumption|]. split; [assumption|]. split; [assumption|].
  intros v. rewrite Sr, EV. reflexivity.
Qed.
Print Assumptions select_correct.

(* pointwise reading: r holds at v iff b does and v gives every mentioned variable its LAST listed value *)
Corollary select_true b lits : wf b -> Forall (fun xc => fst xc < nvars b) lits ->
  exists r, select b lits = Ok r /\ Canonical r /\ nvars r = nvars b /\
    forall v, eval r v = true <-> (eval b v = true /\ forall x c, last_value lits x = Some c -> v x = c).
Proof.
  intros W HF. destruct (select_correct b lits W HF) as (r & E & K & N & S).
  exists r. split; [assumption|]. split; [assumption|]. split; [assumption|].
  intros v. rewrite S, andb_true_iff, forallb_forall. split; intros (A & B); (split; [exact A|]).
  - intros x c L. rewrite <- pv_from_values_get in L. apply pv_cells_in in L.
    specialize (B _ L). cbn [fst snd] in B. now apply eqb_prop.
  - intros [x c] L. apply pv_cells_in in L. rewrite pv_from_values_get in L. cbn [fst snd].
    rewrite (B x c L). apply eqb_reflx.
Qed.
Print Assumptions select_true.

(* ======================================================================================== *)
(* pointwise reading of override / restrict                                                  *)

Lemma override_in v cells y c : In (y, c) cells ->
  (forall c1 c2, In (y, c1) cells -> In (y, c2) cells -> c1 = c2) -> override v cells y = c.
Proof.
  induction cells as [|[x d] cells IH]; intros Hin Hf; [destruct Hin|].
  cbn [override fst snd]. unfold upd. destruct (N.eqb_spec y x) as [->|Hne].
  - apply Hf; [now left|exact Hin].
  - apply IH.
    + destruct Hin as [H|H]; [inversion H; congruence|exact H].
    + intros c1 c2 H1 H2. apply Hf; now right.
Qed.

Lemma override_notin v cells y : (forall c, ~ In (y, c) cells) -> override v cells y = v y.
Proof.
  induction cells as [|[x d] cells IH]; intros Hn; [reflexivity|].
  cbn [override fst snd]. unfold upd. destruct (N.eqb_spec y x) as [->|Hne].
  - exfalso. apply (Hn d). now left.
  - apply IH. intros c H. apply (Hn c). now right.
Qed.

Theorem override_pv v pv y :
  override v (pv_cells pv) y = match pv_get pv y with Some c => c | None => v y end.
Proof.
  destruct (pv_get pv y) as [c|] eqn:G.
  - apply override_in; [now apply pv_cells_in|].
    intros c1 c2 H1 H2. apply pv_cells_in in H1, H2. congruence.
  - apply override_notin. intros c H. apply pv_cells_in in H. congruence.
Qed.

(* restrict: every listed variable is replaced by its LAST listed value *)
Theorem restrict_last_value b lits : wf b ->
  exists r, restrict b lits = Ok r /\ Canonical r /\ nvars r = nvars b /\
    forall v, eval r v = eval b (fun y => match last_value lits y with Some c => c | None => v y end).
Proof.
  intros W. destruct (restrict_correct b lits W) as (r & E & K & N & S).
  exists r. split; [assumption|]. split; [assumption|]. split; [assumption|].
  intros v. rewrite S. apply eval_ext. intros y. rewrite override_pv, pv_from_values_get. reflexivity.
Qed.
Print Assumptions restrict_last_value.

Example select_example :
  let f := [mkNode 3 0 0; mkNode 3 1 1; mkNode 1 0 1; mkNode 0 2 1] in
  pv_cells (pv_from_values [(0, true); (0, false); (2, true)]) = [(0, false); (2, true)] /\
  mk_partial_valuation 3 (pv_from_values [(0, true); (0, false); (2, true)])
    = [mkNode 3 0 0; mkNode 3 1 1; mkNode 2 0 1; mkNode 0 2 0] /\
  select f [(0, true); (0, false); (2, true)]
    = Ok [mkNode 3 0 0; mkNode 3 1 1; mkNode 2 0 1; mkNode 1 0 2; mkNode 0 3 0].
Proof. vm_compute. repeat split; reflexivity. Qed.
