(* Proofs/Paths.v — the DFS path enumeration: every path leads to its terminal, the paths cover the
   function, they are pairwise incompatible and distinct; clause forms (to_dnf / to_cnf) and their semantics. *)
From Coq Require Import List NArith Lia Bool PeanoNat.
Import ListNotations.
From BddVerif Require Import Model.Bdd Model.Apply Model.Ops Model.Paths Proofs.Sem Proofs.Canon Proofs.PvalSem
  Proofs.NormalForms.
Open Scope N_scope.

(* a total valuation extends a path iff it agrees with every literal of the path *)
Definition extends (v : val) (p : path) : bool := forallb (lit v) p.

(* ------------------------------------------------------------------------------------------ *)
(* list helpers                                                                                *)
Lemma existsb_ext_cons v xc L : existsb (extends v) (map (cons xc) L) = lit v xc && existsb (extends v) L.
Proof.
  induction L as [|p L IH]; cbn [map existsb]; [now rewrite andb_false_r|].
  rewrite IH. unfold extends at 1. cbn [forallb]. fold (extends v p).
  now rewrite andb_orb_distrib_r.
Qed.

Lemma NoDup_app' {A} (l1 l2 : list A) : NoDup l1 -> NoDup l2 -> (forall x, In x l1 -> ~ In x l2) -> NoDup (l1 ++ l2).
Proof.
  induction l1 as [|a l1 IH]; intros H1 H2 HD; [exact H2|].
  cbn [app]. inversion H1 as [|? ? Ha H1']; subst. constructor.
  - intros Hin. apply in_app_or in Hin. destruct Hin as [Hin|Hin]; [contradiction|].
    apply (HD a (or_introl eq_refl) Hin).
  - apply IH; [assumption|assumption|]. intros x Hx. apply HD. now right.
Qed.

Lemma NoDup_map_cons {A} (a : A) (L : list (list A)) : NoDup L -> NoDup (map (cons a) L).
Proof.
  induction L as [|p L IH]; intros H; cbn [map]; [constructor|].
  inversion H as [|? ? Hp H']; subst. constructor; [|now apply IH].
  intros Hin. apply in_map_iff in Hin. destruct Hin as (q & Hq & Hin). inversion Hq; subst. contradiction.
Qed.

Lemma NoDup_flat_map {A B} (f : A -> list B) (l : list A) :
  NoDup l -> (forall x, In x l -> NoDup (f x)) ->
  (forall x y z, In x l -> In y l -> In z (f x) -> In z (f y) -> x = y) ->
  NoDup (flat_map f l).
Proof.
  induction l as [|a l IH]; intros Hl Hf Hd; cbn [flat_map]; [constructor|].
  inversion Hl as [|? ? Ha Hl']; subst.
  apply NoDup_app'.
  - apply Hf. now left.
  - apply IH; [assumption| |].
    + intros x Hx. apply Hf. now right.
    + intros x y z Hx Hy. apply Hd; now right.
  - intros z Hz Hz'. apply in_flat_map in Hz'. destruct Hz' as (y & Hy & Hzy).
    assert (a = y) by (apply (Hd a y z); [now left|now right|assumption|assumption]).
    subst y. contradiction.
Qed.

Lemma forallb_in_equiv {A} (f : A -> bool) l1 l2 : (forall x, In x l1 <-> In x l2) -> forallb f l1 = forallb f l2.
Proof.
  intros H. apply eq_true_iff_eq. rewrite !forallb_forall. split; intros G x Hx; apply G, H, Hx.
Qed.

Lemma existsb_in_equiv {A} (f : A -> bool) l1 l2 : (forall x, In x l1 <-> In x l2) -> existsb f l1 = existsb f l2.
Proof.
  intros H. apply eq_true_iff_eq. rewrite !existsb_exists.
  split; intros (x & Hx & Fx); exists x; (split; [apply H, Hx|exact Fx]).
Qed.

(* ------------------------------------------------------------------------------------------ *)
(* semantics of the enumeration: a valuation extends some path to t iff it evaluates to t      *)
Lemma paths_to_sem b t : wf b -> t < 2 -> forall k p v, valid b p -> (N.to_nat (nvars b - var_of b p) < k)%nat ->
  existsb (extends v) (paths_to t k b p) = Bool.eqb (sem b p v) (t =? 1).
Proof.
  intros Hwf Ht. induction k as [|k IH]; intros p v Vp Hk; [lia|].
  cbn [paths_to]. destruct (N.ltb_spec p 2) as [Hlt|Hge].
  - assert (p = 0 \/ p = 1) as [->| ->] by lia; assert (t = 0 \/ t = 1) as [->| ->] by lia; reflexivity.
  - destruct Vp as (Vp & _). destruct (wf_children b p Hwf Hge Vp) as (Vl & Vh & Hl & Hh & Hnv).
    rewrite existsb_app, !existsb_ext_cons. rewrite (sem_unfold b p v Hwf Hge Vp).
    rewrite !IH by (try assumption; lia).
    unfold lit, var_of. cbn [fst snd]. destruct (v (nvar (get b p))); cbn [Bool.eqb andb orb].
    + reflexivity.
    + now rewrite orb_false_r.
Qed.

Lemma root_valid b : wf b -> valid b (root b).
Proof. intros Hwf. pose proof (size_pos b Hwf). unfold root. split; [lia|intros; lia]. Qed.

Lemma root_fuel b : wf b -> (N.to_nat (nvars b - var_of b (root b)) < path_fuel b)%nat.
Proof. intros _. unfold path_fuel. lia. Qed.

Theorem paths_sem b v : wf b -> existsb (extends v) (paths b) = eval b v.
Proof.
  intros Hwf. unfold paths. rewrite (paths_to_sem b 1 Hwf ltac:(lia) _ _ v (root_valid b Hwf) (root_fuel b Hwf)).
  unfold eval, root. destruct (sem b (size b - 1) v); reflexivity.
Qed.

Theorem zero_paths_sem b v : wf b -> existsb (extends v) (zero_paths b) = negb (eval b v).
Proof.
  intros Hwf. unfold zero_paths. rewrite (paths_to_sem b 0 Hwf ltac:(lia) _ _ v (root_valid b Hwf) (root_fuel b Hwf)).
  unfold eval, root. destruct (sem b (size b - 1) v); reflexivity.
Qed.

(* every path leads to 1: any valuation extending it satisfies b *)
Theorem paths_sat b : wf b -> forall p v, In p (paths b) -> extends v p = true -> eval b v = true.
Proof.
  intros Hwf p v Hin He. rewrite <- (paths_sem b v Hwf). apply existsb_exists. exists p. split; assumption.
Qed.

(* every satisfying valuation extends some path *)
Theorem paths_cover b : wf b -> forall v, eval b v = true -> exists p, In p (paths b) /\ extends v p = true.
Proof. intros Hwf v He. rewrite <- (paths_sem b v Hwf) in He. apply existsb_exists in He. exact He. Qed.

(* ------------------------------------------------------------------------------------------ *)
(* two paths of the enumeration extended by a common valuation are the same path, and no path   *)
(* occurs twice: every satisfying valuation extends EXACTLY ONE element of the list             *)
Lemma paths_to_disjoint b t : forall k p p1 p2 v, In p1 (paths_to t k b p) -> In p2 (paths_to t k b p) ->
  extends v p1 = true -> extends v p2 = true -> p1 = p2.
Proof.
  induction k as [|k IH]; intros p p1 p2 v H1 H2 E1 E2; [contradiction|].
  cbn [paths_to] in H1, H2. destruct (p <? 2).
  - destruct (p =? t); [|contradiction]. destruct H1 as [<-|[]]. destruct H2 as [<-|[]]. reflexivity.
  - apply in_app_or in H1. apply in_app_or in H2.
    destruct H1 as [H1|H1]; apply in_map_iff in H1; destruct H1 as (q1 & <- & H1);
    destruct H2 as [H2|H2]; apply in_map_iff in H2; destruct H2 as (q2 & <- & H2);
    unfold extends in E1, E2; cbn [forallb] in E1, E2;
    apply andb_true_iff in E1; apply andb_true_iff in E2; destruct E1 as (L1 & E1); destruct E2 as (L2 & E2).
    + f_equal. exact (IH _ q1 q2 v H1 H2 E1 E2).
    + exfalso. unfold lit in L1, L2. cbn [fst snd] in L1, L2. destruct (v (nvar (get b p))); discriminate.
    + exfalso. unfold lit in L1, L2. cbn [fst snd] in L1, L2. destruct (v (nvar (get b p))); discriminate.
    + f_equal. exact (IH _ q1 q2 v H1 H2 E1 E2).
Qed.

Lemma paths_to_nodup b t : forall k p, NoDup (paths_to t k b p).
Proof.
  induction k as [|k IH]; intros p; cbn [paths_to]; [constructor|].
  destruct (p <? 2).
  - destruct (p =? t); [|constructor]. constructor; [intros []|constructor].
  - apply NoDup_app'; try (apply NoDup_map_cons; apply IH).
    intros x Hl Hh. apply in_map_iff in Hl. apply in_map_iff in Hh.
    destruct Hl as (q1 & <- & _). destruct Hh as (q2 & E & _). discriminate.
Qed.

Theorem paths_disjoint b : forall p1 p2 v, In p1 (paths b) -> In p2 (paths b) ->
  extends v p1 = true -> extends v p2 = true -> p1 = p2.
Proof. intros p1 p2 v. apply paths_to_disjoint. Qed.

Theorem paths_nodup b : NoDup (paths b).
Proof. apply paths_to_nodup. Qed.

(* index form: two DIFFERENT positions of the list cannot be extended by the same valuation *)
Theorem paths_disjoint_positions b : forall i j p1 p2 v, i <> j ->
  nth_error (paths b) i = Some p1 -> nth_error (paths b) j = Some p2 ->
  extends v p1 = true -> extends v p2 = true -> False.
Proof.
  intros i j p1 p2 v Hij H1 H2 E1 E2.
  assert (p1 = p2) by (apply (paths_disjoint b p1 p2 v); eauto using nth_error_In). subst p2.
  apply Hij. apply (proj1 (NoDup_nth_error (paths b)) (paths_nodup b)).
  - apply nth_error_Some. congruence.
  - congruence.
Qed.

(* ------------------------------------------------------------------------------------------ *)
(* shape of a path: variables strictly increasing, all below nvars                             *)
Lemma asc_le lo lo' l : lo <= lo' -> asc lo' l -> asc lo l.
Proof. destruct l as [|xc l]; cbn [asc]; [auto|]. intros H (H1 & H2). split; [lia|exact H2]. Qed.

Lemma asc_in lo l : asc lo l -> forall x c, In (x, c) l -> lo <= x.
Proof.
  revert lo. induction l as [|[y d] l IH]; intros lo Ha x c Hin; [contradiction|].
  cbn [asc fst] in Ha. destruct Ha as (H1 & H2). destruct Hin as [E|Hin].
  - inversion E; subst. exact H1.
  - specialize (IH _ H2 x c Hin). lia.
Qed.

Lemma paths_to_shape b t : wf b -> forall k p q, valid b p -> In q (paths_to t k b p) ->
  asc (var_of b p) q /\ Forall (fun xc => fst xc < nvars b) q.
Proof.
  intros Hwf. induction k as [|k IH]; intros p q Vp Hin; [contradiction|].
  cbn [paths_to] in Hin. destruct (N.ltb_spec p 2) as [Hlt|Hge].
  - destruct (p =? t); [|contradiction]. destruct Hin as [<-|[]]. split; [exact I|constructor].
  - destruct Vp as (Vp & _). destruct (wf_children b p Hwf Hge Vp) as (Vl & Vh & Hl & Hh & Hnv).
    apply in_app_or in Hin. destruct Hin as [Hin|Hin]; apply in_map_iff in Hin; destruct Hin as (r & <- & Hin).
    + destruct (IH _ r Vl Hin) as (A & F). split.
      * cbn [asc fst]. split; [unfold var_of; lia|]. apply asc_le with (lo' := var_of b (nlow (get b p))); [unfold var_of in *; lia|exact A].
      * constructor; [exact Hnv|exact F].
    + destruct (IH _ r Vh Hin) as (A & F). split.
      * cbn [asc fst]. split; [unfold var_of; lia|]. apply asc_le with (lo' := var_of b (nhigh (get b p))); [unfold var_of in *; lia|exact A].
      * constructor; [exact Hnv|exact F].
Qed.

Lemma paths_shape b : wf b -> forall q, In q (paths b) -> asc 0 q /\ Forall (fun xc => fst xc < nvars b) q.
Proof.
  intros Hwf q Hin. destruct (paths_to_shape b 1 Hwf _ _ q (root_valid b Hwf) Hin) as (A & F).
  split; [apply asc_le with (lo' := var_of b (root b)); [lia|exact A]|exact F].
Qed.

Lemma zero_paths_shape b : wf b -> forall q, In q (zero_paths b) -> asc 0 q /\ Forall (fun xc => fst xc < nvars b) q.
Proof.
  intros Hwf q Hin. destruct (paths_to_shape b 0 Hwf _ _ q (root_valid b Hwf) Hin) as (A & F).
  split; [apply asc_le with (lo' := var_of b (root b)); [lia|exact A]|exact F].
Qed.

(* ------------------------------------------------------------------------------------------ *)
(* from a path to the clause (partial valuation) the library hands out                         *)
Lemma asc_last_value l : forall lo, asc lo l -> forall x c, last_value l x = Some c <-> In (x, c) l.
Proof.
  induction l as [|[y d] l IH]; intros lo Ha x c.
  - cbn. split; [discriminate|tauto].
  - split; [apply last_value_in|]. cbn [asc fst] in Ha. destruct Ha as (H1 & H2).
    intros Hin. cbn [last_value]. destruct Hin as [E|Hin].
    + inversion E; subst. destruct (last_value l x) as [e|] eqn:L.
      * exfalso. apply last_value_in in L. pose proof (asc_in _ _ H2 _ _ L). lia.
      * now rewrite N.eqb_refl.
    + rewrite (proj2 (IH _ H2 x c) Hin). reflexivity.
Qed.

Lemma clause_of_path_cells lo q : asc lo q -> forall xc, In xc (pv_cells (clause_of_path q)) <-> In xc q.
Proof.
  intros Ha [x c]. unfold clause_of_path. rewrite pv_cells_in, pv_from_values_get. apply (asc_last_value q lo Ha).
Qed.

Lemma clause_sat_path v lo q : asc lo q -> clause_sat v (clause_of_path q) = extends v q.
Proof. intros Ha. unfold clause_sat, extends, lit. apply forallb_in_equiv. apply (clause_of_path_cells lo q Ha). Qed.

Lemma dclause_sat_path v lo q : asc lo q -> dclause_sat v (clause_of_path q) = existsb (lit v) q.
Proof. intros Ha. unfold dclause_sat, lit. apply existsb_in_equiv. apply (clause_of_path_cells lo q Ha). Qed.

Lemma negate_path_asc q : forall lo, asc lo q -> asc lo (negate_path q).
Proof. induction q as [|[x c] q IH]; intros lo; cbn [negate_path map asc fst]; [auto|]. intros (H1 & H2). split; [exact H1|apply IH, H2]. Qed.

Lemma negate_path_range nv q : Forall (fun xc => fst xc < nv) q -> Forall (fun xc : N * bool => fst xc < nv) (negate_path q).
Proof. intros H. unfold negate_path. apply Forall_map. cbn [fst]. exact H. Qed.

Lemma negate_path_sat v q : existsb (lit v) (negate_path q) = negb (extends v q).
Proof.
  induction q as [|[x c] q IH]; [reflexivity|]. cbn [negate_path map existsb]. fold (negate_path q). rewrite IH.
  unfold extends. cbn [forallb]. unfold lit at 1 3. cbn [fst snd]. rewrite negb_andb.
  destruct (v x), c; reflexivity.
Qed.

(* ------------------------------------------------------------------------------------------ *)
(* to_dnf / sat_clauses / to_cnf                                                               *)
Theorem to_dnf_eq_clauses b : to_dnf b = sat_clauses b.
Proof. reflexivity. Qed.

Lemma existsb_map {A B} (f : B -> bool) (g : A -> B) l : existsb f (map g l) = existsb (fun x => f (g x)) l.
Proof. induction l as [|a l IH]; [reflexivity|]. cbn [map existsb]. now rewrite IH. Qed.

Lemma forallb_map {A B} (f : B -> bool) (g : A -> B) l : forallb f (map g l) = forallb (fun x => f (g x)) l.
Proof. induction l as [|a l IH]; [reflexivity|]. cbn [map forallb]. now rewrite IH. Qed.

Lemma existsb_ext_in {A} (f g : A -> bool) l : (forall x, In x l -> f x = g x) -> existsb f l = existsb g l.
Proof.
  induction l as [|a l IH]; intros H; [reflexivity|]. cbn [existsb]. rewrite (H a (or_introl eq_refl)), IH; [reflexivity|].
  intros x Hx. apply H. now right.
Qed.

Lemma forallb_ext_in {A} (f g : A -> bool) l : (forall x, In x l -> f x = g x) -> forallb f l = forallb g l.
Proof.
  induction l as [|a l IH]; intros H; [reflexivity|]. cbn [forallb]. rewrite (H a (or_introl eq_refl)), IH; [reflexivity|].
  intros x Hx. apply H. now right.
Qed.

Theorem to_dnf_sem b : wf b -> forall v, eval b v = existsb (clause_sat v) (to_dnf b).
Proof.
  intros Hwf v. rewrite <- (paths_sem b v Hwf). unfold to_dnf. rewrite existsb_map.
  apply existsb_ext_in. intros q Hq. symmetry. apply (clause_sat_path v 0). apply (paths_shape b Hwf q Hq).
Qed.

Lemma negb_existsb {A} (f : A -> bool) l : negb (existsb f l) = forallb (fun x => negb (f x)) l.
Proof. induction l as [|a l IH]; [reflexivity|]. cbn [existsb forallb]. now rewrite negb_orb, IH. Qed.

Theorem to_cnf_sem b : wf b -> forall v, eval b v = forallb (dclause_sat v) (to_cnf b).
Proof.
  intros Hwf v. rewrite <- (negb_involutive (eval b v)), <- (zero_paths_sem b v Hwf), negb_existsb.
  unfold to_cnf. rewrite forallb_map. apply forallb_ext_in. intros q Hq.
  destruct (zero_paths_shape b Hwf q Hq) as (A & _).
  rewrite (dclause_sat_path v 0 _ (negate_path_asc q 0 A)). now rewrite negate_path_sat.
Qed.

Lemma to_dnf_in_range b : wf b -> forall c, In c (to_dnf b) -> cells_in_range (nvars b) c = true.
Proof.
  intros Hwf c Hc. unfold to_dnf in Hc. apply in_map_iff in Hc. destruct Hc as (q & <- & Hq).
  apply from_values_in_range. apply (paths_shape b Hwf q Hq).
Qed.

Lemma to_cnf_in_range b : wf b -> forall c, In c (to_cnf b) -> cells_in_range (nvars b) c = true.
Proof.
  intros Hwf c Hc. unfold to_cnf in Hc. apply in_map_iff in Hc. destruct Hc as (q & <- & Hq).
  apply from_values_in_range. apply negate_path_range. apply (zero_paths_shape b Hwf q Hq).
Qed.

(* ------------------------------------------------------------------------------------------ *)
(* round trips                                                                                 *)
Theorem dnf_roundtrip b : Canonical b -> mk_dnf (nvars b) (to_dnf b) = Ok b.
Proof.
  intros Cb. pose proof (proj1 Cb) as Hwf.
  destruct (mk_dnf_correct (nvars b) (to_dnf b) (to_dnf_in_range b Hwf)) as (r & E & _ & Nr & S & Cr).
  rewrite E. f_equal. apply canonical_unique; [exact Cr|exact Cb|exact Nr|].
  intros v. rewrite S. symmetry. apply to_dnf_sem, Hwf.
Qed.

Theorem cnf_roundtrip b : Canonical b -> mk_cnf (nvars b) (to_cnf b) = Ok b.
Proof.
  intros Cb. pose proof (proj1 Cb) as Hwf.
  destruct (mk_cnf_correct (nvars b) (to_cnf b) (to_cnf_in_range b Hwf)) as (r & E & _ & Nr & S & Cr).
  rewrite E. f_equal. apply canonical_unique; [exact Cr|exact Cb|exact Nr|].
  intros v. rewrite S. symmetry. apply to_cnf_sem, Hwf.
Qed.

(* the run-time check used by the correspondence for to_optimized_dnf (and to_dnf / to_cnf) is sound:
   if the proved constructor rebuilds exactly b from a clause list, the list denotes b *)
Theorem optimized_dnf_checked b cs : mk_dnf (nvars b) cs = Ok b -> forall v, eval b v = existsb (clause_sat v) cs.
Proof.
  intros E v. destruct (forallb (cells_in_range (nvars b)) cs) eqn:F.
  - rewrite forallb_forall in F. destruct (mk_dnf_correct (nvars b) cs F) as (r & E' & _ & _ & S & _).
    rewrite E in E'. inversion E'; subst r. apply S.
  - destruct (forallb_false_ex _ _ F) as (c & Hc). rewrite (mk_dnf_panic (nvars b) cs (ex_intro _ c Hc)) in E. discriminate.
Qed.

Theorem cnf_checked b cs : mk_cnf (nvars b) cs = Ok b -> forall v, eval b v = forallb (dclause_sat v) cs.
Proof.
  intros E v. destruct (forallb (cells_in_range (nvars b)) cs) eqn:F.
  - rewrite forallb_forall in F. destruct (mk_cnf_correct (nvars b) cs F) as (r & E' & _ & _ & S & _).
    rewrite E in E'. inversion E'; subst r. apply S.
  - destruct (forallb_false_ex _ _ F) as (c & Hc). rewrite (mk_cnf_panic (nvars b) cs (ex_intro _ c Hc)) in E. discriminate.
Qed.

(* ------------------------------------------------------------------------------------------ *)
(* the same facts at the level of the clauses (partial valuations) handed out by sat_clauses    *)
Definition witness_of (q : path) : val := fun x => match last_value q x with Some c => c | None => false end.

Lemma witness_extends lo q : asc lo q -> extends (witness_of q) q = true.
Proof.
  intros Ha. unfold extends. apply forallb_forall. intros [x c] Hin. unfold lit, witness_of. cbn [fst snd].
  rewrite (proj2 (asc_last_value q lo Ha x c) Hin). apply eqb_reflx.
Qed.

Theorem sat_clauses_sem b : wf b -> forall v, eval b v = existsb (clause_sat v) (sat_clauses b).
Proof. exact (to_dnf_sem b). Qed.

Theorem sat_clauses_disjoint b : wf b -> forall c1 c2 v, In c1 (sat_clauses b) -> In c2 (sat_clauses b) ->
  clause_sat v c1 = true -> clause_sat v c2 = true -> c1 = c2.
Proof.
  intros Hwf c1 c2 v H1 H2 S1 S2. unfold sat_clauses in *.
  apply in_map_iff in H1. destruct H1 as (q1 & <- & H1). apply in_map_iff in H2. destruct H2 as (q2 & <- & H2).
  rewrite (clause_sat_path v 0) in S1 by apply (paths_shape b Hwf q1 H1).
  rewrite (clause_sat_path v 0) in S2 by apply (paths_shape b Hwf q2 H2).
  f_equal. apply (paths_disjoint b q1 q2 v H1 H2 S1 S2).
Qed.

Lemma NoDup_map_inj_in {A B} (f : A -> B) l : NoDup l -> (forall x y, In x l -> In y l -> f x = f y -> x = y) -> NoDup (map f l).
Proof.
  induction l as [|a l IH]; intros Hl Hf; cbn [map]; [constructor|]. inversion Hl as [|? ? Ha Hl']; subst. constructor.
  - intros Hin. apply in_map_iff in Hin. destruct Hin as (y & E & Hy).
    assert (y = a) by (apply Hf; [now right|now left|exact E]). subst. contradiction.
  - apply IH; [exact Hl'|]. intros x y Hx Hy. apply Hf; now right.
Qed.

Theorem sat_clauses_nodup b : wf b -> NoDup (sat_clauses b).
Proof.
  intros Hwf. unfold sat_clauses. apply NoDup_map_inj_in; [apply paths_nodup|].
  intros q1 q2 H1 H2 E. destruct (paths_shape b Hwf q1 H1) as (A1 & _). destruct (paths_shape b Hwf q2 H2) as (A2 & _).
  apply (paths_disjoint b q1 q2 (witness_of q1) H1 H2); [apply (witness_extends 0 q1 A1)|].
  rewrite <- (clause_sat_path _ 0 q2 A2), <- E, (clause_sat_path _ 0 q1 A1). apply (witness_extends 0 q1 A1).
Qed.

Theorem dnf_check_complete b cs : Canonical b -> (forall c, In c cs -> cells_in_range (nvars b) c = true) ->
  (forall v, eval b v = existsb (clause_sat v) cs) -> mk_dnf (nvars b) cs = Ok b.
Proof.
  intros Cb Hr Hs. destruct (mk_dnf_correct (nvars b) cs Hr) as (r & E & _ & Nr & S & Cr).
  rewrite E. f_equal. apply canonical_unique; [exact Cr|exact Cb|exact Nr|]. intros v. now rewrite S, Hs.
Qed.
