(* Proofs/Gaps2Owned.v — C08 gap: the owned iterators (Model/OwnedIter.v: state = stored Bdd + iterator state, one transition
   per call of next()) never change the stored Bdd, so `Bdd::from(iterator)` gives back the diagram they were built
   from after any number of calls; and they yield the items of the borrowed iterators. *)
From Coq Require Import List NArith Lia Bool PeanoNat.
Import ListNotations.
From BddVerif Require Import Model.Bdd Model.Apply Model.Ops Model.Paths Model.OwnedIter Proofs.Sem Proofs.Canon
  Proofs.Paths Proofs.PathsVals Proofs.PathsIter Proofs.Gaps2PathIter.
Open Scope N_scope.

(* ======================================================================================== *)
(* OwnedBddPathIterator                                                                      *)
Lemma owned_paths_next_inv s o s' : owned_paths_next s = Ok (o, s') ->
  fst s' = fst s /\
  ((o = None /\ snd s = [] /\ s' = s) \/ exists item, o = Some item /\ path_iter_next (fst s) (snd s) = Ok (Some (item, snd s'))).
Proof.
  unfold owned_paths_next. destruct (path_iter_next (fst s) (snd s)) as [[[item st']|]| |] eqn:E; try discriminate.
  - intros H. inversion H; subst. split; [reflexivity|]. right. exists item. split; reflexivity.
  - intros H. inversion H; subst. split; [reflexivity|]. left. split; [reflexivity|]. split; [|reflexivity].
    unfold path_iter_next in E. destruct (snd s') as [|l r]; [reflexivity|].
    destruct (make_clause (fst s') (l :: r)); cbn [bind] in E; try discriminate.
    destruct (backtrack (fst s') l r); cbn [bind] in E; discriminate.
Qed.

Theorem owned_next_keeps_bdd s o s' : owned_paths_next s = Ok (o, s') -> owned_paths_into_bdd s' = owned_paths_into_bdd s.
Proof. intros H. exact (proj1 (owned_paths_next_inv s o s' H)). Qed.
Print Assumptions owned_next_keeps_bdd.

Lemma owned_paths_new_inv b s : owned_paths_new b = Ok s -> fst s = b /\ path_iter_new b = Ok (snd s).
Proof.
  unfold owned_paths_new. destruct (path_iter_new b) as [st| |]; cbn [bind]; try discriminate.
  intros H. inversion H; subst. split; reflexivity.
Qed.

Theorem owned_new_holds_bdd b s : owned_paths_new b = Ok s -> owned_paths_into_bdd s = b.
Proof. intros H. exact (proj1 (owned_paths_new_inv b s H)). Qed.

Theorem owned_steps_keep_bdd : forall k s items s', owned_paths_steps k s = Ok (items, s') ->
  owned_paths_into_bdd s' = owned_paths_into_bdd s /\ length items = k.
Proof.
  induction k as [|k IH]; intros s items s' H; cbn [owned_paths_steps] in H.
  - inversion H; subst. split; reflexivity.
  - destruct (owned_paths_next s) as [[o s1]| |] eqn:E1; cbn [bind fst snd] in H; try discriminate.
    destruct (owned_paths_steps k s1) as [[l s2]| |] eqn:E2; cbn [bind fst snd] in H; try discriminate.
    inversion H; subst. destruct (IH _ _ _ E2) as (A & B). split.
    + rewrite A. exact (owned_next_keeps_bdd _ _ _ E1).
    + cbn [length]. now rewrite B.
Qed.

(* into_sat_clauses, any number of next() calls, Bdd::from: the diagram that went in *)
Theorem owned_paths_gives_back b s0 k items s : owned_paths_new b = Ok s0 -> owned_paths_steps k s0 = Ok (items, s) ->
  owned_paths_into_bdd s = b.
Proof. intros H0 H. rewrite (proj1 (owned_steps_keep_bdd k s0 items s H)). now apply owned_new_holds_bdd. Qed.
Print Assumptions owned_paths_gives_back.

(* draining the owned iterator is running the borrowed one (every outcome, every diagram, every fuel) *)
Lemma owned_paths_drain_run : forall fuel b st,
  owned_paths_drain fuel (b, st) =
  match path_iter_run fuel b st with Ok l => Ok (l, (b, [])) | Panic => Panic | OutOfFuel => OutOfFuel end.
Proof.
  induction fuel as [|f IH]; intros b st; [reflexivity|]. cbn [owned_paths_drain path_iter_run].
  unfold owned_paths_next. cbn [fst snd].
  destruct (path_iter_next b st) as [[[item st']|]| |] eqn:E; cbn [bind fst snd]; try reflexivity.
  - rewrite IH. destruct (path_iter_run f b st'); reflexivity.
  - unfold path_iter_next in E. destruct st as [|l r]; [reflexivity|].
    destruct (make_clause b (l :: r)); cbn [bind] in E; try discriminate.
    destruct (backtrack b l r); cbn [bind] in E; discriminate.
Qed.

(* collect(): new, then next() until None *)
Definition owned_paths_collect (b : bdd) : outcome (list pval * owned_paths) :=
  bind (owned_paths_new b) (owned_paths_drain (S (S (length (paths b))))).

Theorem owned_paths_same_items b :
  owned_paths_collect b =
  match path_iter b with Ok l => Ok (l, (b, [])) | Panic => Panic | OutOfFuel => OutOfFuel end.
Proof.
  unfold owned_paths_collect, owned_paths_new, path_iter. destruct (path_iter_new b) as [st| |]; cbn [bind]; try reflexivity.
  apply owned_paths_drain_run.
Qed.
Print Assumptions owned_paths_same_items.

(* call by call: the k first answers are the k first items of the borrowed iterator (None once it is exhausted) *)
Lemma firstn_pad {T} : forall k (X : list (option T)) n m, (k <= n)%nat -> (k <= m)%nat ->
  firstn k (X ++ repeat None n) = firstn k (X ++ repeat None m).
Proof.
  induction k as [|k IH]; intros X n m Hn Hm; [reflexivity|].
  destruct X as [|a X].
  - destruct n as [|n]; [lia|]. destruct m as [|m]; [lia|]. cbn [app repeat firstn]. f_equal.
    apply (IH [] n m); lia.
  - cbn [app firstn]. f_equal. apply IH; lia.
Qed.

Lemma owned_paths_steps_run : forall k fuel b st cs, path_iter_run fuel b st = Ok cs ->
  exists st', owned_paths_steps k (b, st) = Ok (firstn k (map Some cs ++ repeat None k), (b, st')).
Proof.
  induction k as [|k IH]; intros fuel b st cs H; [exists st; reflexivity|].
  destruct fuel as [|f]; [discriminate|]. cbn [path_iter_run] in H. cbn [owned_paths_steps]. unfold owned_paths_next. cbn [fst snd].
  destruct (path_iter_next b st) as [[[item st1]|]| |] eqn:E; try discriminate.
  - destruct (path_iter_run f b st1) as [l| |] eqn:E1; cbn [bind] in H; try discriminate. inversion H; subst.
    destruct (IH f b st1 l E1) as (st' & Hs). exists st'. cbn [bind fst snd]. rewrite Hs. cbn [bind fst snd map app firstn].
    rewrite (firstn_pad k (map Some l) (S k) k) by lia. reflexivity.
  - inversion H; subst. assert (st = []).
    { unfold path_iter_next in E. destruct st as [|l r]; [reflexivity|].
      destruct (make_clause b (l :: r)); cbn [bind] in E; try discriminate.
      destruct (backtrack b l r); cbn [bind] in E; discriminate. }
    subst st. destruct (IH 1%nat b [] [] eq_refl) as (st' & Hs). exists st'. cbn [bind fst snd]. rewrite Hs.
    cbn [bind fst snd map app firstn repeat]. reflexivity.
Qed.

Theorem owned_paths_same_items_stepwise b cs k : path_iter b = Ok cs ->
  exists s0 s, owned_paths_new b = Ok s0 /\
    owned_paths_steps k s0 = Ok (firstn k (map Some cs ++ repeat None k), s) /\ owned_paths_into_bdd s = b.
Proof.
  unfold path_iter, owned_paths_new. destruct (path_iter_new b) as [st| |]; cbn [bind]; try discriminate. intros H.
  destruct (owned_paths_steps_run k _ b st cs H) as (st' & Hs). exists (b, st), (b, st'). repeat split. exact Hs.
Qed.
Print Assumptions owned_paths_same_items_stepwise.

(* ======================================================================================== *)
(* OwnedBddSatisfyingValuations                                                              *)
Lemma clause_it_next_inv c o c' : clause_it_next c = Ok (o, c') -> snd c' = snd c.
Proof.
  unfold clause_it_next. destruct (fst c) as [v|].
  - destruct (val_next v (snd c)); cbn [bind]; try discriminate. intros H. inversion H; subst. reflexivity.
  - intros H. inversion H; subst. reflexivity.
Qed.

Theorem owned_vals_next_keeps_bdd s o s' : owned_vals_next s = Ok (o, s') -> owned_vals_into_bdd s' = owned_vals_into_bdd s.
Proof.
  destruct s as [[nv p] ci]. unfold owned_vals_next, owned_vals_into_bdd. cbn [fst snd].
  destruct (clause_it_next ci) as [[[v|] ci1]| |]; cbn [bind fst snd]; try discriminate.
  - intros H. inversion H; subst. reflexivity.
  - destruct (owned_paths_next p) as [[[c|] p1]| |] eqn:E; cbn [bind fst snd]; try discriminate.
    + destruct (clause_it_new c nv) as [ci2| |]; cbn [bind]; try discriminate.
      destruct (clause_it_next ci2) as [r2| |]; cbn [bind]; try discriminate.
      intros H. inversion H; subst. cbn [fst snd]. exact (owned_next_keeps_bdd _ _ _ E).
    + intros H. inversion H; subst. cbn [fst snd]. exact (owned_next_keeps_bdd _ _ _ E).
Qed.
Print Assumptions owned_vals_next_keeps_bdd.

Theorem owned_vals_new_holds_bdd b s : owned_vals_new b = Ok s -> owned_vals_into_bdd s = b.
Proof.
  unfold owned_vals_new. destruct (owned_paths_new b) as [p| |] eqn:E0; cbn [bind]; try discriminate.
  destruct (owned_paths_next p) as [[o p1]| |] eqn:E1; cbn [bind fst snd]; try discriminate.
  assert (B : owned_paths_into_bdd p1 = b).
  { rewrite (owned_next_keeps_bdd _ _ _ E1). now apply owned_new_holds_bdd. }
  destruct o as [c|].
  - destruct (clause_it_new c (nvars b)); cbn [bind]; try discriminate. intros H. injection H as <-. exact B.
  - intros H. injection H as <-. exact B.
Qed.

Theorem owned_vals_steps_keep_bdd : forall k s items s', owned_vals_steps k s = Ok (items, s') ->
  owned_vals_into_bdd s' = owned_vals_into_bdd s /\ length items = k.
Proof.
  induction k as [|k IH]; intros s items s' H; cbn [owned_vals_steps] in H.
  - inversion H; subst. split; reflexivity.
  - destruct (owned_vals_next s) as [[o s1]| |] eqn:E1; cbn [bind fst snd] in H; try discriminate.
    destruct (owned_vals_steps k s1) as [[l s2]| |] eqn:E2; cbn [bind fst snd] in H; try discriminate.
    inversion H; subst. destruct (IH _ _ _ E2) as (A & B). split.
    + rewrite A. exact (owned_vals_next_keeps_bdd _ _ _ E1).
    + cbn [length]. now rewrite B.
Qed.

(* into_sat_valuations, any number of next() calls, Bdd::from: the diagram that went in *)
Theorem owned_vals_gives_back b s0 k items s : owned_vals_new b = Ok s0 -> owned_vals_steps k s0 = Ok (items, s) ->
  owned_vals_into_bdd s = b.
Proof. intros H0 H. rewrite (proj1 (owned_vals_steps_keep_bdd k s0 items s H)). now apply owned_vals_new_holds_bdd. Qed.
Print Assumptions owned_vals_gives_back.

(* ---- the items ---- *)
(* rewrite, up to conversion, the scrutinee of the outermost bind of the goal *)
Ltac rw_bind H :=
  match type of H with _ = ?R =>
    match goal with |- bind ?X _ = _ => let E := fresh "E" in assert (E : X = R) by exact H; rewrite E; clear E end end.
Lemma drain_unfold f s : owned_vals_drain (S f) s =
  bind (owned_vals_next s) (fun r =>
    match fst r with
    | None => Ok ([], snd r)
    | Some item => bind (owned_vals_drain f (snd r)) (fun r' => Ok (item :: fst r', snd r'))
    end).
Proof. reflexivity. Qed.

(* the valuations of the current clause, then whatever the state with the exhausted clause iterator yields *)
Lemma ci_run : forall fc v c L, clause_iter_from fc v c = Ok L -> forall nv P f,
  owned_vals_drain (length L + f) (nv, P, (Some v, c)) =
  bind (owned_vals_drain f (nv, P, (None, c))) (fun r => Ok (L ++ fst r, snd r)).
Proof.
  induction fc as [|fc IH]; intros v c L H nv P f; [discriminate|]. cbn [clause_iter_from] in H.
  destruct (val_next v c) as [[v'|]| |] eqn:E; try discriminate.
  - destruct (clause_iter_from fc v' c) as [l| |] eqn:E1; cbn [bind] in H; try discriminate. inversion H; subst.
    cbn [length Nat.add]. rewrite drain_unfold. unfold owned_vals_next, clause_it_next. cbn [fst snd]. rewrite E. cbn [bind fst snd].
    rewrite (IH v' c l E1). destruct (owned_vals_drain f (nv, P, (None, c))) as [[l2 s2]| |]; reflexivity.
  - inversion H; subst. cbn [length Nat.add]. rewrite drain_unfold. unfold owned_vals_next, clause_it_next. cbn [fst snd].
    rewrite E. cbn [bind fst snd].
    match goal with |- bind ?X _ = bind ?Y _ => change X with Y; destruct Y as [[l2 s2]| |] end; reflexivity.
Qed.

Lemma clause_iter_from_nonempty : forall fc v c L, clause_iter_from fc v c = Ok L -> L <> [].
Proof.
  intros [|fc] v c L H; [discriminate|]. cbn [clause_iter_from] in H. destruct (val_next v c) as [[v'|]| |]; try discriminate.
  - destruct (clause_iter_from fc v' c); cbn [bind] in H; try discriminate. inversion H. discriminate.
  - inversion H. discriminate.
Qed.

(* with the clause iterator exhausted, next() asks the path iterator: the call is the first call on the fresh clause iterator *)
Lemma none_step nv b st c0 item st' v0 :
  path_iter_next b st = Ok (Some (item, st')) -> first_valuation item nv = Ok v0 ->
  owned_vals_next (nv, (b, st), (None, c0)) = owned_vals_next (nv, (b, st'), (Some v0, item)).
Proof.
  intros E F. unfold owned_vals_next, clause_it_next, owned_paths_next, clause_it_new. cbn [fst snd bind]. rewrite E. cbn [fst snd bind].
  rewrite F. cbn [bind fst snd]. destruct (val_next v0 item); reflexivity.
Qed.

Lemma clause_iter_split c nv : positive_inside c nv ->
  exists v0 fc, first_valuation c nv = Ok v0 /\ clause_iter_from fc v0 c = Ok (clause_valuations c nv).
Proof.
  intros P. pose proof (clause_iter_refines c nv P) as R. unfold clause_iter in R.
  destruct (first_valuation c nv) as [v0| |]; cbn [bind] in R; try discriminate. exists v0. eexists. split; [reflexivity|exact R].
Qed.

Lemma paths_run nv b : forall fp st cs, path_iter_run fp b st = Ok cs -> (forall c, In c cs -> positive_inside c nv) ->
  forall c0 f, exists c1,
    owned_vals_drain (length (flat_map (fun c => clause_valuations c nv) cs) + S f) (nv, (b, st), (None, c0)) =
    Ok (flat_map (fun c => clause_valuations c nv) cs, (nv, (b, []), (None, c1))).
Proof.
  induction fp as [|fp IH]; intros st cs H Pos c0 f; [discriminate|]. cbn [path_iter_run] in H.
  destruct (path_iter_next b st) as [[[item st']|]| |] eqn:E; try discriminate.
  - destruct (path_iter_run fp b st') as [l| |] eqn:E1; cbn [bind] in H; try discriminate. inversion H; subst.
    destruct (clause_iter_split item nv (Pos item (or_introl eq_refl))) as (v0 & fc & F & CI).
    pose proof (clause_iter_from_nonempty _ _ _ _ CI) as NE.
    destruct (IH st' l E1 (fun c Hc => Pos c (or_intror Hc)) item f) as (c1 & Hd). exists c1.
    cbn [flat_map]. rewrite app_length, <- Nat.add_assoc.
    destruct (clause_valuations item nv) as [|a L] eqn:EL; [congruence|]. cbn [length Nat.add].
    rewrite drain_unfold, (none_step nv b st c0 item st' v0 E F), <- drain_unfold.
    change (S (length L + (length (flat_map (fun c => clause_valuations c nv) l) + S f)))
      with (length (a :: L) + (length (flat_map (fun c => clause_valuations c nv) l) + S f))%nat.
    rewrite (ci_run fc v0 item (a :: L) CI). rw_bind Hd. reflexivity.
  - inversion H; subst. assert (st = []).
    { unfold path_iter_next in E. destruct st as [|l r]; [reflexivity|].
      destruct (make_clause b (l :: r)); cbn [bind] in E; try discriminate.
      destruct (backtrack b l r); cbn [bind] in E; discriminate. }
    subst st. exists c0. reflexivity.
Qed.

(* whenever the borrowed path iterator runs to the end (clauses cs, positive literals inside the variable count): the owned
   valuation iterator yields the valuations of the clauses in turn and then None, holding the same Bdd *)
Theorem owned_vals_items b cs : path_iter b = Ok cs -> (forall c, In c cs -> positive_inside c (nvars b)) ->
  exists s0, owned_vals_new b = Ok s0 /\
    forall f, exists s, owned_vals_drain (length (flat_map (fun c => clause_valuations c (nvars b)) cs) + S f) s0 =
                        Ok (flat_map (fun c => clause_valuations c (nvars b)) cs, s) /\ owned_vals_into_bdd s = b.
Proof.
  intros H Pos. unfold path_iter in H. destruct (path_iter_new b) as [st| |] eqn:E0; cbn [bind] in H; try discriminate.
  rewrite run_unfold in H. unfold owned_vals_new, owned_paths_new. rewrite E0. cbn [bind]. unfold owned_paths_next. cbn [fst snd].
  destruct (path_iter_next b st) as [[[item st']|]| |] eqn:E; try discriminate.
  - destruct (path_iter_run _ b st') as [l| |] eqn:E1; cbn [bind] in H; try discriminate. inversion H; subst.
    destruct (clause_iter_split item (nvars b) (Pos item (or_introl eq_refl))) as (v0 & fc & F & CI).
    cbn [bind fst snd]. unfold clause_it_new. rewrite F. cbn [bind]. eexists. split; [reflexivity|]. intros f.
    destruct (paths_run (nvars b) b _ st' l E1 (fun c Hc => Pos c (or_intror Hc)) item f) as (c1 & Hd).
    exists (nvars b, (b, []), (None, c1)). split; [|reflexivity].
    cbn [flat_map]. rewrite app_length, <- Nat.add_assoc, (ci_run fc v0 item _ CI). rw_bind Hd. reflexivity.
  - inversion H; subst. cbn [bind fst snd]. eexists. split; [reflexivity|]. intros f.
    assert (st = []).
    { unfold path_iter_next in E. destruct st as [|l r]; [reflexivity|].
      destruct (make_clause b (l :: r)); cbn [bind] in E; try discriminate.
      destruct (backtrack b l r); cbn [bind] in E; discriminate. }
    subst st. exists (nvars b, (b, []), clause_it_empty). split; reflexivity.
Qed.
Print Assumptions owned_vals_items.

(* on every valid diagram whose root reaches no redundant test (every canonical one): the items of sat_valuations_iter *)
Theorem owned_vals_same_items b : wf b -> ~ reachable_redundant b ->
  sat_valuations_iter b = Ok (sat_valuations b) /\
  exists s0, owned_vals_new b = Ok s0 /\
    forall f, exists s, owned_vals_drain (length (sat_valuations b) + S f) s0 = Ok (sat_valuations b, s) /\ owned_vals_into_bdd s = b.
Proof.
  intros W NR. pose proof (proj2 (path_iter_ok_iff b W) NR) as PI. split.
  - pose proof (sat_valuations_iter_total b W) as T. destruct (red_below (path_fuel b) b (root b)) eqn:Rb; [|exact T].
    exfalso. apply NR. now apply (red_below_iff b W).
  - exact (owned_vals_items b (sat_clauses b) PI (sat_clauses_positive_inside b W)).
Qed.
Print Assumptions owned_vals_same_items.

Corollary owned_vals_same_items_canonical b : Canonical b ->
  exists s0, owned_vals_new b = Ok s0 /\
    forall f, exists s, owned_vals_drain (length (sat_valuations b) + S f) s0 = Ok (sat_valuations b, s) /\ owned_vals_into_bdd s = b.
Proof.
  intros C. apply owned_vals_same_items; [exact (proj1 C)|].
  intros (ps & q & _ & Q2 & Ql & E). exact (canonical_no_redundant b C q Q2 Ql E).
Qed.

Definition ex08o : bdd := [mkNode 4 0 0; mkNode 4 1 1; mkNode 2 0 1; mkNode 1 0 1; mkNode 0 3 2].
Example owned_example :
  (exists s0 s, owned_paths_new ex08o = Ok s0 /\
     owned_paths_steps 3 s0 = Ok ([Some [Some false; Some true]; Some [Some true; None; Some true]; None], s) /\
     owned_paths_into_bdd s = ex08o) /\
  (exists s0 items s, owned_vals_new ex08o = Ok s0 /\ owned_vals_steps 5 s0 = Ok (items, s) /\
     items = map Some (firstn 5 (sat_valuations ex08o)) /\ owned_vals_into_bdd s = ex08o) /\
  (exists s0 s, owned_vals_new ex08o = Ok s0 /\ owned_vals_drain 9 s0 = Ok (sat_valuations ex08o, s) /\ owned_vals_into_bdd s = ex08o).
Proof.
  split; [|split].
  - eexists. eexists. split; [vm_compute; reflexivity|]. split; vm_compute; reflexivity.
  - eexists. eexists. eexists. split; [vm_compute; reflexivity|]. split; [vm_compute; reflexivity|]. split; vm_compute; reflexivity.
  - eexists. eexists. split; [vm_compute; reflexivity|]. split; vm_compute; reflexivity.
Qed.
