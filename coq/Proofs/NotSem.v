(* Proofs/NotSem.v — Bdd::not (Model.Ops.bdd_not): well-formedness, semantics (for every valid diagram,
   canonical or not), preservation of canonicity, involutivity. *)
From Coq Require Import List NArith Lia Bool.
Import ListNotations.
From BddVerif Require Import Model.Bdd Model.Apply Model.Ops Proofs.Sem Proofs.Canon.
Open Scope N_scope.

(* ---------------------------------------------------------------------------------------- *)
(* flip_term                                                                                  *)

Lemma flip_term_ge p : 2 <= p -> flip_term p = p.
Proof.
  intros H. unfold flip_term.
  destruct (N.eqb_spec p 0); [lia|]. destruct (N.eqb_spec p 1); [lia|]. reflexivity.
Qed.

Lemma flip_term_0 : flip_term 0 = 1. Proof. reflexivity. Qed.
Lemma flip_term_1 : flip_term 1 = 0. Proof. reflexivity. Qed.

Lemma flip_term_invol p : flip_term (flip_term p) = p.
Proof.
  destruct (N.ltb_spec p 2) as [Hlt|Hge].
  - assert (p = 0 \/ p = 1) as [->| ->] by lia; reflexivity.
  - rewrite !(flip_term_ge p) by lia. reflexivity.
Qed.

Lemma flip_term_inj p q : flip_term p = flip_term q -> p = q.
Proof. intros H. rewrite <- (flip_term_invol p), H. apply flip_term_invol. Qed.

Lemma flip_term_lt p s : 2 <= s -> p < s -> flip_term p < s.
Proof.
  intros Hs Hp. destruct (N.ltb_spec p 2) as [Hlt|Hge].
  - assert (p = 0 \/ p = 1) as [->| ->] by lia; cbn; lia.
  - rewrite flip_term_ge by assumption. exact Hp.
Qed.

(* the node transformer applied by bdd_not to every decision node *)
Definition fnode (n : node) : node := mkNode (nvar n) (flip_term (nlow n)) (flip_term (nhigh n)).

Lemma fnode_invol n : fnode (fnode n) = n.
Proof. destruct n as [x l h]. unfold fnode; cbn [nvar nlow nhigh]. rewrite !flip_term_invol. reflexivity. Qed.

Lemma fnode_inj n m : fnode n = fnode m -> n = m.
Proof. intros H. rewrite <- (fnode_invol n), H. apply fnode_invol. Qed.

(* ---------------------------------------------------------------------------------------- *)
(* shape of the result                                                                        *)

Lemma not_small1 b : size b = 1 -> bdd_not b = mk_true (nvars b).
Proof. intros H. unfold bdd_not, is_true, is_false. rewrite H. reflexivity. Qed.

Lemma not_small2 b : size b = 2 -> bdd_not b = mk_false (nvars b).
Proof. intros H. unfold bdd_not, is_true, is_false. rewrite H. reflexivity. Qed.

Lemma not_big b : 3 <= size b ->
  exists z o rest, b = z :: o :: rest /\ bdd_not b = z :: o :: map fnode rest.
Proof.
  intros H. unfold bdd_not, is_true, is_false.
  destruct (N.eqb_spec (size b) 2); [lia|]. destruct (N.eqb_spec (size b) 1); [lia|].
  destruct b as [|z [|o rest]]; try (unfold size in H; cbn [length] in H; lia).
  exists z, o, rest. split; reflexivity.
Qed.

Lemma not_size_big b : 3 <= size b -> size (bdd_not b) = size b.
Proof.
  intros H. destruct (not_big b H) as (z & o & rest & -> & ->).
  unfold size; cbn [length]. rewrite map_length. reflexivity.
Qed.

Lemma not_length_big b : 3 <= size b -> length (bdd_not b) = length b.
Proof. intros H. apply not_size_big in H. unfold size in H. lia. Qed.

Lemma not_get_lo b p : 3 <= size b -> p < 2 -> get (bdd_not b) p = get b p.
Proof.
  intros H Hp. destruct (not_big b H) as (z & o & rest & -> & ->).
  assert (p = 0 \/ p = 1) as [->| ->] by lia; reflexivity.
Qed.

Lemma not_get_hi b p : 3 <= size b -> 2 <= p -> p < size b -> get (bdd_not b) p = fnode (get b p).
Proof.
  intros H Hp Hlt. destruct (not_big b H) as (z & o & rest & -> & ->).
  unfold size in Hlt; cbn [length] in Hlt. unfold get.
  destruct (N.to_nat p) as [|[|k]] eqn:E; try lia. cbn [nth].
  rewrite (nth_indep (map fnode rest) dnode (fnode dnode)) by (rewrite map_length; lia).
  apply map_nth.
Qed.

Lemma not_get_out b p : 3 <= size b -> size b <= p -> get (bdd_not b) p = get b p.
Proof.
  intros H Hp. pose proof (not_length_big b H) as El. unfold get, size in *.
  rewrite !nth_overflow by lia. reflexivity.
Qed.

Lemma not_nvars_big b : 3 <= size b -> nvars (bdd_not b) = nvars b.
Proof. intros H. unfold nvars. rewrite not_get_lo by (assumption || lia). reflexivity. Qed.

Lemma not_var_of_hi b p : 3 <= size b -> 2 <= p -> p < size b -> var_of (bdd_not b) p = var_of b p.
Proof. intros H Hp Hlt. unfold var_of. rewrite not_get_hi by assumption. reflexivity. Qed.

Lemma not_var_of b p : wf b -> 3 <= size b -> p < size b ->
  var_of (bdd_not b) (flip_term p) = var_of b p.
Proof.
  intros (_ & H0 & H1 & _) Hs Hp. destruct (N.ltb_spec p 2) as [Hlt|Hge].
  - unfold var_of. rewrite not_get_lo by (try assumption; apply flip_term_lt; lia).
    assert (p = 0 \/ p = 1) as [->| ->] by lia; rewrite ?flip_term_0, ?flip_term_1;
      rewrite H0, H1 by lia; reflexivity.
  - rewrite flip_term_ge by assumption. apply not_var_of_hi; assumption.
Qed.

(* ---------------------------------------------------------------------------------------- *)
(* constants                                                                                  *)

Lemma wf_mk_false nv : wf (mk_false nv).
Proof.
  refine (conj _ (conj _ (conj _ _))).
  - cbn; lia.
  - reflexivity.
  - cbn; lia.
  - intros p Hp Hlt. cbn in Hlt. lia.
Qed.

Lemma wf_mk_true nv : wf (mk_true nv).
Proof.
  refine (conj _ (conj _ (conj _ _))).
  - cbn; lia.
  - reflexivity.
  - intros _. reflexivity.
  - intros p Hp Hlt. cbn in Hlt. lia.
Qed.

Lemma canonical_mk_false nv : Canonical (mk_false nv).
Proof.
  split; [apply wf_mk_false|]. split.
  - split.
    + intros p Hp Hlt. cbn in Hlt. lia.
    + intros p q Hp Hlt. cbn in Hlt. lia.
  - left. reflexivity.
Qed.

Lemma canonical_mk_true nv : Canonical (mk_true nv).
Proof.
  split; [apply wf_mk_true|]. split.
  - split.
    + intros p Hp Hlt. cbn in Hlt. lia.
    + intros p q Hp Hlt. cbn in Hlt. lia.
  - right. reflexivity.
Qed.

(* ---------------------------------------------------------------------------------------- *)
(* 1. well-formedness, variable count, size                                                   *)

Lemma not_wf_big b : wf b -> 3 <= size b -> wf (bdd_not b).
Proof.
  intros Hwf Hs. pose proof Hwf as (H1 & H0 & H1' & Hn).
  pose proof (not_size_big b Hs) as Es. pose proof (not_nvars_big b Hs) as En.
  unfold wf. rewrite Es, En. refine (conj _ (conj _ (conj _ _))).
  - lia.
  - rewrite not_get_lo by (assumption || lia). exact H0.
  - intros _. rewrite not_get_lo by (assumption || lia). apply H1'. lia.
  - intros p Hp Hlt. destruct (Hn p Hp Hlt) as (Hv & Hl & Hh & Hvl & Hvh).
    unfold wf_node. rewrite (not_get_hi b p Hs Hp Hlt), Es.
    unfold fnode; cbn [nvar nlow nhigh].
    rewrite !not_var_of by assumption.
    refine (conj Hv (conj _ (conj _ (conj Hvl Hvh)))); apply flip_term_lt; assumption || lia.
Qed.

Theorem not_wf : forall b, wf b -> wf (bdd_not b).
Proof.
  intros b Hwf. pose proof (size_pos b Hwf) as Hp.
  destruct (N.eq_dec (size b) 1) as [S1|S1]; [rewrite (not_small1 b S1); apply wf_mk_true|].
  destruct (N.eq_dec (size b) 2) as [S2|S2]; [rewrite (not_small2 b S2); apply wf_mk_false|].
  apply not_wf_big; [assumption|lia].
Qed.
Print Assumptions not_wf.

Theorem not_nvars : forall b, wf b -> nvars (bdd_not b) = nvars b.
Proof.
  intros b Hwf. pose proof (size_pos b Hwf) as Hp.
  destruct (N.eq_dec (size b) 1) as [S1|S1]; [rewrite (not_small1 b S1); reflexivity|].
  destruct (N.eq_dec (size b) 2) as [S2|S2]; [rewrite (not_small2 b S2); reflexivity|].
  apply not_nvars_big; lia.
Qed.
Print Assumptions not_nvars.

(* size: the two constants are swapped, every other diagram keeps its size *)
Theorem not_size : forall b, wf b ->
  size (bdd_not b) = if size b =? 1 then 2 else if size b =? 2 then 1 else size b.
Proof.
  intros b Hwf. pose proof (size_pos b Hwf) as Hp.
  destruct (N.eqb_spec (size b) 1) as [S1|S1]; [rewrite (not_small1 b S1); reflexivity|].
  destruct (N.eqb_spec (size b) 2) as [S2|S2]; [rewrite (not_small2 b S2); reflexivity|].
  apply not_size_big; lia.
Qed.
Print Assumptions not_size.

(* ---------------------------------------------------------------------------------------- *)
(* 2. semantics                                                                               *)

Lemma not_sem_big b : wf b -> 3 <= size b -> forall k p v, valid b p ->
  (N.to_nat (nvars b - var_of b p) < k)%nat ->
  sem (bdd_not b) (flip_term p) v = negb (sem b p v).
Proof.
  intros Hwf Hs. pose proof (not_wf_big b Hwf Hs) as Hwf'.
  pose proof (not_size_big b Hs) as Es.
  induction k as [|k IH]; intros p v Vp Hk; [lia|].
  destruct (N.ltb_spec p 2) as [Hlt|Hge].
  - assert (p = 0 \/ p = 1) as [->| ->] by lia; reflexivity.
  - destruct Vp as (Vp & _). rewrite flip_term_ge by assumption.
    rewrite (sem_unfold (bdd_not b) p v Hwf' Hge ltac:(lia)), (sem_unfold b p v Hwf Hge Vp).
    rewrite (not_var_of_hi b p Hs Hge Vp), (not_get_hi b p Hs Hge Vp).
    unfold fnode; cbn [nlow nhigh].
    destruct (wf_children b p Hwf Hge Vp) as (Vl & Vh & Hl & Hh & Hnv).
    destruct (v (var_of b p)); apply IH; try assumption; lia.
Qed.

(* pointer-level statement: the flipped pointer in the negated diagram denotes the negated function *)
Theorem not_sem_ptr : forall b, wf b -> 3 <= size b -> forall p v, valid b p ->
  sem (bdd_not b) (flip_term p) v = negb (sem b p v).
Proof.
  intros b Hwf Hs p v Vp.
  apply (not_sem_big b Hwf Hs (S (N.to_nat (nvars b - var_of b p)))); [assumption|lia].
Qed.
Print Assumptions not_sem_ptr.

Theorem not_sem : forall b, wf b -> forall v, eval (bdd_not b) v = negb (eval b v).
Proof.
  intros b Hwf v. pose proof (size_pos b Hwf) as Hp.
  destruct (N.eq_dec (size b) 1) as [S1|S1].
  { rewrite (not_small1 b S1). unfold eval at 2. rewrite S1. reflexivity. }
  destruct (N.eq_dec (size b) 2) as [S2|S2].
  { rewrite (not_small2 b S2). unfold eval at 2. rewrite S2. reflexivity. }
  assert (Hs : 3 <= size b) by lia.
  unfold eval. rewrite (not_size_big b Hs).
  rewrite <- (flip_term_ge (size b - 1)) at 1 by lia.
  apply not_sem_ptr; try assumption. split; [lia|intros; lia].
Qed.
Print Assumptions not_sem.

(* ---------------------------------------------------------------------------------------- *)
(* 3. canonicity                                                                              *)

(* pointers that are equal, or both terminal *)
Definition tsame (x y : N) : Prop := x = y \/ (x < 2 /\ y < 2).

Lemma tsame_flip x : tsame (flip_term x) x.
Proof.
  destruct (N.ltb_spec x 2) as [Hlt|Hge].
  - right. split; [|assumption]. apply flip_term_lt; [lia|assumption].
  - left. apply flip_term_ge. assumption.
Qed.

Lemma tsame_refl x : tsame x x. Proof. left; reflexivity. Qed.

(* the layout checker only inspects pointers relative to lim >= 2 *)
Lemma chk_tsame G G' :
  (forall p, 2 <= p -> tsame (nhigh (get G' p)) (nhigh (get G p)) /\ tsame (nlow (get G' p)) (nlow (get G p))) ->
  forall fuel lim p q, 2 <= lim -> tsame p q -> chk fuel G' lim p = chk fuel G lim q.
Proof.
  intros HG. induction fuel as [|f IH]; intros lim p q Hlim Ht; [reflexivity|].
  cbn [chk]. destruct Ht as [->|(Hp & Hq)].
  - destruct (N.ltb_spec q lim) as [Hql|Hql]; [reflexivity|].
    destruct (HG q ltac:(lia)) as (Hh & Hl).
    rewrite (IH lim _ _ Hlim Hh).
    destruct (chk f G lim (nhigh (get G q))) as [l1|] eqn:E1; [|reflexivity].
    apply chk_lt in E1. rewrite (IH l1 _ _ ltac:(lia) Hl). reflexivity.
  - destruct (N.ltb_spec p lim); [|lia]. destruct (N.ltb_spec q lim); [|lia]. reflexivity.
Qed.

Lemma not_chk b : 3 <= size b -> forall fuel lim p, 2 <= lim ->
  chk fuel (bdd_not b) lim p = chk fuel b lim p.
Proof.
  intros Hs fuel lim p Hlim. apply chk_tsame; [|assumption|apply tsame_refl].
  intros q Hq. destruct (N.ltb_spec q (size b)) as [Hlt|Hge].
  - rewrite (not_get_hi b q Hs Hq Hlt). unfold fnode; cbn [nlow nhigh]. split; apply tsame_flip.
  - rewrite (not_get_out b q Hs Hge). split; apply tsame_refl.
Qed.

Lemma not_reduced_big b : 3 <= size b -> reduced b -> reduced (bdd_not b).
Proof.
  intros Hs (Hred & Hdup). pose proof (not_size_big b Hs) as Es. split.
  - intros p Hp Hlt. rewrite Es in Hlt. rewrite (not_get_hi b p Hs Hp Hlt).
    unfold fnode; cbn [nlow nhigh]. intros E. apply flip_term_inj in E. exact (Hred p Hp Hlt E).
  - intros p q Hp Hlt Hq Hqlt E. rewrite Es in Hlt, Hqlt.
    rewrite (not_get_hi b p Hs Hp Hlt), (not_get_hi b q Hs Hq Hqlt) in E.
    apply fnode_inj in E. apply Hdup; assumption.
Qed.

Theorem not_canonical : forall b, Canonical b -> Canonical (bdd_not b).
Proof.
  intros b (Hwf & Hred & Hlay). pose proof (size_pos b Hwf) as Hp.
  destruct (N.eq_dec (size b) 1) as [S1|S1]; [rewrite (not_small1 b S1); apply canonical_mk_true|].
  destruct (N.eq_dec (size b) 2) as [S2|S2]; [rewrite (not_small2 b S2); apply canonical_mk_false|].
  assert (Hs : 3 <= size b) by lia.
  split; [apply not_wf_big; assumption|]. split; [apply not_reduced_big; assumption|].
  destruct Hlay as [?|Hlay]; [lia|]. right.
  rewrite (not_size_big b Hs), (not_nvars_big b Hs), (not_chk b Hs) by lia. exact Hlay.
Qed.
Print Assumptions not_canonical.

(* ---------------------------------------------------------------------------------------- *)
(* 4. involutivity                                                                            *)

Lemma not_involutive_big b : 3 <= size b -> bdd_not (bdd_not b) = b.
Proof.
  intros Hs. pose proof (not_size_big b Hs) as Es.
  assert (Hs' : 3 <= size (bdd_not b)) by lia.
  apply get_ext.
  - rewrite (not_length_big _ Hs'). apply not_length_big; assumption.
  - intros i Hi. rewrite (not_size_big _ Hs'), Es in Hi.
    destruct (N.ltb_spec i 2) as [Hlt|Hge].
    + rewrite (not_get_lo _ i Hs' Hlt). apply not_get_lo; assumption.
    + rewrite (not_get_hi _ i Hs' Hge ltac:(lia)), (not_get_hi b i Hs Hge Hi). apply fnode_invol.
Qed.

(* valid (not necessarily canonical) diagrams already suffice *)
Theorem not_involutive_wf : forall b, wf b -> bdd_not (bdd_not b) = b.
Proof.
  intros b Hwf. pose proof Hwf as (Hp & H0 & H1 & _).
  destruct (N.eq_dec (size b) 1) as [S1|S1].
  { rewrite (not_small1 b S1). rewrite not_small2 by reflexivity. symmetry.
    apply get_ext; [unfold size in S1; cbn [mk_false nvars length]; lia|].
    intros i Hi. assert (i = 0) by lia. subst i. rewrite H0. reflexivity. }
  destruct (N.eq_dec (size b) 2) as [S2|S2].
  { rewrite (not_small2 b S2). rewrite not_small1 by reflexivity. symmetry.
    apply get_ext; [unfold size in S2; cbn [mk_true nvars length]; lia|].
    intros i Hi. assert (i = 0 \/ i = 1) as [->| ->] by lia.
    - rewrite H0. reflexivity.
    - rewrite H1 by lia. reflexivity. }
  apply not_involutive_big. lia.
Qed.
Print Assumptions not_involutive_wf.

Theorem not_involutive : forall b, Canonical b -> bdd_not (bdd_not b) = b.
Proof. intros b (Hwf & _). apply not_involutive_wf. exact Hwf. Qed.
Print Assumptions not_involutive.

(* ---------------------------------------------------------------------------------------- *)
(* concrete instances (tests, not proofs)                                                     *)

(* canonical: x0 ? true : x1 *)
Example ex_canon : bdd := [mkNode 2 0 0; mkNode 2 1 1; mkNode 1 0 1; mkNode 0 2 1].
(* valid but not canonical: root (last node) placed before its child's natural position,
   with an unreachable duplicate; children do not precede parents *)
Example ex_noncanon : bdd :=
  [mkNode 3 0 0; mkNode 3 1 1; mkNode 0 4 3; mkNode 2 0 1; mkNode 1 3 1; mkNode 0 4 3].

Example ex_canon_ok :
  canonicalb ex_canon = true /\ canonicalb (bdd_not ex_canon) = true /\
  bdd_not ex_canon = [mkNode 2 0 0; mkNode 2 1 1; mkNode 1 1 0; mkNode 0 2 0] /\
  bdd_not (bdd_not ex_canon) = ex_canon.
Proof. vm_compute. repeat split. Qed.

Example ex_noncanon_ok :
  wfb ex_noncanon = true /\ canonicalb ex_noncanon = false /\ wfb (bdd_not ex_noncanon) = true /\
  forallb (fun l => Bool.eqb (eval (bdd_not ex_noncanon) (val_of_list l)) (negb (eval ex_noncanon (val_of_list l))))
    [[false;false;false];[false;false;true];[false;true;false];[false;true;true];
     [true;false;false];[true;false;true];[true;true;false];[true;true;true]] = true /\
  map (fun l => eval ex_noncanon (val_of_list l))
    [[false;false;false];[false;false;true];[false;true;false];[false;true;true];
     [true;false;false];[true;false;true];[true;true;false];[true;true;true]]
  = [false;true;true;true;false;true;false;true].
Proof. vm_compute. repeat split. Qed.
