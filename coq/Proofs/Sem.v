(* Proofs/Sem.v — well-formedness (Prop), fuel irrelevance, unfolding/cofactor lemmas, reducedness, sem_inj. *)
From Coq Require Import List NArith Lia Bool.
Import ListNotations.
From BddVerif Require Import Model.Bdd.
Open Scope N_scope.

Lemma node_eqb_spec a b : reflect (a = b) (node_eqb a b).
Proof.
  destruct a as [v l h], b as [v' l' h']; unfold node_eqb; cbn.
  destruct (N.eqb_spec v v'), (N.eqb_spec l l'), (N.eqb_spec h h'); cbn; constructor; congruence.
Qed.


(* store well-formedness: ordered, children in range. terminals at 0,1 carry nv *)
Definition wf_node (b : bdd) (nv : N) (p : N) : Prop :=
  let n := get b p in
  nvar n < nv /\ nlow n < size b /\ nhigh n < size b /\
  nvar n < var_of b (nlow n) /\ nvar n < var_of b (nhigh n).
Definition wf (b : bdd) : Prop :=
  1 <= size b /\
  get b 0 = mkNode (nvars b) 0 0 /\
  (2 <= size b -> get b 1 = mkNode (nvars b) 1 1) /\
  forall p, 2 <= p -> p < size b -> wf_node b (nvars b) p.

(* generic fuel lemma: enough fuel = nv - var + 1 *)
Lemma sem_fuel_enough b : wf b -> forall f1 f2 p v,
  p < size b -> (p = 1 -> 2 <= size b) ->
  (N.to_nat (nvars b - var_of b p) < f1)%nat -> (N.to_nat (nvars b - var_of b p) < f2)%nat ->
  sem_fuel f1 b p v = sem_fuel f2 b p v.
Proof.
  intros Hwf. induction f1 as [|f1 IH]; intros f2 p v Hp Hp1 H1 H2; [lia|].
  destruct f2 as [|f2]; [lia|]. cbn [sem_fuel].
  destruct (N.ltb_spec p 2) as [|Hge]; [reflexivity|].
  destruct Hwf as (Hs & H0 & H1' & Hn). specialize (Hn p Hge Hp).
  destruct Hn as (Hv & Hl & Hh & Hvl & Hvh). unfold var_of in *.
  set (c := if v (nvar (get b p)) then nhigh (get b p) else nlow (get b p)).
  assert (Hc : c < size b) by (subst c; destruct (v _); assumption).
  assert (Hcv : nvar (get b p) < nvar (get b c)) by (subst c; destruct (v _); assumption).
  apply IH; try assumption; try lia.
Qed.


Lemma size_pos b : wf b -> 1 <= size b. Proof. intros (H & _); exact H. Qed.

Definition valid (b : bdd) (p : N) : Prop := p < size b /\ (p = 1 -> 2 <= size b).

Lemma wf_children b p : wf b -> 2 <= p -> p < size b ->
  valid b (nlow (get b p)) /\ valid b (nhigh (get b p)) /\
  var_of b p < var_of b (nlow (get b p)) /\ var_of b p < var_of b (nhigh (get b p)) /\ var_of b p < nvars b.
Proof.
  intros (Hs & H0 & H1 & Hn) Hp Hlt. destruct (Hn p Hp Hlt) as (Hv & Hl & Hh & Hvl & Hvh).
  unfold valid, var_of. repeat split; try assumption; intros; lia.
Qed.

Lemma var_of_le b p : wf b -> valid b p -> var_of b p <= nvars b.
Proof.
  intros Hwf (Hp & Hp1). destruct (N.ltb_spec p 2) as [Hlt|Hge].
  - destruct Hwf as (Hs & H0 & H1 & _). unfold var_of.
    assert (p = 0 \/ p = 1) as [->| ->] by lia.
    + rewrite H0; cbn; lia.
    + rewrite H1 by auto; cbn; lia.
  - destruct (wf_children b p Hwf Hge Hp) as (_ & _ & _ & _ & H). lia.
Qed.

Lemma sem_unfold b p v : wf b -> 2 <= p -> p < size b ->
  sem b p v = sem b (if v (var_of b p) then nhigh (get b p) else nlow (get b p)) v.
Proof.
  intros Hwf Hp Hlt. unfold sem at 1. cbn [sem_fuel].
  destruct (N.ltb_spec p 2); [lia|]. fold (var_of b p).
  destruct (wf_children b p Hwf Hp Hlt) as (Vl & Vh & Hl & Hh & Hnv).
  set (c := if v (var_of b p) then nhigh (get b p) else nlow (get b p)).
  assert (Vc : valid b c) by (subst c; destruct (v _); assumption).
  assert (Hc : var_of b p < var_of b c) by (subst c; destruct (v _); assumption).
  unfold sem. destruct Vc as (Vc1 & Vc2).
  apply sem_fuel_enough; try assumption; try lia.
Qed.

Lemma sem_0 b v : sem b 0 v = false. Proof. reflexivity. Qed.
Lemma sem_1 b v : sem b 1 v = true. Proof. reflexivity. Qed.

(* sem depends only on variables >= var p *)
Lemma sem_agree b : wf b -> forall k p v w, valid b p -> (N.to_nat (nvars b - var_of b p) < k)%nat ->
  (forall x, var_of b p <= x -> v x = w x) -> sem b p v = sem b p w.
Proof.
  intros Hwf. induction k as [|k IH]; intros p v w Vp Hk Hvw; [lia|].
  destruct (N.ltb_spec p 2) as [Hlt|Hge].
  - assert (p = 0 \/ p = 1) as [->| ->] by lia; reflexivity.
  - destruct Vp as (Vp & _).
    rewrite (sem_unfold b p v), (sem_unfold b p w) by assumption.
    destruct (wf_children b p Hwf Hge Vp) as (Vl & Vh & Hl & Hh & Hnv).
    rewrite <- (Hvw (var_of b p)) by lia.
    destruct (v (var_of b p)); apply IH; try assumption; try lia; intros; apply Hvw; lia.
Qed.

Lemma sem_agree' b p v w : wf b -> valid b p ->
  (forall x, var_of b p <= x -> v x = w x) -> sem b p v = sem b p w.
Proof. intros Hwf Vp H. apply (sem_agree b Hwf (S (N.to_nat (nvars b - var_of b p)))); auto. Qed.


(* reduced store *)
Definition reduced (b : bdd) : Prop :=
  (forall p, 2 <= p -> p < size b -> nlow (get b p) <> nhigh (get b p)) /\
  (forall p q, 2 <= p -> p < size b -> 2 <= q -> q < size b -> get b p = get b q -> p = q).

Definition feq (f g : val -> bool) := forall v, f v = g v.


Lemma upd_same v x c : upd v x c x = c. Proof. unfold upd. now rewrite N.eqb_refl. Qed.
Lemma upd_other v x c y : y <> x -> upd v x c y = v y.
Proof. intros H. unfold upd. destruct (N.eqb_spec y x); congruence. Qed.

(* cofactor equations *)
Lemma sem_cof b p v c : wf b -> 2 <= p -> p < size b ->
  sem b p (upd v (var_of b p) c) = sem b (if c then nhigh (get b p) else nlow (get b p)) v.
Proof.
  intros Hwf Hp Hlt. rewrite sem_unfold by assumption. rewrite upd_same.
  destruct (wf_children b p Hwf Hp Hlt) as (Vl & Vh & Hl & Hh & Hnv).
  destruct c; (apply sem_agree'; [assumption | assumption | ]);
    intros x Hx; apply upd_other; lia.
Qed.

Lemma sem_indep b p v x c : wf b -> valid b p -> x < var_of b p -> sem b p (upd v x c) = sem b p v.
Proof.
  intros Hwf Vp Hx. apply sem_agree'; [assumption | assumption | ].
  intros y Hy. apply upd_other. lia.
Qed.

Lemma node_ext (a c : node) : nvar a = nvar c -> nlow a = nlow c -> nhigh a = nhigh c -> a = c.
Proof. destruct a, c; cbn; congruence. Qed.

Lemma inj_level b : wf b -> reduced b -> forall k p q, valid b p -> valid b q ->
  (N.to_nat (nvars b - var_of b p) < k)%nat -> (N.to_nat (nvars b - var_of b q) < k)%nat ->
  feq (sem b p) (sem b q) -> p = q.
Proof.
  intros Hwf (Hred & Hdup). induction k as [|k IH]; intros p q Vp Vq Hkp Hkq Heq; [lia|].
  (* key sub-lemma: a decision node r cannot agree with anything independent of its variable *)
  assert (Hlow : forall r (g : val -> bool), valid b r -> 2 <= r -> (N.to_nat (nvars b - var_of b r) < S k)%nat ->
             (forall v c, g (upd v (var_of b r) c) = g v) -> feq (sem b r) g -> False).
  { intros r g (Vr & Vr1) Hr Hkr Hg E.
    destruct (wf_children b r Hwf Hr Vr) as (Vl & Vh & Hl & Hh & Hnv).
    apply (Hred r Hr Vr). apply IH; try assumption; try lia.
    intros v. rewrite <- (sem_cof b r v false), <- (sem_cof b r v true) by assumption.
    rewrite !E, !Hg. reflexivity. }
  destruct (N.ltb_spec p 2) as [Hp|Hp], (N.ltb_spec q 2) as [Hq|Hq].
  - assert (p = 0 \/ p = 1) as [->| ->] by lia; assert (q = 0 \/ q = 1) as [->| ->] by lia; try reflexivity;
      specialize (Heq (fun _ => false)); cbn in Heq; discriminate.
  - exfalso. apply (Hlow q (sem b p)); try assumption.
    + intros v c. assert (p = 0 \/ p = 1) as [->| ->] by lia; reflexivity.
    + intros v; symmetry; apply Heq.
  - exfalso. apply (Hlow p (sem b q)); try assumption.
    intros v c. assert (q = 0 \/ q = 1) as [->| ->] by lia; reflexivity.
  - destruct Vp as (Vp & Vp1), Vq as (Vq & Vq1).
    destruct (N.lt_trichotomy (var_of b p) (var_of b q)) as [Hlt|[Heqv|Hgt]].
    + exfalso. apply (Hlow p (sem b q)); try assumption; [split; assumption|].
      intros v c. apply sem_indep; [assumption | split; assumption | assumption].
    + destruct (wf_children b p Hwf Hp Vp) as (Vl & Vh & Hl & Hh & Hnv).
      destruct (wf_children b q Hwf Hq Vq) as (Vl' & Vh' & Hl' & Hh' & Hnv').
      apply Hdup; try assumption. apply node_ext.
      * exact Heqv.
      * apply IH; try assumption; try lia. intros v.
        rewrite <- (sem_cof b p v false), <- (sem_cof b q v false) by assumption. rewrite Heqv. apply Heq.
      * apply IH; try assumption; try lia. intros v.
        rewrite <- (sem_cof b p v true), <- (sem_cof b q v true) by assumption. rewrite Heqv. apply Heq.
    + exfalso. apply (Hlow q (sem b p)); try assumption; [split; assumption| |intros v; symmetry; apply Heq].
      intros v c. apply sem_indep; [assumption | split; assumption | assumption].
Qed.

Theorem sem_inj b p q : wf b -> reduced b -> valid b p -> valid b q -> feq (sem b p) (sem b q) -> p = q.
Proof.
  intros Hwf Hr Vp Vq. apply (inj_level b Hwf Hr (S (N.to_nat (nvars b)))); try assumption; lia.
Qed.
Print Assumptions sem_inj.
