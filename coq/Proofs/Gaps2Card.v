(* Proofs/Gaps2Card.v — C18 gaps: the brute-force count `card_bf` that instantiates cmp_cardinality IS the library's
   counter `exact_cardinality` on valid diagrams; a single-valuation Bdd converts back to its valuation. *)
From Coq Require Import List NArith Lia Bool.
Import ListNotations.
From BddVerif Require Import Model.Bdd Model.Apply Model.Ops Model.Count Model.Select Model.Valuation
  Proofs.Sem Proofs.Canon Proofs.CountSem Proofs.SelectBase Proofs.SelectWalk Proofs.SelectWitness Proofs.SelectPred
  Proofs.SelectDPVal Proofs.SelectCube Proofs.ValuationCmp Proofs.NormalForms.
Open Scope N_scope.

(* ---- the recursion `cnt` enumerates exactly the lists of `all_vals` ---- *)
(* overlay the list l on v starting at position x *)
Fixpoint overlay (x : N) (l : list bool) (v : val) : val :=
  match l with [] => v | c :: r => overlay (x + 1) r (upd v x c) end.

Lemma filter_map_cons {T} (p : list T -> bool) c (L : list (list T)) :
  length (filter p (map (cons c) L)) = length (filter (fun l => p (c :: l)) L).
Proof.
  induction L as [|l L IH]; cbn [map filter]; [reflexivity|].
  destruct (p (c :: l)); cbn [length]; now rewrite IH.
Qed.

Lemma cnt_all_vals (k : nat) : forall (x : N) (f : val -> bool) (v : val),
  CountSem.cnt k x f v = N.of_nat (length (filter (fun l => f (overlay x l v)) (all_vals k))).
Proof.
  induction k as [|k IH]; intros x f v; cbn [CountSem.cnt all_vals].
  - cbn [filter overlay]. destruct (f v); reflexivity.
  - rewrite filter_app, app_length, !filter_map_cons. cbn [overlay].
    rewrite (IH (x + 1) f (upd v x false)), (IH (x + 1) f (upd v x true)). lia.
Qed.

Lemma overlay_get (l : list bool) : forall (x : N) (v : val) (y : N),
  overlay x l v y = if (x <=? y) && (y <? x + N.of_nat (length l)) then nth (N.to_nat (y - x)) l false else v y.
Proof.
  induction l as [|c r IH]; intros x v y; cbn [overlay length].
  - destruct (N.leb_spec x y), (N.ltb_spec y (x + N.of_nat 0)); cbn [andb]; try reflexivity; lia.
  - rewrite IH. destruct (N.leb_spec (x + 1) y) as [H1|H1], (N.ltb_spec y (x + 1 + N.of_nat (length r))) as [H2|H2];
      destruct (N.leb_spec x y) as [H3|H3], (N.ltb_spec y (x + N.of_nat (S (length r)))) as [H4|H4]; cbn [andb]; try lia;
      try (apply upd_other; lia).
    + replace (N.to_nat (y - x)) with (S (N.to_nat (y - (x + 1)))) by lia. reflexivity.
    + assert (y = x) by lia. subst y. rewrite upd_same. replace (N.to_nat (x - x)) with O by lia. reflexivity.
Qed.

Lemma overlay_val_of_list l y : overlay 0 l (fun _ => false) y = val_of_list l y.
Proof.
  rewrite overlay_get. unfold val_of_list. rewrite N.sub_0_r.
  destruct (N.leb_spec 0 y) as [_|]; [|lia]. cbn [andb].
  destruct (N.ltb_spec y (0 + N.of_nat (length l))) as [H|H]; [reflexivity|].
  symmetry. apply nth_overflow. lia.
Qed.

(* for any function that reads its valuation pointwise: count = brute-force count over the lists *)
Lemma count_all_vals n f : (forall v w, (forall x, v x = w x) -> f v = f w) ->
  CountSem.count n f = N.of_nat (length (filter (fun l => f (val_of_list l)) (all_vals (N.to_nat n)))).
Proof.
  intros Hext. unfold CountSem.count. rewrite cnt_all_vals. f_equal. f_equal.
  apply filter_ext. intros l. apply Hext. intros x. apply overlay_val_of_list.
Qed.

Lemma eval_pointwise b : wf b -> forall v w, (forall x, v x = w x) -> eval b v = eval b w.
Proof. intros W v w H. apply eval_agree_nv; [exact W|]. intros x _. apply H. Qed.

(* the library's counter (Model/Count.v, proved against `count` in CountSem.v) computes the brute-force count *)
Theorem card_bf_eq_exact b : wf b -> exact_cardinality b = card_bf b.
Proof.
  intros W. rewrite (exact_cardinality_spec b W). unfold card_bf. apply count_all_vals. apply eval_pointwise. exact W.
Qed.
Print Assumptions card_bf_eq_exact.

(* cmp_cardinality / cmp_cardinality_strict order by exact_cardinality *)
Theorem cmp_cardinality_by_exact_count a b : wf a -> wf b ->
  cmp_cardinality a b = cmp_cardinality_with exact_cardinality a b /\
  (cmp_cardinality a b = OLt <-> exact_cardinality a < exact_cardinality b) /\
  (cmp_cardinality a b = OEq <-> exact_cardinality a = exact_cardinality b) /\
  (cmp_cardinality a b = OGt <-> exact_cardinality b < exact_cardinality a).
Proof.
  intros Wa Wb.
  assert (E : cmp_cardinality a b = cmp_cardinality_with exact_cardinality a b).
  { unfold cmp_cardinality, cmp_cardinality_with. now rewrite !card_bf_eq_exact. }
  split; [exact E|]. rewrite E. apply cmp_cardinality_spec.
Qed.
Print Assumptions cmp_cardinality_by_exact_count.

Theorem cmp_cardinality_strict_by_exact_count a b : wf a -> wf b ->
  cmp_cardinality_strict a b = cmp_cardinality_strict_with exact_cardinality a b /\
  (cmp_cardinality_strict a b = None <-> nvars a <> nvars b) /\
  (cmp_cardinality_strict a b = Some OLt <-> nvars a = nvars b /\ exact_cardinality a < exact_cardinality b) /\
  (cmp_cardinality_strict a b = Some OEq <-> nvars a = nvars b /\ exact_cardinality a = exact_cardinality b) /\
  (cmp_cardinality_strict a b = Some OGt <-> nvars a = nvars b /\ exact_cardinality b < exact_cardinality a).
Proof.
  intros Wa Wb.
  assert (E : cmp_cardinality_strict a b = cmp_cardinality_strict_with exact_cardinality a b).
  { unfold cmp_cardinality_strict, cmp_cardinality_strict_with, cmp_cardinality_with. now rewrite !card_bf_eq_exact. }
  split; [exact E|]. rewrite E. split; [apply cmp_cardinality_strict_none_iff|].
  destruct (cmp_cardinality_spec exact_cardinality a b) as (L & Q & G).
  unfold cmp_cardinality_strict_with. destruct (N.eqb_spec (nvars a) (nvars b)) as [Hn|Hn].
  - split; [|split]; (split; [intros H; injection H as H; split; [exact Hn|tauto] | intros (_ & H); f_equal; tauto]).
  - split; [|split]; (split; [discriminate | intros (H & _); contradiction]).
Qed.
Print Assumptions cmp_cardinality_strict_by_exact_count.

(* ---- a single-valuation Bdd converts back ---- *)
Lemma of_valuation_sat_list v l : sat_list (of_valuation v) l <-> l = v.
Proof.
  destruct (of_valuation_correct v) as (_ & Nv & _ & _). unfold sat_list. rewrite Nv, Nnat.Nat2N.id.
  rewrite of_valuation_correct_N. split.
  - intros (Hl & H). apply val_of_list_ext; [exact Hl|]. intros x Hx. apply H. lia.
  - intros ->. split; [reflexivity|]. intros x _. reflexivity.
Qed.

Lemma of_valuation_not_false v : is_false (of_valuation v) = false.
Proof.
  destruct (is_false (of_valuation v)) eqn:E; [|reflexivity]. exfalso.
  destruct (of_valuation_correct v) as (_ & _ & _ & C).
  pose proof (proj1 (SelectAll.is_false_correct_benign _ (canonical_benign _ C)) E (val_of_list v)) as H.
  assert (T : eval (of_valuation v) (val_of_list v) = true) by (apply of_valuation_correct_N; intros x _; reflexivity).
  congruence.
Qed.

(* every library route from a Bdd to "its" valuation returns v on Bdd::from(v): the predicate is_valuation answers
   true, and sat_witness, first/last_valuation, most_positive/most_negative_valuation and random_valuation (whatever
   the random bits) all return v itself *)
Theorem of_valuation_back v :
  is_valuation (of_valuation v) = Ok true /\
  sat_witness (of_valuation v) = Ok (Some v) /\
  first_valuation (of_valuation v) = Ok (Some v) /\
  last_valuation (of_valuation v) = Ok (Some v) /\
  most_positive_valuation (of_valuation v) = Ok (Some v) /\
  most_negative_valuation (of_valuation v) = Ok (Some v) /\
  forall script, random_valuation (of_valuation v) script = Ok (Some v).
Proof.
  destruct (of_valuation_correct v) as (_ & _ & _ & C). pose proof (of_valuation_not_false v) as F.
  split.
  { destruct (is_valuation_iff _ C) as (r & Hr & Hiff). rewrite Hr. f_equal. apply Hiff.
    exists v. split; [now apply of_valuation_sat_list|]. intros l' H. now apply of_valuation_sat_list. }
  split.
  { destruct (sat_witness_spec _ C F) as (l & Hl & S). apply of_valuation_sat_list in S. now subst l. }
  split.
  { destruct (first_valuation_spec _ C F) as (l & Hl & S & _). apply of_valuation_sat_list in S. now subst l. }
  split.
  { destruct (last_valuation_spec _ C F) as (l & Hl & S & _). apply of_valuation_sat_list in S. now subst l. }
  split.
  { destruct (most_positive_spec _ C F) as (l & Hl & S & _). apply of_valuation_sat_list in S. now subst l. }
  split.
  { destruct (most_negative_spec _ C F) as (l & Hl & S & _). apply of_valuation_sat_list in S. now subst l. }
  intros script. destruct (random_valuation_spec _ script C F) as (l & Hl & S). apply of_valuation_sat_list in S. now subst l.
Qed.
Print Assumptions of_valuation_back.

(* conversely: a canonical Bdd on which is_valuation answers true IS Bdd::from of its witness *)
Theorem is_valuation_of_valuation b : Canonical b -> is_valuation b = Ok true ->
  exists v, sat_witness b = Ok (Some v) /\ b = of_valuation v.
Proof.
  intros C H. destruct (is_valuation_iff b C) as (r & Hr & Hiff). rewrite H in Hr. injection Hr as <-.
  destruct (proj1 Hiff eq_refl) as (v & (Hlen & Hv) & U).
  assert (F : is_false b = false).
  { destruct (is_false b) eqn:E; [|reflexivity].
    pose proof (proj1 (SelectAll.is_false_correct_benign _ (canonical_benign _ C)) E (val_of_list v)). congruence. }
  destruct (sat_witness_spec b C F) as (l & Hl & S). apply U in S. subst l. exists v. split; [exact Hl|].
  destruct (of_valuation_correct v) as (_ & Nv & _ & Cv).
  apply canonical_unique; [exact C|exact Cv|rewrite Nv; lia|].
  intros w. destruct (eval b w) eqn:Ew; symmetry.
  - apply of_valuation_correct_N. intros x Hx.
    assert (S : sat_list b (list_of_val (nvars b) w)).
    { split; [apply list_of_val_length|]. rewrite (eval_agree_nv b _ w (proj1 C)); [exact Ew|]. intros y Hy. now apply list_of_val_get. }
    apply U in S. rewrite <- S. symmetry. apply list_of_val_get. lia.
  - destruct (eval (of_valuation v) w) eqn:E2; [|reflexivity]. exfalso.
    rewrite of_valuation_correct_N in E2.
    rewrite (eval_agree_nv b w (val_of_list v) (proj1 C)) in Ew; [congruence|]. intros x Hx. apply E2. lia.
Qed.
Print Assumptions is_valuation_of_valuation.

Example of_valuation_back_example :
  let v := [true; false; true; true] in
  is_valuation (of_valuation v) = Ok true /\ sat_witness (of_valuation v) = Ok (Some v) /\
  first_valuation (of_valuation v) = Ok (Some v) /\ exact_cardinality (of_valuation v) = 1 /\ card_bf (of_valuation v) = 1.
Proof. vm_compute. repeat split; reflexivity. Qed.
