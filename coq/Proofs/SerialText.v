(* Proofs/SerialText.v — the text format: totality of the reader on arbitrary byte strings, numbers taken at face
   value, round trip of the writer's output, tolerance of (ASCII) whitespace, schedule independence, failures. *)
From Coq Require Import List NArith Lia Bool.
Import ListNotations.
From BddVerif Require Import Model.Bdd Model.Apply Model.Serial Proofs.SerialIO Proofs.SerialBytes.
Open Scope N_scope.

(* ---------------------------------------------------------------- totality *)
Lemma parse_record_total p : exists r, parse_record p = Ok r.
Proof.
  unfold parse_record. cbv zeta. destruct (N.ltb_spec (len (split_on 44 p)) 3) as [S|B]; [eauto|].
  destruct (split_on 44 p) as [|f0 [|f1 [|f2 more]]]; unfold len in B; cbn [length] in B; try lia.
  unfold idx. cbn [nth_error obind].
  destruct (parse_uint u16_bound f0); [|eauto]. destruct (parse_uint u32_bound f1); [|eauto].
  destruct (parse_uint u32_bound f2); eauto.
Qed.

Lemma parse_records_total ps : exists r, parse_records ps = Ok r.
Proof.
  induction ps as [|p ps (r & IH)]; cbn [parse_records]; [eauto|].
  destruct p as [|c p]; [eauto|].
  destruct (parse_record_total (c :: p)) as ([nd|] & E); rewrite E; [|eauto].
  rewrite IH. destruct r; eauto.
Qed.

Theorem read_text_cps_total cps : exists r, read_text_cps cps = Ok r.
Proof. apply parse_records_total. Qed.

Theorem read_text_total data sched :
  read_text_sched data sched <> Panic /\ read_text_sched data sched <> OutOfFuel.
Proof.
  unfold read_text_sched. destruct (read_to_end [] data sched) as [bytes|]; [|split; discriminate].
  destruct (utf8_decode bytes) as [cps|]; [|split; discriminate].
  destruct (read_text_cps_total cps) as (r & E). rewrite E. split; discriminate.
Qed.

(* ---------------------------------------------------------------- numbers at face value *)
Definition dstep (a c : N) : N := a * 10 + (c - 48).
Definition dval (l : list N) : N := fold_left dstep l 0.
Definition unsigned_digits (f : list N) : list N :=
  match f with c :: r => if c =? 43 then r else f | [] => [] end.
(* the unbounded decimal value of a field: optional '+', then one or more ASCII digits *)
Definition face (f : list N) : option N :=
  match unsigned_digits f with
  | [] => None
  | ds => if forallb is_digit ds then Some (dval ds) else None
  end.

Lemma parse_digits_spec bound l : forall acc x, parse_digits bound l acc = Some x ->
  forallb is_digit l = true /\ x = fold_left dstep l acc /\ (l <> [] -> x < bound).
Proof.
  induction l as [|c r IH]; intros acc x H; cbn [parse_digits] in H.
  - inversion H; subst. split; [reflexivity|]. split; [reflexivity|congruence].
  - destruct (is_digit c) eqn:D; [|discriminate]. cbv zeta in H.
    destruct (N.leb_spec bound (acc * 10 + (c - 48))) as [O|I]; [discriminate|].
    destruct (IH _ _ H) as (F & E & B). cbn [forallb fold_left]. rewrite D, F. split; [reflexivity|].
    split; [exact E|]. intros _. destruct r as [|c2 r]; [cbn in E; subst; exact I|apply B; discriminate].
Qed.

Lemma is_digit_range c : is_digit c = true -> 48 <= c <= 57.
Proof. unfold is_digit. rewrite andb_true_iff, !N.leb_le. tauto. Qed.

Lemma parse_uint_face bound f x : parse_uint bound f = Some x -> face f = Some x /\ x < bound.
Proof.
  unfold parse_uint, face, unsigned_digits. destruct f as [|c [|c2 r]]; [discriminate| |].
  - destruct ((c =? 43) || (c =? 45)) eqn:S; [discriminate|]. intros H.
    destruct (parse_digits_spec _ _ _ _ H) as (F & E & B).
    apply orb_false_iff in S. destruct S as (S & _). rewrite S, F. unfold dval. rewrite <- E.
    split; [reflexivity|apply B; discriminate].
  - destruct (c =? 43); intros H; destruct (parse_digits_spec _ _ _ _ H) as (F & E & B); rewrite F; unfold dval; rewrite <- E;
      (split; [reflexivity|apply B; discriminate]).
Qed.

Definition nonempty (p : list N) : bool := match p with [] => false | _ => true end.
(* the records of a text, each split into its fields: what `split('|')`, the emptiness filter and `split(',')` see *)
Definition text_fields (cps : list N) : list (list (list N)) :=
  map (split_on 44) (filter nonempty (split_on 124 (filter (fun c => negb (is_ws c)) cps))).
Definition field_rel (items : list (list N)) (nd : node) : Prop :=
  exists f0 f1 f2 more, items = f0 :: f1 :: f2 :: more /\
    face f0 = Some (nvar nd) /\ face f1 = Some (nlow nd) /\ face f2 = Some (nhigh nd) /\
    nvar nd < u16_bound /\ nlow nd < u32_bound /\ nhigh nd < u32_bound.

Lemma parse_record_face p nd : parse_record p = Ok (ROk nd) -> field_rel (split_on 44 p) nd.
Proof.
  unfold parse_record. cbv zeta. destruct (N.ltb_spec (len (split_on 44 p)) 3) as [S|B]; [discriminate|].
  destruct (split_on 44 p) as [|f0 [|f1 [|f2 more]]]; unfold len in B; cbn [length] in B; try lia.
  unfold idx. cbn [nth_error obind].
  destruct (parse_uint u16_bound f0) as [v|] eqn:P0; [|discriminate].
  destruct (parse_uint u32_bound f1) as [l|] eqn:P1; [|discriminate].
  destruct (parse_uint u32_bound f2) as [h|] eqn:P2; [|discriminate].
  intros H. inversion H; subst. clear H.
  apply parse_uint_face in P0, P1, P2. destruct P0 as (F0 & B0), P1 as (F1 & B1), P2 as (F2 & B2).
  exists f0, f1, f2, more. cbn [nvar nlow nhigh]. rewrite !N.mod_small by assumption. repeat split; assumption.
Qed.

Lemma parse_records_face ps : forall b, parse_records ps = Ok (ROk b) ->
  Forall2 field_rel (map (split_on 44) (filter nonempty ps)) b.
Proof.
  induction ps as [|p ps IH]; intros b H; cbn [parse_records] in H.
  - inversion H; subst. constructor.
  - destruct p as [|c p]; [cbn [filter nonempty]; apply IH; exact H|].
    cbn [filter nonempty map].
    destruct (parse_record (c :: p)) as [[nd|]| |] eqn:E; try discriminate.
    destruct (parse_records ps) as [[l|]| |] eqn:R; try discriminate.
    inversion H; subst. constructor; [apply parse_record_face; exact E|apply IH; reflexivity].
Qed.

Theorem text_face_value_cps cps b : read_text_cps cps = Ok (ROk b) -> Forall2 field_rel (text_fields cps) b.
Proof. apply parse_records_face. Qed.

Theorem text_face_value data sched b : read_text_sched data sched = Ok (ROk b) ->
  exists bytes cps, read_to_end [] data sched = ROk bytes /\ utf8_decode bytes = Some cps /\
                    Forall2 field_rel (text_fields cps) b.
Proof.
  unfold read_text_sched. destruct (read_to_end [] data sched) as [bytes|]; [|discriminate].
  destruct (utf8_decode bytes) as [cps|] eqn:U; [|discriminate]. intros H.
  exists bytes, cps. split; [reflexivity|]. split; [exact U|]. apply text_face_value_cps. exact H.
Qed.

(* ---------------------------------------------------------------- decimal rendering *)
Lemma pos_size_nat_gt p : N.pos p < 2 ^ N.of_nat (Pos.size_nat p).
Proof.
  induction p as [p IH|p IH|]; cbn [Pos.size_nat]; rewrite ?Nnat.Nat2N.inj_succ, ?N.pow_succ_r'; lia.
Qed.

Lemma size_nat_gt x : x < 2 ^ N.of_nat (N.size_nat x).
Proof. destruct x as [|p]; [cbn; lia|apply pos_size_nat_gt]. Qed.

Lemma dec_aux_unfold f x acc :
  dec_aux (S f) x acc = if x <? 10 then (48 + x mod 10) :: acc else dec_aux f (x / 10) ((48 + x mod 10) :: acc).
Proof. reflexivity. Qed.

Lemma dec_aux_spec : forall fuel x acc, x < 2 ^ N.of_nat fuel ->
  exists ds, dec_aux (S fuel) x acc = ds ++ acc /\ ds <> [] /\ forallb is_digit ds = true /\ dval ds = x.
Proof.
  induction fuel as [|f IH]; intros x acc Hx; rewrite dec_aux_unfold.
  - cbn in Hx. assert (x = 0) by lia. subst x. exists [48]. repeat split; discriminate.
  - destruct (N.ltb_spec x 10) as [S|B].
    + exists [48 + x mod 10]. rewrite N.mod_small by assumption. split; [reflexivity|]. split; [discriminate|].
      split; [|unfold dval, dstep; cbn [fold_left]; lia].
      cbn [forallb]. unfold is_digit. rewrite andb_true_r, andb_true_iff, !N.leb_le. lia.
    + destruct (IH (x / 10) ((48 + x mod 10) :: acc)) as (ds & E & NE & F & V).
      { rewrite Nnat.Nat2N.inj_succ, N.pow_succ_r' in Hx. apply N.div_lt_upper_bound; lia. }
      exists (ds ++ [48 + x mod 10]). split; [rewrite E, <- app_assoc; reflexivity|].
      split; [destruct ds; discriminate|]. assert (x mod 10 < 10) by (apply N.mod_lt; lia).
      split.
      * rewrite forallb_app, F. cbn [forallb andb]. unfold is_digit. rewrite andb_true_r, andb_true_iff, !N.leb_le.
        set (m := x mod 10) in *. lia.
      * unfold dval in *. rewrite fold_left_app, V. cbn [fold_left]. unfold dstep.
        pose proof (N.div_mod' x 10). set (m := x mod 10) in *. set (q := x / 10) in *. lia.
Qed.

Lemma dec_spec x : dec x <> [] /\ forallb is_digit (dec x) = true /\ dval (dec x) = x.
Proof.
  unfold dec. destruct (dec_aux_spec (N.size_nat x) x [] (size_nat_gt x)) as (ds & E & NE & F & V).
  rewrite E, app_nil_r. auto.
Qed.

Lemma fold_dstep_ge r : forall a, a <= fold_left dstep r a.
Proof. induction r as [|c r IH]; intros a; cbn [fold_left]; [lia|]. specialize (IH (dstep a c)). unfold dstep in *. lia. Qed.

Lemma parse_digits_ok bound ds : forall acc, forallb is_digit ds = true -> fold_left dstep ds acc < bound ->
  parse_digits bound ds acc = Some (fold_left dstep ds acc).
Proof.
  induction ds as [|c r IH]; intros acc F B; cbn [parse_digits fold_left] in *; [reflexivity|].
  apply andb_true_iff in F. destruct F as (Fc & Fr). rewrite Fc. cbv zeta. fold (dstep acc c).
  pose proof (fold_dstep_ge r (dstep acc c)).
  destruct (N.leb_spec bound (dstep acc c)); [lia|]. apply IH; assumption.
Qed.

Lemma parse_uint_digits bound ds : ds <> [] -> forallb is_digit ds = true -> dval ds < bound ->
  parse_uint bound ds = Some (dval ds).
Proof.
  intros NE F B. unfold parse_uint. destruct ds as [|c [|c2 r]]; [congruence| |].
  - cbn [forallb] in F. rewrite andb_true_r in F. apply is_digit_range in F as R.
    destruct (N.eqb_spec c 43); [lia|]. destruct (N.eqb_spec c 45); [lia|]. cbn [orb].
    apply parse_digits_ok; [cbn [forallb]; now rewrite F|exact B].
  - pose proof F as F'. cbn [forallb] in F'. apply andb_true_iff in F'. destruct F' as (Fc & _). apply is_digit_range in Fc.
    destruct (N.eqb_spec c 43); [lia|]. apply parse_digits_ok; assumption.
Qed.

Lemma parse_uint_dec bound x : x < bound -> parse_uint bound (dec x) = Some x.
Proof.
  intros B. destruct (dec_spec x) as (NE & F & V). rewrite parse_uint_digits; try assumption; [now rewrite V|now rewrite V].
Qed.

(* ---------------------------------------------------------------- split *)
Lemma split_on_app sep a r : ~ In sep a -> split_on sep (a ++ sep :: r) = a :: split_on sep r.
Proof.
  induction a as [|c a IH]; intros NI; cbn [app split_on].
  - now rewrite N.eqb_refl.
  - destruct (N.eqb_spec c sep) as [->|NE]; [exfalso; apply NI; left; reflexivity|].
    rewrite IH; [reflexivity|]. intros K. apply NI. right. exact K.
Qed.

Lemma split_on_nosep sep a : ~ In sep a -> split_on sep a = [a].
Proof.
  induction a as [|c a IH]; intros NI; cbn [split_on]; [reflexivity|].
  destruct (N.eqb_spec c sep) as [->|NE]; [exfalso; apply NI; left; reflexivity|].
  rewrite IH; [reflexivity|]. intros K. apply NI. right. exact K.
Qed.

Lemma digits_no c ds : forallb is_digit ds = true -> c < 48 \/ 57 < c -> ~ In c ds.
Proof.
  intros F H K. rewrite forallb_forall in F. apply F in K. apply is_digit_range in K. lia.
Qed.

(* ---------------------------------------------------------------- round trip *)
Definition wt_tail (b : bdd) : list N := concat (flat_map node_text_pieces b).
Definition body (n : node) : list N := dec (nvar n) ++ 44 :: dec (nlow n) ++ 44 :: dec (nhigh n).

Lemma write_text_eq b : write_text b = 124 :: wt_tail b.
Proof. reflexivity. Qed.

Lemma wt_tail_cons n b : wt_tail (n :: b) = body n ++ 124 :: wt_tail b.
Proof.
  unfold wt_tail, body. cbn [flat_map]. rewrite concat_app. unfold node_text_pieces. cbn [concat app].
  repeat (rewrite <- app_assoc; cbn [app]). reflexivity.
Qed.

Lemma parse_record_body n : nvar n < u16_bound -> nlow n < u32_bound -> nhigh n < u32_bound ->
  parse_record (body n) = Ok (ROk n).
Proof.
  intros Hv Hl Hh. unfold parse_record, body. cbv zeta.
  destruct (dec_spec (nvar n)) as (_ & Fv & _), (dec_spec (nlow n)) as (_ & Fl & _), (dec_spec (nhigh n)) as (_ & Fh & _).
  rewrite split_on_app by (apply digits_no; [assumption|lia]).
  rewrite split_on_app by (apply digits_no; [assumption|lia]).
  rewrite split_on_nosep by (apply digits_no; [assumption|lia]).
  unfold len, idx. cbn [length nth_error obind N.of_nat]. cbn [N.ltb N.compare Pos.of_succ_nat Pos.succ Pos.compare Pos.compare_cont].
  rewrite !parse_uint_dec by assumption. rewrite !N.mod_small by assumption. destruct n; reflexivity.
Qed.

Lemma body_nonempty n : exists c r, body n = c :: r.
Proof.
  unfold body. destruct (dec_spec (nvar n)) as (NE & _ & _). destruct (dec (nvar n)) as [|c r]; [congruence|].
  eexists _, _. reflexivity.
Qed.

Lemma body_no_bar n : ~ In 124 (body n).
Proof.
  unfold body. destruct (dec_spec (nvar n)) as (_ & Fv & _), (dec_spec (nlow n)) as (_ & Fl & _), (dec_spec (nhigh n)) as (_ & Fh & _).
  intros K. rewrite in_app_iff in K. destruct K as [K|[K|K]]; [revert K; apply digits_no; [assumption|lia]|discriminate|].
  rewrite in_app_iff in K. destruct K as [K|[K|K]]; [revert K; apply digits_no; [assumption|lia]|discriminate|].
  revert K; apply digits_no; [assumption|lia].
Qed.

Lemma parse_records_wt b : in_range b -> parse_records (split_on 124 (wt_tail b)) = Ok (ROk b).
Proof.
  induction 1 as [|n b (Hv & Hl & Hh) _ IH]; [reflexivity|].
  rewrite wt_tail_cons, split_on_app by apply body_no_bar.
  destruct (body_nonempty n) as (c & r & E). cbn [parse_records]. rewrite E. rewrite <- E.
  rewrite parse_record_body by assumption. rewrite IH. reflexivity.
Qed.

Definition text_char (c : N) : Prop := c = 124 \/ c = 44 \/ is_digit c = true.

Lemma text_char_props c : text_char c -> is_ws c = false /\ c < 128.
Proof.
  intros H. assert (R : c = 124 \/ c = 44 \/ 48 <= c <= 57).
  { destruct H as [H|[H|H]]; [auto|auto|right; right; apply is_digit_range; exact H]. }
  split; [|lia]. unfold is_ws.
  repeat match goal with
         | |- context [?a <=? ?b] => destruct (N.leb_spec a b); try lia
         | |- context [?a =? ?b] => destruct (N.eqb_spec a b); try lia
         end; reflexivity.
Qed.

Lemma body_chars n : Forall text_char (body n).
Proof.
  unfold body.
  assert (D : forall x, Forall text_char (dec x)).
  { intros x. destruct (dec_spec x) as (_ & F & _). rewrite forallb_forall in F. apply Forall_forall.
    intros c Hc. right; right. apply F; exact Hc. }
  apply Forall_app. split; [apply D|]. constructor; [right; left; reflexivity|].
  apply Forall_app. split; [apply D|]. constructor; [right; left; reflexivity|apply D].
Qed.

Lemma write_text_chars b : Forall text_char (write_text b).
Proof.
  rewrite write_text_eq. constructor; [left; reflexivity|].
  induction b as [|n b IH]; [constructor|]. rewrite wt_tail_cons. apply Forall_app. split; [apply body_chars|].
  constructor; [left; reflexivity|exact IH].
Qed.

Lemma filter_ws_id l : Forall text_char l -> filter (fun c => negb (is_ws c)) l = l.
Proof.
  induction 1 as [|c l Hc _ IH]; cbn [filter]; [reflexivity|].
  destruct (text_char_props c Hc) as (W & _). rewrite W. cbn [negb]. now rewrite IH.
Qed.

Lemma utf8_ascii s : Forall (fun c => c < 128) s -> utf8_decode s = Some s.
Proof.
  induction 1 as [|c l Hc _ IH]; cbn [utf8_decode]; [reflexivity|].
  destruct (N.ltb_spec c 128); [|lia]. rewrite IH. reflexivity.
Qed.

Lemma read_text_cps_write b : in_range b -> read_text_cps (write_text b) = Ok (ROk b).
Proof.
  intros R. unfold read_text_cps. rewrite filter_ws_id by apply write_text_chars.
  rewrite write_text_eq. cbn [split_on]. rewrite N.eqb_refl. cbn [parse_records]. apply parse_records_wt. exact R.
Qed.

(* reading, as a function of the byte stream alone, for every failure-free schedule *)
Theorem read_text_sched_indep data sched : clean sched -> read_text_sched data sched = read_text data.
Proof.
  intros C. unfold read_text, read_text_sched. rewrite read_to_end_clean by assumption.
  rewrite (read_to_end_clean [] (Forall_nil _)). reflexivity.
Qed.

Theorem text_whitespace s b sched : Forall (fun c => c < 128) s ->
  filter (fun c => negb (is_ws c)) s = write_text b -> in_range b -> clean sched ->
  read_text_sched s sched = Ok (ROk b).
Proof.
  intros A F R C. rewrite read_text_sched_indep by assumption. unfold read_text, read_text_sched.
  cbn [read_to_end rev_append]. rewrite utf8_ascii by assumption.
  pose proof (read_text_cps_write b R) as W. unfold read_text_cps in *. rewrite F.
  rewrite filter_ws_id in W by apply write_text_chars. exact W.
Qed.

Theorem text_roundtrip b sched : in_range b -> clean sched -> read_text_sched (write_text b) sched = Ok (ROk b).
Proof.
  intros R C. apply text_whitespace; try assumption.
  - eapply Forall_impl; [|apply write_text_chars]. intros c Hc. apply text_char_props. exact Hc.
  - apply filter_ws_id. apply write_text_chars.
Qed.

Theorem read_text_fail data pre e post : clean pre -> chunk_total pre <= len data -> e <> KInterrupted ->
  read_text_sched data (pre ++ EFail e :: post) = Ok RErr.
Proof. intros C Ht Ne. unfold read_text_sched. rewrite read_to_end_fail by assumption. reflexivity. Qed.

(* writers *)
Theorem write_text_sched_clean b sched : clean sched -> write_text_sched b sched = (true, write_text b).
Proof.
  intros C. unfold write_text_sched, write_text.
  destruct (write_pieces_clean (write_text_pieces b) sched [] C) as (s' & E & _). rewrite E.
  rewrite rev_append_rev, app_nil_r, app_nil_r, rev_involutive. reflexivity.
Qed.

Theorem write_text_sched_prefix b sched ok acc : write_text_sched b sched = (ok, acc) ->
  exists rest, write_text b = acc ++ rest /\ (ok = true -> rest = []).
Proof.
  unfold write_text_sched, write_text.
  destruct (write_pieces (write_text_pieces b) sched []) as [ok' [s' o]] eqn:W. intros H. inversion H; subst.
  destruct (write_pieces_prefix _ _ _ _ _ _ W) as (a & rest & E & O & K). exists rest. split; [|exact K].
  rewrite O, rev_append_rev, !app_nil_r, rev_involutive. exact E.
Qed.

Theorem write_text_sched_fail b pre e post : clean pre -> chunk_total pre < len (write_text b) -> e <> KInterrupted ->
  write_text_sched b (pre ++ EFail e :: post) = (false, firstn (N.to_nat (chunk_total pre)) (write_text b)).
Proof.
  intros C Ht Ne. unfold write_text_sched. unfold write_text in *.
  destruct (write_pieces_fail (write_text_pieces b) pre [] e post C Ht Ne) as (s' & E). rewrite E.
  rewrite rev_append_rev, !app_nil_r, rev_involutive. reflexivity.
Qed.

(* whitespace at the level of Unicode scalar values (after UTF-8 decoding): any White_Space characters anywhere *)
Theorem text_whitespace_cps cps b : filter (fun c => negb (is_ws c)) cps = write_text b -> in_range b ->
  read_text_cps cps = Ok (ROk b).
Proof.
  intros F R. pose proof (read_text_cps_write b R) as W. unfold read_text_cps in *. rewrite F.
  rewrite filter_ws_id in W by apply write_text_chars. exact W.
Qed.

Theorem normal_text_roundtrip b : in_range b -> read_text (write_text b) = Ok (ROk b).
Proof. intros R. apply text_roundtrip; [exact R|constructor]. Qed.

(* "normally formatted" = the writer's format of some diagram with 16-bit variables and 32-bit links *)
Theorem normal_text_reserialize b0 b : in_range b0 -> read_text (write_text b0) = Ok (ROk b) ->
  write_text b = write_text b0.
Proof. intros R H. rewrite normal_text_roundtrip in H by assumption. inversion H; subst. reflexivity. Qed.

(* ---------------------------------------------------------------- syntactically normal text re-serialises to itself *)
(* a canonical decimal numeral: ASCII digits, at least one, no leading zero except "0" itself *)
Definition canon_dec (f : list N) : Prop :=
  f <> [] /\ forallb is_digit f = true /\ (forall r, f = 48 :: r -> r = []).

Lemma dec_aux_fuel : forall f1 f2 x acc, x < 2 ^ N.of_nat f1 -> x < 2 ^ N.of_nat f2 ->
  dec_aux (S f1) x acc = dec_aux (S f2) x acc.
Proof.
  induction f1 as [|f1 IH]; intros f2 x acc H1 H2; rewrite (dec_aux_unfold _ x acc), (dec_aux_unfold f2 x acc).
  - cbn in H1. destruct (N.ltb_spec x 10); [reflexivity|lia].
  - destruct (N.ltb_spec x 10) as [S|B]; [reflexivity|].
    destruct f2 as [|f2]; [cbn in H2; lia|].
    rewrite Nnat.Nat2N.inj_succ, N.pow_succ_r' in H1, H2.
    apply IH; apply N.div_lt_upper_bound; lia.
Qed.

Lemma dec_aux_acc : forall f x acc, x < 2 ^ N.of_nat f -> dec_aux (S f) x acc = dec_aux (S f) x [] ++ acc.
Proof.
  induction f as [|f IH]; intros x acc H; rewrite (dec_aux_unfold _ x acc), (dec_aux_unfold _ x []).
  - cbn in H. destruct (N.ltb_spec x 10); [reflexivity|lia].
  - destruct (N.ltb_spec x 10) as [S|B]; [reflexivity|].
    rewrite Nnat.Nat2N.inj_succ, N.pow_succ_r' in H.
    assert (Hq : x / 10 < 2 ^ N.of_nat f) by (apply N.div_lt_upper_bound; lia).
    rewrite (IH _ (_ :: acc) Hq), (IH _ [_] Hq), <- app_assoc. reflexivity.
Qed.

Lemma dec_small x : x < 10 -> dec x = [48 + x].
Proof. intros H. unfold dec. rewrite dec_aux_unfold. destruct (N.ltb_spec x 10); [|lia]. now rewrite N.mod_small. Qed.

Lemma dec_step x : 10 <= x -> dec x = dec (x / 10) ++ [48 + x mod 10].
Proof.
  intros H. unfold dec. pose proof (size_nat_gt x) as G.
  destruct (N.size_nat x) as [|n]; [cbn in G; lia|].
  rewrite dec_aux_unfold. destruct (N.ltb_spec x 10); [lia|].
  rewrite Nnat.Nat2N.inj_succ, N.pow_succ_r' in G.
  assert (Hq : x / 10 < 2 ^ N.of_nat n) by (apply N.div_lt_upper_bound; lia).
  rewrite dec_aux_acc by assumption. f_equal. apply dec_aux_fuel; [assumption|apply size_nat_gt].
Qed.

Lemma dval_app f c : dval (f ++ [c]) = dval f * 10 + (c - 48).
Proof. unfold dval. rewrite fold_left_app. reflexivity. Qed.

Lemma dval_pos f : f <> [] -> forallb is_digit f = true -> (forall r, f <> 48 :: r) -> 1 <= dval f.
Proof.
  intros NE F NZ. destruct f as [|h t]; [congruence|]. unfold dval. cbn [fold_left forallb] in *.
  apply andb_true_iff in F. destruct F as (Fh & _). apply is_digit_range in Fh.
  assert (h <> 48) by (intros ->; apply (NZ t); reflexivity).
  pose proof (fold_dstep_ge t (dstep 0 h)). unfold dstep in *. lia.
Qed.

Lemma dec_dval f : canon_dec f -> dec (dval f) = f.
Proof.
  induction f as [|c f' IH] using rev_ind; intros (NE & F & Z); [congruence|].
  rewrite forallb_app in F. apply andb_true_iff in F. destruct F as (F' & Fc). cbn [forallb] in Fc. rewrite andb_true_r in Fc.
  apply is_digit_range in Fc as Rc. rewrite dval_app.
  destruct f' as [|h t].
  - cbn [app]. unfold dval. cbn [fold_left]. rewrite dec_small by lia. f_equal. lia.
  - assert (NZ : forall r, h :: t <> 48 :: r).
    { intros r E. inversion E; subst. specialize (Z (r ++ [c]) eq_refl). destruct r; discriminate. }
    pose proof (dval_pos (h :: t) ltac:(discriminate) F' NZ) as P.
    set (q := dval (h :: t)) in *.
    rewrite dec_step by lia.
    replace ((q * 10 + (c - 48)) / 10) with q.
    2:{ apply (N.div_unique _ 10 q (c - 48)); lia. }
    replace ((q * 10 + (c - 48)) mod 10) with (c - 48).
    2:{ apply (N.mod_unique _ 10 q (c - 48)); lia. }
    rewrite IH; [f_equal; f_equal; lia|].
    split; [discriminate|]. split; [exact F'|]. intros r E. exfalso. exact (NZ r E).
Qed.

Definition rec3 := (list N * list N * list N)%type.
Definition fbody (r : rec3) : list N := let '(f0, f1, f2) := r in f0 ++ 44 :: f1 ++ 44 :: f2.
Definition render_tail (recs : list rec3) : list N := concat (map (fun r => fbody r ++ [124]) recs).
(* "|f,f,f|f,f,f|...|" *)
Definition render (recs : list rec3) : list N := 124 :: render_tail recs.
Definition canon_rec (r : rec3) : Prop := let '(f0, f1, f2) := r in canon_dec f0 /\ canon_dec f1 /\ canon_dec f2.
Definition node_of (r : rec3) : node := let '(f0, f1, f2) := r in mkNode (dval f0) (dval f1) (dval f2).

Lemma canon_chars f : canon_dec f -> Forall text_char f.
Proof. intros (_ & F & _). rewrite forallb_forall in F. apply Forall_forall. intros c Hc. right; right. apply F; exact Hc. Qed.

Lemma fbody_chars r : canon_rec r -> Forall text_char (fbody r).
Proof.
  destruct r as [[f0 f1] f2]. intros (C0 & C1 & C2). unfold fbody.
  apply Forall_app. split; [apply canon_chars; assumption|]. constructor; [right; left; reflexivity|].
  apply Forall_app. split; [apply canon_chars; assumption|]. constructor; [right; left; reflexivity|apply canon_chars; assumption].
Qed.

Lemma render_chars recs : Forall canon_rec recs -> Forall text_char (render recs).
Proof.
  intros H. unfold render. constructor; [left; reflexivity|]. unfold render_tail.
  induction H as [|r recs Hr _ IH]; [constructor|]. cbn [map concat].
  apply Forall_app. split; [|exact IH]. apply Forall_app. split; [apply fbody_chars; assumption|].
  constructor; [left; reflexivity|constructor].
Qed.

Lemma fbody_split r : canon_rec r -> split_on 44 (fbody r) = let '(f0, f1, f2) := r in [f0; f1; f2].
Proof.
  destruct r as [[f0 f1] f2]. intros ((_ & F0 & _) & (_ & F1 & _) & (_ & F2 & _)). unfold fbody.
  rewrite split_on_app by (apply digits_no; [assumption|lia]).
  rewrite split_on_app by (apply digits_no; [assumption|lia]).
  rewrite split_on_nosep by (apply digits_no; [assumption|lia]). reflexivity.
Qed.

Lemma fbody_no_bar r : canon_rec r -> ~ In 124 (fbody r).
Proof.
  intros C K. pose proof (fbody_chars r C) as A. rewrite Forall_forall in A.
  assert (S : split_on 44 (fbody r) = let '(f0, f1, f2) := r in [f0; f1; f2]) by (apply fbody_split; exact C).
  destruct r as [[f0 f1] f2]. destruct C as ((_ & F0 & _) & (_ & F1 & _) & (_ & F2 & _)). unfold fbody in K.
  rewrite in_app_iff in K. destruct K as [K|[K|K]]; [revert K; apply digits_no; [assumption|lia]|discriminate|].
  rewrite in_app_iff in K. destruct K as [K|[K|K]]; [revert K; apply digits_no; [assumption|lia]|discriminate|].
  revert K; apply digits_no; [assumption|lia].
Qed.

Lemma fbody_nonempty r : canon_rec r -> nonempty (fbody r) = true.
Proof. destruct r as [[f0 f1] f2]. intros ((NE & _) & _). unfold fbody. destruct f0; [congruence|reflexivity]. Qed.

Lemma text_fields_render recs : Forall canon_rec recs ->
  text_fields (render recs) = map (fun r : rec3 => let '(f0, f1, f2) := r in [f0; f1; f2]) recs.
Proof.
  intros H. unfold text_fields. rewrite filter_ws_id by (apply render_chars; exact H).
  unfold render. cbn [split_on]. rewrite N.eqb_refl. cbn [filter nonempty]. unfold render_tail.
  induction H as [|r recs Hr _ IH]; [reflexivity|]. cbn [map concat].
  rewrite <- app_assoc. cbn [app]. rewrite split_on_app by (apply fbody_no_bar; exact Hr).
  cbn [filter]. rewrite fbody_nonempty by exact Hr. cbn [map]. rewrite fbody_split by exact Hr. now rewrite IH.
Qed.

Lemma face_canon f : canon_dec f -> face f = Some (dval f).
Proof.
  intros (NE & F & _). unfold face, unsigned_digits. destruct f as [|c r]; [congruence|].
  pose proof F as F'. cbn [forallb] in F'. apply andb_true_iff in F'. destruct F' as (Fc & _). apply is_digit_range in Fc.
  destruct (N.eqb_spec c 43); [lia|]. now rewrite F.
Qed.

Lemma write_text_render recs : Forall canon_rec recs -> write_text (map node_of recs) = render recs.
Proof.
  intros H. rewrite write_text_eq. unfold render. f_equal. unfold render_tail.
  induction H as [|r recs Hr _ IH]; [reflexivity|]. cbn [map concat]. rewrite wt_tail_cons, IH.
  destruct r as [[f0 f1] f2]. destruct Hr as (C0 & C1 & C2). unfold body, node_of, fbody. cbn [nvar nlow nhigh].
  rewrite !dec_dval by assumption. rewrite <- !app_assoc. cbn [app]. rewrite <- !app_assoc. reflexivity.
Qed.

(* a text of the shape |n,n,n|n,n,n|...| with canonical decimal numerals, once accepted, re-serialises to itself *)
Theorem normal_text_reserialize_syntactic recs b : Forall canon_rec recs ->
  read_text (render recs) = Ok (ROk b) -> write_text b = render recs.
Proof.
  intros H R. rewrite <- (write_text_render recs H). f_equal.
  destruct (text_face_value _ _ _ R) as (bytes & cps & E & U & FR).
  cbn [read_to_end rev_append] in E. inversion E; subst bytes. clear E.
  rewrite utf8_ascii in U.
  2:{ eapply Forall_impl; [|apply render_chars; exact H]. intros c Hc. apply text_char_props. exact Hc. }
  inversion U; subst cps. clear U R. rewrite text_fields_render in FR by exact H.
  revert b FR. induction H as [|r recs Hr _ IH]; intros b FR; inversion FR as [|x nd l l' Rel Rest]; subst; [reflexivity|].
  cbn [map]. f_equal; [|apply IH; exact Rest].
  destruct r as [[f0 f1] f2]. destruct Hr as (C0 & C1 & C2).
  destruct Rel as (g0 & g1 & g2 & more & E & A0 & A1 & A2 & _). inversion E; subst.
  rewrite face_canon in A0, A1, A2 by assumption. inversion A0; inversion A1; inversion A2.
  unfold node_of. destruct nd; cbn in *. congruence.
Qed.
