(* Proofs/DryStack.v — the explicit-stack machine of Model/DryStack.v (one dstep = one iteration of the Rust `while`
   loop of estimated_apply_complexity: pop, terminal lookup, visited set, limit check, two unconditional pushes) computes
   exactly what the recursive model `dry` / `dry_run` of Model/Apply.v computes: dry_run_stack_eq.
   The visiting ORDER is the same in both: the machine pushes the two sub-tasks and pops the one pushed last, and all
   tasks pushed while that one is explored sit above its sibling, so the sibling is visited only after the whole
   sub-exploration — depth-first pre-order, which is literally the recursion `dry t1; dry t2` with t1 = the task pushed
   last.  Hence FULL equality for every limit (same Some/None, same flag, same count, and the same task exceeds the
   limit first); the simulation needs no hypothesis at all, the hypotheses of the top-level theorem only exclude the
   fuel-exhaustion answer of the recursive model. *)
From Coq Require Import List NArith Lia Bool Arith PeanoNat.
Import ListNotations.
From BddVerif Require Import Model.Bdd Model.Apply Model.DryStack
  Proofs.Sem Proofs.Canon Proofs.ApplySem Proofs.ApplyTop Proofs.DrySem.
Open Scope N_scope.

Section DryStack.
  Variables (A B : bdd) (fa fb fo : option N) (op : op2) (limit : N).
  Local Notation level := (Apply.level A B).
  Local Notation t_lo := (Apply.t_lo A B fa fb).
  Local Notation t_hi := (Apply.t_hi A B fa fb).
  Local Notation root := (Apply.root A B).
  Local Notation dry := (Apply.dry A B fa fb fo op limit).
  Local Notation dry_run := (Apply.dry_run A B fa fb fo op limit).
  Local Notation dstep := (DryStack.dstep A B fa fb fo op limit).
  Local Notation drun := (DryStack.drun A B fa fb fo op limit).
  Local Notation dry_run_stack := (DryStack.dry_run_stack A B fa fb fo op limit).

  (* k iterations of the loop body; drun d = 2^d iterations (the body is the identity once the loop is left) *)
  Fixpoint diter (k : nat) (c : dconf) : dconf :=
    match k with O => c | S k' => diter k' (dstep c) end.

  Lemma diter_add a b c : diter (a + b) c = diter b (diter a c).
  Proof. revert c; induction a as [|a IH]; intros c; cbn; auto. Qed.

  Lemma dstep_done c : dconf_done c = true -> dstep c = c.
  Proof. destruct c as [[|t stk] s|]; cbn; [reflexivity|discriminate|reflexivity]. Qed.

  Lemma diter_done k c : dconf_done c = true -> diter k c = c.
  Proof. intros H. induction k as [|k IH]; cbn; [reflexivity|]. rewrite (dstep_done c H). exact IH. Qed.

  Lemma drun_diter d : forall c, drun d c = diter (2 ^ d) c.
  Proof.
    induction d as [|d IH]; intros c; [reflexivity|].
    cbn [DryStack.drun]. rewrite Nat.pow_succ_r', Nat.mul_succ_l, Nat.mul_1_l, diter_add, <- !IH.
    destruct (dconf_done (drun d c)) eqn:E; [|reflexivity].
    symmetry. rewrite (IH (drun d c)). apply diter_done. exact E.
  Qed.

  Lemma drun_reach d k c c' : diter k c = c' -> dconf_done c' = true -> (k <= 2 ^ d)%nat -> drun d c = c'.
  Proof.
    intros E Hd Hk. rewrite drun_diter. replace (2 ^ d)%nat with (k + (2 ^ d - k))%nat by lia.
    rewrite diter_add, E. apply diter_done. exact Hd.
  Qed.

  (* the loop body in the vocabulary of Model/Apply.v *)
  Lemma dstep_eq t rest s : dstep (DRun (t :: rest) s) =
    match op (as_bool (fst t)) (as_bool (snd t)) with
    | Some b => DRun rest (mkD (visited s) (dcount s) (dflag s || b))
    | None =>
      if tmem t (visited s) then DRun rest s else
      let s1 := mkD (t :: visited s) (dcount s + 1) (dflag s) in
      if limit <? dcount s1 then DStop else
      if oeq fo (level t) then DRun (t_lo t :: t_hi t :: rest) s1 else DRun (t_hi t :: t_lo t :: rest) s1
    end.
  Proof.
    unfold DryStack.dstep, Apply.t_lo, Apply.t_hi, Apply.level.
    destruct (op _ _); [reflexivity|]. destruct (tmem _ _); [reflexivity|].
    cbv zeta. destruct (limit <? _); [reflexivity|].
    destruct (kids A fa (fst t) _) as [ll lh], (kids B fb (snd t) _) as [rl rh]. reflexivity.
  Qed.

  (* Simulation of ONE call of the recursive model, for any fuel, any state and any stack below, WITHOUT hypotheses:
     a successful call is matched by a run that pops the task and leaves the rest of the stack untouched, ending in
     exactly the state the call returns; an aborting call by a run that takes the early return. *)
  Lemma dry_sim : forall f t s,
    match dry f t s with
    | DOk s' => forall rest, exists k, (k + 1 <= 2 ^ f)%nat /\ diter k (DRun (t :: rest) s) = DRun rest s'
    | DAbort => forall rest, exists k, (k <= 2 ^ f)%nat /\ diter k (DRun (t :: rest) s) = DStop
    | DFuel => True
    end.
  Proof.
    induction f as [|f IH]; intros t s; [exact I|].
    assert (P1 : (1 <= 2 ^ f)%nat) by (pose proof (Nat.pow_nonzero 2 f); lia).
    assert (PS : (2 ^ S f = 2 ^ f + 2 ^ f)%nat) by (rewrite Nat.pow_succ_r'; lia).
    rewrite dry_S.
    destruct (op (as_bool (fst t)) (as_bool (snd t))) as [b|] eqn:Eop.
    { intros rest. exists 1%nat. split; [lia|]. cbn [diter]. rewrite dstep_eq, Eop. reflexivity. }
    destruct (tmem t (visited s)) eqn:Ev.
    { intros rest. exists 1%nat. split; [lia|]. cbn [diter]. rewrite dstep_eq, Eop, Ev. reflexivity. }
    cbv zeta. destruct (limit <? dcount (mkD (t :: visited s) (dcount s + 1) (dflag s))) eqn:El.
    { intros rest. exists 1%nat. split; [lia|]. cbn [diter]. rewrite dstep_eq, Eop, Ev. cbv zeta. rewrite El. reflexivity. }
    set (s1 := mkD (t :: visited s) (dcount s + 1) (dflag s)) in *.
    (* the two sub-calls, `t1` (pushed last, on top) first *)
    assert (Hcore : forall t1 t2,
              (forall rest, dstep (DRun (t :: rest) s) = DRun (t1 :: t2 :: rest) s1) ->
              match match dry f t1 s1 with DAbort => DAbort | DFuel => DFuel | DOk s2 => dry f t2 s2 end with
              | DOk s' => forall rest, exists k, (k + 1 <= 2 ^ S f)%nat /\ diter k (DRun (t :: rest) s) = DRun rest s'
              | DAbort => forall rest, exists k, (k <= 2 ^ S f)%nat /\ diter k (DRun (t :: rest) s) = DStop
              | DFuel => True
              end).
    { intros t1 t2 Hstep. pose proof (IH t1 s1) as H1.
      destruct (dry f t1 s1) as [| |s2]; [| exact I |].
      - intros rest. destruct (H1 (t2 :: rest)) as (k1 & B1 & R1).
        exists (1 + k1)%nat. split; [lia|]. cbn [plus diter]. rewrite Hstep. exact R1.
      - pose proof (IH t2 s2) as H2.
        destruct (dry f t2 s2) as [| |s3]; [| exact I |].
        + intros rest. destruct (H1 (t2 :: rest)) as (k1 & B1 & R1). destruct (H2 rest) as (k2 & B2 & R2).
          exists (1 + (k1 + k2))%nat. split; [lia|]. cbn [plus diter]. rewrite Hstep, diter_add, R1. exact R2.
        + intros rest. destruct (H1 (t2 :: rest)) as (k1 & B1 & R1). destruct (H2 rest) as (k2 & B2 & R2).
          exists (1 + (k1 + k2))%nat. split; [lia|]. cbn [plus diter]. rewrite Hstep, diter_add, R1. exact R2. }
    destruct (oeq fo (level t)) eqn:Esw.
    - apply Hcore. intros rest. rewrite dstep_eq, Eop, Ev. cbv zeta. fold s1. rewrite El, Esw. reflexivity.
    - apply Hcore. intros rest. rewrite dstep_eq, Eop, Ev. cbv zeta. fold s1. rewrite El, Esw. reflexivity.
  Qed.

  (* the machine equals the recursive model whenever the latter does not run out of fuel — no other hypothesis *)
  Lemma dry_run_stack_eq_nofuel : dry_run <> None -> dry_run_stack = dry_run.
  Proof.
    unfold Apply.dry_run, DryStack.dry_run_stack. intros Hf.
    pose proof (dry_sim (S (S (S (N.to_nat (nvars A))))) root (mkD [] 0 false)) as H.
    destruct (dry _ root _) as [| |s'].
    - destruct (H []) as (k & Hk & R). rewrite (drun_reach _ k _ _ R eq_refl Hk). reflexivity.
    - contradiction.
    - destruct (H []) as (k & Hk & R).
      assert (Hk' : (k <= 2 ^ S (S (S (N.to_nat (nvars A)))))%nat) by lia.
      rewrite (drun_reach _ k _ _ R eq_refl Hk'). reflexivity.
  Qed.
End DryStack.

(* ====================================================================== *)
(* Top-level statements                                                    *)

Definition dry_stack_iter := diter.

(* The simulation lemma for ONE call of `dry` (any operands, table, limit, fuel, state and stack below; no hypotheses) *)
Theorem dry_simulated : forall A B fa fb fo op limit fuel t s,
  match dry A B fa fb fo op limit fuel t s with
  | DOk s' => forall rest, exists k, (k + 1 <= 2 ^ fuel)%nat /\
                dry_stack_iter A B fa fb fo op limit k (DRun (t :: rest) s) = DRun rest s'
  | DAbort => forall rest, exists k, (k <= 2 ^ fuel)%nat /\
                dry_stack_iter A B fa fb fo op limit k (DRun (t :: rest) s) = DStop
  | DFuel => True
  end.
Proof. exact dry_sim. Qed.

(* The refinement theorem: FULL equality of the results for every limit.  Hypotheses: valid operands over the same
   variable count and a table that answers on total inputs — exactly what guarantees that the recursive model does not
   exhaust its fuel (dry_fuel_ok); flips need not be in range, the table need not be consistent. *)
Theorem dry_run_stack_eq : forall A B fa fb fo op limit,
  wf A -> wf B -> nvars A = nvars B -> total2 op ->
  dry_run_stack A B fa fb fo op limit = dry_run A B fa fb fo op limit.
Proof.
  intros A B fa fb fo op limit WA WB NV T. apply dry_run_stack_eq_nofuel.
  exact (dry_fuel_ok A B fa fb fo op (bop_of op) WA WB NV (total2_bop op T) limit).
Qed.

(* the weakest form: the only way the two can differ is the artificial fuel answer of the recursive model *)
Theorem dry_run_stack_eq_unless_fuel : forall A B fa fb fo op limit,
  dry_run A B fa fb fo op limit <> None ->
  dry_run_stack A B fa fb fo op limit = dry_run A B fa fb fo op limit.
Proof. exact dry_run_stack_eq_nofuel. Qed.

(* at API level the variable-count guard is part of the function *)
Corollary check_fused_binary_flip_op_stack_eq : forall limit A B fa fb fo op,
  wf A -> wf B -> total2 op ->
  check_fused_binary_flip_op_stack limit A B fa fb fo op = check_fused_binary_flip_op limit A B fa fb fo op.
Proof.
  intros limit A B fa fb fo op WA WB T. unfold check_fused_binary_flip_op_stack, check_fused_binary_flip_op, guard2.
  destruct (N.eqb_spec (nvars A) (nvars B)) as [NV|NE]; cbn [negb]; [|reflexivity].
  now rewrite dry_run_stack_eq.
Qed.

Corollary check_binary_op_stack_eq : forall limit A B op, wf A -> wf B -> total2 op ->
  check_binary_op_stack limit A B op = check_fused_binary_flip_op limit A B None None None op.
Proof. intros. now apply check_fused_binary_flip_op_stack_eq. Qed.

(* ---- transferred statement: the complete characterisation of the dry run (DrySem.check_exact) ---- *)
Theorem check_exact_stack A B fa fb fo op :
  wf A -> wf B -> nvars A = nvars B -> flips_ok (nvars A) fa fb fo = true ->
  total2 op -> consistent2 op ->
  exists r c, fused_binary_flip_op A B fa fb fo op = Ok r /\ size r - 2 <= c /\
    forall limit, check_fused_binary_flip_op_stack limit A B fa fb fo op =
                  Ok (if limit <? c then None else Some (negb (is_false r), c)).
Proof.
  intros WA WB NV FL T C. destruct (check_exact A B fa fb fo op WA WB NV FL T C) as (r & c & E & Hc & H).
  exists r, c. split; [exact E|]. split; [exact Hc|]. intros limit.
  rewrite check_fused_binary_flip_op_stack_eq by assumption. apply H.
Qed.

(* no hypotheses: the guards are the same two argument checks *)
Theorem check_stack_panic_iff limit A B fa fb fo op :
  check_fused_binary_flip_op_stack limit A B fa fb fo op = Panic <->
  (nvars A <> nvars B \/ flips_ok (nvars A) fa fb fo = false).
Proof.
  unfold check_fused_binary_flip_op_stack, guard2, flips_ok.
  destruct (N.eqb_spec (nvars A) (nvars B)) as [E|NE]; cbn [negb].
  - destruct (flip_ok (nvars A) fa && flip_ok (nvars A) fb && flip_ok (nvars A) fo) eqn:F; cbn [negb].
    + split; [|intros [H|H]; congruence]. destruct (dry_run_stack A B fa fb fo op limit); cbn; discriminate.
    + split; auto.
  - split; auto.
Qed.

(* a non-trivial instance with all three flips: 11 tasks are inserted into the visited set; with limit 10 the
   eleventh insertion takes the early return, in both models *)
Example dry_stack_example :
  let A := [mkNode 4 0 0; mkNode 4 1 1; mkNode 3 1 0; mkNode 3 0 1; mkNode 2 3 2; mkNode 1 2 4; mkNode 1 4 2; mkNode 0 6 5] in
  let B := [mkNode 4 0 0; mkNode 4 1 1; mkNode 3 1 0; mkNode 3 0 1; mkNode 2 3 2; mkNode 2 1 0; mkNode 1 5 4; mkNode 0 6 1] in
  dry_run_stack A B (Some 1) (Some 2) (Some 1) op_xor 100 = dry_run A B (Some 1) (Some 2) (Some 1) op_xor 100 /\
  dry_run_stack A B (Some 1) (Some 2) (Some 1) op_xor 100 = Some (Some (true, 11)) /\
  dry_run_stack A B (Some 1) (Some 2) (Some 1) op_xor 10 = Some None /\
  dry_run A B (Some 1) (Some 2) (Some 1) op_xor 10 = Some None /\
  dry_run_stack A B (Some 1) (Some 2) (Some 1) op_xor 11 = Some (Some (true, 11)).
Proof. vm_compute. repeat split; reflexivity. Qed.

Print Assumptions dry_simulated.
Print Assumptions dry_run_stack_eq.
Print Assumptions dry_run_stack_eq_unless_fuel.
Print Assumptions check_fused_binary_flip_op_stack_eq.
Print Assumptions check_exact_stack.
Print Assumptions check_stack_panic_iff.
