(* Proofs/SelectPred.v — is_clause (exactly one root-to-1 path) and is_valuation (exactly one satisfying valuation).
   Both characterisations hold on every benign diagram; on a NON-reduced one a unique path is a stronger condition than
   `the function is a single cube` (a redundant test doubles the paths): see is_clause_benign_refuted in SelectBenign.v. *)
From Coq Require Import List PeanoNat NArith Lia Bool.
Import ListNotations.
From BddVerif Require Import Model.Bdd Model.Apply Model.Ops Model.Select Proofs.Sem Proofs.Canon Proofs.Reflect
  Proofs.PvalSem Proofs.SelectBase Proofs.SelectWalk.
Open Scope N_scope.

(* ======================================================================================== *)
(* is_clause                                                                                 *)
Definition unique_path (b : bdd) (p : N) : Prop :=
  exists ds, path b p ds 1 /\ forall ds', path b p ds' 1 -> ds' = ds.

Lemma unique_path_forced b p c : 2 <= p -> p < size b -> child b p (negb c) = 0 ->
  (unique_path b p <-> unique_path b (child b p c)).
Proof.
  intros Hp Hlt Hz.
  assert (Hhead : forall ds, path b p ds 1 -> exists r, ds = (var_of b p, c) :: r /\ path b (child b p c) r 1).
  { intros [|[x c'] r] P; cbn [path fst snd] in P; [lia|]. destruct P as (_ & _ & -> & P).
    destruct (Bool.bool_dec c' c) as [->|Ne]; [exists r; split; [reflexivity|exact P]|].
    exfalso. assert (c' = negb c) by (destruct c', c; cbn; congruence). subst c'. rewrite Hz in P.
    destruct (path_from_0 b r 1 P). lia. }
  split.
  - intros (ds & P & U). destruct (Hhead ds P) as (r & -> & Pr). exists r. split; [exact Pr|].
    intros r' Pr'. assert (E : (var_of b p, c) :: r' = (var_of b p, c) :: r).
    { apply U. cbn [path fst snd]. repeat split; assumption. }
    now inversion E.
  - intros (r & Pr & U). exists ((var_of b p, c) :: r). split.
    + cbn [path fst snd]. repeat split; assumption.
    + intros ds' P'. destruct (Hhead ds' P') as (r' & -> & Pr'). f_equal. apply U. exact Pr'.
Qed.

Lemma is_clause_walk_spec b : wf b -> nz b -> forall fuel p, valid b p -> enough b p fuel ->
  exists r, is_clause_walk fuel b p = Ok r /\ (r = true <-> unique_path b p).
Proof.
  intros W R. induction fuel as [|f IH]; intros p V E; [unfold enough in E; lia|].
  cbn [is_clause_walk]. destruct (N.eqb_spec p 1) as [->|Hp1].
  - exists true. split; [reflexivity|]. split; [|reflexivity]. intros _. exists []. split; [reflexivity|].
    intros ds' P. now destruct (path_from_1 b ds' 1 P).
  - destruct (N.eqb_spec p 0) as [->|Hp0].
    + exists false. split; [reflexivity|]. split; [discriminate|]. intros (ds & P & _). destruct (path_from_0 b ds 1 P). lia.
    + pose proof V as (Vp & _). assert (Hge : 2 <= p) by lia. destruct (N.leb_spec (size b) p); [lia|].
      destruct (wf_children b p W Hge Vp) as (Vl & Vh & _).
      unfold low_zero, high_zero. destruct (N.eqb_spec (nlow (get b p)) 0) as [El|El].
      * destruct (IH (nhigh (get b p)) Vh (enough_child b p true f W Hge Vp E)) as (r & Hr & Hiff).
        exists r. split; [exact Hr|]. rewrite Hiff. symmetry. apply (unique_path_forced b p true Hge Vp). exact El.
      * destruct (N.eqb_spec (nhigh (get b p)) 0) as [Eh|Eh].
        -- destruct (IH (nlow (get b p)) Vl (enough_child b p false f W Hge Vp E)) as (r & Hr & Hiff).
           exists r. split; [exact Hr|]. rewrite Hiff. symmetry. apply (unique_path_forced b p false Hge Vp). exact Eh.
        -- exists false. split; [reflexivity|]. split; [discriminate|]. intros (ds & P & U). exfalso.
           destruct (nonzero_path b _ W R Vl El) as (dl & Pl). destruct (nonzero_path b _ W R Vh Eh) as (dh & Ph).
           assert (E1 : (var_of b p, false) :: dl = ds) by (apply U; cbn [path fst snd]; repeat split; assumption).
           assert (E2 : (var_of b p, true) :: dh = ds) by (apply U; cbn [path fst snd]; repeat split; assumption).
           congruence.
Qed.

Theorem is_clause_iff_benign b : Benign b ->
  exists r, is_clause b = Ok r /\ (r = true <-> unique_path b (root b)).
Proof.
  intros (W & R & _). unfold is_clause. apply is_clause_walk_spec; try assumption; [apply valid_root|apply enough_root]; exact W.
Qed.
Print Assumptions is_clause_iff_benign.

Theorem is_clause_iff b : Canonical b ->
  exists r, is_clause b = Ok r /\ (r = true <-> unique_path b (root b)).
Proof. intros C. apply is_clause_iff_benign. apply canonical_benign. exact C. Qed.
Print Assumptions is_clause_iff.

(* ======================================================================================== *)
(* is_valuation                                                                              *)
(* exactly one assignment of the variables e .. nvars-1 satisfies the node p *)
Definition unique_sat_from (b : bdd) (p e : N) : Prop :=
  exists v, sem b p v = true /\ forall w, sem b p w = true -> forall x, e <= x -> x < nvars b -> w x = v x.

Lemma sem_forced b p c w : wf b -> 2 <= p -> p < size b -> child b p (negb c) = 0 -> sem b p w = true ->
  w (var_of b p) = c /\ sem b (child b p c) w = true.
Proof.
  intros W Hp Hlt Hz Hs. pose proof (sem_true_child b p w W Hp Hlt Hs) as H.
  destruct (Bool.bool_dec (w (var_of b p)) c) as [E|E]; [rewrite E in H; split; assumption|].
  exfalso. assert (E' : w (var_of b p) = negb c) by (destruct (w (var_of b p)), c; cbn; congruence).
  rewrite E', Hz in H. cbn in H. discriminate.
Qed.

Lemma sem_cof' b p v c : wf b -> 2 <= p -> p < size b -> sem b p (upd v (var_of b p) c) = sem b (child b p c) v.
Proof. intros. unfold child. apply sem_cof; assumption. Qed.

Lemma unique_sat_forced b p c : wf b -> 2 <= p -> p < size b -> child b p (negb c) = 0 ->
  (unique_sat_from b p (var_of b p) <-> unique_sat_from b (child b p c) (var_of b p + 1)).
Proof.
  intros W Hp Hlt Hz. set (e := var_of b p).
  destruct (wf_children b p W Hp Hlt) as (_ & _ & _ & _ & Hen). fold e in Hen. split.
  - intros (v & Hv & U). destruct (sem_forced b p c v W Hp Hlt Hz Hv) as (Ev & Hc).
    exists v. split; [exact Hc|]. intros w Hw x Hx1 Hx2.
    assert (Hw' : sem b p (upd w e c) = true) by (unfold e; rewrite sem_cof' by assumption; exact Hw).
    rewrite <- (U _ Hw' x ltac:(lia) Hx2). rewrite upd_other by lia. reflexivity.
  - intros (v & Hv & U). exists (upd v e c). split.
    + unfold e. rewrite sem_cof' by assumption. exact Hv.
    + intros w Hw x Hx1 Hx2. destruct (sem_forced b p c w W Hp Hlt Hz Hw) as (Ew & Hc). fold e in Ew.
      destruct (N.eq_dec x e) as [->|Hne]; [now rewrite upd_same|].
      rewrite upd_other by exact Hne. apply U; [exact Hc|lia|exact Hx2].
Qed.

Lemma is_valuation_walk_spec b : wf b -> nz b -> forall fuel p e, valid b p -> enough b p fuel -> e <= var_of b p ->
  exists r, is_valuation_walk fuel b p e = Ok r /\ (r = true <-> unique_sat_from b p e).
Proof.
  intros W R. induction fuel as [|f IH]; intros p e V E He; [unfold enough in E; lia|].
  cbn [is_valuation_walk]. pose proof V as (Vp & _). destruct (N.leb_spec (size b) p); [lia|].
  destruct (N.eqb_spec p 1) as [->|Hp1].
  - rewrite (var_of_term b 1 W V) in * by lia. eexists. split; [reflexivity|]. rewrite N.eqb_eq. split.
    + intros <-. exists (fun _ => false). split; [reflexivity|]. intros w _ x H1 H2. lia.
    + intros (v & _ & U). destruct (N.eq_dec (nvars b) e) as [Eq|Ne]; [exact Eq|]. exfalso.
      pose proof (U (upd v e (negb (v e))) eq_refl e ltac:(lia) ltac:(lia)) as HU. rewrite upd_same in HU.
      destruct (v e); discriminate.
  - destruct (N.eqb_spec p 0) as [->|Hp0].
    + exists false. split; [reflexivity|]. split; [discriminate|]. intros (v & Hv & _). cbn in Hv. discriminate.
    + assert (Hge : 2 <= p) by lia.
      destruct (wf_children b p W Hge Vp) as (Vl & Vh & Hvl & Hvh & Hxn).
      destruct (N.eqb_spec (var_of b p) e) as [Ev|Ev]; cbn [negb].
      * subst e. unfold low_zero, high_zero. destruct (N.eqb_spec (nlow (get b p)) 0) as [El|El].
        -- destruct (IH (nhigh (get b p)) (var_of b p + 1) Vh (enough_child b p true f W Hge Vp E) ltac:(lia)) as (r & Hr & Hiff).
           exists r. split; [exact Hr|]. rewrite Hiff. symmetry. apply (unique_sat_forced b p true W Hge Vp). exact El.
        -- destruct (N.eqb_spec (nhigh (get b p)) 0) as [Eh|Eh].
           ++ destruct (IH (nlow (get b p)) (var_of b p + 1) Vl (enough_child b p false f W Hge Vp E) ltac:(lia)) as (r & Hr & Hiff).
              exists r. split; [exact Hr|]. rewrite Hiff. symmetry. apply (unique_sat_forced b p false W Hge Vp). exact Eh.
           ++ exists false. split; [reflexivity|]. split; [discriminate|]. intros (v & Hv & U). exfalso.
              destruct (nonzero_sat_benign b _ W R Vl El) as (vl & Hl). destruct (nonzero_sat_benign b _ W R Vh Eh) as (vh & Hh).
              assert (H0 : sem b p (upd vl (var_of b p) false) = true) by (rewrite sem_cof' by assumption; exact Hl).
              assert (H1 : sem b p (upd vh (var_of b p) true) = true) by (rewrite sem_cof' by assumption; exact Hh).
              pose proof (U _ H0 (var_of b p) ltac:(lia) Hxn) as A0. pose proof (U _ H1 (var_of b p) ltac:(lia) Hxn) as A1.
              rewrite upd_same in A0, A1. congruence.
      * (* variable e is not tested on the way: it is free *)
        exists false. split; [reflexivity|]. split; [discriminate|]. intros (v & Hv & U). exfalso.
        assert (HS : sem b p (upd v e (negb (v e))) = true) by (rewrite sem_indep by (try assumption; lia); exact Hv).
        pose proof (U _ HS e ltac:(lia) ltac:(lia)) as A. rewrite upd_same in A. destruct (v e); discriminate.
Qed.

(* vectors vs. functions *)
Definition list_of_val (nv : N) (v : val) : list bool := map (fun k => v (N.of_nat k)) (seq 0 (N.to_nat nv)).

Lemma list_of_val_length nv v : length (list_of_val nv v) = N.to_nat nv.
Proof. unfold list_of_val. now rewrite map_length, seq_length. Qed.

Lemma list_of_val_get nv v x : x < nv -> val_of_list (list_of_val nv v) x = v x.
Proof.
  intros H. unfold val_of_list, list_of_val.
  rewrite (nth_indep _ false (v (N.of_nat 0))) by (rewrite map_length, seq_length; lia).
  rewrite (map_nth (fun k => v (N.of_nat k)) (seq 0 (N.to_nat nv)) 0%nat). rewrite seq_nth by lia.
  cbn [plus]. now rewrite Nnat.N2Nat.id.
Qed.

Lemma val_of_list_ext l l' : length l = length l' -> (forall x, x < N.of_nat (length l) -> val_of_list l x = val_of_list l' x) -> l = l'.
Proof.
  intros Hlen H. apply (nth_ext l l' false false Hlen). intros n Hn.
  specialize (H (N.of_nat n) ltac:(lia)). unfold val_of_list in H. now rewrite Nnat.Nat2N.id in H.
Qed.

Definition unique_sat_list (b : bdd) : Prop := exists l, sat_list b l /\ forall l', sat_list b l' -> l' = l.

Lemma unique_sat_root b : wf b -> (unique_sat_from b (root b) 0 <-> unique_sat_list b).
Proof.
  intros W. split.
  - intros (v & Hv & U). exists (list_of_val (nvars b) v). split.
    + split; [apply list_of_val_length|]. rewrite (eval_agree_nv b _ v W); [exact Hv|]. intros x Hx. now apply list_of_val_get.
    + intros l' (Hl' & He'). apply val_of_list_ext; [rewrite list_of_val_length; exact Hl'|].
      intros x Hx. rewrite Hl' in Hx. rewrite list_of_val_get by lia. apply U; [exact He'|lia|lia].
  - intros (l & (Hl & He) & U). exists (val_of_list l). split; [exact He|]. intros w Hw x _ Hx.
    assert (S : sat_list b (list_of_val (nvars b) w)).
    { split; [apply list_of_val_length|]. rewrite (eval_agree_nv b _ w W); [exact Hw|]. intros y Hy. now apply list_of_val_get. }
    rewrite <- (U _ S). now rewrite list_of_val_get.
Qed.

Theorem is_valuation_iff_benign b : Benign b ->
  exists r, is_valuation b = Ok r /\ (r = true <-> unique_sat_list b).
Proof.
  intros (W & R & _). unfold is_valuation.
  destruct (is_valuation_walk_spec b W R (wfuel b) (root b) 0 (valid_root b W) (enough_root b W) ltac:(lia)) as (r & Hr & Hiff).
  exists r. split; [exact Hr|]. rewrite Hiff. apply unique_sat_root. exact W.
Qed.
Print Assumptions is_valuation_iff_benign.

Theorem is_valuation_iff b : Canonical b ->
  exists r, is_valuation b = Ok r /\ (r = true <-> unique_sat_list b).
Proof. intros C. apply is_valuation_iff_benign. apply canonical_benign. exact C. Qed.
Print Assumptions is_valuation_iff.
