(* Proofs/FusedUnfused.v — property C04: performing the three variable flips and the operator as
   separate steps (flip a, flip b, apply the operator, flip the output) yields the very same node
   array as the single fused call `fused_binary_flip_op A B fa fb fo op`.

   A stand-alone flip of variable x is the left projection with a left flip:
     flip_var b x = fused_binary_flip_op b b (Some x) None None (lazy_op (fun l _ => l)).

   Strength of the statement.  `fused_eq_unfused` only needs VALID operands (`wf A`, `wf B`), not
   canonical ones: when a flip is absent the corresponding step is the identity and A' = A may be a
   non-canonical array, but the operator step `binary_op A' B' op` always canonicalises
   (fused_binary_flip_op_correct), and the optional output flip keeps canonical form.  So both U and
   the fused result are canonical diagrams of the same function over the same variable count, hence
   the same array (canonical_unique).  The version with `Canonical` operands asked for in the task is
   the corollary `fused_eq_unfused_canonical`.  `unfused_total` shows the hypotheses of the theorem
   are satisfiable: the four separate steps never fail. *)
From Coq Require Import List NArith Lia Bool.
Import ListNotations.
From BddVerif Require Import Model.Bdd Model.Apply Model.Ops Proofs.Sem Proofs.Canon Proofs.ApplySem Proofs.ApplyTop.
From BddVerif Require Proofs.TernSem Proofs.QuantSem Proofs.RelSem.
Open Scope N_scope.

Definition flip_var (b : bdd) (x : N) : outcome bdd :=
  fused_binary_flip_op b b (Some x) None None (lazy_op (fun l _ => l)).
Definition flip_opt (o : option N) (b : bdd) : outcome bdd :=
  match o with None => Ok b | Some x => flip_var b x end.

Lemma flips_ok_left nv x : x < nv -> flips_ok nv (Some x) None None = true.
Proof. intros H. unfold flips_ok, flip_ok. apply N.ltb_lt in H. rewrite H. reflexivity. Qed.

Lemma flips_ok_split nv fa fb fo : flips_ok nv fa fb fo = true ->
  flip_ok nv fa = true /\ flip_ok nv fb = true /\ flip_ok nv fo = true.
Proof.
  unfold flips_ok. intros H. apply andb_true_iff in H. destruct H as (H & Ho).
  apply andb_true_iff in H. destruct H as (Ha & Hb). auto.
Qed.

(* ---- a stand-alone flip: never fails on a valid diagram, canonicalises, inverts the input bit x ---- *)
Theorem flip_var_correct b x : wf b -> x < nvars b ->
  exists r, flip_var b x = Ok r /\ Canonical r /\ nvars r = nvars b /\
    forall v, eval r v = eval b (flipv v x).
Proof.
  intros W Hx. unfold flip_var.
  destruct (fused_binary_flip_op_correct b b (Some x) None None (lazy_op (fun l _ => l)) W W eq_refl
              (flips_ok_left _ _ Hx) (TernSem.lazy_total _) (TernSem.lazy_cons _)) as (r & E & C & Nv & S).
  exists r. split; [exact E|]. split; [exact C|]. split; [exact Nv|].
  intros v. rewrite S. rewrite TernSem.lazy_bop. reflexivity.
Qed.
Print Assumptions flip_var_correct.

(* the optional flip; `keeps` records that an absent flip returns the operand itself *)
Lemma flip_opt_correct o b : wf b -> flip_ok (nvars b) o = true ->
  exists r, flip_opt o b = Ok r /\ wf r /\ (Canonical b -> Canonical r) /\ (o <> None -> Canonical r) /\
    nvars r = nvars b /\ forall v, eval r v = eval b (oflip o v).
Proof.
  intros W F. destruct o as [x|].
  - cbn in F. apply N.ltb_lt in F.
    destruct (flip_var_correct b x W F) as (r & E & C & Nv & S).
    exists r. cbn [flip_opt oflip]. split; [exact E|]. split; [exact (proj1 C)|].
    split; [intros _; exact C|]. split; [intros _; exact C|]. split; [exact Nv|exact S].
  - exists b. cbn [flip_opt oflip]. split; [reflexivity|]. split; [exact W|].
    split; [auto|]. split; [intros H; congruence|]. split; reflexivity.
Qed.

(* ---- the four separate steps never fail (satisfiability of the hypotheses below) ---- *)
Theorem unfused_total A B fa fb fo op :
  wf A -> wf B -> nvars A = nvars B -> flips_ok (nvars A) fa fb fo = true -> total2 op -> consistent2 op ->
  exists A' B' R U, flip_opt fa A = Ok A' /\ flip_opt fb B = Ok B' /\ binary_op A' B' op = Ok R /\
    flip_opt fo R = Ok U /\ Canonical U /\ nvars U = nvars A /\
    forall v, eval U v = bop_of op (eval A (oflip fa (oflip fo v))) (eval B (oflip fb (oflip fo v))).
Proof.
  intros WA WB NV FL T C. destruct (flips_ok_split _ _ _ _ FL) as (Fa & Fb & Fo).
  destruct (flip_opt_correct fa A WA Fa) as (A' & EA & WA' & _ & _ & NA' & SA).
  rewrite NV in Fb.
  destruct (flip_opt_correct fb B WB Fb) as (B' & EB & WB' & _ & _ & NB' & SB).
  assert (NV' : nvars A' = nvars B') by congruence.
  destruct (fused_binary_flip_op_correct A' B' None None None op WA' WB' NV' (RelSem.flips_ok_none _) T C)
    as (R & ER & CR & NR & SR).
  assert (Fo' : flip_ok (nvars R) fo = true) by (rewrite NR, NA'; exact Fo).
  destruct (flip_opt_correct fo R (proj1 CR) Fo') as (U & EU & _ & CU & _ & NU & SU).
  exists A', B', R, U. split; [exact EA|]. split; [exact EB|]. split; [exact ER|]. split; [exact EU|].
  split; [exact (CU CR)|]. split; [congruence|].
  intros v. rewrite SU, SR. cbn [oflip]. rewrite SA, SB. reflexivity.
Qed.
Print Assumptions unfused_total.

(* ---- main theorem: flips and operator as separate steps = the fused call, as arrays ---- *)
Theorem fused_eq_unfused : forall A B fa fb fo op,
  wf A -> wf B -> nvars A = nvars B -> flips_ok (nvars A) fa fb fo = true ->
  total2 op -> consistent2 op ->
  forall A' B' R U,
    flip_opt fa A = Ok A' -> flip_opt fb B = Ok B' -> binary_op A' B' op = Ok R -> flip_opt fo R = Ok U ->
    fused_binary_flip_op A B fa fb fo op = Ok U.
Proof.
  intros A B fa fb fo op WA WB NV FL T C A' B' R U EA EB ER EU.
  destruct (unfused_total A B fa fb fo op WA WB NV FL T C)
    as (A2 & B2 & R2 & U2 & EA2 & EB2 & ER2 & EU2 & CU & NU & SU).
  rewrite EA in EA2. inversion EA2; subst A2.
  rewrite EB in EB2. inversion EB2; subst B2.
  rewrite ER in ER2. inversion ER2; subst R2.
  rewrite EU in EU2. inversion EU2; subst U2.
  destruct (fused_binary_flip_op_correct A B fa fb fo op WA WB NV FL T C) as (r & E & Cr & Nr & Sr).
  rewrite E. f_equal. apply canonical_unique; try assumption; [congruence|].
  intros v. rewrite Sr, SU. reflexivity.
Qed.
Print Assumptions fused_eq_unfused.

(* the statement with canonical operands (a special case: Canonical implies wf) *)
Corollary fused_eq_unfused_canonical : forall A B fa fb fo op,
  Canonical A -> Canonical B -> nvars A = nvars B -> flips_ok (nvars A) fa fb fo = true ->
  total2 op -> consistent2 op ->
  forall A' B' R U,
    flip_opt fa A = Ok A' -> flip_opt fb B = Ok B' -> binary_op A' B' op = Ok R -> flip_opt fo R = Ok U ->
    fused_binary_flip_op A B fa fb fo op = Ok U.
Proof. intros A B fa fb fo op CA CB. apply fused_eq_unfused; [exact (proj1 CA)|exact (proj1 CB)]. Qed.
Print Assumptions fused_eq_unfused_canonical.

(* ---- flipping twice gives back the diagram (flipv (flipv v x) x is pointwise v) ---- *)
Theorem flip_var_involutive b x r : Canonical b -> x < nvars b -> flip_var b x = Ok r -> flip_var r x = Ok b.
Proof.
  intros Cb Hx E. destruct (flip_var_correct b x (proj1 Cb) Hx) as (r1 & E1 & C1 & N1 & S1).
  rewrite E in E1. inversion E1; subst r1.
  assert (Hx' : x < nvars r) by (rewrite N1; exact Hx).
  destruct (flip_var_correct r x (proj1 C1) Hx') as (r2 & E2 & C2 & N2 & S2).
  rewrite E2. f_equal. apply canonical_unique; try assumption; [congruence|].
  intros v. rewrite S2, S1. apply RelSem.eval_ext. intros y. apply QuantSem.flipv_flipv.
Qed.
Print Assumptions flip_var_involutive.

(* an input flip on both sides can be moved to the output: for any valid operands the two calls
   build the same array *)
Theorem input_flips_as_output_flip A B x op :
  wf A -> wf B -> nvars A = nvars B -> x < nvars A -> total2 op -> consistent2 op ->
  fused_binary_flip_op A B (Some x) (Some x) None op = fused_binary_flip_op A B None None (Some x) op.
Proof.
  intros WA WB NV Hx T C.
  assert (F1 : flips_ok (nvars A) (Some x) (Some x) None = true).
  { unfold flips_ok, flip_ok. apply N.ltb_lt in Hx. rewrite Hx. reflexivity. }
  assert (F2 : flips_ok (nvars A) None None (Some x) = true).
  { unfold flips_ok, flip_ok. apply N.ltb_lt in Hx. rewrite Hx. reflexivity. }
  destruct (fused_binary_flip_op_correct A B _ _ _ op WA WB NV F1 T C) as (r1 & E1 & C1 & N1 & S1).
  destruct (fused_binary_flip_op_correct A B _ _ _ op WA WB NV F2 T C) as (r2 & E2 & C2 & N2 & S2).
  rewrite E1, E2. f_equal. apply canonical_unique; try assumption; [congruence|].
  intros v. rewrite S1, S2. reflexivity.
Qed.
Print Assumptions input_flips_as_output_flip.

(* concrete instance: A = x0 /\ x1, B = x1 \/ x2 over 3 variables, flips (0, 2, 1), operator xor *)
Example fused_unfused_example :
  let A := [mkNode 3 0 0; mkNode 3 1 1; mkNode 1 0 1; mkNode 0 0 2] in
  let B := [mkNode 3 0 0; mkNode 3 1 1; mkNode 2 0 1; mkNode 1 2 1] in
  canonicalb A = true /\ canonicalb B = true /\
  exists A' B' R U,
    flip_var A 0 = Ok A' /\ flip_var B 2 = Ok B' /\ binary_op A' B' op_xor = Ok R /\ flip_var R 1 = Ok U /\
    A' <> A /\ B' <> B /\ U <> R /\
    fused_binary_flip_op A B (Some 0) (Some 2) (Some 1) op_xor = Ok U.
Proof.
  cbv zeta. split; [vm_compute; reflexivity|]. split; [vm_compute; reflexivity|].
  eexists. eexists. eexists. eexists.
  split; [vm_compute; reflexivity|]. split; [vm_compute; reflexivity|].
  split; [vm_compute; reflexivity|]. split; [vm_compute; reflexivity|].
  split; [discriminate|]. split; [discriminate|]. split; [discriminate|].
  vm_compute. reflexivity.
Qed.
Print Assumptions fused_unfused_example.
