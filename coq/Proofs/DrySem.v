(* Proofs/DrySem.v — the dry run (estimated_apply_complexity, `dry`/`dry_run` in Model/Apply.v):
   exact abort condition (dry_limit), fuel sufficiency (dry_fuel_ok), meaning of the flag (dry_flag),
   the count bounds the number of decision nodes of the real result (dry_count_bound), and the
   API-level corollaries about check_fused_binary_flip_op. *)
From Coq Require Import List NArith Lia Bool Arith PeanoNat.
Import ListNotations.
From BddVerif Require Import Model.Bdd Model.Apply Proofs.Sem Proofs.Canon Proofs.Reflect Proofs.ApplySem Proofs.ApplyTop.
Open Scope N_scope.

(* valuations only matter pointwise *)
Lemma sem_fuel_ext : forall fuel b p v w, (forall x, v x = w x) -> sem_fuel fuel b p v = sem_fuel fuel b p w.
Proof.
  induction fuel as [|f IH]; intros b p v w H; [reflexivity|].
  cbn [sem_fuel]. rewrite (H (nvar (get b p))). destruct (p <? 2); [reflexivity|]. apply IH. exact H.
Qed.

Lemma sem_ext_val b p v w : (forall x, v x = w x) -> sem b p v = sem b p w.
Proof. intros H. unfold sem. apply sem_fuel_ext. exact H. Qed.

Lemma oflip_invol fl u x : oflip fl (oflip fl u) x = u x.
Proof.
  rewrite oflip_at. destruct (oeq fl x) eqn:E.
  - rewrite oflip_at, E. apply negb_involutive.
  - rewrite oflip_at, E. reflexivity.
Qed.

Lemma tmem_In t l : tmem t l = true <-> In t l.
Proof.
  unfold tmem. rewrite existsb_exists. split.
  - intros (x & Hin & E). destruct (task_eqb_spec t x) as [->|]; [exact Hin|discriminate].
  - intros Hin. exists t. split; [exact Hin|]. destruct (task_eqb_spec t t); congruence.
Qed.

Lemma tmem_cons_ne t u l : u <> t -> tmem u (t :: l) = tmem u l.
Proof. intros H. unfold tmem. cbn [existsb]. destruct (task_eqb_spec u t); [contradiction|reflexivity]. Qed.

Lemma tmem_cons_eq t l : tmem t (t :: l) = true.
Proof. unfold tmem. cbn [existsb]. destruct (task_eqb_spec t t); [reflexivity|congruence]. Qed.

Section Dry.
  Variables (A B : bdd) (fa fb fo : option N) (op : op2).
  Local Notation level := (Apply.level A B).
  Local Notation t_lo := (Apply.t_lo A B fa fb).
  Local Notation t_hi := (Apply.t_hi A B fa fb).
  Local Notation process := (Apply.process A B fa fb fo op).
  Local Notation ensure_with := (Apply.ensure_with op).
  Local Notation s0 := (Apply.s0 A).
  Local Notation zero := (Apply.zero A).
  Local Notation root := (Apply.root A B).
  Local Notation apply2 := (Apply.apply2 A B fa fb fo op).
  Local Notation dry := (Apply.dry A B fa fb fo op).
  Local Notation dry_run := (Apply.dry_run A B fa fb fo op).

  (* ------------------------------------------------------------------ *)
  (* 1. Purely structural: the limit only decides whether the run aborts  *)
  Definition dspec (l : N) (s s' : dst) : dres :=
    if (dcount s <? dcount s') && (l <? dcount s') then DAbort else DOk s'.

  Lemma dspec_abort l s s' : dcount s < dcount s' -> l < dcount s' -> dspec l s s' = DAbort.
  Proof. intros a b. unfold dspec. apply N.ltb_lt in a, b. rewrite a, b. reflexivity. Qed.
  Lemma dspec_ok l s s' : (dcount s' <= dcount s \/ dcount s' <= l) -> dspec l s s' = DOk s'.
  Proof. intros [a|a]; unfold dspec; apply N.ltb_ge in a; rewrite a; [reflexivity|rewrite andb_false_r; reflexivity]. Qed.
  Lemma dspec_cases l s s' :
    (dspec l s s' = DAbort /\ dcount s < dcount s' /\ l < dcount s') \/
    (dspec l s s' = DOk s' /\ (dcount s' <= dcount s \/ dcount s' <= l)).
  Proof.
    unfold dspec. destruct (N.ltb_spec (dcount s) (dcount s')); destruct (N.ltb_spec l (dcount s')); cbn [andb];
      [left|right|right|right]; repeat split; auto.
  Qed.

  Lemma dry_S L f t s : dry L (S f) t s =
    match op (as_bool (fst t)) (as_bool (snd t)) with
    | Some c => DOk (mkD (visited s) (dcount s) (dflag s || c))
    | None =>
      if tmem t (visited s) then DOk s else
      let s1 := mkD (t :: visited s) (dcount s + 1) (dflag s) in
      if L <? dcount s1 then DAbort else
      let '(t1, t2) := if oeq fo (level t) then (t_lo t, t_hi t) else (t_hi t, t_lo t) in
      match dry L f t1 s1 with DAbort => DAbort | DFuel => DFuel | DOk s2 => dry L f t2 s2 end
    end.
  Proof. reflexivity. Qed.

  Lemma dry_mono L : forall fuel t s s', dry L fuel t s = DOk s' -> dcount s <= dcount s'.
  Proof.
    induction fuel as [|f IH]; intros t s s' E; [discriminate|].
    cbn [Apply.dry] in E.
    destruct (op _ _); [inversion E; subst; cbn [dcount]; lia|].
    destruct (tmem _ _); [inversion E; subst; lia|].
    destruct (L <? _); [discriminate|].
    destruct (oeq fo (level t)).
    - destruct (dry L f (t_lo t) _) as [| |s2] eqn:E1; try discriminate.
      apply IH in E1. apply IH in E. cbn [dcount] in E1. lia.
    - destruct (dry L f (t_hi t) _) as [| |s2] eqn:E1; try discriminate.
      apply IH in E1. apply IH in E. cbn [dcount] in E1. lia.
  Qed.

  (* a run that completes under some limit L determines the outcome under every limit l *)
  Lemma dry_limit L l : forall fuel t s s', dry L fuel t s = DOk s' -> dry l fuel t s = dspec l s s'.
  Proof.
    induction fuel as [|f IH]; intros t s s' E; [discriminate|].
    cbn [Apply.dry] in E |- *.
    destruct (op _ _) as [c|].
    { inversion E; subst. symmetry. apply dspec_ok. left. cbn [dcount]. lia. }
    destruct (tmem _ _).
    { inversion E; subst. symmetry. apply dspec_ok. left. lia. }
    cbn [dcount] in *.
    destruct (N.ltb_spec L (dcount s + 1)) as [|HL]; [discriminate|].
    set (s1 := mkD (t :: visited s) (dcount s + 1) (dflag s)) in *.
    assert (Hcore : forall t1 t2,
      match dry L f t1 s1 with DAbort => DAbort | DFuel => DFuel | DOk s2 => dry L f t2 s2 end = DOk s' ->
      (if l <? dcount s + 1 then DAbort else
       match dry l f t1 s1 with DAbort => DAbort | DFuel => DFuel | DOk s2 => dry l f t2 s2 end) = dspec l s s').
    { intros t1 t2 E'. destruct (dry L f t1 s1) as [| |s2] eqn:E1; try discriminate.
      pose proof (dry_mono _ _ _ _ _ E1) as M1. pose proof (dry_mono _ _ _ _ _ E') as M2.
      cbn [dcount s1] in M1.
      destruct (N.ltb_spec l (dcount s + 1)) as [Hl|Hl].
      { symmetry. apply dspec_abort; lia. }
      rewrite (IH _ _ _ E1).
      destruct (dspec_cases l s1 s2) as [(-> & a & b)|(-> & c1)]; cbn [dcount s1] in *.
      { symmetry. apply dspec_abort; lia. }
      rewrite (IH _ _ _ E').
      destruct (dspec_cases l s2 s') as [(-> & a & b)|(-> & c2)].
      { symmetry. apply dspec_abort; lia. }
      symmetry. apply dspec_ok. destruct c1, c2; lia. }
    destruct (oeq fo (level t)); apply Hcore; exact E.
  Qed.

  Theorem dry_run_limit L f c : dry_run L = Some (Some (f, c)) ->
    forall l, dry_run l = Some (if l <? c then None else Some (f, c)).
  Proof.
    unfold Apply.dry_run. intros E l.
    destruct (dry L _ _ _) as [| |s'] eqn:D; try discriminate.
    inversion E; subst f c. rewrite (dry_limit L l _ _ _ _ D).
    destruct (dspec_cases l (mkD [] 0 false) s') as [(-> & a & b)|(-> & c1)]; cbn [dcount] in *.
    - apply N.ltb_lt in b. rewrite b. reflexivity.
    - assert (H : (l <? dcount s') = false) by (apply N.ltb_ge; lia). rewrite H. reflexivity.
  Qed.

  (* ------------------------------------------------------------------ *)
  (* from here on: well-formed operands, a total consistent table          *)
  Variable bop : bool -> bool -> bool.
  Local Notation spec := (ApplySem.spec A B fa fb bop).
  Local Notation tvalid := (ApplySem.tvalid A B).
  Hypothesis WA : wf A.
  Hypothesis WB : wf B.
  Hypothesis NV : nvars A = nvars B.
  Local Notation nv := (nvars A).
  Hypothesis FA : forall x, fa = Some x -> x < nv.
  Hypothesis FB : forall x, fb = Some x -> x < nv.
  Hypothesis FO : forall x, fo = Some x -> x < nv.
  Hypothesis OP_total : forall a b, op (Some a) (Some b) = Some (bop a b).
  Hypothesis OP_cons : forall x y r, op x y = Some r -> forall a b, refines a x -> refines b y -> bop a b = r.

  Lemma nonterm_level t : tvalid t -> op (as_bool (fst t)) (as_bool (snd t)) = None -> level t < nv.
  Proof.
    intros Vt Eop. pose proof (level_le A B WA NV t Vt) as Hle.
    destruct (N.eq_dec (level t) nv) as [E|NE]; [exfalso|lia].
    destruct (level_nv_terminal A B WA WB NV t Vt E) as (T1 & T2).
    destruct (as_bool_term A B NV _ T1) as (a & Ea), (as_bool_term A B NV _ T2) as (b & Eb).
    rewrite Ea, Eb, OP_total in Eop. discriminate.
  Qed.

  Lemma kids_ok t : tvalid t -> level t < nv ->
    tvalid (t_lo t) /\ tvalid (t_hi t) /\ level t < level (t_lo t) /\ level t < level (t_hi t).
  Proof.
    intros Vt Hlt. destruct (spec_expand A B fa fb bop WA WB NV t (fun _ => false) Vt Hlt) as (a & b & c & d & _).
    auto.
  Qed.

  (* ------------------------------------------------------------------ *)
  (* 2. Fuel: nv - level + 1 steps suffice                                *)
  Lemma dry_fuel l : forall fuel t s, tvalid t -> (N.to_nat (nv - level t) < fuel)%nat -> dry l fuel t s <> DFuel.
  Proof.
    induction fuel as [|f IH]; intros t s Vt Hf; [lia|].
    cbn [Apply.dry].
    destruct (op _ _) eqn:Eop; [discriminate|].
    destruct (tmem _ _); [discriminate|].
    destruct (l <? _); [discriminate|].
    pose proof (nonterm_level t Vt Eop) as Hlt.
    destruct (kids_ok t Vt Hlt) as (Vlo & Vhi & Llo & Lhi).
    destruct (oeq fo (level t)).
    - destruct (dry l f (t_lo t) _) as [| |s2] eqn:E1; [discriminate| |].
      + exfalso. revert E1. apply IH; [assumption|lia].
      + apply IH; [assumption|lia].
    - destruct (dry l f (t_hi t) _) as [| |s2] eqn:E1; [discriminate| |].
      + exfalso. revert E1. apply IH; [assumption|lia].
      + apply IH; [assumption|lia].
  Qed.

  Theorem dry_fuel_ok l : dry_run l <> None.
  Proof.
    unfold Apply.dry_run.
    pose proof (dry_fuel l (S (S (S (N.to_nat nv)))) root (mkD [] 0 false)
                  (root_valid A B WA WB NV) ltac:(lia)) as H.
    destruct (dry l _ _ _); [discriminate|contradiction|discriminate].
  Qed.

  (* existence of the unlimited run *)
  Lemma dry_total : forall fuel t s, tvalid t -> (N.to_nat (nv - level t) < fuel)%nat ->
    exists s', forall l, dry l fuel t s = dspec l s s'.
  Proof.
    intros fuel t s Vt Hf.
    assert (H : exists s', dry (dcount s') fuel t s = DOk s').
    { revert t s Vt Hf. induction fuel as [|f IH]; intros t s Vt Hf; [lia|].
      cbn [Apply.dry].
      destruct (op _ _) eqn:Eop; [eexists; reflexivity|].
      destruct (tmem _ _); [eexists; reflexivity|].
      cbn [dcount].
      pose proof (nonterm_level t Vt Eop) as Hlt.
      destruct (kids_ok t Vt Hlt) as (Vlo & Vhi & Llo & Lhi).
      set (s1 := mkD (t :: visited s) (dcount s + 1) (dflag s)).
      assert (Hcore : forall t1 t2, tvalid t1 -> tvalid t2 -> level t < level t1 -> level t < level t2 ->
        exists s', (if dcount s' <? dcount s + 1 then DAbort else
                    match dry (dcount s') f t1 s1 with DAbort => DAbort | DFuel => DFuel
                    | DOk s2 => dry (dcount s') f t2 s2 end) = DOk s').
      { intros t1 t2 V1 V2 L1 L2.
        destruct (IH t1 s1 V1 ltac:(lia)) as (s2 & E1).
        destruct (IH t2 s2 V2 ltac:(lia)) as (s' & E2).
        pose proof (dry_mono _ _ _ _ _ E1) as M1. pose proof (dry_mono _ _ _ _ _ E2) as M2. cbn [dcount s1] in M1.
        exists s'. destruct (N.ltb_spec (dcount s') (dcount s + 1)); [lia|].
        rewrite (dry_limit _ (dcount s') _ _ _ _ E1), dspec_ok by (right; lia). exact E2. }
      destruct (oeq fo (level t)); apply Hcore; assumption. }
    destruct H as (s' & E). exists s'. intros l. apply (dry_limit _ l _ _ _ _ E).
  Qed.

  (* ------------------------------------------------------------------ *)
  (* 3. The flag: "some reachable terminal task answers true" = satisfiable *)
  Definition sat (t : task) : Prop := exists u, spec t u = true.

  Lemma spec_indep t v x c : tvalid t -> x < level t -> spec t (upd v x c) = spec t v.
  Proof.
    intros (V1 & V2) Hx. unfold ApplySem.spec, Apply.level in *. f_equal.
    - apply sem_agree'; [exact WA|exact V1|]. intros y Hy. rewrite !oflip_at.
      rewrite upd_other by lia. reflexivity.
    - apply sem_agree'; [exact WB|exact V2|]. intros y Hy. rewrite !oflip_at.
      rewrite upd_other by lia. reflexivity.
  Qed.

  Lemma sat_expand t : tvalid t -> level t < nv -> (sat t <-> sat (t_lo t) \/ sat (t_hi t)).
  Proof.
    intros Vt Hlt. destruct (kids_ok t Vt Hlt) as (Vlo & Vhi & Llo & Lhi).
    assert (Hexp : forall u, spec t u = if u (level t) then spec (t_hi t) u else spec (t_lo t) u).
    { intros u. destruct (spec_expand A B fa fb bop WA WB NV t u Vt Hlt) as (_ & _ & _ & _ & H). exact H. }
    split.
    - intros (u & Hu). rewrite Hexp in Hu. destruct (u (level t)); [right|left]; exists u; exact Hu.
    - intros [(u & Hu)|(u & Hu)].
      + exists (upd u (level t) false). rewrite Hexp, upd_same, spec_indep by assumption. exact Hu.
      + exists (upd u (level t) true). rewrite Hexp, upd_same, spec_indep by assumption. exact Hu.
  Qed.

  Lemma sat_terminal t c : op (as_bool (fst t)) (as_bool (snd t)) = Some c -> (sat t <-> c = true).
  Proof.
    intros Eop. pose proof (terminal_sound A B fa fb op bop OP_cons t c Eop) as H. split.
    - intros (u & Hu). rewrite H in Hu. exact Hu.
    - intros ->. exists (fun _ => false). apply H.
  Qed.

  (* soundness: the flag is only raised by a satisfiable task below t *)
  Lemma dry_flag_sound L : forall fuel t s s', tvalid t -> dry L fuel t s = DOk s' ->
    dflag s' = true -> dflag s = true \/ sat t.
  Proof.
    induction fuel as [|f IH]; intros t s s' Vt E Hf; [discriminate|].
    cbn [Apply.dry] in E.
    destruct (op _ _) as [c|] eqn:Eop.
    { inversion E; subst s'. cbn [dflag] in Hf. apply orb_true_iff in Hf. destruct Hf as [Hf|Hf]; [left; exact Hf|right].
      apply (sat_terminal t c Eop). exact Hf. }
    destruct (tmem _ _); [inversion E; subst; left; exact Hf|].
    destruct (L <? _); [discriminate|].
    pose proof (nonterm_level t Vt Eop) as Hlt.
    destruct (kids_ok t Vt Hlt) as (Vlo & Vhi & Llo & Lhi).
    pose proof (sat_expand t Vt Hlt) as Hsat.
    set (s1 := mkD (t :: visited s) (dcount s + 1) (dflag s)) in *.
    assert (Hcore : forall t1 t2, tvalid t1 -> tvalid t2 -> (sat t1 -> sat t) -> (sat t2 -> sat t) ->
      match dry L f t1 s1 with DAbort => DAbort | DFuel => DFuel | DOk s2 => dry L f t2 s2 end = DOk s' ->
      dflag s = true \/ sat t).
    { intros t1 t2 V1 V2 S1 S2 E'. destruct (dry L f t1 s1) as [| |s2] eqn:E1; try discriminate.
      destruct (IH _ _ _ V2 E' Hf) as [H2|H2]; [|right; auto].
      destruct (IH _ _ _ V1 E1 H2) as [H1|H1]; [left; exact H1|right; auto]. }
    destruct (oeq fo (level t)).
    - apply (Hcore (t_lo t) (t_hi t)); try assumption; intros H; apply Hsat; auto.
    - apply (Hcore (t_hi t) (t_lo t)); try assumption; intros H; apply Hsat; auto.
  Qed.

  (* completeness: every visited task of level >= K has been fully explored (its ancestors have smaller level) *)
  Definition closedK (K : N) (s : dst) : Prop :=
    forall u, In u (visited s) -> K <= level u -> sat u -> dflag s = true.

  Lemma dry_flag_complete L : forall fuel t s s' K, tvalid t -> K <= level t -> dry L fuel t s = DOk s' ->
    closedK K s ->
    closedK K s' /\ (sat t -> dflag s' = true) /\ (dflag s = true -> dflag s' = true) /\
    (forall u, In u (visited s') -> In u (visited s) \/ level t <= level u).
  Proof.
    induction fuel as [|f IH]; intros t s s' K Vt HK E HC; [discriminate|].
    cbn [Apply.dry] in E.
    destruct (op _ _) as [c|] eqn:Eop.
    { inversion E; subst s'. cbn [dflag visited]. splits.
      - intros u Hin Hle Hs. cbn [dflag]. rewrite (HC u Hin Hle Hs). reflexivity.
      - intros Hs. apply (sat_terminal t c Eop) in Hs. subst c. apply orb_true_r.
      - intros ->. reflexivity.
      - intros u Hin. left. exact Hin. }
    destruct (tmem _ _) eqn:Em.
    { inversion E; subst s'. apply tmem_In in Em. splits; auto. intros Hs. apply (HC t Em HK Hs). }
    destruct (L <? _); [discriminate|].
    pose proof (nonterm_level t Vt Eop) as Hlt.
    destruct (kids_ok t Vt Hlt) as (Vlo & Vhi & Llo & Lhi).
    pose proof (sat_expand t Vt Hlt) as Hsat.
    set (s1 := mkD (t :: visited s) (dcount s + 1) (dflag s)) in *.
    assert (HC1 : closedK (level t + 1) s1).
    { intros u [<-|Hin] Hle Hs; [lia|]. cbn [dflag s1]. apply (HC u Hin); [lia|exact Hs]. }
    assert (Hcore : forall t1 t2, tvalid t1 -> tvalid t2 -> level t < level t1 -> level t < level t2 ->
      (sat t -> sat t1 \/ sat t2) ->
      match dry L f t1 s1 with DAbort => DAbort | DFuel => DFuel | DOk s2 => dry L f t2 s2 end = DOk s' ->
      closedK K s' /\ (sat t -> dflag s' = true) /\ (dflag s = true -> dflag s' = true) /\
      (forall u, In u (visited s') -> In u (visited s) \/ level t <= level u)).
    { intros t1 t2 V1 V2 L1 L2 Hs12 E'. destruct (dry L f t1 s1) as [| |s2] eqn:E1; try discriminate.
      destruct (IH _ _ _ (level t + 1) V1 ltac:(lia) E1 HC1) as (C2 & S1 & M1 & N1).
      destruct (IH _ _ _ (level t + 1) V2 ltac:(lia) E' C2) as (C' & S2 & M2 & N2).
      cbn [dflag visited s1] in M1, N1.
      assert (Hst : sat t -> dflag s' = true).
      { intros Hs. destruct (Hs12 Hs) as [H|H]; [apply M2, S1, H|apply S2, H]. }
      assert (Hnew : forall u, In u (visited s') -> u = t \/ In u (visited s) \/ level t + 1 <= level u).
      { intros u Hin. destruct (N2 u Hin) as [Hin2|Hl2]; [|right; right; lia].
        destruct (N1 u Hin2) as [[<-|Hin1]|Hl1]; [left; reflexivity|right; left; exact Hin1|right; right; lia]. }
      splits.
      - intros u Hin Hle Hs. destruct (Hnew u Hin) as [->|[Hin0|Hl]].
        + apply Hst, Hs.
        + apply M2, M1. apply (HC u Hin0 Hle Hs).
        + apply (C' u Hin Hl Hs).
      - exact Hst.
      - intros H. apply M2, M1, H.
      - intros u Hin. destruct (Hnew u Hin) as [->|[Hin0|Hl]]; [right; lia|left; exact Hin0|right; lia]. }
    destruct (oeq fo (level t)).
    - apply (Hcore (t_lo t) (t_hi t)); try assumption. intros H; apply Hsat; exact H.
    - apply (Hcore (t_hi t) (t_lo t)); try assumption. intros H; apply Hsat in H. tauto.
  Qed.

  Theorem dry_flag_sat l f c : dry_run l = Some (Some (f, c)) -> (f = true <-> sat root).
  Proof.
    unfold Apply.dry_run. intros E.
    destruct (dry l _ _ _) as [| |s'] eqn:D; try discriminate. inversion E; subst f c.
    pose proof (root_valid A B WA WB NV) as Vr. split.
    - intros Hf. destruct (dry_flag_sound _ _ _ _ _ Vr D Hf) as [H|H]; [discriminate|exact H].
    - intros Hs.
      destruct (dry_flag_complete _ _ _ _ _ 0 Vr ltac:(lia) D) as (_ & H & _).
      + intros u [].
      + apply H, Hs.
  Qed.

  Theorem dry_flag l f c : dry_run l = Some (Some (f, c)) ->
    exists r, apply2 = Some r /\ f = negb (is_false r).
  Proof.
    intros E. pose proof (dry_flag_sat l f c E) as Hf.
    destruct (apply2_full A B fa fb fo op bop WA WB NV FA FB OP_total OP_cons) as (r & Er & (Cr & _) & Sr).
    exists r. split; [exact Er|].
    destruct f.
    - symmetry. apply negb_true_iff. destruct (is_false r) eqn:Ef; [exfalso|reflexivity].
      destruct (proj1 Hf eq_refl) as (u & Hu).
      pose proof (proj1 (is_false_correct r Cr) Ef (oflip fo u)) as H. rewrite Sr in H.
      unfold ApplySem.spec in H, Hu.
      rewrite (sem_ext_val A _ (oflip fa (oflip fo (oflip fo u))) (oflip fa u)) in H.
      2:{ intros x. rewrite !(oflip_at fa). rewrite oflip_invol. reflexivity. }
      rewrite (sem_ext_val B _ (oflip fb (oflip fo (oflip fo u))) (oflip fb u)) in H.
      2:{ intros x. rewrite !(oflip_at fb). rewrite oflip_invol. reflexivity. }
      congruence.
    - symmetry. apply negb_false_iff. apply (is_false_correct r Cr). intros v. rewrite Sr.
      destruct (spec root (oflip fo v)) eqn:Hs; [|reflexivity].
      assert (Hsat : sat root) by (eexists; exact Hs). apply Hf in Hsat. discriminate.
  Qed.

  Lemma spec_ext t u w : (forall x, u x = w x) -> spec t u = spec t w.
  Proof.
    intros H. unfold ApplySem.spec. f_equal; apply sem_ext_val; intros x; rewrite !oflip_at, H; reflexivity.
  Qed.

  (* the same fact stated with a witness valuation of the real result *)
  Theorem dry_flag_eval l f c r : dry_run l = Some (Some (f, c)) -> apply2 = Some r ->
    (f = true <-> exists v, eval r v = true).
  Proof.
    intros E Er. pose proof (dry_flag_sat l f c E) as Hf.
    destruct (apply2_full A B fa fb fo op bop WA WB NV FA FB OP_total OP_cons) as (r' & Er' & _ & Sr).
    assert (r' = r) by congruence. subst r'. rewrite Hf. split.
    - intros (u & Hu). exists (oflip fo u). rewrite Sr.
      rewrite (spec_ext root _ u) by (intros x; apply oflip_invol). exact Hu.
    - intros (v & Hv). exists (oflip fo v). rewrite <- Sr. exact Hv.
  Qed.

  (* ------------------------------------------------------------------ *)
  (* 4. The count: dry and process walk the same tasks in the same order  *)
  Definition flen (s : st) : N := N.of_nat (length (finished s)).
  Definition agree (K : N) (s : st) (d : dst) : Prop :=
    forall u, K <= level u -> (tfind u (finished s) = None <-> tmem u (visited d) = false).
  Definition frameP (K : N) (s s' : st) : Prop := forall u, level u < K -> tfind u (finished s') = tfind u (finished s).
  Definition frameD (K : N) (d d' : dst) : Prop := forall u, level u < K -> tmem u (visited d') = tmem u (visited d).

  Lemma mk_shape s d x y p s' : mk s d x y = (p, s') ->
    finished s' = finished s /\ size (nodes s') <= size (nodes s) + 1.
  Proof.
    unfold mk. destruct (x =? y); [intros E; inversion E; subst; split; [reflexivity|lia]|].
    destruct (nfind _ _); intros E; inversion E; subst; [split; [reflexivity|lia]|].
    cbn [nodes finished]. unfold size. rewrite app_length. cbn [length]. split; [reflexivity|lia].
  Qed.

  Lemma agree_lift K K1 s d s1 d1 : K <= K1 -> agree K s d -> agree K1 s1 d1 -> frameP K1 s s1 -> frameD K1 d d1 ->
    agree K s1 d1.
  Proof.
    intros HK Ag Ag1 FP FD u Hu. destruct (N.lt_ge_cases (level u) K1) as [Hlt|Hge].
    - rewrite (FP u Hlt), (FD u Hlt). apply Ag. exact Hu.
    - apply Ag1. exact Hge.
  Qed.

  Lemma lock L : forall f t s d p s' d', tvalid t ->
    ensure_with (process f) t s = Some (p, s') -> dry L (S f) t d = DOk d' -> agree (level t) s d ->
    agree (level t) s' d' /\ flen s' + dcount d = flen s + dcount d' /\
    frameP (level t) s s' /\ frameD (level t) d d'.
  Proof.
    induction f as [|f' IH]; intros t s d p s' d' Vt E D Ag;
      unfold Apply.ensure_with in E; rewrite dry_S in D;
      (destruct (op (as_bool (fst t)) (as_bool (snd t))) as [c|] eqn:Eop;
       [ inversion E; subst p s'; inversion D; subst d'; cbn [visited dcount];
         splits; [exact Ag|reflexivity|intros u _; reflexivity|intros u _; reflexivity]
       | destruct (tfind t (finished s)) as [q|] eqn:Ef;
         [ inversion E; subst p s';
           assert (Em : tmem t (visited d) = true)
             by (destruct (tmem t (visited d)) eqn:Em; [reflexivity|];
                 apply (Ag t (N.le_refl _)) in Em; congruence);
           rewrite Em in D; inversion D; subst d';
           splits; [exact Ag|reflexivity|intros u _; reflexivity|intros u _; reflexivity]
         | ] ]).
    { cbn in E. discriminate. }
    assert (Em : tmem t (visited d) = false) by (apply (Ag t (N.le_refl _)); exact Ef).
    rewrite Em in D. cbv zeta in D. cbn [dcount] in D.
    destruct (L <? dcount d + 1); [discriminate|].
    pose proof (nonterm_level t Vt Eop) as Hlt.
    destruct (kids_ok t Vt Hlt) as (Vlo & Vhi & Llo & Lhi).
    set (d1 := mkD (t :: visited d) (dcount d + 1) (dflag d)) in *.
    set (K := level t + 1).
    assert (Ag1 : agree K s d1).
    { intros u Hu. cbn [visited d1]. rewrite tmem_cons_ne by (intros ->; unfold K in Hu; lia).
      apply Ag. unfold K in Hu. lia. }
    assert (Hcore : forall t1 t2 p1 s1 p2 s2 d2 s4 q, tvalid t1 -> tvalid t2 -> K <= level t1 -> K <= level t2 ->
      ensure_with (process f') t1 s = Some (p1, s1) -> ensure_with (process f') t2 s1 = Some (p2, s2) ->
      dry L (S f') t1 d1 = DOk d2 -> dry L (S f') t2 d2 = DOk d' -> finished s4 = finished s2 ->
      agree (level t) (memo s4 t q) d' /\ flen (memo s4 t q) + dcount d = flen s + dcount d' /\
      frameP (level t) s (memo s4 t q) /\ frameD (level t) d d').
    { intros t1 t2 p1 s1 p2 s2 d2 s4 q V1 V2 L1 L2 E1 E2 D1 D2 F4.
      assert (Ag1' : agree (level t1) s d1) by (intros u Hu; apply Ag1; lia).
      destruct (IH _ _ _ _ _ _ V1 E1 D1 Ag1') as (A1 & C1 & FP1 & FD1).
      assert (FP1' : frameP K s s1) by (intros u Hu; apply FP1; lia).
      assert (FD1' : frameD K d1 d2) by (intros u Hu; apply FD1; lia).
      pose proof (agree_lift K (level t1) s d1 s1 d2 L1 Ag1 A1 FP1 FD1) as Ag2.
      assert (Ag2' : agree (level t2) s1 d2) by (intros u Hu; apply Ag2; lia).
      destruct (IH _ _ _ _ _ _ V2 E2 D2 Ag2') as (A2 & C2 & FP2 & FD2).
      assert (FP2' : frameP K s1 s2) by (intros u Hu; apply FP2; lia).
      assert (FD2' : frameD K d2 d') by (intros u Hu; apply FD2; lia).
      pose proof (agree_lift K (level t2) s1 d2 s2 d' L2 Ag2 A2 FP2 FD2) as Ag3.
      assert (Ht : tmem t (visited d') = true).
      { rewrite FD2', FD1' by (unfold K; lia). cbn [visited d1]. apply tmem_cons_eq. }
      assert (Hne : forall u, u <> t -> tfind u (finished (memo s4 t q)) = tfind u (finished s2)).
      { intros u Hu. cbn [memo finished tfind]. rewrite F4. destruct (task_eqb_spec u t); [contradiction|reflexivity]. }
      assert (Hold : forall u, u <> t -> level u < K ->
                tfind u (finished (memo s4 t q)) = tfind u (finished s) /\ tmem u (visited d') = tmem u (visited d)).
      { intros u Hu Hl. rewrite (Hne u Hu), (FP2' u Hl), (FP1' u Hl), (FD2' u Hl), (FD1' u Hl).
        cbn [visited d1]. rewrite tmem_cons_ne by exact Hu. auto. }
      splits.
      - intros u Hu. destruct (task_eqb_spec u t) as [->|Hne'].
        + cbn [memo finished tfind]. destruct (task_eqb_spec t t); [|congruence]. rewrite Ht.
          split; discriminate.
        + destruct (N.lt_ge_cases (level u) K) as [Hl|Hg].
          * destruct (Hold u Hne' Hl) as (-> & ->). apply Ag. exact Hu.
          * rewrite (Hne u Hne'). apply Ag3. exact Hg.
      - unfold flen in *. cbn [memo finished length]. rewrite F4. cbn [dcount d1] in C1. lia.
      - intros u Hu. apply Hold; [intros ->; lia|unfold K; lia].
      - intros u Hu. apply Hold; [intros ->; lia|unfold K; lia]. }
    cbn [Apply.process] in E.
    destruct (oeq fo (level t)).
    - destruct (ensure_with (process f') (t_lo t) s) as [[p1 s1]|] eqn:E1; [|discriminate].
      destruct (ensure_with (process f') (t_hi t) s1) as [[p2 s2]|] eqn:E2; [|discriminate].
      destruct (mk _ _ _ _) as [q s4] eqn:Emk. inversion E; subst p s'.
      destruct (dry L (S f') (t_lo t) d1) as [| |d2] eqn:D1; try discriminate.
      apply mk_shape in Emk. destruct Emk as (F4 & _). cbn [finished set_ne] in F4.
      apply (Hcore (t_lo t) (t_hi t) p1 s1 p2 s2 d2 s4 q); try assumption; unfold K; lia.
    - destruct (ensure_with (process f') (t_hi t) s) as [[p1 s1]|] eqn:E1; [|discriminate].
      destruct (ensure_with (process f') (t_lo t) s1) as [[p2 s2]|] eqn:E2; [|discriminate].
      destruct (mk _ _ _ _) as [q s4] eqn:Emk. inversion E; subst p s'.
      destruct (dry L (S f') (t_hi t) d1) as [| |d2] eqn:D1; try discriminate.
      apply mk_shape in Emk. destruct Emk as (F4 & _). cbn [finished set_ne] in F4.
      apply (Hcore (t_hi t) (t_lo t) p1 s1 p2 s2 d2 s4 q); try assumption; unfold K; lia.
  Qed.

  (* every call of process adds exactly one memo entry and at most one node *)
  Lemma process_nodes : forall fuel t s p s', process fuel t s = Some (p, s') ->
    size (nodes s') + flen s <= size (nodes s) + flen s'.
  Proof.
    induction fuel as [|f IH]; intros t s p s' E; [discriminate|].
    cbn [Apply.process] in E.
    assert (Hens : forall t0 s0 q s1, ensure_with (process f) t0 s0 = Some (q, s1) ->
              size (nodes s1) + flen s0 <= size (nodes s0) + flen s1).
    { intros t0 s0 q s1 E0. unfold Apply.ensure_with in E0.
      destruct (op _ _); [inversion E0; subst; lia|].
      destruct (tfind _ _); [inversion E0; subst; lia|]. eapply IH; eassumption. }
    destruct (oeq fo (level t)).
    - destruct (ensure_with (process f) (t_lo t) s) as [[p1 s1]|] eqn:E1; [|discriminate].
      destruct (ensure_with (process f) (t_hi t) s1) as [[p2 s2]|] eqn:E2; [|discriminate].
      destruct (mk _ _ _ _) as [q s4] eqn:Em. inversion E; subst.
      apply mk_shape in Em. destruct Em as (F4 & N4). cbn [nodes finished set_ne] in F4, N4.
      apply Hens in E1. apply Hens in E2. unfold flen in *. cbn [nodes finished memo length]. rewrite F4. lia.
    - destruct (ensure_with (process f) (t_hi t) s) as [[p1 s1]|] eqn:E1; [|discriminate].
      destruct (ensure_with (process f) (t_lo t) s1) as [[p2 s2]|] eqn:E2; [|discriminate].
      destruct (mk _ _ _ _) as [q s4] eqn:Em. inversion E; subst.
      apply mk_shape in Em. destruct Em as (F4 & N4). cbn [nodes finished set_ne] in F4, N4.
      apply Hens in E1. apply Hens in E2. unfold flen in *. cbn [nodes finished memo length]. rewrite F4. lia.
  Qed.

  Theorem dry_count_bound l f c r : dry_run l = Some (Some (f, c)) -> apply2 = Some r -> size r - 2 <= c.
  Proof.
    intros E Er.
    destruct (op (as_bool (fst root)) (as_bool (snd root))) as [c0|] eqn:Eop.
    - (* the table answers at the root: the result is a constant *)
      destruct (apply2_full A B fa fb fo op bop WA WB NV FA FB OP_total OP_cons) as (r' & Er' & (Cr & _) & Sr).
      assert (r' = r) by congruence. subst r'.
      pose proof (terminal_sound A B fa fb op bop OP_cons root c0 Eop) as Hc.
      destruct c0.
      + assert (size r = 2) by (apply (is_true_exact r Cr); intros v; rewrite Sr; apply Hc). lia.
      + assert (size r = 1) by (apply (is_false_exact r Cr); intros v; rewrite Sr; apply Hc). lia.
    - unfold Apply.dry_run in E. unfold Apply.apply2 in Er.
      destruct (dry l _ _ _) as [| |d'] eqn:D; try discriminate. inversion E; subst f c.
      destruct (process _ _ _) as [[p s']|] eqn:Ep; [|discriminate].
      assert (Eens : ensure_with (process (S (S (N.to_nat nv)))) root s0 = Some (p, s')).
      { unfold Apply.ensure_with. rewrite Eop. cbn [finished Apply.s0 tfind]. exact Ep. }
      destruct (lock l _ _ _ _ _ _ _ (root_valid A B WA WB NV) Eens D) as (_ & Hc & _).
      { intros u _. cbn. split; reflexivity. }
      pose proof (process_nodes _ _ _ _ _ Ep) as Hn.
      unfold flen in *. cbn [nodes finished Apply.s0 length dcount] in Hc, Hn.
      change (size [zero; Apply.one A]) with 2 in Hn.
      inversion Er; subst r. destruct (nonempty s').
      + lia.
      + change (size [zero]) with 1. lia.
  Qed.

  (* everything about the dry run in one statement *)
  Theorem dry_run_spec : exists r c, apply2 = Some r /\ size r - 2 <= c /\
    forall l, dry_run l = Some (if l <? c then None else Some (negb (is_false r), c)).
  Proof.
    destruct (dry_total (S (S (S (N.to_nat nv)))) root (mkD [] 0 false) (root_valid A B WA WB NV) ltac:(lia)) as (d' & Hd).
    assert (E : dry_run (dcount d') = Some (Some (dflag d', dcount d'))).
    { unfold Apply.dry_run. rewrite Hd, dspec_ok by (right; lia). reflexivity. }
    destruct (dry_flag _ _ _ E) as (r & Er & Hf).
    exists r, (dcount d'). split; [exact Er|]. split; [exact (dry_count_bound _ _ _ _ E Er)|].
    intros l. rewrite (dry_run_limit _ _ _ E l), Hf. reflexivity.
  Qed.
End Dry.

Print Assumptions dry_limit.
Print Assumptions dry_run_limit.
Print Assumptions dry_fuel_ok.
Print Assumptions dry_flag_sat.
Print Assumptions dry_flag.
Print Assumptions dry_flag_eval.
Print Assumptions dry_count_bound.
Print Assumptions dry_run_spec.

(* ---------------------------------------------------------------------- *)
(* 5. API level: check_fused_binary_flip_op (the dry run behind the two argument panics of the
      Rust entry point)                                                                     *)

Lemma check_unfold limit A B fa fb fo op :
  nvars A = nvars B -> flips_ok (nvars A) fa fb fo = true ->
  check_fused_binary_flip_op limit A B fa fb fo op = of_option (dry_run A B fa fb fo op limit) /\
  fused_binary_flip_op A B fa fb fo op = of_option (apply2 A B fa fb fo op).
Proof.
  intros NV FL. unfold flips_ok in FL. unfold fused_binary_flip_op, check_fused_binary_flip_op, guard2.
  rewrite NV, N.eqb_refl. cbn [negb]. rewrite <- NV, FL. cbn [negb]. split; reflexivity.
Qed.

(* the complete characterisation: there is one pair (flag, count), independent of the limit;
   the call answers None exactly for the limits below the count; the flag says whether the real result is
   non-empty; the count bounds the number of decision nodes of the real result *)
Theorem check_exact A B fa fb fo op :
  wf A -> wf B -> nvars A = nvars B -> flips_ok (nvars A) fa fb fo = true ->
  total2 op -> consistent2 op ->
  exists r c, fused_binary_flip_op A B fa fb fo op = Ok r /\ size r - 2 <= c /\
    forall limit, check_fused_binary_flip_op limit A B fa fb fo op =
                  Ok (if limit <? c then None else Some (negb (is_false r), c)).
Proof.
  intros WA WB NV FL T C. pose proof FL as FL0. unfold flips_ok in FL.
  apply andb_true_iff in FL. destruct FL as (FL & FO). apply andb_true_iff in FL. destruct FL as (FA & FB).
  destruct (dry_run_spec A B fa fb fo op (bop_of op) WA WB NV (flip_ok_lt _ _ FA) (flip_ok_lt _ _ FB)
              (total2_bop op T) (consistent2_bop op T C)) as (r & c & E & Hc & Hl).
  exists r, c. destruct (check_unfold 0 A B fa fb fo op NV FL0) as (_ & ->). rewrite E.
  split; [reflexivity|]. split; [exact Hc|]. intros limit.
  destruct (check_unfold limit A B fa fb fo op NV FL0) as (-> & _). rewrite Hl. reflexivity.
Qed.
Print Assumptions check_exact.

(* the only panics are the two argument checks *)
Theorem check_panic_iff limit A B fa fb fo op :
  check_fused_binary_flip_op limit A B fa fb fo op = Panic <->
  (nvars A <> nvars B \/ flips_ok (nvars A) fa fb fo = false).
Proof.
  unfold check_fused_binary_flip_op, guard2, flips_ok.
  destruct (N.eqb_spec (nvars A) (nvars B)) as [E|NE]; cbn [negb].
  - destruct (flip_ok (nvars A) fa && flip_ok (nvars A) fb && flip_ok (nvars A) fo) eqn:F; cbn [negb].
    + split; [|intros [H|H]; congruence]. destruct (dry_run A B fa fb fo op limit); cbn; discriminate.
    + split; auto.
  - split; auto.
Qed.
Print Assumptions check_panic_iff.

(* a positive answer: the count is within the limit, the flag is exact (with a witness valuation),
   the real result has at most count + 2 nodes, and the size-limited operator succeeds with limit count + 2 *)
Theorem check_some A B fa fb fo op limit f c :
  wf A -> wf B -> nvars A = nvars B -> flips_ok (nvars A) fa fb fo = true ->
  total2 op -> consistent2 op ->
  check_fused_binary_flip_op limit A B fa fb fo op = Ok (Some (f, c)) ->
  c <= limit /\
  exists r, fused_binary_flip_op A B fa fb fo op = Ok r /\ f = negb (is_false r) /\
    (f = true <-> exists v, eval r v = true) /\ size r <= c + 2 /\
    fused_binary_flip_op_with_limit (c + 2) A B fa fb fo op = Ok (Some r).
Proof.
  intros WA WB NV FL T C H. pose proof FL as FL0. unfold flips_ok in FL.
  apply andb_true_iff in FL. destruct FL as (FL & FO). apply andb_true_iff in FL. destruct FL as (FA & FB).
  destruct (check_exact A B fa fb fo op WA WB NV FL0 T C) as (r & c' & Er & Hc & Hl).
  pose proof H as H0. rewrite Hl in H0. destruct (N.ltb_spec limit c') as [Hlt|Hge]; [discriminate|].
  inversion H0; subst f c'. split; [exact Hge|]. exists r. split; [exact Er|]. split; [reflexivity|].
  assert (Hs : size r <= c + 2) by lia.
  split; [|split; [exact Hs|]].
  - destruct (check_unfold limit A B fa fb fo op NV FL0) as (Ec & Ef). rewrite Ec in H. rewrite Ef in Er.
    destruct (dry_run A B fa fb fo op limit) as [o|] eqn:D; [|discriminate]. cbn in H. inversion H; subst o.
    destruct (apply2 A B fa fb fo op) as [r0|] eqn:Ea; [|discriminate]. cbn in Er. inversion Er; subst r0.
    apply (dry_flag_eval A B fa fb fo op (bop_of op) WA WB NV (flip_ok_lt _ _ FA) (flip_ok_lt _ _ FB)
             (total2_bop op T) (consistent2_bop op T C) limit _ c r D Ea).
  - destruct (limit_exact A B fa fb fo op (c + 2) WA WB NV FL0 T C) as (r1 & E1 & L1).
    assert (r1 = r) by congruence. subst r1. rewrite L1.
    apply N.leb_le in Hs. rewrite Hs. reflexivity.
Qed.
Print Assumptions check_some.

(* a negative answer is monotone in the limit, a positive answer is stable under larger limits *)
Theorem check_none_iff A B fa fb fo op :
  wf A -> wf B -> nvars A = nvars B -> flips_ok (nvars A) fa fb fo = true ->
  total2 op -> consistent2 op ->
  exists c, forall limit, check_fused_binary_flip_op limit A B fa fb fo op = Ok None <-> limit < c.
Proof.
  intros WA WB NV FL T C.
  destruct (check_exact A B fa fb fo op WA WB NV FL T C) as (r & c & _ & _ & Hl).
  exists c. intros l. rewrite Hl. destruct (N.ltb_spec l c); split; intros H0; try reflexivity; try lia; discriminate.
Qed.
Print Assumptions check_none_iff.

Theorem check_monotone A B fa fb fo op limit limit' x :
  wf A -> wf B -> nvars A = nvars B -> flips_ok (nvars A) fa fb fo = true ->
  total2 op -> consistent2 op -> limit <= limit' ->
  check_fused_binary_flip_op limit A B fa fb fo op = Ok (Some x) ->
  check_fused_binary_flip_op limit' A B fa fb fo op = Ok (Some x).
Proof.
  intros WA WB NV FL T C Hle H.
  destruct (check_exact A B fa fb fo op WA WB NV FL T C) as (r & c & _ & _ & Hl).
  rewrite Hl in H |- *. destruct (N.ltb_spec limit c); [discriminate|].
  destruct (N.ltb_spec limit' c); [lia|]. exact H.
Qed.
Print Assumptions check_monotone.

(* concrete instance (test by computation): x0 /\ x1 against x1 xor x2 over three variables *)
Example ex_A : bdd := [mkNode 3 0 0; mkNode 3 1 1; mkNode 1 0 1; mkNode 0 0 2].
Example ex_B : bdd := [mkNode 3 0 0; mkNode 3 1 1; mkNode 2 1 0; mkNode 2 0 1; mkNode 1 3 2].
Example ex_check_big : check_fused_binary_flip_op 10 ex_A ex_B None (Some 2) None op_and = Ok (Some (true, 3)).
Proof. vm_compute. reflexivity. Qed.
Example ex_check_small : check_fused_binary_flip_op 2 ex_A ex_B None (Some 2) None op_and = Ok None.
Proof. vm_compute. reflexivity. Qed.
Example ex_check_empty : check_fused_binary_flip_op 10 ex_A ex_A None None None op_xor = Ok (Some (false, 2)).
Proof. vm_compute. reflexivity. Qed.
Example ex_wf : wf ex_A /\ wf ex_B /\ nvars ex_A = nvars ex_B /\ flips_ok (nvars ex_A) None (Some 2) None = true.
Proof. split; [|split; [|split]]; try (apply wfb_sound); vm_compute; reflexivity. Qed.
