(* Proofs/Apply3Sem.v — the order-faithful ternary engine of Model/Apply3.v (`ternary_apply`):
   the development of Proofs/ApplySem.v replayed for triples of pointers — Shannon expansion of the
   specification (spec_expand3), store invariant Inv3 (ensure_ok3, mk_ok3, process_ok3), epilogue facts
   (process_facts3), layout lock-step with the structural checker (process_chk3), apply3_sem, apply3_full —
   then the API level: fused_ternary_flip_op_faithful_correct, ternary_faithful_panic_iff and the equality
   with the compositional model of Model/Ops.v (ternary_faithful_eq). *)
From Coq Require Import List NArith Lia Bool Arith PeanoNat.
Import ListNotations.
From BddVerif Require Import Model.Bdd Model.Apply Model.Ops Model.Apply3 Proofs.Sem Proofs.Canon.
From BddVerif Require Proofs.ApplySem Proofs.ApplyTop.
From BddVerif Require Import Proofs.TernSem.
Open Scope N_scope.

Local Notation refines := ApplySem.refines.

Lemma task3_eqb_spec a b : reflect (a = b) (task3_eqb a b).
Proof.
  destruct a as [[x y] z], b as [[x' y'] z']; unfold task3_eqb, t3a, t3b, t3c; cbn [fst snd].
  destruct (N.eqb_spec x x'), (N.eqb_spec y y'), (N.eqb_spec z z'); cbn; constructor; congruence.
Qed.

Local Ltac splits := repeat match goal with |- _ /\ _ => split end.

Section Apply3.
  Variables (A B C : bdd) (fa fb fc fo : option N) (op : op3).
  Local Notation ensure_with := (Apply3.ensure_with3 op).
  Local Notation level := (Apply3.level3 A B C).
  Local Notation t_lo := (Apply3.t_lo3 A B C fa fb fc).
  Local Notation t_hi := (Apply3.t_hi3 A B C fa fb fc).
  Local Notation process := (Apply3.process3 A B C fa fb fc fo op).
  Local Notation s0 := (Apply3.s03 A).
  Local Notation zero := (Apply3.zero3 A).
  Local Notation one := (Apply3.one3 A).
  Local Notation root := (Apply3.root3 A B C).
  Local Notation apply3 := (Apply3.apply3 A B C fa fb fc fo op).
  (* ------------------------------------------------------------------ *)
  (* Specification                                                        *)
  Variable bop : bool -> bool -> bool -> bool.
  Definition spec3 (t : task3) (u : val) : bool :=
    bop (sem A (t3a t) (oflip fa u)) (sem B (t3b t) (oflip fb u)) (sem C (t3c t) (oflip fc u)).

  Hypothesis WA : wf A.
  Hypothesis WB : wf B.
  Hypothesis WC : wf C.
  Hypothesis NV : nvars A = nvars B.
  Hypothesis NVC : nvars A = nvars C.
  Let nv := nvars A.
  Hypothesis FA : forall x, fa = Some x -> x < nv.
  Hypothesis FB : forall x, fb = Some x -> x < nv.
  Hypothesis FC : forall x, fc = Some x -> x < nv.
  Hypothesis FO : forall x, fo = Some x -> x < nv.
  (* op is a consistent, total table for bop *)
  Hypothesis OP_total : forall a b c, op (Some a) (Some b) (Some c) = Some (bop a b c).
  Hypothesis OP_cons : forall x y z r, op x y z = Some r ->
    forall a b c, refines a x -> refines b y -> refines c z -> bop a b c = r.

  Definition tvalid3 (t : task3) := valid A (t3a t) /\ valid B (t3b t) /\ valid C (t3c t).

  Local Lemma as_bool_refines G p u : as_bool p = None \/ as_bool p = Some (sem G p u).
  Proof. unfold as_bool. destruct (N.eqb_spec p 0) as [->|]; [right; reflexivity|].
    destruct (N.eqb_spec p 1) as [->|]; [right; reflexivity|left; reflexivity]. Qed.

  Lemma terminal_sound3 t c : op (as_bool (t3a t)) (as_bool (t3b t)) (as_bool (t3c t)) = Some c -> forall u, spec3 t u = c.
  Proof.
    intros H u. unfold spec3. eapply OP_cons; [exact H| | |].
    - destruct (as_bool_refines A (t3a t) (oflip fa u)) as [->| ->]; cbn; auto.
    - destruct (as_bool_refines B (t3b t) (oflip fb u)) as [->| ->]; cbn; auto.
    - destruct (as_bool_refines C (t3c t) (oflip fc u)) as [->| ->]; cbn; auto.
  Qed.

  (* ---- per-operand Shannon step ---- *)
  Local Lemma oflip_at fl u x : oflip fl u x = if oeq fl x then negb (u x) else u x.
  Proof.
    destruct fl as [y|]; cbn; [|reflexivity]. unfold flipv, upd.
    rewrite N.eqb_sym. destruct (N.eqb_spec y x) as [->|]; reflexivity.
  Qed.

  Local Lemma valid_term_var G p : wf G -> valid G p -> p < 2 -> var_of G p = nvars G.
  Proof.
    intros (Hs & H0 & H1 & _) (Vp & Vp1) Hp. unfold var_of.
    assert (p = 0 \/ p = 1) as [->| ->] by lia; [rewrite H0|rewrite H1 by auto]; reflexivity.
  Qed.

  Local Lemma kids_step G fl p dv u : wf G -> valid G p -> dv <= var_of G p -> dv < nvars G ->
    let k := kids G fl p dv in
    valid G (fst k) /\ valid G (snd k) /\ dv < var_of G (fst k) /\ dv < var_of G (snd k) /\
    sem G p (oflip fl u) = if u dv then sem G (snd k) (oflip fl u) else sem G (fst k) (oflip fl u).
  Proof.
    intros WG Vp Hle Hlt k. subst k. unfold kids. fold (var_of G p).
    destruct (N.eqb_spec (var_of G p) dv) as [E|NE]; cbn [negb].
    - assert (Hp : 2 <= p).
      { destruct (N.ltb_spec p 2); [|assumption]. rewrite (valid_term_var G p WG Vp) in E by assumption. lia. }
      pose proof Vp as (Vp0 & _).
      destruct (wf_children G p WG Hp Vp0) as (Vl & Vh & Hl & Hh & Hn).
      rewrite (sem_unfold G p) by assumption. rewrite oflip_at, E.
      destruct (oeq fl dv); cbn [fst snd]; splits; try assumption; try lia;
        destruct (u dv); reflexivity.
    - cbn [fst snd]. splits; try assumption; try lia. destruct (u dv); reflexivity.
  Qed.

  Lemma spec_expand3 t u : tvalid3 t -> level t < nv ->
    tvalid3 (t_lo t) /\ tvalid3 (t_hi t) /\ level t < level (t_lo t) /\ level t < level (t_hi t) /\
    spec3 t u = if u (level t) then spec3 (t_hi t) u else spec3 (t_lo t) u.
  Proof.
    intros (V1 & V2 & V3) Hlt.
    destruct (kids_step A fa (t3a t) (level t) u WA V1) as (a1 & a2 & a3 & a4 & a5); [unfold Apply3.level3; lia | exact Hlt |].
    destruct (kids_step B fb (t3b t) (level t) u WB V2) as (b1 & b2 & b3 & b4 & b5); [unfold Apply3.level3; lia | rewrite <- NV; exact Hlt |].
    destruct (kids_step C fc (t3c t) (level t) u WC V3) as (c1 & c2 & c3 & c4 & c5); [unfold Apply3.level3; lia | rewrite <- NVC; exact Hlt |].
    unfold tvalid3, spec3.
    change (t3a (t_lo t)) with (fst (kids A fa (t3a t) (level t))).
    change (t3b (t_lo t)) with (fst (kids B fb (t3b t) (level t))).
    change (t3c (t_lo t)) with (fst (kids C fc (t3c t) (level t))).
    change (t3a (t_hi t)) with (snd (kids A fa (t3a t) (level t))).
    change (t3b (t_hi t)) with (snd (kids B fb (t3b t) (level t))).
    change (t3c (t_hi t)) with (snd (kids C fc (t3c t) (level t))).
    splits; try assumption.
    - unfold Apply3.level3 at 2.
      change (t3a (t_lo t)) with (fst (kids A fa (t3a t) (level t))).
      change (t3b (t_lo t)) with (fst (kids B fb (t3b t) (level t))).
      change (t3c (t_lo t)) with (fst (kids C fc (t3c t) (level t))). lia.
    - unfold Apply3.level3 at 2.
      change (t3a (t_hi t)) with (snd (kids A fa (t3a t) (level t))).
      change (t3b (t_hi t)) with (snd (kids B fb (t3b t) (level t))).
      change (t3c (t_hi t)) with (snd (kids C fc (t3c t) (level t))). lia.
    - rewrite a5, b5, c5. destruct (u (level t)); reflexivity.
  Qed.

  (* ------------------------------------------------------------------ *)
  (* Store invariant                                                      *)
  Local Definition node_ok (G : list node) (p : N) : Prop :=
    let n := get G p in
    nvar n < nv /\ nlow n < p /\ nhigh n < p /\
    nvar n < var_of G (nlow n) /\ nvar n < var_of G (nhigh n) /\ nlow n <> nhigh n.
  Local Definition store_ok (G : list node) : Prop :=
    2 <= size G /\ get G 0 = mkNode nv 0 0 /\ get G 1 = mkNode nv 1 1 /\
    forall p, 2 <= p -> p < size G -> node_ok G p.

  Local Lemma store_nvars G : store_ok G -> nvars G = nv.
  Proof. intros (_ & H0 & _). unfold nvars. rewrite H0. reflexivity. Qed.

  Local Lemma store_wf G : store_ok G -> wf G.
  Proof.
    intros H. pose proof (store_nvars G H) as Hn. destruct H as (Hs & H0 & H1 & Hp).
    unfold wf. rewrite Hn. splits; try assumption; try lia.
    - intros _. exact H1.
    - intros p Hp2 Hlt. destruct (Hp p Hp2 Hlt) as (a & b & c & d & e & _).
      unfold wf_node. splits; try assumption; lia.
  Qed.

  Local Lemma get_app1 (G l : list node) p : p < size G -> get (G ++ l) p = get G p.
  Proof. intros H. unfold get, size in *. apply app_nth1. lia. Qed.
  Local Lemma get_app_last (G : list node) n : get (G ++ [n]) (size G) = n.
  Proof. unfold get, size. rewrite Nnat.Nat2N.id. rewrite app_nth2 by lia. now rewrite Nat.sub_diag. Qed.
  Local Lemma size_app (G l : list node) : size (G ++ l) = size G + size l.
  Proof. unfold size. rewrite app_length. lia. Qed.

  Local Lemma sem_ext G l : store_ok G -> store_ok (G ++ l) -> forall p, p < size G -> forall v, sem (G ++ l) p v = sem G p v.
  Proof.
    intros HG HG'. pose proof (store_wf _ HG) as WG. pose proof (store_wf _ HG') as WG'.
    intros p. induction p as [p IH] using (well_founded_induction N.lt_wf_0). intros Hp v.
    destruct (N.ltb_spec p 2) as [Hlt|Hge].
    - assert (p = 0 \/ p = 1) as [->| ->] by lia; reflexivity.
    - assert (Hp' : p < size (G ++ l)) by (rewrite size_app; lia).
      rewrite (sem_unfold (G ++ l) p v WG' Hge Hp'), (sem_unfold G p v WG Hge Hp).
      unfold var_of. rewrite (get_app1 G l p Hp).
      destruct HG as (_ & _ & _ & Hn). destruct (Hn p Hge Hp) as (_ & Hl & Hh & _).
      destruct (v (nvar (get G p))); apply IH; lia.
  Qed.

  Definition good3 (G : list node) (t : task3) (p : N) : Prop :=
    p < size G /\ level t <= var_of G p /\ forall v, sem G p v = spec3 t (oflip fo v).

  Lemma good_ext3 G l t p : store_ok G -> store_ok (G ++ l) -> good3 G t p -> good3 (G ++ l) t p.
  Proof.
    intros HG HG' (Hp & Hl & Hs). unfold good3. splits.
    - rewrite size_app; lia.
    - unfold var_of. rewrite get_app1 by assumption. exact Hl.
    - intros v. rewrite sem_ext by assumption. apply Hs.
  Qed.

  Definition Inv3 (s : st3) : Prop :=
    store_ok (nodes3 s) /\
    (forall n p, nfind n (existing3 s) = Some p -> p < size (nodes3 s) /\ get (nodes3 s) p = n) /\
    (forall p, 2 <= p -> p < size (nodes3 s) -> nfind (get (nodes3 s) p) (existing3 s) = Some p) /\
    (forall t p, tfind3 t (finished3 s) = Some p -> good3 (nodes3 s) t p).

  Definition ext3 (s s' : st3) : Prop := exists l, nodes3 s' = nodes3 s ++ l.
  Lemma ext_refl3 s : ext3 s s. Proof. exists []. now rewrite app_nil_r. Qed.
  Lemma ext_trans3 a b c : ext3 a b -> ext3 b c -> ext3 a c.
  Proof. intros (l & H) (l' & H'). exists (l ++ l'). rewrite H', H, app_assoc. reflexivity. Qed.

  Lemma good_ext3' s s' t p : Inv3 s -> Inv3 s' -> ext3 s s' -> good3 (nodes3 s) t p -> good3 (nodes3 s') t p.
  Proof. intros (H & _) (H' & _) (l & E) Hg. rewrite E in *. now apply good_ext3. Qed.

  Lemma level_le3 t : tvalid3 t -> level t <= nv.
  Proof. intros (V1 & _ & _). unfold Apply3.level3. pose proof (var_of_le A _ WA V1). unfold nv. lia. Qed.

  Lemma level_nv_terminal3 t : tvalid3 t -> level t = nv -> t3a t < 2 /\ t3b t < 2 /\ t3c t < 2.
  Proof.
    intros (V1 & V2 & V3) H. splits.
    - destruct (N.ltb_spec (t3a t) 2); [assumption|]. pose proof V1 as (V10 & _).
      destruct (wf_children A _ WA H0 V10) as (_ & _ & _ & _ & Hx). unfold Apply3.level3, nv in *. lia.
    - destruct (N.ltb_spec (t3b t) 2); [assumption|]. pose proof V2 as (V20 & _).
      destruct (wf_children B _ WB H0 V20) as (_ & _ & _ & _ & Hx). unfold Apply3.level3, nv in *. rewrite NV in H. lia.
    - destruct (N.ltb_spec (t3c t) 2); [assumption|]. pose proof V3 as (V30 & _).
      destruct (wf_children C _ WC H0 V30) as (_ & _ & _ & _ & Hx). unfold Apply3.level3, nv in *. rewrite NVC in H. lia.
  Qed.

  Local Lemma as_bool_term p : p < 2 -> exists a, as_bool p = Some a.
  Proof. intros H. assert (p = 0 \/ p = 1) as [->| ->] by lia; eexists; reflexivity. Qed.

  (* what a successful sub-computation delivers *)
  Definition post3 (t : task3) (s : st3) (r : option (N * st3)) : Prop :=
    exists p s', r = Some (p, s') /\ Inv3 s' /\ ext3 s s' /\ good3 (nodes3 s') t p.

  Lemma ensure_ok3 proc t s :
    Inv3 s -> tvalid3 t ->
    (level t < nv -> post3 t s (proc t s)) ->
    post3 t s (ensure_with proc t s).
  Proof.
    intros HI Vt Hproc. unfold Apply3.ensure_with3.
    destruct (op (as_bool (t3a t)) (as_bool (t3b t)) (as_bool (t3c t))) as [c|] eqn:Eop.
    - exists (of_bool c), s. splits; auto using ext_refl3.
      pose proof HI as (HS & _). pose proof HS as (Hs2 & H0 & H1 & _).
      unfold good3. splits.
      + destruct c; cbn; lia.
      + pose proof (level_le3 t Vt). unfold var_of. destruct c; cbn; [rewrite H1|rewrite H0]; cbn; lia.
      + intros v. rewrite (terminal_sound3 t c Eop). destruct c; reflexivity.
    - destruct (tfind3 t (finished3 s)) as [p|] eqn:Ef.
      + exists p, s. splits; auto using ext_refl3. destruct HI as (_ & _ & _ & Hf). now apply Hf.
      + apply Hproc. pose proof (level_le3 t Vt).
        destruct (N.eq_dec (level t) nv) as [E|NE]; [exfalso|lia].
        destruct (level_nv_terminal3 t Vt E) as (T1 & T2 & T3).
        destruct (as_bool_term _ T1) as (a & Ea), (as_bool_term _ T2) as (b & Eb), (as_bool_term _ T3) as (c & Ec).
        rewrite Ea, Eb, Ec, OP_total in Eop. discriminate.
  Qed.

  Lemma Inv_set_ne3 s b : Inv3 s -> Inv3 (set_ne3 s b).
  Proof. intros H. exact H. Qed.

  Lemma Inv_memo3 s t p : Inv3 s -> good3 (nodes3 s) t p -> Inv3 (memo3 s t p).
  Proof.
    intros (H1 & H2 & H3 & H4) Hg. unfold Inv3, memo3; cbn [nodes3 existing3 finished3]. splits; try assumption.
    intros t' p'. cbn [tfind3]. destruct (task3_eqb_spec t' t) as [->|NE].
    - intros E; inversion E; subst; exact Hg.
    - apply H4.
  Qed.

  Local Lemma term_not_dec G p : store_ok G -> p < 2 -> nvar (get G p) = nv.
  Proof. intros (_ & H0 & H1 & _) Hp. assert (p = 0 \/ p = 1) as [->| ->] by lia; [rewrite H0|rewrite H1]; reflexivity. Qed.

  Lemma mk_ok3 s d x y :
    Inv3 s -> d < nv -> x < size (nodes3 s) -> y < size (nodes3 s) ->
    d < var_of (nodes3 s) x -> d < var_of (nodes3 s) y ->
    exists p s', mk3 s d x y = (p, s') /\ Inv3 s' /\ ext3 s s' /\ finished3 s' = finished3 s /\
      p < size (nodes3 s') /\ d <= var_of (nodes3 s') p /\
      forall v, sem (nodes3 s') p v = if v d then sem (nodes3 s) y v else sem (nodes3 s) x v.
  Proof.
    intros HI Hd Hx Hy Hvx Hvy. unfold mk3.
    destruct (N.eqb_spec x y) as [->|NE].
    - exists y, s. splits; auto using ext_refl3; try lia. intros v; destruct (v d); reflexivity.
    - pose proof HI as (HS & Ha & Hb & Hf).
      destruct (nfind (mkNode d x y) (existing3 s)) as [p|] eqn:En.
      + destruct (Ha _ _ En) as (Hp & Hg).
        assert (Hp2 : 2 <= p).
        { destruct (N.ltb_spec p 2); [|assumption]. pose proof (term_not_dec _ p HS H) as Ht. rewrite Hg in Ht. cbn in Ht. lia. }
        exists p, s. splits; auto using ext_refl3.
        * unfold var_of. rewrite Hg. cbn. lia.
        * intros v. rewrite (sem_unfold _ p v (store_wf _ HS) Hp2 Hp). unfold var_of. rewrite Hg. cbn [nvar nlow nhigh]. destruct (v d); reflexivity.
      + set (G := nodes3 s) in *. set (n := mkNode d x y) in *.
        assert (HS' : store_ok (G ++ [n])).
        { destruct HS as (Hs2 & H0 & H1 & Hn). unfold store_ok. rewrite size_app. splits.
          - lia.
          - rewrite get_app1 by lia. exact H0.
          - rewrite get_app1 by lia. exact H1.
          - intros p Hp2 Hp. change (size [n]) with 1 in Hp.
            destruct (N.eq_dec p (size G)) as [->|Hne].
            + unfold node_ok. rewrite get_app_last. cbn [nvar nlow nhigh n]. unfold var_of.
              rewrite !get_app1 by assumption. splits; try assumption.
            + assert (Hp' : p < size G) by lia. destruct (Hn p Hp2 Hp') as (a & b & c & e & f & g).
              unfold node_ok. rewrite get_app1 by assumption. unfold var_of in *.
              rewrite !get_app1 by lia. splits; assumption. }
        exists (size G), (mkSt3 (G ++ [n]) ((n, size G) :: existing3 s) (finished3 s) (nonempty3 s)).
        unfold push3. fold G. cbn [nodes3 existing3 finished3].
        splits.
        * reflexivity.
        * unfold Inv3. cbn [nodes3 existing3 finished3]. splits.
          -- exact HS'.
          -- intros n' q. cbn [nfind]. destruct (node_eqb_spec n' n) as [->|Hne].
             ++ intros E; inversion E; subst. rewrite size_app, get_app_last. change (size [n]) with 1. split; [lia|reflexivity].
             ++ intros E. destruct (Ha _ _ E) as (Hq & Hgq). rewrite size_app, get_app1 by assumption. split; [lia|assumption].
          -- intros q Hq2 Hq. rewrite size_app in Hq. change (size [n]) with 1 in Hq. cbn [nfind].
             destruct (N.eq_dec q (size G)) as [->|Hne].
             ++ rewrite get_app_last. destruct (node_eqb_spec n n); [reflexivity|congruence].
             ++ assert (Hq' : q < size G) by lia. rewrite get_app1 by assumption.
                destruct (node_eqb_spec (get G q) n) as [E|_].
                ** rewrite <- E in En. rewrite (Hb q Hq2 Hq') in En. discriminate.
                ** apply Hb; assumption.
          -- intros t p Ht. apply good_ext3; auto.
        * exists [n]. reflexivity.
        * reflexivity.
        * rewrite size_app. change (size [n]) with 1. lia.
        * unfold var_of. rewrite get_app_last. cbn. lia.
        * intros v. assert (Hlt : size G < size (G ++ [n])) by (rewrite size_app; change (size [n]) with 1; lia).
          pose proof (proj1 HI) as HS0.
          rewrite (sem_unfold _ (size G) v (store_wf _ HS') ltac:(destruct HS0; lia) Hlt).
          unfold var_of. rewrite get_app_last. cbn [nvar nlow nhigh n].
          destruct (v d); apply sem_ext; assumption.
  Qed.

  Lemma process_ok3 : forall fuel t s, Inv3 s -> tvalid3 t -> level t < nv ->
    (N.to_nat (nv - level t) <= fuel)%nat -> post3 t s (process fuel t s).
  Proof.
    induction fuel as [|f IH]; intros t s HI Vt Hlt Hfuel; [lia|].
    cbn [Apply3.process3]. set (dv := level t) in *.
    assert (Hsub : forall t' s', Inv3 s' -> tvalid3 t' -> dv < level t' ->
               post3 t' s' (ensure_with (process f) t' s')).
    { intros t' s' HI' Vt' Hl'. apply ensure_ok3; try assumption. intros Hl2. apply IH; try assumption. lia. }
    destruct (spec_expand3 t (fun _ => false) Vt Hlt) as (Vlo & Vhi & Llo & Lhi & _). fold dv in Llo, Lhi.
    assert (Hexp : forall u, spec3 t u = if u dv then spec3 (t_hi t) u else spec3 (t_lo t) u).
    { intros u. destruct (spec_expand3 t u Vt Hlt) as (_ & _ & _ & _ & H). exact H. }
    destruct (oeq fo dv) eqn:Esw.
    - (* output flip on dv: low task3 first, node = (dv, low := phi, high := plo) *)
      destruct (Hsub (t_lo t) s HI Vlo Llo) as (plo & s1 & -> & HI1 & X1 & G1).
      destruct (Hsub (t_hi t) s1 HI1 Vhi Lhi) as (phi & s2 & -> & HI2 & X2 & G2).
      pose proof (good_ext3' s1 s2 _ _ HI1 HI2 X2 G1) as G1'.
      destruct G1' as (Plo & Vlo' & Slo). destruct G2 as (Phi & Vhi' & Shi).
      set (s3 := set_ne3 s2 ((plo =? 1) || (phi =? 1))).
      destruct (mk_ok3 s3 dv phi plo (Inv_set_ne3 _ _ HI2) Hlt Phi Plo ltac:(cbn; lia) ltac:(cbn; lia))
        as (p & s4 & -> & HI4 & X4 & F4 & Pp & Vp & Sp).
      exists p, (memo3 s4 t p). splits.
      + reflexivity.
      + apply Inv_memo3; [assumption|]. unfold good3. splits; [assumption|fold dv; assumption|].
        intros v. rewrite Sp. cbn [nodes3 set_ne3 s3]. rewrite Hexp, oflip_at, Esw, Slo, Shi.
        destruct (v dv); reflexivity.
      + cbn [nodes3 memo3]. eapply ext_trans3; [exact X1|]. eapply ext_trans3; [exact X2|]. exact X4.
      + cbn [nodes3 memo3]. unfold good3. splits; [assumption|fold dv; assumption|].
        intros v. rewrite Sp. cbn [nodes3 set_ne3 s3]. rewrite Hexp, oflip_at, Esw, Slo, Shi.
        destruct (v dv); reflexivity.
    - destruct (Hsub (t_hi t) s HI Vhi Lhi) as (phi & s1 & -> & HI1 & X1 & G1).
      destruct (Hsub (t_lo t) s1 HI1 Vlo Llo) as (plo & s2 & -> & HI2 & X2 & G2).
      pose proof (good_ext3' s1 s2 _ _ HI1 HI2 X2 G1) as G1'.
      destruct G1' as (Phi & Vhi' & Shi). destruct G2 as (Plo & Vlo' & Slo).
      set (s3 := set_ne3 s2 ((plo =? 1) || (phi =? 1))).
      destruct (mk_ok3 s3 dv plo phi (Inv_set_ne3 _ _ HI2) Hlt Plo Phi ltac:(cbn; lia) ltac:(cbn; lia))
        as (p & s4 & -> & HI4 & X4 & F4 & Pp & Vp & Sp).
      exists p, (memo3 s4 t p). splits.
      + reflexivity.
      + apply Inv_memo3; [assumption|]. unfold good3. splits; [assumption|fold dv; assumption|].
        intros v. rewrite Sp. cbn [nodes3 set_ne3 s3]. rewrite Hexp, oflip_at, Esw, Slo, Shi.
        destruct (v dv); reflexivity.
      + cbn [nodes3 memo3]. eapply ext_trans3; [exact X1|]. eapply ext_trans3; [exact X2|]. exact X4.
      + cbn [nodes3 memo3]. unfold good3. splits; [assumption|fold dv; assumption|].
        intros v. rewrite Sp. cbn [nodes3 set_ne3 s3]. rewrite Hexp, oflip_at, Esw, Slo, Shi.
        destruct (v dv); reflexivity.
  Qed.

  (* ------------------------------------------------------------------ *)
  (* Structural facts3 for the epilogue                                    *)
  Definition J3 (s : st3) : Prop := nonempty3 s = false -> size (nodes3 s) = 2.
  Definition facts3 (strict : bool) (s : st3) (p : N) (s' : st3) : Prop :=
    (size (nodes3 s') = size (nodes3 s) \/ p + 1 = size (nodes3 s')) /\
    (nonempty3 s = true -> nonempty3 s' = true) /\
    (nonempty3 s = false -> nonempty3 s' = true -> p <> 0) /\
    (J3 s -> J3 s' /\ (nonempty3 s' = false -> if strict then p = 0 else p < 2)).

  Lemma ext_size3 s s' : ext3 s s' -> size (nodes3 s) <= size (nodes3 s').
  Proof. intros (l & E). rewrite E, size_app. lia. Qed.

  Lemma post_inv3 t s r p s' : post3 t s r -> r = Some (p, s') -> Inv3 s' /\ ext3 s s' /\ good3 (nodes3 s') t p.
  Proof. intros (p0 & s0 & -> & a & b & c) E. inversion E; subst. auto. Qed.

  Lemma ensure_facts3 proc t s p s' :
    Inv3 s -> tvalid3 t -> ensure_with proc t s = Some (p, s') ->
    (level t < nv -> proc t s = Some (p, s') -> facts3 true s p s') -> facts3 false s p s'.
  Proof.
    intros HI Vt E Hp. unfold Apply3.ensure_with3 in E.
    destruct (op (as_bool (t3a t)) (as_bool (t3b t)) (as_bool (t3c t))) as [c|] eqn:Eop.
    - inversion E; subst. unfold facts3. splits; auto; try congruence.
      intros Hj. split; [assumption|]. intros _. destruct c; cbn; lia.
    - destruct (tfind3 t (finished3 s)) as [q|] eqn:Ef.
      + inversion E; subst. unfold facts3. splits; auto; try congruence.
        intros Hj. split; [assumption|]. intros Hne. destruct HI as (_ & _ & _ & Hf).
        destruct (Hf _ _ Ef) as (Hq & _). rewrite (Hj Hne) in Hq. exact Hq.
      + assert (Hl : level t < nv).
        { pose proof (level_le3 t Vt). destruct (N.eq_dec (level t) nv) as [En|NE]; [exfalso|lia].
          destruct (level_nv_terminal3 t Vt En) as (T1 & T2 & T3).
          destruct (as_bool_term _ T1) as (a & Ea), (as_bool_term _ T2) as (b & Eb), (as_bool_term _ T3) as (c & Ec).
          rewrite Ea, Eb, Ec, OP_total in Eop. discriminate. }
        destruct (Hp Hl E) as (a & b & c & d). unfold facts3. splits; auto.
        intros Hj. destruct (d Hj) as (d1 & d2). split; [assumption|]. intros Hne. rewrite (d2 Hne). lia.
  Qed.

  Lemma mk_facts3 s d x y p s' : Inv3 s -> mk3 s d x y = (p, s') -> x < size (nodes3 s) -> y < size (nodes3 s) ->
    nonempty3 s' = nonempty3 s /\
    ((p = x /\ x = y /\ s' = s) \/
     (x <> y /\ 2 <= p /\ s' = s /\ x < p /\ y < p /\ p < size (nodes3 s)) \/
     (x <> y /\ p = size (nodes3 s) /\ size (nodes3 s') = size (nodes3 s) + 1 /\ nodes3 s' = nodes3 s ++ [mkNode d x y])).
  Proof.
    intros HI E Hx Hy. unfold mk3 in E. destruct (N.eqb_spec x y) as [->|NE].
    - inversion E; subst. split; [reflexivity|]. left; auto.
    - destruct (nfind (mkNode d x y) (existing3 s)) as [q|] eqn:En.
      + inversion E; subst. split; [reflexivity|]. right; left.
        destruct HI as (HS & Ha & _). destruct (Ha _ _ En) as (Hq & Hg).
        assert (2 <= p).
        { destruct (N.ltb_spec p 2); [|assumption]. exfalso.
          destruct HS as (_ & H0 & H1 & _).
          assert (p = 0 \/ p = 1) as [->| ->] by lia; [rewrite H0 in Hg|rewrite H1 in Hg]; inversion Hg; subst; congruence. }
        destruct HS as (_ & _ & _ & Hn). destruct (Hn p H Hq) as (_ & b & c & _). rewrite Hg in b, c. cbn in b, c.
        splits; auto.
      + unfold push3 in E. inversion E; subst. cbn [nodes3 nonempty3]. split; [reflexivity|]. right; right.
        rewrite size_app. change (size [mkNode d x y]) with 1. auto.
  Qed.

  Lemma combine3 s s1 s2 s3 s4 p1 p2 x y q dv :
    facts3 false s p1 s1 -> facts3 false s1 p2 s2 ->
    size (nodes3 s) <= size (nodes3 s1) -> size (nodes3 s1) <= size (nodes3 s2) -> 2 <= size (nodes3 s) ->
    p1 < size (nodes3 s1) -> p2 < size (nodes3 s2) ->
    nodes3 s3 = nodes3 s2 -> nonempty3 s3 = nonempty3 s2 || ((p1 =? 1) || (p2 =? 1)) ->
    ((x = p1 /\ y = p2) \/ (x = p2 /\ y = p1)) ->
    nonempty3 s4 = nonempty3 s3 /\
    ((q = x /\ x = y /\ s4 = s3) \/
     (x <> y /\ 2 <= q /\ s4 = s3 /\ x < q /\ y < q /\ q < size (nodes3 s3)) \/
     (x <> y /\ q = size (nodes3 s3) /\ size (nodes3 s4) = size (nodes3 s3) + 1 /\ nodes3 s4 = nodes3 s3 ++ [mkNode dv x y])) ->
    facts3 true s q s4.
  Proof.
    intros (a1 & b1 & c1 & d1) (a2 & b2 & c2 & d2) L1 L2 L0 P1 P2 N3 NE3 XY (NE4 & MK).
    assert (Hb : forall z, (z =? 1) = true <-> z = 1) by (intros; apply N.eqb_eq).
    unfold facts3. splits.
    - rewrite N3 in MK. destruct MK as [(-> & E & ->)|[(NExy & Q2 & -> & Xq & Yq & Qs)|(NExy & -> & Sz & _)]];
        rewrite ?N3; destruct XY as [(-> & ->)|(-> & ->)]; lia.
    - intros H. rewrite NE4, NE3, (b2 (b1 H)). reflexivity.
    - intros H0 H4. rewrite NE4, NE3 in H4.
      assert (Hnz : p1 <> 0 \/ p2 <> 0).
      { destruct (nonempty3 s2) eqn:E2; cbn in H4.
        - destruct (nonempty3 s1) eqn:E1; [left; apply c1; auto|right; apply c2; auto].
        - apply orb_true_iff in H4. destruct H4 as [H4|H4]; apply Hb in H4; lia. }
      rewrite N3 in MK. destruct MK as [(-> & E & _)|[(_ & Q2 & _)|(_ & -> & _ & _)]]; lia.
    - intros Hj. destruct (d1 Hj) as (J1 & T1). destruct (d2 J1) as (J2 & T2).
      assert (Hfalse : nonempty3 s4 = false -> q = 0 /\ size (nodes3 s4) = 2).
      { intros H4. rewrite NE4, NE3 in H4. apply orb_false_iff in H4. destruct H4 as (E2 & Hbb).
        apply orb_false_iff in Hbb. destruct Hbb as (B1 & B2).
        assert (E1 : nonempty3 s1 = false) by (destruct (nonempty3 s1) eqn:E; [rewrite (b2 eq_refl) in E2; discriminate|reflexivity]).
        specialize (T1 E1). specialize (T2 E2). cbn in T1, T2.
        apply N.eqb_neq in B1, B2.
        assert (p1 = 0) by lia. assert (p2 = 0) by lia.
        rewrite N3 in MK. destruct MK as [(-> & E & ->)|[(NExy & _)|(NExy & _)]].
        - rewrite N3, (J2 E2). destruct XY as [(-> & ->)|(-> & ->)]; lia.
        - destruct XY as [(-> & ->)|(-> & ->)]; lia.
        - destruct XY as [(-> & ->)|(-> & ->)]; lia. }
      split.
      + intros H4. apply Hfalse; assumption.
      + intros H4. apply Hfalse; assumption.
  Qed.

  Lemma facts_memo3 strict s p s4 t : facts3 strict s p s4 -> facts3 strict s p (memo3 s4 t p).
  Proof. intros H. exact H. Qed.

  Lemma process_facts3 : forall fuel t s p s', Inv3 s -> tvalid3 t -> level t < nv ->
    (N.to_nat (nv - level t) <= fuel)%nat -> process fuel t s = Some (p, s') -> facts3 true s p s'.
  Proof.
    induction fuel as [|f IH]; intros t s p s' HI Vt Hlt Hfuel E; [lia|].
    cbn [Apply3.process3] in E. set (dv := level t) in *.
    destruct (spec_expand3 t (fun _ => false) Vt Hlt) as (Vlo & Vhi & Llo & Lhi & _). fold dv in Llo, Lhi.
    assert (Hpost : forall t' s0, Inv3 s0 -> tvalid3 t' -> dv < level t' -> post3 t' s0 (ensure_with (process f) t' s0)).
    { intros t' s0 HI' Vt' Hl'. apply ensure_ok3; try assumption. intros Hl2. apply process_ok3; try assumption. lia. }
    assert (Hfac : forall t' s0 q s1, Inv3 s0 -> tvalid3 t' -> dv < level t' ->
               ensure_with (process f) t' s0 = Some (q, s1) -> facts3 false s0 q s1).
    { intros t' s0 q s1 HI' Vt' Hl' E'. eapply ensure_facts3; try eassumption.
      intros Hl2 E2. apply (IH t' s0 q s1); try assumption. lia. }
    pose proof (proj1 HI) as (S2 & _).
    destruct (oeq fo dv) eqn:Esw.
    - destruct (ensure_with (process f) (t_lo t) s) as [[p1 s1]|] eqn:E1; [|discriminate].
      destruct (ensure_with (process f) (t_hi t) s1) as [[p2 s2]|] eqn:E2; [|discriminate].
      destruct (post_inv3 _ _ _ _ _ (Hpost _ _ HI Vlo Llo) E1) as (HI1 & X1 & (P1 & _)).
      destruct (post_inv3 _ _ _ _ _ (Hpost _ _ HI1 Vhi Lhi) E2) as (HI2 & X2 & (P2 & _)).
      set (s3 := set_ne3 s2 ((p1 =? 1) || (p2 =? 1))) in *.
      destruct (mk3 s3 dv p2 p1) as [q s4] eqn:Em. inversion E; subst p s'.
      apply facts_memo3.
      apply (combine3 s s1 s2 s3 s4 p1 p2 p2 p1 q dv (Hfac _ _ _ _ HI Vlo Llo E1) (Hfac _ _ _ _ HI1 Vhi Lhi E2)
               (ext_size3 _ _ X1) (ext_size3 _ _ X2) S2 P1 P2 eq_refl).
      + reflexivity.
      + right; auto.
      + apply (mk_facts3 s3 dv p2 p1 q s4 (Inv_set_ne3 _ _ HI2) Em); cbn [nodes3 set_ne3 s3]; [assumption|].
        pose proof (ext_size3 _ _ X2). lia.
    - destruct (ensure_with (process f) (t_hi t) s) as [[p1 s1]|] eqn:E1; [|discriminate].
      destruct (ensure_with (process f) (t_lo t) s1) as [[p2 s2]|] eqn:E2; [|discriminate].
      destruct (post_inv3 _ _ _ _ _ (Hpost _ _ HI Vhi Lhi) E1) as (HI1 & X1 & (P1 & _)).
      destruct (post_inv3 _ _ _ _ _ (Hpost _ _ HI1 Vlo Llo) E2) as (HI2 & X2 & (P2 & _)).
      set (s3 := set_ne3 s2 ((p2 =? 1) || (p1 =? 1))) in *.
      destruct (mk3 s3 dv p2 p1) as [q s4] eqn:Em. inversion E; subst p s'.
      apply facts_memo3.
      apply (combine3 s s1 s2 s3 s4 p1 p2 p2 p1 q dv (Hfac _ _ _ _ HI Vhi Lhi E1) (Hfac _ _ _ _ HI1 Vlo Llo E2)
               (ext_size3 _ _ X1) (ext_size3 _ _ X2) S2 P1 P2 eq_refl).
      + cbn [nonempty3 set_ne3 s3]. f_equal. apply orb_comm.
      + right; auto.
      + apply (mk_facts3 s3 dv p2 p1 q s4 (Inv_set_ne3 _ _ HI2) Em); cbn [nodes3 set_ne3 s3]; [assumption|].
        pose proof (ext_size3 _ _ X2). lia.
  Qed.


  (* ------------------------------------------------------------------ *)
  (* Layout: lock-step with the structural checker chk                    *)
  Definition extends3 (G : bdd) (s : st3) : Prop := exists l, G = nodes3 s ++ l.
  Lemma extends_ext3 G s s' : ext3 s s' -> extends3 G s' -> extends3 G s.
  Proof. intros (l & E) (l' & E'). exists (l ++ l'). rewrite E', E, app_assoc. reflexivity. Qed.
  Lemma extends_get3 G s p : extends3 G s -> p < size (nodes3 s) -> get G p = get (nodes3 s) p.
  Proof. intros (l & ->) H. now apply get_app1. Qed.

  Local Lemma chk_visited k G lim p : p < lim -> chk (S k) G lim p = Some lim.
  Proof. intros H. cbn [chk]. destruct (N.ltb_spec p lim); [reflexivity|lia]. Qed.

  Definition chk_post3 (t : task3) (s : st3) (p : N) (s' : st3) : Prop :=
    forall G k, extends3 G s' -> (N.to_nat (nv - level t) < k)%nat ->
      chk k G (size (nodes3 s)) p = Some (size (nodes3 s')).

  Lemma ensure_chk3 proc t s p s' :
    Inv3 s -> tvalid3 t -> ensure_with proc t s = Some (p, s') ->
    (level t < nv -> proc t s = Some (p, s') -> chk_post3 t s p s') -> chk_post3 t s p s'.
  Proof.
    intros HI Vt E Hp. unfold Apply3.ensure_with3 in E.
    pose proof (proj1 HI) as (S2 & _).
    destruct (op (as_bool (t3a t)) (as_bool (t3b t)) (as_bool (t3c t))) as [c|] eqn:Eop.
    - inversion E; subst. intros G k _ Hk. destruct k; [lia|]. apply chk_visited. destruct c; cbn; lia.
    - destruct (tfind3 t (finished3 s)) as [q|] eqn:Ef.
      + inversion E; subst. intros G k _ Hk. destruct k; [lia|]. apply chk_visited.
        destruct HI as (_ & _ & _ & Hf). destruct (Hf _ _ Ef) as (Hq & _). exact Hq.
      + apply Hp; [|assumption].
        pose proof (level_le3 t Vt). destruct (N.eq_dec (level t) nv) as [En|NE]; [exfalso|lia].
        destruct (level_nv_terminal3 t Vt En) as (T1 & T2 & T3).
        destruct (as_bool_term _ T1) as (a & Ea), (as_bool_term _ T2) as (b & Eb), (as_bool_term _ T3) as (c & Ec).
        rewrite Ea, Eb, Ec, OP_total in Eop. discriminate.
  Qed.

  Lemma process_chk3 : forall fuel t s p s', Inv3 s -> tvalid3 t -> level t < nv ->
    (N.to_nat (nv - level t) <= fuel)%nat -> process fuel t s = Some (p, s') -> chk_post3 t s p s'.
  Proof.
    induction fuel as [|f IH]; intros t s p s' HI Vt Hlt Hfuel E; [lia|].
    pose proof E as E0. cbn [Apply3.process3] in E. set (dv := level t) in *.
    destruct (spec_expand3 t (fun _ => false) Vt Hlt) as (Vlo & Vhi & Llo & Lhi & _). fold dv in Llo, Lhi.
    assert (Hpost : forall t' s0, Inv3 s0 -> tvalid3 t' -> dv < level t' -> post3 t' s0 (ensure_with (process f) t' s0)).
    { intros t' s0 HI' Vt' Hl'. apply ensure_ok3; try assumption. intros Hl2. apply process_ok3; try assumption. lia. }
    assert (Hfac : forall t' s0 q s1, Inv3 s0 -> tvalid3 t' -> dv < level t' ->
               ensure_with (process f) t' s0 = Some (q, s1) -> facts3 false s0 q s1).
    { intros t' s0 q s1 HI' Vt' Hl' E'. eapply ensure_facts3; try eassumption.
      intros Hl2 E2. apply (process_facts3 f t' s0 q s1); try assumption. lia. }
    assert (Hchk : forall t' s0 q s1, Inv3 s0 -> tvalid3 t' -> dv < level t' ->
               ensure_with (process f) t' s0 = Some (q, s1) -> chk_post3 t' s0 q s1).
    { intros t' s0 q s1 HI' Vt' Hl' E'. eapply ensure_chk3; try eassumption.
      intros Hl2 E2. apply (IH t' s0 q s1); try assumption. lia. }
    (* both branches reduce to the same shape: first result p1 (task3 ta), then p2 (task3 tb), node (dv, p2, p1) *)
    assert (Hcore : forall ta tb p1 s1 p2 s2 bflag q s4,
              tvalid3 ta -> tvalid3 tb -> dv < level ta -> dv < level tb ->
              ensure_with (process f) ta s = Some (p1, s1) ->
              ensure_with (process f) tb s1 = Some (p2, s2) ->
              mk3 (set_ne3 s2 bflag) dv p2 p1 = (q, s4) ->
              chk_post3 t s q (memo3 s4 t q)).
    { intros ta tb p1 s1 p2 s2 bflag q s4 Va Vb La Lb E1 E2 Em.
      destruct (post_inv3 _ _ _ _ _ (Hpost _ _ HI Va La) E1) as (HI1 & X1 & (P1 & _)).
      destruct (post_inv3 _ _ _ _ _ (Hpost _ _ HI1 Vb Lb) E2) as (HI2 & X2 & (P2 & _)).
      pose proof (Hfac _ _ _ _ HI Va La E1) as (F1 & _). pose proof (Hfac _ _ _ _ HI1 Vb Lb E2) as (F2 & _).
      pose proof (Hchk _ _ _ _ HI Va La E1) as C1. pose proof (Hchk _ _ _ _ HI1 Vb Lb E2) as C2.
      pose proof (ext_size3 _ _ X1) as L1. pose proof (ext_size3 _ _ X2) as L2.
      set (s3 := set_ne3 s2 bflag) in *.
      assert (P1' : p1 < size (nodes3 s3)) by (cbn [nodes3 set_ne3 s3]; lia).
      destruct (mk_facts3 s3 dv p2 p1 q s4 (Inv_set_ne3 _ _ HI2) Em P2 P1') as (_ & MK).
      cbn [nodes3 set_ne3 s3] in MK.
      intros G k HG0 Hk. assert (HG : extends3 G s4) by exact HG0. clear HG0. cbn [nodes3 memo3].
      destruct k as [|k]; [lia|].
      destruct MK as [(-> & E12 & ->)|[(NExy & Q2 & -> & Xq & Yq & Qs)|(NExy & -> & Sz & Nd)]].
      - (* collapse: p2 = p1 *)
        subst p2. cbn [nodes3 set_ne3 s3] in *.
        assert (Hs : size (nodes3 s2) = size (nodes3 s1)).
        { specialize (C2 G (S k) HG ltac:(lia)). rewrite chk_visited in C2 by assumption. inversion C2. lia. }
        rewrite Hs. apply C1; [|lia]. eapply extends_ext3; [exact X2|exact HG].
      - (* hash-cons hit: nothing new was created *)
        cbn [nodes3 set_ne3 s3] in *.
        assert (Hs : size (nodes3 s2) = size (nodes3 s)) by lia.
        rewrite Hs. apply chk_visited. lia.
      - (* fresh node at index size s2 *)
        cbn [nodes3 set_ne3 s3] in *.
        assert (HG2 : extends3 G s2). { destruct HG as (l & EG). rewrite Nd in EG. exists ([mkNode dv p2 p1] ++ l). rewrite EG, app_assoc. reflexivity. }
        assert (Hget : get G (size (nodes3 s2)) = mkNode dv p2 p1).
        { destruct HG as (l & EG). rewrite EG, Nd. rewrite get_app1 by (rewrite size_app; change (size [mkNode dv p2 p1]) with 1; lia).
          apply get_app_last. }
        cbn [chk]. destruct (N.ltb_spec (size (nodes3 s2)) (size (nodes3 s))); [lia|].
        rewrite Hget. cbn [nhigh nlow].
        rewrite (C1 G k (extends_ext3 _ _ _ X2 HG2) ltac:(lia)).
        rewrite (C2 G k HG2 ltac:(lia)).
        rewrite N.eqb_refl. f_equal. lia. }
    destruct (oeq fo dv) eqn:Esw.
    - destruct (ensure_with (process f) (t_lo t) s) as [[p1 s1]|] eqn:E1; [|discriminate].
      destruct (ensure_with (process f) (t_hi t) s1) as [[p2 s2]|] eqn:E2; [|discriminate].
      destruct (mk3 (set_ne3 s2 ((p1 =? 1) || (p2 =? 1))) dv p2 p1) as [q s4] eqn:Em. inversion E; subst p s'.
      eapply Hcore with (ta := t_lo t) (tb := t_hi t); eassumption.
    - destruct (ensure_with (process f) (t_hi t) s) as [[p1 s1]|] eqn:E1; [|discriminate].
      destruct (ensure_with (process f) (t_lo t) s1) as [[p2 s2]|] eqn:E2; [|discriminate].
      destruct (mk3 (set_ne3 s2 ((p2 =? 1) || (p1 =? 1))) dv p2 p1) as [q s4] eqn:Em. inversion E; subst p s'.
      eapply Hcore with (ta := t_hi t) (tb := t_lo t); eassumption.
  Qed.

  (* ------------------------------------------------------------------ *)
  (* Top level                                                            *)
  Lemma Inv_s03 : Inv3 s0.
  Proof.
    unfold Inv3, Apply3.s03; cbn [nodes3 existing3 finished3]. splits.
    - unfold store_ok. splits; try reflexivity; try (cbn; lia); try (intros p H1 H2; cbn in H2; lia).
    - intros n p. cbn [nfind]. destruct (node_eqb_spec n zero) as [->|_].
      + intros E; inversion E; subst. split; [cbn; lia|reflexivity].
      + destruct (node_eqb_spec n one) as [->|_]; [|discriminate].
        intros E; inversion E; subst. split; [cbn; lia|reflexivity].
    - intros p H1 H2. cbn in H2. lia.
    - intros t p. cbn. discriminate.
  Qed.

  Lemma root_valid3 : tvalid3 root.
  Proof.
    pose proof (size_pos A WA). pose proof (size_pos B WB). pose proof (size_pos C WC).
    unfold tvalid3, Apply3.root3, valid, t3a, t3b, t3c; cbn [fst snd]. splits; lia.
  Qed.

  Local Lemma term_get G p : wf G -> valid G p -> p < 2 -> get G p = mkNode (nvars G) p p.
  Proof.
    intros (Hs & H0 & H1 & _) (Vp & Vp1) Hp.
    assert (p = 0 \/ p = 1) as [->| ->] by lia; [exact H0|apply H1; auto].
  Qed.

  Local Lemma oeq_nv fl : (forall x, fl = Some x -> x < nv) -> oeq fl nv = false.
  Proof. intros H. destruct fl as [x|]; cbn; [|reflexivity]. specialize (H x eq_refl). apply N.eqb_neq. lia. Qed.

  (* all three roots are terminals: the root task is its own low and high task, both answered by the table *)
  Lemma root_terminal3 : level root = nv ->
    exists r0, (forall u, spec3 root u = r0) /\
      forall f, exists s', process (S (S f)) root s0 = Some (of_bool r0, s') /\
                           nodes3 s' = [zero; one] /\ nonempty3 s' = r0.
  Proof.
    intros Eq. pose proof root_valid3 as Vr.
    destruct (level_nv_terminal3 root Vr Eq) as (T1 & T2 & T3). destruct Vr as (V1 & V2 & V3).
    destruct (as_bool_term _ T1) as (a & Ea), (as_bool_term _ T2) as (b & Eb), (as_bool_term _ T3) as (c & Ec).
    assert (Hk : t_lo root = root /\ t_hi root = root).
    { unfold Apply3.t_lo3, Apply3.t_hi3, kids. rewrite Eq.
      rewrite (term_get A _ WA V1 T1), (term_get B _ WB V2 T2), (term_get C _ WC V3 T3). cbn [nvar nlow nhigh].
      fold nv. rewrite <- NVC, <- NV. fold nv. rewrite N.eqb_refl. cbn [negb].
      rewrite (oeq_nv fa FA), (oeq_nv fb FB), (oeq_nv fc FC). cbn [fst snd].
      unfold t3a, t3b, t3c, Apply3.root3. cbn [fst snd]. auto. }
    destruct Hk as (Klo & Khi).
    exists (bop a b c). split.
    { intros u. apply terminal_sound3. rewrite Ea, Eb, Ec. apply OP_total. }
    intros f. cbn [Apply3.process3]. rewrite Klo, Khi.
    assert (Hens : forall s, ensure_with (process (S f)) root s = Some (of_bool (bop a b c), s)).
    { intros s. unfold Apply3.ensure_with3. rewrite Ea, Eb, Ec, OP_total. reflexivity. }
    destruct (oeq fo (level root)); rewrite !Hens; unfold mk3; rewrite N.eqb_refl;
      (eexists; split; [reflexivity|]); cbn [nonempty3 set_ne3 memo3 nodes3 Apply3.s03]; rewrite orb_diag;
      (split; [reflexivity|]); destruct (bop a b c); reflexivity.
  Qed.

  Theorem apply3_sem : exists r, apply3 = Some r /\ forall v, eval r v = spec3 root (oflip fo v).
  Proof.
    pose proof root_valid3 as Vr. pose proof Inv_s03 as HI0. pose proof (level_le3 root Vr) as Hle.
    unfold Apply3.apply3.
    destruct (N.eq_dec (level root) nv) as [Eq|Ne].
    - destruct (root_terminal3 Eq) as (r0 & Hsp & Hrun). destruct (Hrun (N.to_nat nv)) as (s' & E & Hn & Hne).
      unfold nv in E. rewrite E. eexists; split; [reflexivity|]. intros v. rewrite Hsp, Hne, Hn.
      destruct r0; reflexivity.
    - assert (Hlt : level root < nv) by lia.
      destruct (process_ok3 (S (S (N.to_nat nv))) root s0 HI0 Vr Hlt ltac:(lia)) as (p & s' & E & HI' & X & (Pp & _ & Sp)).
      pose proof (process_facts3 (S (S (N.to_nat nv))) root s0 p s' HI0 Vr Hlt ltac:(lia) E) as (F1 & _ & F3 & F4).
      unfold nv in E. rewrite E. eexists; split; [reflexivity|]. intros v. rewrite <- Sp.
      destruct (nonempty3 s') eqn:En.
      + unfold eval. f_equal.
        assert (p <> 0) by (apply F3; auto).
        cbn [nodes3 Apply3.s03] in F1. change (size [zero; one]) with 2 in F1. lia.
      + destruct (F4 ltac:(intros _; reflexivity)) as (_ & Hp0). rewrite (Hp0 eq_refl). reflexivity.
  Qed.

  (* ------------------------------------------------------------------ *)
  (* Canonicity of the result                                            *)
  Lemma Inv_reduced3 s : Inv3 s -> reduced (nodes3 s).
  Proof.
    intros (HS & Ha & Hb & _). destruct HS as (_ & _ & _ & Hn). split.
    - intros p Hp Hlt. destruct (Hn p Hp Hlt) as (_ & _ & _ & _ & _ & H). exact H.
    - intros p q Hp Hpl Hq Hql E.
      pose proof (Hb p Hp Hpl) as E1. pose proof (Hb q Hq Hql) as E2. rewrite E in E1. congruence.
  Qed.

  Lemma canonical_false3 : Canonical [zero] /\ nvars [zero] = nv.
  Proof.
    split; [|reflexivity]. unfold Canonical. splits.
    - unfold wf. cbn. splits; try reflexivity; try lia.
    - split; intros p; cbn; intros; lia.
    - left. reflexivity.
  Qed.

  Theorem apply3_full_spec : exists r, apply3 = Some r /\ (Canonical r /\ nvars r = nv) /\
      forall v, eval r v = spec3 root (oflip fo v).
  Proof.
    pose proof root_valid3 as Vr. pose proof Inv_s03 as HI0. pose proof (level_le3 root Vr) as Hle.
    destruct apply3_sem as (r & Er & Sr). exists r. split; [exact Er|]. split; [|exact Sr].
    unfold Apply3.apply3 in Er.
    destruct (N.eq_dec (level root) nv) as [Eq|Ne].
    - (* all roots terminal: no node is created *)
      assert (Htrue : Canonical [zero; one] /\ nvars [zero; one] = nv).
      { split; [|reflexivity]. pose proof (Inv_reduced3 _ HI0) as R0. destruct HI0 as (HS0 & _).
        unfold Canonical. splits; [exact (store_wf _ HS0)|exact R0|].
        right. reflexivity. }
      destruct (root_terminal3 Eq) as (r0 & Hsp & Hrun). destruct (Hrun (N.to_nat nv)) as (s' & E & Hn & Hne).
      unfold nv in E. rewrite E in Er. rewrite Hne, Hn in Er.
      destruct r0; inversion Er; subst r; [exact Htrue|exact canonical_false3].
    - assert (Hlt : level root < nv) by lia.
      destruct (process_ok3 (S (S (N.to_nat nv))) root s0 HI0 Vr Hlt ltac:(lia)) as (p & s' & E & HI' & X & (Pp & _ & Sp)).
      pose proof (process_facts3 (S (S (N.to_nat nv))) root s0 p s' HI0 Vr Hlt ltac:(lia) E) as (F1 & _ & F3 & F4).
      pose proof (process_chk3 (S (S (N.to_nat nv))) root s0 p s' HI0 Vr Hlt ltac:(lia) E) as C0.
      unfold nv in E. rewrite E in Er. inversion Er; subst r. clear Er.
      destruct (nonempty3 s') eqn:En; [|exact canonical_false3].
      pose proof (proj1 HI') as HS'. pose proof (store_nvars _ HS') as Hnv'.
      split; [|exact Hnv'].
      unfold Canonical. splits; [exact (store_wf _ HS')|exact (Inv_reduced3 _ HI')|].
      right. rewrite Hnv'.
      cbn [nodes3 Apply3.s03] in F1. change (size [zero; one]) with 2 in F1.
      destruct F1 as [F1|F1].
      + rewrite F1. reflexivity.
      + assert (Hroot : size (nodes3 s') - 1 = p) by lia. rewrite Hroot.
        specialize (C0 (nodes3 s') (S (N.to_nat nv))). cbn [nodes3 Apply3.s03] in C0.
        change (size [zero; one]) with 2 in C0. apply C0.
        * exists []. now rewrite app_nil_r.
        * lia.
  Qed.
End Apply3.

(* ====================================================================================== *)
(* The engine theorem in closed form                                                       *)
Theorem apply3_full : forall A B C fa fb fc fo (op : op3) (bop3 : bool -> bool -> bool -> bool),
  wf A -> wf B -> wf C -> nvars A = nvars B -> nvars B = nvars C ->
  (forall x, fa = Some x -> x < nvars A) ->
  (forall x, fb = Some x -> x < nvars A) ->
  (forall x, fc = Some x -> x < nvars A) ->
  (forall a b c, op (Some a) (Some b) (Some c) = Some (bop3 a b c)) ->
  (forall x y z r, op x y z = Some r ->
     forall a b c, refines a x -> refines b y -> refines c z -> bop3 a b c = r) ->
  exists r, apply3 A B C fa fb fc fo op = Some r /\ (Canonical r /\ nvars r = nvars A) /\
    forall v, eval r v = bop3 (eval A (oflip fa (oflip fo v))) (eval B (oflip fb (oflip fo v)))
                              (eval C (oflip fc (oflip fo v))).
Proof.
  intros A B C fa fb fc fo op bop3 WA WB WC NAB NBC FA FB FC OT OC.
  exact (apply3_full_spec A B C fa fb fc fo op bop3 WA WB WC NAB (eq_trans NAB NBC) FA FB FC OT OC).
Qed.
Print Assumptions apply3_full.

(* ====================================================================================== *)
(* API level                                                                               *)
Lemma flip_ok_lt3 nv f : flip_ok nv f = true -> forall x, f = Some x -> x < nv.
Proof. intros H x ->. cbn in H. now apply N.ltb_lt. Qed.

Theorem fused_ternary_flip_op_faithful_correct : forall A B C fa fb fc fo op,
  wf A -> wf B -> wf C -> nvars A = nvars B -> nvars B = nvars C ->
  (flip_ok (nvars A) fa && flip_ok (nvars A) fb && flip_ok (nvars A) fc && flip_ok (nvars A) fo = true) ->
  total3 op -> consistent3 op ->
  exists r, fused_ternary_flip_op_faithful A B C fa fb fc fo op = Ok r /\ Canonical r /\ nvars r = nvars A /\
    forall v, eval r v = conn3 op (eval A (oflip fa (oflip fo v))) (eval B (oflip fb (oflip fo v)))
                                  (eval C (oflip fc (oflip fo v))).
Proof.
  intros A B C fa fb fc fo op WA WB WC NAB NBC FL T K.
  pose proof FL as FL'.
  apply andb_true_iff in FL'. destruct FL' as (FL' & FO).
  apply andb_true_iff in FL'. destruct FL' as (FL' & FC).
  apply andb_true_iff in FL'. destruct FL' as (FA & FB).
  destruct (apply3_full A B C fa fb fc fo op (conn3 op) WA WB WC NAB NBC
              (flip_ok_lt3 _ _ FA) (flip_ok_lt3 _ _ FB) (flip_ok_lt3 _ _ FC)
              (total3_conn3 op T) (consistent3_conn3 op K)) as (r & E & (Kr & Nr) & S).
  exists r. unfold fused_ternary_flip_op_faithful, guard3.
  rewrite <- NAB at 1. rewrite <- NBC, <- NAB, N.eqb_refl. cbn [andb negb].
  rewrite FL. cbn [negb]. rewrite E. cbn [of_option].
  split; [reflexivity|]. split; [exact Kr|]. split; [exact Nr|]. exact S.
Qed.
Print Assumptions fused_ternary_flip_op_faithful_correct.

(* a failed guard always panics, and nothing else does (for total consistent tables) *)
Lemma ternary_faithful_guard_panic A B C fa fb fc fo op :
  (~ (nvars A = nvars B /\ nvars B = nvars C) \/
   flip_ok (nvars A) fa && flip_ok (nvars A) fb && flip_ok (nvars A) fc && flip_ok (nvars A) fo = false) ->
  fused_ternary_flip_op_faithful A B C fa fb fc fo op = Panic.
Proof.
  intros H. unfold fused_ternary_flip_op_faithful, guard3.
  destruct (N.eqb_spec (nvars A) (nvars B)) as [NAB|NAB]; [|reflexivity].
  destruct (N.eqb_spec (nvars B) (nvars C)) as [NBC|NBC]; [|reflexivity].
  cbn [andb negb]. destruct H as [H|H]; [exfalso; apply H; split; assumption|]. rewrite H. reflexivity.
Qed.

Theorem ternary_faithful_panic_iff : forall A B C fa fb fc fo op,
  wf A -> wf B -> wf C -> total3 op -> consistent3 op ->
  (fused_ternary_flip_op_faithful A B C fa fb fc fo op = Panic <->
   (~ (nvars A = nvars B /\ nvars B = nvars C) \/
    flip_ok (nvars A) fa && flip_ok (nvars A) fb && flip_ok (nvars A) fc && flip_ok (nvars A) fo = false)).
Proof.
  intros A B C fa fb fc fo op WA WB WC T K. split; [|apply ternary_faithful_guard_panic].
  intros HP.
  destruct (N.eq_dec (nvars A) (nvars B)) as [NAB|NAB]; [|left; intros [H _]; contradiction].
  destruct (N.eq_dec (nvars B) (nvars C)) as [NBC|NBC]; [|left; intros [_ H]; contradiction].
  destruct (flip_ok (nvars A) fa && flip_ok (nvars A) fb && flip_ok (nvars A) fc && flip_ok (nvars A) fo) eqn:FL;
    [|right; reflexivity].
  destruct (fused_ternary_flip_op_faithful_correct A B C fa fb fc fo op WA WB WC NAB NBC FL T K) as (r & E & _).
  rewrite E in HP. discriminate.
Qed.
Print Assumptions ternary_faithful_panic_iff.

(* ====================================================================================== *)
(* The faithful engine and the compositional model of Model/Ops.v return the same outcome. *)
(* The compositional model reads the table on total inputs only (conn3); the faithful      *)
(* engine, like the Rust, also uses the partial entries for early answers — hence the      *)
(* consistency hypothesis.  No hypothesis on variable counts or flips: both sides panic    *)
(* under the same guard.                                                                   *)
Theorem ternary_faithful_eq : forall A B C fa fb fc fo op,
  wf A -> wf B -> wf C -> total3 op -> consistent3 op ->
  fused_ternary_flip_op_faithful A B C fa fb fc fo op = fused_ternary_flip_op A B C fa fb fc fo op.
Proof.
  intros A B C fa fb fc fo op WA WB WC T K.
  destruct (N.eq_dec (nvars A) (nvars B)) as [NAB|NAB];
    [|rewrite ternary_faithful_guard_panic, ternary_guard_panic; [reflexivity|left; intros [H _]; contradiction ..]].
  destruct (N.eq_dec (nvars B) (nvars C)) as [NBC|NBC];
    [|rewrite ternary_faithful_guard_panic, ternary_guard_panic; [reflexivity|left; intros [_ H]; contradiction ..]].
  destruct (flip_ok (nvars A) fa && flip_ok (nvars A) fb && flip_ok (nvars A) fc && flip_ok (nvars A) fo) eqn:FL;
    [|rewrite ternary_faithful_guard_panic, ternary_guard_panic; [reflexivity|right; exact FL ..]].
  destruct (fused_ternary_flip_op_faithful_correct A B C fa fb fc fo op WA WB WC NAB NBC FL T K) as (r1 & E1 & K1 & N1 & S1).
  destruct (fused_ternary_flip_op_correct A B C fa fb fc fo op WA WB WC NAB NBC FL) as (r2 & E2 & K2 & N2 & S2).
  rewrite E1, E2. f_equal. apply canonical_unique; try assumption; [congruence|].
  intros v. rewrite S1, S2. reflexivity.
Qed.
Print Assumptions ternary_faithful_eq.

Theorem ternary_op_faithful_eq : forall A B C op,
  wf A -> wf B -> wf C -> total3 op -> consistent3 op ->
  ternary_op_faithful A B C op = ternary_op A B C op.
Proof. intros A B C op. unfold ternary_op_faithful, ternary_op. apply ternary_faithful_eq. Qed.
Print Assumptions ternary_op_faithful_eq.

Theorem if_then_else_faithful_eq : forall A B C,
  wf A -> wf B -> wf C -> if_then_else_faithful A B C = if_then_else A B C.
Proof.
  intros A B C WA WB WC. unfold if_then_else_faithful, if_then_else.
  apply ternary_op_faithful_eq; auto using ite_total3, ite_consistent3.
Qed.
Print Assumptions if_then_else_faithful_eq.

(* the faithful engine only depends on the table through the function it denotes *)
Theorem ternary_faithful_eager_lazy_same : forall A B C fa fb fc fo op1 op2,
  wf A -> wf B -> wf C -> total3 op1 -> consistent3 op1 -> total3 op2 -> consistent3 op2 ->
  (forall a b c, conn3 op1 a b c = conn3 op2 a b c) ->
  fused_ternary_flip_op_faithful A B C fa fb fc fo op1 = fused_ternary_flip_op_faithful A B C fa fb fc fo op2.
Proof.
  intros A B C fa fb fc fo op1 op2 WA WB WC T1 K1 T2 K2 Eq.
  rewrite !ternary_faithful_eq by assumption. apply ternary_eager_lazy_same_any. exact Eq.
Qed.
Print Assumptions ternary_faithful_eager_lazy_same.

(* ====================================================================================== *)
(* The executable table check used by the driver is sound                                  *)
Lemma refines_completions a x : refines a x -> In a (completions x).
Proof. destruct x as [b|]; cbn; [intros ->; auto|intros _; destruct a; auto]. Qed.

Theorem table3_okb_sound : forall op, table3_okb op = true -> total3 op /\ consistent3 op.
Proof.
  intros op H. unfold table3_okb in H. apply andb_true_iff in H. destruct H as (HT & HK). split.
  - intros a b c. unfold total3b in HT.
    rewrite forallb_forall in HT. specialize (HT a ltac:(destruct a; cbn; auto)).
    rewrite forallb_forall in HT. specialize (HT b ltac:(destruct b; cbn; auto)).
    rewrite forallb_forall in HT. specialize (HT c ltac:(destruct c; cbn; auto)).
    destruct (op (Some a) (Some b) (Some c)); [discriminate|discriminate HT].
  - intros x y z r E a b c Ra Rb Rc. unfold consistent3b in HK.
    assert (Hin : forall o : option bool, In o [None; Some false; Some true]) by (intros [[|]|]; cbn; auto).
    rewrite forallb_forall in HK. specialize (HK x (Hin x)).
    rewrite forallb_forall in HK. specialize (HK y (Hin y)).
    rewrite forallb_forall in HK. specialize (HK z (Hin z)).
    rewrite E in HK.
    rewrite forallb_forall in HK. specialize (HK a (refines_completions _ _ Ra)).
    rewrite forallb_forall in HK. specialize (HK b (refines_completions _ _ Rb)).
    rewrite forallb_forall in HK. specialize (HK c (refines_completions _ _ Rc)).
    destruct (op (Some a) (Some b) (Some c)) as [r'|]; [|discriminate].
    apply eqb_prop in HK. congruence.
Qed.
Print Assumptions table3_okb_sound.

(* ---- concrete non-trivial instances ---- *)
Example ite_faithful_example :
  if_then_else_faithful (mk_var 3 0) (mk_var 3 1) (mk_var 3 2) =
  Ok [mkNode 3 0 0; mkNode 3 1 1; mkNode 1 0 1; mkNode 2 0 1; mkNode 0 3 2].
Proof. vm_compute. reflexivity. Qed.

(* an eager table (answers on partial inputs), all four flips in use *)
Example faithful_flip_example :
  fused_ternary_flip_op_faithful (mk_var 3 0) (mk_var 3 1) (mk_var 3 2) (Some 0) (Some 1) None (Some 2) ite_function =
  fused_ternary_flip_op (mk_var 3 0) (mk_var 3 1) (mk_var 3 2) (Some 0) (Some 1) None (Some 2) ite_function.
Proof. vm_compute. reflexivity. Qed.
Example ite_table_ok : table3_okb ite_function = true.
Proof. vm_compute. reflexivity. Qed.
