(* Proofs/Reflect.v — the boolean checkers wfb/reducedb/layoutb/canonicalb reflect the Prop-level
   predicates wf/reduced/layout/Canonical; exact characterisation of is_false/is_true on canonical diagrams. *)
From Coq Require Import List NArith Lia Bool.
Import ListNotations.
From BddVerif Require Import Model.Bdd Proofs.Sem Proofs.Canon.
Open Scope N_scope.

(* ---- idxs b enumerates exactly the decision-node indices 2 .. size b - 1 ---- *)
Lemma in_idxs b p : In p (idxs b) <-> 2 <= p /\ p < size b.
Proof.
  unfold idxs, size. rewrite in_map_iff. split.
  - intros (n & <- & Hn). apply in_seq in Hn. lia.
  - intros (H2 & Hlt). exists (N.to_nat p). split; [apply Nnat.N2Nat.id|].
    apply in_seq. lia.
Qed.

Lemma forallb_idxs b (f : N -> bool) :
  forallb f (idxs b) = true <-> (forall p, 2 <= p -> p < size b -> f p = true).
Proof.
  rewrite forallb_forall. split.
  - intros H p H2 Hlt. apply H. apply in_idxs. split; assumption.
  - intros H p Hin. apply in_idxs in Hin. destruct Hin as (H2 & Hlt). apply H; assumption.
Qed.

Lemma node_eqb_true a c : node_eqb a c = true <-> a = c.
Proof. destruct (node_eqb_spec a c); split; intros; congruence. Qed.

(* ---- wf ---- *)
Lemma wf_nodeb_iff b nv p : wf_nodeb b nv p = true <-> wf_node b nv p.
Proof.
  unfold wf_nodeb, wf_node. cbv zeta. rewrite !andb_true_iff, !N.ltb_lt. tauto.
Qed.

Lemma wfb_iff b : wfb b = true <-> wf b.
Proof.
  unfold wfb, wf. rewrite !andb_true_iff, orb_true_iff, N.leb_le, N.ltb_lt, !node_eqb_true, forallb_idxs.
  split.
  - intros (((H1 & H0) & H1') & Hn). split; [exact H1|]. split; [exact H0|]. split.
    + intros H2. destruct H1' as [Hlt|He]; [lia|exact He].
    + intros p Hp Hlt. apply wf_nodeb_iff. apply Hn; assumption.
  - intros (H1 & H0 & H1' & Hn). split; [split; [split; [exact H1|exact H0]|]|].
    + destruct (N.ltb_spec (size b) 2) as [Hlt|Hge]; [left; exact Hlt|right; apply H1'; exact Hge].
    + intros p Hp Hlt. apply wf_nodeb_iff. apply Hn; assumption.
Qed.

Theorem wfb_sound b : wfb b = true -> wf b.
Proof. apply wfb_iff. Qed.
Print Assumptions wfb_sound.

Theorem wfb_complete b : wf b -> wfb b = true.
Proof. apply wfb_iff. Qed.
Print Assumptions wfb_complete.

(* ---- reduced ---- *)
Lemma reducedb_iff b : reducedb b = true <-> reduced b.
Proof.
  unfold reducedb, reduced. rewrite andb_true_iff, !forallb_idxs. split.
  - intros (Hr & Hd). split.
    + intros p Hp Hlt E. specialize (Hr p Hp Hlt). apply negb_true_iff in Hr.
      apply N.eqb_neq in Hr. contradiction.
    + intros p q Hp Hpl Hq Hql E. specialize (Hd p Hp Hpl).
      rewrite forallb_idxs in Hd. specialize (Hd q Hq Hql).
      apply orb_true_iff in Hd. destruct Hd as [Hd|Hd].
      * apply negb_true_iff in Hd. apply node_eqb_true in E. congruence.
      * apply N.eqb_eq. exact Hd.
  - intros (Hr & Hd). split.
    + intros p Hp Hlt. apply negb_true_iff. apply N.eqb_neq. apply Hr; assumption.
    + intros p Hp Hpl. apply forallb_idxs. intros q Hq Hql.
      destruct (node_eqb_spec (get b p) (get b q)) as [E|E]; cbn [negb orb]; [|reflexivity].
      apply N.eqb_eq. apply Hd; assumption.
Qed.

Theorem reducedb_sound b : reducedb b = true -> reduced b.
Proof. apply reducedb_iff. Qed.
Print Assumptions reducedb_sound.

Theorem reducedb_complete b : reduced b -> reducedb b = true.
Proof. apply reducedb_iff. Qed.
Print Assumptions reducedb_complete.

(* ---- layout ---- *)
Lemma layoutb_iff b : layoutb b = true <-> layout b.
Proof.
  unfold layoutb, layout. rewrite orb_true_iff, N.eqb_eq.
  destruct (chk (S (N.to_nat (nvars b))) b 2 (size b - 1)) as [l|].
  - rewrite N.eqb_eq. split; (intros [H|H]; [left; exact H|right; congruence]).
  - split; (intros [H|H]; [left; exact H|discriminate]).
Qed.

Theorem layoutb_sound b : layoutb b = true -> layout b.
Proof. apply layoutb_iff. Qed.
Print Assumptions layoutb_sound.

Theorem layoutb_complete b : layout b -> layoutb b = true.
Proof. apply layoutb_iff. Qed.
Print Assumptions layoutb_complete.

(* ---- Canonical ---- *)
Theorem canonicalb_iff b : canonicalb b = true <-> Canonical b.
Proof.
  unfold canonicalb, Canonical. rewrite !andb_true_iff, wfb_iff, reducedb_iff, layoutb_iff. tauto.
Qed.
Print Assumptions canonicalb_iff.

Theorem canonicalb_sound b : canonicalb b = true -> Canonical b.
Proof. apply canonicalb_iff. Qed.
Print Assumptions canonicalb_sound.

Theorem canonicalb_complete b : Canonical b -> canonicalb b = true.
Proof. apply canonicalb_iff. Qed.
Print Assumptions canonicalb_complete.

Lemma canonicalb_reflect b : reflect (Canonical b) (canonicalb b).
Proof. apply iff_reflect. symmetry. apply canonicalb_iff. Qed.

(* ---- is_false / is_true are exact on canonical diagrams ---- *)
Lemma eval_size1 b v : size b = 1 -> eval b v = false.
Proof. intros H. unfold eval. rewrite H. reflexivity. Qed.

Lemma eval_size2 b v : size b = 2 -> eval b v = true.
Proof. intros H. unfold eval. rewrite H. reflexivity. Qed.

Theorem is_false_exact b : Canonical b -> (size b = 1 <-> forall v, eval b v = false).
Proof.
  intros Cb. split.
  - intros H v. apply eval_size1; exact H.
  - intros Hall. destruct (N.eq_dec (size b) 1) as [E|E]; [exact E|].
    exfalso. exact (canonical_nonfalse b Cb E Hall).
Qed.
Print Assumptions is_false_exact.

Theorem is_true_exact b : Canonical b -> (size b = 2 <-> forall v, eval b v = true).
Proof.
  intros Cb. pose proof Cb as (Wb & Rb & Lb). pose proof (size_pos b Wb) as Hp. split.
  - intros H v. apply eval_size2; exact H.
  - intros Hall. destruct (N.eq_dec (size b) 1) as [E|E].
    + specialize (Hall (fun _ => false)). rewrite eval_size1 in Hall by exact E. discriminate.
    + assert (Hr : valid b (size b - 1)) by (split; [lia|intros; lia]).
      assert (H1 : valid b 1) by (split; [lia|intros; lia]).
      assert (Heq : size b - 1 = 1).
      { apply (sem_inj b _ _ Wb Rb Hr H1). intros v. rewrite sem_1. apply Hall. }
      lia.
Qed.
Print Assumptions is_true_exact.

Lemma is_false_size b : is_false b = true <-> size b = 1.
Proof. unfold is_false. apply N.eqb_eq. Qed.

Lemma is_true_size b : is_true b = true <-> size b = 2.
Proof. unfold is_true. apply N.eqb_eq. Qed.

Theorem is_false_correct b : Canonical b -> (is_false b = true <-> forall v, eval b v = false).
Proof. intros Cb. rewrite is_false_size. apply is_false_exact; exact Cb. Qed.
Print Assumptions is_false_correct.

Theorem is_true_correct b : Canonical b -> (is_true b = true <-> forall v, eval b v = true).
Proof. intros Cb. rewrite is_true_size. apply is_true_exact; exact Cb. Qed.
Print Assumptions is_true_correct.

(* negative forms: the boolean answers false exactly when some valuation is a counterexample-free witness
   of non-constancy, stated as the contrapositive of the above *)
Corollary is_false_false b : Canonical b -> (is_false b = false <-> ~ forall v, eval b v = false).
Proof.
  intros Cb. rewrite <- (is_false_correct b Cb). destruct (is_false b); split; intros H; congruence.
Qed.

Corollary is_true_false b : Canonical b -> (is_true b = false <-> ~ forall v, eval b v = true).
Proof.
  intros Cb. rewrite <- (is_true_correct b Cb). destruct (is_true b); split; intros H; congruence.
Qed.

(* ---- concrete instances (tests by computation) ---- *)
Example ex_bdd : bdd := [mkNode 2 0 0; mkNode 2 1 1; mkNode 1 0 1; mkNode 0 0 2].
Example ex_canonicalb : canonicalb ex_bdd = true. Proof. vm_compute. reflexivity. Qed.
Example ex_Canonical : Canonical ex_bdd. Proof. apply canonicalb_sound. vm_compute. reflexivity. Qed.
Example ex_true_Canonical : Canonical (mk_true 3). Proof. apply canonicalb_sound. vm_compute. reflexivity. Qed.
Example ex_false_Canonical : Canonical (mk_false 3). Proof. apply canonicalb_sound. vm_compute. reflexivity. Qed.
Example ex_not_reduced : canonicalb [mkNode 2 0 0; mkNode 2 1 1; mkNode 1 1 1] = false.
Proof. vm_compute. reflexivity. Qed.
