(* Proofs/ValuationCmp.v — the comparators of _impl_sort.rs: cmp_structural is a total order on node arrays whose
   Equal class is Leibniz equality; cmp_size / cmp_cardinality order by node count / model count;
   cmp_cardinality_strict refuses exactly different variable counts (C18). *)
From Coq Require Import List NArith Lia Bool.
Import ListNotations.
From BddVerif Require Import Model.Bdd Model.Apply Model.Ops Model.Valuation Proofs.Sem.
Open Scope N_scope.

Definition ord_opp (o : ord) : ord := match o with OLt => OGt | OEq => OEq | OGt => OLt end.

Lemma ord_of_opp c : ord_of (CompOpp c) = ord_opp (ord_of c).
Proof. destruct c; reflexivity. Qed.
Lemma ord_of_inj c d : ord_of c = ord_of d -> c = d.
Proof. destruct c, d; cbn; congruence. Qed.

Lemma then_cmp_eq c k : then_cmp c k = Eq <-> c = Eq /\ k = Eq.
Proof. destruct c; cbn; intuition congruence. Qed.
Lemma then_cmp_lt c k : then_cmp c k = Lt <-> c = Lt \/ (c = Eq /\ k = Lt).
Proof. destruct c; cbn; intuition congruence. Qed.
Lemma then_cmp_opp c k : then_cmp (CompOpp c) (CompOpp k) = CompOpp (then_cmp c k).
Proof. destruct c; reflexivity. Qed.

(* ---- nodes: lexicographic on (var, low, high) ---- *)
Lemma node_cmp_eq x y : node_cmp x y = Eq <-> x = y.
Proof.
  unfold node_cmp. rewrite !then_cmp_eq, !N.compare_eq_iff. split.
  - intros (Hv & Hl & Hh). now apply node_ext.
  - intros ->. auto.
Qed.
Lemma node_cmp_antisym x y : node_cmp y x = CompOpp (node_cmp x y).
Proof. unfold node_cmp. rewrite <- !then_cmp_opp, <- !N.compare_antisym. reflexivity. Qed.
Lemma node_cmp_lt x y : node_cmp x y = Lt <->
  nvar x < nvar y \/ (nvar x = nvar y /\ (nlow x < nlow y \/ (nlow x = nlow y /\ nhigh x < nhigh y))).
Proof. unfold node_cmp. rewrite !then_cmp_lt, !N.compare_lt_iff, !N.compare_eq_iff. tauto. Qed.
Lemma node_cmp_trans x y z : node_cmp x y = Lt -> node_cmp y z = Lt -> node_cmp x z = Lt.
Proof. rewrite !node_cmp_lt. lia. Qed.

(* ---- arrays ---- *)
Lemma struct_cmp_eq a : forall b, struct_cmp a b = Eq <-> a = b.
Proof.
  induction a as [|x a IH]; intros [|y b]; cbn [struct_cmp]; try (split; [discriminate|discriminate]).
  - split; reflexivity.
  - rewrite then_cmp_eq, node_cmp_eq, IH. split; [intros (-> & ->); reflexivity | intros H; inversion H; auto].
Qed.

Lemma struct_cmp_antisym a : forall b, struct_cmp b a = CompOpp (struct_cmp a b).
Proof.
  induction a as [|x a IH]; intros [|y b]; cbn [struct_cmp]; try reflexivity.
  rewrite node_cmp_antisym, IH. apply then_cmp_opp.
Qed.

Lemma struct_cmp_trans a : forall b c, struct_cmp a b = Lt -> struct_cmp b c = Lt -> struct_cmp a c = Lt.
Proof.
  induction a as [|x a IH]; intros [|y b] [|z c]; cbn [struct_cmp]; try discriminate; try reflexivity.
  rewrite !then_cmp_lt. intros [H1|(H1 & R1)] [H2|(H2 & R2)].
  - left. eapply node_cmp_trans; eassumption.
  - apply node_cmp_eq in H2. subst z. now left.
  - apply node_cmp_eq in H1. subst y. now left.
  - apply node_cmp_eq in H1. apply node_cmp_eq in H2. subst y z. right. split; [now apply node_cmp_eq|].
    eapply IH; eassumption.
Qed.

Lemma struct_cmp_le_trans a b c : struct_cmp a b <> Gt -> struct_cmp b c <> Gt -> struct_cmp a c <> Gt.
Proof.
  intros H1 H2.
  destruct (struct_cmp a b) eqn:E1; [| |congruence]; destruct (struct_cmp b c) eqn:E2; try congruence.
  - apply struct_cmp_eq in E1. apply struct_cmp_eq in E2. subst. rewrite (proj2 (struct_cmp_eq c c) eq_refl). discriminate.
  - apply struct_cmp_eq in E1. subst. rewrite E2. discriminate.
  - apply struct_cmp_eq in E2. subst. rewrite E1. discriminate.
  - rewrite (struct_cmp_trans a b c E1 E2). discriminate.
Qed.

(* cmp_structural is a total order on node arrays, consistent with == (derived PartialEq = equality of the arrays) *)
Theorem cmp_structural_total_order :
  (forall a, cmp_structural a a = OEq) /\
  (forall a b, cmp_structural a b = OEq <-> a = b) /\
  (forall a b, cmp_structural b a = ord_opp (cmp_structural a b)) /\
  (forall a b, cmp_structural a b <> OGt -> cmp_structural b a <> OGt -> a = b) /\
  (forall a b c, cmp_structural a b = OLt -> cmp_structural b c = OLt -> cmp_structural a c = OLt) /\
  (forall a b c, cmp_structural a b <> OGt -> cmp_structural b c <> OGt -> cmp_structural a c <> OGt) /\
  (forall a b, cmp_structural a b <> OGt \/ cmp_structural b a <> OGt).
Proof.
  unfold cmp_structural.
  split; [|split; [|split; [|split; [|split; [|split]]]]].
  - intros a. rewrite (proj2 (struct_cmp_eq a a) eq_refl). reflexivity.
  - intros a b. split.
    + intros H. apply struct_cmp_eq. now apply ord_of_inj.
    + intros ->. rewrite (proj2 (struct_cmp_eq b b) eq_refl). reflexivity.
  - intros a b. rewrite struct_cmp_antisym. apply ord_of_opp.
  - intros a b H1 H2. rewrite (struct_cmp_antisym a b) in H2. apply struct_cmp_eq.
    destruct (struct_cmp a b); cbn in *; congruence.
  - intros a b c H1 H2. change OLt with (ord_of Lt) in *. apply ord_of_inj in H1. apply ord_of_inj in H2.
    f_equal. eapply struct_cmp_trans; eassumption.
  - intros a b c H1 H2 H3. apply (struct_cmp_le_trans a b c).
    + intros E. apply H1. now rewrite E.
    + intros E. apply H2. now rewrite E.
    + change OGt with (ord_of Gt) in H3. now apply ord_of_inj in H3.
  - intros a b. rewrite (struct_cmp_antisym a b). destruct (struct_cmp a b); cbn; [left|left|right]; discriminate.
Qed.
Print Assumptions cmp_structural_total_order.

(* the first differing node decides; a proper prefix is smaller *)
Theorem cmp_structural_prefix a n r : cmp_structural a (a ++ n :: r) = OLt.
Proof.
  unfold cmp_structural. induction a as [|x a IH]; cbn [struct_cmp app]; [reflexivity|].
  rewrite (proj2 (node_cmp_eq x x) eq_refl). cbn [then_cmp]. exact IH.
Qed.

(* ---- cmp_size ---- *)
Theorem cmp_size_spec a b :
  (cmp_size a b = OLt <-> size a < size b) /\
  (cmp_size a b = OEq <-> size a = size b) /\
  (cmp_size a b = OGt <-> size b < size a).
Proof.
  unfold cmp_size. destruct (N.compare_spec (size a) (size b)) as [E|L|G]; cbn [ord_of];
    repeat split; intros; try discriminate; try lia; try reflexivity.
Qed.
Print Assumptions cmp_size_spec.

(* ---- cmp_cardinality, for whatever the count function is ---- *)
Section Card.
  Variable card : bdd -> N.

  Theorem cmp_cardinality_spec a b :
    (cmp_cardinality_with card a b = OLt <-> card a < card b) /\
    (cmp_cardinality_with card a b = OEq <-> card a = card b) /\
    (cmp_cardinality_with card a b = OGt <-> card b < card a).
  Proof.
    unfold cmp_cardinality_with. destruct (N.compare_spec (card a) (card b)) as [E|L|G]; cbn [ord_of];
      repeat split; intros; try discriminate; try lia; try reflexivity.
  Qed.

  Theorem cmp_cardinality_strict_none_iff a b :
    cmp_cardinality_strict_with card a b = None <-> nvars a <> nvars b.
  Proof.
    unfold cmp_cardinality_strict_with. destruct (N.eqb_spec (nvars a) (nvars b)); split; intros; try discriminate; congruence.
  Qed.

  Theorem cmp_cardinality_strict_some a b : nvars a = nvars b ->
    cmp_cardinality_strict_with card a b = Some (cmp_cardinality_with card a b).
  Proof. intros H. unfold cmp_cardinality_strict_with. now rewrite (proj2 (N.eqb_eq _ _) H). Qed.
End Card.
Print Assumptions cmp_cardinality_spec.
Print Assumptions cmp_cardinality_strict_none_iff.

(* the instance run by the correspondence driver counts the satisfying assignments of the diagram's own variables *)
Lemma all_vals_length n : forall l, In l (all_vals n) -> length l = n.
Proof.
  induction n as [|n IH]; intros l H; cbn [all_vals] in H.
  - destruct H as [<-|[]]. reflexivity.
  - apply in_app_or in H. destruct H as [H|H]; apply in_map_iff in H; destruct H as (l' & <- & H'); cbn; f_equal; now apply IH.
Qed.
Lemma all_vals_complete n : forall l, length l = n -> In l (all_vals n).
Proof.
  induction n as [|n IH]; intros l H.
  - destruct l; [now left|discriminate].
  - destruct l as [|c l]; [discriminate|]. cbn [all_vals]. apply in_or_app. injection H as H.
    destruct c; [right|left]; apply in_map; now apply IH.
Qed.
Lemma nodup_app {T} (l1 l2 : list T) : NoDup l1 -> NoDup l2 -> (forall x, In x l1 -> In x l2 -> False) -> NoDup (l1 ++ l2).
Proof.
  induction l1 as [|a l1 IH]; intros H1 H2 D; cbn [app]; [exact H2|].
  inversion H1 as [|? ? Ha H1']; subst. constructor.
  - intros Hin. apply in_app_or in Hin. destruct Hin as [Hin|Hin]; [contradiction|]. apply (D a); [now left|exact Hin].
  - apply IH; [exact H1'|exact H2|]. intros x Hx1 Hx2. apply (D x); [now right|exact Hx2].
Qed.
Lemma all_vals_nodup n : NoDup (all_vals n).
Proof.
  induction n as [|n IH]; cbn [all_vals]; [constructor; [intros []|constructor]|].
  assert (Inj : forall c (l : list (list bool)), NoDup l -> NoDup (map (cons c) l)).
  { intros c l H. induction H as [|x l Hx Hn IHn]; cbn; constructor; [|exact IHn].
    intros Hin. apply in_map_iff in Hin. destruct Hin as (y & E & Hy). inversion E. subst. contradiction. }
  apply nodup_app; [now apply Inj | now apply Inj |].
  intros l H1 H2. apply in_map_iff in H1. apply in_map_iff in H2.
  destruct H1 as (a & <- & _). destruct H2 as (b & E & _). discriminate.
Qed.

Theorem card_bf_spec b :
  exists sat : list (list bool),
    card_bf b = N.of_nat (length sat) /\ NoDup sat /\
    forall l, In l sat <-> (length l = N.to_nat (nvars b) /\ eval b (val_of_list l) = true).
Proof.
  exists (filter (fun l => eval b (val_of_list l)) (all_vals (N.to_nat (nvars b)))). split; [reflexivity|]. split.
  - apply NoDup_filter. apply all_vals_nodup.
  - intros l. rewrite filter_In. split.
    + intros (H & E). split; [now apply all_vals_length|exact E].
    + intros (H & E). split; [now apply all_vals_complete|exact E].
Qed.
Print Assumptions card_bf_spec.

(* ---- the diagram of a total valuation ---- *)
From BddVerif Require Import Proofs.Canon Proofs.PvalSem Proofs.NormalForms.

(* Bdd::from(valuation) is the conjunctive clause of the valuation's partial valuation, and it is satisfied by
   exactly that valuation *)
Theorem of_valuation_via_pv v :
  mk_conjunctive_clause (N.of_nat (length v)) (pv_of_valuation v) = Ok (of_valuation v).
Proof.
  unfold mk_conjunctive_clause, pv_of_valuation, of_valuation.
  assert (Hr : cells_in_range (N.of_nat (length v)) (map Some v) = true) by (apply cells_map_some_range; lia).
  now rewrite Hr.
Qed.

Theorem of_valuation_inverse v :
  Canonical (of_valuation v) /\ nvars (of_valuation v) = N.of_nat (length v) /\
  forall w, eval (of_valuation v) w = true <-> forall x, x < N.of_nat (length v) -> w x = val_of_list v x.
Proof.
  destruct (of_valuation_correct v) as (_ & Nv & _ & C). split; [exact C|]. split; [exact Nv|].
  intros w. apply of_valuation_correct_N.
Qed.
Print Assumptions of_valuation_inverse.
