(* Proofs/Restrict.v — the order-faithful single-pass restriction of Model/Restrict.v:
   store/cache/memo invariant (rnode_post), semantics, canonicity of the result for every well-formed operand
   (reducedness from collapse + hash-consing, layout by lock-step with the structural checker chk exactly as
   ApplySem.process_chk does for the apply engine), and equality with the compositional model Ops.restrict. *)
From Coq Require Import List NArith Lia Bool.
Import ListNotations.
From BddVerif Require Import Model.Bdd Model.Apply Model.Ops Model.Restrict
  Proofs.Sem Proofs.Canon Proofs.ApplySem Proofs.ApplyTop Proofs.RelSem Proofs.PvalSem.
Open Scope N_scope.

Ltac rsplits := repeat match goal with |- _ /\ _ => split end.

(* the valuation seen by the operand: fixed cells override v *)
Definition pv_over (pv : pval) (v : val) : val :=
  fun y => match pv_get pv y with Some c => c | None => v y end.

Lemma pv_over_override pv v y : pv_over pv v y = override v (pv_cells pv) y.
Proof. unfold pv_over. now rewrite override_pv. Qed.

(* ======================================================================================== *)
(* Result stores: terminals carry nv; every decision node is ordered, reduced, children before parents *)
Section Store.
  Variable nv : N.

  Definition rnode_ok (G : list node) (p : N) : Prop :=
    let n := get G p in
    nvar n < nv /\ nlow n < p /\ nhigh n < p /\
    nvar n < var_of G (nlow n) /\ nvar n < var_of G (nhigh n) /\ nlow n <> nhigh n.
  Definition rstore_ok (G : list node) : Prop :=
    2 <= size G /\ get G 0 = mkNode nv 0 0 /\ get G 1 = mkNode nv 1 1 /\
    forall p, 2 <= p -> p < size G -> rnode_ok G p.

  Lemma rstore_nvars G : rstore_ok G -> nvars G = nv.
  Proof. intros (_ & H0 & _). unfold nvars. now rewrite H0. Qed.

  Lemma rstore_wf G : rstore_ok G -> wf G.
  Proof.
    intros H. pose proof (rstore_nvars G H) as Hn. destruct H as (Hs & H0 & H1 & Hp).
    unfold wf. rewrite Hn. rsplits; try assumption; try lia.
    - intros _. exact H1.
    - intros p Hp2 Hlt. destruct (Hp p Hp2 Hlt) as (a & c & d & e & f & _).
      unfold wf_node. rsplits; try assumption; lia.
  Qed.

  Lemma rsize_app (G l : list node) : size (G ++ l) = size G + size l.
  Proof. unfold size. rewrite app_length. lia. Qed.

  Lemma rstore_sem_ext G l : rstore_ok G -> rstore_ok (G ++ l) ->
    forall p, p < size G -> forall v, sem (G ++ l) p v = sem G p v.
  Proof.
    intros HG HG' p Hp v. symmetry.
    pose proof (rstore_wf _ HG) as WG. pose proof (rstore_wf _ HG') as WG'.
    pose proof HG as (Hs & _ & _ & Hn).
    apply (prefix_sem G (G ++ l) (size G) WG WG') with (k := S (N.to_nat (nvars G - var_of G p))); try lia.
    - now rewrite (rstore_nvars _ HG), (rstore_nvars _ HG').
    - rewrite rsize_app. lia.
    - intros i Hi. symmetry. now apply get_app_lt.
    - intros i Hi2 Hi. destruct (Hn i Hi2 Hi) as (_ & a & c & _). lia.
  Qed.

  Lemma rstore_snoc G d x y : rstore_ok G -> d < nv -> x < size G -> y < size G ->
    d < var_of G x -> d < var_of G y -> x <> y -> rstore_ok (G ++ [mkNode d x y]).
  Proof.
    intros (Hs2 & H0 & H1 & Hn) Hd Hx Hy Hvx Hvy Hne. unfold rstore_ok. rewrite size_snoc. rsplits.
    - lia.
    - rewrite get_app_lt by lia. exact H0.
    - rewrite get_app_lt by lia. exact H1.
    - intros p Hp2 Hp. destruct (N.eq_dec p (size G)) as [->|Hnp].
      + unfold rnode_ok. rewrite get_app_at. cbn [nvar nlow nhigh]. unfold var_of in *.
        rewrite !get_app_lt by assumption. rsplits; assumption.
      + assert (Hp' : p < size G) by lia. destruct (Hn p Hp2 Hp') as (a & c & e & f & g & h).
        unfold rnode_ok. rewrite get_app_lt by assumption. unfold var_of in *.
        rewrite !get_app_lt by lia. rsplits; assumption.
  Qed.

  Lemma rstore_term_var G p : rstore_ok G -> p < 2 -> nvar (get G p) = nv.
  Proof. intros (_ & H0 & H1 & _) Hp. assert (p = 0 \/ p = 1) as [->| ->] by lia; [rewrite H0|rewrite H1]; reflexivity. Qed.
End Store.

Lemma mfind_cons k p q m : mfind k ((p, q) :: m) = if k =? p then Some q else mfind k m.
Proof. reflexivity. Qed.

Lemma rchk_visited k G lim p : p < lim -> chk (S k) G lim p = Some lim.
Proof. intros H. cbn [chk]. destruct (N.ltb_spec p lim); [reflexivity|lia]. Qed.

(* ======================================================================================== *)
Section Restriction.
  Variables (b : bdd) (pv : pval).
  Hypothesis W : wf b.
  Local Notation nv := (nvars b).
  Local Notation rnode := (Restrict.rnode b pv).
  Local Notation rho := (pv_over pv).

  (* new pointer q (in store G) correctly stands for old pointer p *)
  Definition rgood (G : list node) (p q : N) : Prop :=
    q < size G /\ var_of b p <= var_of G q /\ forall v, sem G q v = sem b p (rho v).

  Definition RInv (s : rst) : Prop :=
    rstore_ok nv (rnodes s) /\
    (forall n p, nfind n (rcache s) = Some p -> p < size (rnodes s) /\ get (rnodes s) p = n) /\
    (forall p, 2 <= p -> p < size (rnodes s) -> nfind (get (rnodes s) p) (rcache s) = Some p) /\
    (forall p, p < 2 -> mfind p (rmemo s) = Some p) /\
    (forall p q, mfind p (rmemo s) = Some q -> rgood (rnodes s) p q).

  Definition rext (s s' : rst) : Prop := exists l, rnodes s' = rnodes s ++ l.
  Lemma rext_refl s : rext s s. Proof. exists []. now rewrite app_nil_r. Qed.
  Lemma rext_trans a c d : rext a c -> rext c d -> rext a d.
  Proof. intros (l & H) (l' & H'). exists (l ++ l'). rewrite H', H, app_assoc. reflexivity. Qed.
  Lemma rext_size s s' : rext s s' -> size (rnodes s) <= size (rnodes s').
  Proof. intros (l & E). rewrite E, rsize_app. lia. Qed.

  Lemma rgood_ext G l p q : rstore_ok nv G -> rstore_ok nv (G ++ l) -> rgood G p q -> rgood (G ++ l) p q.
  Proof.
    intros HG HG' (Hq & Hl & Hs). unfold rgood. rsplits.
    - rewrite rsize_app. lia.
    - unfold var_of. rewrite get_app_lt by assumption. exact Hl.
    - intros v. rewrite (rstore_sem_ext nv) by assumption. apply Hs.
  Qed.

  Lemma rgood_ext' s s' p q : RInv s -> RInv s' -> rext s s' -> rgood (rnodes s) p q -> rgood (rnodes s') p q.
  Proof. intros (H & _) (H' & _) (l & E) Hg. rewrite E in *. now apply rgood_ext. Qed.

  Lemma RInv_rset s p q : RInv s -> 2 <= p -> rgood (rnodes s) p q -> RInv (rset s p q).
  Proof.
    intros (H1 & H2 & H3 & H4 & H5) Hp Hg. unfold RInv, rset; cbn [rnodes rcache rmemo]. rsplits; try assumption.
    - intros p' Hp'. rewrite mfind_cons. destruct (N.eqb_spec p' p); [lia|]. now apply H4.
    - intros p' q'. rewrite mfind_cons. destruct (N.eqb_spec p' p) as [->|NE].
      + intros E; inversion E; subst; exact Hg.
      + apply H5.
  Qed.

  (* collapse / hash-cons / push *)
  Definition rmk_cases (s : rst) (d x y q : N) (s' : rst) : Prop :=
    (q = y /\ x = y /\ s' = s) \/
    (x <> y /\ 2 <= q /\ s' = s /\ x < q /\ y < q /\ q < size (rnodes s)) \/
    (x <> y /\ q = size (rnodes s) /\ rnodes s' = rnodes s ++ [mkNode d x y]).

  Lemma rmk_ok s d x y :
    RInv s -> d < nv -> x < size (rnodes s) -> y < size (rnodes s) ->
    d < var_of (rnodes s) x -> d < var_of (rnodes s) y ->
    exists q s', rmk s d x y = (q, s') /\ RInv s' /\ rext s s' /\ rmemo s' = rmemo s /\
      q < size (rnodes s') /\ d <= var_of (rnodes s') q /\
      (forall v, sem (rnodes s') q v = if v d then sem (rnodes s) y v else sem (rnodes s) x v) /\
      rmk_cases s d x y q s'.
  Proof.
    intros HI Hd Hx Hy Hvx Hvy. unfold rmk.
    destruct (N.eqb_spec y x) as [->|NE].
    - exists x, s. rsplits; auto using rext_refl; try lia.
      + intros v; destruct (v d); reflexivity.
      + left; auto.
    - pose proof HI as (HS & Ha & Hb & Hm0 & Hm).
      destruct (nfind (mkNode d x y) (rcache s)) as [p|] eqn:En.
      + destruct (Ha _ _ En) as (Hp & Hg).
        assert (Hp2 : 2 <= p).
        { destruct (N.ltb_spec p 2) as [Hlt|]; [|assumption].
          pose proof (rstore_term_var nv _ p HS Hlt) as Ht. rewrite Hg in Ht. cbn in Ht. lia. }
        exists p, s. rsplits; auto using rext_refl.
        * unfold var_of. rewrite Hg. cbn. lia.
        * intros v. rewrite (sem_unfold _ p v (rstore_wf nv _ HS) Hp2 Hp). unfold var_of. rewrite Hg.
          cbn [nvar nlow nhigh]. destruct (v d); reflexivity.
        * right; left. destruct HS as (_ & _ & _ & Hn). destruct (Hn p Hp2 Hp) as (_ & c & e & _).
          rewrite Hg in c, e. cbn in c, e. rsplits; auto.
      + set (G := rnodes s) in *. set (n := mkNode d x y) in *.
        assert (HS' : rstore_ok nv (G ++ [n])) by (apply rstore_snoc; auto).
        exists (size G), (mkR (G ++ [n]) ((n, size G) :: rcache s) (rmemo s)).
        unfold rpush. fold G. cbn [rnodes rcache rmemo].
        pose proof HS as (Hs2 & _).
        rsplits.
        * reflexivity.
        * unfold RInv. cbn [rnodes rcache rmemo]. rsplits.
          -- exact HS'.
          -- intros n' q. cbn [nfind]. destruct (node_eqb_spec n' n) as [->|Hne].
             ++ intros E; inversion E; subst. rewrite size_snoc, get_app_at. split; [lia|reflexivity].
             ++ intros E. destruct (Ha _ _ E) as (Hq & Hgq). rewrite size_snoc, get_app_lt by assumption.
                split; [lia|assumption].
          -- intros q Hq2 Hq. rewrite size_snoc in Hq. cbn [nfind].
             destruct (N.eq_dec q (size G)) as [->|Hne].
             ++ rewrite get_app_at. destruct (node_eqb_spec n n); [reflexivity|congruence].
             ++ assert (Hq' : q < size G) by lia. rewrite get_app_lt by assumption.
                destruct (node_eqb_spec (get G q) n) as [E|_].
                ** rewrite <- E in En. rewrite (Hb q Hq2 Hq') in En. discriminate.
                ** apply Hb; assumption.
          -- exact Hm0.
          -- intros p q Hpq. apply rgood_ext; auto.
        * exists [n]. reflexivity.
        * reflexivity.
        * rewrite size_snoc. lia.
        * unfold var_of. rewrite get_app_at. cbn. lia.
        * intros v. assert (Hlt : size G < size (G ++ [n])) by (rewrite size_snoc; lia).
          rewrite (sem_unfold _ (size G) v (rstore_wf nv _ HS') Hs2 Hlt).
          unfold var_of. rewrite get_app_at. cbn [nvar nlow nhigh n].
          destruct (v d); apply (rstore_sem_ext nv); assumption.
        * right; right. auto.
  Qed.

  (* what one call of rnode delivers: invariant, store extension, the memo equation for p,
     "nothing created or the result is the last node", and the lock-step with chk *)
  Definition rnode_post (p : N) (s : rst) (q : N) (s' : rst) : Prop :=
    RInv s' /\ rext s s' /\ rgood (rnodes s') p q /\
    (size (rnodes s') = size (rnodes s) \/ q + 1 = size (rnodes s')) /\
    (forall G k, (exists l, G = rnodes s' ++ l) -> (N.to_nat (nv - var_of b p) < k)%nat ->
       chk k G (size (rnodes s)) q = Some (size (rnodes s'))).

  Lemma rnode_ok_all : forall fuel p s, RInv s -> valid b p -> (N.to_nat (nv - var_of b p) < fuel)%nat ->
    exists q s', rnode fuel p s = Some (q, s') /\ rnode_post p s q s'.
  Proof.
    induction fuel as [|f IH]; intros p s HI Vp Hfuel; [lia|].
    cbn [Restrict.rnode].
    pose proof HI as (HS & Ha & Hb & Hm0 & Hm). pose proof HS as (Hs2 & _).
    destruct (mfind p (rmemo s)) as [q|] eqn:Em.
    - (* new_id[p] already known *)
      exists q, s. split; [reflexivity|]. pose proof (Hm _ _ Em) as Hg.
      unfold rnode_post. rsplits; auto using rext_refl.
      intros G k _ Hk. destruct k as [|k]; [lia|]. apply rchk_visited. apply Hg.
    - assert (Hp2 : 2 <= p).
      { destruct (N.ltb_spec p 2) as [Hlt|]; [|assumption]. rewrite (Hm0 p Hlt) in Em. discriminate. }
      destruct Vp as (Vp & _).
      destruct (wf_children b p W Hp2 Vp) as (Vl & Vh & Hl & Hh & Hn).
      change (nvar (get b p)) with (var_of b p). set (d := var_of b p) in *.
      destruct (pv_get pv d) as [c|] eqn:Epv.
      + (* restricted variable: follow only the selected child *)
        set (ch := if c then nhigh (get b p) else nlow (get b p)).
        assert (Vc : valid b ch) by (subst ch; destruct c; assumption).
        assert (Hc : d < var_of b ch) by (subst ch; destruct c; assumption).
        destruct (IH ch s HI Vc ltac:(lia)) as (q & s1 & -> & HI1 & X1 & G1 & F1 & C1).
        exists q, (rset s1 p q). split; [reflexivity|].
        assert (Gp : rgood (rnodes s1) p q).
        { destruct G1 as (Gq & Gv & Gs). unfold rgood. rsplits; [assumption|fold d; lia|].
          intros v. rewrite Gs. rewrite (sem_unfold b p (rho v) W Hp2 Vp). fold d.
          unfold pv_over at 2. rewrite Epv. reflexivity. }
        unfold rnode_post. cbn [rnodes rset]. rsplits; try assumption.
        * now apply RInv_rset.
        * intros G k HG Hk. apply C1; [assumption|lia].
      + (* unrestricted: high child, then low child, then collapse / hash-cons / push *)
        destruct (IH (nhigh (get b p)) s HI Vh ltac:(lia)) as (qh & s1 & -> & HI1 & X1 & G1 & F1 & C1).
        destruct (IH (nlow (get b p)) s1 HI1 Vl ltac:(lia)) as (ql & s2 & -> & HI2 & X2 & G2 & F2 & C2).
        pose proof (rgood_ext' s1 s2 _ _ HI1 HI2 X2 G1) as G1'.
        destruct G1' as (Ph & Vh' & Sh). destruct G2 as (Pl & Vl' & Sl).
        destruct (rmk_ok s2 d ql qh HI2 Hn Pl Ph ltac:(lia) ltac:(lia))
          as (q & s3 & -> & HI3 & X3 & M3 & Pq & Vq & Sq & MK).
        exists q, (rset s3 p q). split; [reflexivity|].
        assert (Gp : rgood (rnodes s3) p q).
        { unfold rgood. rsplits; [assumption|fold d; assumption|].
          intros v. rewrite Sq, Sh, Sl. rewrite (sem_unfold b p (rho v) W Hp2 Vp). fold d.
          unfold pv_over at 3. rewrite Epv. destruct (v d); reflexivity. }
        pose proof (rext_size _ _ X1) as L1. pose proof (rext_size _ _ X2) as L2.
        assert (P1 : qh < size (rnodes s1)) by apply G1.
        unfold rnode_post. cbn [rnodes rset]. rsplits.
        * now apply RInv_rset.
        * eapply rext_trans; [exact X1|]. eapply rext_trans; [exact X2|exact X3].
        * exact Gp.
        * destruct MK as [(-> & E12 & ->)|[(NExy & Q2 & -> & Xq & Yq & Qs)|(NExy & -> & Nd)]].
          -- subst ql. lia.
          -- left. lia.
          -- right. rewrite Nd, size_snoc. reflexivity.
        * intros G k HG Hk. destruct k as [|k]; [lia|].
          destruct MK as [(-> & E12 & ->)|[(NExy & Q2 & -> & Xq & Yq & Qs)|(NExy & -> & Nd)]].
          -- (* collapse: both links equal; the low call created nothing *)
             subst ql.
             assert (Hs : size (rnodes s2) = size (rnodes s1)).
             { specialize (C2 G (S k) HG ltac:(lia)). rewrite rchk_visited in C2 by assumption. inversion C2. lia. }
             rewrite Hs. apply C1; [|lia]. destruct X2 as (l2 & E2), HG as (l & EG). exists (l2 ++ l).
             rewrite EG, E2, app_assoc. reflexivity.
          -- (* hash-cons hit: nothing new was created below p *)
             assert (Hs : size (rnodes s2) = size (rnodes s)) by lia.
             rewrite Hs. apply rchk_visited. lia.
          -- (* fresh node at index size s2: the defining equation of chk *)
             assert (HG2 : exists l, G = rnodes s2 ++ l).
             { destruct HG as (l & EG). rewrite Nd in EG. exists ([mkNode d ql qh] ++ l). rewrite EG, app_assoc. reflexivity. }
             assert (HG1 : exists l, G = rnodes s1 ++ l).
             { destruct X2 as (l2 & E2), HG2 as (l & EG). exists (l2 ++ l). rewrite EG, E2, app_assoc. reflexivity. }
             assert (Hget : get G (size (rnodes s2)) = mkNode d ql qh).
             { destruct HG as (l & EG). rewrite EG, Nd. rewrite get_app_lt by (rewrite size_snoc; lia). apply get_app_at. }
             cbn [chk]. destruct (N.ltb_spec (size (rnodes s2)) (size (rnodes s))); [lia|].
             rewrite Hget. cbn [nhigh nlow].
             rewrite (C1 G k HG1 ltac:(lia)). rewrite (C2 G k HG2 ltac:(lia)).
             rewrite N.eqb_refl. f_equal. rewrite Nd, size_snoc. reflexivity.
  Qed.

  Lemma RInv_reduced s : RInv s -> reduced (rnodes s).
  Proof.
    intros (HS & Ha & Hb & _). destruct HS as (_ & _ & _ & Hn). split.
    - intros p Hp Hlt. destruct (Hn p Hp Hlt) as (_ & _ & _ & _ & _ & H). exact H.
    - intros p q Hp Hpl Hq Hql E.
      pose proof (Hb p Hp Hpl) as E1. pose proof (Hb q Hq Hql) as E2. rewrite E in E1. congruence.
  Qed.

  Lemma RInv_rs0 : 2 <= size b -> RInv (rs0 b).
  Proof.
    intros Hsz. pose proof W as (_ & W0 & W1 & _). specialize (W1 Hsz).
    unfold RInv, rs0, mk_true; cbn [rnodes rcache rmemo]. rsplits.
    - unfold rstore_ok. rsplits; try reflexivity; try (cbn; lia). all: intros p H1 H2; cbn in H2; lia.
    - intros n p. cbn [nfind]. fold (rzero b) (rone b). destruct (node_eqb_spec n (rzero b)) as [->|_].
      + intros E; inversion E; subst. split; [cbn; lia|reflexivity].
      + destruct (node_eqb_spec n (rone b)) as [->|_]; [|discriminate].
        intros E; inversion E; subst. split; [cbn; lia|reflexivity].
    - intros p H1 H2. cbn in H2. lia.
    - intros p Hp. assert (p = 0 \/ p = 1) as [->| ->] by lia; reflexivity.
    - intros p q. rewrite !mfind_cons. cbn [mfind].
      destruct (N.eqb_spec p 0) as [->|]; [|destruct (N.eqb_spec p 1) as [->|]; [|discriminate]];
        intros E; inversion E; subst q; unfold rgood; rsplits; try (cbn; lia); try reflexivity.
      unfold var_of. rewrite W1. change (nv <= nv). lia.
  Qed.

  Lemma rcanonical_false : Canonical (mk_false nv) /\ nvars (mk_false nv) = nv.
  Proof.
    split; [|reflexivity]. unfold Canonical. rsplits.
    - unfold wf. cbn. rsplits; try reflexivity; try lia.
    - split; intros p; cbn; intros; lia.
    - left. reflexivity.
  Qed.

  Theorem restriction_full_section : exists r, restriction b pv = Some r /\ Canonical r /\ nvars r = nv /\
      forall v, eval r v = eval b (rho v).
  Proof.
    unfold restriction.
    destruct (is_true b || is_false b) eqn:Cst.
    - exists b. split; [reflexivity|]. split; [now apply wf_const_canonical|]. split; [reflexivity|].
      intros v. now apply eval_const.
    - assert (Hsz : 3 <= size b).
      { pose proof (size_pos b W). unfold is_true, is_false in Cst. apply orb_false_iff in Cst.
        destruct Cst as (C2 & C1). apply N.eqb_neq in C1, C2. lia. }
      assert (Vr : valid b (size b - 1)) by (split; intros; lia).
      pose proof (var_of_le b _ W Vr) as Hle.
      destruct (rnode_ok_all (S (N.to_nat nv)) (size b - 1) (rs0 b) (RInv_rs0 ltac:(lia)) Vr ltac:(lia))
        as (q & s' & E & HI' & X & (Pq & _ & Sq) & F & C).
      rewrite E.
      change (size (rnodes (rs0 b))) with 2 in *.
      destruct (N.eqb_spec q 0) as [->|Hq].
      + exists (mk_false nv). split; [reflexivity|]. destruct rcanonical_false as (K & N0).
        split; [exact K|]. split; [exact N0|].
        intros v. unfold eval at 2. rewrite <- Sq. reflexivity.
      + exists (rnodes s'). split; [reflexivity|].
        pose proof (proj1 HI') as HS'. pose proof (rstore_nvars _ _ HS') as Hnv'. pose proof HS' as (Hs2' & _).
        assert (Hroot : size (rnodes s') - 1 = q) by lia.
        rsplits.
        * unfold Canonical. rsplits; [exact (rstore_wf _ _ HS')|exact (RInv_reduced _ HI')|].
          right. rewrite Hnv', Hroot. apply C; [|lia]. exists []. now rewrite app_nil_r.
        * exact Hnv'.
        * intros v. unfold eval. rewrite Hroot. apply Sq.
  Qed.
End Restriction.

(* ======================================================================================== *)
(* Public statements                                                                         *)

(* totality, canonicity (for every WELL-FORMED operand, canonical or not), semantics *)
Theorem restriction_full b pv : wf b ->
  exists r, restriction b pv = Some r /\ Canonical r /\ nvars r = nvars b /\
    forall v, eval r v = eval b (fun y => match pv_get pv y with Some c => c | None => v y end).
Proof. intros W. exact (restriction_full_section b pv W). Qed.
Print Assumptions restriction_full.

(* the requested reading: cells of the valuation, restricted to the variables of the operand, override v *)
Theorem restriction_sem b pv : wf b ->
  exists r, restriction b pv = Some r /\ wf r /\ nvars r = nvars b /\
    forall v, eval r v = eval b (override v (filter (fun xc => fst xc <? nvars b) (pv_cells pv))).
Proof.
  intros W. destruct (restriction_full b pv W) as (r & E & K & N & S).
  exists r. split; [exact E|]. split; [apply K|]. split; [exact N|].
  intros v. rewrite S. apply eval_agree_lt; [assumption|]. intros x Hx.
  rewrite override_filter_lt by assumption. symmetry. apply override_pv.
Qed.
Print Assumptions restriction_sem.

(* cells beyond the operand's variables are irrelevant: same statement without the filter *)
Theorem restriction_sem_all b pv : wf b ->
  exists r, restriction b pv = Some r /\ wf r /\ nvars r = nvars b /\
    forall v, eval r v = eval b (override v (pv_cells pv)).
Proof.
  intros W. destruct (restriction_full b pv W) as (r & E & K & N & S).
  exists r. split; [exact E|]. split; [apply K|]. split; [exact N|].
  intros v. rewrite S. apply eval_ext. intros y. symmetry. apply override_pv.
Qed.
Print Assumptions restriction_sem_all.

(* canonicity needs only a well-formed operand: the node cache dedups, collapse removes redundant tests,
   unreachable nodes of the operand are never visited, and the layout is the lock-step with chk *)
Theorem restriction_canonical_wf b pv r : wf b -> restriction b pv = Some r -> Canonical r.
Proof.
  intros W E. destruct (restriction_full b pv W) as (r' & E' & K & _). rewrite E in E'. inversion E'; subst. exact K.
Qed.
Print Assumptions restriction_canonical_wf.

Theorem restriction_canonical b pv r : Canonical b -> restriction b pv = Some r -> Canonical r.
Proof. intros (W & _). now apply restriction_canonical_wf. Qed.
Print Assumptions restriction_canonical.

(* the faithful algorithm returns exactly the array of the compositional model (even for merely wf operands) *)
Theorem restriction_eq_model_wf b lits : wf b ->
  restriction b (pv_from_values lits) = match restrict b lits with Ok r => Some r | _ => None end.
Proof.
  intros W.
  destruct (restrict_correct b lits W) as (r' & E' & K' & N' & S').
  destruct (restriction_full b (pv_from_values lits) W) as (r & E & K & N & S).
  rewrite E, E'. f_equal. apply canonical_unique; try assumption; [congruence|].
  intros v. rewrite S, S'. apply eval_ext. intros y. symmetry. apply override_pv.
Qed.
Print Assumptions restriction_eq_model_wf.

Theorem restriction_eq_model b lits : Canonical b ->
  restriction b (pv_from_values lits) = match restrict b lits with Ok r => Some r | _ => None end.
Proof. intros (W & _). now apply restriction_eq_model_wf. Qed.
Print Assumptions restriction_eq_model.

Corollary restrict_faithful_eq b lits : wf b -> restrict b lits = Ok (match restrict_faithful b lits with Some r => r | None => b end)
  /\ restrict_faithful b lits <> None.
Proof.
  intros W. unfold restrict_faithful. rewrite (restriction_eq_model_wf b lits W).
  destruct (restrict_correct b lits W) as (r' & E' & _). rewrite E'. split; [reflexivity|discriminate].
Qed.

Corollary var_restrict_faithful_correct b x c : wf b ->
  exists r, var_restrict_faithful b x c = Some r /\ var_restrict b x c = Ok r /\ Canonical r /\ nvars r = nvars b /\
    forall v, eval r v = eval b (upd v x c).
Proof.
  intros W. destruct (var_restrict_correct b x c W) as (r & E & K & N & S).
  exists r. unfold var_restrict_faithful, restrict_faithful. rewrite (restriction_eq_model_wf b [(x, c)] W).
  unfold var_restrict in E. rewrite E. unfold var_restrict. rewrite E. auto.
Qed.
Print Assumptions var_restrict_faithful_correct.

(* API level: every listed variable is replaced by its LAST listed value (same reading as C06_restrict) *)
Theorem restrict_faithful_last_value b lits : wf b ->
  exists r, restrict_faithful b lits = Some r /\ Canonical r /\ nvars r = nvars b /\
    forall v, eval r v = eval b (fun y => match last_value lits y with Some c => c | None => v y end).
Proof.
  intros W. unfold restrict_faithful.
  destruct (restriction_full b (pv_from_values lits) W) as (r & E & K & N & S).
  exists r. split; [exact E|]. split; [exact K|]. split; [exact N|].
  intros v. rewrite S. apply eval_ext. intros y. now rewrite pv_from_values_get.
Qed.
Print Assumptions restrict_faithful_last_value.

(* concrete instances: a canonical operand, a merely well-formed one (duplicate node), a restriction to false *)
Example restriction_example :
  let f := [mkNode 3 0 0; mkNode 3 1 1; mkNode 1 0 1; mkNode 0 2 1] in
  let n := [mkNode 3 0 0; mkNode 3 1 1; mkNode 1 0 1; mkNode 1 0 1; mkNode 0 2 3] in
  canonicalb f = true /\
  restrict_faithful f [(0, true); (0, false); (5, true)] = Some [mkNode 3 0 0; mkNode 3 1 1; mkNode 1 0 1] /\
  restrict_faithful f [(0, false); (1, false)] = Some [mkNode 3 0 0] /\
  wfb n = true /\ canonicalb n = false /\
  restrict_faithful n [(2, true)] = Some [mkNode 3 0 0; mkNode 3 1 1; mkNode 1 0 1].
Proof. vm_compute. repeat split; reflexivity. Qed.
