(* Proofs/GapsPick.v — Bdd::pick_random: for EVERY script of RNG outcomes (also an exhausted one: `next_bit []`
   reads true) the result has the relational meaning of `pick`: a sub-relation of b that keeps exactly one
   valuation of the listed variables for every valuation of the others (when b has any).
   Order of processing (Rust r_pick: `split_last`, recursion on the prefix BEFORE `var_pick_random(last, rng)`):
   the bits are consumed by the variables in ASCENDING order (the innermost call, the smallest variable, draws
   first). *)
From Coq Require Import List NArith Lia Bool Permutation.
Import ListNotations.
From BddVerif Require Import Model.Bdd Model.Apply Model.Ops Proofs.Sem Proofs.Canon Proofs.ApplySem Proofs.ApplyTop
  Proofs.RelSem Proofs.PickSem.
Open Scope N_scope.

(* one level of r_pick with an arbitrary preferred value c *)
Lemma pick_step_pref set x rest c ex picked vp r :
  wf set -> x < nvars set -> ~ In x rest ->
  Canonical ex -> nvars ex = nvars set -> (forall v, eval ex v = eval set v || eval set (flipv v x)) ->
  pick_ok rest ex picked ->
  Canonical vp -> nvars vp = nvars set ->
  (forall v, eval vp v = eval set v && negb (negb (Bool.eqb (v x) c) && eval set (upd v x c))) ->
  Canonical r -> nvars r = nvars picked -> (forall v, eval r v = eval picked v && eval vp v) ->
  pick_ok (x :: rest) set r.
Proof.
  intros W Hx Hnotin Kex Nex Sex [PW PC PN PS PE PU PI] Kvp Nvp Svp Kr Nr Sr.
  assert (Iex : indep (eval ex) x).
  { intros v d. rewrite !Sex.
    destruct (Bool.bool_dec (v x) d) as [Hc|Hc].
    - f_equal; apply eval_ext; intros y; [now apply upd_id|].
      unfold flipv. rewrite upd_same, upd_upd_same, Hc. reflexivity.
    - rewrite orb_comm. f_equal; apply eval_ext; intros y.
      + unfold flipv. rewrite upd_same, upd_upd_same.
        replace (negb d) with (v x) by (destruct (v x), d; cbn; congruence). now apply upd_id.
      + symmetry. now apply flipv_upd_ne. }
  assert (Ipk : indep (eval picked) x) by (apply PI; assumption).
  assert (Eqcc : forall d, Bool.eqb d d = true) by (intros []; reflexivity).
  assert (Eqnc : forall d, Bool.eqb (negb d) d = false) by (intros []; reflexivity).
  constructor.
  - apply Kr.
  - intros _. exact Kr.
  - congruence.
  - intros v Hv. rewrite Sr, Svp in Hv. apply andb_true_iff in Hv. destruct Hv as (_ & Hv).
    apply andb_true_iff in Hv. apply Hv.
  - (* existence *)
    intros v Hv.
    assert (Hex : eval ex v = true) by (rewrite Sex, Hv; reflexivity).
    destruct (PE v Hex) as (w & Hag & Hpw).
    pose proof (PS w Hpw) as Hexw. rewrite Sex in Hexw.
    assert (Hcof : eval set (upd w x c) = true \/
                   (eval set (upd w x c) = false /\ eval set (upd w x (negb c)) = true)).
    { rewrite eval_or_flip_cof in Hexw.
      destruct (eval set (upd w x c)) eqn:Q; [now left|right; split; [reflexivity|]].
      destruct c; cbn [negb]; rewrite Q in Hexw; [rewrite orb_false_r in Hexw|]; exact Hexw. }
    destruct Hcof as [H0|(H0 & H1)].
    + exists (upd w x c). split.
      * intros y Hy. rewrite upd_other by (intros ->; apply Hy; now left).
        apply Hag. intros Hin. apply Hy. now right.
      * rewrite Sr, Svp, Ipk, Hpw, H0, upd_same, Eqcc. reflexivity.
    + exists (upd w x (negb c)). split.
      * intros y Hy. rewrite upd_other by (intros ->; apply Hy; now left).
        apply Hag. intros Hin. apply Hy. now right.
      * rewrite Sr, Svp, Ipk, Hpw, H1, upd_same, Eqnc.
        replace (eval set (upd (upd w x (negb c)) x c)) with (eval set (upd w x c))
          by (apply eval_ext; intros y; symmetry; apply upd_upd_same).
        rewrite H0. reflexivity.
  - (* uniqueness *)
    intros w1 w2 Hag H1 H2.
    rewrite Sr, Svp in H1, H2.
    apply andb_true_iff in H1. destruct H1 as (P1 & H1). apply andb_true_iff in H1. destruct H1 as (S1 & N1).
    apply andb_true_iff in H2. destruct H2 as (P2 & H2). apply andb_true_iff in H2. destruct H2 as (S2 & N2).
    assert (Hrest : forall y, y <> x -> w1 y = w2 y).
    { intros y Hy.
      assert (P1' : eval picked (upd w1 x (w2 x)) = true) by (rewrite Ipk; exact P1).
      rewrite <- (PU (upd w1 x (w2 x)) w2) with (y := y); try assumption.
      - now rewrite upd_other.
      - intros y' Hy'. destruct (N.eq_dec y' x) as [->|Hne]; [apply upd_same|].
        rewrite upd_other by assumption. apply Hag. intros [Hin|Hin]; [congruence|contradiction]. }
    intros y. destruct (N.eq_dec y x) as [->|Hne]; [|now apply Hrest].
    destruct (Bool.bool_dec (w1 x) (w2 x)) as [E|NE]; [exact E|exfalso].
    destruct (Bool.bool_dec (w2 x) c) as [B|B].
    + (* w2 x = c, w1 x = negb c: w1[x:=c] = w2 is in set *)
      assert (A : w1 x = negb c) by (destruct (w1 x), (w2 x), c; cbn in *; congruence).
      rewrite A, Eqnc in N1. cbn [negb andb] in N1. apply negb_true_iff in N1.
      assert (Q : eval set (upd w1 x c) = eval set w2); [|congruence].
      apply eval_ext. intros y. unfold upd.
      destruct (N.eqb_spec y x) as [->|Hy]; [congruence|now apply Hrest].
    + assert (B' : w2 x = negb c) by (destruct (w2 x), c; cbn in *; congruence).
      assert (A : w1 x = c) by (destruct (w1 x), (w2 x), c; cbn in *; congruence).
      rewrite B', Eqnc in N2. cbn [negb andb] in N2. apply negb_true_iff in N2.
      assert (Q : eval set (upd w2 x c) = eval set w1); [|congruence].
      apply eval_ext. intros y. unfold upd.
      destruct (N.eqb_spec y x) as [->|Hy]; [congruence|symmetry; now apply Hrest].
  - (* independence is preserved *)
    intros z Hz Iz v d.
    assert (Hzx : x <> z) by (intros ->; apply Hz; now left).
    assert (Hzr : ~ In z rest) by (intros H; apply Hz; now right).
    assert (Iexz : indep (eval ex) z).
    { intros v' c'. rewrite !Sex, Iz. f_equal.
      rewrite <- (Iz (flipv v' x) c'). apply eval_ext. intros y. now apply flipv_upd_comm. }
    rewrite !Sr, !Svp, (PI z Hzr Iexz), Iz. rewrite upd_other by congruence.
    f_equal. f_equal. f_equal. f_equal.
    rewrite <- (Iz (upd v x c) d). apply eval_ext. intros y. apply upd_comm. congruence.
Qed.

(* the invariant of r_pick_random, for every script; the script that is left over is a suffix obtained by
   dropping one bit per variable (dropping from an empty script leaves it empty) *)
Lemma r_pick_random_ok rvars : forall set script, wf set -> NoDup rvars -> Forall (fun x => x < nvars set) rvars ->
  exists r, r_pick_random rvars set script = (Ok r, skipn (length rvars) script) /\ pick_ok rvars set r.
Proof.
  induction rvars as [|x rest IH]; intros set script W ND HF.
  - exists set. split; [reflexivity|]. constructor.
    + exact W.
    + intros [H|H]; [congruence|exact H].
    + reflexivity.
    + auto.
    + intros v Hv. exists v. split; [intros y _; reflexivity|exact Hv].
    + intros w1 w2 H _ _ y. apply H. intros [].
    + intros z _ H. exact H.
  - inversion ND as [|? ? Hnotin ND']; subst. inversion HF as [|? ? Hx HF']; subst.
    cbn [r_pick_random].
    destruct (var_exists_correct set x W Hx) as (ex & Eex & Kex & Nex & Sex). rewrite Eex.
    destruct (IH ex script (canonical_wf _ Kex) ND') as (picked & Ep & PK).
    { rewrite Nex. exact HF'. }
    rewrite Ep.
    destruct (var_pick_random_correct set x (skipn (length rest) script) W Hx) as (vp & Evp & Kvp & Nvp & Svp).
    rewrite Evp. cbn [bind].
    assert (Kp : Canonical picked) by (apply (pk_canon _ _ _ PK); now right).
    destruct (bdd_and_correct picked vp (pk_wf _ _ _ PK) (canonical_wf _ Kvp)
                ltac:(rewrite (pk_nv _ _ _ PK); congruence)) as (r & Er & Kr & Nr & Sr).
    exists r. split.
    + rewrite Er. f_equal.
      unfold next_bit. cbn [length]. generalize (length rest) as n. intros n.
      replace (skipn (S n) script) with (skipn 1 (skipn n script)).
      * destruct (skipn n script); reflexivity.
      * clear. revert script. induction n as [|n IHn]; intros [|c s]; try reflexivity.
        cbn [skipn] in *. apply IHn.
    + apply (pick_step_pref set x rest (fst (next_bit (skipn (length rest) script))) ex picked vp r);
        assumption.
Qed.

Theorem pick_random_correct b vars script : wf b -> NoDup vars -> Forall (fun x => x < nvars b) vars ->
  exists r, pick_random b vars script = Ok r /\ wf r /\ (vars <> [] \/ Canonical b -> Canonical r) /\ nvars r = nvars b /\
    (forall v, eval r v = true -> eval b v = true) /\
    (forall v, eval b v = true -> exists w, agree_outside vars w v /\ eval r w = true) /\
    (forall v w1 w2, agree_outside vars w1 v -> agree_outside vars w2 v ->
       eval r w1 = true -> eval r w2 = true -> forall y, In y vars -> w1 y = w2 y).
Proof.
  intros W ND HF. unfold pick_random.
  pose proof (rev_sort_perm vars) as P.
  assert (Hin : forall y, In y (rev (sort_vars vars)) <-> In y vars).
  { intros y. split; [apply Permutation_in; now apply Permutation_sym|now apply Permutation_in]. }
  destruct (r_pick_random_ok (rev (sort_vars vars)) b script W) as (r & E & [PW PC PN PS PE PU PI]).
  { eapply Permutation_NoDup; eassumption. }
  { apply Forall_forall. intros y Hy. rewrite Forall_forall in HF. apply HF. now apply Hin. }
  exists r. rewrite E. split; [reflexivity|]. split; [exact PW|]. split; [|split; [exact PN|split; [exact PS|split]]].
  - intros [H|H]; apply PC; [left|now right].
    intros Hnil. apply H. apply Permutation_nil. rewrite <- Hnil. apply Permutation_sym. exact P.
  - intros v Hv. destruct (PE v Hv) as (w & Hag & Hw). exists w. split; [|exact Hw].
    intros y Hy. apply Hag. rewrite Hin. exact Hy.
  - intros v w1 w2 A1 A2 H1 H2 y _. apply PU; try assumption.
    intros y' Hy'. rewrite Hin in Hy'. rewrite (A1 y' Hy'), (A2 y' Hy'). reflexivity.
Qed.
Print Assumptions pick_random_correct.

(* the picked relation is functional *)
Corollary pick_random_functional b vars script : wf b -> NoDup vars -> Forall (fun x => x < nvars b) vars ->
  exists r, pick_random b vars script = Ok r /\
    forall w1 w2, (forall y, ~ In y vars -> w1 y = w2 y) -> eval r w1 = true -> eval r w2 = true ->
      forall y, w1 y = w2 y.
Proof.
  intros W ND HF. destruct (pick_random_correct b vars script W ND HF) as (r & E & _ & _ & _ & _ & _ & U).
  exists r. split; [exact E|]. intros w1 w2 A H1 H2 y.
  destruct (in_dec N.eq_dec y vars) as [Hy|Hy]; [|now apply A].
  apply (U w2 w1 w2); try assumption. intros y' _. reflexivity.
Qed.
Print Assumptions pick_random_functional.

(* concrete instances: b = x0 \/ x1 over 3 variables, picking over {x1,x0}.  The bits are consumed in ascending
   variable order (x0 draws first).  The script [false;false] reproduces pick; [true;true] and the exhausted
   script [] (reads true, true) keep x0=1,x1=1; a too short script [false] reads false, true. *)
Example pick_random_example :
  let b := [mkNode 3 0 0; mkNode 3 1 1; mkNode 1 0 1; mkNode 0 2 1] in
  wfb b = true /\
  pick_random b [1; 0] [false; false] = pick b [1; 0] /\
  pick_random b [1; 0] [false; false] = Ok [mkNode 3 0 0; mkNode 3 1 1; mkNode 1 0 1; mkNode 0 2 0] /\
  pick_random b [1; 0] [true; true] = Ok [mkNode 3 0 0; mkNode 3 1 1; mkNode 1 0 1; mkNode 0 0 2] /\
  pick_random b [1; 0] [] = pick_random b [1; 0] [true; true] /\
  pick_random b [1; 0] [false] = pick_random b [1; 0] [false; true] /\
  pick_random b [1; 0] [true; false] = Ok [mkNode 3 0 0; mkNode 3 1 1; mkNode 1 1 0; mkNode 0 0 2].
Proof. vm_compute. repeat split; reflexivity. Qed.
