(* Proofs/History.v — property C02, "canonical form through any history".

   A history is a list of operations (`hop`), each naming its Bdd operands by the index of an earlier
   result.  `run` executes a history with the functions of Model/Ops.v and Model/Apply.v and returns
   the list of all results (Panic / OutOfFuel propagate; an operand index that does not name an
   earlier result is a Panic).  `history_canonical`: every Bdd produced by a history that ran to
   completion is Canonical; `history_equal`: two results of a history over the same variable count
   that denote the same function are the same array.

   GUARDS ADDED BY `run` (conditions that are hypotheses of the per-operation theorems and are NOT
   checked by the model itself; `run` returns Panic when they fail):
     * HBin / HBinExists / HBinForAll / HNested: the operator table, carried as data (any function
       `op2`), must pass the decidable check `table_okb op` (= total2 op /\ consistent2 op, see
       table_okb_iff).  The six built-in tables and every `lazy_op f` pass (table_okb_builtin,
       table_okb_lazy).  The Rust library takes the table on trust.
     * HVarSelect i x c: x < nvars of the operand (the model builds the literal with the unchecked
       `mk_literal`, which is not a valid diagram for an out-of-range variable).
     * HSelect i lits: every listed variable < nvars of the operand (same reason, for
       `mk_partial_valuation`).
   Everything else needs NO extra guard: either the per-operation theorem has no side condition
   (not, exists, for_all, restrict, of_valuation, constants), or the model's own guards already
   return Panic when the side condition fails (variable counts and flip ranges of the binary /
   ternary entry points; literal, clause, dnf, cnf, threshold constructors; var_pick and pick with an
   out-of-range variable panic in the flip guard of their first apply — var_pick_oor, r_pick_oor).
   `pick` needs no NoDup guard for canonicity (r_pick_keeps); with an empty list it returns its
   operand, which is canonical because every earlier result is.  `substitute` returns its operand
   when the variable is not in the support (canonical for the same reason) and otherwise ends in a
   binary `or` (substitute_keeps needs neither x < nvars nor anything about g beyond validity). *)
From Coq Require Import List NArith Lia Bool.
Import ListNotations.
From BddVerif Require Import Model.Bdd Model.Apply Model.Ops Proofs.Sem Proofs.Canon Proofs.ApplySem Proofs.ApplyTop.
From BddVerif Require Proofs.Reflect Proofs.TernSem Proofs.NotSem Proofs.QuantSem Proofs.RelSem Proofs.PvalSem
  Proofs.PickSem Proofs.NormalForms Proofs.Thresholds.
Open Scope N_scope.

(* ======================================================================================== *)
(* Decidable check of an operator table                                                      *)
Definition bools : list bool := [false; true].
Definition obools : list (option bool) := [None; Some false; Some true].
Definition refinesb (a : bool) (x : option bool) : bool := match x with Some b => Bool.eqb a b | None => true end.
Definition oeqb (x y : option bool) : bool :=
  match x, y with Some a, Some b => Bool.eqb a b | None, None => true | _, _ => false end.
Definition total2b (op : op2) : bool :=
  forallb (fun a => forallb (fun b => match op (Some a) (Some b) with Some _ => true | None => false end) bools) bools.
Definition consistent2b (op : op2) : bool :=
  forallb (fun x => forallb (fun y =>
    match op x y with
    | None => true
    | Some r => forallb (fun a => forallb (fun b =>
                  negb (refinesb a x && refinesb b y) || oeqb (op (Some a) (Some b)) (Some r)) bools) bools
    end) obools) obools.
Definition table_okb (op : op2) : bool := total2b op && consistent2b op.

Lemma in_bools a : In a bools. Proof. destruct a; cbn; auto. Qed.
Lemma in_obools x : In x obools. Proof. destruct x as [[|]|]; cbn; auto. Qed.
Lemma refinesb_iff a x : refinesb a x = true <-> refines a x.
Proof.
  destruct x as [b|]; cbn; [|tauto]. split; [apply eqb_prop|intros ->; apply eqb_reflx].
Qed.

Lemma total2b_iff op : total2b op = true <-> total2 op.
Proof.
  unfold total2b, total2. split.
  - intros H a b. rewrite forallb_forall in H. specialize (H a (in_bools a)).
    rewrite forallb_forall in H. specialize (H b (in_bools b)).
    destruct (op (Some a) (Some b)); [discriminate|discriminate H].
  - intros T. apply forallb_forall. intros a _. apply forallb_forall. intros b _.
    specialize (T a b). destruct (op (Some a) (Some b)); [reflexivity|congruence].
Qed.

Lemma consistent2b_iff op : consistent2b op = true <-> consistent2 op.
Proof.
  unfold consistent2b, consistent2. split.
  - intros H x y r E a b Ra Rb.
    rewrite forallb_forall in H. specialize (H x (in_obools x)).
    rewrite forallb_forall in H. specialize (H y (in_obools y)). rewrite E in H.
    rewrite forallb_forall in H. specialize (H a (in_bools a)).
    rewrite forallb_forall in H. specialize (H b (in_bools b)).
    apply refinesb_iff in Ra. apply refinesb_iff in Rb. rewrite Ra, Rb in H. cbn [andb negb orb] in H.
    destruct (op (Some a) (Some b)) as [c|]; cbn [oeqb] in H; [|discriminate].
    apply eqb_prop in H. congruence.
  - intros C. apply forallb_forall. intros x _. apply forallb_forall. intros y _.
    destruct (op x y) as [r|] eqn:E; [|reflexivity].
    apply forallb_forall. intros a _. apply forallb_forall. intros b _.
    destruct (refinesb a x) eqn:Ra; [|reflexivity]. destruct (refinesb b y) eqn:Rb; [|reflexivity].
    apply refinesb_iff in Ra. apply refinesb_iff in Rb.
    rewrite (C x y r E a b Ra Rb). cbn. apply eqb_reflx.
Qed.

Theorem table_okb_iff op : table_okb op = true <-> total2 op /\ consistent2 op.
Proof. unfold table_okb. rewrite andb_true_iff, total2b_iff, consistent2b_iff. tauto. Qed.
Print Assumptions table_okb_iff.

Lemma table_okb_builtin :
  table_okb op_and = true /\ table_okb op_or = true /\ table_okb op_imp = true /\
  table_okb op_iff = true /\ table_okb op_xor = true /\ table_okb op_and_not = true.
Proof. repeat split; vm_compute; reflexivity. Qed.
Lemma table_okb_lazy f : table_okb (lazy_op f) = true.
Proof. apply table_okb_iff. split; [apply TernSem.lazy_total|apply TernSem.lazy_cons]. Qed.

(* ======================================================================================== *)
(* The language of histories                                                                 *)
Inductive hop : Type :=
| HTrue (nv : N)
| HFalse (nv : N)
| HLit (nv x : N) (c : bool)
| HClause (nv : N) (pv : pval)
| HDClause (nv : N) (pv : pval)
| HValuation (l : list bool)
| HDnf (nv : N) (cs : list pval)
| HCnf (nv : N) (cs : list pval)
| HSat (upto : bool) (nv k : N) (vars : list N)
| HBin (op : op2) (fa fb fo : option N) (i j : nat)
| HNot (i : nat)
| HTern (op : op3) (fa fb fc fo : option N) (i j k : nat)
| HIte (i j k : nat)
| HExists (i : nat) (vars : list N)
| HForAll (i : nat) (vars : list N)
| HBinExists (op : op2) (i j : nat) (vars : list N)
| HBinForAll (op : op2) (i j : nat) (vars : list N)
| HNested (outer : op2) (inner_is_and : bool) (i j : nat) (trig : list bool)
| HVarSelect (i : nat) (x : N) (c : bool)
| HSelect (i : nat) (lits : list (N * bool))
| HRestrict (i : nat) (lits : list (N * bool))
| HVarPick (i : nat) (x : N)
| HPick (i : nat) (vars : list N)
| HSubstitute (i : nat) (x : N) (j : nat).

(* operand lookup: an index that does not name an earlier result is a Panic *)
Definition operand (rs : list bdd) (i : nat) : outcome bdd :=
  match nth_error rs i with Some b => Ok b | None => Panic end.
Definition guard (c : bool) (k : outcome bdd) : outcome bdd := if c then k else Panic.

Definition step (rs : list bdd) (o : hop) : outcome bdd :=
  match o with
  | HTrue nv => Ok (mk_true nv)
  | HFalse nv => Ok (mk_false nv)
  | HLit nv x c => vs_mk_literal nv x c
  | HClause nv pv => mk_conjunctive_clause nv pv
  | HDClause nv pv => mk_disjunctive_clause nv pv
  | HValuation l => Ok (of_valuation l)
  | HDnf nv cs => mk_dnf nv cs
  | HCnf nv cs => mk_cnf nv cs
  | HSat upto nv k vars => mk_sat_k upto nv k vars
  | HBin op fa fb fo i j =>
      bind (operand rs i) (fun a => bind (operand rs j) (fun b =>
      guard (table_okb op) (* added guard *) (fused_binary_flip_op a b fa fb fo op)))
  | HNot i => bind (operand rs i) (fun a => Ok (bdd_not a))
  | HTern op fa fb fc fo i j k =>
      bind (operand rs i) (fun a => bind (operand rs j) (fun b => bind (operand rs k) (fun c =>
      fused_ternary_flip_op a b c fa fb fc fo op)))
  | HIte i j k =>
      bind (operand rs i) (fun a => bind (operand rs j) (fun b => bind (operand rs k) (fun c =>
      if_then_else a b c)))
  | HExists i vars => bind (operand rs i) (fun a => bdd_exists a vars)
  | HForAll i vars => bind (operand rs i) (fun a => bdd_for_all a vars)
  | HBinExists op i j vars =>
      bind (operand rs i) (fun a => bind (operand rs j) (fun b =>
      guard (table_okb op) (* added guard *) (binary_op_with_exists a b op vars)))
  | HBinForAll op i j vars =>
      bind (operand rs i) (fun a => bind (operand rs j) (fun b =>
      guard (table_okb op) (* added guard *) (binary_op_with_for_all a b op vars)))
  | HNested outer inner_is_and i j trig =>
      bind (operand rs i) (fun a => bind (operand rs j) (fun b =>
      guard (table_okb outer) (* added guard *) (binary_op_nested a b trig outer inner_is_and)))
  | HVarSelect i x c =>
      bind (operand rs i) (fun a => guard (x <? nvars a) (* added guard *) (var_select a x c))
  | HSelect i lits =>
      bind (operand rs i) (fun a =>
      guard (forallb (fun xc => fst xc <? nvars a) lits) (* added guard *) (select a lits))
  | HRestrict i lits => bind (operand rs i) (fun a => restrict a lits)
  | HVarPick i x => bind (operand rs i) (fun a => var_pick a x)
  | HPick i vars => bind (operand rs i) (fun a => pick a vars)
  | HSubstitute i x j =>
      bind (operand rs i) (fun f => bind (operand rs j) (fun g => substitute f x g))
  end.

Fixpoint run_from (h : list hop) (rs : list bdd) : outcome (list bdd) :=
  match h with
  | [] => Ok rs
  | o :: r => bind (step rs o) (fun b => run_from r (rs ++ [b]))
  end.
Definition run (h : list hop) : outcome (list bdd) := run_from h [].

(* ======================================================================================== *)
(* One lemma per producer: a successful call on canonical (in fact: valid) operands returns   *)
(* a canonical diagram.                                                                       *)
Lemma forallb_false_ex {A} (f : A -> bool) l : forallb f l = false -> exists x, In x l /\ f x = false.
Proof.
  induction l as [|a l IH]; cbn; [discriminate|]. intros H. apply andb_false_iff in H. destruct H as [H|H].
  - exists a. auto.
  - destruct (IH H) as (x & Hx & Fx). exists x. auto.
Qed.

Lemma lit_keeps nv x c r : vs_mk_literal nv x c = Ok r -> Canonical r.
Proof.
  unfold vs_mk_literal. destruct (N.ltb_spec x nv) as [Hx|Hx]; [|discriminate].
  intros H. inversion H; subst. apply RelSem.mk_literal_canonical. exact Hx.
Qed.

Lemma clause_keeps nv pv r : mk_conjunctive_clause nv pv = Ok r -> Canonical r.
Proof.
  intros H. destruct (cells_in_range nv pv) eqn:E.
  - destruct (NormalForms.mk_conjunctive_clause_correct nv pv E) as (r' & E' & _ & _ & _ & C).
    rewrite E' in H. inversion H; subst. exact C.
  - rewrite (NormalForms.mk_conjunctive_clause_panic nv pv E) in H. discriminate.
Qed.

Lemma dclause_keeps nv pv r : mk_disjunctive_clause nv pv = Ok r -> Canonical r.
Proof.
  intros H. destruct (cells_in_range nv pv) eqn:E.
  - destruct (NormalForms.mk_disjunctive_clause_correct nv pv E) as (r' & E' & _ & _ & _ & C).
    rewrite E' in H. inversion H; subst. exact C.
  - rewrite (NormalForms.mk_disjunctive_clause_panic nv pv E) in H. discriminate.
Qed.

Lemma valuation_keeps l : Canonical (of_valuation l).
Proof. exact (proj2 (proj2 (proj2 (NormalForms.of_valuation_correct l)))). Qed.

Lemma dnf_keeps nv cs r : mk_dnf nv cs = Ok r -> Canonical r.
Proof.
  intros H. destruct (forallb (cells_in_range nv) cs) eqn:E.
  - rewrite forallb_forall in E.
    destruct (NormalForms.mk_dnf_correct nv cs E) as (r' & E' & _ & _ & _ & C).
    rewrite E' in H. inversion H; subst. exact C.
  - destruct (forallb_false_ex _ _ E) as (c & Hc & Fc).
    rewrite (NormalForms.mk_dnf_panic nv cs (ex_intro _ c (conj Hc Fc))) in H. discriminate.
Qed.

Lemma cnf_keeps nv cs r : mk_cnf nv cs = Ok r -> Canonical r.
Proof.
  intros H. destruct (forallb (cells_in_range nv) cs) eqn:E.
  - rewrite forallb_forall in E.
    destruct (NormalForms.mk_cnf_correct nv cs E) as (r' & E' & _ & _ & _ & C).
    rewrite E' in H. inversion H; subst. exact C.
  - destruct (forallb_false_ex _ _ E) as (c & Hc & Fc).
    rewrite (NormalForms.mk_cnf_panic nv cs (ex_intro _ c (conj Hc Fc))) in H. discriminate.
Qed.

Lemma sat_keeps upto nv k vars r : mk_sat_k upto nv k vars = Ok r -> Canonical r.
Proof.
  intros H. destruct (forallb (fun x => x <? nv) vars) eqn:E.
  - rewrite forallb_forall in E.
    assert (R : forall x, In x vars -> x < nv) by (intros x Hx; apply N.ltb_lt; auto).
    destruct (Thresholds.mk_sat_k_correct upto nv k vars R) as (r' & E' & _ & _ & C & _).
    rewrite E' in H. inversion H; subst. exact C.
  - destruct (forallb_false_ex _ _ E) as (x & Hx & Fx). apply N.ltb_ge in Fx.
    rewrite (Thresholds.mk_sat_k_panic upto nv k vars (ex_intro _ x (conj Hx Fx))) in H. discriminate.
Qed.

Lemma bin_keeps a b fa fb fo op r : wf a -> wf b -> total2 op -> consistent2 op ->
  fused_binary_flip_op a b fa fb fo op = Ok r -> Canonical r.
Proof.
  intros Wa Wb T C H.
  destruct (N.eq_dec (nvars a) (nvars b)) as [NV|NV].
  - destruct (flips_ok (nvars a) fa fb fo) eqn:F.
    + destruct (fused_binary_flip_op_correct a b fa fb fo op Wa Wb NV F T C) as (r' & E' & Cr & _).
      rewrite E' in H. inversion H; subst. exact Cr.
    + rewrite (proj2 (fused_binary_flip_op_panic_iff a b fa fb fo op) (or_intror F)) in H. discriminate.
  - rewrite (proj2 (fused_binary_flip_op_panic_iff a b fa fb fo op) (or_introl NV)) in H. discriminate.
Qed.

Lemma binary_op_panic a b op : nvars a <> nvars b -> binary_op a b op = Panic.
Proof. intros NV. unfold binary_op. apply fused_binary_flip_op_panic_iff. left. exact NV. Qed.

Lemma tern_keeps a b c fa fb fc fo op r : wf a -> wf b -> wf c ->
  fused_ternary_flip_op a b c fa fb fc fo op = Ok r -> Canonical r.
Proof.
  intros Wa Wb Wc H.
  destruct (N.eq_dec (nvars a) (nvars b)) as [N1|N1].
  - destruct (N.eq_dec (nvars b) (nvars c)) as [N2|N2].
    + destruct (flip_ok (nvars a) fa && flip_ok (nvars a) fb && flip_ok (nvars a) fc && flip_ok (nvars a) fo) eqn:F.
      * destruct (TernSem.fused_ternary_flip_op_correct a b c fa fb fc fo op Wa Wb Wc N1 N2 F) as (r' & E' & Cr & _).
        rewrite E' in H. inversion H; subst. exact Cr.
      * rewrite (TernSem.ternary_guard_panic a b c fa fb fc fo op (or_intror F)) in H. discriminate.
    + rewrite (TernSem.ternary_guard_panic a b c fa fb fc fo op) in H; [discriminate|]. left. tauto.
  - rewrite (TernSem.ternary_guard_panic a b c fa fb fc fo op) in H; [discriminate|]. left. tauto.
Qed.

Lemma ite_keeps a b c r : wf a -> wf b -> wf c -> if_then_else a b c = Ok r -> Canonical r.
Proof. unfold if_then_else, ternary_op. apply tern_keeps. Qed.

Lemma exists_keeps a vars r : wf a -> bdd_exists a vars = Ok r -> Canonical r.
Proof.
  intros W H. destruct (QuantSem.bdd_exists_correct a vars W) as (r' & E' & C & _).
  rewrite E' in H. inversion H; subst. exact C.
Qed.

Lemma for_all_keeps a vars r : wf a -> bdd_for_all a vars = Ok r -> Canonical r.
Proof.
  intros W H. destruct (QuantSem.bdd_for_all_correct a vars W) as (r' & E' & C & _).
  rewrite E' in H. inversion H; subst. exact C.
Qed.

Lemma bin_exists_keeps a b op vars r : wf a -> wf b -> total2 op -> consistent2 op ->
  binary_op_with_exists a b op vars = Ok r -> Canonical r.
Proof.
  intros Wa Wb T C H. destruct (N.eq_dec (nvars a) (nvars b)) as [NV|NV].
  - destruct (QuantSem.binary_op_with_exists_correct a b op vars Wa Wb NV T C) as (r' & E' & Cr & _).
    rewrite E' in H. inversion H; subst. exact Cr.
  - unfold binary_op_with_exists in H. rewrite (binary_op_panic a b op NV) in H. discriminate.
Qed.

Lemma bin_for_all_keeps a b op vars r : wf a -> wf b -> total2 op -> consistent2 op ->
  binary_op_with_for_all a b op vars = Ok r -> Canonical r.
Proof.
  intros Wa Wb T C H. destruct (N.eq_dec (nvars a) (nvars b)) as [NV|NV].
  - destruct (QuantSem.binary_op_with_for_all_correct a b op vars Wa Wb NV T C) as (r' & E' & Cr & _).
    rewrite E' in H. inversion H; subst. exact Cr.
  - unfold binary_op_with_for_all in H. rewrite (binary_op_panic a b op NV) in H. discriminate.
Qed.

Lemma nested_keeps a b trig outer inner r : wf a -> wf b -> total2 outer -> consistent2 outer ->
  binary_op_nested a b trig outer inner = Ok r -> Canonical r.
Proof.
  intros Wa Wb T C H. destruct (N.eq_dec (nvars a) (nvars b)) as [NV|NV].
  - destruct (QuantSem.binary_op_nested_correct a b trig outer inner Wa Wb NV T C) as (r' & E' & Cr & _).
    rewrite E' in H. inversion H; subst. exact Cr.
  - unfold binary_op_nested in H. rewrite (binary_op_panic a b outer NV) in H. discriminate.
Qed.

Lemma var_select_keeps a x c r : wf a -> x < nvars a -> var_select a x c = Ok r -> Canonical r.
Proof.
  intros W Hx H. destruct (RelSem.var_select_correct a x c W Hx) as (r' & E' & C & _).
  rewrite E' in H. inversion H; subst. exact C.
Qed.

Lemma select_keeps a lits r : wf a -> forallb (fun xc => fst xc <? nvars a) lits = true ->
  select a lits = Ok r -> Canonical r.
Proof.
  intros W F H. rewrite forallb_forall in F.
  assert (R : Forall (fun xc => fst xc < nvars a) lits).
  { apply Forall_forall. intros xc Hxc. apply N.ltb_lt. auto. }
  destruct (PvalSem.select_correct a lits W R) as (r' & E' & C & _).
  rewrite E' in H. inversion H; subst. exact C.
Qed.

Lemma restrict_keeps a lits r : wf a -> restrict a lits = Ok r -> Canonical r.
Proof.
  intros W H. destruct (RelSem.restrict_correct a lits W) as (r' & E' & C & _).
  rewrite E' in H. inversion H; subst. exact C.
Qed.

(* out-of-range variable: the flip guard of the apply inside var_pick panics *)
Lemma flip_guard_panic a s x op : nvars a <= x -> fused_binary_flip_op a s None (Some x) None op = Panic.
Proof.
  intros Hx. apply fused_binary_flip_op_panic_iff. right.
  unfold flips_ok, flip_ok. apply N.ltb_ge in Hx. rewrite Hx. reflexivity.
Qed.

Lemma var_pick_oor a x r : nvars a <= x -> var_pick a x <> Ok r.
Proof.
  intros Hx. unfold var_pick, var_pick_pref.
  destruct (var_select a x false) as [s| |]; cbn [bind]; try discriminate.
  rewrite (flip_guard_panic a s x op_and_not Hx). discriminate.
Qed.

Lemma var_pick_keeps a x r : wf a -> var_pick a x = Ok r -> Canonical r.
Proof.
  intros W H. destruct (N.ltb_spec x (nvars a)) as [Hx|Hx].
  - destruct (RelSem.var_pick_correct a x W Hx) as (r' & E' & C & _).
    rewrite E' in H. inversion H; subst. exact C.
  - exfalso. exact (var_pick_oor a x r Hx H).
Qed.

(* r_pick: canonicity needs neither NoDup nor sortedness *)
Lemma r_pick_keeps rvars : forall set, wf set -> Forall (fun x => x < nvars set) rvars ->
  exists r, r_pick rvars set = Ok r /\ wf r /\ nvars r = nvars set /\
            (rvars <> [] \/ Canonical set -> Canonical r).
Proof.
  induction rvars as [|x rest IH]; intros set W F.
  - exists set. cbn [r_pick]. split; [reflexivity|]. split; [exact W|]. split; [reflexivity|].
    intros [H|H]; [congruence|exact H].
  - inversion F as [|x' rest' Hx Frest]; subst.
    destruct (RelSem.var_exists_correct set x W Hx) as (ex & Eex & Cex & Nex & _).
    assert (Frest' : Forall (fun y => y < nvars ex) rest) by (rewrite Nex; exact Frest).
    destruct (IH ex (proj1 Cex) Frest') as (pk & Epk & Wpk & Npk & _).
    destruct (RelSem.var_pick_correct set x W Hx) as (vp & Evp & Cvp & Nvp & _).
    assert (NV : nvars pk = nvars vp) by congruence.
    destruct (RelSem.bdd_and_correct pk vp Wpk (proj1 Cvp) NV) as (r & Er & Cr & Nr & _).
    exists r. cbn [r_pick]. rewrite Eex. cbn [bind]. rewrite Epk. cbn [bind]. rewrite Evp. cbn [bind].
    split; [exact Er|]. split; [exact (proj1 Cr)|]. split; [congruence|]. intros _. exact Cr.
Qed.

Lemma r_pick_oor rvars : forall set r, wf set -> Exists (fun x => nvars set <= x) rvars ->
  r_pick rvars set <> Ok r.
Proof.
  induction rvars as [|x rest IH]; intros set r W Ex; [inversion Ex|].
  cbn [r_pick]. destruct (N.ltb_spec x (nvars set)) as [Hx|Hx].
  - inversion Ex as [? ? Hh|? ? Ht]; subst; [lia|].
    destruct (RelSem.var_exists_correct set x W Hx) as (ex & Eex & Cex & Nex & _).
    rewrite Eex. cbn [bind]. rewrite <- Nex in Ht.
    destruct (r_pick rest ex) as [pk| |] eqn:Epk; cbn [bind]; try discriminate.
    exfalso. exact (IH ex pk (proj1 Cex) Ht Epk).
  - unfold var_exists. rewrite (flip_guard_panic set set x op_or Hx). cbn [bind]. discriminate.
Qed.

Lemma pick_keeps a vars r : Canonical a -> pick a vars = Ok r -> Canonical r.
Proof.
  intros Ca H. unfold pick in H. pose proof (proj1 Ca) as W.
  destruct (forallb (fun x => x <? nvars a) (rev (sort_vars vars))) eqn:E.
  - rewrite forallb_forall in E.
    assert (R : Forall (fun x => x < nvars a) (rev (sort_vars vars))).
    { apply Forall_forall. intros x Hx. apply N.ltb_lt. auto. }
    destruct (r_pick_keeps _ a W R) as (r' & E' & _ & _ & C).
    rewrite E' in H. inversion H; subst. apply C. right. exact Ca.
  - destruct (forallb_false_ex _ _ E) as (x & Hx & Fx). apply N.ltb_ge in Fx.
    exfalso. apply (r_pick_oor (rev (sort_vars vars)) a r W); [|exact H].
    apply Exists_exists. exists x. auto.
Qed.

Lemma substitute_keeps f x g r : Canonical f -> wf g -> substitute f x g = Ok r -> Canonical r.
Proof.
  intros Cf Wg H. pose proof (proj1 Cf) as Wf. unfold substitute in H.
  destruct (mem x (support f)); cbn [negb] in H; [|inversion H; subst; exact Cf].
  destruct (N.eqb_spec (nvars f) (nvars g)) as [NV|NV]; cbn [negb] in H; [|discriminate].
  destruct (RelSem.var_restrict_correct f x true Wf) as (f1 & E1 & C1 & N1 & _).
  destruct (RelSem.var_restrict_correct f x false Wf) as (f0 & E0 & C0 & N0 & _).
  rewrite E1 in H. cbn [bind] in H. rewrite E0 in H. cbn [bind] in H.
  assert (NV1 : nvars g = nvars f1) by congruence.
  destruct (RelSem.bdd_and_correct g f1 Wg (proj1 C1) NV1) as (t1 & Et1 & Ct1 & Nt1 & _).
  rewrite Et1 in H. cbn [bind] in H.
  assert (NV0 : nvars g = nvars f0) by congruence.
  destruct (QuantSem.binary_op_correct g f0 (lazy_op (fun a b => negb a && b)) Wg (proj1 C0) NV0
              (TernSem.lazy_total _) (TernSem.lazy_cons _)) as (t0 & Et0 & Ct0 & Nt0 & _).
  rewrite Et0 in H. cbn [bind] in H.
  assert (NVt : nvars t1 = nvars t0) by congruence.
  destruct (RelSem.bdd_or_correct t1 t0 (proj1 Ct1) (proj1 Ct0) NVt) as (r' & Er & Cr & _).
  rewrite Er in H. inversion H; subst. exact Cr.
Qed.

(* ======================================================================================== *)
(* One step, then the whole history                                                          *)
Lemma operand_inv rs i (k : bdd -> outcome bdd) r : Forall Canonical rs ->
  bind (operand rs i) k = Ok r -> exists a, nth_error rs i = Some a /\ Canonical a /\ k a = Ok r.
Proof.
  intros F H. unfold operand in H. destruct (nth_error rs i) as [a|] eqn:E; cbn [bind] in H; [|discriminate].
  exists a. split; [reflexivity|]. split; [|exact H].
  rewrite Forall_forall in F. apply F. eapply nth_error_In. exact E.
Qed.

Lemma guard_inv c k (r : bdd) : guard c k = Ok r -> c = true /\ k = Ok r.
Proof. unfold guard. destruct c; [auto|discriminate]. Qed.

Ltac opnd F H a Ca :=
  let Ea := fresh "Ea" in
  apply (operand_inv _ _ _ _ F) in H; destruct H as (a & Ea & Ca & H); clear Ea.
Ltac grd H G := apply guard_inv in H; destruct H as (G & H).

Theorem step_canonical rs o r : Forall Canonical rs -> step rs o = Ok r -> Canonical r.
Proof.
  intros F H. destruct o; cbn [step] in H.
  - inversion H; subst. apply NotSem.canonical_mk_true.
  - inversion H; subst. apply NotSem.canonical_mk_false.
  - exact (lit_keeps _ _ _ _ H).
  - exact (clause_keeps _ _ _ H).
  - exact (dclause_keeps _ _ _ H).
  - inversion H; subst. apply valuation_keeps.
  - exact (dnf_keeps _ _ _ H).
  - exact (cnf_keeps _ _ _ H).
  - exact (sat_keeps _ _ _ _ _ H).
  - opnd F H a Ca. opnd F H b Cb. grd H G. apply table_okb_iff in G. destruct G as (T & C).
    exact (bin_keeps _ _ _ _ _ _ _ (proj1 Ca) (proj1 Cb) T C H).
  - opnd F H a Ca. inversion H; subst. apply NotSem.not_canonical. exact Ca.
  - opnd F H a Ca. opnd F H b Cb. opnd F H c Cc.
    exact (tern_keeps _ _ _ _ _ _ _ _ _ (proj1 Ca) (proj1 Cb) (proj1 Cc) H).
  - opnd F H a Ca. opnd F H b Cb. opnd F H c Cc.
    exact (ite_keeps _ _ _ _ (proj1 Ca) (proj1 Cb) (proj1 Cc) H).
  - opnd F H a Ca. exact (exists_keeps _ _ _ (proj1 Ca) H).
  - opnd F H a Ca. exact (for_all_keeps _ _ _ (proj1 Ca) H).
  - opnd F H a Ca. opnd F H b Cb. grd H G. apply table_okb_iff in G. destruct G as (T & C).
    exact (bin_exists_keeps _ _ _ _ _ (proj1 Ca) (proj1 Cb) T C H).
  - opnd F H a Ca. opnd F H b Cb. grd H G. apply table_okb_iff in G. destruct G as (T & C).
    exact (bin_for_all_keeps _ _ _ _ _ (proj1 Ca) (proj1 Cb) T C H).
  - opnd F H a Ca. opnd F H b Cb. grd H G. apply table_okb_iff in G. destruct G as (T & C).
    exact (nested_keeps _ _ _ _ _ _ (proj1 Ca) (proj1 Cb) T C H).
  - opnd F H a Ca. grd H G. apply N.ltb_lt in G. exact (var_select_keeps _ _ _ _ (proj1 Ca) G H).
  - opnd F H a Ca. grd H G. exact (select_keeps _ _ _ (proj1 Ca) G H).
  - opnd F H a Ca. exact (restrict_keeps _ _ _ (proj1 Ca) H).
  - opnd F H a Ca. exact (var_pick_keeps _ _ _ (proj1 Ca) H).
  - opnd F H a Ca. exact (pick_keeps _ _ _ Ca H).
  - opnd F H f Cf. opnd F H g Cg. exact (substitute_keeps _ _ _ _ Cf (proj1 Cg) H).
Qed.
Print Assumptions step_canonical.

Lemma run_from_canonical : forall h rs out, Forall Canonical rs -> run_from h rs = Ok out -> Forall Canonical out.
Proof.
  induction h as [|o h IH]; intros rs out F H; cbn [run_from] in H.
  - inversion H; subst. exact F.
  - destruct (step rs o) as [b| |] eqn:E; cbn [bind] in H; try discriminate.
    apply (IH (rs ++ [b]) out); [|exact H].
    apply Forall_app. split; [exact F|]. constructor; [|constructor].
    exact (step_canonical rs o b F E).
Qed.

(* results are only ever appended: the history's output extends the initial store *)
Lemma run_from_prefix : forall h rs out, run_from h rs = Ok out -> exists tl, out = rs ++ tl /\ length tl = length h.
Proof.
  induction h as [|o h IH]; intros rs out H; cbn [run_from] in H.
  - inversion H; subst. exists []. split; [symmetry; apply app_nil_r|reflexivity].
  - destruct (step rs o) as [b| |] eqn:E; cbn [bind] in H; try discriminate.
    destruct (IH _ _ H) as (tl & -> & L). exists (b :: tl). split.
    + rewrite <- app_assoc. reflexivity.
    + cbn [length]. rewrite L. reflexivity.
Qed.

(* ---- main theorems ---- *)
Theorem history_canonical : forall h rs, run h = Ok rs -> Forall Canonical rs.
Proof. intros h rs H. exact (run_from_canonical h [] rs (Forall_nil _) H). Qed.
Print Assumptions history_canonical.

(* one result per operation *)
Theorem history_length : forall h rs, run h = Ok rs -> length rs = length h.
Proof. intros h rs H. destruct (run_from_prefix h [] rs H) as (tl & -> & L). exact L. Qed.
Print Assumptions history_length.

Theorem history_equal : forall h rs i j a b, run h = Ok rs ->
  nth_error rs i = Some a -> nth_error rs j = Some b ->
  nvars a = nvars b -> (forall v, eval a v = eval b v) -> a = b.
Proof.
  intros h rs i j a b H Ha Hb NV E.
  pose proof (history_canonical h rs H) as F. rewrite Forall_forall in F.
  apply canonical_unique; [| |exact NV|exact E].
  - apply F. eapply nth_error_In. exact Ha.
  - apply F. eapply nth_error_In. exact Hb.
Qed.
Print Assumptions history_equal.

(* the executable checker accepts every result of a history *)
Corollary history_canonicalb : forall h rs, run h = Ok rs -> forallb canonicalb rs = true.
Proof.
  intros h rs H. apply forallb_forall. intros b Hb. apply Reflect.canonicalb_complete.
  pose proof (history_canonical h rs H) as F. rewrite Forall_forall in F. auto.
Qed.
Print Assumptions history_canonicalb.

(* ======================================================================================== *)
(* A concrete history over 4 variables: the function (x0 /\ x1) \/ x2 along ten routes      *)
Definition ex_history : list hop :=
  [ HLit 4 0 true; HLit 4 1 true; HLit 4 2 true; HLit 4 3 true;             (*  0..3  literals            *)
    HBin op_and None None None 0 1;                                          (*  4  x0 /\ x1               *)
    HBin op_or None None None 4 2;                                           (*  5  route 1                *)
    HNot 0; HNot 1;                                                          (*  6,7                       *)
    HBin op_or None None None 6 7;                                           (*  8  ~x0 \/ ~x1             *)
    HNot 2;                                                                  (*  9                         *)
    HBin op_and None None None 8 9;                                          (* 10                         *)
    HNot 10;                                                                 (* 11  route 2: De Morgan     *)
    HDnf 4 [[Some true; Some true]; [None; None; Some true]];                (* 12  route 3: DNF           *)
    HBin op_and None None None 3 1;                                          (* 13  x3 /\ x1               *)
    HBin op_or None None None 13 2;                                          (* 14                         *)
    HSubstitute 14 3 0;                                                      (* 15  route 4: x3 := x0      *)
    HBin op_imp None None None 8 2;                                          (* 16  route 5: implication   *)
    HTrue 4;                                                                 (* 17                         *)
    HIte 2 17 4;                                                             (* 18  route 6: if x2 then 1  *)
    HBinExists op_and 5 3 [3];                                               (* 19  route 7: exists x3. (5) /\ x3 *)
    HBin op_and_not None (Some 0) (Some 0) 9 4;                              (* 20  ~x2 /\ ~(x0 /\ x1), fused flips cancel *)
    HNot 20;                                                                 (* 21  route 8                *)
    HPick 5 []; HVarSelect 5 3 true; HExists 23 [3]                          (* 22 (route 9: identity), 23, 24 (route 10) *)
  ].

Definition ex_target : bdd := [mkNode 4 0 0; mkNode 4 1 1; mkNode 2 0 1; mkNode 1 2 1; mkNode 0 2 3].

Example history_example :
  exists rs, run ex_history = Ok rs /\
    map (nth_error rs) [5; 11; 12; 15; 16; 18; 19; 21; 22; 24]%nat = repeat (Some ex_target) 10 /\
    forallb canonicalb rs = true /\ length rs = 25%nat.
Proof.
  eexists. split; [vm_compute; reflexivity|]. split; [vm_compute; reflexivity|].
  split; vm_compute; reflexivity.
Qed.
Print Assumptions history_example.

(* the guards are exercised: a bad operand index, an inconsistent table, an out-of-range select *)
Example history_panics :
  run [HTrue 2; HNot 1] = Panic /\
  run [HTrue 2; HBin (fun _ _ => Some true) None None None 0 0] = Ok [mk_true 2; mk_true 2] /\
  run [HTrue 2; HBin (fun l _ => match l with None => Some true | Some c => Some (negb c) end) None None None 0 0] = Panic /\
  run [HTrue 2; HVarSelect 0 2 true] = Panic /\
  run [HTrue 2; HLit 3 0 true; HBin op_and None None None 0 1] = Panic /\
  run [HLit 3 0 true; HPick 0 [7]] = Panic.
Proof. repeat split; vm_compute; reflexivity. Qed.
