(* Proofs/ApplyFast2.v — the efficient size-limited engine and the efficient dry run of Model/ApplyFast2.v compute
   exactly what the reference definitions of Model/Apply.v compute: apply2_limit_fast_eq, dry_run_fast_eq and the
   API-level fused_binary_flip_op_with_limit_fast_eq, check_fused_binary_flip_op_fast_eq (no hypotheses: pure data
   refinement, simulation by induction on the fuel; the state relation R and the table lemmas are those of
   Proofs/ApplyFast.v), plus the transferred top-level theorems. *)
From Coq Require Import List NArith Lia Bool Arith PeanoNat FMapPositive.
Import ListNotations.
From BddVerif Require Import Model.Bdd Model.Apply Model.ApplyFast Model.ApplyFast2
  Proofs.Sem Proofs.Canon Proofs.ApplySem Proofs.ApplyTop Proofs.DrySem Proofs.ApplyFast.
Open Scope N_scope.

(* ------------------------------------------------------------------ *)
(* size-limited engine                                                  *)
Definition simL (r : lres) (r' : lresF) : Prop :=
  match r, r' with
  | LAbort, LAbortF => True
  | LFuel, LFuelF => True
  | LOk p s, LOkF p' s' => p = p' /\ R s s'
  | _, _ => False
  end.

Section SimL.
  Variables (A B : bdd) (MA MB : arr) (fa fb fo : option N) (op : op2) (limit : N).
  Hypothesis HA : forall p, aget MA p = get A p.
  Hypothesis HB : forall p, aget MB p = get B p.

  Lemma ensure_l_sim proc procF t s f :
    (forall t s f, R s f -> simL (proc t s) (procF t f)) ->
    R s f -> simL (ensure_l op proc t s) (ensure_lF op procF t f).
  Proof.
    intros Hp HR. unfold ensure_l, ensure_lF.
    destruct (op (as_bool (fst t)) (as_bool (snd t))) as [c|]; [cbn; auto|].
    pose proof HR as (_ & _ & _ & H4 & _). rewrite H4.
    destruct (tfind t (finished s)) as [p|]; [cbn; auto|]. now apply Hp.
  Qed.

  Lemma process_l_sim : forall fuel t s f, R s f ->
    simL (process_l A B fa fb fo op limit fuel t s) (process_lF MA MB fa fb fo op limit fuel t f).
  Proof.
    induction fuel as [|k IH]; intros t s f HR; [exact I|].
    cbn [process_l process_lF].
    rewrite (levelF_eq A B MA MB HA HB), (t_loF_eq A B MA MB fa fb HA HB), (t_hiF_eq A B MA MB fa fb HA HB).
    set (dv := level A B t). set (tl := t_lo A B fa fb t). set (th := t_hi A B fa fb t).
    assert (Hstep : forall ta tb (g : N -> N -> N * N),
      simL (match ensure_l op (process_l A B fa fb fo op limit k) ta s with LAbort => LAbort | LFuel => LFuel | LOk p1 s1 =>
            match ensure_l op (process_l A B fa fb fo op limit k) tb s1 with LAbort => LAbort | LFuel => LFuel | LOk p2 s2 =>
              let '(plo, phi) := g p1 p2 in
              let s3 := set_ne s2 ((plo =? 1) || (phi =? 1)) in
              let '(p, s4) := mk s3 dv (fst (g phi plo)) (snd (g phi plo)) in
              if (size (nodes s3) <? size (nodes s4)) && (limit <? size (nodes s4)) then LAbort
              else LOk p (memo s4 t p) end end)
           (match ensure_lF op (process_lF MA MB fa fb fo op limit k) ta f with LAbortF => LAbortF | LFuelF => LFuelF | LOkF p1 s1 =>
            match ensure_lF op (process_lF MA MB fa fb fo op limit k) tb s1 with LAbortF => LAbortF | LFuelF => LFuelF | LOkF p2 s2 =>
              let '(plo, phi) := g p1 p2 in
              let s3 := set_neF s2 ((plo =? 1) || (phi =? 1)) in
              let '(p, s4) := mkF_node s3 dv (fst (g phi plo)) (snd (g phi plo)) in
              if (rsize s3 <? rsize s4) && (limit <? rsize s4) then LAbortF
              else LOkF p (memoF s4 t p) end end)).
    { intros ta tb g.
      pose proof (ensure_l_sim _ _ ta s f IH HR) as S1.
      destruct (ensure_l op (process_l A B fa fb fo op limit k) ta s) as [| |p1 s1],
               (ensure_lF op (process_lF MA MB fa fb fo op limit k) ta f) as [| |p1' f1]; cbn in S1; try contradiction; try exact I.
      destruct S1 as (<- & R1).
      pose proof (ensure_l_sim _ _ tb s1 f1 IH R1) as S2.
      destruct (ensure_l op (process_l A B fa fb fo op limit k) tb s1) as [| |p2 s2],
               (ensure_lF op (process_lF MA MB fa fb fo op limit k) tb f1) as [| |p2' f2]; cbn in S2; try contradiction; try exact I.
      destruct S2 as (<- & R2).
      destruct (g p1 p2) as [plo phi]. cbv zeta.
      pose proof (R_set_ne s2 f2 ((plo =? 1) || (phi =? 1)) R2) as R3.
      pose proof (mk_sim _ _ dv (fst (g phi plo)) (snd (g phi plo)) R3) as (E & R4).
      destruct (mk (set_ne s2 ((plo =? 1) || (phi =? 1))) dv (fst (g phi plo)) (snd (g phi plo))) as [p s4].
      destruct (mkF_node (set_neF f2 ((plo =? 1) || (phi =? 1))) dv (fst (g phi plo)) (snd (g phi plo))) as [p' f4].
      cbn [fst snd] in E, R4. subst p'.
      pose proof R3 as (_ & Z3 & _). pose proof R4 as (_ & Z4 & _). rewrite Z3, Z4.
      destruct ((size (nodes (set_ne s2 ((plo =? 1) || (phi =? 1)))) <? size (nodes s4)) && (limit <? size (nodes s4))); [exact I|].
      cbn. split; [reflexivity|]. now apply R_memo. }
    destruct (oeq fo dv).
    - exact (Hstep tl th (fun a b => (a, b))).
    - exact (Hstep th tl (fun a b => (b, a))).
  Qed.
End SimL.

Theorem apply2_limit_fast_eq : forall A B fa fb fo op limit,
  apply2_limit_fast A B fa fb fo op limit = apply2_limit A B fa fb fo op limit.
Proof.
  intros A B fa fb fo op limit. unfold apply2_limit_fast, apply2_limit.
  destruct (limit =? 0); [reflexivity|].
  destruct (load_get A) as (SA & GA). destruct (load_get B) as (SB & GB).
  destruct (load A 0 (PM.empty node)) as [sa MA]. destruct (load B 0 (PM.empty node)) as [sb MB].
  cbn [fst snd] in SA, GA, SB, GB. subst sa sb.
  rewrite GA. change (nvar (get A 0)) with (nvars A).
  pose proof (process_l_sim A B MA MB fa fb fo op limit GA GB (S (S (N.to_nat (nvars A)))) (root A B) (s0 A)
                (s0F (zero A) (one A)) (R_s0 (zero A) (one A))) as HS.
  unfold root in *. fold (zero A). fold (one A).
  destruct (process_l A B fa fb fo op limit (S (S (N.to_nat (nvars A)))) (size A - 1, size B - 1) (s0 A)) as [| |p s],
           (process_lF MA MB fa fb fo op limit (S (S (N.to_nat (nvars A)))) (size A - 1, size B - 1) (s0F (zero A) (one A))) as [| |p' f];
    cbn in HS; try contradiction; try reflexivity.
  destruct HS as (_ & (H1 & H2 & _ & _ & H5)). rewrite H5, H2, H1, rev_append_rev, app_nil_r. reflexivity.
Qed.

Corollary fused_binary_flip_op_with_limit_fast_eq : forall limit A B fa fb fo op,
  fused_binary_flip_op_with_limit_fast limit A B fa fb fo op = fused_binary_flip_op_with_limit limit A B fa fb fo op.
Proof. intros. unfold fused_binary_flip_op_with_limit_fast, fused_binary_flip_op_with_limit. now rewrite apply2_limit_fast_eq. Qed.

(* ------------------------------------------------------------------ *)
(* dry run                                                              *)
Definition RD (s : dst) (f : dstF) : Prop :=
  (forall t, tmemF t (fvisited f) = tmem t (visited s)) /\ fdcount f = dcount s /\ fdflag f = dflag s.

Definition simD (r : dres) (r' : dresF) : Prop :=
  match r, r' with
  | DAbort, DAbortF => True
  | DFuel, DFuelF => True
  | DOk s, DOkF s' => RD s s'
  | _, _ => False
  end.

Lemma tmemF_add t t' m : tmemF t (vaddF t' m) = task_eqb t t' || tmemF t m.
Proof.
  unfold tmemF, vaddF, task_eqb. rewrite find2_add2.
  destruct ((fst t =? fst t') && (snd t =? snd t')); reflexivity.
Qed.

Lemma tmemF_empty t : tmemF t (PM.empty _) = false.
Proof. unfold tmemF. now rewrite find2_empty. Qed.

Section SimD.
  Variables (A B : bdd) (MA MB : arr) (fa fb fo : option N) (op : op2) (limit : N).
  Hypothesis HA : forall p, aget MA p = get A p.
  Hypothesis HB : forall p, aget MB p = get B p.

  Lemma dry_sim : forall fuel t s f, RD s f ->
    simD (dry A B fa fb fo op limit fuel t s) (dryF MA MB fa fb fo op limit fuel t f).
  Proof.
    induction fuel as [|k IH]; intros t s f HR; [exact I|].
    cbn [dry dryF].
    rewrite (levelF_eq A B MA MB HA HB), (t_loF_eq A B MA MB fa fb HA HB), (t_hiF_eq A B MA MB fa fb HA HB).
    pose proof HR as (V & C & F).
    destruct (op (as_bool (fst t)) (as_bool (snd t))) as [c|].
    - cbn. unfold RD; cbn [fvisited fdcount fdflag visited dcount dflag]. rewrite F. auto.
    - rewrite V. destruct (tmem t (visited s)); [exact HR|].
      cbn [fdcount dcount]. rewrite C.
      destruct (limit <? dcount s + 1); [exact I|].
      assert (R1 : RD (mkD (t :: visited s) (dcount s + 1) (dflag s)) (mkDF (vaddF t (fvisited f)) (dcount s + 1) (fdflag f))).
      { unfold RD; cbn [fvisited fdcount fdflag visited dcount dflag]. repeat split; [|assumption].
        intros t'. rewrite tmemF_add, V. unfold tmem. cbn [existsb]. reflexivity. }
      assert (Hstep : forall ta tb,
        simD (match dry A B fa fb fo op limit k ta (mkD (t :: visited s) (dcount s + 1) (dflag s)) with
              | DAbort => DAbort | DFuel => DFuel | DOk s2 => dry A B fa fb fo op limit k tb s2 end)
             (match dryF MA MB fa fb fo op limit k ta (mkDF (vaddF t (fvisited f)) (dcount s + 1) (fdflag f)) with
              | DAbortF => DAbortF | DFuelF => DFuelF | DOkF s2 => dryF MA MB fa fb fo op limit k tb s2 end)).
      { intros ta tb. pose proof (IH ta _ _ R1) as S1.
        destruct (dry A B fa fb fo op limit k ta (mkD (t :: visited s) (dcount s + 1) (dflag s))) as [| |s2],
                 (dryF MA MB fa fb fo op limit k ta (mkDF (vaddF t (fvisited f)) (dcount s + 1) (fdflag f))) as [| |f2];
          cbn in S1; try contradiction; try exact I.
        now apply IH. }
      destruct (oeq fo (level A B t)); apply Hstep.
  Qed.
End SimD.

Theorem dry_run_fast_eq : forall A B fa fb fo op limit,
  dry_run_fast A B fa fb fo op limit = dry_run A B fa fb fo op limit.
Proof.
  intros A B fa fb fo op limit. unfold dry_run_fast, dry_run.
  destruct (load_get A) as (SA & GA). destruct (load_get B) as (SB & GB).
  destruct (load A 0 (PM.empty node)) as [sa MA]. destruct (load B 0 (PM.empty node)) as [sb MB].
  cbn [fst snd] in SA, GA, SB, GB. subst sa sb.
  rewrite GA. change (nvar (get A 0)) with (nvars A).
  assert (R0 : RD (mkD [] 0 false) (mkDF (PM.empty _) 0 false)).
  { unfold RD; cbn [fvisited fdcount fdflag visited dcount dflag]. repeat split. intros t. now rewrite tmemF_empty. }
  pose proof (dry_sim A B MA MB fa fb fo op limit GA GB (S (S (S (N.to_nat (nvars A))))) (root A B) _ _ R0) as HS.
  unfold root in *.
  destruct (dry A B fa fb fo op limit (S (S (S (N.to_nat (nvars A))))) (size A - 1, size B - 1) (mkD [] 0 false)) as [| |s],
           (dryF MA MB fa fb fo op limit (S (S (S (N.to_nat (nvars A))))) (size A - 1, size B - 1) (mkDF (PM.empty _) 0 false)) as [| |f];
    cbn in HS; try contradiction; try reflexivity.
  destruct HS as (_ & C & F). now rewrite C, F.
Qed.

Corollary check_fused_binary_flip_op_fast_eq : forall limit A B fa fb fo op,
  check_fused_binary_flip_op_fast limit A B fa fb fo op = check_fused_binary_flip_op limit A B fa fb fo op.
Proof. intros. unfold check_fused_binary_flip_op_fast, check_fused_binary_flip_op. now rewrite dry_run_fast_eq. Qed.

(* ---- transferred statements ---- *)
Theorem limit_fast_exact A B fa fb fo op limit :
  wf A -> wf B -> nvars A = nvars B -> flips_ok (nvars A) fa fb fo = true -> total2 op -> consistent2 op ->
  exists r, fused_binary_flip_op A B fa fb fo op = Ok r /\
    fused_binary_flip_op_with_limit_fast limit A B fa fb fo op = Ok (if size r <=? limit then Some r else None).
Proof. rewrite fused_binary_flip_op_with_limit_fast_eq. apply limit_exact. Qed.

Theorem check_fast_exact A B fa fb fo op :
  wf A -> wf B -> nvars A = nvars B -> flips_ok (nvars A) fa fb fo = true -> total2 op -> consistent2 op ->
  exists r c, fused_binary_flip_op A B fa fb fo op = Ok r /\ size r - 2 <= c /\
    forall limit, check_fused_binary_flip_op_fast limit A B fa fb fo op = Ok (if limit <? c then None else Some (negb (is_false r), c)).
Proof.
  intros H1 H2 H3 H4 H5 H6. destruct (check_exact A B fa fb fo op H1 H2 H3 H4 H5 H6) as (r & c & E1 & E2 & E3).
  exists r, c. repeat split; try assumption. intros limit. rewrite check_fused_binary_flip_op_fast_eq. apply E3.
Qed.

(* a non-trivial instance, computed by both versions *)
Example limit_fast_example :
  let A := [mkNode 3 0 0; mkNode 3 1 1; mkNode 1 0 1; mkNode 0 0 2] in
  let B := [mkNode 3 0 0; mkNode 3 1 1; mkNode 2 1 0] in
  fused_binary_flip_op_with_limit_fast 4 A B None None None op_xor = Ok None /\
  (exists r, fused_binary_flip_op_with_limit_fast 6 A B None None None op_xor = Ok (Some r) /\ size r = 6) /\
  check_fused_binary_flip_op_fast 100 A B None None None op_xor = Ok (Some (true, 4)) /\
  check_fused_binary_flip_op_fast 3 A B None None None op_xor = Ok None.
Proof. vm_compute. repeat split; try reflexivity. eexists; split; reflexivity. Qed.

Print Assumptions apply2_limit_fast_eq.
Print Assumptions dry_run_fast_eq.
Print Assumptions fused_binary_flip_op_with_limit_fast_eq.
Print Assumptions check_fused_binary_flip_op_fast_eq.
