(* Proofs/NestedSem.v — the faithful nested apply engine of Model/Nested.v:
   (a) fix_alignment_correct   : the DFS copy of a hash-consed store from a pointer is Canonical and denotes sem G p
   (b) inner_apply_correct     : the inner engine on two pointers of the growing store
   (c) oproc_ok / nested_run_ok: the memo of an outer task denotes the quantified specification
   (d) nested_fn_correct, nested_faithful_correct, nested_faithful_eq_model and the API corollaries. *)
From Coq Require Import List NArith Lia Bool Arith PeanoNat.
Import ListNotations.
From BddVerif Require Import Model.Bdd Model.Apply Model.Ops Model.Nested
  Proofs.Sem Proofs.Canon Proofs.ApplySem Proofs.ApplyTop Proofs.QuantSem.
Open Scope N_scope.

(* ======================================================================================== *)
(* hash-consed stores: terminals at 0/1, children at smaller indices, ordered, no redundant test *)

Definition nok (nv : N) (G : list node) (p : N) : Prop :=
  let n := get G p in
  nvar n < nv /\ nlow n < p /\ nhigh n < p /\
  nvar n < var_of G (nlow n) /\ nvar n < var_of G (nhigh n) /\ nlow n <> nhigh n.
Definition sok (nv : N) (G : list node) : Prop :=
  2 <= size G /\ get G 0 = mkNode nv 0 0 /\ get G 1 = mkNode nv 1 1 /\
  forall p, 2 <= p -> p < size G -> nok nv G p.
(* no two decision nodes are equal *)
Definition nodup (G : list node) : Prop :=
  forall p q, 2 <= p -> p < size G -> 2 <= q -> q < size G -> get G p = get G q -> p = q.

Lemma gapp1 (G l : list node) p : p < size G -> get (G ++ l) p = get G p.
Proof. intros H. unfold get, size in *. apply app_nth1. lia. Qed.
Lemma gapp_last (G : list node) n : get (G ++ [n]) (size G) = n.
Proof. unfold get, size. rewrite Nnat.Nat2N.id. rewrite app_nth2 by lia. now rewrite Nat.sub_diag. Qed.
Lemma sapp (G l : list node) : size (G ++ l) = size G + size l.
Proof. unfold size. rewrite app_length. lia. Qed.
Lemma vapp1 (G l : list node) p : p < size G -> var_of (G ++ l) p = var_of G p.
Proof. intros H. unfold var_of. now rewrite gapp1. Qed.

Lemma sok_nvars nv G : sok nv G -> nvars G = nv.
Proof. intros (_ & H0 & _). unfold nvars. rewrite H0. reflexivity. Qed.

Lemma sok_wf nv G : sok nv G -> wf G.
Proof.
  intros H. pose proof (sok_nvars nv G H) as Hn. destruct H as (Hs & H0 & H1 & Hp).
  unfold wf. rewrite Hn. split; [lia|]. split; [exact H0|]. split; [intros _; exact H1|].
  intros p Hp2 Hlt. destruct (Hp p Hp2 Hlt) as (a & b & c & d & e & _).
  unfold wf_node. repeat split; try assumption; lia.
Qed.

Lemma sok_reduced nv G : sok nv G -> nodup G -> reduced G.
Proof.
  intros (_ & _ & _ & Hn) D. split.
  - intros p Hp Hlt. destruct (Hn p Hp Hlt) as (_ & _ & _ & _ & _ & H). exact H.
  - exact D.
Qed.

Lemma sok_valid nv G p : sok nv G -> p < size G -> valid G p.
Proof. intros (H & _) Hp. split; [assumption|intros; lia]. Qed.

Lemma sok_term_var nv G p : sok nv G -> p < 2 -> var_of G p = nv.
Proof.
  intros (_ & H0 & H1 & _) Hp. unfold var_of.
  assert (p = 0 \/ p = 1) as [->| ->] by lia; [rewrite H0|rewrite H1]; reflexivity.
Qed.

Lemma sok_var_le nv G p : sok nv G -> p < size G -> var_of G p <= nv.
Proof.
  intros H Hp. pose proof (var_of_le G p (sok_wf _ _ H) (sok_valid _ _ _ H Hp)) as Hle.
  rewrite (sok_nvars _ _ H) in Hle. exact Hle.
Qed.

Lemma sok_var_lt nv G p : sok nv G -> 2 <= p -> p < size G -> var_of G p < nv.
Proof. intros (_ & _ & _ & Hn) H2 Hp. destruct (Hn p H2 Hp) as (a & _). exact a. Qed.

Lemma sok_dec nv G p : sok nv G -> p < size G -> var_of G p < nv -> 2 <= p.
Proof.
  intros H Hp Hv. destruct (N.ltb_spec p 2) as [Hlt|]; [|assumption].
  rewrite (sok_term_var nv G p H Hlt) in Hv. lia.
Qed.

Lemma sok_sem_ext nv G l : sok nv G -> sok nv (G ++ l) ->
  forall p, p < size G -> forall v, sem (G ++ l) p v = sem G p v.
Proof.
  intros HG HG'. pose proof (sok_wf _ _ HG) as WG. pose proof (sok_wf _ _ HG') as WG'.
  intros p. induction p as [p IH] using (well_founded_induction N.lt_wf_0). intros Hp v.
  destruct (N.ltb_spec p 2) as [Hlt|Hge].
  - assert (p = 0 \/ p = 1) as [->| ->] by lia; reflexivity.
  - assert (Hp' : p < size (G ++ l)) by (rewrite sapp; lia).
    rewrite (sem_unfold (G ++ l) p v WG' Hge Hp'), (sem_unfold G p v WG Hge Hp).
    unfold var_of. rewrite (gapp1 G l p Hp).
    destruct HG as (_ & _ & _ & Hn). destruct (Hn p Hge Hp) as (_ & Hl & Hh & _).
    destruct (v (nvar (get G p))); apply IH; lia.
Qed.

(* appending a well-formed decision node *)
Lemma sok_snoc nv G d x y : sok nv G -> d < nv -> x < size G -> y < size G ->
  d < var_of G x -> d < var_of G y -> x <> y -> sok nv (G ++ [mkNode d x y]).
Proof.
  intros HS Hd Hx Hy Hvx Hvy NE. set (n := mkNode d x y).
  destruct HS as (Hs2 & H0 & H1 & Hn). unfold sok. rewrite sapp.
  split; [lia|]. split; [rewrite gapp1 by lia; exact H0|]. split; [rewrite gapp1 by lia; exact H1|].
  intros p Hp2 Hp. change (size [n]) with 1 in Hp.
  destruct (N.eq_dec p (size G)) as [->|Hne].
  - unfold nok. rewrite gapp_last. cbn [nvar nlow nhigh n].
    rewrite !vapp1 by assumption. repeat split; assumption.
  - assert (Hp' : p < size G) by lia. destruct (Hn p Hp2 Hp') as (a & b & c & e & f & g).
    unfold nok. rewrite gapp1 by assumption.
    rewrite !vapp1 by lia. repeat split; assumption.
Qed.

Lemma sok_snoc_sem nv G d x y : sok nv G -> sok nv (G ++ [mkNode d x y]) -> x < size G -> y < size G ->
  forall v, sem (G ++ [mkNode d x y]) (size G) v = if v d then sem G y v else sem G x v.
Proof.
  intros HS HS' Hx Hy v. set (n := mkNode d x y) in *.
  assert (Hlt : size G < size (G ++ [n])) by (rewrite sapp; change (size [n]) with 1; lia).
  rewrite (sem_unfold _ (size G) v (sok_wf _ _ HS') ltac:(destruct HS; lia) Hlt).
  unfold var_of. rewrite gapp_last. cbn [nvar nlow nhigh n].
  destruct (v d); apply (sok_sem_ext nv); assumption.
Qed.

Lemma sok_mk_true nv : sok nv (mk_true nv).
Proof.
  unfold sok, mk_true. repeat split; try reflexivity; try (cbn; lia);
    intros; exfalso; change (size [mkNode nv 0 0; mkNode nv 1 1]) with 2 in *; lia.
Qed.

Lemma pfind_eq k q m : pfind k ((k, q) :: m) = Some q.
Proof. cbn [pfind]. now rewrite N.eqb_refl. Qed.
Lemma pfind_neq k k' q m : k <> k' -> pfind k ((k', q) :: m) = pfind k m.
Proof. intros H. cbn [pfind]. destruct (N.eqb_spec k k'); [contradiction|reflexivity]. Qed.

Lemma chk_vis k G lim p : p < lim -> chk (S k) G lim p = Some lim.
Proof. intros H. cbn [chk]. destruct (N.ltb_spec p lim); [reflexivity|lia]. Qed.

(* ======================================================================================== *)
(* (a) fix_alignment                                                                          *)
Section Copy.
  Variables (nv : N) (G : bdd).
  Hypothesis HG : sok nv G.
  Hypothesis DG : nodup G.

  Let WG : wf G := sok_wf nv G HG.
  Let RG : reduced G := sok_reduced nv G HG DG.

  Definition CInv (acc : list node) (pm : list (N * N)) : Prop :=
    sok nv acc /\
    (forall k q, pfind k pm = Some q ->
       2 <= k /\ k < size G /\ 2 <= q /\ q < size acc /\ var_of acc q = var_of G k /\
       forall v, sem acc q v = sem G k v) /\
    (forall q, 2 <= q -> q < size acc -> exists k, pfind k pm = Some q).

  Definition cpost (p : N) (acc : list node) (pm : list (N * N))
      (r : option (N * (list node * list (N * N)))) : Prop :=
    exists q acc' pm', r = Some (q, (acc', pm')) /\ CInv acc' pm' /\
      (exists l, acc' = acc ++ l) /\
      q < size acc' /\ (2 <= p -> 2 <= q) /\ var_of acc' q = var_of G p /\
      (forall v, sem acc' q v = sem G p v) /\
      (forall k, pfind k pm' <> None -> pfind k pm <> None \/ k <= p) /\
      (size acc' = size acc \/ q + 1 = size acc') /\
      (forall G' k, (exists l, G' = acc' ++ l) -> (N.to_nat (nv - var_of G p) < k)%nat ->
         chk k G' (size acc) q = Some (size acc')).

  Lemma copy_ok : forall fuel p acc pm, CInv acc pm -> p < size G ->
    (N.to_nat (nv - var_of G p) < fuel)%nat -> cpost p acc pm (copy fuel G p acc pm).
  Proof.
    induction fuel as [|f IH]; intros p acc pm HC Hp Hfuel; [lia|].
    cbn [copy]. pose proof HC as (SA & Snd & Sur).
    destruct (N.ltb_spec p 2) as [Hlt|Hge].
    - (* terminal *)
      exists p, acc, pm. pose proof SA as (S2 & _).
      split; [reflexivity|]. split; [exact HC|]. split; [exists []; now rewrite app_nil_r|].
      split; [lia|]. split; [intros; lia|].
      split; [rewrite (sok_term_var nv acc p SA Hlt), (sok_term_var nv G p HG Hlt); reflexivity|].
      split; [intros v; assert (p = 0 \/ p = 1) as [->| ->] by lia; reflexivity|].
      split; [intros k Hk; left; exact Hk|]. split; [left; reflexivity|].
      intros G' k _ Hk. destruct k as [|k]; [lia|]. apply chk_vis. lia.
    - destruct (pfind p pm) as [q|] eqn:Ef.
      + (* already copied *)
        destruct (Snd p q Ef) as (_ & _ & Hq2 & Hq & Hv & Hs).
        exists q, acc, pm.
        split; [reflexivity|]. split; [exact HC|]. split; [exists []; now rewrite app_nil_r|].
        split; [exact Hq|]. split; [intros; exact Hq2|]. split; [exact Hv|]. split; [exact Hs|].
        split; [intros k Hk; left; exact Hk|]. split; [left; reflexivity|].
        intros G' k _ Hk. destruct k as [|k]; [lia|]. apply chk_vis. exact Hq.
      + (* fresh: high, low, then the node *)
        pose proof HG as (_ & _ & _ & HnG). destruct (HnG p Hge Hp) as (Nv & Nl & Nh & Nvl & Nvh & Nne).
        fold (var_of G p) in Nv, Nvl, Nvh.
        set (hi := nhigh (get G p)) in *. set (lo := nlow (get G p)) in *.
        destruct (IH hi acc pm HC ltac:(lia) ltac:(lia))
          as (qh & acc1 & pm1 & -> & HC1 & (l1 & E1) & Qh & _ & Vh & Sh & K1 & Z1 & C1).
        destruct (IH lo acc1 pm1 HC1 ltac:(lia) ltac:(lia))
          as (ql & acc2 & pm2 & -> & HC2 & (l2 & E2) & Ql & _ & Vl & Sl & K2 & Z2 & C2).
        pose proof HC1 as (SA1 & _). pose proof HC2 as (SA2 & Snd2 & Sur2).
        assert (L1 : size acc <= size acc1) by (rewrite E1, sapp; lia).
        assert (L2 : size acc1 <= size acc2) by (rewrite E2, sapp; lia).
        assert (Qh2 : qh < size acc2) by lia.
        assert (Vh2 : var_of acc2 qh = var_of G hi) by (rewrite E2, vapp1 by assumption; exact Vh).
        assert (Sh2 : forall v, sem acc2 qh v = sem G hi v).
        { intros v. rewrite <- Sh. rewrite E2. apply (sok_sem_ext nv); [assumption|rewrite <- E2; assumption|assumption]. }
        assert (NEq : ql <> qh).
        { intros Eq. apply Nne. apply (sem_inj G); try assumption.
          - apply (sok_valid nv); [assumption|fold lo; lia].
          - apply (sok_valid nv); [assumption|fold hi; lia].
          - intros v. fold lo hi. rewrite <- Sl, <- Sh2, Eq. reflexivity. }
        set (n := mkNode (var_of G p) ql qh).
        assert (SA3 : sok nv (acc2 ++ [n])).
        { apply sok_snoc; try assumption; [rewrite Vl|rewrite Vh2]; assumption. }
        assert (Pnone : pfind p pm2 = None).
        { destruct (pfind p pm2) eqn:E; [|reflexivity]. exfalso.
          destruct (K2 p ltac:(rewrite E; discriminate)) as [H|H]; [|lia].
          destruct (K1 p H) as [H'|H']; [|lia]. apply H'. exact Ef. }
        assert (Sq : forall v, sem (acc2 ++ [n]) (size acc2) v = sem G p v).
        { intros v. unfold n. rewrite (sok_snoc_sem nv) by assumption.
          rewrite (sem_unfold G p v WG Hge Hp). fold hi lo.
          destruct (v (var_of G p)); [apply Sh2|apply Sl]. }
        exists (size acc2), (acc2 ++ [n]), ((p, size acc2) :: pm2).
        fold (var_of G p). fold n.
        split; [reflexivity|]. split.
        { (* CInv *)
          split; [exact SA3|]. split.
          - intros k q. destruct (N.eq_dec k p) as [->|NEk].
            + rewrite pfind_eq. intros E; inversion E; subst q. pose proof SA2 as (S2 & _).
              rewrite sapp. change (size [n]) with 1.
              repeat split; try lia; try assumption.
              * unfold var_of. rewrite gapp_last. reflexivity.
            + rewrite pfind_neq by assumption. intros E.
              destruct (Snd2 k q E) as (a & b & c & d & e & g).
              rewrite sapp. change (size [n]) with 1.
              repeat split; try lia.
              * rewrite vapp1 by assumption. exact e.
              * intros v. rewrite (sok_sem_ext nv) by assumption. apply g.
          - intros q Hq2 Hq. rewrite sapp in Hq. change (size [n]) with 1 in Hq.
            destruct (N.eq_dec q (size acc2)) as [->|NEq2].
            + exists p. apply pfind_eq.
            + destruct (Sur2 q Hq2 ltac:(lia)) as (k & Ek). exists k.
              rewrite pfind_neq; [exact Ek|]. intros ->. rewrite Pnone in Ek. discriminate. }
        split; [exists (l1 ++ l2 ++ [n]); rewrite E2, E1, !app_assoc; reflexivity|].
        split; [rewrite sapp; change (size [n]) with 1; lia|].
        split; [intros _; destruct SA2; lia|].
        split; [unfold var_of; rewrite gapp_last; reflexivity|].
        split; [exact Sq|].
        split.
        { intros k. destruct (N.eq_dec k p) as [->|NEk]; [intros _; right; lia|].
          rewrite pfind_neq by assumption. intros H.
          destruct (K2 k H) as [H'|H']; [|right; lia].
          destruct (K1 k H') as [H''|H'']; [left; exact H''|right; lia]. }
        split; [right; rewrite sapp; reflexivity|].
        intros G' k (l & EG) Hk. destruct k as [|k]; [lia|].
        assert (X2 : exists l', G' = acc2 ++ l') by (exists ([n] ++ l); rewrite EG, app_assoc; reflexivity).
        assert (X1 : exists l', G' = acc1 ++ l').
        { destruct X2 as (l' & E'). exists (l2 ++ l'). rewrite E', E2, app_assoc. reflexivity. }
        assert (Hget : get G' (size acc2) = n).
        { rewrite EG, gapp1 by (rewrite sapp; change (size [n]) with 1; lia). apply gapp_last. }
        cbn [chk]. destruct (N.ltb_spec (size acc2) (size acc)); [lia|].
        rewrite Hget. cbn [nhigh nlow n].
        rewrite (C1 G' k X1 ltac:(lia)). rewrite (C2 G' k X2 ltac:(lia)).
        rewrite N.eqb_refl. f_equal. rewrite sapp. reflexivity.
  Qed.

  Lemma CInv_nodup acc pm : CInv acc pm -> nodup acc.
  Proof.
    intros (SA & Snd & Sur) q q' Hq2 Hq Hq2' Hq' E.
    destruct (Sur q Hq2 Hq) as (k & Ek). destruct (Sur q' Hq2' Hq') as (k' & Ek').
    destruct (Snd k q Ek) as (a & b & _ & _ & _ & Sk).
    destruct (Snd k' q' Ek') as (a' & b' & _ & _ & _ & Sk').
    assert (k = k').
    { apply (sem_inj G); try assumption; try (apply (sok_valid nv); assumption).
      intros v. rewrite <- Sk, <- Sk'.
      rewrite (sem_unfold acc q v (sok_wf _ _ SA) Hq2 Hq), (sem_unfold acc q' v (sok_wf _ _ SA) Hq2' Hq').
      unfold var_of. rewrite E. reflexivity. }
    subst k'. congruence.
  Qed.

  Theorem fix_alignment_ok p : p < size G ->
    exists r, fix_alignment G p = Some r /\ Canonical r /\ nvars r = nv /\ forall v, eval r v = sem G p v.
  Proof.
    intros Hp. unfold fix_alignment. rewrite (sok_nvars nv G HG).
    destruct (N.eqb_spec p 0) as [->|N0].
    { exists (mk_false nv). split; [reflexivity|]. split; [|split; [reflexivity|intros v; reflexivity]].
      unfold Canonical, mk_false. split; [|split].
      - unfold wf. split; [cbn; lia|]. split; [reflexivity|]. split; [intros H; cbn in H; lia|].
        intros q H1 H2. cbn in H2. lia.
      - split; [intros q H1 H2; cbn in H2; lia|intros q q' H1 H2; cbn in H2; lia].
      - left. reflexivity. }
    destruct (N.eqb_spec p 1) as [->|N1].
    { exists (mk_true nv). split; [reflexivity|]. split; [|split; [reflexivity|intros v; reflexivity]].
      unfold Canonical. split; [exact (sok_wf _ _ (sok_mk_true nv))|]. split.
      - split; intros q; cbn; intros; lia.
      - right. reflexivity. }
    assert (C0 : CInv (mk_true nv) []).
    { split; [apply sok_mk_true|]. split; [intros k q E; discriminate|].
      intros q H1 H2. change (size (mk_true nv)) with 2 in H2. lia. }
    destruct (copy_ok (S (S (N.to_nat nv))) p (mk_true nv) [] C0 Hp ltac:(lia))
      as (q & r & pm & -> & HC & _ & Hq & Hq2 & _ & Sq & _ & Z & C).
    exists r. split; [reflexivity|]. pose proof HC as (SR & _).
    change (size (mk_true nv)) with 2 in Z, C.
    assert (Hroot : size r - 1 = q).
    { destruct Z as [Z|Z]; [|lia]. specialize (Hq2 ltac:(lia)). lia. }
    split; [|split].
    - unfold Canonical. split; [exact (sok_wf _ _ SR)|]. split.
      + apply (sok_reduced nv); [exact SR|]. apply (CInv_nodup r pm). exact HC.
      + right. rewrite (sok_nvars nv r SR), Hroot. apply C; [exists []; now rewrite app_nil_r|lia].
    - exact (sok_nvars nv r SR).
    - intros v. unfold eval. rewrite Hroot. apply Sq.
  Qed.
End Copy.

(* (a) stated for a store: valid hash-consed store (children at smaller indices, ordered, reduced, no duplicates) *)
Theorem fix_alignment_correct nv G p : sok nv G -> nodup G -> p < size G ->
  exists r, fix_alignment G p = Some r /\ Canonical r /\ nvars r = nvars G /\ forall v, eval r v = sem G p v.
Proof.
  intros HG DG Hp. destruct (fix_alignment_ok nv G HG DG p Hp) as (r & E & C & Nr & S).
  exists r. rewrite (sok_nvars nv G HG). auto.
Qed.
Print Assumptions fix_alignment_correct.

(* ======================================================================================== *)
(* (b) the inner engine: both operands are the (growing, append-only) store itself           *)
Lemma asb_term p : p < 2 -> exists a, as_bool p = Some a.
Proof. intros H. assert (p = 0 \/ p = 1) as [->| ->] by lia; eexists; reflexivity. Qed.

Lemma task_eqb_refl' (a b : task) : task_eqb a b = true <-> a = b.
Proof. destruct (task_eqb_spec a b); split; congruence. Qed.

Section Engine.
  Variable nv : N.
  Variables (inner : op2) (ibop : bool -> bool -> bool).
  Hypothesis I_total : forall a b, inner (Some a) (Some b) = Some (ibop a b).
  Hypothesis I_cons : forall x y r, inner x y = Some r -> forall a b, refines a x -> refines b y -> ibop a b = r.
  (* what an entry of the OUTER cache promises; anything stable under store extension *)
  Variable OG : list node -> task -> N -> Prop.
  Hypothesis OG_stable : forall G l t p, sok nv G -> sok nv (G ++ l) -> OG G t p -> OG (G ++ l) t p.

  Definition ispec (G : bdd) (t : task) (v : val) : bool := ibop (sem G (fst t) v) (sem G (snd t) v).
  Definition igood (G : list node) (t : task) (p : N) : Prop :=
    fst t < size G /\ snd t < size G /\ p < size G /\ level G G t <= var_of G p /\
    forall v, sem G p v = ispec G t v.

  Lemma level_app G l t : fst t < size G -> snd t < size G -> level (G ++ l) (G ++ l) t = level G G t.
  Proof. intros H1 H2. unfold level. rewrite !vapp1 by assumption. reflexivity. Qed.

  Lemma ispec_app G l t v : sok nv G -> sok nv (G ++ l) -> fst t < size G -> snd t < size G ->
    ispec (G ++ l) t v = ispec G t v.
  Proof. intros H H' H1 H2. unfold ispec. rewrite !(sok_sem_ext nv G l H H') by assumption. reflexivity. Qed.

  Lemma igood_app G l t p : sok nv G -> sok nv (G ++ l) -> igood G t p -> igood (G ++ l) t p.
  Proof.
    intros H H' (a & b & c & d & e). unfold igood. rewrite sapp.
    split; [lia|]. split; [lia|]. split; [lia|]. split.
    - rewrite level_app, vapp1 by assumption. exact d.
    - intros v. rewrite ispec_app, (sok_sem_ext nv) by assumption. apply e.
  Qed.

  Definition NInv (s : nst) : Prop :=
    sok nv (nn s) /\
    (forall n p, nfind n (nex s) = Some p -> p < size (nn s) /\ get (nn s) p = n) /\
    (forall p, 2 <= p -> p < size (nn s) -> nfind (get (nn s) p) (nex s) = Some p) /\
    (forall t p, tfind t (ninner s) = Some p -> igood (nn s) t p) /\
    (forall t p, tfind t (nouter s) = Some p -> OG (nn s) t p).

  Definition next (s s' : nst) : Prop := exists l, nn s' = nn s ++ l.
  Lemma next_refl s : next s s. Proof. exists []. now rewrite app_nil_r. Qed.
  Lemma next_trans a b c : next a b -> next b c -> next a c.
  Proof. intros (l & H) (l' & H'). exists (l ++ l'). rewrite H', H, app_assoc. reflexivity. Qed.
  Lemma next_size s s' : next s s' -> size (nn s) <= size (nn s').
  Proof. intros (l & E). rewrite E, sapp. lia. Qed.

  Lemma NInv_nodup s : NInv s -> nodup (nn s).
  Proof.
    intros (_ & _ & Hb & _) p q Hp Hpl Hq Hql E.
    pose proof (Hb p Hp Hpl) as E1. pose proof (Hb q Hq Hql) as E2. rewrite E in E1. congruence.
  Qed.

  Lemma next_sem s s' p v : NInv s -> NInv s' -> next s s' -> p < size (nn s) -> sem (nn s') p v = sem (nn s) p v.
  Proof. intros (H & _) (H' & _) (l & E) Hp. rewrite E in *. now apply (sok_sem_ext nv). Qed.
  Lemma next_var s s' p : next s s' -> p < size (nn s) -> var_of (nn s') p = var_of (nn s) p.
  Proof. intros (l & E) Hp. rewrite E. now apply vapp1. Qed.
  Lemma next_level s s' t : next s s' -> fst t < size (nn s) -> snd t < size (nn s) ->
    level (nn s') (nn s') t = level (nn s) (nn s) t.
  Proof. intros (l & E) H1 H2. rewrite E. now apply level_app. Qed.
  Lemma next_ispec s s' t v : NInv s -> NInv s' -> next s s' -> fst t < size (nn s) -> snd t < size (nn s) ->
    ispec (nn s') t v = ispec (nn s) t v.
  Proof. intros (H & _) (H' & _) (l & E) H1 H2. rewrite E in *. now apply ispec_app. Qed.
  Lemma next_igood s s' t p : NInv s -> NInv s' -> next s s' -> igood (nn s) t p -> igood (nn s') t p.
  Proof. intros (H & _) (H' & _) (l & E) Hg. rewrite E in *. now apply igood_app. Qed.
  Lemma next_OG s s' t p : NInv s -> NInv s' -> next s s' -> OG (nn s) t p -> OG (nn s') t p.
  Proof. intros (H & _) (H' & _) (l & E) Hg. rewrite E in *. now apply OG_stable. Qed.

  Lemma NInv_imemo s t p : NInv s -> igood (nn s) t p -> NInv (imemo s t p).
  Proof.
    intros (H1 & H2 & H3 & H4 & H5) Hg. unfold NInv, imemo; cbn [nn nex ninner nouter].
    split; [assumption|]. split; [assumption|]. split; [assumption|]. split; [|assumption].
    intros t' p'. cbn [tfind]. destruct (task_eqb_spec t' t) as [->|NE].
    - intros E; inversion E; subst; exact Hg.
    - apply H4.
  Qed.
  Lemma NInv_omemo s t p : NInv s -> OG (nn s) t p -> NInv (omemo s t p).
  Proof.
    intros (H1 & H2 & H3 & H4 & H5) Hg. unfold NInv, omemo; cbn [nn nex ninner nouter].
    split; [assumption|]. split; [assumption|]. split; [assumption|]. split; [assumption|].
    intros t' p'. cbn [tfind]. destruct (task_eqb_spec t' t) as [->|NE].
    - intros E; inversion E; subst; exact Hg.
    - apply H5.
  Qed.

  (* hash-consing a node *)
  Lemma nmk_ok s d x y :
    NInv s -> d < nv -> x < size (nn s) -> y < size (nn s) ->
    d < var_of (nn s) x -> d < var_of (nn s) y ->
    exists p s', nmk s d x y = (p, s') /\ NInv s' /\ next s s' /\
      p < size (nn s') /\ d <= var_of (nn s') p /\
      forall v, sem (nn s') p v = if v d then sem (nn s) y v else sem (nn s) x v.
  Proof.
    intros HI Hd Hx Hy Hvx Hvy. unfold nmk.
    destruct (N.eqb_spec x y) as [->|NE].
    - exists y, s. split; [reflexivity|]. split; [assumption|]. split; [apply next_refl|].
      split; [assumption|]. split; [lia|]. intros v; destruct (v d); reflexivity.
    - pose proof HI as (HS & Ha & Hb & Hf & Ho).
      destruct (nfind (mkNode d x y) (nex s)) as [p|] eqn:En.
      + destruct (Ha _ _ En) as (Hp & Hg).
        assert (Hp2 : 2 <= p).
        { apply (sok_dec nv (nn s)); try assumption. unfold var_of. rewrite Hg. exact Hd. }
        exists p, s. split; [reflexivity|]. split; [assumption|]. split; [apply next_refl|].
        split; [assumption|]. split.
        * unfold var_of. rewrite Hg. cbn. lia.
        * intros v. rewrite (sem_unfold _ p v (sok_wf _ _ HS) Hp2 Hp). unfold var_of. rewrite Hg.
          cbn [nvar nlow nhigh]. destruct (v d); reflexivity.
      + set (G := nn s) in *. set (n := mkNode d x y) in *.
        assert (HS' : sok nv (G ++ [n])) by (apply sok_snoc; assumption).
        exists (size G), (mkN (G ++ [n]) ((n, size G) :: nex s) (nouter s) (ninner s)).
        split; [reflexivity|]. cbn [nn]. split; [|split; [|split; [|split]]].
        * unfold NInv. cbn [nn nex ninner nouter]. split; [exact HS'|]. split; [|split; [|split]].
          -- intros n' q. cbn [nfind]. destruct (node_eqb_spec n' n) as [->|Hne].
             ++ intros E; inversion E; subst. rewrite sapp, gapp_last. change (size [n]) with 1. split; [lia|reflexivity].
             ++ intros E. destruct (Ha _ _ E) as (Hq & Hgq). rewrite sapp, gapp1 by assumption. split; [lia|assumption].
          -- intros q Hq2 Hq. rewrite sapp in Hq. change (size [n]) with 1 in Hq. cbn [nfind].
             destruct (N.eq_dec q (size G)) as [->|Hne].
             ++ rewrite gapp_last. destruct (node_eqb_spec n n); [reflexivity|congruence].
             ++ assert (Hq' : q < size G) by lia. rewrite gapp1 by assumption.
                destruct (node_eqb_spec (get G q) n) as [E|_].
                ** rewrite <- E in En. rewrite (Hb q Hq2 Hq') in En. discriminate.
                ** apply Hb; assumption.
          -- intros t p Ht. apply igood_app; auto.
          -- intros t p Ht. apply OG_stable; auto.
        * exists [n]. reflexivity.
        * rewrite sapp. change (size [n]) with 1. lia.
        * unfold var_of. rewrite gapp_last. cbn. lia.
        * apply (sok_snoc_sem nv); assumption.
  Qed.

  Lemma ilevel_le G t : sok nv G -> fst t < size G -> level G G t <= nv.
  Proof. intros H H1. unfold level. pose proof (sok_var_le nv G (fst t) H H1). lia. Qed.

  Lemma ilevel_term G t : sok nv G -> fst t < size G -> snd t < size G -> level G G t = nv -> fst t < 2 /\ snd t < 2.
  Proof.
    intros H H1 H2 E. unfold level in E. split.
    - destruct (N.ltb_spec (fst t) 2); [assumption|]. pose proof (sok_var_lt nv G _ H H0 H1). lia.
    - destruct (N.ltb_spec (snd t) 2); [assumption|]. pose proof (sok_var_lt nv G _ H H0 H2). lia.
  Qed.

  Lemma iterminal G t c : inner (as_bool (fst t)) (as_bool (snd t)) = Some c -> forall u, ispec G t u = c.
  Proof.
    intros H u. unfold ispec. eapply I_cons; [exact H| |].
    - destruct (as_bool_refines G (fst t) u) as [->| ->]; cbn; auto.
    - destruct (as_bool_refines G (snd t) u) as [->| ->]; cbn; auto.
  Qed.

  Lemma iexpand G t : sok nv G -> fst t < size G -> snd t < size G -> level G G t < nv ->
    fst (t_lo G G None None t) < size G /\ snd (t_lo G G None None t) < size G /\
    fst (t_hi G G None None t) < size G /\ snd (t_hi G G None None t) < size G /\
    level G G t < level G G (t_lo G G None None t) /\ level G G t < level G G (t_hi G G None None t) /\
    forall u, ispec G t u = if u (level G G t) then ispec G (t_hi G G None None t) u else ispec G (t_lo G G None None t) u.
  Proof.
    intros HS H1 H2 Hl. pose proof (sok_wf _ _ HS) as WG.
    assert (Vt : tvalid G G t) by (split; apply (sok_valid nv); assumption).
    rewrite <- (sok_nvars nv G HS) in Hl.
    destruct (spec_expand G G None None ibop WG WG eq_refl t (fun _ => false) Vt Hl)
      as (((a1 & _) & (a2 & _)) & ((b1 & _) & (b2 & _)) & c & d & _).
    repeat split; try assumption.
    intros u. destruct (spec_expand G G None None ibop WG WG eq_refl t u Vt Hl) as (_ & _ & _ & _ & E).
    exact E.
  Qed.

  Definition ipost (t : task) (s : nst) (r : option (N * nst)) : Prop :=
    exists p s', r = Some (p, s') /\ NInv s' /\ next s s' /\ igood (nn s') t p.

  Lemma igood_const G t c : sok nv G -> fst t < size G -> snd t < size G ->
    (forall u, ispec G t u = c) -> igood G t (of_bool c).
  Proof.
    intros HS H1 H2 Hc. pose proof HS as (S2 & _).
    assert (Hb : of_bool c < 2) by (destruct c; cbn; lia).
    split; [assumption|]. split; [assumption|]. split; [lia|]. split.
    - rewrite (sok_term_var nv G _ HS Hb). apply ilevel_le; assumption.
    - intros v. rewrite Hc. destruct c; reflexivity.
  Qed.

  Lemma iensure_ok proc t s :
    NInv s -> fst t < size (nn s) -> snd t < size (nn s) ->
    (level (nn s) (nn s) t < nv -> ipost t s (proc t s)) ->
    ipost t s (iensure inner proc t s).
  Proof.
    intros HI H1 H2 Hproc. unfold iensure. pose proof HI as (HS & _).
    destruct (inner (as_bool (fst t)) (as_bool (snd t))) as [c|] eqn:Eop.
    - exists (of_bool c), s. split; [reflexivity|]. split; [assumption|]. split; [apply next_refl|].
      apply igood_const; try assumption. apply iterminal. exact Eop.
    - destruct (tfind t (ninner s)) as [p|] eqn:Ef.
      + exists p, s. split; [reflexivity|]. split; [assumption|]. split; [apply next_refl|].
        destruct HI as (_ & _ & _ & Hf & _). now apply Hf.
      + apply Hproc. pose proof (ilevel_le _ t HS H1).
        destruct (N.eq_dec (level (nn s) (nn s) t) nv) as [E|NE]; [exfalso|lia].
        destruct (ilevel_term _ t HS H1 H2 E) as (T1 & T2).
        destruct (asb_term _ T1) as (a & Ea), (asb_term _ T2) as (b & Eb).
        rewrite Ea, Eb, I_total in Eop. discriminate.
  Qed.

  Lemma iproc_ok : forall fuel t s, NInv s -> fst t < size (nn s) -> snd t < size (nn s) ->
    level (nn s) (nn s) t < nv -> (N.to_nat (nv - level (nn s) (nn s) t) <= fuel)%nat ->
    ipost t s (iproc inner fuel t s).
  Proof.
    induction fuel as [|f IH]; intros t s HI H1 H2 Hlt Hfuel; [lia|].
    cbn [iproc]. set (G := nn s) in *. set (dv := level G G t) in *.
    pose proof HI as (HS & _).
    destruct (iexpand G t HS H1 H2 Hlt) as (L1 & L2 & U1 & U2 & Llo & Lhi & Hexp). fold dv in Llo, Lhi, Hexp.
    set (tlo := t_lo G G None None t) in *. set (thi := t_hi G G None None t) in *.
    assert (Hsub : forall t' s', NInv s' -> next s s' -> fst t' < size G -> snd t' < size G -> dv < level G G t' ->
               ipost t' s' (iensure inner (iproc inner f) t' s')).
    { intros t' s' HI' X' A1 A2 Hl'. pose proof (next_size _ _ X') as Hsz. fold G in Hsz.
      assert (B1 : fst t' < size (nn s')) by lia. assert (B2 : snd t' < size (nn s')) by lia.
      apply iensure_ok; try assumption.
      intros Hl2. apply IH; try assumption.
      rewrite (next_level s s' t' X' A1 A2). fold G. lia. }
    destruct (Hsub thi s HI (next_refl s) U1 U2 Lhi) as (phi & s1 & -> & HI1 & X1 & G1).
    destruct (Hsub tlo s1 HI1 X1 L1 L2 Llo) as (plo & s2 & -> & HI2 & X2 & G2).
    pose proof (next_igood s1 s2 _ _ HI1 HI2 X2 G1) as G1'.
    pose proof (next_trans _ _ _ X1 X2) as X02.
    destruct G1' as (_ & _ & Phi & Vhi & Shi). destruct G2 as (_ & _ & Plo & Vlo & Slo).
    rewrite (next_level s s2 thi X02 U1 U2) in Vhi. rewrite (next_level s s2 tlo X02 L1 L2) in Vlo.
    fold G in Vhi, Vlo.
    destruct (nmk_ok s2 dv plo phi HI2 Hlt Plo Phi ltac:(lia) ltac:(lia))
      as (p & s3 & -> & HI3 & X3 & Pp & Vp & Sp).
    pose proof (next_trans _ _ _ X02 X3) as X03.
    assert (Hg : igood (nn s3) t p).
    { pose proof (next_size _ _ X03). fold G in H.
      split; [lia|]. split; [lia|]. split; [assumption|]. split.
      - rewrite (next_level s s3 t X03 H1 H2). fold G dv. exact Vp.
      - intros v. rewrite Sp, Slo, Shi.
        rewrite (next_ispec s s3 t v HI HI3 X03 H1 H2).
        rewrite (next_ispec s s2 thi v HI HI2 X02 U1 U2), (next_ispec s s2 tlo v HI HI2 X02 L1 L2).
        fold G. rewrite Hexp. reflexivity. }
    exists p, (imemo s3 t p). split; [reflexivity|]. split; [apply NInv_imemo; assumption|].
    split; [exact X03|]. exact Hg.
  Qed.

  Lemma term_kids G t : sok nv G -> fst t < 2 -> snd t < 2 ->
    t_lo G G None None t = t /\ t_hi G G None None t = t /\ level G G t = nv.
  Proof.
    intros (_ & H0 & H1 & _) Ha Hb. destruct t as [a b]. cbn [fst snd] in *.
    unfold t_lo, t_hi, level, kids, var_of. cbn [fst snd].
    assert (a = 0 \/ a = 1) as [->| ->] by lia; assert (b = 0 \/ b = 1) as [->| ->] by lia;
      rewrite ?H0, ?H1; cbn [nvar nlow nhigh]; rewrite N.min_id, N.eqb_refl; cbn; auto.
  Qed.

  (* the root task of an inner invocation may consist of two terminals (no terminal lookup for the root) *)
  Lemma iproc_term f t s : NInv s -> fst t < 2 -> snd t < 2 -> ipost t s (iproc inner (S f) t s).
  Proof.
    intros HI Ha Hb. pose proof HI as (HS & _). pose proof HS as (S2 & _).
    cbn [iproc]. destruct (term_kids (nn s) t HS Ha Hb) as (-> & -> & ->).
    destruct (asb_term _ Ha) as (a & Ea), (asb_term _ Hb) as (b & Eb).
    unfold iensure. rewrite Ea, Eb, I_total. unfold nmk. rewrite N.eqb_refl.
    assert (Hg : igood (nn s) t (of_bool (ibop a b))).
    { apply igood_const; try assumption; try lia. apply iterminal. rewrite Ea, Eb. apply I_total. }
    exists (of_bool (ibop a b)), (imemo s t (of_bool (ibop a b))).
    split; [reflexivity|]. split; [apply NInv_imemo; assumption|].
    split; [exists []; cbn [nn imemo]; now rewrite app_nil_r|]. exact Hg.
  Qed.

  Theorem inner_apply_ok s l r : NInv s -> l < size (nn s) -> r < size (nn s) ->
    ipost (l, r) s (inner_apply inner l r s).
  Proof.
    intros HI Hl Hr. unfold inner_apply. pose proof HI as (HS & _).
    destruct (tfind (l, r) (ninner s)) as [p|] eqn:Ef.
    - exists p, s. split; [reflexivity|]. split; [assumption|]. split; [apply next_refl|].
      destruct HI as (_ & _ & _ & Hf & _). now apply Hf.
    - rewrite (sok_nvars nv _ HS).
      pose proof (ilevel_le (nn s) (l, r) HS Hl) as Hle.
      destruct (N.eq_dec (level (nn s) (nn s) (l, r)) nv) as [E|NE].
      + destruct (ilevel_term (nn s) (l, r) HS Hl Hr E) as (T1 & T2). apply iproc_term; assumption.
      + apply iproc_ok; try assumption; cbn [fst snd]; try lia.
  Qed.
End Engine.

(* (b) as a closed statement: on a state whose store is a valid hash-consed store (and whose caches are
   sound), inner_apply on two pointers of the store returns a pointer denoting the pointwise connective,
   extends the store append-only and preserves the invariant; everything that was true of old pointers
   stays true (next_sem). *)
Theorem inner_apply_correct nv inner ibop (OG : list node -> task -> N -> Prop) :
  (forall a b, inner (Some a) (Some b) = Some (ibop a b)) ->
  (forall x y r, inner x y = Some r -> forall a b, refines a x -> refines b y -> ibop a b = r) ->
  (forall G l t p, sok nv G -> sok nv (G ++ l) -> OG G t p -> OG (G ++ l) t p) ->
  forall s l r, NInv nv ibop OG s -> l < size (nn s) -> r < size (nn s) ->
  exists p s', inner_apply inner l r s = Some (p, s') /\ NInv nv ibop OG s' /\
    (exists ext, nn s' = nn s ++ ext) /\ p < size (nn s') /\
    (forall q v, q < size (nn s) -> sem (nn s') q v = sem (nn s) q v) /\
    forall v, sem (nn s') p v = ibop (sem (nn s) l v) (sem (nn s) r v).
Proof.
  intros T C St s l r HI Hl Hr.
  destruct (inner_apply_ok nv inner ibop T C OG St s l r HI Hl Hr) as (p & s' & E & HI' & X & (_ & _ & Pp & _ & Sp)).
  exists p, s'. split; [exact E|]. split; [exact HI'|]. split; [exact X|]. split; [exact Pp|]. split.
  - intros q v Hq. apply (next_sem nv ibop OG s s'); assumption.
  - intros v. rewrite Sp. unfold ispec. cbn [fst snd].
    rewrite !(next_sem nv ibop OG s s') by assumption. reflexivity.
Qed.
Print Assumptions inner_apply_correct.

(* ======================================================================================== *)
(* (c) the outer engine: the memo of an outer task denotes Q_S (spec t), S = triggered variables *)

(* quantification (u = true: universal) over the variables selected by a trigger predicate *)
Definition qtr (trigger : N -> bool) (u : bool) (f : val -> bool) (v : val) : Prop :=
  if u then forall w, (forall y, trigger y = false -> w y = v y) -> f w = true
  else exists w, (forall y, trigger y = false -> w y = v y) /\ f w = true.
Definition indep (g : val -> bool) (x : N) : Prop := forall w c, g (upd w x c) = g w.

Lemma qtr_const trigger u f c v : (forall w, f w = c) -> (c = true <-> qtr trigger u f v).
Proof.
  intros H. destruct u; unfold qtr; split.
  - intros -> w _. apply H.
  - intros Q. rewrite <- (H v). apply Q. intros; reflexivity.
  - intros ->. exists v. split; [intros; reflexivity|apply H].
  - intros (w & _ & Q). rewrite <- (H w). exact Q.
Qed.

(* Shannon expansion on a variable that is not quantified *)
Lemma qtr_untrig trigger u (f f1 f0 : val -> bool) x v : trigger x = false ->
  (forall w, f w = if w x then f1 w else f0 w) ->
  (qtr trigger u f v <-> if v x then qtr trigger u f1 v else qtr trigger u f0 v).
Proof.
  intros Hx Hf. destruct u; unfold qtr.
  - split.
    + intros Q. destruct (v x) eqn:Ev; intros w A; specialize (Q w A); rewrite Hf, (A x Hx), Ev in Q; exact Q.
    + intros Q w A. rewrite Hf, (A x Hx). destruct (v x); apply Q; exact A.
  - split.
    + intros (w & A & Q). rewrite Hf, (A x Hx) in Q. destruct (v x); exists w; split; assumption.
    + intros Q. destruct (v x) eqn:Ev; destruct Q as (w & A & Q); exists w; (split; [exact A|]);
        rewrite Hf, (A x Hx), Ev; exact Q.
Qed.

(* Shannon expansion on a quantified variable: Q (ite x f1 f0) = inner (Q f1) (Q f0) *)
Lemma qtr_trig trigger u (f f1 f0 : val -> bool) x v : trigger x = true ->
  (forall w, f w = if w x then f1 w else f0 w) -> indep f1 x -> indep f0 x ->
  (qtr trigger u f v <->
   if u then qtr trigger u f1 v /\ qtr trigger u f0 v else qtr trigger u f1 v \/ qtr trigger u f0 v).
Proof.
  intros Hx Hf I1 I0.
  assert (Aupd : forall w c, (forall y, trigger y = false -> w y = v y) ->
                 forall y, trigger y = false -> upd w x c y = v y).
  { intros w c A y Hy. rewrite upd_other; [apply A; exact Hy|]. intros ->. congruence. }
  destruct u; unfold qtr.
  - split.
    + intros Q. split; intros w A.
      * rewrite <- (I1 w true). specialize (Q (upd w x true) (Aupd w true A)). rewrite Hf, upd_same in Q. exact Q.
      * rewrite <- (I0 w false). specialize (Q (upd w x false) (Aupd w false A)). rewrite Hf, upd_same in Q. exact Q.
    + intros (Q1 & Q0) w A. rewrite Hf. destruct (w x); [apply Q1|apply Q0]; exact A.
  - split.
    + intros (w & A & Q). rewrite Hf in Q. destruct (w x); [left|right]; exists w; split; assumption.
    + intros [(w & A & Q)|(w & A & Q)].
      * exists (upd w x true). split; [apply Aupd; exact A|]. rewrite Hf, upd_same, I1. exact Q.
      * exists (upd w x false). split; [apply Aupd; exact A|]. rewrite Hf, upd_same, I0. exact Q.
Qed.

Section Outer.
  Variables (A B : bdd) (trigger : N -> bool) (outer inner : op2).
  Variables (obop : bool -> bool -> bool) (u : bool).
  Definition ibop_of (u : bool) : bool -> bool -> bool := if u then andb else orb.
  Hypothesis WA : wf A.
  Hypothesis WB : wf B.
  Hypothesis NV : nvars A = nvars B.
  Let nv := nvars A.
  Hypothesis O_total : forall a b, outer (Some a) (Some b) = Some (obop a b).
  Hypothesis O_cons : forall x y r, outer x y = Some r -> forall a b, refines a x -> refines b y -> obop a b = r.
  Hypothesis I_total : forall a b, inner (Some a) (Some b) = Some (ibop_of u a b).
  Hypothesis I_cons : forall x y r, inner x y = Some r -> forall a b, refines a x -> refines b y -> ibop_of u a b = r.

  Definition ospec (t : task) (w : val) : bool := obop (sem A (fst t) w) (sem B (snd t) w).
  Definition OGood (G : list node) (t : task) (p : N) : Prop :=
    p < size G /\ level A B t <= var_of G p /\ forall v, sem G p v = true <-> qtr trigger u (ospec t) v.

  Lemma OGood_stable G l t p : sok nv G -> sok nv (G ++ l) -> OGood G t p -> OGood (G ++ l) t p.
  Proof.
    intros H H' (a & b & c). unfold OGood. rewrite sapp. split; [lia|]. split.
    - rewrite vapp1 by assumption. exact b.
    - intros v. rewrite (sok_sem_ext nv) by assumption. apply c.
  Qed.

  Local Notation NI := (NInv nv (ibop_of u) OGood).
  Local Notation tlo := (t_lo A B None None).
  Local Notation thi := (t_hi A B None None).
  Local Notation lev := (level A B).

  Definition opost (t : task) (s : nst) (r : option (N * nst)) : Prop :=
    exists p s', r = Some (p, s') /\ NI s' /\ next s s' /\ OGood (nn s') t p.

  Lemma OGood_const G t c : sok nv G -> tvalid A B t -> (forall w, ospec t w = c) -> OGood G t (of_bool c).
  Proof.
    intros HS Vt Hc. pose proof HS as (S2 & _).
    assert (Hb : of_bool c < 2) by (destruct c; cbn; lia).
    split; [lia|]. split.
    - rewrite (sok_term_var nv G _ HS Hb). exact (level_le A B WA NV t Vt).
    - intros v. etransitivity; [|apply (qtr_const trigger u (ospec t) c v Hc)].
      destruct c; cbn; split; auto.
  Qed.

  Lemma oterminal t c : outer (as_bool (fst t)) (as_bool (snd t)) = Some c -> forall w, ospec t w = c.
  Proof. intros H w. exact (terminal_sound A B None None outer obop O_cons t c H w). Qed.

  Lemma oensure_ok proc t s :
    NI s -> tvalid A B t ->
    (lev t < nv -> opost t s (proc t s)) ->
    opost t s (oensure outer proc t s).
  Proof.
    intros HI Vt Hproc. unfold oensure. pose proof HI as (HS & _).
    destruct (outer (as_bool (fst t)) (as_bool (snd t))) as [c|] eqn:Eop.
    - exists (of_bool c), s. split; [reflexivity|]. split; [assumption|]. split; [apply next_refl|].
      apply OGood_const; try assumption. apply oterminal. exact Eop.
    - destruct (tfind t (nouter s)) as [p|] eqn:Ef.
      + exists p, s. split; [reflexivity|]. split; [assumption|]. split; [apply next_refl|].
        destruct HI as (_ & _ & _ & _ & Hf). now apply Hf.
      + apply Hproc. pose proof (level_le A B WA NV t Vt) as Hle. fold nv in Hle.
        destruct (N.eq_dec (lev t) nv) as [E|NE]; [exfalso|lia].
        destruct (level_nv_terminal A B WA WB NV t Vt E) as (T1 & T2).
        destruct (asb_term _ T1) as (a & Ea), (asb_term _ T2) as (b & Eb).
        rewrite Ea, Eb, O_total in Eop. discriminate.
  Qed.

  Lemma oexpand t : tvalid A B t -> lev t < nv ->
    tvalid A B (tlo t) /\ tvalid A B (thi t) /\ lev t < lev (tlo t) /\ lev t < lev (thi t) /\
    (forall w, ospec t w = if w (lev t) then ospec (thi t) w else ospec (tlo t) w) /\
    indep (ospec (thi t)) (lev t) /\ indep (ospec (tlo t)) (lev t).
  Proof.
    intros Vt Hlt.
    destruct (spec_expand A B None None obop WA WB NV t (fun _ => false) Vt Hlt) as (Vlo & Vhi & Llo & Lhi & _).
    split; [assumption|]. split; [assumption|]. split; [assumption|]. split; [assumption|]. split.
    - intros w. destruct (spec_expand A B None None obop WA WB NV t w Vt Hlt) as (_ & _ & _ & _ & E). exact E.
    - assert (Hind : forall t', tvalid A B t' -> lev t < lev t' -> indep (ospec t') (lev t)).
      { intros t' (V1 & V2) Hl w c. unfold ospec. set (x := lev t) in *. unfold level in Hl.
        rewrite (sem_indep A), (sem_indep B); try assumption; try reflexivity; lia. }
      split; apply Hind; assumption.
  Qed.

  Lemma ibop_true a b : ibop_of u a b = true <-> if u then a = true /\ b = true else a = true \/ b = true.
  Proof. unfold ibop_of. destruct u; [apply andb_true_iff|apply orb_true_iff]. Qed.

  (* the resolve step: collapse (idempotence of or/and), inner apply, or hash-consing *)
  Lemma resolve_ok t s plo phi :
    NI s -> tvalid A B t -> lev t < nv ->
    OGood (nn s) (thi t) phi -> OGood (nn s) (tlo t) plo ->
    opost t s (resolve trigger inner (lev t) plo phi s).
  Proof.
    intros HI Vt Hlt (Phi & Vhi & Shi) (Plo & Vlo & Slo).
    destruct (oexpand t Vt Hlt) as (_ & _ & Llo & Lhi & Hexp & Ihi & Ilo).
    set (dv := lev t) in *.
    assert (Qt : forall v, qtr trigger u (ospec t) v <->
               if trigger dv then (if u then qtr trigger u (ospec (thi t)) v /\ qtr trigger u (ospec (tlo t)) v
                                   else qtr trigger u (ospec (thi t)) v \/ qtr trigger u (ospec (tlo t)) v)
               else if v dv then qtr trigger u (ospec (thi t)) v else qtr trigger u (ospec (tlo t)) v).
    { intros v. destruct (trigger dv) eqn:Etr.
      - apply (qtr_trig trigger u (ospec t) (ospec (thi t)) (ospec (tlo t)) dv v Etr Hexp Ihi Ilo).
      - apply (qtr_untrig trigger u (ospec t) (ospec (thi t)) (ospec (tlo t)) dv v Etr Hexp). }
    unfold resolve. destruct (N.eqb_spec plo phi) as [Epp|NEpp].
    - (* equal sub-results *)
      subst phi. exists plo, s. split; [reflexivity|]. split; [assumption|]. split; [apply next_refl|].
      split; [assumption|]. split; [fold dv; lia|].
      intros v. rewrite Qt. pose proof (Shi v) as S1. pose proof (Slo v) as S0.
      destruct (trigger dv); [destruct u|destruct (v dv)]; tauto.
    - destruct (trigger dv) eqn:Etr.
      + (* quantified decision variable: merge by the inner engine inside the store *)
        destruct (inner_apply_ok nv inner (ibop_of u) I_total I_cons OGood OGood_stable s plo phi HI Plo Phi)
          as (p & s' & -> & HI' & X & (_ & _ & Pp & Vp & Sp)).
        exists p, s'. split; [reflexivity|]. split; [assumption|]. split; [assumption|].
        split; [assumption|]. split.
        * unfold level in Vp. cbn [fst snd] in Vp.
          rewrite (next_var s s' plo X Plo), (next_var s s' phi X Phi) in Vp. fold dv. lia.
        * intros v. rewrite Sp. unfold ispec. cbn [fst snd].
          rewrite (next_sem nv (ibop_of u) OGood s s' plo v HI HI' X Plo),
                  (next_sem nv (ibop_of u) OGood s s' phi v HI HI' X Phi).
          rewrite ibop_true, Qt. pose proof (Shi v) as S1. pose proof (Slo v) as S0.
          destruct u; tauto.
      + (* ordinary decision node *)
        destruct (nmk_ok nv (ibop_of u) OGood OGood_stable s dv plo phi HI Hlt Plo Phi ltac:(lia) ltac:(lia))
          as (p & s' & -> & HI' & X & Pp & Vp & Sp).
        exists p, s'. split; [reflexivity|]. split; [assumption|]. split; [assumption|].
        split; [assumption|]. split; [fold dv; assumption|].
        intros v. rewrite Sp, Qt. pose proof (Shi v) as S1. pose proof (Slo v) as S0.
        destruct (v dv); tauto.
  Qed.

  Lemma oproc_ok : forall fuel t s, NI s -> tvalid A B t -> lev t < nv ->
    (N.to_nat (nv - lev t) <= fuel)%nat -> opost t s (oproc A B trigger outer inner fuel t s).
  Proof.
    induction fuel as [|f IH]; intros t s HI Vt Hlt Hfuel; [lia|].
    cbn [oproc].
    destruct (oexpand t Vt Hlt) as (Vlo & Vhi & Llo & Lhi & _).
    assert (Hsub : forall t' s', NI s' -> tvalid A B t' -> lev t < lev t' ->
               opost t' s' (oensure outer (oproc A B trigger outer inner f) t' s')).
    { intros t' s' HI' Vt' Hl'. apply oensure_ok; try assumption. intros Hl2. apply IH; try assumption. lia. }
    destruct (Hsub (thi t) s HI Vhi Lhi) as (phi & s1 & -> & HI1 & X1 & G1).
    destruct (Hsub (tlo t) s1 HI1 Vlo Llo) as (plo & s2 & -> & HI2 & X2 & G2).
    pose proof (next_OG nv (ibop_of u) OGood OGood_stable s1 s2 _ _ HI1 HI2 X2 G1) as G1'.
    destruct (resolve_ok t s2 plo phi HI2 Vt Hlt G1' G2) as (p & s3 & -> & HI3 & X3 & G3).
    exists p, (omemo s3 t p). split; [reflexivity|]. split; [apply NInv_omemo; assumption|].
    split; [|exact G3].
    eapply next_trans; [exact X1|]. eapply next_trans; [exact X2|]. exact X3.
  Qed.

  Lemma NI_n0 : NI (n0 A).
  Proof.
    unfold NInv, n0; cbn [nn nex ninner nouter]. split; [|split; [|split; [|split]]].
    - exact (sok_mk_true nv).
    - intros n p. cbn [nfind]. destruct (node_eqb_spec n (zero A)) as [->|_].
      + intros E; inversion E; subst. split; [cbn; lia|reflexivity].
      + destruct (node_eqb_spec n (one A)) as [->|_]; [|discriminate].
        intros E; inversion E; subst. split; [cbn; lia|reflexivity].
    - intros p H1 H2. cbn in H2. lia.
    - intros t p. cbn. discriminate.
    - intros t p. cbn. discriminate.
  Qed.

  Lemma oterm_kids t : tvalid A B t -> fst t < 2 -> snd t < 2 -> tlo t = t /\ thi t = t.
  Proof.
    intros (V1 & V2) T1 T2.
    assert (HA : get A (fst t) = mkNode nv (fst t) (fst t)) by exact (term_get A B NV A _ WA V1 T1).
    assert (HB : get B (snd t) = mkNode nv (snd t) (snd t)).
    { unfold nv. rewrite NV. exact (term_get A B NV B _ WB V2 T2). }
    unfold t_lo, t_hi, level, kids, var_of. rewrite HA, HB. cbn [nvar nlow nhigh].
    rewrite N.min_id, N.eqb_refl. cbn. destruct t; auto.
  Qed.

  (* the whole outer run from the root task *)
  Theorem nested_run_ok : exists p s, nested_run A B trigger outer inner = Some (p, s) /\ NI s /\
      p < size (nn s) /\ forall v, sem (nn s) p v = true <-> qtr trigger u (ospec (root A B)) v.
  Proof.
    pose proof (root_valid A B WA WB NV) as Vr. pose proof NI_n0 as HI0.
    pose proof (level_le A B WA NV _ Vr) as Hle. fold nv in Hle. unfold nested_run. fold nv.
    destruct (N.eq_dec (lev (root A B)) nv) as [Eq|Ne].
    - (* both roots are terminals: no terminal lookup for the root task itself *)
      destruct (level_nv_terminal A B WA WB NV _ Vr Eq) as (T1 & T2).
      destruct (oterm_kids _ Vr T1 T2) as (Klo & Khi).
      destruct (asb_term _ T1) as (a & Ea), (asb_term _ T2) as (b & Eb).
      cbn [oproc]. rewrite Klo, Khi. unfold oensure. rewrite Ea, Eb, O_total.
      unfold resolve. rewrite N.eqb_refl.
      assert (Hg : OGood (nn (n0 A)) (root A B) (of_bool (obop a b))).
      { apply OGood_const; [exact (sok_mk_true nv)|exact Vr|]. apply oterminal. rewrite Ea, Eb. apply O_total. }
      exists (of_bool (obop a b)), (omemo (n0 A) (root A B) (of_bool (obop a b))).
      split; [reflexivity|]. split; [apply NInv_omemo; assumption|].
      destruct Hg as (g1 & _ & g3). split; [exact g1|exact g3].
    - destruct (oproc_ok (S (S (N.to_nat nv))) (root A B) (n0 A) HI0 Vr ltac:(lia) ltac:(lia))
        as (p & s & E & HI & _ & (g1 & _ & g3)).
      exists p, s. split; [exact E|]. split; [exact HI|]. split; [exact g1|exact g3].
  Qed.

  (* (d) the faithful nested apply, trigger given as a predicate *)
  Theorem nested_apply_ok : exists r, nested_apply_fn A B trigger outer inner = Ok r /\
      Canonical r /\ nvars r = nvars A /\
      forall v, eval r v = true <-> qtr trigger u (fun w => obop (eval A w) (eval B w)) v.
  Proof.
    destruct nested_run_ok as (p & s & E & HI & Hp & Sp).
    pose proof HI as (HS & _).
    destruct (fix_alignment_ok nv (nn s) HS (NInv_nodup nv (ibop_of u) OGood s HI) p Hp) as (r & Er & Cr & Nr & Sr).
    exists r. unfold nested_apply_fn, nested_apply. rewrite NV, N.eqb_refl. cbn [negb].
    rewrite <- NV, E, Er. cbn [of_option].
    split; [reflexivity|]. split; [exact Cr|]. split; [exact Nr|].
    intros v. rewrite Sr. apply Sp.
  Qed.
End Outer.

(* ======================================================================================== *)
(* (d) API-level statements                                                                   *)

Lemma builtin_inner (inner : op2) (u : bool) : builtin_ok inner (if u then andb else orb) ->
  (forall a b, inner (Some a) (Some b) = Some (ibop_of u a b)) /\
  (forall x y r, inner x y = Some r -> forall a b, refines a x -> refines b y -> ibop_of u a b = r).
Proof.
  intros (T & C & E). fold (ibop_of u) in E. split.
  - intros a b. rewrite (total2_bop inner T). now rewrite E.
  - intros x y r H a b Ra Rb. rewrite <- E. exact (consistent2_bop inner T C x y r H a b Ra Rb).
Qed.

(* the faithful engine with an arbitrary trigger predicate, a total consistent outer table and an inner table
   that is a (possibly partial, consistent) table of `and` (u = true) or of `or` (u = false) *)
Theorem nested_fn_correct A B trigger outer inner (u : bool) :
  wf A -> wf B -> nvars A = nvars B -> total2 outer -> consistent2 outer ->
  builtin_ok inner (if u then andb else orb) ->
  exists r, nested_apply_fn A B trigger outer inner = Ok r /\ Canonical r /\ wf r /\ nvars r = nvars A /\
    forall v, eval r v = true <-> qtr trigger u (fun w => bop_of outer (eval A w) (eval B w)) v.
Proof.
  intros WA WB NV T C BI. destruct (builtin_inner inner u BI) as (IT & IC).
  destruct (nested_apply_ok A B trigger outer inner (bop_of outer) u WA WB NV
              (total2_bop outer T) (consistent2_bop outer T C) IT IC) as (r & E & Cr & Nr & S).
  exists r. split; [exact E|]. split; [exact Cr|]. split; [apply Cr|]. split; [exact Nr|exact S].
Qed.
Print Assumptions nested_fn_correct.

(* the only panic is the variable-count check *)
Theorem nested_fn_panic_iff A B trigger outer inner :
  nested_apply_fn A B trigger outer inner = Panic <-> nvars A <> nvars B.
Proof.
  unfold nested_apply_fn. destruct (N.eqb_spec (nvars A) (nvars B)) as [E|NE]; cbn [negb].
  - split; [|congruence]. destruct (nested_apply A B trigger outer inner); cbn; discriminate.
  - split; auto.
Qed.

Lemma qtr_bits trig u f v :
  qtr (fun x => nth (N.to_nat x) trig false) u f v <-> qspec u (triggered_from 0 trig) f v.
Proof.
  unfold qtr, qspec. destruct u; split.
  - intros Q w Aw. apply Q. apply agree_out_triggered. exact Aw.
  - intros Q w Aw. apply Q. apply agree_out_triggered. exact Aw.
  - intros (w & Aw & Q). exists w. split; [apply agree_out_triggered; exact Aw|exact Q].
  - intros (w & Aw & Q). exists w. split; [apply agree_out_triggered; exact Aw|exact Q].
Qed.

Lemma mem_trigger_false vars y : mem_trigger vars y = false <-> ~ In y vars.
Proof.
  unfold mem_trigger. split.
  - intros H Hin. assert (E : existsb (N.eqb y) vars = true).
    { apply existsb_exists. exists y. split; [exact Hin|apply N.eqb_refl]. }
    congruence.
  - intros H. destruct (existsb (N.eqb y) vars) eqn:E; [|reflexivity]. exfalso.
    apply existsb_exists in E. destruct E as (z & Hz & Ez). apply N.eqb_eq in Ez. subst z. contradiction.
Qed.

Lemma qtr_mem vars u f v : qtr (mem_trigger vars) u f v <-> qspec u vars f v.
Proof.
  assert (A1 : forall w, (forall y, mem_trigger vars y = false -> w y = v y) <-> agree_out vars w v).
  { intros w. unfold agree_out. split; intros H y Hy; apply H; apply mem_trigger_false; exact Hy. }
  unfold qtr, qspec. destruct u; split.
  - intros Q w Aw. apply Q. apply A1. exact Aw.
  - intros Q w Aw. apply Q. apply A1. exact Aw.
  - intros (w & Aw & Q). exists w. split; [apply A1; exact Aw|exact Q].
  - intros (w & Aw & Q). exists w. split; [apply A1; exact Aw|exact Q].
Qed.

(* Bdd::binary_op_nested, trigger given as a bit list: same statement as binary_op_nested_correct *)
Theorem nested_faithful_correct A B trig outer inner (u : bool) :
  wf A -> wf B -> nvars A = nvars B -> total2 outer -> consistent2 outer ->
  builtin_ok inner (if u then andb else orb) ->
  exists r, nested_apply_faithful A B trig outer inner = Ok r /\ Canonical r /\ wf r /\ nvars r = nvars A /\
    forall v, eval r v = true <->
      qspec u (triggered_from 0 trig) (fun w => bop_of outer (eval A w) (eval B w)) v.
Proof.
  intros WA WB NV T C BI.
  destruct (nested_fn_correct A B (fun x => nth (N.to_nat x) trig false) outer inner u WA WB NV T C BI)
    as (r & E & Cr & Wr & Nr & S).
  exists r. split; [exact E|]. split; [exact Cr|]. split; [exact Wr|]. split; [exact Nr|].
  intros v. etransitivity; [apply S|]. apply qtr_bits.
Qed.
Print Assumptions nested_faithful_correct.

(* the faithful engine and the compositional model (operate, then project one variable at a time) return
   the same array *)
Theorem nested_faithful_eq_model A B trig outer inner (u : bool) :
  wf A -> wf B -> nvars A = nvars B -> total2 outer -> consistent2 outer ->
  builtin_ok inner (if u then andb else orb) ->
  nested_apply_faithful A B trig outer inner = binary_op_nested A B trig outer u.
Proof.
  intros WA WB NV T C BI.
  destruct (nested_faithful_correct A B trig outer inner u WA WB NV T C BI) as (r & E & Cr & _ & Nr & S).
  destruct (binary_op_nested_correct A B trig outer u WA WB NV T C) as (r' & E' & Cr' & _ & Nr' & S').
  rewrite E, E'. f_equal. apply canonical_unique; try assumption; [congruence|].
  intros v. apply bool_eq_of_iff. rewrite S, S'. reflexivity.
Qed.
Print Assumptions nested_faithful_eq_model.

(* trigger = membership in a variable list: binary_op_with_exists / binary_op_with_for_all / exists / for_all *)
Lemma faithful_quant_eq (u : bool) A B op vars inner :
  wf A -> wf B -> nvars A = nvars B -> total2 op -> consistent2 op ->
  builtin_ok inner (if u then andb else orb) ->
  nested_apply_fn A B (mem_trigger vars) op inner = bind (binary_op A B op) (fun r0 => project u r0 vars).
Proof.
  intros WA WB NV T C BI.
  destruct (nested_fn_correct A B (mem_trigger vars) op inner u WA WB NV T C BI) as (r & E & Cr & _ & Nr & S).
  destruct (binary_op_quant_spec u A B op vars WA WB NV T C) as (r' & E' & Cr' & _ & Nr' & S').
  rewrite E, E'. f_equal. apply canonical_unique; try assumption; [congruence|].
  intros v. apply bool_eq_of_iff. rewrite S, S'. apply qtr_mem.
Qed.

Theorem binary_op_with_exists_faithful_eq A B op vars :
  wf A -> wf B -> nvars A = nvars B -> total2 op -> consistent2 op ->
  binary_op_with_exists_faithful A B op vars = binary_op_with_exists A B op vars.
Proof. intros WA WB NV T C. exact (faithful_quant_eq false A B op vars op_or WA WB NV T C or_table_ok). Qed.
Print Assumptions binary_op_with_exists_faithful_eq.

Theorem binary_op_with_for_all_faithful_eq A B op vars :
  wf A -> wf B -> nvars A = nvars B -> total2 op -> consistent2 op ->
  binary_op_with_for_all_faithful A B op vars = binary_op_with_for_all A B op vars.
Proof. intros WA WB NV T C. exact (faithful_quant_eq true A B op vars op_and WA WB NV T C and_table_ok). Qed.
Print Assumptions binary_op_with_for_all_faithful_eq.

Theorem bdd_exists_faithful_eq b vars : wf b -> bdd_exists_faithful b vars = bdd_exists b vars.
Proof.
  intros W. destruct and_table_ok as (T & C & _).
  exact (binary_op_with_exists_faithful_eq b b op_and vars W W eq_refl T C).
Qed.
Theorem bdd_for_all_faithful_eq b vars : wf b -> bdd_for_all_faithful b vars = bdd_for_all b vars.
Proof.
  intros W. destruct and_table_ok as (T & C & _).
  exact (binary_op_with_for_all_faithful_eq b b op_and vars W W eq_refl T C).
Qed.
Print Assumptions bdd_for_all_faithful_eq.

(* concrete instances (tests, not proofs) *)
Definition nx_and01 : bdd := [mkNode 3 0 0; mkNode 3 1 1; mkNode 1 0 1; mkNode 0 0 2].
Definition nx_store : bdd := [mkNode 3 0 0; mkNode 3 1 1; mkNode 0 4 3; mkNode 1 4 1; mkNode 2 0 1].
Example nx_fix : fix_alignment nx_store 2 =
  Some [mkNode 3 0 0; mkNode 3 1 1; mkNode 2 0 1; mkNode 1 2 1; mkNode 0 2 3].
Proof. vm_compute. reflexivity. Qed.
Example nx_nested : nested_apply_faithful nx_and01 nx_and01 [false; true] op_or op_or = Ok (mk_var 3 0).
Proof. vm_compute. reflexivity. Qed.
Example nx_nested_all : nested_apply_faithful nx_and01 nx_and01 [true; false] op_xor op_and = Ok (mk_false 3).
Proof. vm_compute. reflexivity. Qed.
Example nx_exists : bdd_exists_faithful nx_and01 [1; 5; 1] = Ok (mk_var 3 0).
Proof. vm_compute. reflexivity. Qed.
