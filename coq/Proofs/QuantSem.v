(* Proofs/QuantSem.v — semantics of the quantifier operations of Model/Ops.v:
   var_exists / var_for_all, project (= fold of single-variable quantifiers over the in-range
   variables), binary_op_with_exists / binary_op_with_for_all, binary_op_nested, bdd_exists /
   bdd_for_all.  Everything is obtained by chaining fused_binary_flip_op_correct. *)
From Coq Require Import List NArith Lia Bool.
Import ListNotations.
From BddVerif Require Import Model.Bdd Model.Apply Model.Ops Proofs.Sem Proofs.Canon Proofs.ApplySem Proofs.ApplyTop.
Open Scope N_scope.

(* ======================================================================================== *)
(* valuations: eval only reads variables below nvars; extensionality-free congruence         *)

Lemma valid_root b : wf b -> valid b (size b - 1).
Proof. intros W. pose proof (size_pos b W) as H. split; [lia|intros; lia]. Qed.

(* sem only reads the variables of decision nodes, which are < nvars b *)
Lemma sem_agree_lt b : wf b -> forall k p v w, valid b p -> (N.to_nat (nvars b - var_of b p) < k)%nat ->
  (forall x, x < nvars b -> v x = w x) -> sem b p v = sem b p w.
Proof.
  intros Hwf. induction k as [|k IH]; intros p v w Vp Hk Hvw; [lia|].
  destruct (N.ltb_spec p 2) as [Hlt|Hge].
  - assert (p = 0 \/ p = 1) as [->| ->] by lia; reflexivity.
  - destruct Vp as (Vp & _).
    rewrite (sem_unfold b p v), (sem_unfold b p w) by assumption.
    destruct (wf_children b p Hwf Hge Vp) as (Vl & Vh & Hl & Hh & Hnv).
    rewrite <- (Hvw (var_of b p)) by lia.
    destruct (v (var_of b p)); apply IH; try assumption; try lia.
Qed.

Lemma eval_agree_lt b v w : wf b -> (forall x, x < nvars b -> v x = w x) -> eval b v = eval b w.
Proof.
  intros W H. unfold eval.
  apply (sem_agree_lt b W (S (N.to_nat (nvars b - var_of b (size b - 1))))); [apply valid_root; assumption | lia | assumption].
Qed.

Lemma eval_ext b v w : wf b -> (forall y, v y = w y) -> eval b v = eval b w.
Proof. intros W H. apply eval_agree_lt; [assumption|]. intros x _. apply H. Qed.

(* out-of-range variables do not influence eval *)
Lemma eval_upd_out b v y c : wf b -> nvars b <= y -> eval b (upd v y c) = eval b v.
Proof. intros W Hy. apply eval_agree_lt; [assumption|]. intros x Hx. apply upd_other. lia. Qed.

Lemma upd_id v x y : upd v x (v x) y = v y.
Proof. unfold upd. destruct (N.eqb_spec y x) as [->|]; reflexivity. Qed.

Lemma upd_upd v x a c y : upd (upd v x a) x c y = upd v x c y.
Proof. unfold upd. destruct (N.eqb_spec y x); reflexivity. Qed.

Lemma upd_upd_id v x a y : upd (upd v x a) x (v x) y = v y.
Proof. rewrite upd_upd. apply upd_id. Qed.

Lemma flipv_flipv v x y : flipv (flipv v x) x y = v y.
Proof.
  unfold flipv. rewrite upd_upd, upd_same, negb_involutive. apply upd_id.
Qed.

Lemma bool_eq_of_iff (a b : bool) : (a = true <-> b = true) -> a = b.
Proof. destruct a, b; intros [H1 H2]; try reflexivity; [symmetry; apply H1 | apply H2]; reflexivity. Qed.

(* ======================================================================================== *)
(* item 1: single-variable quantifiers                                                        *)

Lemma flips_ok_mid nv x : x < nv -> flips_ok nv None (Some x) None = true.
Proof. intros H. unfold flips_ok, flip_ok. apply N.ltb_lt in H. rewrite H. reflexivity. Qed.

Theorem var_exists_correct b x : wf b -> x < nvars b ->
  exists r, var_exists b x = Ok r /\ Canonical r /\ nvars r = nvars b /\
    forall v, eval r v = eval b v || eval b (flipv v x).
Proof.
  intros W Hx. destruct or_table_ok as (T & C & E).
  destruct (fused_binary_flip_op_correct b b None (Some x) None op_or W W eq_refl
              (flips_ok_mid _ _ Hx) T C) as (r & Er & Cr & Nr & S).
  exists r. split; [exact Er|]. split; [exact Cr|]. split; [exact Nr|].
  intros v. rewrite S, E. reflexivity.
Qed.
Print Assumptions var_exists_correct.

Theorem var_for_all_correct b x : wf b -> x < nvars b ->
  exists r, var_for_all b x = Ok r /\ Canonical r /\ nvars r = nvars b /\
    forall v, eval r v = eval b v && eval b (flipv v x).
Proof.
  intros W Hx. destruct and_table_ok as (T & C & E).
  destruct (fused_binary_flip_op_correct b b None (Some x) None op_and W W eq_refl
              (flips_ok_mid _ _ Hx) T C) as (r & Er & Cr & Nr & S).
  exists r. split; [exact Er|]. split; [exact Cr|]. split; [exact Nr|].
  intros v. rewrite S, E. reflexivity.
Qed.
Print Assumptions var_for_all_correct.

(* the flip formulation is the quantifier over the value of x *)
Lemma orb_flip_exists b x v : wf b ->
  (eval b v || eval b (flipv v x) = true <-> exists c, eval b (upd v x c) = true).
Proof.
  intros W. split.
  - intros H. apply orb_true_iff in H. destruct H as [H|H].
    + exists (v x). rewrite <- H. apply eval_ext; [assumption|]. intros y. apply upd_id.
    + exists (negb (v x)). exact H.
  - intros (c & H). apply orb_true_iff. destruct (bool_dec c (v x)) as [->|Ne].
    + left. rewrite <- H. apply eval_ext; [assumption|]. intros y. symmetry. apply upd_id.
    + right. rewrite <- H. unfold flipv. replace (negb (v x)) with c; [reflexivity|].
      destruct c, (v x); try reflexivity; exfalso; apply Ne; reflexivity.
Qed.

Lemma andb_flip_forall b x v : wf b ->
  (eval b v && eval b (flipv v x) = true <-> forall c, eval b (upd v x c) = true).
Proof.
  intros W. split.
  - intros H c. apply andb_true_iff in H. destruct H as [H1 H2]. destruct (bool_dec c (v x)) as [->|Ne].
    + rewrite <- H1. apply eval_ext; [assumption|]. intros y. apply upd_id.
    + rewrite <- H2. unfold flipv. replace (negb (v x)) with c; [reflexivity|].
      destruct c, (v x); try reflexivity; exfalso; apply Ne; reflexivity.
  - intros H. apply andb_true_iff. split.
    + rewrite <- (H (v x)). apply eval_ext; [assumption|]. intros y. symmetry. apply upd_id.
    + apply (H (negb (v x))).
Qed.

Theorem var_exists_spec b x : wf b -> x < nvars b ->
  exists r, var_exists b x = Ok r /\ Canonical r /\ nvars r = nvars b /\
    forall v, eval r v = true <-> exists c, eval b (upd v x c) = true.
Proof.
  intros W Hx. destruct (var_exists_correct b x W Hx) as (r & Er & Cr & Nr & S).
  exists r. split; [exact Er|]. split; [exact Cr|]. split; [exact Nr|].
  intros v. rewrite S. apply orb_flip_exists. assumption.
Qed.
Print Assumptions var_exists_spec.

Theorem var_for_all_spec b x : wf b -> x < nvars b ->
  exists r, var_for_all b x = Ok r /\ Canonical r /\ nvars r = nvars b /\
    forall v, eval r v = true <-> forall c, eval b (upd v x c) = true.
Proof.
  intros W Hx. destruct (var_for_all_correct b x W Hx) as (r & Er & Cr & Nr & S).
  exists r. split; [exact Er|]. split; [exact Cr|]. split; [exact Nr|].
  intros v. rewrite S. apply andb_flip_forall. assumption.
Qed.
Print Assumptions var_for_all_spec.

(* ======================================================================================== *)
(* item 2: the result does not depend on the quantified variable                             *)

Theorem var_exists_indep b x r : wf b -> x < nvars b -> var_exists b x = Ok r ->
  forall v c, eval r (upd v x c) = eval r v.
Proof.
  intros W Hx Er v c. destruct (var_exists_spec b x W Hx) as (r' & Er' & _ & _ & S).
  rewrite Er in Er'. injection Er' as <-.
  apply bool_eq_of_iff. rewrite !S. split; intros (c' & H); exists c'; rewrite <- H;
    (apply eval_ext; [assumption|]); intros y; [symmetry|]; apply upd_upd.
Qed.
Print Assumptions var_exists_indep.

Theorem var_for_all_indep b x r : wf b -> x < nvars b -> var_for_all b x = Ok r ->
  forall v c, eval r (upd v x c) = eval r v.
Proof.
  intros W Hx Er v c. destruct (var_for_all_spec b x W Hx) as (r' & Er' & _ & _ & S).
  rewrite Er in Er'. injection Er' as <-.
  apply bool_eq_of_iff. rewrite !S. split; intros H c'; rewrite <- (H c');
    (apply eval_ext; [assumption|]); intros y; [symmetry|]; apply upd_upd.
Qed.
Print Assumptions var_for_all_indep.

(* ======================================================================================== *)
(* quantification over a list of variables, generic in the polarity u (true = universal)      *)

Definition agree_out (vars : list N) (w v : val) : Prop := forall y, ~ In y vars -> w y = v y.

Definition qspec (u : bool) (vars : list N) (f : val -> bool) (v : val) : Prop :=
  if u then forall w, agree_out vars w v -> f w = true
  else exists w, agree_out vars w v /\ f w = true.

Definition qstep (u : bool) (x : N) (f : val -> bool) (v : val) : Prop :=
  if u then forall c, f (upd v x c) = true else exists c, f (upd v x c) = true.

Definition ext_fun (f : val -> bool) : Prop := forall v w, (forall y, v y = w y) -> f v = f w.

Definition qvar (u : bool) : bdd -> N -> outcome bdd := if u then var_for_all else var_exists.

Lemma agree_out_mono l1 l2 w v : (forall y, In y l1 -> In y l2) -> agree_out l1 w v -> agree_out l2 w v.
Proof. intros H A y Hy. apply A. intros Hc. apply Hy. apply H. exact Hc. Qed.

Lemma qspec_set_ext u l1 l2 f v : (forall y, In y l1 <-> In y l2) -> qspec u l1 f v <-> qspec u l2 f v.
Proof.
  intros H. destruct u; unfold qspec; split.
  - intros Q w A. apply Q. apply (agree_out_mono l2 l1); [intros y; apply H | exact A].
  - intros Q w A. apply Q. apply (agree_out_mono l1 l2); [intros y; apply H | exact A].
  - intros (w & A & Q). exists w. split; [|exact Q]. apply (agree_out_mono l1 l2); [intros y; apply H | exact A].
  - intros (w & A & Q). exists w. split; [|exact Q]. apply (agree_out_mono l2 l1); [intros y; apply H | exact A].
Qed.

Lemma qspec_fun_ext u l f g v : (forall w, f w = g w) -> qspec u l f v <-> qspec u l g v.
Proof.
  intros H. destruct u; unfold qspec; split.
  - intros Q w A. rewrite <- H. apply Q. exact A.
  - intros Q w A. rewrite H. apply Q. exact A.
  - intros (w & A & Q). exists w. split; [exact A|]. rewrite <- H. exact Q.
  - intros (w & A & Q). exists w. split; [exact A|]. rewrite H. exact Q.
Qed.

Lemma qspec_nil u f v : ext_fun f -> (f v = true <-> qspec u [] f v).
Proof.
  intros X. destruct u; unfold qspec; split.
  - intros H w A. rewrite <- H. apply X. intros y. apply A. intros Hc. exact Hc.
  - intros Q. apply Q. intros y _. reflexivity.
  - intros H. exists v. split; [intros y _; reflexivity | exact H].
  - intros (w & A & Q). rewrite <- Q. apply X. intros y. symmetry. apply A. intros Hc. exact Hc.
Qed.

Lemma agree_out_cons_upd x l w' v : agree_out (x :: l) w' v -> agree_out l (upd w' x (v x)) v.
Proof.
  intros A y Hy. destruct (N.eq_dec y x) as [->|Ne].
  - apply upd_same.
  - rewrite upd_other by assumption. apply A. intros [Hc|Hc]; [congruence | contradiction].
Qed.

Lemma agree_out_upd_cons x l w v c : agree_out l w v -> agree_out (x :: l) (upd w x c) v.
Proof.
  intros A y Hy. rewrite upd_other.
  - apply A. intros Hc. apply Hy. right. exact Hc.
  - intros ->. apply Hy. left. reflexivity.
Qed.

Lemma qspec_cons u x l (f g h : val -> bool) : ext_fun f ->
  (forall v, g v = true <-> qstep u x f v) ->
  (forall v, h v = true <-> qspec u l g v) ->
  forall v, h v = true <-> qspec u (x :: l) f v.
Proof.
  intros Xf Hg Hh v. etransitivity; [apply Hh|]. destruct u; unfold qspec, qstep in *; split.
  - intros H w' A'. pose proof (H _ (agree_out_cons_upd x l w' v A')) as H1.
    pose proof (proj1 (Hg _) H1) as H2. rewrite <- (H2 (w' x)). apply Xf. intros y. symmetry. apply upd_upd_id.
  - intros H w A. apply Hg. intros c. apply H. apply agree_out_upd_cons. exact A.
  - intros (w & A & H). destruct (proj1 (Hg _) H) as (c & Hc).
    exists (upd w x c). split; [apply agree_out_upd_cons; exact A | exact Hc].
  - intros (w' & A' & H). exists (upd w' x (v x)). split; [apply agree_out_cons_upd; exact A'|].
    apply Hg. exists (w' x). rewrite <- H. apply Xf. intros y. apply upd_upd_id.
Qed.

Lemma qvar_correct u b x : wf b -> x < nvars b ->
  exists r, qvar u b x = Ok r /\ Canonical r /\ nvars r = nvars b /\
    forall v, eval r v = true <-> qstep u x (eval b) v.
Proof.
  intros W Hx. destruct u; unfold qvar, qstep.
  - apply var_for_all_spec; assumption.
  - apply var_exists_spec; assumption.
Qed.

Lemma eval_ext_fun b : wf b -> ext_fun (eval b).
Proof. intros W v w H. apply eval_ext; assumption. Qed.

Lemma fold_vars_correct u : forall l b, wf b -> (forall y, In y l -> y < nvars b) ->
  exists r, fold_vars (qvar u) l b = Ok r /\ (l = [] -> r = b) /\ (l <> [] -> Canonical r) /\
    wf r /\ nvars r = nvars b /\ forall v, eval r v = true <-> qspec u l (eval b) v.
Proof.
  induction l as [|x l IH]; intros b W Hl.
  - exists b. cbn [fold_vars]. split; [reflexivity|]. split; [reflexivity|]. split; [congruence|].
    split; [assumption|]. split; [reflexivity|].
    intros v. apply qspec_nil. apply eval_ext_fun. assumption.
  - destruct (qvar_correct u b x W (Hl x (or_introl eq_refl))) as (r1 & E1 & C1 & N1 & S1).
    assert (W1 : wf r1) by apply C1.
    destruct (IH r1 W1) as (r & E & Hnil & Hne & Wr & Nr & S).
    { intros y Hy. rewrite N1. apply Hl. right. exact Hy. }
    exists r. cbn [fold_vars]. rewrite E1. cbn [bind]. split; [exact E|]. split; [discriminate|].
    split.
    { intros _. destruct l as [|z l'].
      - rewrite (Hnil eq_refl). exact C1.
      - apply Hne. discriminate. }
    split; [exact Wr|]. split; [congruence|].
    apply (qspec_cons u x l (eval b) (eval r1) (eval r)); [apply eval_ext_fun; assumption | exact S1 | exact S].
Qed.

(* filtering out-of-range variables does not change the quantified predicate *)
Lemma in_range_In b vars y : In y (in_range b vars) <-> In y vars /\ y < nvars b.
Proof. unfold in_range. rewrite filter_In, N.ltb_lt. reflexivity. Qed.

Lemma clip_agree b vars w v : agree_out vars w v ->
  agree_out (in_range b vars) (fun y => if y <? nvars b then w y else v y) v.
Proof.
  intros A y Hy. destruct (N.ltb_spec y (nvars b)) as [Hlt|Hge]; [|reflexivity].
  apply A. intros Hc. apply Hy. apply in_range_In. split; assumption.
Qed.

Lemma clip_eval b (w v : val) : wf b -> eval b (fun y => if y <? nvars b then w y else v y) = eval b w.
Proof.
  intros W. apply eval_agree_lt; [assumption|]. intros x Hx. apply N.ltb_lt in Hx. rewrite Hx. reflexivity.
Qed.

Lemma qspec_in_range u b vars v : wf b ->
  qspec u (in_range b vars) (eval b) v <-> qspec u vars (eval b) v.
Proof.
  intros W.
  assert (Sub : forall y, In y (in_range b vars) -> In y vars) by (intros y Hy; apply in_range_In in Hy; apply Hy).
  destruct u; unfold qspec; split.
  - intros Q w A. rewrite <- (clip_eval b w v W). apply Q. apply clip_agree. exact A.
  - intros Q w A. apply Q. apply (agree_out_mono _ _ w v Sub A).
  - intros (w & A & Q). exists w. split; [apply (agree_out_mono _ _ w v Sub A) | exact Q].
  - intros (w & A & Q). exists (fun y => if y <? nvars b then w y else v y).
    split; [apply clip_agree; exact A | rewrite clip_eval by assumption; exact Q].
Qed.

(* ======================================================================================== *)
(* item 3: project                                                                            *)

Theorem project_spec u b vars : wf b ->
  exists r, project u b vars = Ok r /\
    (in_range b vars = [] -> r = b) /\ (in_range b vars <> [] -> Canonical r) /\
    wf r /\ nvars r = nvars b /\
    forall v, eval r v = true <-> qspec u vars (eval b) v.
Proof.
  intros W.
  destruct (fold_vars_correct u (in_range b vars) b W) as (r & E & Hnil & Hne & Wr & Nr & S).
  { intros y Hy. apply in_range_In in Hy. apply Hy. }
  exists r. split; [exact E|]. split; [exact Hnil|]. split; [exact Hne|]. split; [exact Wr|]. split; [exact Nr|].
  intros v. etransitivity; [apply S|]. apply qspec_in_range. assumption.
Qed.
Print Assumptions project_spec.

Theorem project_correct b vars : wf b ->
  exists r, project false b vars = Ok r /\
    ((in_range b vars = [] -> r = b) /\ (in_range b vars <> [] -> Canonical r)) /\
    wf r /\ nvars r = nvars b /\
    forall v, eval r v = true <->
      exists w, (forall y, ~ In y vars -> w y = v y) /\ eval b w = true.
Proof.
  intros W. destruct (project_spec false b vars W) as (r & E & Hnil & Hne & Wr & Nr & S).
  exists r. split; [exact E|]. split; [split; assumption|]. split; [exact Wr|]. split; [exact Nr|]. exact S.
Qed.
Print Assumptions project_correct.

Theorem project_for_all_correct b vars : wf b ->
  exists r, project true b vars = Ok r /\
    ((in_range b vars = [] -> r = b) /\ (in_range b vars <> [] -> Canonical r)) /\
    wf r /\ nvars r = nvars b /\
    forall v, eval r v = true <->
      forall w, (forall y, ~ In y vars -> w y = v y) -> eval b w = true.
Proof.
  intros W. destruct (project_spec true b vars W) as (r & E & Hnil & Hne & Wr & Nr & S).
  exists r. split; [exact E|]. split; [split; assumption|]. split; [exact Wr|]. split; [exact Nr|]. exact S.
Qed.
Print Assumptions project_for_all_correct.

(* projecting a canonical diagram gives a canonical diagram *)
Theorem project_canonical u b vars : Canonical b ->
  exists r, project u b vars = Ok r /\ Canonical r /\ nvars r = nvars b /\
    forall v, eval r v = true <-> qspec u vars (eval b) v.
Proof.
  intros Cb. assert (W : wf b) by apply Cb.
  destruct (project_spec u b vars W) as (r & E & Hnil & Hne & Wr & Nr & S).
  exists r. split; [exact E|]. split; [|split; [exact Nr | exact S]].
  destruct (in_range b vars) as [|z l].
  - rewrite (Hnil eq_refl). exact Cb.
  - apply Hne. discriminate.
Qed.
Print Assumptions project_canonical.

(* the result of project does not depend on any listed variable *)
Theorem project_indep u b vars r : wf b -> project u b vars = Ok r ->
  forall x, In x vars -> forall v c, eval r (upd v x c) = eval r v.
Proof.
  intros W Er x Hx v c. destruct (project_spec u b vars W) as (r' & Er' & _ & _ & _ & _ & S).
  rewrite Er in Er'. injection Er' as <-.
  assert (A1 : forall w, agree_out vars w (upd v x c) -> agree_out vars w v).
  { intros w A y Hy. rewrite (A y Hy). apply upd_other. intros ->. apply Hy. exact Hx. }
  assert (A2 : forall w, agree_out vars w v -> agree_out vars w (upd v x c)).
  { intros w A y Hy. rewrite (A y Hy). symmetry. apply upd_other. intros ->. apply Hy. exact Hx. }
  apply bool_eq_of_iff. rewrite !S. destruct u; unfold qspec; split.
  - intros Q w A. apply Q. apply A2. exact A.
  - intros Q w A. apply Q. apply A1. exact A.
  - intros (w & A & Q). exists w. split; [apply A1; exact A | exact Q].
  - intros (w & A & Q). exists w. split; [apply A2; exact A | exact Q].
Qed.
Print Assumptions project_indep.

(* ======================================================================================== *)
(* item 4: only the SET of listed variables matters                                           *)

Theorem project_set_ext u b vars1 vars2 : Canonical b ->
  (forall y, In y vars1 <-> In y vars2) -> project u b vars1 = project u b vars2.
Proof.
  intros Cb H.
  destruct (project_canonical u b vars1 Cb) as (r1 & E1 & C1 & N1 & S1).
  destruct (project_canonical u b vars2 Cb) as (r2 & E2 & C2 & N2 & S2).
  rewrite E1, E2. f_equal. apply canonical_unique; try assumption; [congruence|].
  intros v. apply bool_eq_of_iff. rewrite S1, S2. apply qspec_set_ext. exact H.
Qed.
Print Assumptions project_set_ext.

(* ======================================================================================== *)
(* item 5: binary operator followed by quantification                                         *)

Theorem binary_op_correct A B op : wf A -> wf B -> nvars A = nvars B -> total2 op -> consistent2 op ->
  exists r, binary_op A B op = Ok r /\ Canonical r /\ nvars r = nvars A /\
    forall v, eval r v = bop_of op (eval A v) (eval B v).
Proof.
  intros WA WB NV T C.
  destruct (fused_binary_flip_op_correct A B None None None op WA WB NV eq_refl T C) as (r & E & Cr & Nr & S).
  exists r. split; [exact E|]. split; [exact Cr|]. split; [exact Nr|]. intros v. rewrite S. reflexivity.
Qed.

Lemma binary_op_quant_spec u A B op vars :
  wf A -> wf B -> nvars A = nvars B -> total2 op -> consistent2 op ->
  exists r, bind (binary_op A B op) (fun r0 => project u r0 vars) = Ok r /\
    Canonical r /\ wf r /\ nvars r = nvars A /\
    forall v, eval r v = true <-> qspec u vars (fun w => bop_of op (eval A w) (eval B w)) v.
Proof.
  intros WA WB NV T C.
  destruct (binary_op_correct A B op WA WB NV T C) as (r0 & E0 & C0 & N0 & S0).
  destruct (project_canonical u r0 vars C0) as (r & E & Cr & Nr & S).
  exists r. rewrite E0. cbn [bind]. split; [exact E|]. split; [exact Cr|]. split; [apply Cr|].
  split; [congruence|].
  intros v. etransitivity; [apply S|]. apply qspec_fun_ext. exact S0.
Qed.

Theorem binary_op_with_exists_correct A B op vars :
  wf A -> wf B -> nvars A = nvars B -> total2 op -> consistent2 op ->
  exists r, binary_op_with_exists A B op vars = Ok r /\
    Canonical r /\ wf r /\ nvars r = nvars A /\
    forall v, eval r v = true <->
      exists w, (forall y, ~ In y vars -> w y = v y) /\ bop_of op (eval A w) (eval B w) = true.
Proof. intros WA WB NV T C. exact (binary_op_quant_spec false A B op vars WA WB NV T C). Qed.
Print Assumptions binary_op_with_exists_correct.

Theorem binary_op_with_for_all_correct A B op vars :
  wf A -> wf B -> nvars A = nvars B -> total2 op -> consistent2 op ->
  exists r, binary_op_with_for_all A B op vars = Ok r /\
    Canonical r /\ wf r /\ nvars r = nvars A /\
    forall v, eval r v = true <->
      forall w, (forall y, ~ In y vars -> w y = v y) -> bop_of op (eval A w) (eval B w) = true.
Proof. intros WA WB NV T C. exact (binary_op_quant_spec true A B op vars WA WB NV T C). Qed.
Print Assumptions binary_op_with_for_all_correct.

(* ======================================================================================== *)
(* item 6: nested apply with a trigger bit list                                               *)

Lemma triggered_from_In : forall trig k y,
  In y (triggered_from k trig) <-> exists i, y = k + N.of_nat i /\ nth i trig false = true.
Proof.
  induction trig as [|t r IH]; intros k y; cbn [triggered_from].
  - split; [intros []|]. intros (i & _ & H). destruct i; discriminate.
  - rewrite in_app_iff, IH. split.
    + intros [H|(i & Hy & Hi)].
      * destruct t; [|destruct H]. destruct H as [<-|[]]. exists 0%nat. split; [cbn; lia | reflexivity].
      * exists (S i). split; [lia | exact Hi].
    + intros (i & Hy & Hi). destruct i as [|i].
      * left. cbn [nth] in Hi. subst t. left. cbn in Hy. lia.
      * right. exists i. split; [lia | exact Hi].
Qed.

Lemma triggered_In trig y : In y (triggered_from 0 trig) <-> nth (N.to_nat y) trig false = true.
Proof.
  rewrite triggered_from_In. split.
  - intros (i & Hy & Hi). replace (N.to_nat y) with i by lia. exact Hi.
  - intros H. exists (N.to_nat y). split; [lia | exact H].
Qed.

Lemma agree_out_triggered trig w v :
  agree_out (triggered_from 0 trig) w v <-> (forall y, nth (N.to_nat y) trig false = false -> w y = v y).
Proof.
  unfold agree_out. split; intros H y Hy; apply H.
  - rewrite triggered_In, Hy. discriminate.
  - rewrite triggered_In in Hy. apply not_true_is_false. exact Hy.
Qed.

Theorem binary_op_nested_exists_correct A B trig outer :
  wf A -> wf B -> nvars A = nvars B -> total2 outer -> consistent2 outer ->
  exists r, binary_op_nested A B trig outer false = Ok r /\
    Canonical r /\ wf r /\ nvars r = nvars A /\
    forall v, eval r v = true <->
      exists w, (forall y, nth (N.to_nat y) trig false = false -> w y = v y) /\
                bop_of outer (eval A w) (eval B w) = true.
Proof.
  intros WA WB NV T C.
  destruct (binary_op_quant_spec false A B outer (triggered_from 0 trig) WA WB NV T C) as (r & E & Cr & Wr & Nr & S).
  exists r. split; [exact E|]. split; [exact Cr|]. split; [exact Wr|]. split; [exact Nr|].
  intros v. etransitivity; [apply S|]. unfold qspec. split.
  - intros (w & Aw & Q). exists w. split; [apply agree_out_triggered; exact Aw | exact Q].
  - intros (w & Aw & Q). exists w. split; [apply agree_out_triggered; exact Aw | exact Q].
Qed.
Print Assumptions binary_op_nested_exists_correct.

Theorem binary_op_nested_for_all_correct A B trig outer :
  wf A -> wf B -> nvars A = nvars B -> total2 outer -> consistent2 outer ->
  exists r, binary_op_nested A B trig outer true = Ok r /\
    Canonical r /\ wf r /\ nvars r = nvars A /\
    forall v, eval r v = true <->
      forall w, (forall y, nth (N.to_nat y) trig false = false -> w y = v y) ->
                bop_of outer (eval A w) (eval B w) = true.
Proof.
  intros WA WB NV T C.
  destruct (binary_op_quant_spec true A B outer (triggered_from 0 trig) WA WB NV T C) as (r & E & Cr & Wr & Nr & S).
  exists r. split; [exact E|]. split; [exact Cr|]. split; [exact Wr|]. split; [exact Nr|].
  intros v. etransitivity; [apply S|]. unfold qspec. split.
  - intros Q w Aw. apply Q. apply agree_out_triggered. exact Aw.
  - intros Q w Aw. apply Q. apply agree_out_triggered. exact Aw.
Qed.
Print Assumptions binary_op_nested_for_all_correct.

(* both polarities in one statement, quantified set given as In y (triggered_from 0 trig) *)
Theorem binary_op_nested_correct A B trig outer inner_is_and :
  wf A -> wf B -> nvars A = nvars B -> total2 outer -> consistent2 outer ->
  exists r, binary_op_nested A B trig outer inner_is_and = Ok r /\
    Canonical r /\ wf r /\ nvars r = nvars A /\
    forall v, eval r v = true <->
      qspec inner_is_and (triggered_from 0 trig) (fun w => bop_of outer (eval A w) (eval B w)) v.
Proof.
  intros WA WB NV T C.
  exact (binary_op_quant_spec inner_is_and A B outer (triggered_from 0 trig) WA WB NV T C).
Qed.
Print Assumptions binary_op_nested_correct.

(* ======================================================================================== *)
(* item 7: Bdd::exists / Bdd::for_all                                                         *)

Lemma bop_and_diag x : bop_of op_and x x = x.
Proof. destruct and_table_ok as (_ & _ & E). rewrite E. apply andb_diag. Qed.

Theorem bdd_exists_correct b vars : wf b ->
  exists r, bdd_exists b vars = Ok r /\ Canonical r /\ wf r /\ nvars r = nvars b /\
    forall v, eval r v = true <->
      exists w, (forall y, ~ In y vars -> w y = v y) /\ eval b w = true.
Proof.
  intros W. destruct and_table_ok as (T & C & _).
  destruct (binary_op_with_exists_correct b b op_and vars W W eq_refl T C) as (r & E & Cr & Wr & Nr & S).
  exists r. split; [exact E|]. split; [exact Cr|]. split; [exact Wr|]. split; [exact Nr|].
  intros v. etransitivity; [apply S|]. split; intros (w & Aw & Q); exists w; (split; [exact Aw|]).
  - rewrite bop_and_diag in Q. exact Q.
  - rewrite bop_and_diag. exact Q.
Qed.
Print Assumptions bdd_exists_correct.

Theorem bdd_for_all_correct b vars : wf b ->
  exists r, bdd_for_all b vars = Ok r /\ Canonical r /\ wf r /\ nvars r = nvars b /\
    forall v, eval r v = true <->
      forall w, (forall y, ~ In y vars -> w y = v y) -> eval b w = true.
Proof.
  intros W. destruct and_table_ok as (T & C & _).
  destruct (binary_op_with_for_all_correct b b op_and vars W W eq_refl T C) as (r & E & Cr & Wr & Nr & S).
  exists r. split; [exact E|]. split; [exact Cr|]. split; [exact Wr|]. split; [exact Nr|].
  intros v. etransitivity; [apply S|]. split; intros Q w Aw.
  - rewrite <- (bop_and_diag (eval b w)). apply Q. exact Aw.
  - rewrite bop_and_diag. apply Q. exact Aw.
Qed.
Print Assumptions bdd_for_all_correct.

(* ======================================================================================== *)
(* concrete instances (tests, not proofs): x0 /\ x1 over 3 variables                          *)
Definition ex_and01 : bdd := [mkNode 3 0 0; mkNode 3 1 1; mkNode 1 0 1; mkNode 0 0 2].
Example ex_and01_canonical : canonicalb ex_and01 = true. Proof. vm_compute. reflexivity. Qed.
(* exists x1 (listed twice, plus an out-of-range variable): the literal x0 *)
Example ex_project_exists : project false ex_and01 [1; 5; 1] = Ok (mk_var 3 0).
Proof. vm_compute. reflexivity. Qed.
Example ex_project_forall : project true ex_and01 [1] = Ok (mk_false 3).
Proof. vm_compute. reflexivity. Qed.
Example ex_project_out_of_range : project true ex_and01 [7; 3] = Ok ex_and01.
Proof. vm_compute. reflexivity. Qed.
Example ex_nested : binary_op_nested ex_and01 ex_and01 [false; true] op_or false = Ok (mk_var 3 0).
Proof. vm_compute. reflexivity. Qed.
Example ex_bdd_exists : bdd_exists ex_and01 [0; 1] = Ok (mk_true 3).
Proof. vm_compute. reflexivity. Qed.
