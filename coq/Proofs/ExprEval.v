(* Proofs/ExprEval.v — evaluation of expression trees to diagrams (safe_eval_expr / eval_expr) and the
   export of a diagram as an expression (to_expr): pointwise meaning, None/Panic conditions, round trip. *)
From Coq Require Import List NArith Bool Lia Arith.
Import ListNotations.
From BddVerif Require Import Model.Bdd Model.Apply Model.Ops Model.Expr
  Proofs.Sem Proofs.Canon Proofs.ApplySem Proofs.ApplyTop Proofs.TernSem Proofs.NotSem Proofs.NormalForms.
Open Scope N_scope.

(* ------------------------------------------------------------------ names *)
Lemma name_eqb_spec a : forall b, reflect (a = b) (name_eqb a b).
Proof.
  induction a as [|x a IH]; intros [|y b]; cbn [name_eqb]; try (constructor; congruence).
  destruct (N.eqb_spec x y) as [->|Hn]; cbn [andb].
  - destruct (IH b) as [->|Hn]; constructor; congruence.
  - constructor; congruence.
Qed.
Lemma name_eqb_refl a : name_eqb a a = true.
Proof. destruct (name_eqb_spec a a); congruence. Qed.

Lemma lookup_from_range names x : forall i j, lookup_from i names x = Some j -> i <= j /\ j < i + N.of_nat (length names).
Proof.
  induction names as [|y r IH]; intros i j H; [discriminate|]. cbn [lookup_from] in H. cbn [length].
  destruct (name_eqb x y).
  - injection H as <-. lia.
  - apply IH in H. lia.
Qed.

Lemma var_by_name_lt names x j : ex_var_by_name names x = Some j -> j < nvars_of names.
Proof. intros H. apply lookup_from_range in H. unfold nvars_of. lia. Qed.

(* every variable of the expression is declared *)
Fixpoint declared (names : list name) (e : expr) : bool :=
  match e with
  | EConst _ => true
  | EVar x => match ex_var_by_name names x with Some _ => true | None => false end
  | ENot a => declared names a
  | EAnd a b | EOr a b | EXor a b | EImp a b | EIff a b => declared names a && declared names b
  | ECond a b c => declared names a && declared names b && declared names c
  end.

(* the valuation of names induced by a valuation of variable indices *)
Definition env_of (names : list name) (v : val) : name -> bool :=
  fun x => match ex_var_by_name names x with Some i => v i | None => false end.

(* ------------------------------------------------------------------ evaluation *)
Definition good (names : list name) (e : expr) (r : bdd) : Prop :=
  Canonical r /\ nvars r = nvars_of names /\ forall v, eval r v = esem e (env_of names v).

Lemma canonical_wf r : Canonical r -> wf r. Proof. now intros (H & _). Qed.

Lemma lift2_good names ev l r op f mk :
  builtin_ok op f ->
  (forall rho, esem (mk l r) rho = f (esem l rho) (esem r rho)) ->
  (exists L, ev l = Ok (Some L) /\ good names l L) ->
  (exists R, ev r = Ok (Some R) /\ good names r R) ->
  exists x, lift2 names ev l r op = Ok (Some x) /\ good names (mk l r) x.
Proof.
  intros (T & C & F) Hmk (L & EL & KL & NL & SL) (R & ER & KR & NR & SR).
  destruct (fused_binary_flip_op_correct L R None None None op (canonical_wf _ KL) (canonical_wf _ KR)
              ltac:(congruence) eq_refl T C) as (x & Ex & Kx & Nx & Sx).
  exists x. unfold lift2. rewrite EL. cbn [bind]. rewrite ER. cbn [bind]. unfold binary_op. rewrite Ex. cbn [bind].
  split; [reflexivity|]. split; [exact Kx|]. split; [congruence|].
  intros v. rewrite Sx. cbn [oflip]. rewrite F, SL, SR. symmetry. apply Hmk.
Qed.

Theorem safe_eval_expr_sem names e : declared names e = true ->
  exists r, safe_eval_expr names e = Ok (Some r) /\ good names e r.
Proof.
  induction e as [c|x|a IHa|a IHa b IHb|a IHa b IHb|a IHa b IHb|a IHa b IHb|a IHa b IHb|a IHa b IHb c IHc];
    cbn [declared safe_eval_expr]; intros Hd.
  - destruct c; eexists; (split; [reflexivity|]); (split; [|split; [reflexivity|]]).
    + apply NotSem.canonical_mk_true.
    + intros v. apply eval_mk_true.
    + apply NotSem.canonical_mk_false.
    + intros v. apply eval_mk_false.
  - destruct (ex_var_by_name names x) as [i|] eqn:Hx; [|discriminate].
    destruct (vs_mk_literal_correct (nvars_of names) i true (var_by_name_lt _ _ _ Hx)) as (r & Er & _ & Nr & Sr & Kr).
    exists r. rewrite Er. cbn [bind]. split; [reflexivity|]. split; [exact Kr|]. split; [exact Nr|].
    intros v. rewrite Sr. cbn [esem]. unfold env_of. rewrite Hx. now destruct (v i).
  - destruct (IHa Hd) as (r & Er & Kr & Nr & Sr). exists (bdd_not r). rewrite Er. cbn [bind option_map].
    split; [reflexivity|]. split; [now apply not_canonical|]. split; [rewrite not_nvars; auto using canonical_wf|].
    intros v. rewrite not_sem by auto using canonical_wf. cbn [esem]. now rewrite Sr.
  - apply andb_true_iff in Hd as (Ha & Hb). apply (lift2_good names _ a b op_and andb EAnd and_table_ok); auto.
  - apply andb_true_iff in Hd as (Ha & Hb). apply (lift2_good names _ a b op_or orb EOr or_table_ok); auto.
  - apply andb_true_iff in Hd as (Ha & Hb). apply (lift2_good names _ a b op_xor xorb EXor xor_table_ok); auto.
  - apply andb_true_iff in Hd as (Ha & Hb). apply (lift2_good names _ a b op_imp implb EImp imp_table_ok); auto.
  - apply andb_true_iff in Hd as (Ha & Hb). apply (lift2_good names _ a b op_iff Bool.eqb EIff iff_table_ok); auto.
  - apply andb_true_iff in Hd as (Hd & Hc). apply andb_true_iff in Hd as (Ha & Hb).
    destruct (IHa Ha) as (A & EA & KA & NA & SA). destruct (IHb Hb) as (B & EB & KB & NB & SB).
    destruct (IHc Hc) as (C & EC & KC & NC & SC).
    destruct (if_then_else_correct A B C (canonical_wf _ KA) (canonical_wf _ KB) (canonical_wf _ KC)
                ltac:(congruence) ltac:(congruence)) as (x & Ex & Kx & Nx & Sx).
    exists x. rewrite EA. cbn [bind]. rewrite EB. cbn [bind]. rewrite EC. cbn [bind]. rewrite Ex. cbn [bind].
    split; [reflexivity|]. split; [exact Kx|]. split; [congruence|].
    intros v. rewrite Sx, SA, SB, SC. reflexivity.
Qed.

(* None exactly when some variable is not declared; never a panic *)
Theorem safe_eval_expr_undeclared names e : declared names e = false -> safe_eval_expr names e = Ok None.
Proof.
  assert (L2 : forall a b op,
    (declared names a = false -> safe_eval_expr names a = Ok None) ->
    (declared names b = false -> safe_eval_expr names b = Ok None) ->
    declared names a && declared names b = false -> lift2 names (safe_eval_expr names) a b op = Ok None).
  { intros a b op IHa IHb Hd. unfold lift2. destruct (declared names a) eqn:Ha.
    - destruct (safe_eval_expr_sem names a Ha) as (L & EL & _). rewrite EL. cbn [bind].
      cbn [andb] in Hd. now rewrite (IHb Hd).
    - now rewrite (IHa eq_refl). }
  induction e as [c|x|a IHa|a IHa b IHb|a IHa b IHb|a IHa b IHb|a IHa b IHb|a IHa b IHb|a IHa b IHb c IHc];
    cbn [declared safe_eval_expr]; intros Hd; auto.
  - discriminate.
  - destruct (ex_var_by_name names x); [discriminate|reflexivity].
  - now rewrite (IHa Hd).
  - destruct (declared names a) eqn:Ha.
    + destruct (safe_eval_expr_sem names a Ha) as (A & EA & _). rewrite EA. cbn [bind].
      destruct (declared names b) eqn:Hb.
      * destruct (safe_eval_expr_sem names b Hb) as (B & EB & _). rewrite EB. cbn [bind].
        cbn [andb] in Hd. now rewrite (IHc Hd).
      * now rewrite (IHb eq_refl).
    + now rewrite (IHa eq_refl).
Qed.

Theorem safe_eval_none_iff names e : safe_eval_expr names e = Ok None <-> declared names e = false.
Proof.
  split; [|apply safe_eval_expr_undeclared].
  intros H. destruct (declared names e) eqn:Hd; [|reflexivity].
  destruct (safe_eval_expr_sem names e Hd) as (r & Er & _). congruence.
Qed.

Theorem safe_eval_expr_total names e :
  (exists r, safe_eval_expr names e = Ok (Some r)) \/ safe_eval_expr names e = Ok None.
Proof.
  destruct (declared names e) eqn:Hd.
  - left. destruct (safe_eval_expr_sem names e Hd) as (r & Er & _). eauto.
  - right. now apply safe_eval_expr_undeclared.
Qed.

Theorem eval_expr_sem names e : declared names e = true ->
  exists r, eval_expr names e = Ok r /\ Canonical r /\ nvars r = nvars_of names /\
    forall v, eval r v = esem e (env_of names v).
Proof.
  intros Hd. destruct (safe_eval_expr_sem names e Hd) as (r & Er & G). exists r. unfold eval_expr. rewrite Er. now cbn.
Qed.

Theorem eval_expr_panic_iff names e : eval_expr names e = Panic <-> declared names e = false.
Proof.
  unfold eval_expr. split.
  - intros H. destruct (declared names e) eqn:Hd; [|reflexivity].
    destruct (safe_eval_expr_sem names e Hd) as (r & Er & _). rewrite Er in H. discriminate.
  - intros Hd. now rewrite (safe_eval_expr_undeclared _ _ Hd).
Qed.

(* ------------------------------------------------------------------ export *)
(* children precede their parents in the array (a consequence of the canonical layout) *)
Definition topo (b : bdd) : Prop := forall p, 2 <= p -> p < size b -> nlow (get b p) < p /\ nhigh (get b p) < p.

Lemma chk_topo fuel G : forall lim p l, chk fuel G lim p = Some l ->
  forall i, lim <= i -> i < l -> nlow (get G i) < i /\ nhigh (get G i) < i.
Proof.
  induction fuel as [|f IH]; intros lim p l H i Hi1 Hi2; [discriminate|]. cbn in H.
  destruct (N.ltb_spec p lim).
  - inversion H; subst; lia.
  - destruct (chk f G lim (nhigh (get G p))) as [l1|] eqn:E1; [|discriminate].
    destruct (chk f G l1 (nlow (get G p))) as [l2|] eqn:E2; [|discriminate].
    destruct (N.eqb_spec p l2); [|discriminate]. inversion H; subst.
    pose proof (chk_lt _ _ _ _ _ E1) as (A1 & A2). pose proof (chk_lt _ _ _ _ _ E2) as (B1 & B2).
    destruct (N.lt_ge_cases i l1) as [C|C]; [exact (IH _ _ _ E1 i Hi1 C)|].
    destruct (N.lt_ge_cases i l2) as [D|D]; [exact (IH _ _ _ E2 i C D)|].
    assert (i = l2) by lia. subst i. lia.
Qed.

Lemma canonical_topo b : Canonical b -> topo b.
Proof.
  intros (Hwf & _ & [H1|Hc]) p Hp Hlt; [lia|]. exact (chk_topo _ _ _ _ _ Hc p Hp Hlt).
Qed.

Lemma lookup_from_nth names : NoDup names -> forall k i x, nth_error names k = Some x ->
  lookup_from i names x = Some (i + N.of_nat k).
Proof.
  induction 1 as [|y r Hy Hnd IH]; intros k i x Hk; [destruct k; discriminate|].
  destruct k as [|k]; cbn [nth_error] in Hk; cbn [lookup_from].
  - injection Hk as ->. rewrite name_eqb_refl. f_equal. lia.
  - destruct (name_eqb_spec x y) as [->|Hn].
    + exfalso. apply Hy. eapply nth_error_In; eauto.
    + rewrite (IH k (i + 1) x Hk). f_equal. lia.
Qed.

Lemma lookup_from_in names x : forall i j, lookup_from i names x = Some j -> In x names.
Proof.
  induction names as [|y r IH]; intros i j H; [discriminate|]. cbn [lookup_from] in H.
  destruct (name_eqb_spec x y) as [->|Hn]; [now left|]. right. eauto.
Qed.

Definition res_ok (names : list name) (b : bdd) (results : list expr) : Prop :=
  forall i e, nth_error results i = Some e ->
    declared names e = true /\ forall v, esem e (env_of names v) = sem b (N.of_nat i) v.

Lemma res_at_ok names b results q : res_ok names b results -> q < N.of_nat (length results) ->
  exists e, res_at results q = Ok e /\ declared names e = true /\ forall v, esem e (env_of names v) = sem b q v.
Proof.
  intros Hr Hq. unfold res_at.
  destruct (nth_error results (N.to_nat q)) as [e|] eqn:E.
  - exists e. split; [reflexivity|]. destruct (Hr _ _ E) as (H1 & H2). split; [exact H1|].
    intros v. rewrite H2. now rewrite Nnat.N2Nat.id.
  - apply nth_error_None in E. lia.
Qed.

Lemma to_expr_node_ok names b results p :
  Canonical b -> NoDup names -> nvars b = nvars_of names -> res_ok names b results ->
  p = N.of_nat (length results) -> 2 <= p -> p < size b ->
  exists e, to_expr_node names results (get b p) = Ok e /\ declared names e = true /\
    forall v, esem e (env_of names v) = sem b p v.
Proof.
  intros K Hnd Hnv Hr Hp Hp2 Hlt. pose proof K as (Hwf & (Hred & _) & _).
  destruct Hwf as (Hs & H0 & H1 & Hn). destruct (Hn p Hp2 Hlt) as (Hv & Hl & Hh & _ & _).
  pose proof (canonical_topo b K p Hp2 Hlt) as (Tl & Th).
  specialize (Hred p Hp2 Hlt).
  assert (SU : forall v, sem b p v = sem b (if v (nvar (get b p)) then nhigh (get b p) else nlow (get b p)) v).
  { intros v. apply sem_unfold; auto. exact (canonical_wf _ K). }
  set (n := get b p) in *. unfold to_expr_node.
  destruct (nth_error names (N.to_nat (nvar n))) as [x|] eqn:Ex.
  2:{ apply nth_error_None in Ex. unfold nvars_of in Hnv. lia. }
  assert (Hx : ex_var_by_name names x = Some (nvar n)).
  { unfold ex_var_by_name. rewrite (lookup_from_nth names Hnd _ 0 x Ex). f_equal. lia. }
  assert (Dx : declared names (EVar x) = true) by (cbn; now rewrite Hx).
  assert (Sx : forall v, env_of names v x = v (nvar n)) by (intros v; unfold env_of; now rewrite Hx).
  cbv zeta.
  destruct (N.ltb_spec (nlow n) 2) as [Ll|Ll]; destruct (N.ltb_spec (nhigh n) 2) as [Lh|Lh]; cbn [andb].
  - (* both links terminal *)
    assert (Cl : nlow n = 0 \/ nlow n = 1) by lia. assert (Ch : nhigh n = 0 \/ nhigh n = 1) by lia.
    destruct Cl as [Cl|Cl], Ch as [Ch|Ch]; try (exfalso; congruence); rewrite Cl, Ch; cbn [N.eqb Pos.eqb andb].
    + exists (EVar x). split; [reflexivity|]. split; [exact Dx|].
      intros v. rewrite SU, Cl, Ch. cbn [esem]. rewrite Sx. now destruct (v (nvar n)).
    + exists (ENot (EVar x)). split; [reflexivity|]. split; [exact Dx|].
      intros v. rewrite SU, Cl, Ch. cbn [esem]. rewrite Sx. now destruct (v (nvar n)).
  - (* low terminal *)
    destruct (res_at_ok names b results (nhigh n) Hr ltac:(lia)) as (h & Eh & Dh & Sh).
    rewrite Eh. cbn [bind]. eexists. split; [reflexivity|].
    assert (Cl : nlow n = 0 \/ nlow n = 1) by lia.
    destruct Cl as [Cl|Cl]; rewrite Cl; cbn [N.eqb Pos.eqb]; (split; [cbn [declared]; cbn [declared] in Dx; now rewrite Dx, Dh|]);
      intros v; rewrite SU, Cl; cbn [esem]; rewrite Sx, Sh; destruct (v (nvar n)); cbn; auto.
  - (* high terminal *)
    destruct (res_at_ok names b results (nlow n) Hr ltac:(lia)) as (l & El & Dl & Sl).
    rewrite El. cbn [bind]. eexists. split; [reflexivity|].
    assert (Ch : nhigh n = 0 \/ nhigh n = 1) by lia.
    destruct Ch as [Ch|Ch]; rewrite Ch; cbn [N.eqb Pos.eqb]; (split; [cbn [declared]; cbn [declared] in Dx; now rewrite Dx, Dl|]);
      intros v; rewrite SU, Ch; cbn [esem]; rewrite Sx, Sl; destruct (v (nvar n)); cbn; auto.
  - destruct (res_at_ok names b results (nhigh n) Hr ltac:(lia)) as (h & Eh & Dh & Sh).
    destruct (res_at_ok names b results (nlow n) Hr ltac:(lia)) as (l & El & Dl & Sl).
    rewrite Eh. cbn [bind]. rewrite El. cbn [bind]. eexists. split; [reflexivity|].
    split; [cbn [declared]; cbn [declared] in Dx; now rewrite Dx, Dh, Dl|].
    intros v. rewrite SU. cbn [esem]. rewrite Sx, Sh, Sl. destruct (v (nvar n)); cbn; auto.
    now rewrite orb_false_r.
Qed.

Lemma skipn_cons_get (b : bdd) k n r : skipn k b = n :: r -> get b (N.of_nat k) = n /\ (k < length b)%nat /\ skipn (S k) b = r.
Proof.
  revert b. induction k as [|k IH]; intros b H.
  - cbn in H. subst b. cbn. repeat split. lia.
  - destruct b as [|m b]; [discriminate|]. cbn [skipn] in H. destruct (IH b H) as (A & B & C).
    split; [|split; [cbn; lia|exact C]]. unfold get in *. rewrite Nnat.Nat2N.id in *. exact A.
Qed.

Lemma to_expr_loop_ok names b : Canonical b -> NoDup names -> nvars b = nvars_of names ->
  forall nodes results, skipn (length results) b = nodes -> (2 <= length results)%nat -> (length results <= length b)%nat ->
  res_ok names b results ->
  exists rs, to_expr_loop names nodes results = Ok rs /\ res_ok names b rs /\ length rs = length b.
Proof.
  intros K Hnd Hnv. induction nodes as [|n r IH]; intros results Hsk H2 Hle Hr; cbn [to_expr_loop].
  - exists results. split; [reflexivity|]. split; [exact Hr|].
    assert (length (skipn (length results) b) = 0%nat) by now rewrite Hsk. rewrite skipn_length in H. lia.
  - destruct (skipn_cons_get _ _ _ _ Hsk) as (Hg & Hlt & Hsk').
    destruct (to_expr_node_ok names b results (N.of_nat (length results)) K Hnd Hnv Hr eq_refl ltac:(lia)
                ltac:(unfold size; lia)) as (e & Ee & De & Se).
    rewrite Hg in Ee. rewrite Ee. cbn [bind].
    apply IH.
    + rewrite app_length. cbn. now replace (length results + 1)%nat with (S (length results)) by lia.
    + rewrite app_length. cbn. lia.
    + rewrite app_length. cbn. lia.
    + intros i e' Hi. destruct (Nat.lt_ge_cases i (length results)) as [C|C].
      * rewrite nth_error_app1 in Hi by exact C. exact (Hr _ _ Hi).
      * rewrite nth_error_app2 in Hi by exact C.
        destruct (i - length results)%nat as [|j] eqn:Ej; cbn in Hi; [|destruct j; discriminate].
        injection Hi as <-. assert (i = length results) by lia. subst i. split; [exact De|exact Se].
Qed.

Lemma last_nth_error {A} (l : list A) d : l <> [] -> nth_error l (length l - 1) = Some (last l d).
Proof.
  induction l as [|x l IH]; [congruence|]. intros _. destruct l as [|y l]; [reflexivity|].
  cbn [length]. replace (S (S (length l)) - 1)%nat with (S (length (y :: l) - 1)) by (cbn; lia).
  cbn [nth_error]. rewrite IH by discriminate. reflexivity.
Qed.

Theorem to_expr_sem names b : Canonical b -> NoDup names -> nvars b = nvars_of names ->
  exists e, to_expr names b = Ok e /\ declared names e = true /\ forall v, esem e (env_of names v) = eval b v.
Proof.
  intros K Hnd Hnv. pose proof (canonical_wf _ K) as Hwf. pose proof (size_pos b Hwf) as Hp.
  unfold to_expr, is_false, is_true, eval.
  destruct (N.eqb_spec (size b) 1) as [S1|S1].
  { exists (EConst false). split; [reflexivity|]. split; [reflexivity|]. intros v. rewrite S1. reflexivity. }
  destruct (N.eqb_spec (size b) 2) as [S2|S2].
  { exists (EConst true). split; [reflexivity|]. split; [reflexivity|]. intros v. rewrite S2. reflexivity. }
  assert (H3 : (3 <= length b)%nat) by (unfold size in *; lia).
  destruct (to_expr_loop_ok names b K Hnd Hnv (skipn 2 b) [EConst false; EConst true] eq_refl ltac:(cbn; lia) ltac:(cbn; lia))
    as (rs & Ers & Hrs & Hlen).
  { intros i e Hi. destruct i as [|[|i]]; cbn in Hi; try (destruct i; discriminate); injection Hi as <-; split; reflexivity. }
  rewrite Ers. cbn [bind]. eexists. split; [reflexivity|].
  assert (Hne : rs <> []) by (intros ->; cbn in Hlen; lia).
  destruct (Hrs _ _ (last_nth_error rs (EConst true) Hne)) as (D & S).
  split; [exact D|]. intros v. rewrite S. f_equal. unfold size. rewrite Hlen. lia.
Qed.

(* evaluating the exported expression returns the very same diagram *)
Theorem export_roundtrip names b : Canonical b -> NoDup names -> nvars b = nvars_of names ->
  exists e, to_expr names b = Ok e /\ eval_expr names e = Ok b.
Proof.
  intros K Hnd Hnv. destruct (to_expr_sem names b K Hnd Hnv) as (e & Ee & De & Se).
  destruct (eval_expr_sem names e De) as (r & Er & Kr & Nr & Sr).
  exists e. split; [exact Ee|]. rewrite Er. f_equal.
  apply canonical_unique; auto; [congruence|]. intros v. now rewrite Sr, Se.
Qed.

(* ------------------------------------------------------------------ ... also through the printed text *)
From BddVerif Require Import Proofs.ExprParse Proofs.ExprShow.

Lemma declared_safe names e : Forall (fun x => safe_name x = true) names -> declared names e = true -> safe_names e = true.
Proof.
  intros Hs.
  induction e as [c|x|a IHa|a IHa b IHb|a IHa b IHb|a IHa b IHb|a IHa b IHb|a IHa b IHb|a IHa b IHb c IHc];
    cbn [declared safe_names]; intros Hd; auto.
  - destruct (ex_var_by_name names x) as [i|] eqn:Hx; [|discriminate].
    apply lookup_from_in in Hx. rewrite Forall_forall in Hs. now apply Hs.
  - apply andb_true_iff in Hd as (Ha & Hb). now rewrite IHa, IHb.
  - apply andb_true_iff in Hd as (Ha & Hb). now rewrite IHa, IHb.
  - apply andb_true_iff in Hd as (Ha & Hb). now rewrite IHa, IHb.
  - apply andb_true_iff in Hd as (Ha & Hb). now rewrite IHa, IHb.
  - apply andb_true_iff in Hd as (Ha & Hb). now rewrite IHa, IHb.
  - apply andb_true_iff in Hd as (Hd & Hc). apply andb_true_iff in Hd as (Ha & Hb). now rewrite IHa, IHb, IHc.
Qed.

Theorem export_text_roundtrip names b :
  Canonical b -> NoDup names -> nvars b = nvars_of names -> Forall (fun x => safe_name x = true) names ->
  exists e, to_expr names b = Ok e /\ parse_string (show e) = POk e /\ eval_expr names e = Ok b.
Proof.
  intros K Hnd Hnv Hs. destruct (to_expr_sem names b K Hnd Hnv) as (e & Ee & De & _).
  destruct (export_roundtrip names b K Hnd Hnv) as (e' & Ee' & Er). assert (e' = e) by congruence. subst e'.
  exists e. split; [exact Ee|]. split; [|exact Er]. apply show_parse. exact (declared_safe _ _ Hs De).
Qed.

(* ------------------------------------------------------------------ the bdd! operator table *)
Definition msem (s : msym) : bool -> bool -> bool :=
  match s with MNot => fun a _ => negb a | MAnd => andb | MOr => orb | MIff => Bool.eqb | MImp => implb | MXor => xorb end.

Theorem macro_table_ok s op : macro_binary s = Some op -> builtin_ok op (msem s).
Proof.
  destruct s; cbn; intros [= <-].
  - apply and_table_ok. - apply or_table_ok. - apply iff_table_ok. - apply imp_table_ok. - apply xor_table_ok.
Qed.

Theorem macro_binary_sem s op A B : macro_binary s = Some op -> wf A -> wf B -> nvars A = nvars B ->
  exists r, binary_op A B op = Ok r /\ Canonical r /\ nvars r = nvars A /\ forall v, eval r v = msem s (eval A v) (eval B v).
Proof.
  intros Hs WA WB NV. destruct (macro_table_ok _ _ Hs) as (T & C & F).
  destruct (fused_binary_flip_op_correct A B None None None op WA WB NV eq_refl T C) as (r & Er & Kr & Nr & Sr).
  exists r. split; [exact Er|]. split; [exact Kr|]. split; [exact Nr|]. intros v. rewrite Sr. cbn [oflip]. apply F.
Qed.
