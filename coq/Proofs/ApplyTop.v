(* Proofs/ApplyTop.v — API-level statements about the binary operators: pointwise semantics with
   fused flips, canonicity of the result, the panic conditions, the built-in tables. *)
From Coq Require Import List NArith Lia Bool.
Import ListNotations.
From BddVerif Require Import Model.Bdd Model.Apply Proofs.Sem Proofs.Canon Proofs.ApplySem.
Open Scope N_scope.

(* "consistent partial-operator table": total on total inputs; an answer on partial information
   is the answer of every completion *)
Definition bop_of (op : op2) (a b : bool) : bool :=
  match op (Some a) (Some b) with Some c => c | None => false end.
Definition total2 (op : op2) : Prop := forall a b, op (Some a) (Some b) <> None.
Definition consistent2 (op : op2) : Prop :=
  forall x y r, op x y = Some r -> forall a b, refines a x -> refines b y -> op (Some a) (Some b) = Some r.

Lemma total2_bop op : total2 op -> forall a b, op (Some a) (Some b) = Some (bop_of op a b).
Proof. intros T a b. unfold bop_of. specialize (T a b). destruct (op (Some a) (Some b)); congruence. Qed.

Lemma consistent2_bop op : total2 op -> consistent2 op ->
  forall x y r, op x y = Some r -> forall a b, refines a x -> refines b y -> bop_of op a b = r.
Proof. intros T C x y r H a b Ra Rb. unfold bop_of. rewrite (C x y r H a b Ra Rb). reflexivity. Qed.

Lemma flip_ok_lt nv f : flip_ok nv f = true -> forall x, f = Some x -> x < nv.
Proof. intros H x ->. cbn in H. now apply N.ltb_lt. Qed.

Definition flips_ok (nv : N) (fa fb fo : option N) : bool := flip_ok nv fa && flip_ok nv fb && flip_ok nv fo.

Theorem fused_binary_flip_op_correct A B fa fb fo op :
  wf A -> wf B -> nvars A = nvars B -> flips_ok (nvars A) fa fb fo = true ->
  total2 op -> consistent2 op ->
  exists r, fused_binary_flip_op A B fa fb fo op = Ok r /\ Canonical r /\ nvars r = nvars A /\
    forall v, eval r v = bop_of op (eval A (oflip fa (oflip fo v))) (eval B (oflip fb (oflip fo v))).
Proof.
  intros WA WB NV FL T C. unfold flips_ok in FL.
  apply andb_true_iff in FL. destruct FL as (FL & FO). apply andb_true_iff in FL. destruct FL as (FA & FB).
  destruct (apply2_full A B fa fb fo op (bop_of op) WA WB NV (flip_ok_lt _ _ FA) (flip_ok_lt _ _ FB)
              (total2_bop op T) (consistent2_bop op T C)) as (r & E & (Cr & Nr) & S).
  exists r. unfold fused_binary_flip_op, guard2. rewrite NV, N.eqb_refl. cbn [negb].
  rewrite <- NV, FA, FB, FO. cbn [andb negb]. rewrite E. cbn [of_option].
  split; [reflexivity|]. split; [assumption|]. split; [assumption|]. intros v. rewrite S. reflexivity.
Qed.

(* the only panics are the two argument checks of the Rust entry point *)
Theorem fused_binary_flip_op_panic_iff A B fa fb fo op :
  fused_binary_flip_op A B fa fb fo op = Panic <->
  (nvars A <> nvars B \/ flips_ok (nvars A) fa fb fo = false).
Proof.
  unfold fused_binary_flip_op, guard2, flips_ok.
  destruct (N.eqb_spec (nvars A) (nvars B)) as [E|NE]; cbn [negb].
  - destruct (flip_ok (nvars A) fa && flip_ok (nvars A) fb && flip_ok (nvars A) fo) eqn:F; cbn [negb].
    + split; [|intros [H|H]; congruence]. destruct (apply2 A B fa fb fo op); cbn; discriminate.
    + split; auto.
  - split; auto.
Qed.

(* ---- the six built-in tables ---- *)
Definition builtin_ok (op : op2) (f : bool -> bool -> bool) : Prop :=
  total2 op /\ consistent2 op /\ forall a b, bop_of op a b = f a b.

Ltac table_tac :=
  unfold builtin_ok, total2, consistent2, bop_of, refines; split; [|split];
  [ intros [|] [|]; cbn; discriminate
  | intros [[|]|] [[|]|] r H [|] [|] Ra Rb; cbn in *; try congruence; try discriminate
  | intros [|] [|]; reflexivity ].

Lemma and_table_ok : builtin_ok op_and andb. Proof. table_tac. Qed.
Lemma or_table_ok : builtin_ok op_or orb. Proof. table_tac. Qed.
Lemma imp_table_ok : builtin_ok op_imp implb. Proof. table_tac. Qed.
Lemma iff_table_ok : builtin_ok op_iff Bool.eqb. Proof. table_tac. Qed.
Lemma xor_table_ok : builtin_ok op_xor xorb. Proof. table_tac. Qed.
Lemma and_not_table_ok : builtin_ok op_and_not (fun a b => a && negb b). Proof. table_tac. Qed.

(* two consistent tables of the same connective give identical arrays *)
Theorem eager_lazy_same A B fa fb fo op1 op2' :
  wf A -> wf B -> nvars A = nvars B -> flips_ok (nvars A) fa fb fo = true ->
  total2 op1 -> consistent2 op1 -> total2 op2' -> consistent2 op2' ->
  (forall a b, bop_of op1 a b = bop_of op2' a b) ->
  fused_binary_flip_op A B fa fb fo op1 = fused_binary_flip_op A B fa fb fo op2'.
Proof.
  intros WA WB NV FL T1 C1 T2 C2 Eq.
  destruct (fused_binary_flip_op_correct A B fa fb fo op1 WA WB NV FL T1 C1) as (r1 & E1 & K1 & N1 & S1).
  destruct (fused_binary_flip_op_correct A B fa fb fo op2' WA WB NV FL T2 C2) as (r2 & E2 & K2 & N2 & S2).
  rewrite E1, E2. f_equal. apply canonical_unique; try assumption; [congruence|].
  intros v. rewrite S1, S2. apply Eq.
Qed.

(* ---- size-limited operator: Some r exactly when the unrestricted result r has at most `limit` nodes ---- *)
Theorem limit_exact A B fa fb fo op limit :
  wf A -> wf B -> nvars A = nvars B -> flips_ok (nvars A) fa fb fo = true ->
  total2 op -> consistent2 op ->
  exists r, fused_binary_flip_op A B fa fb fo op = Ok r /\
    fused_binary_flip_op_with_limit limit A B fa fb fo op = Ok (if size r <=? limit then Some r else None).
Proof.
  intros WA WB NV FL T C. pose proof FL as FL0. unfold flips_ok in FL.
  apply andb_true_iff in FL. destruct FL as (FL & FO). apply andb_true_iff in FL. destruct FL as (FA & FB).
  destruct (apply2_limit_spec A B fa fb fo op (bop_of op) WA WB NV (flip_ok_lt _ _ FA) (flip_ok_lt _ _ FB)
              (total2_bop op T) (consistent2_bop op T C) limit) as (r & E & L).
  destruct (fused_binary_flip_op_correct A B fa fb fo op WA WB NV FL0 T C) as (r' & E' & Cr & _).
  exists r. unfold fused_binary_flip_op, fused_binary_flip_op_with_limit, guard2 in *. rewrite NV, N.eqb_refl in *. cbn [negb] in *.
  rewrite <- NV, FA, FB, FO in *. cbn [andb negb] in *. rewrite E in *. rewrite L. cbn [of_option] in *.
  split; [reflexivity|]. f_equal.
  destruct (N.eqb_spec limit 0) as [->|Hl]; [|reflexivity].
  inversion E'; subst r'. destruct Cr as (Wr & _). pose proof (size_pos r Wr).
  destruct (N.leb_spec (size r) 0); [lia|reflexivity].
Qed.
