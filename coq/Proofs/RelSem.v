(* Proofs/RelSem.v — literals, var_exists, var_select, restrict, var_pick, substitute:
   pointwise semantics, canonicity and totality (no Panic / OutOfFuel) under the range hypotheses.
   Everything is a chain of fused_binary_flip_op_correct with the built-in tables. *)
From Coq Require Import List NArith Lia Bool.
Import ListNotations.
From BddVerif Require Import Model.Bdd Model.Apply Model.Ops Proofs.Sem Proofs.Canon Proofs.ApplySem Proofs.ApplyTop.
Open Scope N_scope.

(* ======================================================================================== *)
(* Generic helpers                                                                           *)

Ltac split4 := split; [|split; [|split]].

Lemma canonical_wf b : Canonical b -> wf b. Proof. intros (H & _); exact H. Qed.

(* one binary apply with a built-in table *)
Lemma binop_ok op f A B fa fb fo :
  builtin_ok op f -> wf A -> wf B -> nvars A = nvars B -> flips_ok (nvars A) fa fb fo = true ->
  exists r, fused_binary_flip_op A B fa fb fo op = Ok r /\ Canonical r /\ nvars r = nvars A /\
    forall v, eval r v = f (eval A (oflip fa (oflip fo v))) (eval B (oflip fb (oflip fo v))).
Proof.
  intros (T & C & F) WA WB NV FL.
  destruct (fused_binary_flip_op_correct A B fa fb fo op WA WB NV FL T C) as (r & E & K & N & S).
  exists r. split4; try assumption. intros v. rewrite S. apply F.
Qed.

Lemma lazy_table_ok f : builtin_ok (lazy_op f) f.
Proof.
  unfold builtin_ok, total2, consistent2, bop_of, refines, lazy_op. split; [|split].
  - intros a b; discriminate.
  - intros [x|] [y|] r H a b Ra Rb; try discriminate. subst. exact H.
  - reflexivity.
Qed.

(* eval only looks at the valuation pointwise (no well-formedness needed) *)
Lemma sem_fuel_ext b v w : (forall y, v y = w y) -> forall fuel p, sem_fuel fuel b p v = sem_fuel fuel b p w.
Proof.
  intros E. induction fuel as [|f IH]; intros p; [reflexivity|]. cbn [sem_fuel].
  destruct (p <? 2); [reflexivity|]. rewrite E. apply IH.
Qed.

Lemma eval_ext b v w : (forall y, v y = w y) -> eval b v = eval b w.
Proof. intros E. unfold eval, sem. now apply sem_fuel_ext. Qed.

(* sem depends only on the variables tested by decision nodes *)
Lemma sem_agree_nodes b : wf b -> forall k p v w, valid b p -> (N.to_nat (nvars b - var_of b p) < k)%nat ->
  (forall q, 2 <= q -> q < size b -> v (var_of b q) = w (var_of b q)) -> sem b p v = sem b p w.
Proof.
  intros Hwf. induction k as [|k IH]; intros p v w Vp Hk Hvw; [lia|].
  destruct (N.ltb_spec p 2) as [Hlt|Hge].
  - assert (p = 0 \/ p = 1) as [->| ->] by lia; reflexivity.
  - destruct Vp as (Vp & _).
    rewrite (sem_unfold b p v), (sem_unfold b p w) by assumption.
    destruct (wf_children b p Hwf Hge Vp) as (Vl & Vh & Hl & Hh & Hnv).
    rewrite <- (Hvw p) by assumption.
    destruct (v (var_of b p)); apply IH; try assumption; lia.
Qed.

Lemma root_valid b : wf b -> valid b (size b - 1).
Proof. intros W. pose proof (size_pos b W). split; intros; lia. Qed.

Lemma eval_agree_nodes b v w : wf b ->
  (forall q, 2 <= q -> q < size b -> v (var_of b q) = w (var_of b q)) -> eval b v = eval b w.
Proof.
  intros W H. unfold eval.
  apply (sem_agree_nodes b W (S (N.to_nat (nvars b - var_of b (size b - 1))))); auto using root_valid.
Qed.

(* ... in particular only on the variables below nvars *)
Lemma eval_agree_lt b v w : wf b -> (forall x, x < nvars b -> v x = w x) -> eval b v = eval b w.
Proof.
  intros W H. apply eval_agree_nodes; [assumption|]. intros q Hq Hlt. apply H.
  destruct (wf_children b q W Hq Hlt) as (_ & _ & _ & _ & Hn). exact Hn.
Qed.

Lemma flipv_upd_ne v x c y : v x <> c -> flipv v x y = upd v x c y.
Proof. intros H. unfold flipv, upd. destruct (y =? x); [|reflexivity]. destruct (v x) eqn:?, c; cbn; congruence. Qed.

Lemma upd_id v x c y : v x = c -> upd v x c y = v y.
Proof. intros H. unfold upd. destruct (N.eqb_spec y x); congruence. Qed.

Lemma flipv_same v x : flipv v x x = negb (v x).
Proof. unfold flipv. apply upd_same. Qed.

Lemma flips_ok_b nv x : x < nv -> flips_ok nv None (Some x) None = true.
Proof. intros H. unfold flips_ok. cbn. rewrite andb_true_r. now apply N.ltb_lt. Qed.

Lemma flips_ok_none nv : flips_ok nv None None None = true.
Proof. reflexivity. Qed.

(* constant diagrams *)
Lemma wf_const_canonical b : wf b -> (is_true b || is_false b) = true -> Canonical b.
Proof.
  intros W H. split; [assumption|]. unfold is_true, is_false in H.
  apply orb_true_iff in H. destruct H as [H|H]; apply N.eqb_eq in H.
  - split.
    + split; intros; lia.
    + right. rewrite H. cbn. reflexivity.
  - split.
    + split; intros; lia.
    + left. exact H.
Qed.

Lemma eval_const b v w : (is_true b || is_false b) = true -> eval b v = eval b w.
Proof.
  intros H. unfold is_true, is_false in H. apply orb_true_iff in H.
  unfold eval. destruct H as [H|H]; apply N.eqb_eq in H; rewrite H; reflexivity.
Qed.

(* ======================================================================================== *)
(* A. Literals                                                                               *)

Lemma mk_literal_nvars nv x c : nvars (mk_literal nv x c) = nv.
Proof. destruct c; reflexivity. Qed.

Lemma mk_literal_size nv x c : size (mk_literal nv x c) = 3.
Proof. destruct c; reflexivity. Qed.

Lemma mk_literal_wf nv x c : x < nv -> wf (mk_literal nv x c).
Proof.
  intros Hx. unfold wf. rewrite mk_literal_nvars, mk_literal_size.
  split; [lia|]. split; [destruct c; reflexivity|]. split; [intros _; destruct c; reflexivity|].
  intros p Hp Hlt. assert (p = 2) by lia. subst p.
  unfold wf_node, var_of. rewrite mk_literal_size.
  destruct c;
    [change (get (mk_literal nv x true) 2) with (mkNode x 0 1)
    |change (get (mk_literal nv x false) 2) with (mkNode x 1 0)];
    cbn [nvar nlow nhigh];
    [change (get (mk_literal nv x true) 0) with (mkNode nv 0 0);
     change (get (mk_literal nv x true) 1) with (mkNode nv 1 1)
    |change (get (mk_literal nv x false) 0) with (mkNode nv 0 0);
     change (get (mk_literal nv x false) 1) with (mkNode nv 1 1)];
    cbn [nvar]; repeat split; lia.
Qed.

Lemma mk_literal_eval nv x c v : x < nv -> eval (mk_literal nv x c) v = Bool.eqb (v x) c.
Proof.
  intros Hx. pose proof (mk_literal_wf nv x c Hx) as W.
  unfold eval. rewrite mk_literal_size. change (3 - 1) with 2.
  rewrite sem_unfold; [|assumption|lia|rewrite mk_literal_size; lia].
  unfold var_of.
  destruct c;
    [change (get (mk_literal nv x true) 2) with (mkNode x 0 1)
    |change (get (mk_literal nv x false) 2) with (mkNode x 1 0)];
    cbn [nvar nlow nhigh]; destruct (v x); reflexivity.
Qed.

Lemma mk_literal_canonical nv x c : x < nv -> Canonical (mk_literal nv x c).
Proof.
  intros Hx. split; [now apply mk_literal_wf|]. split.
  - split.
    + intros p Hp Hlt. rewrite mk_literal_size in Hlt. assert (p = 2) by lia. subst p.
      destruct c; cbn; discriminate.
    + intros p q Hp Hlp Hq Hlq _. rewrite mk_literal_size in *. lia.
  - right. rewrite mk_literal_nvars, mk_literal_size. change (3 - 1) with 2.
    destruct (N.to_nat nv) as [|k] eqn:E; [lia|].
    destruct c; reflexivity.
Qed.

(* ======================================================================================== *)
(* B. var_exists                                                                             *)

Theorem var_exists_correct b x : wf b -> x < nvars b ->
  exists r, var_exists b x = Ok r /\ Canonical r /\ nvars r = nvars b /\
    forall v, eval r v = eval b v || eval b (flipv v x).
Proof.
  intros W Hx. unfold var_exists.
  destruct (binop_ok op_or orb b b None (Some x) None or_table_ok W W eq_refl (flips_ok_b _ _ Hx))
    as (r & E & K & N & S).
  exists r. split4; try assumption.
Qed.
Print Assumptions var_exists_correct.

(* the usual reading: r(v) = b(v[x:=0]) \/ b(v[x:=1]) *)
Corollary var_exists_cofactors b x : wf b -> x < nvars b ->
  exists r, var_exists b x = Ok r /\ Canonical r /\ nvars r = nvars b /\
    forall v, eval r v = eval b (upd v x false) || eval b (upd v x true).
Proof.
  intros W Hx. destruct (var_exists_correct b x W Hx) as (r & E & K & N & S).
  exists r. split4; try assumption. intros v. rewrite S.
  destruct (v x) eqn:Vx.
  - rewrite orb_comm. f_equal; apply eval_ext; intros y.
    + apply flipv_upd_ne. rewrite Vx; discriminate.
    + symmetry. now apply upd_id.
  - f_equal; apply eval_ext; intros y.
    + symmetry. now apply upd_id.
    + apply flipv_upd_ne. rewrite Vx; discriminate.
Qed.
Print Assumptions var_exists_cofactors.

(* ======================================================================================== *)
(* C. var_select                                                                             *)

Theorem var_select_correct b x c : wf b -> x < nvars b ->
  exists r, var_select b x c = Ok r /\ Canonical r /\ nvars r = nvars b /\
    forall v, eval r v = eval b v && Bool.eqb (v x) c.
Proof.
  intros W Hx. unfold var_select, bdd_and, binary_op.
  destruct (binop_ok op_and andb b (mk_literal (nvars b) x c) None None None and_table_ok W
              (mk_literal_wf _ x c Hx) (eq_sym (mk_literal_nvars _ x c)) (flips_ok_none _))
    as (r & E & K & N & S).
  exists r. split4; try assumption. intros v. rewrite S. cbn [oflip].
  now rewrite mk_literal_eval.
Qed.
Print Assumptions var_select_correct.

Lemma bdd_and_correct a b : wf a -> wf b -> nvars a = nvars b ->
  exists r, bdd_and a b = Ok r /\ Canonical r /\ nvars r = nvars a /\ forall v, eval r v = eval a v && eval b v.
Proof.
  intros Wa Wb NV. unfold bdd_and, binary_op.
  destruct (binop_ok op_and andb a b None None None and_table_ok Wa Wb NV (flips_ok_none _)) as (r & E & K & N & S).
  exists r. split4; assumption.
Qed.

Lemma bdd_or_correct a b : wf a -> wf b -> nvars a = nvars b ->
  exists r, bdd_or a b = Ok r /\ Canonical r /\ nvars r = nvars a /\ forall v, eval r v = eval a v || eval b v.
Proof.
  intros Wa Wb NV. unfold bdd_or, binary_op.
  destruct (binop_ok op_or orb a b None None None or_table_ok Wa Wb NV (flips_ok_none _)) as (r & E & K & N & S).
  exists r. split4; assumption.
Qed.

(* ======================================================================================== *)
(* E. restriction                                                                            *)

Theorem var_restrict1_correct b x c : wf b -> x < nvars b ->
  exists r, var_restrict1 b (x, c) = Ok r /\ Canonical r /\ nvars r = nvars b /\
    forall v, eval r v = eval b (upd v x c).
Proof.
  intros W Hx. unfold var_restrict1. cbn [fst snd].
  destruct (var_select_correct b x c W Hx) as (s & Es & Ks & Ns & Ss).
  rewrite Es. cbn [bind].
  destruct (var_exists_correct s x (canonical_wf _ Ks) ltac:(rewrite Ns; exact Hx)) as (r & Er & Kr & Nr & Sr).
  exists r. split; [assumption|]. split; [assumption|]. split; [congruence|].
  intros v. rewrite Sr, !Ss, flipv_same.
  destruct (Bool.eqb (v x) c) eqn:Q.
  - apply eqb_prop in Q. rewrite andb_true_r.
    replace (Bool.eqb (negb (v x)) c) with false by (destruct (v x), c; cbn in *; congruence).
    rewrite andb_false_r, orb_false_r. apply eval_ext. intros y. symmetry. now apply upd_id.
  - rewrite andb_false_r. cbn [orb].
    assert (Hne : v x <> c) by (intros H; rewrite H, eqb_reflx in Q; discriminate).
    replace (Bool.eqb (negb (v x)) c) with true by (destruct (v x), c; cbn in *; congruence).
    rewrite andb_true_r. apply eval_ext. intros y. now apply flipv_upd_ne.
Qed.
Print Assumptions var_restrict1_correct.

(* apply the cells: the head of the list is the outermost update *)
Fixpoint override (v : val) (cells : list (N * bool)) : val :=
  match cells with [] => v | xc :: r => upd (override v r) (fst xc) (snd xc) end.

Lemma restrict_cells_correct cells : forall b, Canonical b ->
  Forall (fun xc => fst xc < nvars b) cells ->
  exists r, restrict_cells cells b = Ok r /\ Canonical r /\ nvars r = nvars b /\
    forall v, eval r v = eval b (override v cells).
Proof.
  induction cells as [|[x c] cells IH]; intros b K HF.
  - exists b. split4; try assumption; reflexivity.
  - inversion HF as [|? ? Hx HF']; subst. cbn [fst] in Hx. cbn [restrict_cells].
    destruct (var_restrict1_correct b x c (canonical_wf _ K) Hx) as (b1 & E1 & K1 & N1 & S1).
    rewrite E1. cbn [bind].
    destruct (IH b1 K1) as (r & Er & Kr & Nr & Sr).
    { rewrite N1. exact HF'. }
    exists r. split; [assumption|]. split; [assumption|]. split; [congruence|].
    intros v. rewrite Sr, S1. reflexivity.
Qed.

Lemma override_filter_lt v cells nv x : x < nv ->
  override v (filter (fun xc => fst xc <? nv) cells) x = override v cells x.
Proof.
  intros Hx. induction cells as [|[y c] cells IH]; [reflexivity|]. cbn [filter fst].
  destruct (N.ltb_spec y nv) as [Hy|Hy]; cbn [override fst snd].
  - unfold upd. destruct (x =? y); [reflexivity|exact IH].
  - rewrite upd_other by lia. exact IH.
Qed.

Theorem restrict_correct b lits : wf b ->
  exists r, restrict b lits = Ok r /\ Canonical r /\ nvars r = nvars b /\
    forall v, eval r v = eval b (override v (pv_cells (pv_from_values lits))).
Proof.
  intros W. unfold restrict.
  destruct (is_true b || is_false b) eqn:Cst.
  - exists b. split; [reflexivity|]. split; [now apply wf_const_canonical|]. split; [reflexivity|].
    intros v. now apply eval_const.
  - destruct (bdd_and_correct b b W W eq_refl) as (b' & E' & K' & N' & S'). rewrite E'. cbn [bind].
    set (cells := pv_cells (pv_from_values lits)).
    destruct (restrict_cells_correct (filter (fun xc => fst xc <? nvars b) cells) b' K') as (r & Er & Kr & Nr & Sr).
    { apply Forall_forall. intros xc Hin. apply filter_In in Hin. destruct Hin as (_ & Hlt).
      rewrite N'. now apply N.ltb_lt. }
    exists r. split; [assumption|]. split; [assumption|]. split; [congruence|].
    intros v. rewrite Sr, S', andb_diag. apply eval_agree_lt; [assumption|].
    intros x Hx. now apply override_filter_lt.
Qed.
Print Assumptions restrict_correct.

Lemma pv_cells_from_single k : forall i c, pv_cells_from i (pv_set [] k (Some c)) = [(i + N.of_nat k, c)].
Proof.
  induction k as [|k IH]; intros i c.
  - cbn. now rewrite N.add_0_r.
  - cbn [pv_set pv_cells_from]. rewrite IH. f_equal. f_equal. lia.
Qed.

Lemma pv_cells_single x c : pv_cells (pv_from_values [(x, c)]) = [(x, c)].
Proof.
  unfold pv_cells, pv_from_values. cbn [fold_left fst snd]. rewrite pv_cells_from_single.
  rewrite Nnat.N2Nat.id. reflexivity.
Qed.

(* no range hypothesis on x needed: an out-of-range variable is ignored by the model and by eval *)
Theorem var_restrict_correct b x c : wf b ->
  exists r, var_restrict b x c = Ok r /\ Canonical r /\ nvars r = nvars b /\
    forall v, eval r v = eval b (upd v x c).
Proof.
  intros W. unfold var_restrict.
  destruct (restrict_correct b [(x, c)] W) as (r & E & K & N & S).
  exists r. split4; try assumption. intros v. rewrite S, pv_cells_single. reflexivity.
Qed.
Print Assumptions var_restrict_correct.

(* the restriction does not depend on the restricted variable *)
Corollary var_restrict_indep b x c : wf b ->
  exists r, var_restrict b x c = Ok r /\ forall v d, eval r (upd v x d) = eval r v.
Proof.
  intros W. destruct (var_restrict_correct b x c W) as (r & E & K & N & S).
  exists r. split; [assumption|]. intros v d. rewrite !S. apply eval_ext. intros y.
  unfold upd. destruct (y =? x); reflexivity.
Qed.
Print Assumptions var_restrict_indep.

(* ======================================================================================== *)
(* F. var_pick                                                                               *)

Theorem var_pick_pref_correct b x pref : wf b -> x < nvars b ->
  exists r, var_pick_pref b x pref = Ok r /\ Canonical r /\ nvars r = nvars b /\
    forall v, eval r v = eval b v && negb (negb (Bool.eqb (v x) pref) && eval b (upd v x pref)).
Proof.
  intros W Hx. unfold var_pick_pref.
  destruct (var_select_correct b x pref W Hx) as (s & Es & Ks & Ns & Ss).
  rewrite Es. cbn [bind].
  destruct (binop_ok op_and_not (fun a b => a && negb b) b s None (Some x) None and_not_table_ok W
              (canonical_wf _ Ks) (eq_sym Ns) (flips_ok_b _ _ Hx)) as (r & Er & Kr & Nr & Sr).
  exists r. split4; try assumption. intros v. rewrite Sr. cbn [oflip]. rewrite Ss, flipv_same.
  f_equal. f_equal.
  destruct (Bool.eqb (v x) pref) eqn:Q.
  - apply eqb_prop in Q. cbn [negb andb].
    replace (Bool.eqb (negb (v x)) pref) with false by (destruct (v x), pref; cbn in *; congruence).
    apply andb_false_r.
  - assert (Hne : v x <> pref) by (intros H; rewrite H, eqb_reflx in Q; discriminate).
    replace (Bool.eqb (negb (v x)) pref) with true by (destruct (v x), pref; cbn in *; congruence).
    rewrite andb_true_r. cbn [negb andb]. apply eval_ext. intros y. now apply flipv_upd_ne.
Qed.
Print Assumptions var_pick_pref_correct.

Theorem var_pick_correct b x : wf b -> x < nvars b ->
  exists r, var_pick b x = Ok r /\ Canonical r /\ nvars r = nvars b /\
    forall v, eval r v = eval b v && negb (v x && eval b (upd v x false)).
Proof.
  intros W Hx. unfold var_pick.
  destruct (var_pick_pref_correct b x false W Hx) as (r & E & K & N & S).
  exists r. split4; try assumption. intros v. rewrite S.
  destruct (v x); reflexivity.
Qed.
Print Assumptions var_pick_correct.

(* the random variant consumes one script bit (an exhausted script reads true) and is var_pick_pref *)
Theorem var_pick_random_correct b x script : wf b -> x < nvars b ->
  exists r, var_pick_random b x script = (Ok r, snd (next_bit script)) /\ Canonical r /\ nvars r = nvars b /\
    forall v, eval r v = eval b v &&
      negb (negb (Bool.eqb (v x) (fst (next_bit script))) && eval b (upd v x (fst (next_bit script)))).
Proof.
  intros W Hx. unfold var_pick_random. destruct (next_bit script) as (c & rest). cbn [fst snd].
  destruct (var_pick_pref_correct b x c W Hx) as (r & E & K & N & S).
  exists r. rewrite E. split4; try assumption; reflexivity.
Qed.
Print Assumptions var_pick_random_correct.

(* ======================================================================================== *)
(* H. substitute                                                                             *)

Lemma mem_spec x l : mem x l = true <-> In x l.
Proof.
  unfold mem. rewrite existsb_exists. split.
  - intros (y & Hin & E). apply N.eqb_eq in E. now subst.
  - intros H. exists x. split; [assumption|apply N.eqb_refl].
Qed.

Lemma support_in b q : 2 <= q -> q < size b -> In (var_of b q) (support b).
Proof.
  intros Hq Hlt. unfold support, var_of, get, size in *.
  destruct b as [|z [|o rest]]; cbn [length] in Hlt; try lia.
  cbn [skipn]. destruct (N.to_nat q) as [|[|k]] eqn:E; try lia.
  cbn [nth]. apply in_map. apply nth_In. lia.
Qed.

(* a variable outside the support does not influence the function *)
Lemma eval_not_support b x v c : wf b -> mem x (support b) = false -> eval b (upd v x c) = eval b v.
Proof.
  intros W H. apply eval_agree_nodes; [assumption|]. intros q Hq Hlt. apply upd_other.
  intros Heq. assert (M : mem x (support b) = true); [|congruence].
  apply mem_spec. rewrite <- Heq. now apply support_in.
Qed.

Theorem substitute_correct f x g : wf f -> wf g -> nvars f = nvars g -> x < nvars f ->
  exists r, substitute f x g = Ok r /\ wf r /\ nvars r = nvars f /\
    forall v, eval r v = eval f (upd v x (eval g v)).
Proof.
  intros Wf Wg NV Hx. unfold substitute.
  destruct (mem x (support f)) eqn:M; cbn [negb].
  - rewrite NV, N.eqb_refl. cbn [negb].
    destruct (var_restrict_correct f x true Wf) as (f1 & E1 & K1 & N1 & S1).
    destruct (var_restrict_correct f x false Wf) as (f0 & E0 & K0 & N0 & S0).
    rewrite E1. cbn [bind]. rewrite E0. cbn [bind].
    destruct (bdd_and_correct g f1 Wg (canonical_wf _ K1) ltac:(congruence)) as (t1 & Et1 & Kt1 & Nt1 & St1).
    rewrite Et1. cbn [bind].
    destruct (binop_ok _ _ g f0 None None None (lazy_table_ok (fun a b => negb a && b)) Wg (canonical_wf _ K0)
                ltac:(congruence) (flips_ok_none _)) as (t0 & Et0 & Kt0 & Nt0 & St0).
    unfold binary_op. rewrite Et0. cbn [bind].
    destruct (bdd_or_correct t1 t0 (canonical_wf _ Kt1) (canonical_wf _ Kt0) ltac:(congruence))
      as (r & Er & Kr & Nr & Sr).
    exists r. split; [assumption|]. split; [apply Kr|]. split; [congruence|].
    intros v. rewrite Sr, St1, St0. cbn [oflip]. rewrite S1, S0.
    destruct (eval g v); cbn [negb andb]; [apply orb_false_r|reflexivity].
  - exists f. split; [reflexivity|]. split; [assumption|]. split; [reflexivity|].
    intros v. symmetry. now apply eval_not_support.
Qed.
Print Assumptions substitute_correct.

(* when x is in the support the result is moreover canonical *)
Theorem substitute_canonical f x g r : wf f -> wf g -> nvars f = nvars g -> x < nvars f ->
  substitute f x g = Ok r -> Canonical f \/ mem x (support f) = true -> Canonical r.
Proof.
  intros Wf Wg NV Hx E H. unfold substitute in E.
  destruct (mem x (support f)) eqn:M; cbn [negb] in E.
  - rewrite NV, N.eqb_refl in E. cbn [negb] in E.
    destruct (var_restrict_correct f x true Wf) as (f1 & E1 & K1 & N1 & S1).
    destruct (var_restrict_correct f x false Wf) as (f0 & E0 & K0 & N0 & S0).
    rewrite E1 in E. cbn [bind] in E. rewrite E0 in E. cbn [bind] in E.
    destruct (bdd_and_correct g f1 Wg (canonical_wf _ K1) ltac:(congruence)) as (t1 & Et1 & Kt1 & Nt1 & St1).
    rewrite Et1 in E. cbn [bind] in E.
    destruct (binop_ok _ _ g f0 None None None (lazy_table_ok (fun a b => negb a && b)) Wg (canonical_wf _ K0)
                ltac:(congruence) (flips_ok_none _)) as (t0 & Et0 & Kt0 & Nt0 & St0).
    unfold binary_op in E. rewrite Et0 in E. cbn [bind] in E.
    destruct (bdd_or_correct t1 t0 (canonical_wf _ Kt1) (canonical_wf _ Kt0) ltac:(congruence))
      as (r' & Er & Kr & Nr & Sr).
    rewrite Er in E. inversion E; subst. exact Kr.
  - inversion E; subst. destruct H as [H|H]; [exact H|discriminate].
Qed.
Print Assumptions substitute_canonical.

(* concrete instances: f = x0 \/ x1 over 3 variables *)
Example substitute_example :
  let f := [mkNode 3 0 0; mkNode 3 1 1; mkNode 1 0 1; mkNode 0 2 1] in
  wfb f = true /\
  substitute f 0 (mk_var 3 2) = Ok [mkNode 3 0 0; mkNode 3 1 1; mkNode 2 0 1; mkNode 1 2 1] /\
  substitute f 2 (mk_var 3 1) = Ok f /\
  restrict f [(0, true); (0, false); (5, true)] = Ok [mkNode 3 0 0; mkNode 3 1 1; mkNode 1 0 1].
Proof. vm_compute. repeat split; reflexivity. Qed.
