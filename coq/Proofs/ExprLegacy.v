(* Proofs/ExprLegacy.v — the parser fragment as it was BEFORE the D6 fix (/repo e772751): the last arm of
   terminal() was `unreachable!()`.  Kept only to record that the totality theorem was false of that code. *)
From Coq Require Import List NArith Bool.
Import ListNotations.
From BddVerif Require Import Model.Bdd Model.Apply Model.Ops Model.Expr.
Local Open Scope nat_scope.

Fixpoint legacy_parse_at (fuel : nat) (lv : level) (ts : list token) : pres :=
  match fuel with O => PFuel | S f =>
  let binary (p : token -> bool) (mk : expr -> expr -> expr) (next : level) : pres :=
    match index_of p ts with
    | Some i =>
      with_slice ts O i (fun l => pbind (legacy_parse_at f next l) (fun a =>
      with_slice ts (S i) (length ts) (fun r => pbind (legacy_parse_at f lv r) (fun b => POk (mk a b)))))
    | None => legacy_parse_at f next ts
    end in
  match lv with
  | LFormula => match ts with [TGroup _] => legacy_parse_at f LTerm ts | _ => legacy_parse_at f LIff ts end
  | LIff => binary is_iff EIff LImp
  | LImp => binary is_imp EImp LCond
  | LCond =>
    match index_of is_question ts, index_of is_colon ts with
    | None, None => legacy_parse_at f LOr ts
    | Some q, Some c =>
      with_slice ts O q (fun s1 => pbind (legacy_parse_at f LOr s1) (fun a =>
      with_slice ts (S q) c (fun s2 => pbind (legacy_parse_at f LOr s2) (fun b =>
      with_slice ts (S c) (length ts) (fun s3 => pbind (legacy_parse_at f LOr s3) (fun d => POk (ECond a b d)))))))
    | _, _ => PErr
    end
  | LOr => binary is_or EOr LAnd
  | LAnd => binary is_and EAnd LXor
  | LXor => binary is_xor EXor LTerm
  | LTerm =>
    match ts with
    | [] => PErr
    | t :: rest =>
      if is_not t then pbind (legacy_parse_at f LTerm rest) (fun a => POk (ENot a))
      else match rest with
           | _ :: _ => PErr
           | [] => match t with
                   | TId x => POk (if name_eqb x s_true then EConst true
                                   else if name_eqb x s_false then EConst false else EVar x)
                   | TGroup inner => legacy_parse_at f LFormula inner
                   | _ => PPanic     (* unreachable!() *)
                   end
           end
    end
  end end.

Definition legacy_parse_string (s : list N) : pres :=
  match tokenize s with
  | TOk ts _ => legacy_parse_at (parse_fuel ts) LFormula ts
  | TErr => PErr
  | TFuel => PFuel
  end.

(* "a ? b : ?" and "a ? ? : b" *)
Lemma legacy_parse_total_refuted :
  legacy_parse_string [97; 32; 63; 32; 98; 32; 58; 32; 63]%N = PPanic /\
  legacy_parse_string [97; 32; 63; 32; 63; 32; 58; 32; 98]%N = PPanic.
Proof. split; vm_compute; reflexivity. Qed.
