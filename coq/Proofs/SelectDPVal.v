(* Proofs/SelectDPVal.v — most_positive_valuation / most_negative_valuation: the returned valuation satisfies the
   function, has the maximal number of variables equal to `pol` (true / false), and is the lexicographically least
   such valuation.  DP invariant: the cached number of a node is the optimum over its cone, the skipped levels
   being set to `pol`; the high branch is taken only when strictly better. *)
From Coq Require Import List PeanoNat NArith Lia Bool.
Import ListNotations.
From BddVerif Require Import Model.Bdd Model.Apply Model.Ops Model.Select Proofs.Sem Proofs.Canon Proofs.Reflect
  Proofs.PvalSem Proofs.SelectBase Proofs.SelectWalk Proofs.SelectWitness Proofs.SelectDP.
Open Scope N_scope.

(* ======================================================================================== *)
(* counting the variables of a window that have value pol                                    *)
Definition ind (pol c : bool) : N := if Bool.eqb c pol then 1 else 0.
Fixpoint cnt (pol : bool) (v : val) (a : N) (k : nat) : N :=
  match k with O => 0 | S k' => ind pol (v a) + cnt pol v (a + 1) k' end.
Definition cntN (pol : bool) (v : val) (a c : N) : N := cnt pol v a (N.to_nat (c - a)).

Lemma ind_le pol c : ind pol c <= 1.
Proof. unfold ind. destruct (Bool.eqb c pol); lia. Qed.

Lemma cnt_le pol v : forall k a, cnt pol v a k <= N.of_nat k.
Proof. induction k as [|k IH]; intros a; cbn [cnt]; [lia|]. pose proof (ind_le pol (v a)). specialize (IH (a + 1)). lia. Qed.

Lemma cnt_app pol v : forall k1 k2 a, cnt pol v a (k1 + k2) = cnt pol v a k1 + cnt pol v (a + N.of_nat k1) k2.
Proof.
  induction k1 as [|k1 IH]; intros k2 a; cbn [cnt Nat.add].
  - replace (a + N.of_nat 0) with a by lia. lia.
  - rewrite IH. replace (a + 1 + N.of_nat k1) with (a + N.of_nat (S k1)) by lia. lia.
Qed.

Lemma cnt_ext pol v w : forall k a, (forall i, a <= i -> i < a + N.of_nat k -> v i = w i) -> cnt pol v a k = cnt pol w a k.
Proof.
  induction k as [|k IH]; intros a H; cbn [cnt]; [reflexivity|].
  rewrite (H a) by lia. f_equal. apply IH. intros i H1 H2. apply H; lia.
Qed.

Lemma cnt_full pol v : forall k a, (forall i, a <= i -> i < a + N.of_nat k -> v i = pol) -> cnt pol v a k = N.of_nat k.
Proof.
  induction k as [|k IH]; intros a H; cbn [cnt]; [reflexivity|].
  rewrite (H a) by lia. unfold ind. rewrite eqb_reflx. rewrite IH; [lia|]. intros i H1 H2. apply H; lia.
Qed.

Lemma cnt_full_inv pol v : forall k a, cnt pol v a k = N.of_nat k -> forall i, a <= i -> i < a + N.of_nat k -> v i = pol.
Proof.
  induction k as [|k IH]; intros a H i H1 H2; [lia|]. cbn [cnt] in H.
  pose proof (cnt_le pol v k (a + 1)) as Hle. pose proof (ind_le pol (v a)) as Hi.
  destruct (N.eq_dec i a) as [->|Hne].
  - unfold ind in *. destruct (Bool.eqb (v a) pol) eqn:E; [now apply eqb_prop|lia].
  - apply (IH (a + 1)); lia.
Qed.

Lemma cntN_empty pol v a c : c <= a -> cntN pol v a c = 0.
Proof. intros H. unfold cntN. replace (N.to_nat (c - a)) with 0%nat by lia. reflexivity. Qed.

Lemma cntN_le pol v a c : cntN pol v a c <= c - a.
Proof. unfold cntN. pose proof (cnt_le pol v (N.to_nat (c - a)) a). lia. Qed.

Lemma cntN_step pol v a c : a < c -> cntN pol v a c = ind pol (v a) + cntN pol v (a + 1) c.
Proof.
  intros H. unfold cntN. replace (N.to_nat (c - a)) with (S (N.to_nat (c - (a + 1)))) by lia. reflexivity.
Qed.

Lemma cntN_split pol v a m c : a <= m -> m <= c -> cntN pol v a c = cntN pol v a m + cntN pol v m c.
Proof.
  intros H1 H2. unfold cntN. replace (N.to_nat (c - a)) with (N.to_nat (m - a) + N.to_nat (c - m))%nat by lia.
  rewrite cnt_app. do 2 f_equal. lia.
Qed.

Lemma cntN_ext pol v w a c : (forall i, a <= i -> i < c -> v i = w i) -> cntN pol v a c = cntN pol w a c.
Proof. intros H. unfold cntN. apply cnt_ext. intros i H1 H2. apply H; lia. Qed.

Lemma cntN_full pol v a c : (forall i, a <= i -> i < c -> v i = pol) -> cntN pol v a c = c - a.
Proof. intros H. unfold cntN. rewrite cnt_full; [lia|]. intros i H1 H2. apply H; lia. Qed.

Lemma cntN_full_inv pol v a c : cntN pol v a c = c - a -> forall i, a <= i -> i < c -> v i = pol.
Proof.
  intros H i H1 H2. unfold cntN in H. apply (cnt_full_inv pol v (N.to_nat (c - a)) a); [lia|exact H1|lia].
Qed.

(* number of cells equal to pol in a vector *)
Definition count_pol (pol : bool) (l : list bool) : N := N.of_nat (length (filter (fun x => Bool.eqb x pol) l)).

Lemma cnt_shift pol x l : forall k a, cnt pol (val_of_list (x :: l)) (a + 1) k = cnt pol (val_of_list l) a k.
Proof. induction k as [|k IH]; intros a; cbn [cnt]; [reflexivity|]. rewrite val_of_list_cons, IH. reflexivity. Qed.

Lemma count_pol_cnt pol l : count_pol pol l = cntN pol (val_of_list l) 0 (N.of_nat (length l)).
Proof.
  unfold cntN. replace (N.to_nat (N.of_nat (length l) - 0)) with (length l) by lia.
  induction l as [|x l IH]; [reflexivity|]. cbn [length cnt]. replace (0 + 1) with (0 + 1) by reflexivity.
  rewrite (cnt_shift pol x l (length l) 0). rewrite <- IH. unfold count_pol. cbn [filter].
  unfold val_of_list at 1. cbn [N.to_nat nth]. unfold ind. destruct (Bool.eqb x pol); cbn [length]; lia.
Qed.

Lemma lexle_gap_eq a c n v w : a <= c -> (forall i, a <= i -> i < c -> v i = w i) ->
  lexle_from c n v w -> lexle_from a n v w.
Proof.
  intros Hac Hg [H|(k & K1 & K2 & K3 & K4 & K5)].
  - left. intros i H1 H2. destruct (N.lt_ge_cases i c); [apply Hg|apply H]; lia.
  - right. exists k. repeat split; try assumption; try lia.
    intros i H1 H2. destruct (N.lt_ge_cases i c); [apply Hg|apply K3]; lia.
Qed.

(* ======================================================================================== *)
(* the recurrence of the two valuation folds                                                 *)
Definition val_comb_ok (pol : bool) (b : bdd) (comb : comb_t) : Prop :=
  forall p cl ch e, 2 <= p -> p < size b -> comb (get b p) cl ch = Ok e ->
    let n := get b p in
    let sl := fst cl + ((var_of b (nlow n) - nvar n) - 1) + (if pol then 0 else 1) in
    let sh := fst ch + ((var_of b (nhigh n) - nvar n) - 1) + (if pol then 1 else 0) in
    (snd e = true -> nhigh n <> 0 /\ fst e = sh /\ (nlow n <> 0 -> sl < sh)) /\
    (snd e = false -> nlow n <> 0 /\ fst e = sl /\ (nhigh n <> 0 -> sh <= sl)).

Definition mp_comb (b : bdd) : comb_t := fun n cl ch =>
    let ld := fst cl + ((var_of b (nlow n) - nvar n) - 1) in
    let hd := fst ch + ((var_of b (nhigh n) - nvar n) - 1) in
    if (nlow n =? 0) && (nhigh n =? 0) then Panic
    else if nlow n =? 0 then Ok (hd + 1, true)
    else if nhigh n =? 0 then Ok (ld, false)
    else if ld <? hd + 1 then Ok (hd + 1, true)
    else Ok (ld, false).
Definition mn_comb (b : bdd) : comb_t := fun n cl ch =>
    let ld := fst cl + ((var_of b (nlow n) - nvar n) - 1) in
    let hd := fst ch + ((var_of b (nhigh n) - nvar n) - 1) in
    if (nlow n =? 0) && (nhigh n =? 0) then Panic
    else if nlow n =? 0 then Ok (hd, true)
    else if nhigh n =? 0 then Ok (ld + 1, false)
    else if ld + 1 <? hd then Ok (hd, true)
    else Ok (ld + 1, false).

Lemma mp_step_eq b : mp_step b = step_of (mp_comb b). Proof. reflexivity. Qed.
Lemma mn_step_eq b : mn_step b = step_of (mn_comb b). Proof. reflexivity. Qed.

Lemma mp_total b : comb_total (mp_comb b).
Proof.
  intros n cl ch H. unfold mp_comb. cbv zeta.
  destruct (N.eqb_spec (nlow n) 0) as [El|El], (N.eqb_spec (nhigh n) 0) as [Eh|Eh]; cbn [andb];
    try (exfalso; apply H; split; assumption); try (eexists; reflexivity).
  match goal with |- context [if ?c then _ else _] => destruct c end; eexists; reflexivity.
Qed.
Lemma mn_total b : comb_total (mn_comb b).
Proof.
  intros n cl ch H. unfold mn_comb. cbv zeta.
  destruct (N.eqb_spec (nlow n) 0) as [El|El], (N.eqb_spec (nhigh n) 0) as [Eh|Eh]; cbn [andb];
    try (exfalso; apply H; split; assumption); try (eexists; reflexivity).
  match goal with |- context [if ?c then _ else _] => destruct c end; eexists; reflexivity.
Qed.

Lemma mp_comb_ok b : nz b -> val_comb_ok true b (mp_comb b).
Proof.
  intros R p cl ch e Hp Hlt. pose proof (kids_not_both_zero b p R Hp Hlt) as K. unfold mp_comb. cbv zeta.
  destruct (N.eqb_spec (nlow (get b p)) 0) as [El|El], (N.eqb_spec (nhigh (get b p)) 0) as [Eh|Eh]; cbn [andb];
    try (exfalso; apply K; split; assumption).
  - intros E; inversion E; subst e; cbn [fst snd]. split; intros H; try discriminate. repeat split; try assumption; try lia; try congruence.
  - intros E; inversion E; subst e; cbn [fst snd]. split; intros H; try discriminate. repeat split; try assumption; try lia; try congruence.
  - match goal with |- context [if ?c then _ else _] => destruct c eqn:Ec end;
      intros E; inversion E; subst e; cbn [fst snd]; split; intros H; try discriminate.
    + apply N.ltb_lt in Ec. repeat split; try assumption; lia.
    + apply N.ltb_ge in Ec. repeat split; try assumption; lia.
Qed.
Lemma mn_comb_ok b : nz b -> val_comb_ok false b (mn_comb b).
Proof.
  intros R p cl ch e Hp Hlt. pose proof (kids_not_both_zero b p R Hp Hlt) as K. unfold mn_comb. cbv zeta.
  destruct (N.eqb_spec (nlow (get b p)) 0) as [El|El], (N.eqb_spec (nhigh (get b p)) 0) as [Eh|Eh]; cbn [andb];
    try (exfalso; apply K; split; assumption).
  - intros E; inversion E; subst e; cbn [fst snd]. split; intros H; try discriminate. repeat split; try assumption; try lia; try congruence.
  - intros E; inversion E; subst e; cbn [fst snd]. split; intros H; try discriminate. repeat split; try assumption; try lia; try congruence.
  - match goal with |- context [if ?c then _ else _] => destruct c eqn:Ec end;
      intros E; inversion E; subst e; cbn [fst snd]; split; intros H; try discriminate.
    + apply N.ltb_lt in Ec. repeat split; try assumption; lia.
    + apply N.ltb_ge in Ec. repeat split; try assumption; lia.
Qed.

Section ValDP.
  Variables (pol : bool) (comb : comb_t) (b : bdd) (c : cache).
  Hypotheses (W : wf b) (R : nz b) (VO : val_comb_ok pol b comb) (U : cache_upto comb b c (size b)).

  (* score of taking branch cc at node p, given the cached entries of the children *)
  Definition score (p : N) (cc : bool) (eq : N * bool) : N :=
    fst eq + ((var_of b (child b p cc) - var_of b p) - 1) + ind pol cc.

  Lemma val_node p : 2 <= p -> p < size b -> exists cl ch e,
    entry c (nlow (get b p)) = Some cl /\ entry c (nhigh (get b p)) = Some ch /\ entry c p = Some e /\
    (snd e = true -> nhigh (get b p) <> 0 /\ fst e = score p true ch /\ (nlow (get b p) <> 0 -> score p false cl < score p true ch)) /\
    (snd e = false -> nlow (get b p) <> 0 /\ fst e = score p false cl /\ (nhigh (get b p) <> 0 -> score p true ch <= score p false cl)).
  Proof.
    intros Hp Hlt. destruct U as (_ & _ & _ & Un). destruct (Un p Hp Hlt) as (cl & ch & e & A & B & D & E).
    exists cl, ch, e. split; [exact A|]. split; [exact B|]. split; [exact E|].
    pose proof (VO p cl ch e Hp Hlt D) as H. cbv zeta in H. unfold score, child, ind, var_of in *.
    destruct pol; cbn [Bool.eqb] in *; exact H.
  Qed.

  Lemma val_safe : safe_choice b (chf c).
  Proof.
    intros q Hq Hlt. destruct (val_node q Hq Hlt) as (cl & ch & e & _ & _ & E & P1 & P2).
    unfold chf, child. rewrite E. destruct (snd e) eqn:Es; [apply P1|apply P2]; reflexivity.
  Qed.

  (* window decomposition at a decision node *)
  Lemma cnt_node p cc (u : val) : 2 <= p -> p < size b ->
    cntN pol u (var_of b p) (nvars b) =
    ind pol (u (var_of b p)) + cntN pol u (var_of b p + 1) (var_of b (child b p cc)) + cntN pol u (var_of b (child b p cc)) (nvars b).
  Proof.
    intros Hp Hlt. destruct (child_valid b p cc W Hp Hlt) as (Vq & Hv).
    pose proof (var_of_le b _ W Vq) as Hq. rewrite cntN_step by lia.
    rewrite (cntN_split pol u (var_of b p + 1) (var_of b (child b p cc)) (nvars b)) by lia. lia.
  Qed.

  Lemma val_opt : forall fuel p e, valid b p -> p <> 0 -> enough b p fuel -> entry c p = Some e ->
    cntN pol (tval (trace fuel b (chf c) p) pol) (var_of b p) (nvars b) = fst e /\
    forall w, sem b p w = true -> cntN pol w (var_of b p) (nvars b) <= fst e.
  Proof.
    induction fuel as [|f IH]; intros p e V Hp E He; [unfold enough in E; lia|].
    cbn [trace]. destruct (N.ltb_spec p 2) as [Hlt|Hge].
    - assert (p = 1) by lia. subst p. destruct U as (_ & _ & U1 & _). rewrite U1 in He. inversion He; subst e. cbn [fst].
      rewrite (var_of_term b 1 W V) by lia. split; [|intros w _]; rewrite cntN_empty by lia; lia.
    - pose proof V as (Vp & _).
      destruct (val_node p Hge Vp) as (cl & ch & e' & Ecl & Ech & Ee & P1 & P2).
      rewrite Ee in He. inversion He; subst e'. clear He.
      destruct (wf_children b p W Hge Vp) as (Vl & Vh & _).
      assert (Hchf : chf c p = snd e) by (unfold chf; now rewrite Ee).
      (* the entry of child cc *)
      assert (Hent : forall cc, entry c (child b p cc) = Some (if cc then ch else cl)) by (intros [|]; assumption).
      assert (Hvc : forall cc, valid b (child b p cc)) by (intros [|]; assumption).
      split.
      + rewrite Hchf. set (cc := snd e).
        assert (Hnz : child b p cc <> 0 /\ fst e = score p cc (if cc then ch else cl)).
        { unfold cc. destruct (snd e) eqn:Es; [destruct (P1 eq_refl) as (A & B & _)|destruct (P2 eq_refl) as (A & B & _)]; split; assumption. }
        destruct Hnz as (Hnz & Hval).
        destruct (IH _ _ (Hvc cc) Hnz (enough_child b p cc f W Hge Vp E) (Hent cc)) as (Hq & _).
        destruct (child_valid b p cc W Hge Vp) as (Vq & Hv).
        pose proof (trace_path b (chf c) W val_safe f _ Vq Hnz (enough_child b p cc f W Hge Vp E)) as P.
        destruct (path_vars b W _ _ 1 Vq P) as (_ & _ & Hin & _).
        rewrite (cnt_node p cc) by assumption. rewrite tval_head.
        rewrite (cntN_full pol _ (var_of b p + 1) (var_of b (child b p cc))).
        * rewrite (cntN_ext pol _ (tval (trace f b (chf c) (child b p cc)) pol) (var_of b (child b p cc))).
          -- rewrite Hq, Hval. unfold score. lia.
          -- intros i H1 H2. apply tval_tail. lia.
        * intros i H1 H2. rewrite tval_tail by lia. apply (tval_below _ _ (var_of b (child b p cc))); [|exact H2].
          intros y d Hy. apply (Hin y d Hy).
      + intros w Hw. set (c' := w (var_of b p)).
        pose proof (sem_true_child b p w W Hge Vp Hw) as Hc. fold c' in Hc.
        assert (Hnz : child b p c' <> 0) by (intros Ez; rewrite Ez in Hc; cbn in Hc; discriminate).
        destruct (IH _ _ (Hvc c') Hnz (enough_child b p c' f W Hge Vp E) (Hent c')) as (_ & HA).
        specialize (HA w Hc).
        rewrite (cnt_node p c') by assumption. fold c'.
        pose proof (cntN_le pol w (var_of b p + 1) (var_of b (child b p c'))) as Hgap.
        destruct (child_valid b p c' W Hge Vp) as (Vq & Hv).
        assert (Hs : ind pol c' + cntN pol w (var_of b p + 1) (var_of b (child b p c')) + cntN pol w (var_of b (child b p c')) (nvars b)
                     <= score p c' (if c' then ch else cl)) by (unfold score; lia).
        destruct (snd e) eqn:Es; [destruct (P1 eq_refl) as (A & B & D)|destruct (P2 eq_refl) as (A & B & D)];
          destruct c'; unfold child in Hnz; try specialize (D Hnz); lia.
  Qed.

  Lemma val_least : forall fuel p e w, valid b p -> p <> 0 -> enough b p fuel -> entry c p = Some e ->
    sem b p w = true -> cntN pol w (var_of b p) (nvars b) = fst e ->
    lexle_from (var_of b p) (nvars b) (tval (trace fuel b (chf c) p) pol) w.
  Proof.
    induction fuel as [|f IH]; intros p e w V Hp E He Hw Hcnt; [unfold enough in E; lia|].
    cbn [trace]. destruct (N.ltb_spec p 2) as [Hlt|Hge].
    - left. intros i H1 H2. rewrite (var_of_term b p W V Hlt) in H1. lia.
    - pose proof V as (Vp & _).
      destruct (val_node p Hge Vp) as (cl & ch & e' & Ecl & Ech & Ee & P1 & P2).
      rewrite Ee in He. inversion He; subst e'. clear He.
      destruct (wf_children b p W Hge Vp) as (Vl & Vh & _ & _ & Hxn).
      assert (Hchf : chf c p = snd e) by (unfold chf; now rewrite Ee).
      assert (Hent : forall cc, entry c (child b p cc) = Some (if cc then ch else cl)) by (intros [|]; assumption).
      assert (Hvc : forall cc, valid b (child b p cc)) by (intros [|]; assumption).
      set (x := var_of b p) in *. set (c' := w x).
      pose proof (sem_true_child b p w W Hge Vp Hw) as Hc. fold x c' in Hc.
      assert (Hnz : child b p c' <> 0) by (intros Ez; rewrite Ez in Hc; cbn in Hc; discriminate).
      destruct (val_opt f _ _ (Hvc c') Hnz (enough_child b p c' f W Hge Vp E) (Hent c')) as (_ & HA).
      specialize (HA w Hc).
      pose proof (cnt_node p c' w Hge Vp) as Hdec. fold x c' in Hdec. rewrite Hcnt in Hdec.
      pose proof (cntN_le pol w (x + 1) (var_of b (child b p c'))) as Hgap.
      destruct (child_valid b p c' W Hge Vp) as (Vq & Hv). fold x in Hv.
      pose proof (var_of_le b _ W Vq) as Hqn.
      rewrite Hchf.
      destruct (Bool.bool_dec c' (snd e)) as [Ecc|Ecc].
      + (* same branch: w is optimal below and equals pol on the skipped levels *)
        rewrite <- Ecc.
        assert (Hval : fst e = score p c' (if c' then ch else cl)).
        { rewrite Ecc. destruct (snd e) eqn:Es; [destruct (P1 eq_refl) as (_ & B & _)|destruct (P2 eq_refl) as (_ & B & _)]; exact B. }
        unfold score in Hval. fold x in Hval.
        assert (Hg : cntN pol w (x + 1) (var_of b (child b p c')) = var_of b (child b p c') - (x + 1)) by lia.
        assert (Hcone : cntN pol w (var_of b (child b p c')) (nvars b) = fst (if c' then ch else cl)) by lia.
        pose proof (cntN_full_inv pol w _ _ Hg) as Hwg.
        pose proof (trace_path b (chf c) W val_safe f _ Vq Hnz (enough_child b p c' f W Hge Vp E)) as P.
        destruct (path_vars b W _ _ 1 Vq P) as (_ & _ & Hin & _).
        apply lexle_step_eq; [exact Hxn|rewrite tval_head; reflexivity|].
        apply (lexle_gap_eq (x + 1) (var_of b (child b p c'))); [lia| |].
        * intros i H1 H2. rewrite tval_tail by lia. rewrite (Hwg i H1 H2).
          apply (tval_below _ _ (var_of b (child b p c'))); [|exact H2]. intros y d Hy. apply (Hin y d Hy).
        * apply (lexle_ext _ _ (tval (trace f b (chf c) (child b p c')) pol) _ w w).
          -- intros i H1 H2. rewrite tval_tail by lia. reflexivity.
          -- reflexivity.
          -- apply (IH _ _ w (Hvc c') Hnz (enough_child b p c' f W Hge Vp E) (Hent c') Hc Hcone).
      + (* different branches *)
        assert (Hs : fst e <= score p c' (if c' then ch else cl)) by (unfold score; fold x; lia).
        destruct (snd e) eqn:Es.
        * exfalso. assert (c' = false) by (destruct c'; congruence).
          destruct (P1 eq_refl) as (_ & B & D). rewrite H in *. unfold child in Hnz. specialize (D Hnz). lia.
        * assert (Ec' : c' = true) by (destruct c'; congruence).
          apply lexle_step_lt; [exact Hxn|apply tval_head|exact Ec'].
  Qed.
End ValDP.

Lemma dp_val_spec pol comb b record : Benign b -> is_false b = false -> comb_total comb -> val_comb_ok pol b comb ->
  rec_default pol record ->
  exists l,
    bind (dp_cache b (step_of comb))
         (fun c => some_of (walk (wfuel b) b (choose_cached c) record (root b) (all_same (nvars b) pol))) = Ok (Some l) /\
    sat_list b l /\
    (forall l', sat_list b l' -> count_pol pol l' <= count_pol pol l) /\
    (forall l', sat_list b l' -> count_pol pol l' = count_pol pol l -> lex_le l l').
Proof.
  intros C Hf T VO RD. pose proof C as (W & R & _).
  destruct (dp_cache_ok comb b C T Hf) as (c & Hc & U). rewrite Hc. cbn [bind].
  pose proof (val_safe pol comb b c VO U) as S.
  destruct (walk_vector b (choose_cached c) (chf c) pol record W (choose_cached_chf comb b c U) S RD Hf) as (l & Hw & P & Hs & Hv).
  exists l. rewrite Hw. split; [reflexivity|]. split; [exact Hs|].
  pose proof (valid_root b W) as Vr. pose proof (root_nonzero b W Hf) as Hr.
  destruct (cache_entry comb b c (root b) W U Vr) as (e & Ee).
  destruct (val_opt pol comb b c W VO U (wfuel b) (root b) e Vr Hr (enough_root b W) Ee) as (HB & HA).
  set (ds := trace (wfuel b) b (chf c) (root b)) in *. set (xr := var_of b (root b)) in *.
  pose proof (var_of_le b _ W Vr) as Hxr. fold xr in Hxr.
  destruct (path_vars b W ds (root b) 1 Vr P) as (_ & _ & Hin & _).
  destruct Hs as (Hl & He).
  (* the count of the result *)
  assert (Hcl : count_pol pol l = xr + fst e).
  { rewrite count_pol_cnt. replace (N.of_nat (length l)) with (nvars b) by lia.
    rewrite (cntN_ext pol _ (tval ds pol) 0 (nvars b)) by (intros i _ Hi; apply Hv; exact Hi).
    rewrite (cntN_split pol _ 0 xr (nvars b)) by lia. rewrite HB.
    rewrite cntN_full; [lia|]. intros i _ Hi. apply (tval_below _ _ xr); [|exact Hi]. intros y d Hy. apply (Hin y d Hy). }
  assert (Hcw : forall l', sat_list b l' ->
            count_pol pol l' = cntN pol (val_of_list l') 0 xr + cntN pol (val_of_list l') xr (nvars b) /\
            cntN pol (val_of_list l') xr (nvars b) <= fst e /\ cntN pol (val_of_list l') 0 xr <= xr).
  { intros l' (Hl' & He'). rewrite count_pol_cnt. replace (N.of_nat (length l')) with (nvars b) by lia.
    split; [apply cntN_split; lia|]. split; [apply HA; exact He'|]. pose proof (cntN_le pol (val_of_list l') 0 xr). lia. }
  split.
  - intros l' S'. destruct (Hcw l' S') as (A & B & D). lia.
  - intros l' S' Heq. destruct (Hcw l' S') as (A & B & D). pose proof S' as (Hl' & He').
    apply (sat_list_lexle b l l' (tval ds pol) W Hl Hl' Hv).
    assert (G0 : cntN pol (val_of_list l') 0 xr = xr - 0) by lia.
    pose proof (cntN_full_inv pol _ _ _ G0) as Hg.
    apply (lexle_gap_eq 0 xr); [lia| |].
    + intros i H1 H2. rewrite (Hg i H1 H2). apply (tval_below _ _ xr); [|exact H2]. intros y d Hy. apply (Hin y d Hy).
    + apply (val_least pol comb b c W VO U (wfuel b) (root b) e _ Vr Hr (enough_root b W) Ee He'). fold xr. lia.
Qed.

Theorem most_positive_valuation_none b : is_false b = true -> most_positive_valuation b = Ok None.
Proof. intros H. unfold most_positive_valuation. now rewrite H. Qed.
Theorem most_negative_valuation_none b : is_false b = true -> most_negative_valuation b = Ok None.
Proof. intros H. unfold most_negative_valuation. now rewrite H. Qed.

(* satisfying, maximal number of true variables, least such *)
Theorem most_positive_spec_benign b : Benign b -> is_false b = false ->
  exists l, most_positive_valuation b = Ok (Some l) /\ sat_list b l /\
    (forall l', sat_list b l' -> count_pol true l' <= count_pol true l) /\
    (forall l', sat_list b l' -> count_pol true l' = count_pol true l -> lex_le l l').
Proof.
  intros C Hf. unfold most_positive_valuation. rewrite Hf, mp_step_eq.
  apply (dp_val_spec true (mp_comb b) b _ C Hf (mp_total b)); [apply mp_comb_ok; apply C|apply rec_default_clear].
Qed.
Print Assumptions most_positive_spec_benign.

Theorem most_positive_spec b : Canonical b -> is_false b = false ->
  exists l, most_positive_valuation b = Ok (Some l) /\ sat_list b l /\
    (forall l', sat_list b l' -> count_pol true l' <= count_pol true l) /\
    (forall l', sat_list b l' -> count_pol true l' = count_pol true l -> lex_le l l').
Proof. intros C. apply most_positive_spec_benign. apply canonical_benign. exact C. Qed.
Print Assumptions most_positive_spec.

(* satisfying, maximal number of false variables, least such *)
Theorem most_negative_spec_benign b : Benign b -> is_false b = false ->
  exists l, most_negative_valuation b = Ok (Some l) /\ sat_list b l /\
    (forall l', sat_list b l' -> count_pol false l' <= count_pol false l) /\
    (forall l', sat_list b l' -> count_pol false l' = count_pol false l -> lex_le l l').
Proof.
  intros C Hf. unfold most_negative_valuation. rewrite Hf, mn_step_eq.
  apply (dp_val_spec false (mn_comb b) b _ C Hf (mn_total b)); [apply mn_comb_ok; apply C|apply rec_default_set].
Qed.
Print Assumptions most_negative_spec_benign.

Theorem most_negative_spec b : Canonical b -> is_false b = false ->
  exists l, most_negative_valuation b = Ok (Some l) /\ sat_list b l /\
    (forall l', sat_list b l' -> count_pol false l' <= count_pol false l) /\
    (forall l', sat_list b l' -> count_pol false l' = count_pol false l -> lex_le l l').
Proof. intros C. apply most_negative_spec_benign. apply canonical_benign. exact C. Qed.
Print Assumptions most_negative_spec.
