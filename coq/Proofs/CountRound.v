(* Proofs/CountRound.v — accumulated rounding error of the binary64 model of Bdd::cardinality (Model/Count.v):
   the result is the exact count up to a factor (1 +- 2^-53)^d, d = 2*nvars+3 (every operation of the model is
   treated as rounding once), and +inf appears only when exact*(1+2^-53)^d >= 2^1024.
   Theorems about the MODEL of binary64 (modelled, not verified). *)
From Coq Require Import List NArith Lia Bool.
Import ListNotations.
From BddVerif Require Import Model.Bdd Model.Count Proofs.Sem Proofs.RelSem Proofs.CountSem Proofs.CountFloat.
Open Scope N_scope.

Definition P53 : N := 2 ^ 53.
Definition MAXF : N := 2 ^ 1024.
Definition pw (a : N) (d : nat) : N := a ^ N.of_nat d.

Lemma pw_0 a : pw a 0 = 1. Proof. reflexivity. Qed.
Lemma pw_S a d : pw a (S d) = a * pw a d.
Proof. unfold pw. now rewrite Nnat.Nat2N.inj_succ, N.pow_succ_r'. Qed.

(* x approximates the exact value e within d roundings *)
Definition approx (d : nat) (x : fl) (e : N) : Prop :=
  match x with
  | FFin m => e * pw (P53 - 1) d <= m * pw P53 d /\ m * pw P53 d <= e * pw (P53 + 1) d
  | FInf => MAXF * pw P53 d <= e * pw (P53 + 1) d
  | FNaN => False
  end.

Lemma P53_pos : 2 <= P53. Proof. unfold P53. change 2 with (2 ^ 1) at 1. apply N.pow_le_mono_r; lia. Qed.

Lemma approx_exact m : approx 0 (FFin m) m.
Proof. cbn [approx]. rewrite !pw_0. lia. Qed.

Lemma approx_S d x e : approx d x e -> approx (S d) x e.
Proof.
  pose proof P53_pos as HP. destruct x as [| |m]; cbn [approx]; rewrite ?pw_S; [tauto| |].
  - intros H. set (X := pw P53 d) in *. set (Y := pw (P53 + 1) d) in *.
    transitivity (P53 * (e * Y)); [|].
    + replace (MAXF * (P53 * X)) with (P53 * (MAXF * X)) by lia. apply N.mul_le_mono_l. exact H.
    + replace (e * ((P53 + 1) * Y)) with ((P53 + 1) * (e * Y)) by lia. apply N.mul_le_mono_r. lia.
  - intros (H1 & H2). set (X := pw P53 d) in *. set (Y := pw (P53 + 1) d) in *. set (Z := pw (P53 - 1) d) in *. split.
    + transitivity ((P53 - 1) * (m * X)).
      * replace (e * ((P53 - 1) * Z)) with ((P53 - 1) * (e * Z)) by lia. apply N.mul_le_mono_l. exact H1.
      * replace (m * (P53 * X)) with (P53 * (m * X)) by lia. apply N.mul_le_mono_r. lia.
    + transitivity (P53 * (e * Y)).
      * replace (m * (P53 * X)) with (P53 * (m * X)) by lia. apply N.mul_le_mono_l. exact H2.
      * replace (e * ((P53 + 1) * Y)) with ((P53 + 1) * (e * Y)) by lia. apply N.mul_le_mono_r. lia.
Qed.

Lemma approx_mono d d' x e : (d <= d')%nat -> approx d x e -> approx d' x e.
Proof. intros L. induction L as [|d' L IH]; [auto|]. intros A. apply approx_S. auto. Qed.

(* ---- one rounding ---- *)
Lemma bitlen_bounds n : n <> 0 -> 2 ^ (bitlen n - 1) <= n /\ n < 2 ^ bitlen n.
Proof.
  intros NZ. rewrite bitlen_size, N.size_log2 by assumption.
  replace (N.succ (N.log2 n) - 1) with (N.log2 n) by lia.
  destruct (N.log2_spec n) as (H1 & H2); [lia|]. split; assumption.
Qed.

Definition approx1 (x : fl) (n : N) : Prop :=
  match x with
  | FFin m => n * (P53 - 1) <= m * P53 /\ m * P53 <= n * (P53 + 1)
  | FInf => MAXF * P53 <= n * (P53 + 1)
  | FNaN => False
  end.

Lemma round53_approx n : approx1 (round53 n) n.
Proof.
  pose proof P53_pos as HP. unfold round53.
  destruct (N.leb_spec (bitlen n) 53) as [Hk|Hk].
  - cbn. split; apply N.mul_le_mono_l; lia.
  - set (k := bitlen n) in *. set (sh := k - 53).
    assert (NZ : n <> 0) by (intros ->; cbn in Hk; lia).
    destruct (bitlen_bounds n NZ) as (Blo & Bhi). fold k in Blo, Bhi.
    rewrite N.shiftr_div_pow2. set (S := 2 ^ sh). set (q := n / S).
    rewrite !N.shiftl_mul_pow2. fold S. set (half := 2 ^ (sh - 1)).
    assert (SZ : S <> 0) by (apply N.pow_nonzero; discriminate).
    assert (HS : S = 2 * half).
    { unfold S, half. replace sh with (N.succ (sh - 1)) at 1 by lia. apply N.pow_succ_r'. }
    assert (HhP : half * P53 = 2 ^ (k - 1)).
    { unfold half, P53. rewrite <- N.pow_add_r. f_equal. lia. }
    assert (Hq1 : q * S <= n) by (rewrite N.mul_comm; apply N.mul_div_le; assumption).
    assert (Hq2 : n < q * S + S).
    { pose proof (N.mul_succ_div_gt n S SZ) as H. fold q in H. lia. }
    assert (HhPn : half * P53 <= n) by lia.
    set (r := n - q * S).
    assert (Hr : n = q * S + r) by lia.
    (* the two possible roundings *)
    assert (Down : r <= half -> n * (P53 - 1) <= q * S * P53 /\ q * S * P53 <= n * (P53 + 1)).
    { intros Hrh. split.
      - rewrite N.mul_sub_distr_l, N.mul_1_r.
        assert (n * P53 <= q * S * P53 + half * P53).
        { rewrite <- N.mul_add_distr_r. apply N.mul_le_mono_r. lia. }
        lia.
      - transitivity (n * P53); [apply N.mul_le_mono_r; assumption|apply N.mul_le_mono_l; lia]. }
    assert (Up : half <= r -> n * (P53 - 1) <= (q + 1) * S * P53 /\ (q + 1) * S * P53 <= n * (P53 + 1)).
    { intros Hrh. split.
      - transitivity (n * P53); [apply N.mul_le_mono_l; lia|apply N.mul_le_mono_r; lia].
      - rewrite N.mul_add_distr_l, N.mul_1_r.
        assert ((q + 1) * S * P53 <= n * P53 + half * P53).
        { rewrite <- N.mul_add_distr_r. apply N.mul_le_mono_r. lia. }
        lia. }
    assert (Fin : forall q', (n * (P53 - 1) <= q' * S * P53 /\ q' * S * P53 <= n * (P53 + 1)) ->
              approx1 (if 2 ^ 1024 <=? q' * S then FInf else FFin (q' * S)) n).
    { intros q' (A1 & A2). destruct (N.leb_spec (2 ^ 1024) (q' * S)) as [Ov|]; cbn [approx1]; [|split; assumption].
      transitivity (q' * S * P53); [apply N.mul_le_mono_r; exact Ov|exact A2]. }
    destruct (N.ltb_spec r half) as [C1|C1]; [apply Fin, Down; lia|].
    destruct (N.ltb_spec half r) as [C2|C2]; [apply Fin, Up; lia|].
    destruct (N.even q); [apply Fin, Down; lia|apply Fin, Up; lia].
Qed.

(* rounding an exact intermediate s that is itself within d roundings of e *)
Lemma approx_round d s e :
  e * pw (P53 - 1) d <= s * pw P53 d -> s * pw P53 d <= e * pw (P53 + 1) d -> approx (S d) (round53 s) e.
Proof.
  intros H1 H2. pose proof (round53_approx s) as R. pose proof P53_pos as HP.
  destruct (round53 s) as [| |m]; cbn [approx approx1] in *; [contradiction| |]; rewrite ?pw_S;
    set (X := pw P53 d) in *; set (Y := pw (P53 + 1) d) in *; set (Z := pw (P53 - 1) d) in *.
  - transitivity (s * (P53 + 1) * X).
    + replace (MAXF * (P53 * X)) with (MAXF * P53 * X) by lia. apply N.mul_le_mono_r. exact R.
    + replace (s * (P53 + 1) * X) with ((P53 + 1) * (s * X)) by lia.
      replace (e * ((P53 + 1) * Y)) with ((P53 + 1) * (e * Y)) by lia. apply N.mul_le_mono_l. exact H2.
  - destruct R as (R1 & R2). split.
    + transitivity (s * (P53 - 1) * X).
      * replace (e * ((P53 - 1) * Z)) with ((P53 - 1) * (e * Z)) by lia.
        replace (s * (P53 - 1) * X) with ((P53 - 1) * (s * X)) by lia. apply N.mul_le_mono_l. exact H1.
      * replace (m * (P53 * X)) with (m * P53 * X) by lia. apply N.mul_le_mono_r. exact R1.
    + transitivity (s * (P53 + 1) * X).
      * replace (m * (P53 * X)) with (m * P53 * X) by lia. apply N.mul_le_mono_r. exact R2.
      * replace (s * (P53 + 1) * X) with ((P53 + 1) * (s * X)) by lia.
        replace (e * ((P53 + 1) * Y)) with ((P53 + 1) * (e * Y)) by lia. apply N.mul_le_mono_l. exact H2.
Qed.

Lemma pw_pos a d : 1 <= a -> 1 <= pw a d.
Proof. intros H. unfold pw. pose proof (N.pow_nonzero a (N.of_nat d)). lia. Qed.

Lemma approx_add d x y ex ey : approx d x ex -> approx d y ey -> approx (S d) (fadd x y) (ex + ey).
Proof.
  intros Hx Hy. destruct x as [| |a]; [contradiction| |]; destruct y as [| |c]; try contradiction; cbn [fadd].
  - apply approx_S. cbn [approx] in *. rewrite N.mul_add_distr_r. lia.
  - apply approx_S. cbn [approx] in *. rewrite N.mul_add_distr_r. lia.
  - apply approx_S. cbn [approx] in *. rewrite N.mul_add_distr_r. lia.
  - cbn [approx] in *. destruct Hx as (X1 & X2), Hy as (Y1 & Y2).
    apply approx_round; rewrite !N.mul_add_distr_r; lia.
Qed.

Lemma approx_zero d e : approx d (FFin 0) e -> e = 0.
Proof.
  cbn [approx]. intros (H & _). pose proof P53_pos. pose proof (pw_pos (P53 - 1) d ltac:(lia)).
  destruct (N.eq_dec e 0); [assumption|]. exfalso.
  assert (1 * 1 <= e * pw (P53 - 1) d) by (apply N.mul_le_mono; lia). lia.
Qed.

Lemma approx_scale d x e g : approx d x e -> approx (S d) (fscale x g) (e * 2 ^ g).
Proof.
  intros Hx. pose proof P53_pos as HP. unfold fscale. destruct (fis_zero x) eqn:Z.
  - destruct x as [| |[|?]]; try discriminate. rewrite (approx_zero d e Hx). cbn [approx]. rewrite !N.mul_0_l. lia.
  - assert (G : 1 <= 2 ^ g) by (pose proof (pow_nz g); lia).
    destruct x as [| |a]; [contradiction| |].
    + (* inf * 2^g or inf * inf *)
      assert (approx (S d) FInf (e * 2 ^ g)).
      { apply approx_S. cbn [approx] in *. transitivity (e * pw (P53 + 1) d); [exact Hx|].
        replace (e * 2 ^ g * pw (P53 + 1) d) with (2 ^ g * (e * pw (P53 + 1) d)) by lia.
        rewrite <- (N.mul_1_l (e * pw (P53 + 1) d)) at 1. apply N.mul_le_mono_r. exact G. }
      destruct (pow2_cases g) as [(_ & ->)|(_ & ->)]; cbn [fmul]; [|assumption].
      destruct (N.eqb_spec (2 ^ g) 0) as [E|]; [exfalso; revert E; apply pow_nz|assumption].
    + assert (NZ : a <> 0) by (intros ->; discriminate).
      cbn [approx] in Hx. destruct Hx as (X1 & X2).
      destruct (pow2_cases g) as [(_ & ->)|(Hg & ->)]; cbn [fmul].
      * apply approx_round.
        -- replace (e * 2 ^ g * pw (P53 - 1) d) with (2 ^ g * (e * pw (P53 - 1) d)) by lia.
           replace (a * 2 ^ g * pw P53 d) with (2 ^ g * (a * pw P53 d)) by lia. apply N.mul_le_mono_l. exact X1.
        -- replace (e * 2 ^ g * pw (P53 + 1) d) with (2 ^ g * (e * pw (P53 + 1) d)) by lia.
           replace (a * 2 ^ g * pw P53 d) with (2 ^ g * (a * pw P53 d)) by lia. apply N.mul_le_mono_l. exact X2.
      * destruct (N.eqb_spec a 0); [contradiction|]. apply approx_S. cbn [approx].
        (* a >= 1 and the gap is at least 1024 *)
        assert (MAXF <= 2 ^ g) by (unfold MAXF; apply N.pow_le_mono_r; lia).
        transitivity (2 ^ g * (a * pw P53 d)).
        -- transitivity (2 ^ g * pw P53 d); [apply N.mul_le_mono_r; assumption|].
           apply N.mul_le_mono_l. rewrite <- (N.mul_1_l (pw P53 d)) at 1. apply N.mul_le_mono_r. lia.
        -- replace (e * 2 ^ g * pw (P53 + 1) d) with (2 ^ g * (e * pw (P53 + 1) d)) by lia.
           apply N.mul_le_mono_l. exact X2.
Qed.

Lemma cardf_fuel_approx b : wf b -> forall fuel p, valid b p ->
  (N.to_nat (nvars b - var_of b p) < fuel)%nat ->
  approx (2 * fuel) (cardf_fuel fuel b p) (card_fuel fuel b p).
Proof.
  intros Hwf. induction fuel as [|f IH]; intros p Vp Hf; [lia|]. cbn [cardf_fuel card_fuel].
  destruct (N.ltb_spec p 2) as [|Hge].
  - apply (approx_mono 0); [lia|apply approx_exact].
  - destruct Vp as (Vp & _). destruct (wf_children b p Hwf Hge Vp) as (Vl & Vh & Hl & Hh & Hnv). unfold var_of in *.
    replace (2 * S f)%nat with (S (S (2 * f))) by lia.
    apply approx_add; apply approx_scale; apply IH; try assumption; lia.
Qed.

(* cardinality() is the exact count up to (1 +- 2^-53)^d with d = 2*nvars+3; +inf only if exact*(1+2^-53)^d >= 2^1024 *)
Theorem cardinality_rounding b : wf b ->
  approx (2 * N.to_nat (nvars b) + 3) (cardinality_f64 b) (exact_cardinality b).
Proof.
  intros Hwf. unfold cardinality_f64, exact_cardinality.
  destruct (is_false b); [apply (approx_mono 0); [lia|apply approx_exact]|].
  pose proof (cardf_fuel_approx b Hwf (count_fuel b) (size b - 1) (root_valid b Hwf)) as A.
  unfold cardfp, cardp. unfold count_fuel in *. specialize (A ltac:(lia)).
  replace (2 * N.to_nat (nvars b) + 3)%nat with (S (2 * S (N.to_nat (nvars b)))) by lia.
  pose proof (approx_scale _ _ _ (var_of b (size b - 1)) A) as Sc. unfold fscale in Sc.
  destruct (fis_zero (cardf_fuel (S (N.to_nat (nvars b))) b (size b - 1))) eqn:Z; [exact Sc|].
  destruct (fmul _ _); [contradiction|exact Sc|exact Sc].
Qed.

(* ---- finite results are below 2^1024 (so a count with exact*(1-2^-53)^d >= 2^1024 must come out as +inf) ---- *)
Definition in_range (x : fl) : Prop := match x with FFin m => m < MAXF | _ => True end.

Lemma round53_range n : in_range (round53 n).
Proof.
  unfold round53. destruct (N.leb_spec (bitlen n) 53) as [Hk|Hk].
  - cbn [in_range]. destruct (N.eq_dec n 0) as [->|NZ]; [reflexivity|].
    destruct (bitlen_bounds n NZ) as (_ & H). unfold MAXF.
    assert (2 ^ bitlen n <= 2 ^ 1024) by (apply N.pow_le_mono_r; lia). lia.
  - match goal with |- in_range (if ?a <=? ?c then _ else _) => destruct (N.leb_spec a c) end; cbn [in_range]; [exact I|assumption].
Qed.

Lemma fscale_range x g : in_range x -> in_range (fscale x g).
Proof.
  intros R. unfold fscale. destruct (fis_zero x); [reflexivity|].
  destruct x as [| |a]; destruct (pow2_cases g) as [(_ & ->)|(_ & ->)]; cbn [fmul]; try exact I.
  - destruct (_ =? 0); exact I.
  - apply round53_range.
  - destruct (a =? 0); exact I.
Qed.

Lemma fadd_range x y : in_range (fadd x y).
Proof. destruct x, y; cbn [fadd]; try exact I. apply round53_range. Qed.

Lemma cardf_fuel_range b : forall fuel p, in_range (cardf_fuel fuel b p).
Proof.
  destruct fuel as [|f]; intros p; cbn [cardf_fuel]; [exact I|].
  destruct (N.ltb_spec p 2); [|apply fadd_range]. cbn [in_range]. unfold MAXF.
  assert (2 ^ 1 <= 2 ^ 1024) by (apply N.pow_le_mono_r; lia). change (2 ^ 1) with 2 in *. lia.
Qed.

Theorem cardinality_finite_range b m : cardinality_f64 b = FFin m -> m < 2 ^ 1024.
Proof.
  unfold cardinality_f64. destruct (is_false b).
  - intros E. inversion E. reflexivity.
  - destruct (fis_zero _) eqn:Z; [intros E; inversion E; reflexivity|].
    pose proof (fscale_range _ (var_of b (size b - 1)) (cardf_fuel_range b (count_fuel b) (size b - 1))) as R.
    unfold fscale in R. unfold cardfp in *. rewrite Z in R.
    destruct (fmul _ _); intros E; inversion E; subst. exact R.
Qed.
