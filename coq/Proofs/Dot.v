(* Proofs/Dot.v — the .dot writer (Model/Dot.v): the line printer is injective (parse_line inverts print_line for
   EVERY line, whatever the label bytes), the emitted text declares exactly the diagram (dot_faithful), zero pruning
   removes exactly the 0 vertex and the edges into it (dot_pruned_diff), the graph read back evaluates like the Bdd
   (dot_eval). *)
From Coq Require Import List NArith Lia Bool PeanoNat.
Import ListNotations.
From BddVerif Require Import Model.Bdd Model.Apply Model.Ops Model.VarSet Model.Dot Proofs.Sem Proofs.Reflect
  Proofs.QuantSem Proofs.VarSet.
Open Scope N_scope.

(* ------------------------------------------------------------------------------------------ *)
(* byte strings                                                                                 *)
Lemma bytes_eqb_refl a : bytes_eqb a a = true.
Proof. induction a as [|x a IH]; cbn [bytes_eqb]; [reflexivity|]. rewrite N.eqb_refl, IH. reflexivity. Qed.

Lemma strip_prefix_app p r : strip_prefix p (p ++ r) = Some r.
Proof. induction p as [|x p IH]; cbn [strip_prefix app]; [reflexivity|]. rewrite N.eqb_refl. exact IH. Qed.

Lemma strip_suffix_app r p : strip_suffix p (r ++ p) = Some r.
Proof. unfold strip_suffix. rewrite rev_app_distr, strip_prefix_app, rev_involutive. reflexivity. Qed.

Definition nodigit_head (t : list N) : Prop := match t with [] => True | c :: _ => is_digit c = false end.

Lemma span_digits_app : forall d t, Forall (fun c => is_digit c = true) d -> nodigit_head t ->
  span_digits (d ++ t) = (d, t).
Proof.
  induction d as [|c d IH]; intros t Hd Ht.
  - cbn [app]. destruct t as [|c t]; [reflexivity|]. cbn [span_digits]. cbn [nodigit_head] in Ht. rewrite Ht. reflexivity.
  - inversion Hd as [|c' d' Hc Hd']; subst. cbn [app span_digits]. rewrite Hc, (IH t Hd' Ht). reflexivity.
Qed.

Lemma read_num_decimal n t : nodigit_head t -> read_num (decimal n ++ t) = Some (n, t).
Proof.
  intros Ht. unfold read_num. rewrite (span_digits_app (decimal n) t (decimal_digits n) Ht).
  destruct (decimal n) eqn:E; [exfalso; exact (decimal_nonempty n E)|]. rewrite <- E.
  change (Dot.undec (decimal n)) with (dec_value (decimal n)). rewrite dec_value_decimal. reflexivity.
Qed.

(* ------------------------------------------------------------------------------------------ *)
(* the printer is injective: the reader inverts it on every line                               *)
Lemma rn_entry X : read_num (s_entry_pre ++ X) = None. Proof. reflexivity. Qed.
Lemma sp_mid_arrow X : strip_prefix s_vertex_mid (s_arrow ++ X) = None. Proof. reflexivity. Qed.

Theorem parse_print l : parse_line (print_line l) = Some l.
Proof.
  destruct l as [| |r|c|p s|p q st|]; try (vm_compute; reflexivity).
  - (* entry *) cbn [print_line]. unfold parse_line. rewrite rn_entry, strip_prefix_app, read_num_decimal by reflexivity.
    rewrite bytes_eqb_refl. reflexivity.
  - (* terminals *) destruct c; vm_compute; reflexivity.
  - (* vertex *) cbn [print_line]. unfold parse_line. rewrite read_num_decimal by reflexivity.
    rewrite strip_prefix_app, strip_suffix_app. reflexivity.
  - (* edge *) destruct st; cbn [print_line]; unfold parse_line; rewrite read_num_decimal by reflexivity;
      rewrite sp_mid_arrow, strip_prefix_app, read_num_decimal by reflexivity.
    + rewrite bytes_eqb_refl. reflexivity.
    + change (bytes_eqb s_dotted s_filled) with false. rewrite bytes_eqb_refl. reflexivity.
Qed.
Print Assumptions parse_print.

Corollary print_line_inj l1 l2 : print_line l1 = print_line l2 -> l1 = l2.
Proof. intros H. pose proof (parse_print l1) as H1. rewrite H, parse_print in H1. congruence. Qed.

Lemma parse_lines_print ls : parse_lines (map print_line ls) = Some ls.
Proof. induction ls as [|l ls IH]; cbn [map parse_lines]; [reflexivity|]. rewrite parse_print, IH. reflexivity. Qed.

(* ------------------------------------------------------------------------------------------ *)
(* the emitted items                                                                            *)
Definition label_of (b : bdd) (names : list name) (p : N) : name := nth (N.to_nat (var_of b p)) names [].
Definition node_lines (b : bdd) (names : list name) (pruned : bool) (p : N) : list line :=
  [LVertex p (label_of b names p)]
  ++ (if negb pruned || negb (nhigh (get b p) =? 0) then [LEdge p (nhigh (get b p)) Filled] else [])
  ++ (if negb pruned || negb (nlow (get b p) =? 0) then [LEdge p (nlow (get b p)) Dotted] else []).

Lemma node_items_spec b names pruned p :
  (var_of b p < N.of_nat (length names) /\ node_items b names pruned p = Ok (node_lines b names pruned p)) \/
  (N.of_nat (length names) <= var_of b p /\ node_items b names pruned p = Panic).
Proof.
  unfold node_items, node_lines, label_of, var_of. destruct (nth_error names (N.to_nat (nvar (get b p)))) as [s|] eqn:E.
  - left. split.
    + assert (N.to_nat (nvar (get b p)) < length names)%nat by (apply nth_error_Some; rewrite E; discriminate). lia.
    + rewrite (nth_error_nth _ _ _ E). reflexivity.
  - right. apply nth_error_None in E. split; [lia|reflexivity].
Qed.

Lemma nodes_items_spec b names pruned : forall ps,
  ((forall p, In p ps -> var_of b p < N.of_nat (length names)) /\
     nodes_items b names pruned ps = Ok (flat_map (node_lines b names pruned) ps)) \/
  ((exists p, In p ps /\ N.of_nat (length names) <= var_of b p) /\ nodes_items b names pruned ps = Panic).
Proof.
  induction ps as [|p r IH]; cbn [nodes_items flat_map].
  - left. split; [intros p []|reflexivity].
  - destruct (node_items_spec b names pruned p) as [(Hp & E)|(Hp & E)]; rewrite E; cbn [bind].
    + destruct IH as [(Hr & E')|((q & Hq & Hbad) & E')]; rewrite E'; cbn [bind].
      * left. split; [|reflexivity]. intros q [<-|Hq]; [exact Hp|apply Hr; exact Hq].
      * right. split; [|reflexivity]. exists q. split; [right; exact Hq|exact Hbad].
    + right. split; [|reflexivity]. exists p. split; [left; reflexivity|exact Hp].
Qed.

Definition frame (b : bdd) (pruned : bool) (body : list line) : list line :=
  [LHeader; LInit; LEntry (size b - 1)] ++ (if pruned then [] else [LTerm false]) ++ [LTerm true] ++ body ++ [LFooter].

(* export succeeds exactly when the array is non-empty, the name list has the diagram's variable count and every
   decision variable has a name; otherwise it panics; the mode is irrelevant for success *)
Definition exportable (b : bdd) (names : list name) : Prop :=
  size b <> 0 /\ N.of_nat (length names) = nvars b /\ forall p, In p (idxs b) -> var_of b p < N.of_nat (length names).

Lemma dot_items_spec b names pruned :
  (exportable b names /\ dot_items b names pruned = Ok (frame b pruned (flat_map (node_lines b names pruned) (idxs b)))) \/
  (~ exportable b names /\ dot_items b names pruned = Panic).
Proof.
  unfold dot_items, exportable. destruct (N.eqb_spec (size b) 0) as [Hz|Hnz].
  - right. split; [|reflexivity]. intros (H & _). contradiction.
  - destruct (N.eqb_spec (N.of_nat (length names)) (nvars b)) as [Hl|Hl]; cbn [negb].
    + destruct (nodes_items_spec b names pruned (idxs b)) as [(Hr & E)|((q & Hq & Hbad) & E)]; rewrite E; cbn [bind].
      * left. split; [|reflexivity]. split; [exact Hnz|]. split; [exact Hl|exact Hr].
      * right. split; [|reflexivity]. intros (_ & _ & Hr). specialize (Hr q Hq). lia.
    + right. split; [|reflexivity]. intros (_ & H & _). contradiction.
Qed.

Lemma wf_exportable b names : wf b -> N.of_nat (length names) = nvars b -> exportable b names.
Proof.
  intros Hwf Hl. split; [pose proof (size_pos b Hwf); lia|]. split; [exact Hl|].
  intros p Hp. apply in_idxs in Hp. destruct Hp as (H2 & Hlt).
  destruct (wf_children b p Hwf H2 Hlt) as (_ & _ & _ & _ & Hv). lia.
Qed.

Theorem dot_ok b names pruned : wf b -> N.of_nat (length names) = nvars b ->
  dot_lines b names pruned = Ok (map print_line (frame b pruned (flat_map (node_lines b names pruned) (idxs b)))).
Proof.
  intros Hwf Hl. unfold dot_lines. destruct (dot_items_spec b names pruned) as [(_ & E)|(Hn & _)].
  - rewrite E. reflexivity.
  - exfalso. apply Hn. apply wf_exportable; assumption.
Qed.
Print Assumptions dot_ok.

Theorem dot_panic_iff b names pruned : dot_lines b names pruned = Panic <-> ~ exportable b names.
Proof.
  unfold dot_lines. destruct (dot_items_spec b names pruned) as [(He & E)|(Hn & E)]; rewrite E; cbn [bind]; split; intros H.
  - discriminate.
  - contradiction.
  - exact Hn.
  - reflexivity.
Qed.

Lemma dot_lines_inv b names pruned ss : dot_lines b names pruned = Ok ss ->
  exportable b names /\ ss = map print_line (frame b pruned (flat_map (node_lines b names pruned) (idxs b))).
Proof.
  unfold dot_lines. destruct (dot_items_spec b names pruned) as [(He & E)|(Hn & E)]; rewrite E; cbn [bind]; intros H.
  - inversion H. split; [exact He|reflexivity].
  - discriminate.
Qed.

(* ------------------------------------------------------------------------------------------ *)
(* dot_faithful                                                                                 *)
Definition node_edges (b : bdd) (p : N) : list (N * N * style) :=
  [(p, nhigh (get b p), Filled); (p, nlow (get b p), Dotted)].
Definition keep_edge (pruned : bool) (e : N * N * style) : bool := negb pruned || negb (snd (fst e) =? 0).
Definition expected_graph (b : bdd) (names : list name) (pruned : bool) : graph :=
  mkGraph [size b - 1]
          (if pruned then [1] else [0; 1])
          (map (fun p => (p, label_of b names p)) (idxs b))
          (filter (keep_edge pruned) (flat_map (node_edges b) (idxs b))).

Lemma collect_body b names pruned : forall ps,
  collect (flat_map (node_lines b names pruned) ps ++ [LFooter]) =
  Some (mkGraph [] [] (map (fun p => (p, label_of b names p)) ps) (filter (keep_edge pruned) (flat_map (node_edges b) ps))).
Proof.
  induction ps as [|p r IH]; [reflexivity|].
  cbn [flat_map map]. rewrite <- app_assoc, filter_app.
  set (rest := flat_map (node_lines b names pruned) r ++ [LFooter]) in *.
  set (erest := filter (keep_edge pruned) (flat_map (node_edges b) r)) in *.
  unfold node_lines, node_edges, keep_edge. cbn [fst snd filter].
  destruct (negb pruned || negb (nhigh (get b p) =? 0)), (negb pruned || negb (nlow (get b p) =? 0));
    cbn [app collect]; rewrite IH; reflexivity.
Qed.

Theorem dot_faithful b names pruned ss : dot_lines b names pruned = Ok ss ->
  parse_dot ss = Some (expected_graph b names pruned).
Proof.
  intros H. destruct (dot_lines_inv _ _ _ _ H) as (_ & ->). unfold parse_dot. rewrite parse_lines_print.
  unfold frame, graph_of. cbn [app]. destruct pruned; cbn [app collect]; rewrite collect_body; reflexivity.
Qed.
Print Assumptions dot_faithful.

(* ------------------------------------------------------------------------------------------ *)
(* dot_pruned_diff                                                                              *)
Definition keep_line (l : line) : bool :=
  match l with
  | LTerm false => false
  | LEdge _ q _ => negb (q =? 0)
  | _ => true
  end.

Lemma node_lines_pruned b names p : filter keep_line (node_lines b names false p) = node_lines b names true p.
Proof.
  unfold node_lines. cbn [negb orb app filter keep_line].
  destruct (nhigh (get b p) =? 0), (nlow (get b p) =? 0); reflexivity.
Qed.

Lemma body_pruned b names : forall ps,
  filter keep_line (flat_map (node_lines b names false) ps) = flat_map (node_lines b names true) ps.
Proof.
  induction ps as [|p r IH]; [reflexivity|]. cbn [flat_map]. rewrite filter_app, node_lines_pruned, IH. reflexivity.
Qed.

Lemma filter_parse_print f ls :
  filter (fun s => match parse_line s with Some l => f l | None => true end) (map print_line ls) = map print_line (filter f ls).
Proof.
  induction ls as [|l ls IH]; [reflexivity|]. cbn [map filter]. rewrite parse_print, IH. destruct (f l); reflexivity.
Qed.

(* the pruned output is the unpruned output minus the line of vertex 0 and minus exactly the decision edges into 0
   (the entry edge is kept, also when it points at 0); the two modes succeed on the same inputs *)
Theorem dot_pruned_diff b names :
  (forall su, dot_lines b names false = Ok su ->
     dot_lines b names true = Ok (filter (fun s => match parse_line s with Some l => keep_line l | None => true end) su)) /\
  (dot_lines b names false = Panic <-> dot_lines b names true = Panic).
Proof.
  split.
  - intros su H. destruct (dot_lines_inv _ _ _ _ H) as (He & ->). rewrite filter_parse_print.
    unfold dot_lines. destruct (dot_items_spec b names true) as [(_ & E)|(Hn & _)]; [|contradiction].
    rewrite E. cbn [bind]. f_equal. f_equal. unfold frame. cbn [app filter keep_line]. f_equal. f_equal. f_equal. f_equal.
    rewrite filter_app, body_pruned. reflexivity.
  - rewrite !dot_panic_iff. reflexivity.
Qed.
Print Assumptions dot_pruned_diff.


(* the same with the filter spelled out *)
Corollary dot_pruned_diff_explicit b names :
  (forall su, dot_lines b names false = Ok su ->
     dot_lines b names true =
     Ok (filter (fun s => match parse_line s with
                          | Some (LTerm false) => false
                          | Some (LEdge _ q _) => negb (q =? 0)
                          | _ => true
                          end) su)) /\
  (dot_lines b names false = Panic <-> dot_lines b names true = Panic).
Proof.
  destruct (dot_pruned_diff b names) as (H1 & H2). split; [|exact H2].
  intros su Hsu. rewrite (H1 su Hsu). apply f_equal. apply filter_ext. intros s.
  destruct (parse_line s) as [l|]; [|reflexivity]. destruct l as [| | |[|]| | |]; reflexivity.
Qed.
Print Assumptions dot_pruned_diff_explicit.

(* the same at the level of the declared graphs *)
Corollary dot_pruned_graph b names :
  g_entry (expected_graph b names true) = g_entry (expected_graph b names false) /\
  g_verts (expected_graph b names true) = g_verts (expected_graph b names false) /\
  g_terms (expected_graph b names true) = filter (fun t => negb (t =? 0)) (g_terms (expected_graph b names false)) /\
  g_edges (expected_graph b names true) = filter (fun e => negb (snd (fst e) =? 0)) (g_edges (expected_graph b names false)).
Proof.
  unfold expected_graph. cbn [g_entry g_verts g_terms g_edges]. repeat split.
  rewrite (filter_ext (keep_edge false) (fun _ => true)) by reflexivity.
  assert (Ht : forall (A : Type) (l : list A), filter (fun _ => true) l = l).
  { intros A l. induction l as [|x l IH]; [reflexivity|]. cbn [filter]. rewrite IH. reflexivity. }
  rewrite Ht. apply filter_ext. intros e. reflexivity.
Qed.

(* ------------------------------------------------------------------------------------------ *)
(* dot_eval                                                                                     *)
Lemma find_vert_map (f : N -> name) : forall ps p, In p ps -> find_vert (map (fun q => (q, f q)) ps) p = Some (f p).
Proof.
  induction ps as [|q r IH]; intros p Hin; [destruct Hin|]. cbn [map find_vert].
  destruct (N.eqb_spec q p) as [->|Hne]; [reflexivity|]. apply IH. destruct Hin as [->|Hin]; [contradiction|exact Hin].
Qed.

Lemma find_vert_none (f : N -> name) : forall ps p, ~ In p ps -> find_vert (map (fun q => (q, f q)) ps) p = None.
Proof.
  induction ps as [|q r IH]; intros p Hni; [reflexivity|]. cbn [map find_vert].
  destruct (N.eqb_spec q p) as [->|Hne]; [exfalso; apply Hni; left; reflexivity|]. apply IH. intros H. apply Hni. right. exact H.
Qed.

Lemma find_edge_app l1 l2 p st :
  find_edge (l1 ++ l2) p st = match find_edge l1 p st with Some q => Some q | None => find_edge l2 p st end.
Proof.
  induction l1 as [|[[p' q] st'] l1 IH]; [reflexivity|]. cbn [app find_edge].
  destruct ((p' =? p) && style_eqb st' st); [reflexivity|exact IH].
Qed.

Definition child (b : bdd) (p : N) (st : style) : N := match st with Filled => nhigh (get b p) | Dotted => nlow (get b p) end.

Lemma find_edge_node b pruned q p st :
  find_edge (filter (keep_edge pruned) (node_edges b q)) p st =
  if (q =? p) && keep_edge pruned (p, child b p st, st) then Some (child b p st) else None.
Proof.
  unfold node_edges, keep_edge. cbn [filter fst snd]. destruct (N.eqb_spec q p) as [->|Hne].
  - destruct st; cbn [child andb];
      destruct (negb pruned || negb (nhigh (get b p) =? 0)), (negb pruned || negb (nlow (get b p) =? 0));
      cbn [find_edge style_eqb andb]; rewrite ?N.eqb_refl; cbn [andb]; reflexivity.
  - assert (Hf : (q =? p) = false) by (apply N.eqb_neq; exact Hne).
    destruct (negb pruned || negb (nhigh (get b q) =? 0)), (negb pruned || negb (nlow (get b q) =? 0));
      cbn [find_edge andb]; rewrite ?Hf; reflexivity.
Qed.

Lemma find_edge_expected b pruned : forall ps p st,
  find_edge (filter (keep_edge pruned) (flat_map (node_edges b) ps)) p st =
  if existsb (fun q => q =? p) ps && keep_edge pruned (p, child b p st, st) then Some (child b p st) else None.
Proof.
  induction ps as [|q r IH]; intros p st; [reflexivity|]. cbn [flat_map existsb].
  rewrite filter_app, find_edge_app, find_edge_node, IH.
  destruct (q =? p), (keep_edge pruned (p, child b p st, st)), (existsb (fun q0 => q0 =? p) r); reflexivity.
Qed.

Lemma existsb_idxs b p : In p (idxs b) -> existsb (fun q => q =? p) (idxs b) = true.
Proof. intros H. apply existsb_exists. exists p. split; [exact H|apply N.eqb_refl]. Qed.

(* number of decision nodes at or below level x: the walk's measure *)
Definition rank (b : bdd) (x : N) : nat := length (filter (fun q => x <=? var_of b q) (idxs b)).

Lemma filter_length_lt {A} (f g : A -> bool) (l : list A) x :
  (forall y, g y = true -> f y = true) -> In x l -> f x = true -> g x = false ->
  (length (filter g l) < length (filter f l))%nat.
Proof.
  intros Himp. induction l as [|y l IH]; intros Hin Hf Hg; [destruct Hin|].
  assert (Hle : forall l', (length (filter g l') <= length (filter f l'))%nat).
  { induction l' as [|z l' IH']; [cbn; lia|]. cbn [filter]. destruct (g z) eqn:Eg.
    - rewrite (Himp z Eg). cbn [length]. lia.
    - destruct (f z); cbn [length]; lia. }
  cbn [filter]. destruct Hin as [->|Hin].
  - rewrite Hf, Hg. cbn [length]. specialize (Hle l). lia.
  - specialize (IH Hin Hf Hg). destruct (g y) eqn:Eg.
    + rewrite (Himp y Eg). cbn [length]. lia.
    + destruct (f y); cbn [length]; lia.
Qed.

Lemma rank_pos b p : In p (idxs b) -> (1 <= rank b (var_of b p))%nat.
Proof.
  intros Hin. unfold rank. assert (H : In p (filter (fun q => var_of b p <=? var_of b q) (idxs b))).
  { apply filter_In. split; [exact Hin|apply N.leb_refl]. }
  destruct (filter _ (idxs b)); [destruct H|cbn [length]; lia].
Qed.

Lemma rank_lt b p x : In p (idxs b) -> var_of b p < x -> (rank b x < rank b (var_of b p))%nat.
Proof.
  intros Hin Hlt. unfold rank. apply (filter_length_lt _ _ _ p).
  - intros y Hy. apply N.leb_le in Hy. apply N.leb_le. lia.
  - exact Hin.
  - apply N.leb_refl.
  - apply N.leb_gt. exact Hlt.
Qed.

Lemma rank_le b x : (rank b x <= length (idxs b))%nat.
Proof.
  unfold rank. induction (idxs b) as [|y l IH]; [cbn; lia|]. cbn [filter]. destruct (x <=? var_of b y); cbn [length]; lia.
Qed.

Section Eval.
  Variables (b : bdd) (names : list name) (pruned : bool) (lv : name -> bool).
  Hypothesis Hwf : wf b.
  Let g := expected_graph b names pruned.
  Let v : val := fun x => lv (nth (N.to_nat x) names []).

  Lemma gwalk_term fuel p : p < 2 -> valid b p -> gwalk (S fuel) g lv p = sem b p v.
  Proof.
    intros Hp (Hlt & H1). cbn [gwalk]. unfold g, expected_graph. cbn [g_terms g_verts g_edges].
    assert (p = 0 \/ p = 1) as [->| ->] by lia.
    - destruct pruned; [|reflexivity]. cbn [mem existsb]. change (0 =? 1) with false. cbn [orb].
      rewrite find_vert_none; [reflexivity|]. intros H. apply in_idxs in H. lia.
    - destruct pruned; reflexivity.
  Qed.

  Lemma gwalk_sem : forall fuel p, valid b p -> (2 <= p -> (rank b (var_of b p) < fuel)%nat) -> (1 <= fuel)%nat ->
    gwalk fuel g lv p = sem b p v.
  Proof.
    induction fuel as [|fuel IH]; intros p Vp Hr H1; [lia|].
    destruct (N.ltb_spec p 2) as [Hlt|Hge]; [apply gwalk_term; assumption|].
    destruct Vp as (Hps & _). assert (Hin : In p (idxs b)) by (apply in_idxs; split; assumption).
    specialize (Hr Hge). pose proof (rank_pos b p Hin) as Hrp.
    destruct (wf_children b p Hwf Hge Hps) as (Vl & Vh & Hvl & Hvh & Hnv).
    rewrite (sem_unfold b p v Hwf Hge Hps).
    cbn [gwalk]. unfold g at 1 2 3, expected_graph. cbn [g_terms g_verts g_edges].
    assert (Hm : mem p (if pruned then [1] else [0; 1]) = false).
    { destruct pruned; cbn [mem existsb]; destruct (N.eqb_spec p 1); destruct (N.eqb_spec p 0); try lia; reflexivity. }
    rewrite Hm, (find_vert_map (label_of b names) (idxs b) p Hin).
    rewrite find_edge_expected, (existsb_idxs b p Hin). cbn [andb].
    change (lv (label_of b names p)) with (v (var_of b p)).
    set (st := if v (var_of b p) then Filled else Dotted).
    assert (Hc : child b p st = if v (var_of b p) then nhigh (get b p) else nlow (get b p)).
    { unfold st. destruct (v (var_of b p)); reflexivity. }
    rewrite <- Hc.
    assert (Vc : valid b (child b p st)) by (rewrite Hc; destruct (v (var_of b p)); assumption).
    assert (Hvc : var_of b p < var_of b (child b p st)) by (rewrite Hc; destruct (v (var_of b p)); assumption).
    unfold keep_edge. cbn [fst snd]. destruct (negb pruned || negb (child b p st =? 0)) eqn:Ek.
    - fold g. apply IH; [exact Vc| |lia].
      intros Hc2. pose proof (rank_lt b p _ Hin Hvc). lia.
    - apply orb_false_elim in Ek. destruct Ek as (_ & Ez). apply negb_false_iff, N.eqb_eq in Ez. rewrite Ez. reflexivity.
  Qed.

  Lemma graph_eval_expected : graph_eval g lv = eval b v.
  Proof.
    unfold graph_eval, g, expected_graph. cbn [g_entry g_verts]. fold g. rewrite map_length. unfold eval.
    pose proof (size_pos b Hwf) as Hs. apply gwalk_sem.
    - split; [lia|]. intros H. lia.
    - intros _. pose proof (rank_le b (var_of b (size b - 1))). lia.
    - lia.
  Qed.
End Eval.

(* evaluating the graph read back from the emitted lines, under any valuation lv of the labels, equals evaluating the
   Bdd under the induced valuation of the variables (variable x reads the value of its name) *)
Theorem dot_eval b names pruned ss : wf b -> dot_lines b names pruned = Ok ss ->
  exists g, parse_dot ss = Some g /\
    forall lv, graph_eval g lv = eval b (fun x => lv (nth (N.to_nat x) names [])).
Proof.
  intros Hwf H. exists (expected_graph b names pruned). split; [apply (dot_faithful _ _ _ _ H)|].
  intros lv. apply graph_eval_expected. exact Hwf.
Qed.
Print Assumptions dot_eval.

(* with a duplicate-free name list (a variable set) the labels determine the variables: reading the text back and
   evaluating it under a valuation of the variables gives the Bdd's value *)
Theorem dot_read_eval_correct b names pruned ss vl : wf b -> NoDup names -> N.of_nat (length names) <= 65534 ->
  dot_lines b names pruned = Ok ss -> dot_read_eval ss names vl = Some (eval b (val_of_list vl)).
Proof.
  intros Hwf Hnd Hlen H. unfold dot_read_eval. destruct (dot_eval b names pruned ss Hwf H) as (g & -> & Hg).
  f_equal. rewrite Hg. destruct (dot_lines_inv _ _ _ _ H) as ((_ & Hl & _) & _).
  apply eval_agree_lt; [exact Hwf|]. intros x Hx.
  destruct (nth_error names (N.to_nat x)) as [s|] eqn:E.
  - rewrite (nth_error_nth _ _ _ E). unfold build_map. rewrite (build_map_get_nth names 0 [] s (N.to_nat x) Hnd E).
    rewrite N.add_0_l, Nnat.N2Nat.id, as_u16_small by lia. reflexivity.
  - apply nth_error_None in E. lia.
Qed.
Print Assumptions dot_read_eval_correct.
