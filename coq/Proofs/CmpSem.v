(* Proofs/CmpSem.v — cmp_implies orders two diagrams exactly by logical implication. *)
From Coq Require Import List NArith Lia Bool.
Import ListNotations.
From BddVerif Require Import Model.Bdd Model.Apply Model.Ops Proofs.Sem Proofs.Canon Proofs.Reflect Proofs.ApplySem Proofs.ApplyTop.
Open Scope N_scope.

Definition implies (a b : bdd) : Prop := forall v, eval a v = true -> eval b v = true.

(* the limit-2 implication is the tautology test *)
Lemma imp_limit2 a b : wf a -> wf b -> nvars a = nvars b ->
  exists o, fused_binary_flip_op_with_limit 2 a b None None None op_imp = Ok o /\
    (is_true (match o with Some r => r | None => mk_false (nvars a) end) = true <-> implies a b).
Proof.
  intros Wa Wb NV.
  destruct imp_table_ok as (T & C & Bop).
  destruct (limit_exact a b None None None op_imp 2 Wa Wb NV eq_refl T C) as (r & E & L).
  destruct (fused_binary_flip_op_correct a b None None None op_imp Wa Wb NV eq_refl T C) as (r' & E' & Cr & Nr & Sr).
  rewrite E in E'. inversion E'; subst r'. clear E'.
  eexists; split; [exact L|].
  assert (Hsem : forall v, eval r v = implb (eval a v) (eval b v)).
  { intros v. rewrite Sr. cbn [oflip]. apply Bop. }
  pose proof (proj1 Cr) as Wr. pose proof (size_pos r Wr) as Hpos.
  destruct (N.leb_spec (size r) 2) as [Hle|Hgt].
  - rewrite is_true_size. rewrite (is_true_exact r Cr). split.
    + intros H v Ha. specialize (H v). rewrite Hsem, Ha in H. exact H.
    + intros H v. rewrite Hsem. destruct (eval a v) eqn:Ea; [cbn; now apply H|reflexivity].
  - split.
    + intros H. cbn in H. discriminate.
    + intros H. exfalso.
      assert (Ht : forall v, eval r v = true).
      { intros v. rewrite Hsem. destruct (eval a v) eqn:Ea; [cbn; now apply H|reflexivity]. }
      apply (is_true_exact r Cr) in Ht. lia.
Qed.

Theorem cmp_implies_spec a b : wf a -> wf b ->
  exists o, cmp_implies a b = Ok o /\
    (nvars a <> nvars b -> o = None) /\
    (nvars a = nvars b ->
       (o = Some OEq <-> (implies a b /\ implies b a)) /\
       (o = Some OLt <-> (implies a b /\ ~ implies b a)) /\
       (o = Some OGt <-> (~ implies a b /\ implies b a)) /\
       (o = None <-> (~ implies a b /\ ~ implies b a))).
Proof.
  intros Wa Wb. unfold cmp_implies.
  destruct (N.eqb_spec (nvars a) (nvars b)) as [NV|NV].
  - destruct (imp_limit2 a b Wa Wb NV) as (o1 & E1 & H1).
    destruct (imp_limit2 b a Wb Wa (eq_sym NV)) as (o2 & E2 & H2).
    rewrite E1. cbn [bind]. rewrite E2. cbn [bind]. rewrite <- NV in H2.
    eexists; split; [reflexivity|]. split; [intros; congruence|]. intros _.
    destruct (is_true match o1 with Some r => r | None => mk_false (nvars a) end) eqn:I1;
    destruct (is_true match o2 with Some r => r | None => mk_false (nvars a) end) eqn:I2; cbn [andb];
      repeat split; try (intros; discriminate); try (intros (X & Y)); intros;
      try (apply H1; reflexivity); try (apply H2; reflexivity);
      try (intros X; apply H1 in X; discriminate); try (intros X; apply H2 in X; discriminate);
      try (exfalso; apply X; apply H1; reflexivity); try (exfalso; apply Y; apply H2; reflexivity);
      try (exfalso; apply X; apply H2; reflexivity);
      try (apply H1 in X; discriminate); try (apply H2 in Y; discriminate); try (apply H2 in X; discriminate);
      try reflexivity.
  - eexists; split; [reflexivity|]. split; [reflexivity|]. intros; congruence.
Qed.
Print Assumptions cmp_implies_spec.
