(* Proofs/ExprParse.v — the tokenizer and the recursive-descent parser of Model/Expr.v:
   unfolding lemmas, totality (no Panic, no fuel exhaustion), fuel monotonicity. *)
From Coq Require Import List NArith Bool Lia Arith.
Import ListNotations.
From BddVerif Require Import Model.Bdd Model.Apply Model.Ops Model.Expr.
Local Open Scope nat_scope.

(* ------------------------------------------------------------------ index_of / slice *)
Lemma index_of_split p ts : forall i, index_of p ts = Some i ->
  exists t, ts = firstn i ts ++ t :: skipn (S i) ts /\ p t = true /\ existsb p (firstn i ts) = false /\ i < length ts.
Proof.
  induction ts as [|t r IH]; intros i H; [discriminate|].
  cbn [index_of] in H. destruct (p t) eqn:Hp.
  - injection H as <-. exists t. cbn. repeat split; auto. lia.
  - destruct (index_of p r) as [j|] eqn:Hj; [|discriminate]. injection H as <-.
    destruct (IH j eq_refl) as (t' & E & Hp' & Hn & Hl).
    exists t'. cbn [firstn skipn app existsb length]. rewrite Hp, Hn. repeat split; auto.
    + f_equal. exact E.
    + lia.
Qed.

Lemma index_of_none p ts : index_of p ts = None -> existsb p ts = false.
Proof.
  induction ts as [|t r IH]; intros H; [reflexivity|].
  cbn [index_of] in H. cbn [existsb]. destruct (p t); [discriminate|].
  destruct (index_of p r); [discriminate|]. now rewrite IH.
Qed.

Lemma index_of_some_exists p ts i : index_of p ts = Some i -> existsb p ts = true.
Proof.
  intros H. destruct (index_of_split _ _ _ H) as (t & E & Hp & _). rewrite E, existsb_app. cbn. rewrite Hp.
  now rewrite orb_true_r.
Qed.

Lemma slice_some ts a b l : slice ts a b = Some l -> l = firstn (b - a) (skipn a ts).
Proof. unfold slice. destruct (_ && _); [|discriminate]. now intros [= <-]. Qed.

Lemma slice_prefix ts i : i <= length ts -> slice ts 0 i = Some (firstn i ts).
Proof.
  intros H. unfold slice. cbn [Nat.leb andb skipn]. rewrite (proj2 (Nat.leb_le _ _) H). now rewrite Nat.sub_0_r.
Qed.

Lemma slice_suffix ts i : i <= length ts -> slice ts i (length ts) = Some (skipn i ts).
Proof.
  intros H. unfold slice. rewrite (proj2 (Nat.leb_le _ _) H), Nat.leb_refl. cbn [andb].
  f_equal. apply firstn_all2. rewrite skipn_length. lia.
Qed.

Lemma slice_mid ts a b : a <= b -> b <= length ts -> slice ts a b = Some (firstn (b - a) (skipn a ts)).
Proof.
  intros H1 H2. unfold slice. now rewrite (proj2 (Nat.leb_le _ _) H1), (proj2 (Nat.leb_le _ _) H2).
Qed.

(* ------------------------------------------------------------------ unfolding the parser *)
Definition binary_step (f : nat) (lv : level) (p : token -> bool) (mk : expr -> expr -> expr) (next : level)
  (ts : list token) : pres :=
  match index_of p ts with
  | Some i =>
    with_slice ts O i (fun l => pbind (parse_at f next l) (fun a =>
    with_slice ts (S i) (length ts) (fun r => pbind (parse_at f lv r) (fun b => POk (mk a b)))))
  | None => parse_at f next ts
  end.

Definition cond_step (f : nat) (ts : list token) : pres :=
  match index_of is_question ts, index_of is_colon ts with
  | None, None => parse_at f LOr ts
  | Some q, Some c =>
    with_slice ts O q (fun s1 => pbind (parse_at f LOr s1) (fun a =>
    with_slice ts (S q) c (fun s2 => pbind (parse_at f LOr s2) (fun b =>
    with_slice ts (S c) (length ts) (fun s3 => pbind (parse_at f LOr s3) (fun d => POk (ECond a b d)))))))
  | _, _ => PErr
  end.

Definition atom_of (x : name) : expr :=
  if name_eqb x s_true then EConst true else if name_eqb x s_false then EConst false else EVar x.

Definition term_step (f : nat) (ts : list token) : pres :=
  match ts with
  | [] => PErr
  | t :: rest =>
    if is_not t then pbind (parse_at f LTerm rest) (fun a => POk (ENot a))
    else match rest with
         | _ :: _ => PErr
         | [] => match t with
                 | TId x => POk (atom_of x)
                 | TGroup inner => parse_at f LFormula inner
                 | _ => PErr
                 end
         end
  end.

Definition formula_step (f : nat) (ts : list token) : pres :=
  match ts with [TGroup _] => parse_at f LTerm ts | _ => parse_at f LIff ts end.

Definition step (f : nat) (lv : level) (ts : list token) : pres :=
  match lv with
  | LFormula => formula_step f ts
  | LIff => binary_step f LIff is_iff EIff LImp ts
  | LImp => binary_step f LImp is_imp EImp LCond ts
  | LCond => cond_step f ts
  | LOr => binary_step f LOr is_or EOr LAnd ts
  | LAnd => binary_step f LAnd is_and EAnd LXor ts
  | LXor => binary_step f LXor is_xor EXor LTerm ts
  | LTerm => term_step f ts
  end.

Lemma parse_at_S f lv ts : parse_at (S f) lv ts = step f lv ts.
Proof. destruct lv; reflexivity. Qed.

Lemma binary_step_some f lv p mk next ts i : index_of p ts = Some i ->
  binary_step f lv p mk next ts =
  pbind (parse_at f next (firstn i ts)) (fun a => pbind (parse_at f lv (skipn (S i) ts)) (fun b => POk (mk a b))).
Proof.
  intros H. unfold binary_step, with_slice. rewrite H.
  destruct (index_of_split _ _ _ H) as (t & _ & _ & _ & Hl).
  rewrite slice_prefix by lia. rewrite slice_suffix by lia. reflexivity.
Qed.

Lemma binary_step_none f lv p mk next ts : index_of p ts = None -> binary_step f lv p mk next ts = parse_at f next ts.
Proof. intros H. unfold binary_step. now rewrite H. Qed.

(* ------------------------------------------------------------------ a top-level colon is never an operand *)
Definition operand_level (lv : level) : bool :=
  match lv with LOr | LAnd | LXor | LTerm => true | _ => false end.

Lemma existsb_split_colon p ts i : index_of p ts = Some i -> (forall t, p t = true -> is_colon t = false) ->
  existsb is_colon ts = existsb is_colon (firstn i ts) || existsb is_colon (skipn (S i) ts).
Proof.
  intros H Hp. destruct (index_of_split _ _ _ H) as (t & E & Ht & _).
  rewrite E at 1. rewrite existsb_app. cbn [existsb]. now rewrite (Hp _ Ht).
Qed.

Lemma pbind_ok r k e : pbind r k = POk e -> exists a, r = POk a /\ k a = POk e.
Proof. destruct r; cbn; try discriminate. intros H. eauto. Qed.

Lemma binary_colon f lv p mk next ts :
  (forall t, p t = true -> is_colon t = false) ->
  (forall ts', existsb is_colon ts' = true -> forall e, parse_at f next ts' <> POk e) ->
  (forall ts', existsb is_colon ts' = true -> forall e, parse_at f lv ts' <> POk e) ->
  existsb is_colon ts = true -> forall e, binary_step f lv p mk next ts <> POk e.
Proof.
  intros Hp Hn Hl Hc e. destruct (index_of p ts) as [i|] eqn:Hi.
  - rewrite (binary_step_some _ _ _ _ _ _ _ Hi). intros H.
    apply pbind_ok in H as (a & Ha & H). apply pbind_ok in H as (b & Hb & _).
    rewrite (existsb_split_colon _ _ _ Hi Hp) in Hc. apply orb_true_iff in Hc as [Hc|Hc].
    + exact (Hn _ Hc _ Ha).
    + exact (Hl _ Hc _ Hb).
  - rewrite (binary_step_none _ _ _ _ _ _ Hi). now apply Hn.
Qed.

Lemma colon_not_operand : forall f lv ts, operand_level lv = true -> existsb is_colon ts = true ->
  forall e, parse_at f lv ts <> POk e.
Proof.
  induction f as [|f IH]; intros lv ts Hlv Hc e; [destruct lv; discriminate|].
  rewrite parse_at_S. destruct lv; try discriminate; cbn [step].
  - apply binary_colon; auto. intros t; destruct t; cbn; congruence.
  - apply binary_colon; auto. intros t; destruct t; cbn; congruence.
  - apply binary_colon; auto. intros t; destruct t; cbn; congruence.
  - unfold term_step. destruct ts as [|t rest]; [discriminate|].
    destruct (is_not t) eqn:Hn.
    + intros H. apply pbind_ok in H as (a & Ha & _).
      cbn [existsb] in Hc. destruct t; try discriminate. cbn in Hc. exact (IH LTerm rest eq_refl Hc _ Ha).
    + destruct rest; [|discriminate].
      cbn in Hc. rewrite orb_false_r in Hc. destruct t; discriminate.
Qed.

(* ------------------------------------------------------------------ no Panic *)
Lemma pbind_nopanic r k : r <> PPanic -> (forall a, r = POk a -> k a <> PPanic) -> pbind r k <> PPanic.
Proof. destruct r; cbn; auto. Qed.

Lemma binary_nopanic f lv p mk next ts :
  (forall ts', parse_at f next ts' <> PPanic) -> (forall ts', parse_at f lv ts' <> PPanic) ->
  binary_step f lv p mk next ts <> PPanic.
Proof.
  intros Hn Hl. destruct (index_of p ts) as [i|] eqn:Hi.
  - rewrite (binary_step_some _ _ _ _ _ _ _ Hi).
    apply pbind_nopanic; auto. intros a _. apply pbind_nopanic; auto. discriminate.
  - rewrite (binary_step_none _ _ _ _ _ _ Hi). auto.
Qed.

(* in cond(): when the first operand parses, the `?` precedes the `:` and the middle slice is in range *)
Lemma cond_order f ts q c a : index_of is_question ts = Some q -> index_of is_colon ts = Some c ->
  parse_at f LOr (firstn q ts) = POk a -> S q <= c /\ c < length ts.
Proof.
  intros Hq Hc Ha.
  destruct (index_of_split _ _ _ Hq) as (tq & Eq & Htq & _ & Hlq).
  destruct (index_of_split _ _ _ Hc) as (tc & Ec & Htc & Hnc & Hlc).
  split; [|exact Hlc].
  destruct (Nat.lt_ge_cases c q) as [Hlt|Hge].
  - exfalso. refine (colon_not_operand f LOr (firstn q ts) eq_refl _ _ Ha).
    (* the colon at position c < q lies in the prefix *)
    assert (E : firstn q ts = firstn c ts ++ tc :: firstn (q - S c) (skipn (S c) ts)).
    { rewrite Ec at 1. rewrite firstn_app, firstn_firstn, firstn_length.
      replace (Nat.min q c) with c by lia. f_equal.
      replace (q - Nat.min c (length ts)) with (S (q - S c)) by lia. reflexivity. }
    rewrite E, existsb_app. cbn [existsb]. rewrite Htc. now rewrite orb_true_r.
  - destruct (Nat.eq_dec c q) as [->|Hne]; [|lia].
    exfalso. (* the token at q is both `?` and `:` *)
    assert (tq = tc).
    { assert (H1 : nth_error ts q = Some tq).
      { rewrite Eq. rewrite nth_error_app2; rewrite firstn_length; replace (Nat.min q (length ts)) with q by lia; [|lia].
        now rewrite Nat.sub_diag. }
      assert (H2 : nth_error ts q = Some tc).
      { rewrite Ec. rewrite nth_error_app2; rewrite firstn_length; replace (Nat.min q (length ts)) with q by lia; [|lia].
        now rewrite Nat.sub_diag. }
      congruence. }
    subst tc. destruct tq; discriminate.
Qed.

Lemma cond_step_some f ts q c : index_of is_question ts = Some q -> index_of is_colon ts = Some c ->
  cond_step f ts =
  pbind (parse_at f LOr (firstn q ts)) (fun a =>
  with_slice ts (S q) c (fun s2 => pbind (parse_at f LOr s2) (fun b =>
  pbind (parse_at f LOr (skipn (S c) ts)) (fun d => POk (ECond a b d))))).
Proof.
  intros Hq Hc. unfold cond_step. rewrite Hq, Hc.
  destruct (index_of_split _ _ _ Hq) as (_ & _ & _ & _ & Hlq).
  destruct (index_of_split _ _ _ Hc) as (_ & _ & _ & _ & Hlc).
  unfold with_slice at 1. rewrite slice_prefix by lia.
  destruct (parse_at f LOr (firstn q ts)); cbn [pbind]; auto.
  unfold with_slice. destruct (slice ts (S q) c); auto.
  destruct (parse_at f LOr l); cbn [pbind]; auto.
  rewrite slice_suffix by lia. reflexivity.
Qed.

Theorem parse_at_nopanic : forall f lv ts, parse_at f lv ts <> PPanic.
Proof.
  induction f as [|f IH]; intros lv ts; [destruct lv; discriminate|].
  rewrite parse_at_S. destruct lv; cbn [step]; try (apply binary_nopanic; auto).
  - unfold formula_step. destruct ts as [|[] [|]]; auto.
  - destruct (index_of is_question ts) as [q|] eqn:Hq; destruct (index_of is_colon ts) as [c|] eqn:Hc.
    + rewrite (cond_step_some _ _ _ _ Hq Hc).
      apply pbind_nopanic; auto. intros a Ha.
      destruct (cond_order _ _ _ _ _ Hq Hc Ha) as (H1 & H2).
      unfold with_slice. rewrite slice_mid by lia.
      apply pbind_nopanic; auto. intros b _. apply pbind_nopanic; auto. discriminate.
    + unfold cond_step. rewrite Hq, Hc. discriminate.
    + unfold cond_step. rewrite Hq, Hc. discriminate.
    + unfold cond_step. rewrite Hq, Hc. auto.
  - unfold term_step. destruct ts as [|t rest]; [discriminate|].
    destruct (is_not t).
    + apply pbind_nopanic; auto. discriminate.
    + destruct rest; [|discriminate]. destruct t; try discriminate; auto.
Qed.

(* ------------------------------------------------------------------ the tokenizer never runs out of fuel *)
Lemma take_name_length s : forall n r, take_name s = (n, r) -> length r <= length s.
Proof.
  induction s as [|c s IH]; intros n r H; cbn in H.
  - injection H as <- <-. cbn; lia.
  - destruct (delim c).
    + injection H as <- <-. cbn; lia.
    + destruct (take_name s) as (n', r') eqn:E. injection H as <- <-. specialize (IH _ _ eq_refl). cbn; lia.
Qed.

Lemma tcons_nofuel t r : r <> TFuel -> tcons t r <> TFuel.
Proof. destruct r; cbn; auto; discriminate. Qed.
Lemma tcons_ok t r ts rest : tcons t r = TOk ts rest -> exists ts', r = TOk ts' rest /\ ts = t :: ts'.
Proof. destruct r; cbn; try discriminate. intros [= <- <-]. eauto. Qed.

Lemma tokenize_group_fuel : forall f s top, length s < f ->
  tokenize_group f s top <> TFuel /\
  forall ts rest, tokenize_group f s top = TOk ts rest -> length rest <= length s.
Proof.
  induction f as [|f IH]; intros s top Hl; [lia|].
  cbn [tokenize_group]. destruct s as [|c r].
  { split; [destruct top; discriminate|]. destruct top; [|discriminate]. intros ts rest [= <- <-]. cbn; lia. }
  cbn [length] in Hl.
  assert (Hr : length r < f) by lia.
  assert (STEP : forall t, tcons t (tokenize_group f r top) <> TFuel /\
                 forall ts rest, tcons t (tokenize_group f r top) = TOk ts rest -> length rest <= length (c :: r)).
  { intros t. destruct (IH r top Hr) as (H1 & H2). split; [now apply tcons_nofuel|].
    intros ts rest H. apply tcons_ok in H as (ts' & H & _). specialize (H2 _ _ H). cbn; lia. }
  destruct (is_ws c).
  { destruct (IH r top Hr) as (H1 & H2). split; auto. intros ts rest H. specialize (H2 _ _ H). cbn; lia. }
  destruct (c =? 33)%N; [apply STEP|]. destruct (c =? 38)%N; [apply STEP|]. destruct (c =? 124)%N; [apply STEP|].
  destruct (c =? 94)%N; [apply STEP|]. destruct (c =? 58)%N; [apply STEP|]. destruct (c =? 63)%N; [apply STEP|].
  destruct (c =? 61)%N.
  { (* '=' *)
    destruct r as [|c2 r2]; [split; discriminate|]. destruct (c2 =? 62)%N; [|split; discriminate].
    cbn [length] in Hr. destruct (IH r2 top ltac:(lia)) as (H1 & H2). split; [now apply tcons_nofuel|].
    intros ts rest H. apply tcons_ok in H as (ts' & H & _). specialize (H2 _ _ H). cbn; lia. }
  destruct (c =? 60)%N.
  { (* '<' *)
    destruct r as [|c2 r2]; [split; discriminate|]. destruct (c2 =? 61)%N; [|split; discriminate].
    destruct r2 as [|c3 r3]; [split; discriminate|]. destruct (c3 =? 62)%N; [|split; discriminate].
    cbn [length] in Hr. destruct (IH r3 top ltac:(lia)) as (H1 & H2). split; [now apply tcons_nofuel|].
    intros ts rest H. apply tcons_ok in H as (ts' & H & _). specialize (H2 _ _ H). cbn; lia. }
  destruct (c =? 62)%N; [split; discriminate|].
  destruct (c =? 41)%N.
  { (* ')' *)
    destruct top; split; try discriminate. intros ts rest [= <- <-]. cbn; lia. }
  destruct (c =? 40)%N.
  { (* '(' *)
    destruct (IH r false Hr) as (H1 & H2).
    destruct (tokenize_group f r false) as [inner rest1| |] eqn:E; [|split; discriminate|congruence].
    specialize (H2 _ _ eq_refl).
    destruct (IH rest1 top ltac:(lia)) as (H3 & H4). split; [now apply tcons_nofuel|].
    intros ts rest H. apply tcons_ok in H as (ts' & H & _). specialize (H4 _ _ H). cbn; lia. }
  (* name *)
  destruct (take_name r) as (n, r') eqn:E. pose proof (take_name_length _ _ _ E) as Hn.
  destruct (IH r' top ltac:(lia)) as (H1 & H2). split; [now apply tcons_nofuel|].
  intros ts rest H. apply tcons_ok in H as (ts' & H & _). specialize (H2 _ _ H). cbn; lia.
Qed.

Theorem tokenize_nofuel s : tokenize s <> TFuel.
Proof. unfold tokenize. apply tokenize_group_fuel. lia. Qed.

(* ------------------------------------------------------------------ the parser never runs out of fuel *)
Lemma tweight_tok_group l : tweight_tok (TGroup l) = S (tweight l).
Proof.
  reflexivity.
Qed.

Lemma tweight_tok_pos t : 1 <= tweight_tok t.
Proof. destruct t; cbn; lia. Qed.

Lemma tweight_app l r : tweight (l ++ r) = tweight l + tweight r.
Proof. induction l as [|x l IH]; [reflexivity|]. unfold tweight in *. cbn [app fold_right]. rewrite IH. lia. Qed.

Lemma tweight_cons t r : tweight (t :: r) = tweight_tok t + tweight r.
Proof. reflexivity. Qed.

Lemma tweight_firstn n : forall l, tweight (firstn n l) <= tweight l.
Proof.
  induction n as [|n IH]; intros [|x l]; cbn [firstn]; try (cbn; lia).
  rewrite !tweight_cons. specialize (IH l). lia.
Qed.

Lemma tweight_skipn n : forall l, tweight (skipn n l) <= tweight l.
Proof.
  induction n as [|n IH]; intros [|x l]; cbn [skipn]; try lia.
  rewrite tweight_cons. specialize (IH l). lia.
Qed.

Lemma index_weight p ts i : index_of p ts = Some i ->
  tweight (firstn i ts) + tweight (skipn (S i) ts) + 1 <= tweight ts.
Proof.
  intros H. destruct (index_of_split _ _ _ H) as (t & E & _).
  rewrite E at 3. rewrite tweight_app, tweight_cons. pose proof (tweight_tok_pos t). lia.
Qed.

Lemma slice_weight ts a b l : slice ts a b = Some l -> tweight l <= tweight (skipn a ts).
Proof. intros H. rewrite (slice_some _ _ _ _ H). apply tweight_firstn. Qed.

Definition rank (lv : level) : nat :=
  match lv with LFormula => 8 | LIff => 7 | LImp => 6 | LCond => 5 | LOr => 4 | LAnd => 3 | LXor => 2 | LTerm => 1 end.

Lemma pbind_nofuel r k : r <> PFuel -> (forall a, k a <> PFuel) -> pbind r k <> PFuel.
Proof. destruct r; cbn; auto. Qed.

Lemma binary_nofuel f lv p mk next ts :
  (forall lv' ts', 9 * tweight ts' + rank lv' <= f -> parse_at f lv' ts' <> PFuel) ->
  S (rank next) = rank lv -> 9 * tweight ts + rank lv <= S f ->
  binary_step f lv p mk next ts <> PFuel.
Proof.
  intros IH Hr Hf. destruct (index_of p ts) as [i|] eqn:Hi.
  - rewrite (binary_step_some _ _ _ _ _ _ _ Hi). pose proof (index_weight _ _ _ Hi) as Hw.
    apply pbind_nofuel; [apply IH; lia|]. intros a. apply pbind_nofuel; [apply IH; lia|]. discriminate.
  - rewrite (binary_step_none _ _ _ _ _ _ Hi). apply IH. lia.
Qed.

Theorem parse_at_nofuel : forall f lv ts, 9 * tweight ts + rank lv <= f -> parse_at f lv ts <> PFuel.
Proof.
  induction f as [|f IH]; intros lv ts Hf; [destruct lv; cbn in Hf; lia|].
  rewrite parse_at_S. destruct lv; cbn [step]; try (apply binary_nofuel; auto; fail).
  - unfold formula_step. cbn [rank] in Hf.
    destruct ts as [|[] [|]]; apply IH; cbn [rank]; lia.
  - cbn [rank] in Hf. unfold cond_step.
    destruct (index_of is_question ts) as [q|] eqn:Hq; destruct (index_of is_colon ts) as [c|] eqn:Hc; try discriminate.
    + pose proof (index_weight _ _ _ Hq) as Wq. pose proof (index_weight _ _ _ Hc) as Wc.
      unfold with_slice.
      destruct (slice ts 0 q) as [s1|] eqn:E1; [|discriminate].
      apply slice_weight in E1. cbn [skipn] in E1.
      apply pbind_nofuel; [apply IH; cbn [rank]; lia|]. intros a.
      destruct (slice ts (S q) c) as [s2|] eqn:E2; [|discriminate].
      apply slice_weight in E2.
      apply pbind_nofuel; [apply IH; cbn [rank]; lia|]. intros b.
      destruct (slice ts (S c) (length ts)) as [s3|] eqn:E3; [|discriminate].
      apply slice_weight in E3.
      apply pbind_nofuel; [apply IH; cbn [rank]; lia|]. discriminate.
    + apply IH. cbn [rank]. lia.
  - cbn [rank] in Hf. unfold term_step. destruct ts as [|t rest]; [discriminate|].
    rewrite tweight_cons in Hf. pose proof (tweight_tok_pos t) as Ht.
    destruct (is_not t).
    + apply pbind_nofuel; [apply IH; cbn [rank]; lia|]. discriminate.
    + destruct rest; [|discriminate]. destruct t; try discriminate.
      rewrite tweight_tok_group in Hf. apply IH. cbn [rank]. lia.
Qed.

Theorem parse_tokens_total ts : parse_tokens ts <> PPanic /\ parse_tokens ts <> PFuel.
Proof.
  split; [apply parse_at_nopanic|]. apply parse_at_nofuel. unfold parse_fuel. cbn [rank]. lia.
Qed.

Theorem parse_string_total s : parse_string s <> PPanic /\ parse_string s <> PFuel.
Proof.
  unfold parse_string. pose proof (tokenize_nofuel s).
  destruct (tokenize s); [apply parse_tokens_total|split; discriminate|congruence].
Qed.

(* ------------------------------------------------------------------ more fuel never changes a finished result *)
Definition ple (r1 r2 : pres) := r1 = PFuel \/ r1 = r2.
Lemma ple_refl r : ple r r. Proof. now right. Qed.
Lemma pbind_ple r1 r2 k1 k2 : ple r1 r2 -> (forall a, ple (k1 a) (k2 a)) -> ple (pbind r1 k1) (pbind r2 k2).
Proof. intros [-> | ->] Hk; [now left|]. destruct r2; cbn; try apply ple_refl. apply Hk. Qed.
Lemma with_slice_ple ts a b k1 k2 : (forall l, ple (k1 l) (k2 l)) -> ple (with_slice ts a b k1) (with_slice ts a b k2).
Proof. intros Hk. unfold with_slice. destruct (slice ts a b); [apply Hk|apply ple_refl]. Qed.

Theorem parse_at_ple : forall f f' lv ts, f <= f' -> ple (parse_at f lv ts) (parse_at f' lv ts).
Proof.
  induction f as [|f IH]; intros f' lv ts Hf; [left; destruct lv; reflexivity|].
  destruct f' as [|f']; [lia|]. assert (Hf' : f <= f') by lia.
  rewrite !parse_at_S.
  assert (BIN : forall lv p mk next, ple (binary_step f lv p mk next ts) (binary_step f' lv p mk next ts)).
  { intros lv0 p mk next. unfold binary_step. destruct (index_of p ts); [|now apply IH].
    apply with_slice_ple; intros l. apply pbind_ple; [now apply IH|]. intros a.
    apply with_slice_ple; intros r. apply pbind_ple; [now apply IH|]. intros b. apply ple_refl. }
  destruct lv; cbn [step]; try apply BIN.
  - unfold formula_step. destruct ts as [|[] [|]]; now apply IH.
  - unfold cond_step. destruct (index_of is_question ts), (index_of is_colon ts); try apply ple_refl; [|now apply IH].
    apply with_slice_ple; intros s1. apply pbind_ple; [now apply IH|]. intros a.
    apply with_slice_ple; intros s2. apply pbind_ple; [now apply IH|]. intros b.
    apply with_slice_ple; intros s3. apply pbind_ple; [now apply IH|]. intros d. apply ple_refl.
  - unfold term_step. destruct ts as [|t rest]; [apply ple_refl|].
    destruct (is_not t).
    + apply pbind_ple; [now apply IH|]. intros a; apply ple_refl.
    + destruct rest; [|apply ple_refl]. destruct t; try apply ple_refl. now apply IH.
Qed.

Corollary parse_at_mono f f' lv ts e : parse_at f lv ts = POk e -> f <= f' -> parse_at f' lv ts = POk e.
Proof. intros H Hf. destruct (parse_at_ple f f' lv ts Hf) as [E|E]; congruence. Qed.

Definition tle (r1 r2 : tres) := r1 = TFuel \/ r1 = r2.
Lemma tle_refl r : tle r r. Proof. now right. Qed.
Lemma tcons_tle t r1 r2 : tle r1 r2 -> tle (tcons t r1) (tcons t r2).
Proof. intros [-> | ->]; [now left|apply tle_refl]. Qed.

Theorem tokenize_group_tle : forall f f' s top, f <= f' -> tle (tokenize_group f s top) (tokenize_group f' s top).
Proof.
  induction f as [|f IH]; intros f' s top Hf; [now left|].
  destruct f' as [|f']; [lia|]. assert (Hf' : f <= f') by lia.
  cbn [tokenize_group]. destruct s as [|c r]; [apply tle_refl|].
  destruct (is_ws c); [now apply IH|].
  repeat (match goal with |- tle (if ?x then _ else _) _ => destruct x end; [first [apply tcons_tle; now apply IH | apply tle_refl | idtac] | ]).
  - destruct r as [|c2 r2]; [apply tle_refl|]. destruct (c2 =? 62)%N; [|apply tle_refl]. apply tcons_tle; now apply IH.
  - destruct r as [|c2 r2]; [apply tle_refl|]. destruct (c2 =? 61)%N; [|apply tle_refl].
    destruct r2 as [|c3 r3]; [apply tle_refl|]. destruct (c3 =? 62)%N; [|apply tle_refl]. apply tcons_tle; now apply IH.
  - destruct (IH f' r false Hf') as [E|E]; rewrite E; [now left|].
    destruct (tokenize_group f' r false); try apply tle_refl. apply tcons_tle; now apply IH.
  - destruct (take_name r). apply tcons_tle; now apply IH.
Qed.

Corollary tokenize_group_mono f f' s top ts r :
  tokenize_group f s top = TOk ts r -> f <= f' -> tokenize_group f' s top = TOk ts r.
Proof. intros H Hf. destruct (tokenize_group_tle f f' s top Hf) as [E|E]; congruence. Qed.
