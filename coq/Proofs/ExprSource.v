(* Proofs/ExprSource.v — the tables read off the Rust source by tools/gen_expr.py (Generated/ExprTables.v) characterise
   the hand-written model functions: the `src_*_eq` obligations of the generated file composed with the `*_spec` lemmas of
   Proofs/ExprTable.v. *)
From Coq Require Import List NArith Bool. Import ListNotations.
From BddVerif Require Import Model.Bdd Model.Apply Model.Ops Model.Expr Proofs.ExprTable Generated.ExprTables.
Open Scope N_scope.

Theorem source_tables :
  src_single = model_single /\ src_multi = model_multi /\ src_reserved = model_reserved /\ src_levels = model_levels /\
  src_cond = model_cond /\ src_entry = model_entry /\ src_terminal = model_terminal /\
  src_show_binary = model_show_binary /\ src_show_not = model_show_not /\ src_show_cond = model_show_cond /\
  src_show_leaf = model_show_leaf.
Proof.
  exact (conj src_single_eq (conj src_multi_eq (conj src_reserved_eq (conj src_levels_eq (conj src_cond_eq (conj src_entry_eq
        (conj src_terminal_eq (conj src_show_binary_eq (conj src_show_not_eq (conj src_show_cond_eq src_show_leaf_eq)))))))))).
Qed.

Theorem source_single_tokens c t : In (c, t) src_single ->
  forall f r top, tokenize_group (S f) (c :: r) top = tcons t (tokenize_group f r top).
Proof. rewrite src_single_eq. apply single_token_spec. Qed.

Theorem source_multi_tokens s t : In (s, t) src_multi ->
  forall f r top, tokenize_group (S f) (s ++ r) top = tcons t (tokenize_group f r top).
Proof. rewrite src_multi_eq. apply multi_token_spec. Qed.

Theorem source_reserved c : reserved c = existsb (N.eqb c) src_reserved.
Proof. rewrite src_reserved_eq. apply reserved_spec. Qed.

Theorem source_precedence row : In row src_levels -> forall f ts,
  parse_at (S f) (r_level row) ts =
  match index_of (tok_is (r_tok row)) ts with
  | Some i =>
    with_slice ts O i (fun l => pbind (parse_at f (r_left row) l) (fun a =>
    with_slice ts (S i) (length ts) (fun r => pbind (parse_at f (r_right row) r) (fun b => POk (mk_of (r_ctor row) a b)))))
  | None => parse_at f (r_else row) ts
  end.
Proof. rewrite src_levels_eq. apply parse_level_spec. Qed.

Theorem source_show_binary c p i s : In (c, [p; i; s]) src_show_binary ->
  forall a b, show (mk_of c a b) = p ++ show a ++ i ++ show b ++ s.
Proof. rewrite src_show_binary_eq. apply show_binary_spec. Qed.

Theorem source_macro v s m : In (v, s, m) src_macro -> macro_binary s = method_op m.
Proof. rewrite src_macro_eq. apply macro_spec. Qed.
