(* Proofs/OpsFast.v — the shortcuts of Model/OpsFast.v equal the reference models. *)
From Coq Require Import List NArith Lia Bool.
Import ListNotations.
From BddVerif Require Import Model.Bdd Model.Apply Model.Ops Model.OpsFast Proofs.Sem Proofs.Canon Proofs.Reflect Proofs.NormalForms Proofs.Thresholds.
Open Scope N_scope.

Lemma count_true_le v l : count_true v l <= N.of_nat (length l).
Proof.
  induction l as [|x l IH]; cbn [count_true length]; [lia|].
  destruct (v x); lia.
Qed.

Theorem mk_sat_k_fast_eq upto nv k vars : mk_sat_k_fast upto nv k vars = mk_sat_k upto nv k vars.
Proof.
  unfold mk_sat_k_fast.
  destruct (forallb (fun x => x <? nv) vars && (N.of_nat (length (nodup N.eq_dec vars)) <? k)) eqn:G; [|reflexivity].
  apply andb_true_iff in G. destruct G as (R & K).
  assert (HR : forall x, In x vars -> x < nv).
  { intros x Hx. rewrite forallb_forall in R. specialize (R x Hx). now apply N.ltb_lt in R. }
  apply N.ltb_lt in K.
  destruct (mk_sat_k_correct upto nv k vars HR) as (r & E & Wr & Nr & Cr & Sr).
  rewrite E. f_equal. symmetry.
  destruct upto.
  - apply canonical_unique; [exact Cr|apply canonical_mk_true|rewrite Nr; reflexivity|].
    intros v. rewrite Sr. rewrite (eval_size2 (mk_true nv)) by reflexivity.
    pose proof (count_true_le v (nodup N.eq_dec vars)). apply N.leb_le. lia.
  - apply canonical_unique; [exact Cr|apply canonical_mk_false|rewrite Nr; reflexivity|].
    intros v. rewrite Sr. rewrite (eval_size1 (mk_false nv)) by reflexivity.
    pose proof (count_true_le v (nodup N.eq_dec vars)). apply N.eqb_neq. lia.
Qed.
Print Assumptions mk_sat_k_fast_eq.
