(* Proofs/Apply3Fast.v — the efficient ternary engine of Model/Apply3Fast.v computes exactly what the reference
   ternary engine of Model/Apply3.v computes: apply3_fast_eq, fused_ternary_flip_op_faithful_fast_eq,
   ternary_op_faithful_fast_eq, if_then_else_faithful_fast_eq (no hypotheses: pure data refinement, simulation by
   induction on the fuel), and the transferred top-level theorems. *)
From Coq Require Import List NArith Lia Bool Arith PeanoNat FMapPositive.
Import ListNotations.
From BddVerif Require Import Model.Bdd Model.Apply Model.Ops Model.ApplyFast Model.Apply3 Model.Apply3Fast
  Proofs.Sem Proofs.Canon Proofs.ApplySem Proofs.ApplyTop Proofs.TernSem Proofs.ApplyFast Proofs.Apply3Sem.
Open Scope N_scope.

(* ------------------------------------------------------------------ *)
(* the task table: a triple is looked up like a node                    *)
Lemma t3node_eqb t t' : node_eqb (t3node t) (t3node t') = task3_eqb t t'.
Proof. reflexivity. Qed.

Lemma tfind3F_add t t' v m : tfind3F t (tadd3F t' v m) = if task3_eqb t t' then Some v else tfind3F t m.
Proof. unfold tfind3F, tadd3F. rewrite nfindF_add, t3node_eqb. reflexivity. Qed.

Lemma tfind3F_empty t : tfind3F t (PM.empty _) = None.
Proof. apply nfindF_empty. Qed.

(* ------------------------------------------------------------------ *)
(* state relation                                                       *)
Definition R3 (s : st3) (f : fstate3) : Prop :=
  nodes3 s = rev (rnodes3 f) /\ rsize3 f = size (nodes3 s) /\
  (forall n, nfindF n (fexisting3 f) = nfind n (existing3 s)) /\
  (forall t, tfind3F t (ffinished3 f) = tfind3 t (finished3 s)) /\
  fnonempty3 f = nonempty3 s.

Definition sim3 (r : option (N * st3)) (r' : option (N * fstate3)) : Prop :=
  match r, r' with
  | None, None => True
  | Some (p, s), Some (p', s') => p = p' /\ R3 s s'
  | _, _ => False
  end.

Lemma R3_set_ne s f b : R3 s f -> R3 (set_ne3 s b) (set_neF3 f b).
Proof.
  intros (H1 & H2 & H3 & H4 & H5). unfold R3, set_ne3, set_neF3; cbn.
  repeat split; try assumption. now rewrite H5.
Qed.

Lemma R3_memo s f t p : R3 s f -> R3 (memo3 s t p) (memoF3 f t p).
Proof.
  intros (H1 & H2 & H3 & H4 & H5). unfold R3, memo3, memoF3;
    cbn [nodes3 existing3 finished3 nonempty3 rnodes3 rsize3 fexisting3 ffinished3 fnonempty3].
  repeat split; try assumption.
  intros t'. rewrite tfind3F_add. cbn [tfind3]. destruct (task3_eqb t' t); [reflexivity|apply H4].
Qed.

Lemma mk3_sim s f d lo hi : R3 s f ->
  fst (mk3 s d lo hi) = fst (mkF3_node f d lo hi) /\ R3 (snd (mk3 s d lo hi)) (snd (mkF3_node f d lo hi)).
Proof.
  intros HR. unfold mk3, mkF3_node. destruct (lo =? hi); [split; [reflexivity|exact HR]|].
  pose proof HR as (H1 & H2 & H3 & H4 & H5). rewrite H3.
  destruct (nfind (mkNode d lo hi) (existing3 s)) as [p|]; [split; [reflexivity|exact HR]|].
  unfold push3, pushF3; cbn [fst snd]. split; [now rewrite H2|].
  unfold R3; cbn [nodes3 existing3 finished3 nonempty3 rnodes3 rsize3 fexisting3 ffinished3 fnonempty3].
  repeat split; try assumption.
  - cbn [rev]. now rewrite H1.
  - rewrite H2. unfold size. rewrite app_length. cbn [length]. lia.
  - intros n. rewrite nfindF_add. cbn [nfind]. rewrite H2.
    destruct (node_eqb n (mkNode d lo hi)); [reflexivity|apply H3].
Qed.

Section Sim3.
  Variables (A B C : bdd) (MA MB MC : arr) (fa fb fc fo : option N) (op : op3).
  Hypothesis HA : forall p, aget MA p = get A p.
  Hypothesis HB : forall p, aget MB p = get B p.
  Hypothesis HC : forall p, aget MC p = get C p.

  Lemma level3F_eq t : level3F MA MB MC t = level3 A B C t.
  Proof. unfold level3F, level3, var_of. now rewrite HA, HB, HC. Qed.
  Lemma kidsF_eq G M fl p dv : (forall q, aget M q = get G q) -> kidsF M fl p dv = kids G fl p dv.
  Proof. intros H. unfold kidsF, kids. now rewrite H. Qed.
  Lemma t_lo3F_eq t : t_lo3F MA MB MC fa fb fc t = t_lo3 A B C fa fb fc t.
  Proof. unfold t_lo3F, t_lo3. now rewrite level3F_eq, (kidsF_eq A MA), (kidsF_eq B MB), (kidsF_eq C MC). Qed.
  Lemma t_hi3F_eq t : t_hi3F MA MB MC fa fb fc t = t_hi3 A B C fa fb fc t.
  Proof. unfold t_hi3F, t_hi3. now rewrite level3F_eq, (kidsF_eq A MA), (kidsF_eq B MB), (kidsF_eq C MC). Qed.

  Lemma ensure3_sim proc procF t s f :
    (forall t s f, R3 s f -> sim3 (proc t s) (procF t f)) ->
    R3 s f -> sim3 (ensure_with3 op proc t s) (ensure_with3F op procF t f).
  Proof.
    intros Hp HR. unfold ensure_with3, ensure_with3F.
    destruct (op (as_bool (t3a t)) (as_bool (t3b t)) (as_bool (t3c t))) as [c|]; [cbn; auto|].
    pose proof HR as (_ & _ & _ & H4 & _). rewrite H4.
    destruct (tfind3 t (finished3 s)) as [p|]; [cbn; auto|]. now apply Hp.
  Qed.

  Lemma process3_sim : forall fuel t s f, R3 s f ->
    sim3 (process3 A B C fa fb fc fo op fuel t s) (process3F MA MB MC fa fb fc fo op fuel t f).
  Proof.
    induction fuel as [|k IH]; intros t s f HR; [exact I|].
    cbn [process3 process3F]. rewrite level3F_eq, t_lo3F_eq, t_hi3F_eq.
    set (dv := level3 A B C t). set (tl := t_lo3 A B C fa fb fc t). set (th := t_hi3 A B C fa fb fc t).
    assert (Hstep : forall ta tb (g : N -> N -> N * N),
      sim3 (match ensure_with3 op (process3 A B C fa fb fc fo op k) ta s with None => None | Some (p1, s1) =>
            match ensure_with3 op (process3 A B C fa fb fc fo op k) tb s1 with None => None | Some (p2, s2) =>
              let '(plo, phi) := g p1 p2 in
              let s3 := set_ne3 s2 ((plo =? 1) || (phi =? 1)) in
              let '(p, s4) := mk3 s3 dv (fst (g phi plo)) (snd (g phi plo)) in Some (p, memo3 s4 t p) end end)
           (match ensure_with3F op (process3F MA MB MC fa fb fc fo op k) ta f with None => None | Some (p1, s1) =>
            match ensure_with3F op (process3F MA MB MC fa fb fc fo op k) tb s1 with None => None | Some (p2, s2) =>
              let '(plo, phi) := g p1 p2 in
              let s3 := set_neF3 s2 ((plo =? 1) || (phi =? 1)) in
              let '(p, s4) := mkF3_node s3 dv (fst (g phi plo)) (snd (g phi plo)) in Some (p, memoF3 s4 t p) end end)).
    { intros ta tb g.
      pose proof (ensure3_sim _ _ ta s f IH HR) as S1.
      destruct (ensure_with3 op (process3 A B C fa fb fc fo op k) ta s) as [[p1 s1]|],
               (ensure_with3F op (process3F MA MB MC fa fb fc fo op k) ta f) as [[p1' f1]|]; cbn in S1; try contradiction; [|exact I].
      destruct S1 as (<- & R1).
      pose proof (ensure3_sim _ _ tb s1 f1 IH R1) as S2.
      destruct (ensure_with3 op (process3 A B C fa fb fc fo op k) tb s1) as [[p2 s2]|],
               (ensure_with3F op (process3F MA MB MC fa fb fc fo op k) tb f1) as [[p2' f2]|]; cbn in S2; try contradiction; [|exact I].
      destruct S2 as (<- & R2).
      destruct (g p1 p2) as [plo phi]. cbv zeta.
      pose proof (mk3_sim _ _ dv (fst (g phi plo)) (snd (g phi plo)) (R3_set_ne s2 f2 ((plo =? 1) || (phi =? 1)) R2)) as (E & R4).
      destruct (mk3 (set_ne3 s2 ((plo =? 1) || (phi =? 1))) dv (fst (g phi plo)) (snd (g phi plo))) as [p s4].
      destruct (mkF3_node (set_neF3 f2 ((plo =? 1) || (phi =? 1))) dv (fst (g phi plo)) (snd (g phi plo))) as [p' f4].
      cbn [fst snd] in E, R4. subst p'. cbn. split; [reflexivity|]. now apply R3_memo. }
    destruct (oeq fo dv).
    - exact (Hstep tl th (fun a b => (a, b))).
    - exact (Hstep th tl (fun a b => (b, a))).
  Qed.
End Sim3.

Lemma R3_s0 zero one : R3 (mkSt3 [zero; one] [(zero, 0); (one, 1)] [] false) (s0F3 zero one).
Proof.
  unfold R3, s0F3; cbn [nodes3 existing3 finished3 nonempty3 rnodes3 rsize3 fexisting3 ffinished3 fnonempty3].
  repeat split.
  - intros n. rewrite !nfindF_add, nfindF_empty. reflexivity.
  - intros t. now rewrite tfind3F_empty.
Qed.

Theorem apply3_fast_eq : forall A B C fa fb fc fo op,
  apply3_fast A B C fa fb fc fo op = apply3 A B C fa fb fc fo op.
Proof.
  intros A B C fa fb fc fo op. unfold apply3_fast, apply3.
  destruct (load_get A) as (SA & GA). destruct (load_get B) as (SB & GB). destruct (load_get C) as (SC & GC).
  destruct (load A 0 (PM.empty node)) as [sa MA]. destruct (load B 0 (PM.empty node)) as [sb MB].
  destruct (load C 0 (PM.empty node)) as [sc MC].
  cbn [fst snd] in SA, GA, SB, GB, SC, GC. subst sa sb sc.
  rewrite GA. change (nvar (get A 0)) with (nvars A).
  pose proof (process3_sim A B C MA MB MC fa fb fc fo op GA GB GC (S (S (N.to_nat (nvars A)))) (root3 A B C) (s03 A)
                (s0F3 (zero3 A) (one3 A)) (R3_s0 (zero3 A) (one3 A))) as HS.
  unfold root3 in *. fold (zero3 A). fold (one3 A).
  destruct (process3 A B C fa fb fc fo op (S (S (N.to_nat (nvars A)))) (size A - 1, size B - 1, size C - 1) (s03 A)) as [[p s]|],
           (process3F MA MB MC fa fb fc fo op (S (S (N.to_nat (nvars A)))) (size A - 1, size B - 1, size C - 1) (s0F3 (zero3 A) (one3 A))) as [[p' f]|];
    cbn in HS; try contradiction; [|reflexivity].
  destruct HS as (_ & (H1 & _ & _ & _ & H5)). rewrite H5, H1, rev_append_rev, app_nil_r. reflexivity.
Qed.

Corollary fused_ternary_flip_op_faithful_fast_eq : forall A B C fa fb fc fo op,
  fused_ternary_flip_op_faithful_fast A B C fa fb fc fo op = fused_ternary_flip_op_faithful A B C fa fb fc fo op.
Proof. intros. unfold fused_ternary_flip_op_faithful_fast, fused_ternary_flip_op_faithful. now rewrite apply3_fast_eq. Qed.

Corollary ternary_op_faithful_fast_eq : forall A B C op, ternary_op_faithful_fast A B C op = ternary_op_faithful A B C op.
Proof. intros. apply fused_ternary_flip_op_faithful_fast_eq. Qed.

Corollary if_then_else_faithful_fast_eq : forall A B C, if_then_else_faithful_fast A B C = if_then_else_faithful A B C.
Proof. intros. apply ternary_op_faithful_fast_eq. Qed.

(* ---- transferred statements ---- *)
Theorem fused_ternary_flip_op_faithful_fast_correct : forall A B C fa fb fc fo op,
  wf A -> wf B -> wf C -> nvars A = nvars B -> nvars B = nvars C ->
  (flip_ok (nvars A) fa && flip_ok (nvars A) fb && flip_ok (nvars A) fc && flip_ok (nvars A) fo = true) ->
  total3 op -> consistent3 op ->
  exists r, fused_ternary_flip_op_faithful_fast A B C fa fb fc fo op = Ok r /\ Canonical r /\ nvars r = nvars A /\
    forall v, eval r v = conn3 op (eval A (oflip fa (oflip fo v))) (eval B (oflip fb (oflip fo v)))
                                  (eval C (oflip fc (oflip fo v))).
Proof. intros A B C fa fb fc fo op. rewrite fused_ternary_flip_op_faithful_fast_eq. apply fused_ternary_flip_op_faithful_correct. Qed.

(* the fast faithful engine equals the compositional model of Model/Ops.v *)
Theorem ternary_faithful_fast_eq_model : forall A B C fa fb fc fo op,
  wf A -> wf B -> wf C -> total3 op -> consistent3 op ->
  fused_ternary_flip_op_faithful_fast A B C fa fb fc fo op = fused_ternary_flip_op A B C fa fb fc fo op.
Proof. intros A B C fa fb fc fo op. rewrite fused_ternary_flip_op_faithful_fast_eq. apply ternary_faithful_eq. Qed.

Example apply3_fast_example :
  let A := [mkNode 3 0 0; mkNode 3 1 1; mkNode 2 0 1; mkNode 0 0 2] in
  let B := [mkNode 3 0 0; mkNode 3 1 1; mkNode 2 0 1; mkNode 1 1 2; mkNode 0 2 3] in
  let C := [mkNode 3 0 0; mkNode 3 1 1; mkNode 1 1 0] in
  fused_ternary_flip_op_faithful_fast A B C (Some 0) None (Some 1) (Some 2) ite_function
    = fused_ternary_flip_op_faithful A B C (Some 0) None (Some 1) (Some 2) ite_function /\
  exists r, if_then_else_faithful_fast A B C = Ok r /\ 3 <= size r.
Proof. vm_compute. split; [reflexivity|]. eexists; split; [reflexivity|]. discriminate. Qed.

Print Assumptions apply3_fast_eq.
Print Assumptions fused_ternary_flip_op_faithful_fast_eq.
Print Assumptions if_then_else_faithful_fast_eq.
Print Assumptions ternary_faithful_fast_eq_model.
