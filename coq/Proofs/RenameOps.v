(* Proofs/RenameOps.v — rename_variables, rename_variable, set_num_vars and transfer_from either refuse or return
   the relabelled diagram of Proofs/RenameSem.v (C17). *)
From Coq Require Import List PeanoNat NArith Lia Bool.
Import ListNotations.
From BddVerif Require Import Model.Bdd Model.Apply Model.Ops Model.Rename Proofs.Sem Proofs.Canon Proofs.RenameSem.
Open Scope N_scope.

(* ======================================================================================== *)
(* sorted lists, the sorted support                                                          *)

Fixpoint ssorted (l : list N) : Prop :=
  match l with [] => True | x :: r => (forall y, In y r -> x < y) /\ ssorted r end.

Lemma strictly_increasing_iff l : strictly_increasing l = true <-> ssorted l.
Proof.
  induction l as [|x l IH]; [cbn; tauto|]. destruct l as [|y r].
  - cbn. split; [intros _; split; [intros y []|exact I] | reflexivity].
  - change (strictly_increasing (x :: y :: r)) with ((x <? y) && strictly_increasing (y :: r)).
    rewrite andb_true_iff, N.ltb_lt, IH. split.
    + intros (Hxy & Hs). split; [|exact Hs]. intros z [<-|Hz]; [exact Hxy|].
      destruct Hs as (Hy & _). specialize (Hy z Hz). lia.
    + intros (Hx & Hs). split; [apply Hx; now left | exact Hs].
Qed.

Lemma insert_uniq_in x l y : In y (insert_uniq x l) <-> y = x \/ In y l.
Proof.
  induction l as [|z l IH]; cbn [insert_uniq].
  - cbn. intuition.
  - destruct (N.ltb_spec x z); [cbn; intuition|]. destruct (N.eqb_spec x z) as [->|].
    + cbn. intuition.
    + cbn [In]. rewrite IH. intuition.
Qed.

Lemma insert_uniq_sorted x l : ssorted l -> ssorted (insert_uniq x l).
Proof.
  induction l as [|z l IH]; intros Hs; cbn [insert_uniq].
  - split; [intros y []|exact I].
  - destruct Hs as (Hz & Hs). destruct (N.ltb_spec x z) as [Hlt|Hge].
    + split; [|split; assumption]. intros y [<-|Hy]; [exact Hlt|]. specialize (Hz y Hy). lia.
    + destruct (N.eqb_spec x z) as [->|Hne]; [split; assumption|].
      split; [|now apply IH]. intros y Hy. apply insert_uniq_in in Hy. destruct Hy as [->|Hy]; [lia|now apply Hz].
Qed.

Lemma support_sorted_in b x : In x (support_sorted b) <-> in_support b x.
Proof.
  unfold support_sorted, in_support. induction (support b) as [|y l IH]; cbn [fold_right]; [tauto|].
  rewrite insert_uniq_in, IH. cbn. intuition.
Qed.

Lemma support_sorted_sorted b : ssorted (support_sorted b).
Proof.
  unfold support_sorted. induction (support b) as [|y l IH]; cbn [fold_right]; [exact I|]. now apply insert_uniq_sorted.
Qed.

Lemma sorted_map_mono l f : ssorted l -> ssorted (map f l) ->
  forall x y, In x l -> In y l -> x < y -> f x < f y.
Proof.
  induction l as [|a l IH]; intros Hs Hm x y Hx Hy Hlt; [destruct Hx|].
  destruct Hs as (Ha & Hs). cbn [map] in Hm. destruct Hm as (Hfa & Hm).
  destruct Hx as [<-|Hx], Hy as [<-|Hy].
  - lia.
  - apply Hfa. now apply in_map.
  - specialize (Ha x Hx). lia.
  - now apply IH.
Qed.

Lemma mem_iff x l : mem x l = true <-> In x l.
Proof.
  unfold mem. rewrite existsb_exists. split.
  - intros (y & Hy & E). apply N.eqb_eq in E. now subst.
  - intros H. exists x. split; [exact H|apply N.eqb_refl].
Qed.

Lemma support_lt b x : wf b -> in_support b x -> x < nvars b.
Proof.
  intros W H. apply in_support_inv in H. destruct H as (p & H2 & Hp & <-).
  destruct (wf_children b p W H2 Hp) as (_ & _ & _ & _ & H). exact H.
Qed.

Lemma wf_terminals z o rest : wf (z :: o :: rest) ->
  z = mkNode (nvars (z :: o :: rest)) 0 0 /\ o = mkNode (nvars (z :: o :: rest)) 1 1.
Proof.
  intros (Hs & H0 & H1 & _). split; [exact H0|]. apply H1. unfold size. cbn [length]. lia.
Qed.
Lemma wf_terminal0 z : wf [z] -> z = mkNode (nvars [z]) 0 0.
Proof. intros (_ & H0 & _). exact H0. Qed.

(* under wf the two terminals already carry the variable count *)
Lemma relabel_same_count f b : wf b ->
  relabel f (nvars b) b = firstn 2 b ++ map (fun nd => set_var nd (f (nvar nd))) (skipn 2 b).
Proof.
  intros W. pose proof (size_pos b W) as Hs. unfold relabel. f_equal.
  destruct b as [|z [|o rest]]; unfold size in *; cbn [length] in *; try lia.
  - cbn [firstn map]. pose proof (wf_terminal0 z W) as Ez. remember (nvars [z]) as nv. rewrite Ez. reflexivity.
  - cbn [firstn map]. destruct (wf_terminals z o rest W) as (Ez & Eo).
    remember (nvars (z :: o :: rest)) as nv. rewrite Ez, Eo. reflexivity.
Qed.

Lemma rn_canonical_mk_false nv : Canonical (mk_false nv).
Proof.
  split; [|split].
  - unfold wf, mk_false, size. cbn [length]. split; [lia|]. split; [reflexivity|]. split; [intros; lia|intros; lia].
  - split; unfold mk_false, size; cbn [length]; intros; lia.
  - left. reflexivity.
Qed.
Lemma rn_canonical_mk_true nv : Canonical (mk_true nv).
Proof.
  split; [|split].
  - unfold wf, mk_true, size. cbn [length]. split; [lia|]. split; [reflexivity|]. split; [reflexivity|intros; lia].
  - split; unfold mk_true, size; cbn [length]; intros; lia.
  - right. reflexivity.
Qed.

Lemma eval_ext b v w : wf b -> (forall x, v x = w x) -> eval b v = eval b w.
Proof.
  intros W H. unfold eval. pose proof (size_pos b W). apply sem_agree'; [exact W|split; lia|]. intros x _. apply H.
Qed.

(* ======================================================================================== *)
(* rename_variables                                                                           *)

Lemma rename_variables_relabel b m r : wf b -> rename_variables b m = Ok r ->
  r = relabel (apply_map m) (nvars b) b /\ mono_on b (apply_map m) /\ (forall x, in_support b x -> apply_map m x < nvars b).
Proof.
  intros W. unfold rename_variables. destruct (support_sorted b) as [|c cur] eqn:Es.
  - intros H. inversion H; subst r. clear H.
    assert (Hno : forall x, ~ in_support b x).
    { intros x Hx. apply support_sorted_in in Hx. rewrite Es in Hx. destruct Hx. }
    split; [|split].
    + rewrite relabel_same_count by exact W.
      assert (Hsk : skipn 2 b = []).
      { destruct (skipn 2 b) as [|nd l] eqn:E; [reflexivity|]. exfalso. apply (Hno (nvar nd)).
        unfold in_support, support. rewrite E. now left. }
      rewrite Hsk. cbn [map]. rewrite <- (firstn_skipn 2 b) at 1. rewrite Hsk. reflexivity.
    + intros x y Hx. exfalso. exact (Hno x Hx).
    + intros x Hx. exfalso. exact (Hno x Hx).
  - set (old := c :: cur) in *.
    destruct (forallb (fun y => y <? nvars b) (map (apply_map m) old)) eqn:Er; cbn [negb]; [|discriminate].
    destruct (strictly_increasing (map (apply_map m) old)) eqn:Ei; cbn [negb]; [|discriminate].
    intros H. inversion H; subst r. clear H.
    apply strictly_increasing_iff in Ei. rewrite forallb_forall in Er.
    pose proof (support_sorted_sorted b) as Hs. rewrite Es in Hs. fold old in Hs.
    assert (Hin : forall x, in_support b x <-> In x old) by (intros x; rewrite <- support_sorted_in, Es; reflexivity).
    split; [|split].
    + rewrite relabel_same_count by exact W. f_equal. apply map_ext. intros nd. unfold apply_map.
      destruct (map_get m (nvar nd)); [reflexivity|]. symmetry. apply set_var_same.
    + intros x y Hx Hy Hlt. apply Hin in Hx. apply Hin in Hy. exact (sorted_map_mono old (apply_map m) Hs Ei x y Hx Hy Hlt).
    + intros x Hx. apply Hin in Hx. apply N.ltb_lt. apply Er. now apply in_map.
Qed.

(* the outcome is a refusal or a valid diagram over the same variable count denoting the renamed function *)
Theorem rename_variables_ok_or_panic b m : wf b ->
  rename_variables b m = Panic \/
  exists r, rename_variables b m = Ok r /\ wf r /\ nvars r = nvars b /\
    (forall v, eval r v = eval b (fun x => v (apply_map m x))) /\
    (reduced b -> reduced r) /\ (Canonical b -> Canonical r).
Proof.
  intros W. destruct (rename_variables b m) as [r| |] eqn:E.
  - right. exists r. split; [reflexivity|].
    destruct (rename_variables_relabel b m r W E) as (-> & M & R).
    split; [now apply relabel_wf|]. split; [now apply nvars_relabel|].
    split; [intros v; now apply relabel_sem|]. split; [now apply relabel_reduced | now apply relabel_canonical].
  - now left.
  - exfalso. unfold rename_variables in E. destruct (support_sorted b); [discriminate|].
    destruct (negb _); [discriminate|]. destruct (negb _); discriminate.
Qed.
Print Assumptions rename_variables_ok_or_panic.

(* exactly which maps are refused *)
Theorem rename_variables_panic_iff b m : wf b ->
  (rename_variables b m = Panic <->
   (exists x, in_support b x /\ nvars b <= apply_map m x) \/
   (exists x y, in_support b x /\ in_support b y /\ x < y /\ apply_map m y <= apply_map m x)).
Proof.
  intros W. split.
  - intros E. unfold rename_variables in E. destruct (support_sorted b) as [|c cur] eqn:Es; [discriminate|].
    set (old := c :: cur) in *.
    assert (Hin : forall x, in_support b x <-> In x old) by (intros x; rewrite <- support_sorted_in, Es; reflexivity).
    destruct (forallb (fun y => y <? nvars b) (map (apply_map m) old)) eqn:Er; cbn [negb] in E.
    + destruct (strictly_increasing (map (apply_map m) old)) eqn:Ei; cbn [negb] in E; [discriminate|].
      right. pose proof (support_sorted_sorted b) as Hs. rewrite Es in Hs. fold old in Hs.
      assert (Hin' : forall x, In x old -> in_support b x) by (intros x; apply Hin).
      clear E Er Hin Es. clearbody old. induction old as [|a l IH]; [discriminate|].
      destruct l as [|a' l'].
      * discriminate.
      * change (strictly_increasing (map (apply_map m) (a :: a' :: l'))) with
          ((apply_map m a <? apply_map m a') && strictly_increasing (map (apply_map m) (a' :: l'))) in Ei.
        destruct Hs as (Ha & Hs). destruct (N.ltb_spec (apply_map m a) (apply_map m a')) as [Hlt|Hge].
        -- cbn [andb] in Ei. apply IH; [exact Ei|exact Hs|]. intros x Hx. apply Hin'. now right.
        -- exists a, a'. split; [apply Hin'; now left|]. split; [apply Hin'; right; now left|].
           split; [apply Ha; now left|exact Hge].
    + left. apply not_true_iff_false in Er. rewrite forallb_forall in Er.
      destruct (existsb (fun y => negb (y <? nvars b)) (map (apply_map m) old)) eqn:Ex.
      * apply existsb_exists in Ex. destruct Ex as (y & Hy & Hn). apply in_map_iff in Hy. destruct Hy as (x & <- & Hx).
        exists x. split; [now apply Hin|]. apply negb_true_iff, N.ltb_ge in Hn. exact Hn.
      * exfalso. apply Er. intros y Hy. destruct (y <? nvars b) eqn:El; [reflexivity|].
        assert (existsb (fun y => negb (y <? nvars b)) (map (apply_map m) old) = true); [|congruence].
        apply existsb_exists. exists y. split; [exact Hy|]. now rewrite El.
  - intros H. destruct (rename_variables_ok_or_panic b m W) as [E|(r & E & _)]; [exact E|]. exfalso.
    destruct (rename_variables_relabel b m r W E) as (_ & M & R). destruct H as [(x & Hx & Hge)|(x & y & Hx & Hy & Hlt & Hge)].
    + specialize (R x Hx). lia.
    + specialize (M x y Hx Hy Hlt). lia.
Qed.
Print Assumptions rename_variables_panic_iff.

(* ======================================================================================== *)
(* rename_variable                                                                            *)

Definition swap1 (old new x : N) : N := if x =? old then new else x.

Lemma between_false sup lo hi : between_in_support sup lo hi = false ->
  forall x, In x sup -> lo < x -> x < hi -> False.
Proof.
  unfold between_in_support. intros H x Hx Hlo Hhi.
  assert (existsb (fun i => mem (N.of_nat i) sup) (seq (S (N.to_nat lo)) (N.to_nat hi - S (N.to_nat lo))) = true); [|congruence].
  apply existsb_exists. exists (N.to_nat x). split.
  - apply in_seq. lia.
  - rewrite Nnat.N2Nat.id. now apply mem_iff.
Qed.

Lemma rename_variable_relabel b old new r : wf b -> rename_variable b old new = Ok r ->
  r = relabel (swap1 old new) (nvars b) b /\ mono_on b (swap1 old new) /\
  (forall x, in_support b x -> swap1 old new x < nvars b).
Proof.
  intros W. unfold rename_variable.
  destruct (N.ltb_spec old (nvars b)) as [Ho|]; cbn [negb]; [|discriminate].
  destruct (N.ltb_spec new (nvars b)) as [Hn|]; cbn [negb]; [|discriminate].
  assert (Hterm : forall g, (forall nd, nvar nd <> nvars b -> g nd = set_var nd (swap1 old new (nvar nd))) ->
            (forall nd, nvar nd = nvars b -> g nd = nd) -> map g b = relabel (swap1 old new) (nvars b) b).
  { intros g Hg Ht. rewrite relabel_same_count by exact W. rewrite <- (firstn_skipn 2 b) at 1. rewrite map_app. f_equal.
    - pose proof (size_pos b W) as Hs.
      destruct b as [|z [|o rest]]; unfold size in *; cbn [length] in *; try lia.
      + cbn [firstn map]. pose proof (wf_terminal0 z W) as Ez. remember (nvars [z]) as nv.
        rewrite Ht; [rewrite Ez; reflexivity|]. rewrite Ez. reflexivity.
      + cbn [firstn map]. destruct (wf_terminals z o rest W) as (Ez & Eo). remember (nvars (z :: o :: rest)) as nv.
        rewrite !Ht; [rewrite Ez, Eo; reflexivity| rewrite Eo; reflexivity | rewrite Ez; reflexivity].
    - apply map_ext_in. intros nd Hin. apply Hg.
      assert (in_support b (nvar nd)) by (unfold in_support, support; now apply in_map).
      pose proof (support_lt b _ W H). lia. }
  destruct (N.eqb_spec old new) as [->|Hne].
  - intros H. inversion H; subst r. clear H. split; [|split].
    + rewrite <- (map_id b) at 1. apply Hterm.
      * intros nd _. unfold swap1. destruct (nvar nd =? new) eqn:E; [apply N.eqb_eq in E; rewrite <- E|]; symmetry; apply set_var_same.
      * reflexivity.
    + intros x y _ _ Hlt. unfold swap1. destruct (N.eqb_spec x new), (N.eqb_spec y new); subst; lia.
    + intros x Hx. unfold swap1. destruct (N.eqb_spec x new); [exact Hn|now apply support_lt].
  - destruct (between_in_support (support b) (N.min old new) (N.max old new)) eqn:Eb; [discriminate|].
    destruct (mem new (support b)) eqn:Em; [discriminate|].
    intros H. inversion H; subst r. clear H.
    assert (Hnew : ~ in_support b new) by (intros Hx; apply mem_iff in Hx; congruence).
    pose proof (between_false _ _ _ Eb) as Hbt.
    split; [|split].
    + apply Hterm.
      * intros nd _. unfold swap1. destruct (nvar nd =? old); [reflexivity|]. symmetry. apply set_var_same.
      * intros nd E. destruct (N.eqb_spec (nvar nd) old); [lia|reflexivity].
    + intros x y Hx Hy Hlt. unfold swap1.
      destruct (N.eqb_spec x old) as [->|Hxo], (N.eqb_spec y old) as [->|Hyo]; try lia.
      * (* x = old: new < y *)
        destruct (N.lt_trichotomy y new) as [Hc|[->|Hc]]; [|contradiction|exact Hc].
        exfalso. apply (Hbt y Hy); lia.
      * (* y = old: x < new *)
        destruct (N.lt_trichotomy x new) as [Hc|[->|Hc]]; [exact Hc|contradiction|].
        exfalso. apply (Hbt x Hx); lia.
    + intros x Hx. unfold swap1. destruct (N.eqb_spec x old); [exact Hn|now apply support_lt].
Qed.

Theorem rename_variable_ok_or_panic b old new : wf b ->
  rename_variable b old new = Panic \/
  exists r, rename_variable b old new = Ok r /\ wf r /\ nvars r = nvars b /\
    (forall v, eval r v = eval b (fun x => if x =? old then v new else v x)) /\
    (reduced b -> reduced r) /\ (Canonical b -> Canonical r).
Proof.
  intros W. destruct (rename_variable b old new) as [r| |] eqn:E.
  - right. exists r. split; [reflexivity|].
    destruct (rename_variable_relabel b old new r W E) as (-> & M & R).
    split; [now apply relabel_wf|]. split; [now apply nvars_relabel|]. split.
    + intros v. rewrite (relabel_sem b _ _ W M R). apply eval_ext; [exact W|].
      intros x. unfold swap1. destruct (x =? old); reflexivity.
    + split; [now apply relabel_reduced | now apply relabel_canonical].
  - now left.
  - exfalso. unfold rename_variable in E.
    repeat (match type of E with (if ?c then _ else _) = _ => destruct c end; try discriminate).
Qed.
Print Assumptions rename_variable_ok_or_panic.

(* ======================================================================================== *)
(* set_num_vars                                                                               *)

Lemma set_num_vars_relabel b n r : wf b -> set_num_vars b n = Ok r ->
  r = relabel (fun x => x) n b /\ (forall x, in_support b x -> x < n).
Proof.
  intros W. unfold set_num_vars. destruct (existsb (fun nd => n <=? nvar nd) (skipn 2 b)) eqn:Ex; [discriminate|].
  assert (R : forall x, in_support b x -> x < n).
  { intros x Hx. unfold in_support, support in Hx. apply in_map_iff in Hx. destruct Hx as (nd & <- & Hin).
    destruct (N.ltb_spec (nvar nd) n) as [|Hge]; [assumption|]. exfalso.
    assert (existsb (fun nd => n <=? nvar nd) (skipn 2 b) = true); [|congruence].
    apply existsb_exists. exists nd. split; [exact Hin|now apply N.leb_le]. }
  assert (Hid : forall l : list node, map (fun nd => set_var nd (nvar nd)) l = l).
  { intros l. rewrite <- (map_id l) at 2. apply map_ext. intros nd. apply set_var_same. }
  destruct b as [|z [|o rest]].
  - discriminate.
  - intros H. inversion H. split; [reflexivity|exact R].
  - intros H. inversion H. split; [|exact R]. unfold relabel. cbn [firstn skipn map app]. now rewrite Hid.
Qed.

Theorem set_num_vars_ok_or_panic b n : wf b ->
  set_num_vars b n = Panic \/
  exists r, set_num_vars b n = Ok r /\ wf r /\ nvars r = n /\ (forall v, eval r v = eval b v) /\
    (reduced b -> reduced r) /\ (Canonical b -> Canonical r).
Proof.
  intros W. destruct (set_num_vars b n) as [r| |] eqn:E.
  - right. exists r. split; [reflexivity|].
    destruct (set_num_vars_relabel b n r W E) as (-> & R).
    assert (M : mono_on b (fun x => x)) by (intros x y _ _ H; exact H).
    split; [now apply relabel_wf|]. split; [now apply nvars_relabel|].
    split; [intros v; now rewrite (relabel_sem b _ _ W M R)|].
    split; [now apply relabel_reduced | now apply relabel_canonical].
  - now left.
  - exfalso. unfold set_num_vars in E. destruct (existsb _ _); [discriminate|]. destruct b as [|z [|o rest]]; discriminate.
Qed.
Print Assumptions set_num_vars_ok_or_panic.

(* it refuses exactly the counts that do not cover the support *)
Theorem set_num_vars_panic_iff b n : wf b ->
  (set_num_vars b n = Panic <-> exists x, in_support b x /\ n <= x).
Proof.
  intros W. split.
  - intros E. unfold set_num_vars in E. destruct (existsb (fun nd => n <=? nvar nd) (skipn 2 b)) eqn:Ex.
    + apply existsb_exists in Ex. destruct Ex as (nd & Hin & Hle). exists (nvar nd). split; [|now apply N.leb_le].
      unfold in_support, support. now apply in_map.
    + pose proof (size_pos b W) as Hs. destruct b as [|z [|o rest]]; try discriminate. unfold size in Hs. cbn in Hs. lia.
  - intros (x & Hx & Hle). destruct (set_num_vars_ok_or_panic b n W) as [E|(r & E & _)]; [exact E|].
    destruct (set_num_vars_relabel b n r W E) as (_ & R). specialize (R x Hx). lia.
Qed.
Print Assumptions set_num_vars_panic_iff.

(* ======================================================================================== *)
(* transfer_from                                                                              *)

(* the name-induced mapping: variable x of the source set |-> the variable of the target set with the same name *)
Definition name_map (target source : list vname) (x : N) : option N :=
  match nth_error source (N.to_nat x) with
  | Some nm => tr_var_by_name target nm
  | None => None
  end.
Definition name_fn (target source : list vname) (x : N) : N :=
  match name_map target source x with Some y => y | None => 0 end.

Lemma name_eqb_eq a : forall b, vname_eqb a b = true <-> a = b.
Proof.
  induction a as [|x a IH]; intros [|y b]; cbn [vname_eqb]; try (split; [discriminate|discriminate]); [split; reflexivity|].
  rewrite andb_true_iff, N.eqb_eq, IH. split; [intros (-> & ->); reflexivity | intros H; inversion H; auto].
Qed.

Lemma tr_index_from_spec names : forall i nm y, tr_index_from i nm names = Some y ->
  i <= y /\ y < i + N.of_nat (length names) /\ nth_error names (N.to_nat (y - i)) = Some nm.
Proof.
  induction names as [|n r IH]; intros i nm y H; cbn [tr_index_from] in H; [discriminate|].
  destruct (vname_eqb n nm) eqn:E.
  - inversion H; subst y. apply name_eqb_eq in E. subst n. cbn [length]. split; [lia|]. split; [lia|].
    rewrite N.sub_diag. reflexivity.
  - apply IH in H. destruct H as (H1 & H2 & H3). cbn [length]. split; [lia|]. split; [lia|].
    replace (N.to_nat (y - i)) with (S (N.to_nat (y - (i + 1)))) by lia. exact H3.
Qed.

(* the mapping really is by name: the target variable exists and carries the source variable's name *)
Theorem name_map_spec target source x y : name_map target source x = Some y ->
  y < N.of_nat (length target) /\ exists nm, nth_error source (N.to_nat x) = Some nm /\ nth_error target (N.to_nat y) = Some nm.
Proof.
  unfold name_map, tr_var_by_name. destruct (nth_error source (N.to_nat x)) as [nm|]; [|discriminate].
  intros H. apply tr_index_from_spec in H. destruct H as (_ & H2 & H3). rewrite N.sub_0_r in H3.
  split; [lia|]. exists nm. split; [reflexivity|exact H3].
Qed.

Lemma tr_index_from_none names : forall i nm, tr_index_from i nm names = None -> ~ In nm names.
Proof.
  induction names as [|n r IH]; intros i nm H; cbn [tr_index_from] in H; [intros []|].
  destruct (vname_eqb n nm) eqn:E; [discriminate|]. intros [->|Hin].
  - rewrite (proj2 (name_eqb_eq nm nm) eq_refl) in E. discriminate.
  - exact (IH _ _ H Hin).
Qed.

Theorem name_map_none target source x nm : nth_error source (N.to_nat x) = Some nm ->
  (name_map target source x = None <-> ~ In nm target).
Proof.
  intros E. unfold name_map, tr_var_by_name. rewrite E. split.
  - apply tr_index_from_none.
  - intros Hn. destruct (tr_index_from 0 nm target) as [y|] eqn:Ei; [|reflexivity]. exfalso. apply Hn.
    apply tr_index_from_spec in Ei. destruct Ei as (_ & _ & H3). now apply nth_error_In in H3.
Qed.

Definition by_name (target source : list vname) (x y : N) : Prop := name_map target source x = Some y.

Lemma translate_cases target source old :
  (forall x, In x old -> x < N.of_nat (length source)) ->
  (exists new, translate target source old = Ok (Some new) /\ Forall2 (by_name target source) old new) \/
  (translate target source old = Ok None /\ exists x, In x old /\ name_map target source x = None).
Proof.
  induction old as [|x r IH]; intros Hr; cbn [translate].
  - left. exists []. split; [reflexivity|constructor].
  - assert (Hx : x < N.of_nat (length source)) by (apply Hr; now left).
    destruct (nth_error source (N.to_nat x)) as [nm|] eqn:En.
    2:{ exfalso. apply nth_error_None in En. lia. }
    destruct (tr_var_by_name target nm) as [id|] eqn:Ev.
    + destruct IH as [(new & E & F)|(E & y & Hy & Hn)]; [intros y Hy; apply Hr; now right| |].
      * left. exists (id :: new). rewrite E. split; [reflexivity|]. constructor; [|exact F].
        unfold by_name, name_map. now rewrite En.
      * right. rewrite E. split; [reflexivity|]. exists y. split; [now right|exact Hn].
    + right. split; [reflexivity|]. exists x. split; [now left|]. unfold name_map. now rewrite En.
Qed.

Lemma forall2_get old new (g : N -> option N) : Forall2 (fun x y => g x = Some y) old new ->
  forall x, In x old -> map_get (combine old new) x = g x.
Proof.
  induction 1 as [|a c old new Hac F IH]; intros x Hx; [destruct Hx|].
  cbn [combine map_get]. destruct (N.eqb_spec a x) as [->|Hne]; [now rewrite Hac|].
  destruct Hx as [->|Hx]; [congruence|now apply IH].
Qed.

Lemma forall2_sorted_mono old new (g : N -> option N) : Forall2 (fun x y => g x = Some y) old new ->
  ssorted old -> ssorted new ->
  forall x y fx fy, In x old -> In y old -> x < y -> g x = Some fx -> g y = Some fy -> fx < fy.
Proof.
  induction 1 as [|a c old new Hac F IH]; intros So Sn x y fx fy Hx Hy Hlt Gx Gy; [destruct Hx|].
  destruct So as (Ha & So). destruct Sn as (Hc & Sn).
  assert (Hnew : forall z fz, In z old -> g z = Some fz -> In fz new).
  { clear -F. induction F as [|a c old new Hac F IH]; intros z fz Hz Gz; [destruct Hz|].
    destruct Hz as [->|Hz]; [left; congruence|right; now apply (IH z)]. }
  destruct Hx as [<-|Hx], Hy as [<-|Hy].
  - lia.
  - assert (fx = c) by congruence. subst fx. apply Hc. now apply (Hnew y).
  - specialize (Ha x Hx). lia.
  - now apply (IH So Sn x y).
Qed.

Lemma forall2_mono_sorted old new (g : N -> option N) : Forall2 (fun x y => g x = Some y) old new ->
  ssorted old ->
  (forall x y fx fy, In x old -> In y old -> x < y -> g x = Some fx -> g y = Some fy -> fx < fy) ->
  ssorted new.
Proof.
  induction 1 as [|a c old new Hac F IH]; intros So M; [exact I|].
  destruct So as (Ha & So). split.
  - intros fz Hfz.
    assert (Hex : exists z, In z old /\ g z = Some fz).
    { clear -F Hfz. induction F as [|a c old new Hac F IH]; [destruct Hfz|].
      destruct Hfz as [<-|Hfz]; [exists a; split; [now left|exact Hac]|].
      destruct (IH Hfz) as (z & Hz & Gz). exists z. split; [now right|exact Gz]. }
    destruct Hex as (z & Hz & Gz). apply (M a z c fz); [now left|now right|now apply Ha|exact Hac|exact Gz].
  - apply IH; [exact So|]. intros x y fx fy Hx Hy. apply M; now right.
Qed.

Lemma copy_nodes_ok m l : (forall nd, In nd l -> exists y, map_get m (nvar nd) = Some y) ->
  copy_nodes m l = Ok (map (fun nd => set_var nd (apply_map m (nvar nd))) l).
Proof.
  induction l as [|nd l IH]; intros H; [reflexivity|]. cbn [copy_nodes map].
  destruct (H nd ltac:(now left)) as (y & E). unfold apply_map at 1. rewrite E.
  rewrite IH by (intros nd' Hin; apply H; now right). reflexivity.
Qed.

Lemma size3 b : wf b -> is_false b = false -> is_true b = false -> 3 <= size b.
Proof.
  intros W F T. pose proof (size_pos b W). unfold is_false, is_true in *.
  apply N.eqb_neq in F. apply N.eqb_neq in T. lia.
Qed.

Lemma support_empty_small b : size b <= 2 -> forall x, ~ in_support b x.
Proof.
  intros H x Hx. apply in_support_inv in Hx. destruct Hx as (p & H2 & Hp & _). lia.
Qed.

(* the result of a successful non-constant transfer is the relabelling by the name-induced mapping *)
Lemma transfer_relabel target b source r : wf b -> 3 <= size b ->
  forall new, translate target source (support_sorted b) = Ok (Some new) ->
  Forall2 (by_name target source) (support_sorted b) new -> order_valid new = true ->
  copy_nodes (combine (support_sorted b) new) (skipn 2 b) = Ok r ->
  mk_true (N.of_nat (length target)) ++ r = relabel (name_fn target source) (N.of_nat (length target)) b.
Proof.
  intros W H3 new Et F Ov Ec. set (old := support_sorted b) in *.
  assert (Hg : forall x, in_support b x -> map_get (combine old new) x = name_map target source x).
  { intros x Hx. apply (forall2_get old new (name_map target source) F). now apply support_sorted_in. }
  assert (Hsome : forall x, in_support b x -> exists y, name_map target source x = Some y).
  { intros x Hx. apply support_sorted_in in Hx. fold old in Hx. clear -F Hx.
    induction F as [|a c old new Hac F IH]; [destruct Hx|]. destruct Hx as [->|Hx]; [now exists c|now apply IH]. }
  rewrite copy_nodes_ok in Ec.
  2:{ intros nd Hin. assert (Hs : in_support b (nvar nd)) by (unfold in_support, support; now apply in_map).
      rewrite Hg by exact Hs. now apply Hsome. }
  inversion Ec; subst r. clear Ec. unfold relabel. f_equal.
  - destruct b as [|z [|o rest]]; unfold size in *; cbn [length] in *; try lia.
    cbn [firstn map]. destruct (wf_terminals z o rest W) as (Ez & Eo). remember (nvars (z :: o :: rest)) as nv.
    rewrite Ez, Eo. reflexivity.
  - apply map_ext_in. intros nd Hin.
    assert (Hs : in_support b (nvar nd)) by (unfold in_support, support; now apply in_map).
    unfold apply_map, name_fn. rewrite Hg by exact Hs. destruct (Hsome _ Hs) as (y & ->). reflexivity.
Qed.

Theorem transfer_some_iff target b source : wf b ->
  (forall x, in_support b x -> x < N.of_nat (length source)) ->
  exists o, transfer_from target b source = Ok o /\
    ((exists r, o = Some r) <->
       (forall x, in_support b x -> exists y, name_map target source x = Some y) /\
       (forall x y fx fy, in_support b x -> in_support b y -> x < y ->
          name_map target source x = Some fx -> name_map target source y = Some fy -> fx < fy)).
Proof.
  intros W Hsrc. unfold transfer_from.
  destruct (is_false b) eqn:Ef.
  { eexists; split; [reflexivity|]. split; [|intros _; eauto].
    intros _. apply N.eqb_eq in Ef. split; [intros x Hx | intros x y fx fy Hx]; exfalso; apply (support_empty_small b ltac:(lia) x Hx). }
  destruct (is_true b) eqn:Et.
  { eexists; split; [reflexivity|]. split; [|intros _; eauto].
    intros _. apply N.eqb_eq in Et. split; [intros x Hx | intros x y fx fy Hx]; exfalso; apply (support_empty_small b ltac:(lia) x Hx). }
  pose proof (size3 b W Ef Et) as H3.
  set (old := support_sorted b).
  assert (Hold : forall x, In x old <-> in_support b x) by (intros x; apply support_sorted_in).
  pose proof (support_sorted_sorted b) as So. fold old in So.
  destruct (translate_cases target source old) as [(new & E & F)|(E & x & Hx & Hn)];
    [intros x Hx; apply Hsrc; now apply Hold| |]; rewrite E.
  - destruct (order_valid new) eqn:Ov; cbn [negb].
    + rewrite copy_nodes_ok.
      2:{ intros nd Hin. assert (Hs : in_support b (nvar nd)) by (unfold in_support, support; now apply in_map).
          rewrite (forall2_get old new (name_map target source) F) by (now apply Hold).
          apply Hold in Hs. clear -F Hs. induction F as [|a c old new Hac F IH]; [destruct Hs|].
          destruct Hs as [->|Hs]; [now exists c|now apply IH]. }
      eexists; split; [reflexivity|]. split; [|intros _; eauto]. intros _. split.
      * intros x Hx. apply Hold in Hx. clear -F Hx. induction F as [|a c old new Hac F IH]; [destruct Hx|].
        destruct Hx as [->|Hx]; [now exists c|now apply IH].
      * intros x y fx fy Hx Hy. apply Hold in Hx. apply Hold in Hy.
        assert (Sn : ssorted new) by (now apply strictly_increasing_iff).
        apply (forall2_sorted_mono old new (name_map target source) F So Sn x y fx fy Hx Hy).
    + eexists; split; [reflexivity|]. split; [intros (r & Hr); discriminate|].
      intros (_ & M). exfalso.
      assert (Sn : ssorted new).
      { apply (forall2_mono_sorted old new (name_map target source) F So).
        intros x y fx fy Hx Hy. apply M; now apply Hold. }
      apply strictly_increasing_iff in Sn. unfold order_valid in Ov. congruence.
  - eexists; split; [reflexivity|]. split; [intros (r & Hr); discriminate|].
    intros (A & _). exfalso. destruct (A x ltac:(now apply Hold)) as (y & Hy). congruence.
Qed.
Print Assumptions transfer_some_iff.

Theorem transfer_sem target b source r : wf b -> transfer_from target b source = Ok (Some r) ->
  wf r /\ nvars r = N.of_nat (length target) /\
  (forall v, eval r v = eval b (fun x => v (name_fn target source x))) /\
  (forall x, in_support b x -> exists y, name_map target source x = Some y) /\
  (reduced b -> reduced r) /\ (Canonical b -> Canonical r).
Proof.
  intros W. unfold transfer_from. set (tn := N.of_nat (length target)).
  destruct (is_false b) eqn:Ef.
  { intros H. inversion H; subst r. apply N.eqb_eq in Ef. pose proof (rn_canonical_mk_false tn) as C.
    split; [apply C|]. split; [reflexivity|]. split.
    - intros v. unfold eval. rewrite Ef. reflexivity.
    - split; [intros x Hx; exfalso; apply (support_empty_small b ltac:(lia) x Hx)|]. split; intros _; apply C. }
  destruct (is_true b) eqn:Et.
  { intros H. inversion H; subst r. apply N.eqb_eq in Et. pose proof (rn_canonical_mk_true tn) as C.
    split; [apply C|]. split; [reflexivity|]. split.
    - intros v. unfold eval. rewrite Et. reflexivity.
    - split; [intros x Hx; exfalso; apply (support_empty_small b ltac:(lia) x Hx)|]. split; intros _; apply C. }
  pose proof (size3 b W Ef Et) as H3.
  set (old := support_sorted b).
  assert (Hold : forall x, In x old <-> in_support b x) by (intros x; apply support_sorted_in).
  pose proof (support_sorted_sorted b) as So. fold old in So.
  destruct (translate target source old) as [[new|]| |] eqn:E; try discriminate.
  destruct (order_valid new) eqn:Ov; cbn [negb]; [|discriminate].
  destruct (copy_nodes (combine old new) (skipn 2 b)) as [l| |] eqn:Ec; try discriminate.
  intros H. assert (Hr' : r = mk_true tn ++ l) by (inversion H; reflexivity). subst r. clear H.
  assert (F : Forall2 (by_name target source) old new).
  { clear -E. revert new E. induction old as [|x r IH]; intros new E; cbn [translate] in E.
    - inversion E. constructor.
    - destruct (nth_error source (N.to_nat x)) as [nm|] eqn:En; [|discriminate].
      destruct (tr_var_by_name target nm) as [id|] eqn:Ev; [|discriminate].
      destruct (translate target source r) as [[ids|]| |] eqn:Er; try discriminate.
      inversion E; subst new. constructor; [|now apply IH]. unfold by_name, name_map. now rewrite En. }
  assert (Hsome : forall x, in_support b x -> exists y, name_map target source x = Some y).
  { intros x Hx. apply Hold in Hx. clear -F Hx. induction F as [|a c old new Hac F IH]; [destruct Hx|].
    destruct Hx as [->|Hx]; [now exists c|now apply IH]. }
  pose proof (transfer_relabel target b source l W H3 new E F Ov Ec) as Hr. fold tn in Hr. rewrite Hr.
  assert (M : mono_on b (name_fn target source)).
  { intros x y Hx Hy Hlt. destruct (Hsome x Hx) as (fx & Gx). destruct (Hsome y Hy) as (fy & Gy).
    unfold name_fn. rewrite Gx, Gy.
    assert (Sn : ssorted new) by (now apply strictly_increasing_iff).
    apply (forall2_sorted_mono old new (name_map target source) F So Sn x y fx fy); try assumption; now apply Hold. }
  assert (R : forall x, in_support b x -> name_fn target source x < tn).
  { intros x Hx. destruct (Hsome x Hx) as (fx & Gx). unfold name_fn. rewrite Gx. now apply name_map_spec in Gx. }
  split; [now apply relabel_wf|]. split; [now apply nvars_relabel|].
  split; [intros v; now apply relabel_sem|]. split; [exact Hsome|].
  split; [now apply relabel_reduced | now apply relabel_canonical].
Qed.
Print Assumptions transfer_sem.

(* a diagram that does not belong to the source set (a support variable without a name) makes name_of panic,
   unless an earlier variable already caused the answer None *)
Theorem transfer_no_panic target b source : wf b ->
  (forall x, in_support b x -> x < N.of_nat (length source)) ->
  transfer_from target b source <> Panic /\ transfer_from target b source <> OutOfFuel.
Proof.
  intros W H. destruct (transfer_some_iff target b source W H) as (o & -> & _). split; discriminate.
Qed.

(* ======================================================================================== *)
(* D7 (repaired in /repo by a6e225f): the former rename_variables rewrote every node, terminals included.       *)
Definition rename_variables_legacy (b : bdd) (m : list (N * N)) : outcome bdd :=
  match support_sorted b with
  | [] => Ok b
  | cur =>
    let after := map (apply_map m) cur in
    if negb (forallb (fun y => y <? nvars b) after) then Panic
    else if negb (strictly_increasing after) then Panic
    else Ok (map (fun n => match map_get m (nvar n) with Some y => set_var n y | None => n end) b)
  end.
Example rename_variables_legacy_refuted :
  let b := [mkNode 3 0 0; mkNode 3 1 1; mkNode 1 0 1] in
  wfb b = true /\ exists r, rename_variables_legacy b [(3, 0)] = Ok r /\ wfb r = false /\ nvars r = 0.
Proof. split; [reflexivity|]. eexists. split; [reflexivity|]. split; reflexivity. Qed.
