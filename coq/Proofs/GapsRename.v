(* Proofs/GapsRename.v — exactly when Bdd::rename_variable panics (src/_impl_bdd/_impl_util.rs lines 96-128):
   the two range asserts; then, unless old = new (early return), a support variable strictly between the two
   indices, or the new index already in the support.  No hypothesis on the diagram. *)
From Coq Require Import List NArith Lia Bool.
Import ListNotations.
From BddVerif Require Import Model.Bdd Model.Apply Model.Ops Model.Rename Proofs.Sem Proofs.Canon
  Proofs.RenameSem Proofs.RenameOps.
Open Scope N_scope.

Lemma between_true sup lo hi : between_in_support sup lo hi = true ->
  exists x, In x sup /\ lo < x /\ x < hi.
Proof.
  unfold between_in_support. intros H. apply existsb_exists in H. destruct H as (i & Hi & Hm).
  apply in_seq in Hi. exists (N.of_nat i). split; [now apply mem_iff|]. lia.
Qed.

Lemma between_iff sup lo hi : between_in_support sup lo hi = true <-> exists x, In x sup /\ lo < x /\ x < hi.
Proof.
  split; [apply between_true|]. intros (x & Hx & Hlo & Hhi).
  destruct (between_in_support sup lo hi) eqn:E; [reflexivity|]. exfalso. eapply between_false; eassumption.
Qed.

Theorem rename_variable_panic_iff b old new :
  rename_variable b old new = Panic <->
  (nvars b <= old \/ nvars b <= new \/
   (old <> new /\ ((exists x, in_support b x /\ N.min old new < x /\ x < N.max old new) \/ in_support b new))).
Proof.
  unfold rename_variable, in_support.
  destruct (N.ltb_spec old (nvars b)) as [Ho|Ho]; cbn [negb]; [|split; [intros _; now left|reflexivity]].
  destruct (N.ltb_spec new (nvars b)) as [Hn|Hn]; cbn [negb]; [|split; [intros _; right; now left|reflexivity]].
  destruct (N.eqb_spec old new) as [E|NE].
  - split; [discriminate|]. intros [H|[H|(H & _)]]; [lia|lia|contradiction].
  - destruct (between_in_support (support b) (N.min old new) (N.max old new)) eqn:Eb.
    + split; [intros _|reflexivity]. right. right. split; [exact NE|]. left. now apply between_iff.
    + destruct (mem new (support b)) eqn:Em.
      * split; [intros _|reflexivity]. right. right. split; [exact NE|]. right. now apply mem_iff.
      * split; [discriminate|]. intros [H|[H|(_ & [H|H])]]; try lia.
        -- apply between_iff in H. congruence.
        -- apply mem_iff in H. congruence.
Qed.
Print Assumptions rename_variable_panic_iff.

(* with the existing theorem: for a valid diagram every other call succeeds with the renamed function *)
Corollary rename_variable_ok_iff b old new : wf b ->
  (old < nvars b /\ new < nvars b /\
   (old = new \/ ((forall x, in_support b x -> N.min old new < x -> x < N.max old new -> False) /\ ~ in_support b new))) <->
  exists r, rename_variable b old new = Ok r /\ wf r /\ nvars r = nvars b /\
    (forall v, eval r v = eval b (fun x => if x =? old then v new else v x)) /\
    (reduced b -> reduced r) /\ (Canonical b -> Canonical r).
Proof.
  intros W. pose proof (rename_variable_panic_iff b old new) as P.
  split.
  - intros (Ho & Hn & H).
    destruct (rename_variable_ok_or_panic b old new W) as [Q|Q]; [|exact Q]. exfalso.
    apply P in Q. destruct Q as [Q|[Q|(NE & Q)]]; try lia.
    destruct H as [H|(H1 & H2)]; [contradiction|].
    destruct Q as [(x & Hx & Hlo & Hhi)|Q]; [eapply H1; eassumption|contradiction].
  - intros (r & E & _).
    assert (NP : rename_variable b old new <> Panic) by congruence.
    destruct (N.ltb_spec old (nvars b)) as [Ho|Ho]; [|exfalso; apply NP, P; now left].
    destruct (N.ltb_spec new (nvars b)) as [Hn|Hn]; [|exfalso; apply NP, P; right; now left].
    split; [exact Ho|]. split; [exact Hn|].
    destruct (N.eq_dec old new) as [EQ|NE]; [now left|right]. split.
    + intros x Hx Hlo Hhi. apply NP, P. right. right. split; [exact NE|]. left. now exists x.
    + intros Hx. apply NP, P. right. right. split; [exact NE|]. now right.
Qed.
Print Assumptions rename_variable_ok_iff.

(* each disjunct is reachable; old = new succeeds even when the variable is in the support *)
Example rename_variable_panic_example :
  let b := [mkNode 4 0 0; mkNode 4 1 1; mkNode 2 0 1; mkNode 0 2 1] in
  wfb b = true /\
  rename_variable b 4 1 = Panic /\ rename_variable b 1 4 = Panic /\
  rename_variable b 0 3 = Panic /\ rename_variable b 3 1 = Panic /\ rename_variable b 3 0 = Panic /\
  rename_variable b 0 2 = Panic /\ rename_variable b 1 2 = Panic /\
  rename_variable b 2 2 = Ok b /\ rename_variable b 1 3 = Panic /\
  rename_variable b 3 1 = Panic /\ rename_variable b 1 1 = Ok b /\
  rename_variable b 2 1 = Ok [mkNode 4 0 0; mkNode 4 1 1; mkNode 1 0 1; mkNode 0 2 1] /\
  rename_variable b 2 3 = Ok [mkNode 4 0 0; mkNode 4 1 1; mkNode 3 0 1; mkNode 0 2 1].
Proof. vm_compute. repeat split; reflexivity. Qed.
