(* Proofs/ExprTable.v — the table-shaped parts of the expression front end (tokenizer arms, NOT_IN_VAR_NAME, the
   precedence chain of the recursive-descent parser, the Display format strings, the bdd! rules) as explicit tables,
   each with the lemma that the hand-written model function IS that table.  coq/Generated/ExprTables.v (written by
   tools/gen_expr.py from the Rust source on every run of the C14/C15 checks) states that the tables read off the
   source are these tables. *)
From Coq Require Import List NArith Bool. Import ListNotations.
From BddVerif Require Import Model.Bdd Model.Apply Model.Ops Model.Expr.
Open Scope N_scope.

(* ---- tokenizer: the single-character arms `'c' => output.push(ExprToken::T)`, sorted by code point *)
Definition model_single : list (N * token) :=
  [(33, TNot); (38, TAnd); (58, TColon); (63, TQuestion); (94, TXor); (124, TOr)].

Lemma single_token_spec c t : In (c, t) model_single ->
  forall f r top, tokenize_group (S f) (c :: r) top = tcons t (tokenize_group f r top).
Proof.
  intros H f r top. cbn [model_single In] in H.
  repeat (destruct H as [H|H]; [inversion H; subst; reflexivity|]). destruct H.
Qed.

(* `=>` and `<=>` *)
Definition model_multi : list (list N * token) := [([61; 62], TImp); ([60; 61; 62], TIff)].
Lemma multi_token_spec s t : In (s, t) model_multi ->
  forall f r top, tokenize_group (S f) (s ++ r) top = tcons t (tokenize_group f r top).
Proof.
  intros H f r top. cbn [model_multi In] in H.
  repeat (destruct H as [H|H]; [inversion H; subst; reflexivity|]). destruct H.
Qed.

(* ---- NOT_IN_VAR_NAME, sorted *)
Definition model_reserved : list N := [33; 38; 40; 41; 58; 60; 61; 62; 63; 94; 124].
Lemma reserved_spec c : reserved c = existsb (N.eqb c) model_reserved.
Proof.
  unfold reserved, model_reserved. cbn [existsb].
  destruct (c =? 33), (c =? 38), (c =? 124), (c =? 94), (c =? 61), (c =? 60), (c =? 62), (c =? 40), (c =? 41), (c =? 63), (c =? 58);
    reflexivity.
Qed.

(* ---- precedence chain: one row per binary level
   (level, operator token, constructor, level of the left operand, level of the right operand, level when absent) *)
Inductive bctor := CIff | CImp | COr | CAnd | CXor.
Definition mk_of (c : bctor) : expr -> expr -> expr :=
  match c with CIff => EIff | CImp => EImp | COr => EOr | CAnd => EAnd | CXor => EXor end.
Definition tok_is (t : token) : token -> bool :=
  match t with
  | TNot => is_not | TAnd => is_and | TOr => is_or | TXor => is_xor | TImp => is_imp | TIff => is_iff
  | TColon => is_colon | TQuestion => is_question | _ => fun _ => false
  end.
Record level_row := mkRow { r_level : level; r_tok : token; r_ctor : bctor; r_left : level; r_right : level; r_else : level }.
Definition model_levels : list level_row :=
  [ mkRow LIff TIff CIff LImp LIff LImp;
    mkRow LImp TImp CImp LCond LImp LCond;
    mkRow LOr TOr COr LAnd LOr LAnd;
    mkRow LAnd TAnd CAnd LXor LAnd LXor;
    mkRow LXor TXor CXor LTerm LXor LTerm ].

Lemma parse_level_spec row : In row model_levels -> forall f ts,
  parse_at (S f) (r_level row) ts =
  match index_of (tok_is (r_tok row)) ts with
  | Some i =>
    with_slice ts O i (fun l => pbind (parse_at f (r_left row) l) (fun a =>
    with_slice ts (S i) (length ts) (fun r => pbind (parse_at f (r_right row) r) (fun b => POk (mk_of (r_ctor row) a b)))))
  | None => parse_at f (r_else row) ts
  end.
Proof.
  intros H f ts. cbn [model_levels In] in H.
  repeat (destruct H as [H|H]; [subst row; reflexivity|]). destruct H.
Qed.

(* the conditional level: (level, `?`, `:`, level of the three parts, level when both are absent) and the entry point *)
Definition model_cond : level * token * token * list level * level := (LCond, TQuestion, TColon, [LOr; LOr; LOr], LOr).
Lemma parse_cond_spec f ts :
  parse_at (S f) LCond ts =
  match index_of (tok_is TQuestion) ts, index_of (tok_is TColon) ts with
  | None, None => parse_at f LOr ts
  | Some q, Some c =>
    with_slice ts O q (fun s1 => pbind (parse_at f LOr s1) (fun a =>
    with_slice ts (S q) c (fun s2 => pbind (parse_at f LOr s2) (fun b =>
    with_slice ts (S c) (length ts) (fun s3 => pbind (parse_at f LOr s3) (fun d => POk (ECond a b d)))))))
  | _, _ => PErr
  end.
Proof. reflexivity. Qed.
Definition model_entry : level * level := (LIff, LTerm).   (* parse_formula: iff(data), or terminal(data) for a single group *)
Lemma parse_entry_spec f ts :
  parse_at (S f) LFormula ts = match ts with [TGroup _] => parse_at f LTerm ts | _ => parse_at f LIff ts end.
Proof. reflexivity. Qed.

(* the terminal level: the negation prefix, the two keywords, the level a parenthesised group is parsed at *)
Definition model_terminal : token * list (name * bool) * level := (TNot, [(s_true, true); (s_false, false)], LFormula).
Lemma parse_terminal_spec f ts :
  parse_at (S f) LTerm ts =
  match ts with
  | [] => PErr
  | t :: rest =>
    if tok_is TNot t then pbind (parse_at f LTerm rest) (fun a => POk (ENot a))
    else match rest with
         | _ :: _ => PErr
         | [] => match t with
                 | TId x => POk (if name_eqb x s_true then EConst true else if name_eqb x s_false then EConst false else EVar x)
                 | TGroup inner => parse_at f LFormula inner
                 | _ => PErr
                 end
         end
  end.
Proof. reflexivity. Qed.

(* ---- Display: the literal pieces of each format string, e.g. "({} & {})" = ["("; " & "; ")"] *)
Definition model_show_binary : list (bctor * list (list N)) :=
  [ (CAnd, [[40]; [32; 38; 32]; [41]]);
    (COr, [[40]; [32; 124; 32]; [41]]);
    (CXor, [[40]; [32; 94; 32]; [41]]);
    (CImp, [[40]; [32; 61; 62; 32]; [41]]);
    (CIff, [[40]; [32; 60; 61; 62; 32]; [41]]) ].
Lemma show_binary_spec c p i s : In (c, [p; i; s]) model_show_binary ->
  forall a b, show (mk_of c a b) = p ++ show a ++ i ++ show b ++ s.
Proof.
  intros H a b. cbn [model_show_binary In] in H.
  repeat (destruct H as [H|H]; [inversion H; subst; reflexivity|]). destruct H.
Qed.
Definition model_show_not : list (list N) := [[33]; []].
Lemma show_not_spec a : show (ENot a) = nth 0 model_show_not [] ++ show a ++ nth 1 model_show_not [].
Proof. cbn. now rewrite app_nil_r. Qed.
Definition model_show_cond : list (list N) := [[40]; [32; 63; 32]; [32; 58; 32]; [41]].
Lemma show_cond_spec a b c :
  show (ECond a b c) = nth 0 model_show_cond [] ++ show a ++ nth 1 model_show_cond [] ++ show b ++
                       nth 2 model_show_cond [] ++ show c ++ nth 3 model_show_cond [].
Proof. reflexivity. Qed.

Definition model_show_leaf : list (list (list N)) := [[[]; []]; [[]; []]].   (* Const: "{}" of a bool, Variable: "{}" *)
Lemma show_leaf_spec : (forall c, show (EConst c) = if c then s_true else s_false) /\ (forall x, show (EVar x) = x).
Proof. split; reflexivity. Qed.

(* ---- bdd!: operator symbol -> method, for the rules with and without a variable set *)
Inductive mname := MthNot | MthAnd | MthOr | MthIff | MthImp | MthXor.
Definition method_op (m : mname) : option op2 :=
  match m with
  | MthNot => None | MthAnd => Some op_and | MthOr => Some op_or | MthIff => Some op_iff | MthImp => Some op_imp | MthXor => Some op_xor
  end.
Definition model_macro : list (bool * msym * mname) :=
  [ (true, MNot, MthNot); (true, MAnd, MthAnd); (true, MOr, MthOr); (true, MIff, MthIff); (true, MImp, MthImp); (true, MXor, MthXor);
    (false, MNot, MthNot); (false, MAnd, MthAnd); (false, MOr, MthOr); (false, MIff, MthIff); (false, MImp, MthImp); (false, MXor, MthXor) ].
Lemma macro_spec v s m : In (v, s, m) model_macro -> macro_binary s = method_op m.
Proof.
  intros H. cbn [model_macro In] in H.
  repeat (destruct H as [H|H]; [inversion H; subst; reflexivity|]). destruct H.
Qed.
